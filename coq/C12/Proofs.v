(* C12 — lemmas.  Part A: generic facts about the scanners on plain strings. *)
From Coq Require Import ZArith List Bool Lia ZifyBool.
From Verif Require Import C12.Impl C12.Spec C12.Model.
Import ListNotations.
Open Scope Z_scope.

(* Everything below is about an instance constructed with an arbitrary custom filter table FT
   (Ribosome(filters=FT)) whose names are identifiers. *)
Section WithFilterTable.
Context {FT : FTable} (HFT : ftable_ok FT = true).

(* ------------------------------------------------------------------ *)
(* A. scan                                                              *)

Lemma scan_skip : forall {M} (mt : list Z -> option (M * nat)) (p s : str),
  scan mt (length p) (p ++ s) = scan mt O s.
Proof.
  induction p as [|a p IH]; intros s; cbn [length app scan]; auto.
Qed.

Lemma firstn_app_exact : forall {X} (p s : list X), firstn (length p) (p ++ s) = p.
Proof.
  intros. rewrite firstn_app, Nat.sub_diag, firstn_all. cbn. apply app_nil_r.
Qed.

Lemma scan_match : forall {M} (mt : list Z -> option (M * nat)) (a : Z) (p s : str) m,
  mt (a :: p ++ s) = Some (m, S (length p)) ->
  scan mt O (a :: p ++ s) = TMatch m (a :: p) :: scan mt O s.
Proof.
  intros. cbn [scan]. rewrite H. cbn [pred].
  rewrite scan_skip. f_equal. f_equal.
  change (a :: p ++ s) with ((a :: p) ++ s).
  change (S (length p)) with (length (a :: p)). apply firstn_app_exact.
Qed.

Lemma scan_lit : forall {M} (mt : list Z -> option (M * nat)) (a : Z) (s : str),
  mt (a :: s) = None -> scan mt O (a :: s) = TLit a :: scan mt O s.
Proof. intros. cbn [scan]. rewrite H. reflexivity. Qed.

(* a matcher that can only match at "{{" *)
Definition needs_open {M} (mt : list Z -> option (M * nat)) : Prop :=
  (forall c r, c <> LB -> mt (c :: r) = None) /\
  (forall c r, c <> LB -> mt (LB :: c :: r) = None) /\
  mt [LB] = None /\ mt [] = None.

Definition nolb (s : str) : Prop := Forall (fun c => c <> LB) s.

Lemma scan_nolb : forall {M} (mt : list Z -> option (M * nat)) (p s : str),
  needs_open mt -> nolb p ->
  scan mt O (p ++ s) = map TLit p ++ scan mt O s.
Proof.
  intros M mt p s [H1 _] Hp. induction Hp as [|c p Hc Hp IH]; cbn [app map]; auto.
  rewrite scan_lit by (apply H1; auto). rewrite IH. reflexivity.
Qed.

Lemma nobrace_nolb : forall s, nobrace s = true -> nolb s.
Proof.
  unfold nobrace, nolb. intros s H. rewrite forallb_forall in H. apply Forall_forall.
  intros c Hc. specialize (H c Hc). unfold LB in *. lia.
Qed.

Lemma nolb_app : forall a b, nolb a -> nolb b -> nolb (a ++ b).
Proof. unfold nolb. intros. apply Forall_app; auto. Qed.

(* a construct  {{ i0 inner }}  that the matcher does not match at its start is copied *)
Lemma scan_construct_nomatch : forall {M} (mt : list Z -> option (M * nat)) (i0 : Z) (inner s : str),
  needs_open mt -> i0 <> LB -> nolb inner ->
  mt (LB :: LB :: i0 :: inner ++ RB :: RB :: s) = None ->
  scan mt O (LB :: LB :: i0 :: inner ++ RB :: RB :: s) =
  map TLit (LB :: LB :: i0 :: inner ++ [RB; RB]) ++ scan mt O s.
Proof.
  intros M mt i0 inner s Hno Hi0 Hin H0.
  destruct Hno as (H1 & H2 & H3 & H4).
  rewrite scan_lit by exact H0.
  rewrite scan_lit by (apply H2; auto).
  assert (Hn : nolb (i0 :: inner ++ [RB; RB])).
  { constructor; auto. apply nolb_app; auto. repeat constructor; unfold RB, LB; lia. }
  assert (E : i0 :: inner ++ RB :: RB :: s = (i0 :: inner ++ [RB; RB]) ++ s).
  { cbn [app]. rewrite <- app_assoc. reflexivity. }
  rewrite E.
  rewrite (scan_nolb mt (i0 :: inner ++ [RB; RB]) s).
  - cbn [map app]. reflexivity.
  - repeat split; auto.
  - exact Hn.
Qed.

(* subst over concatenated token lists *)
Lemma subst_app : forall {M} (f : M -> str -> str) (a b : list (tok Z M)),
  subst f (a ++ b) = subst f a ++ subst f b.
Proof. intros. unfold subst. apply flat_map_app. Qed.

Lemma subst_lits : forall {M} (f : M -> str -> str) (p : str),
  subst f (map TLit p) = p.
Proof.
  intros. unfold subst. induction p; cbn; auto. f_equal. exact IHp.
Qed.

Lemma matches_app : forall {M} (a b : list (tok Z M)),
  matches (a ++ b) = matches a ++ matches b.
Proof. intros. unfold matches. apply flat_map_app. Qed.

Lemma matches_lits : forall {M} (p : str), @matches Z M (map TLit p) = [].
Proof. intros. unfold matches. induction p; cbn; auto. Qed.

(* ------------------------------------------------------------------ *)
(* B. characters, span, the matchers at the start of a construct         *)

Lemma map_idz : forall s : str, map idz s = s.
Proof. induction s; cbn; auto. unfold idz at 1. f_equal. exact IHs. Qed.

Lemma codes_idz : forall s : str, codes idz s = s.
Proof. exact map_idz. Qed.

Lemma is_word_facts : forall c, is_word c = true ->
  c <> 35 /\ c <> 46 /\ c <> 47 /\ c <> 62 /\ c <> 63 /\ c <> 123 /\ c <> 124 /\ c <> 125 /\
  is_space c = false.
Proof. unfold is_word, is_space. intros. lia. Qed.

Lemma span_app : forall f (x : str) c r,
  forallb f x = true -> f c = false -> span idz f (x ++ c :: r) = (x, c :: r).
Proof.
  induction x as [|a x IH]; intros c r Hx Hc; cbn [app span].
  - unfold idz at 1. rewrite Hc. reflexivity.
  - cbn [forallb] in Hx. apply andb_prop in Hx. destruct Hx as [Ha Hx].
    unfold idz at 1. rewrite Ha. rewrite (IH c r Hx Hc). reflexivity.
Qed.

Lemma span_not : forall f c r, f c = false -> span idz f (c :: r) = ([], c :: r).
Proof. intros. apply (span_app f [] c r); auto. Qed.

Lemma word_cons : forall x, word x = true ->
  exists x0 x', x = x0 :: x' /\ is_word x0 = true /\ forallb is_word x' = true.
Proof.
  unfold word. intros [|x0 x'] H; cbn in H; try discriminate.
  apply andb_prop in H. destruct H. eauto.
Qed.

Lemma word_forall : forall x, word x = true -> forallb is_word x = true.
Proof. unfold word. intros x H. apply andb_prop in H. tauto. Qed.
Lemma word_nonempty : forall x, word x = true -> nonempty x = true.
Proof. unfold word. intros x H. apply andb_prop in H. tauto. Qed.

Ltac zeq :=
  repeat match goal with
         | |- context [Z.eqb ?a ?b] => destruct (Z.eqb_spec a b); try lia; try congruence
         end; try reflexivity.

(* explicit shapes of the printed leaves *)
Lemma pr_var : forall x s, print_leaf (LVar x) ++ s = 123 :: 123 :: x ++ 125 :: 125 :: s.
Proof. intros. cbn. rewrite <- app_assoc. reflexivity. Qed.
Lemma pr_dot : forall s, print_leaf LDot ++ s = 123 :: 123 :: 46 :: 125 :: 125 :: s.
Proof. reflexivity. Qed.
Lemma pr_opt : forall x s, print_leaf (LOpt x) ++ s = 123 :: 123 :: 63 :: x ++ 125 :: 125 :: s.
Proof. intros. cbn. rewrite <- app_assoc. reflexivity. Qed.
Lemma pr_inc : forall x s, print_leaf (LInc x) ++ s = 123 :: 123 :: 62 :: x ++ 125 :: 125 :: s.
Proof. intros. cbn. rewrite <- app_assoc. reflexivity. Qed.
Lemma pr_pipe : forall x w s,
  print_leaf (LPipe x w) ++ s = 123 :: 123 :: x ++ 124 :: w ++ 125 :: 125 :: s.
Proof.
  intros. unfold print_leaf, K_OPEN, K_CLOSE. repeat rewrite <- app_assoc. reflexivity.
Qed.

(* the third code point decides which matcher can apply *)
Lemma m_if_kind : forall k t, k <> 35 -> m_if idz (123 :: 123 :: k :: t) = None.
Proof. intros. unfold m_if, m_each, m_include, m_optional. cbn. unfold idz. zeq. Qed.
Lemma m_each_kind : forall k t, k <> 35 -> m_each idz (123 :: 123 :: k :: t) = None.
Proof. intros. unfold m_if, m_each, m_include, m_optional. cbn. unfold idz. zeq. Qed.
Lemma m_include_kind : forall k t, k <> 62 -> m_include idz (123 :: 123 :: k :: t) = None.
Proof. intros. unfold m_if, m_each, m_include, m_optional. cbn. unfold idz. zeq. Qed.
Lemma m_optional_kind : forall k t, k <> 63 -> m_optional idz (123 :: 123 :: k :: t) = None.
Proof. intros. unfold m_if, m_each, m_include, m_optional. cbn. unfold idz. zeq. Qed.
Lemma m_simple_kind : forall k t, is_word k = false -> m_simple idz (123 :: 123 :: k :: t) = None.
Proof. intros. unfold m_simple. cbn -[span]. rewrite span_not by auto. reflexivity. Qed.
Lemma m_filtered_kind : forall k t, is_word k = false -> m_filtered idz (123 :: 123 :: k :: t) = None.
Proof. intros. unfold m_filtered. cbn -[span]. rewrite span_not by auto. reflexivity. Qed.
Lemma m_default_kind : forall k t, is_word k = false -> m_default idz (123 :: 123 :: k :: t) = None.
Proof. intros. unfold m_default. cbn -[span]. rewrite span_not by auto. reflexivity. Qed.

Ltac no_open :=
  unfold needs_open, m_if, m_each, m_include, m_optional, m_simple, m_filtered, m_default;
  repeat split; intros; unfold LB in *; cbn; unfold idz; zeq; auto.

Lemma no_if : needs_open (m_if idz). Proof. no_open. Qed.
Lemma no_each : needs_open (m_each idz). Proof. no_open. Qed.
Lemma no_include : needs_open (m_include idz). Proof. no_open. Qed.
Lemma no_optional : needs_open (m_optional idz). Proof. no_open. Qed.
Lemma no_simple : needs_open (m_simple idz). Proof. no_open. Qed.
Lemma no_filtered : needs_open (m_filtered idz). Proof. no_open. Qed.
Lemma no_default : needs_open (m_default idz). Proof. no_open. Qed.

(* ------------------------------------------------------------------ *)
(* C. a scanner over the print of a list of well-formed leaves           *)

(* [leaf_sc]: what a pass needs of a leaf of the partially rendered text ("scannable"):
   like Spec.leaf_wf, but substituted text only has to be brace-free (it may contain the
   shielding sentinels). *)
Definition leaf_sc (l : leaf) : bool :=
  match l with
  | LText s => nobrace s
  | LVar x | LOpt x | LInc x => word x
  | LDot => true
  | LPipe x w => word x && nonempty w && nobrace w
  end.

Lemma clean_nobrace : forall s, clean s = true -> nobrace s = true.
Proof. unfold clean. intros s H. apply andb_prop in H. tauto. Qed.
Lemma clean_nosent : forall s, clean s = true -> nosent s = true.
Proof. unfold clean. intros s H. apply andb_prop in H. tauto. Qed.

Lemma wf_sc : forall l, leaf_wf l = true -> leaf_sc l = true.
Proof.
  intros [s|x| |x|x w|x] H; cbn in *; auto using clean_nobrace.
  apply andb_prop in H. destruct H as [H Hc].
  rewrite H, (clean_nobrace w Hc). reflexivity.
Qed.

(* what the scanners need to know about a leaf: brace-free text, or one construct
   {{ i0 inner }} whose only "{" are the two opening ones.  Besides the well-formed
   leaves this also covers the block delimiters, read as pseudo-leaves (section J). *)
Definition shaped (l : leaf) : Prop :=
  (exists s, l = LText s /\ nobrace s = true) \/
  ((forall s, l <> LText s) /\
   exists i0 inner, print_leaf l = LB :: LB :: i0 :: inner ++ [RB; RB] /\ i0 <> LB /\ nolb inner).

Lemma leaf_shape : forall l, leaf_sc l = true -> shaped l.
Proof.
  unfold shaped.
  intros [s|x| |x|x w|x] H; cbn [leaf_sc] in H; [|right; split; [discriminate|]..]; [| | | | |].
  - left. eauto.
  - destruct (word_cons x H) as (x0 & x' & -> & H0 & H1).
    exists x0, x'. split; [reflexivity|]. split.
    + apply is_word_facts in H0. unfold LB. lia.
    + apply Forall_forall. intros c Hc. rewrite forallb_forall in H1.
      apply H1 in Hc. apply is_word_facts in Hc. unfold LB. lia.
  - exists 46, []. repeat split; auto. unfold LB; lia. constructor.
  - exists 63, x. split; [reflexivity|]. split; [unfold LB; lia|].
    apply word_forall in H. apply Forall_forall. intros c Hc. rewrite forallb_forall in H.
    apply H in Hc. apply is_word_facts in Hc. unfold LB. lia.
  - apply andb_prop in H. destruct H as [H Hnb].
    apply andb_prop in H. destruct H as [H Hne].
    destruct (word_cons x H) as (x0 & x' & -> & Hx0 & Hx').
    exists x0, (x' ++ 124 :: w). split.
    { unfold print_leaf, K_OPEN, K_CLOSE. cbn [app]. repeat rewrite <- app_assoc. reflexivity. }
    split. { apply is_word_facts in Hx0. unfold LB. lia. }
    apply nolb_app.
    + apply Forall_forall. intros c Hc. rewrite forallb_forall in Hx'.
      apply Hx' in Hc. apply is_word_facts in Hc. unfold LB. lia.
    + constructor. unfold LB; lia. apply nobrace_nolb. auto.
  - exists 62, x. split; [reflexivity|]. split; [unfold LB; lia|].
    apply word_forall in H. apply Forall_forall. intros c Hc. rewrite forallb_forall in H.
    apply H in Hc. apply is_word_facts in Hc. unfold LB. lia.
Qed.

Lemma print_leaves_cons : forall l ls s,
  print_leaves (l :: ls) ++ s = print_leaf l ++ (print_leaves ls ++ s).
Proof. intros. unfold print_leaves. cbn [flat_map]. rewrite <- app_assoc. reflexivity. Qed.

Section Master.
  Variable M : Type.
  Variable mt : list Z -> option (M * nat).
  Variable act : leaf -> option M.
  Hypothesis Hopen : needs_open mt.

  Definition agrees (l : leaf) : Prop := forall s,
    match act l with
    | Some m => mt (print_leaf l ++ s) = Some (m, length (print_leaf l)) /\ print_leaf l <> []
    | None => match l with LText _ => True | _ => mt (print_leaf l ++ s) = None end
    end.

  Definition leaf_toks (l : leaf) : list (tok Z M) :=
    match act l with
    | Some m => [TMatch m (print_leaf l)]
    | None => map TLit (print_leaf l)
    end.

  Lemma scan_leaves : forall ls s,
    Forall (fun l => shaped l /\ agrees l) ls ->
    scan mt O (print_leaves ls ++ s) = flat_map leaf_toks ls ++ scan mt O s.
  Proof.
    intros ls s H. induction H as [|l ls [Hwf Hag] Hls IH].
    - reflexivity.
    - rewrite print_leaves_cons. cbn [flat_map]. rewrite <- app_assoc. rewrite <- IH.
      set (rest := print_leaves ls ++ s). unfold leaf_toks.
      specialize (Hag rest). destruct (act l) as [m|] eqn:Ea.
      + destruct Hag as [Hm Hne]. destruct (print_leaf l) as [|a p] eqn:Ep; [congruence|].
        cbn [app] in *. rewrite (scan_match mt a p rest m Hm). reflexivity.
      + destruct Hwf as [(t & -> & Ht)|(Hnt & i0 & inner & Ep & Hi & Hin)].
        * cbn [print_leaf]. apply scan_nolb; auto. apply nobrace_nolb; auto.
        * assert (Hn : mt (print_leaf l ++ rest) = None).
          { destruct l; auto. exfalso. eapply Hnt. reflexivity. }
          rewrite Ep in *. cbn [app] in *. rewrite <- app_assoc in *. cbn [app] in *.
          rewrite (scan_construct_nomatch mt i0 inner rest Hopen Hi Hin Hn).
          reflexivity.
  Qed.
End Master.

(* ------------------------------------------------------------------ *)
(* D. what each matcher does at the start of each well-formed leaf       *)

Lemma len_var : forall x, length (print_leaf (LVar x)) = (4 + length x)%nat.
Proof. intros. cbn. rewrite app_length. cbn. lia. Qed.
Lemma len_opt : forall x, length (print_leaf (LOpt x)) = (5 + length x)%nat.
Proof. intros. cbn. rewrite app_length. cbn. lia. Qed.
Lemma len_inc : forall x, length (print_leaf (LInc x)) = (5 + length x)%nat.
Proof. intros. cbn. rewrite app_length. cbn. lia. Qed.
Lemma len_pipe : forall x w, length (print_leaf (LPipe x w)) = (5 + length x + length w)%nat.
Proof. intros. unfold print_leaf, K_OPEN, K_CLOSE. repeat rewrite app_length. cbn. lia. Qed.

Lemma m_simple_var : forall x s, word x = true ->
  m_simple idz (print_leaf (LVar x) ++ s) = Some (x, length (print_leaf (LVar x))).
Proof.
  intros. rewrite pr_var, len_var. unfold m_simple. cbn -[span].
  rewrite span_app; auto using word_forall. rewrite word_nonempty by auto.
  cbn. rewrite codes_idz. reflexivity.
Qed.

Lemma m_optional_opt : forall x s, word x = true ->
  m_optional idz (print_leaf (LOpt x) ++ s) = Some (x, length (print_leaf (LOpt x))).
Proof.
  intros. rewrite pr_opt, len_opt. unfold m_optional. cbn -[span].
  rewrite span_app; auto using word_forall. rewrite word_nonempty by auto.
  cbn. rewrite codes_idz. reflexivity.
Qed.

Lemma m_include_inc : forall x s, word x = true ->
  m_include idz (print_leaf (LInc x) ++ s) = Some (x, length (print_leaf (LInc x))).
Proof.
  intros. rewrite pr_inc, len_inc. unfold m_include. cbn -[span].
  rewrite span_app; auto using word_forall. rewrite word_nonempty by auto.
  cbn. rewrite codes_idz. reflexivity.
Qed.

Lemma m_simple_pipe : forall x w s, word x = true ->
  m_simple idz (print_leaf (LPipe x w) ++ s) = None.
Proof.
  intros. rewrite pr_pipe. unfold m_simple. cbn -[span].
  rewrite span_app; auto using word_forall. rewrite word_nonempty by auto. reflexivity.
Qed.

Lemma m_filtered_var : forall x s, word x = true ->
  m_filtered idz (print_leaf (LVar x) ++ s) = None.
Proof.
  intros. rewrite pr_var. unfold m_filtered. cbn -[span].
  rewrite span_app; auto using word_forall. rewrite word_nonempty by auto. reflexivity.
Qed.

Lemma m_default_var : forall x s, word x = true ->
  m_default idz (print_leaf (LVar x) ++ s) = None.
Proof.
  intros. rewrite pr_var. unfold m_default. cbn -[span].
  rewrite span_app; auto using word_forall. rewrite word_nonempty by auto. reflexivity.
Qed.

Lemma m_filtered_pipe_word : forall x w s, word x = true -> word w = true ->
  m_filtered idz (print_leaf (LPipe x w) ++ s) = Some ((x, w), length (print_leaf (LPipe x w))).
Proof.
  intros. rewrite pr_pipe, len_pipe. unfold m_filtered. cbn -[span].
  rewrite span_app; auto using word_forall. rewrite word_nonempty by auto. cbn -[span].
  rewrite span_app; auto using word_forall. rewrite word_nonempty by auto.
  cbn. rewrite !codes_idz. reflexivity.
Qed.

Lemma forallb_false_split : forall (f : Z -> bool) w, forallb f w = false ->
  exists w1 c w2, w = w1 ++ c :: w2 /\ forallb f w1 = true /\ f c = false.
Proof.
  induction w as [|a w IH]; cbn; intros H; [discriminate|].
  destruct (f a) eqn:Ea.
  - cbn in H. destruct (IH H) as (w1 & c & w2 & -> & H1 & H2).
    exists (a :: w1), c, w2. cbn. rewrite Ea, H1. auto.
  - exists [], a, w. auto.
Qed.

Lemma nobrace_forall : forall w c, nobrace w = true -> In c w -> c <> LB /\ c <> RB.
Proof.
  unfold nobrace. intros w c H Hc. rewrite forallb_forall in H. specialize (H c Hc).
  unfold LB, RB in *. lia.
Qed.

Lemma m_filtered_pipe_nonword : forall x w s,
  word x = true -> nobrace w = true -> forallb is_word w = false ->
  m_filtered idz (print_leaf (LPipe x w) ++ s) = None.
Proof.
  intros x w s Hx Hnb Hw. rewrite pr_pipe. unfold m_filtered. cbn -[span].
  rewrite span_app; auto using word_forall. rewrite word_nonempty by auto. cbn -[span].
  destruct (forallb_false_split is_word w Hw) as (w1 & c & w2 & -> & H1 & H2).
  rewrite <- app_assoc. cbn [app]. rewrite span_app by auto.
  destruct w1; [reflexivity|]. cbn.
  assert (c <> RB) by (apply (nobrace_forall _ c Hnb); apply in_or_app; right; left; auto).
  unfold idz, RB in *. zeq.
Qed.

Lemma m_default_pipe : forall x w s,
  word x = true -> nonempty w = true -> nobrace w = true ->
  m_default idz (print_leaf (LPipe x w) ++ s) = Some ((x, w), length (print_leaf (LPipe x w))).
Proof.
  intros x w s Hx Hne Hnb. rewrite pr_pipe, len_pipe. unfold m_default. cbn -[span].
  rewrite span_app; auto using word_forall. rewrite word_nonempty by auto. cbn -[span].
  rewrite (span_app (fun c => negb (c =? RB)) w 125 (125 :: s)).
  - rewrite Hne. cbn. rewrite !codes_idz. reflexivity.
  - apply forallb_forall. intros c Hc. destruct (nobrace_forall _ c Hnb Hc). unfold RB in *. lia.
  - reflexivity.
Qed.

(* --- the act functions of the seven scanners on leaves --- *)
Definition act_none {M} (_ : leaf) : option M := None.
Definition act_inc (l : leaf) : option str := match l with LInc n => Some n | _ => None end.
Definition act_opt (l : leaf) : option str := match l with LOpt x => Some x | _ => None end.
Definition act_var (l : leaf) : option str := match l with LVar x => Some x | _ => None end.
Definition act_filt (l : leaf) : option (str * str) :=
  match l with LPipe x w => if forallb is_word w then Some (x, w) else None | _ => None end.
Definition act_def (l : leaf) : option (str * str) :=
  match l with LPipe x w => Some (x, w) | _ => None end.

Ltac leaf_kind l H :=
  destruct l as [t|x| |x|x w|x]; cbn [leaf_sc] in H;
  try (destruct (word_cons x H) as (x0 & x' & -> & Hx0 & Hx'); pose proof (is_word_facts x0 Hx0)).

Lemma pr_cons_var : forall x0 x' s, print_leaf (LVar (x0 :: x')) ++ s = 123 :: 123 :: x0 :: x' ++ 125 :: 125 :: s.
Proof. intros. rewrite pr_var. reflexivity. Qed.
Lemma pr_cons_pipe : forall x0 x' w s,
  print_leaf (LPipe (x0 :: x') w) ++ s = 123 :: 123 :: x0 :: x' ++ 124 :: w ++ 125 :: 125 :: s.
Proof. intros. rewrite pr_pipe. reflexivity. Qed.

Lemma pipe_wf : forall x w, leaf_sc (LPipe x w) = true ->
  word x = true /\ nonempty w = true /\ nobrace w = true /\ True.
Proof.
  intros x w H. cbn [leaf_sc] in H.
  apply andb_prop in H. destruct H as [H Hnb].
  apply andb_prop in H. destruct H as [H Hne]. auto.
Qed.

Lemma agrees_if : forall l, leaf_sc l = true -> agrees _ (m_if idz) act_none l.
Proof.
  intros l H s. unfold act_none. destruct l as [t|x| |x|x w|x]; cbv beta iota; [exact I| | | | | ].
  - destruct (word_cons x H) as (x0 & x' & -> & Hx0 & Hx'). pose proof (is_word_facts x0 Hx0).
    rewrite pr_cons_var. apply m_if_kind. lia.
  - rewrite pr_dot. apply m_if_kind. lia.
  - rewrite pr_opt. apply m_if_kind. lia.
  - destruct (pipe_wf x w H) as (Hx & _).
    destruct (word_cons x Hx) as (x0 & x' & -> & Hx0 & Hx'). pose proof (is_word_facts x0 Hx0).
    rewrite pr_cons_pipe. apply m_if_kind. lia.
  - rewrite pr_inc. apply m_if_kind. lia.
Qed.

Lemma agrees_each : forall l, leaf_sc l = true -> agrees _ (m_each idz) act_none l.
Proof.
  intros l H s. unfold act_none. destruct l as [t|x| |x|x w|x]; cbv beta iota; [exact I| | | | | ].
  - destruct (word_cons x H) as (x0 & x' & -> & Hx0 & Hx'). pose proof (is_word_facts x0 Hx0).
    rewrite pr_cons_var. apply m_each_kind. lia.
  - rewrite pr_dot. apply m_each_kind. lia.
  - rewrite pr_opt. apply m_each_kind. lia.
  - destruct (pipe_wf x w H) as (Hx & _).
    destruct (word_cons x Hx) as (x0 & x' & -> & Hx0 & Hx'). pose proof (is_word_facts x0 Hx0).
    rewrite pr_cons_pipe. apply m_each_kind. lia.
  - rewrite pr_inc. apply m_each_kind. lia.
Qed.

Lemma agrees_include : forall l, leaf_sc l = true -> agrees _ (m_include idz) act_inc l.
Proof.
  intros l H s. destruct l as [t|x| |x|x w|x]; cbn [act_inc]; cbv beta iota; [exact I| | | | | ].
  - destruct (word_cons x H) as (x0 & x' & -> & Hx0 & Hx'). pose proof (is_word_facts x0 Hx0).
    rewrite pr_cons_var. apply m_include_kind. lia.
  - rewrite pr_dot. apply m_include_kind. lia.
  - rewrite pr_opt. apply m_include_kind. lia.
  - destruct (pipe_wf x w H) as (Hx & _).
    destruct (word_cons x Hx) as (x0 & x' & -> & Hx0 & Hx'). pose proof (is_word_facts x0 Hx0).
    rewrite pr_cons_pipe. apply m_include_kind. lia.
  - split. apply m_include_inc; auto. discriminate.
Qed.

Lemma agrees_optional : forall l, leaf_sc l = true -> agrees _ (m_optional idz) act_opt l.
Proof.
  intros l H s. destruct l as [t|x| |x|x w|x]; cbn [act_opt]; cbv beta iota; [exact I| | | | | ].
  - destruct (word_cons x H) as (x0 & x' & -> & Hx0 & Hx'). pose proof (is_word_facts x0 Hx0).
    rewrite pr_cons_var. apply m_optional_kind. lia.
  - rewrite pr_dot. apply m_optional_kind. lia.
  - split. apply m_optional_opt; auto. discriminate.
  - destruct (pipe_wf x w H) as (Hx & _).
    destruct (word_cons x Hx) as (x0 & x' & -> & Hx0 & Hx'). pose proof (is_word_facts x0 Hx0).
    rewrite pr_cons_pipe. apply m_optional_kind. lia.
  - rewrite pr_inc. apply m_optional_kind. lia.
Qed.

Lemma agrees_simple : forall l, leaf_sc l = true -> agrees _ (m_simple idz) act_var l.
Proof.
  intros l H s. destruct l as [t|x| |x|x w|x]; cbn [act_var]; cbv beta iota; [exact I| | | | | ].
  - split. apply m_simple_var; auto. discriminate.
  - rewrite pr_dot. apply m_simple_kind. reflexivity.
  - rewrite pr_opt. apply m_simple_kind. reflexivity.
  - destruct (pipe_wf x w H) as (Hx & _). apply m_simple_pipe; auto.
  - rewrite pr_inc. apply m_simple_kind. reflexivity.
Qed.

Lemma agrees_filtered : forall l, leaf_sc l = true -> agrees _ (m_filtered idz) act_filt l.
Proof.
  intros l H s. destruct l as [t|x| |x|x w|x]; cbn [act_filt]; cbv beta iota; [exact I| | | | | ].
  - apply m_filtered_var; auto.
  - rewrite pr_dot. apply m_filtered_kind. reflexivity.
  - rewrite pr_opt. apply m_filtered_kind. reflexivity.
  - destruct (pipe_wf x w H) as (Hx & Hne & Hnb & _).
    destruct (forallb is_word w) eqn:Hw.
    + split. apply m_filtered_pipe_word; auto. unfold word. rewrite Hne, Hw. reflexivity. discriminate.
    + apply m_filtered_pipe_nonword; auto.
  - rewrite pr_inc. apply m_filtered_kind. reflexivity.
Qed.

Lemma agrees_default : forall l, leaf_sc l = true -> agrees _ (m_default idz) act_def l.
Proof.
  intros l H s. destruct l as [t|x| |x|x w|x]; cbn [act_def]; cbv beta iota; [exact I| | | | | ].
  - apply m_default_var; auto.
  - rewrite pr_dot. apply m_default_kind. reflexivity.
  - rewrite pr_opt. apply m_default_kind. reflexivity.
  - destruct (pipe_wf x w H) as (Hx & Hne & Hnb & _).
    split. apply m_default_pipe; auto. discriminate.
  - rewrite pr_inc. apply m_default_kind. reflexivity.
Qed.

(* ------------------------------------------------------------------ *)
(* E. whole passes over printed leaves                                   *)

Definition wf_leaves (ls : list leaf) : Prop := Forall (fun l => leaf_sc l = true) ls.

Lemma scan_shaped_nil : forall {M} (mt : list Z -> option (M * nat)) act ls,
  needs_open mt -> Forall (fun l => shaped l /\ agrees M mt act l) ls ->
  scan mt O (print_leaves ls) = flat_map (leaf_toks M act) ls.
Proof.
  intros M mt act ls Ho H.
  rewrite <- (app_nil_r (print_leaves ls)).
  rewrite (scan_leaves M mt act Ho ls [] H). cbn [scan]. apply app_nil_r.
Qed.

Lemma scan_leaves_nil : forall {M} (mt : list Z -> option (M * nat)) act ls,
  needs_open mt -> wf_leaves ls -> (forall l, leaf_sc l = true -> agrees M mt act l) ->
  scan mt O (print_leaves ls) = flat_map (leaf_toks M act) ls.
Proof.
  intros M mt act ls Ho Hwf Hag. apply scan_shaped_nil; auto.
  eapply Forall_impl; [|exact Hwf]. cbn. intros l Hl. split; auto using leaf_shape.
Qed.

Lemma subst_leaf_toks : forall {M} (act : leaf -> option M) (f : M -> str -> str) ls,
  subst f (flat_map (leaf_toks M act) ls) =
  flat_map (fun l => match act l with Some m => f m (print_leaf l) | None => print_leaf l end) ls.
Proof.
  intros. induction ls as [|l ls IH]; [reflexivity|].
  cbn [flat_map]. rewrite subst_app, IH. f_equal.
  unfold leaf_toks. destruct (act l).
  - unfold subst. cbn. apply app_nil_r.
  - apply subst_lits.
Qed.

Lemma matches_leaf_toks : forall {M} (act : leaf -> option M) ls,
  matches (flat_map (leaf_toks M act) ls) =
  flat_map (fun l => match act l with Some m => [(m, print_leaf l)] | None => [] end) ls.
Proof.
  intros. induction ls as [|l ls IH]; [reflexivity|].
  cbn [flat_map]. rewrite matches_app, IH. f_equal.
  unfold leaf_toks. destruct (act l).
  - reflexivity.
  - apply matches_lits.
Qed.

Lemma subst_err_lits : forall {M} (f : M -> str -> str + error) p ts,
  subst_err f (map TLit p ++ ts) =
  match subst_err f ts with inl r => inl (p ++ r) | inr e => inr e end.
Proof.
  intros. induction p as [|a p IH]; cbn [map app subst_err].
  - destruct (subst_err f ts); reflexivity.
  - rewrite IH. destruct (subst_err f ts); reflexivity.
Qed.

Lemma subst_err_leaf_toks : forall {M} (act : leaf -> option M) (f : M -> str -> str + error)
                                   (g : leaf -> str) ls,
  (forall l, In l ls -> match act l with
                        | Some m => f m (print_leaf l) = inl (g l)
                        | None => g l = print_leaf l
                        end) ->
  subst_err f (flat_map (leaf_toks M act) ls) = inl (flat_map g ls).
Proof.
  intros M act f g ls H. induction ls as [|l ls IH]; [reflexivity|].
  cbn [flat_map]. assert (Hl := H l (or_introl eq_refl)).
  unfold leaf_toks at 1. destruct (act l) as [m|].
  - cbn [app subst_err]. rewrite Hl.
    rewrite (IH (fun l' Hl' => H l' (or_intror Hl'))). reflexivity.
  - rewrite subst_err_lits. rewrite (IH (fun l' Hl' => H l' (or_intror Hl'))). rewrite Hl. reflexivity.
Qed.

(* the leaf-level effect of the four variable passes *)
Definition filt_text (c : ctx) (x w : str) : option str :=
  match lookup c x with
  | Some v => if is_filter w then
                match apply_filter w v with inl s => Some (shield s) | inr _ => None end
              else Some (shield (str_value v))
  | None => None
  end.
Definition filt_leaf (c : ctx) (l : leaf) : leaf :=
  match l with
  | LPipe x w => if forallb is_word w then
                   match filt_text c x w with Some s => LText s | None => l end
                 else l
  | _ => l
  end.
Definition def_leaf (c : ctx) (l : leaf) : leaf :=
  match l with
  | LPipe x w => if is_filter w then l
                 else LText (shield (match lookup c x with Some v => str_value v | None => w end))
  | _ => l
  end.
Definition opt_leaf (c : ctx) (l : leaf) : leaf :=
  match l with
  | LOpt x => LText (shield (match lookup c x with Some v => str_value v | None => [] end))
  | _ => l
  end.
Definition simple_leaf (c : ctx) (l : leaf) : leaf :=
  match l with
  | LVar x => match lookup c x with Some v => LText (shield (str_value v)) | None => l end
  | _ => l
  end.

Lemma print_leaves_map : forall (g : leaf -> leaf) ls,
  print_leaves (map g ls) = flat_map (fun l => print_leaf (g l)) ls.
Proof. intros. unfold print_leaves. induction ls; cbn; auto. f_equal. auto. Qed.

Lemma pass_if_leaves : forall c ls, wf_leaves ls -> pass_if c (print_leaves ls) = print_leaves ls.
Proof.
  intros. unfold pass_if.
  rewrite (scan_leaves_nil (m_if idz) act_none ls no_if H agrees_if).
  rewrite subst_leaf_toks. reflexivity.
Qed.

Lemma pass_each_leaves : forall c ls, wf_leaves ls -> pass_each false c (print_leaves ls) = print_leaves ls.
Proof.
  intros. unfold pass_each.
  rewrite (scan_leaves_nil (m_each idz) act_none ls no_each H agrees_each).
  rewrite subst_leaf_toks. reflexivity.
Qed.

Lemma pass_optional_leaves : forall c ls, wf_leaves ls ->
  pass_optional false c (print_leaves ls) = print_leaves (map (opt_leaf c) ls).
Proof.
  intros. unfold pass_optional.
  rewrite (scan_leaves_nil (m_optional idz) act_opt ls no_optional H agrees_optional).
  rewrite subst_leaf_toks, print_leaves_map. apply flat_map_ext.
  intros [ | | | | | ]; reflexivity.
Qed.

Lemma pass_simple_leaves : forall c ls, wf_leaves ls ->
  pass_simple false false c (print_leaves ls) = inl (print_leaves (map (simple_leaf c) ls)).
Proof.
  intros. unfold pass_simple.
  rewrite (scan_leaves_nil (m_simple idz) act_var ls no_simple H agrees_simple).
  rewrite print_leaves_map. apply subst_err_leaf_toks.
  intros l Hl. destruct l as [ |x| | | | ]; try reflexivity. cbn. destruct (lookup c x); reflexivity.
Qed.

Definition var_ok (raise : bool) (c : ctx) (l : leaf) : Prop :=
  match l with LVar x => raise = true -> lookup c x <> None | _ => True end.

Lemma pass_simple_leaves_gen : forall raise c ls, wf_leaves ls -> Forall (var_ok raise c) ls ->
  pass_simple false raise c (print_leaves ls) = inl (print_leaves (map (simple_leaf c) ls)).
Proof.
  intros raise c ls H Hv. unfold pass_simple.
  rewrite (scan_leaves_nil (m_simple idz) act_var ls no_simple H agrees_simple).
  rewrite print_leaves_map. apply subst_err_leaf_toks.
  intros l Hl. rewrite Forall_forall in Hv. specialize (Hv l Hl).
  destruct l as [ |x| | | | ]; try reflexivity. cbn in *. destruct (lookup c x); [reflexivity|].
  destruct raise; [exfalso; apply Hv; auto|reflexivity].
Qed.

(* ------------------------------------------------------------------ *)
(* F. literal search (str.replace) over printed leaves; the default pass *)

Lemma str_eqb_eq : forall a b, str_eqb a b = true <-> a = b.
Proof.
  induction a as [|x a IH]; destruct b as [|y b]; cbn; split; intros H; try discriminate; auto.
  - apply andb_prop in H. destruct H as [H1 H2]. apply IH in H2. f_equal; auto. lia.
  - inversion H; subst. rewrite Z.eqb_refl. cbn. apply IH. reflexivity.
Qed.

Lemma str_eqb_refl : forall a, str_eqb a a = true.
Proof. intros. apply str_eqb_eq. reflexivity. Qed.

Lemma starts_app : forall p r, starts idz p (p ++ r) = Some r.
Proof. induction p; cbn; intros; auto. unfold idz at 1. rewrite Z.eqb_refl. auto. Qed.

Lemma starts_prefix : forall p s r, starts idz p s = Some r -> s = p ++ r.
Proof.
  induction p as [|c p IH]; cbn; intros s r H.
  - congruence.
  - destruct s as [|a s]; [discriminate|]. unfold idz at 1 in H.
    destruct (Z.eqb_spec a c); [|discriminate]. subst. f_equal. apply IH. exact H.
Qed.

Lemma split_at : forall (d : Z) a b r1 r2,
  a ++ d :: r1 = b ++ d :: r2 -> ~ In d a -> ~ In d b -> a = b /\ r1 = r2.
Proof.
  induction a as [|x a IH]; destruct b as [|y b]; cbn; intros r1 r2 H Ha Hb.
  - inversion H. auto.
  - inversion H; subst. exfalso. apply Hb. auto.
  - inversion H; subst. exfalso. apply Ha. auto.
  - inversion H; subst. destruct (IH b r1 r2 H2) as [-> ->]; auto.
Qed.

Definition inner (l : leaf) : str :=
  match l with
  | LText _ => []
  | LVar x => x
  | LDot => [46]
  | LOpt x => 63 :: x
  | LPipe x w => x ++ 124 :: w
  | LInc x => 62 :: x
  end.
Definition is_text (l : leaf) : bool := match l with LText _ => true | _ => false end.

Lemma pr_inner : forall l s, is_text l = false ->
  print_leaf l ++ s = 123 :: 123 :: inner l ++ 125 :: 125 :: s.
Proof.
  intros [t|x| |x|x w|x] s H; try discriminate.
  - apply pr_var. - apply pr_dot. - apply pr_opt.
  - rewrite pr_pipe. cbn [inner]. rewrite <- app_assoc. reflexivity.
  - apply pr_inc.
Qed.

Lemma word_not_in : forall x d, forallb is_word x = true -> is_word d = false -> ~ In d x.
Proof.
  intros x d H Hd Hin. rewrite forallb_forall in H. apply H in Hin. congruence.
Qed.

Lemma nobrace_not_in : forall w, nobrace w = true -> ~ In 125 w.
Proof. intros w H Hin. destruct (nobrace_forall w 125 H Hin). unfold RB in *. lia. Qed.

Lemma inner_norb : forall l, leaf_sc l = true -> ~ In 125 (inner l).
Proof.
  intros [t|x| |x|x w|x] H; cbn [inner leaf_sc] in *.
  - auto.
  - apply word_not_in; auto using word_forall.
  - cbn. intros [E|[]]. lia.
  - intros [E|Hin]; [lia|]. revert Hin. apply word_not_in; auto using word_forall.
  - destruct (pipe_wf x w H) as (Hx & Hne & Hnb & _). intros Hin.
    apply in_app_or in Hin. destruct Hin as [Hin|[E|Hin]].
    + revert Hin. apply word_not_in; auto using word_forall.
    + lia.
    + revert Hin. apply nobrace_not_in. auto.
  - intros [E|Hin]; [lia|]. revert Hin. apply word_not_in; auto using word_forall.
Qed.

Definition leaf_is_pipe (x w : str) (l : leaf) : bool :=
  match l with LPipe y u => str_eqb y x && str_eqb u w | _ => false end.

Lemma inner_pipe_inj : forall l x w, leaf_sc l = true -> is_text l = false -> word x = true ->
  inner l = x ++ 124 :: w -> l = LPipe x w.
Proof.
  intros l x w Hwf Ht Hx E.
  assert (Hx124 : ~ In 124 x) by (apply word_not_in; auto using word_forall).
  destruct (word_cons x Hx) as (x0 & x' & Ex & Hx0 & Hx'). pose proof (is_word_facts x0 Hx0) as F.
  destruct l as [t|y| |y|y u|y]; cbn [inner] in E; try discriminate.
  - exfalso. assert (In 124 y) by (rewrite E; apply in_or_app; right; left; auto).
    revert H. apply word_not_in; auto using word_forall.
  - subst x. cbn in E. inversion E. lia.
  - subst x. cbn in E. inversion E. lia.
  - destruct (pipe_wf y u Hwf) as (Hy & _).
    assert (Hy124 : ~ In 124 y) by (apply word_not_in; auto using word_forall).
    destruct (split_at 124 y x u w E Hy124 Hx124) as [-> ->]. reflexivity.
  - subst x. cbn in E. inversion E. lia.
Qed.

Lemma no_lit : forall x w, word x = true -> needs_open (m_lit idz (print_leaf (LPipe x w))).
Proof.
  intros x w Hx. destruct (word_cons x Hx) as (x0 & x' & -> & _ & _).
  unfold needs_open, m_lit. unfold print_leaf, K_OPEN. cbn [app].
  repeat split; intros; unfold LB in *; cbn; unfold idz; zeq; auto.
Qed.

Lemma prefix_pipe : forall l x w s r,
  leaf_sc l = true -> leaf_sc (LPipe x w) = true -> is_text l = false ->
  print_leaf l ++ s = print_leaf (LPipe x w) ++ r -> l = LPipe x w.
Proof.
  intros l x w s r Hl Hp Ht E. destruct (pipe_wf x w Hp) as (Hx & _).
  rewrite (pr_inner l s Ht), (pr_inner (LPipe x w) r eq_refl) in E.
  assert (E' : inner l ++ 125 :: 125 :: s = inner (LPipe x w) ++ 125 :: 125 :: r) by congruence.
  destruct (split_at 125 (inner l) (inner (LPipe x w)) _ _ E') as [E1 _];
    try (apply inner_norb; auto).
  apply inner_pipe_inj; auto.
Qed.

Definition act_lit (x w : str) (l : leaf) : option unit :=
  if leaf_is_pipe x w l then Some tt else None.

Lemma agrees_lit : forall x w l, leaf_sc (LPipe x w) = true -> leaf_sc l = true ->
  agrees _ (m_lit idz (print_leaf (LPipe x w))) (act_lit x w) l.
Proof.
  intros x w l Hp Hl s. destruct (pipe_wf x w Hp) as (Hx & Hne & Hnb & _).
  unfold act_lit. destruct (leaf_is_pipe x w l) eqn:E.
  - destruct l as [t|y| |y|y u|y]; cbn in E; try discriminate.
    apply andb_prop in E. destruct E as [E1 E2]. apply str_eqb_eq in E1, E2. subst y u.
    split; [|discriminate]. unfold m_lit.
    destruct (print_leaf (LPipe x w)) eqn:Ep; [discriminate|]. rewrite <- Ep.
    rewrite starts_app. reflexivity.
  - destruct (is_text l) eqn:Ht; [destruct l; try discriminate; exact I|].
    assert (G : m_lit idz (print_leaf (LPipe x w)) (print_leaf l ++ s) = None).
    { unfold m_lit. destruct (print_leaf (LPipe x w)) eqn:Ep; [reflexivity|]. rewrite <- Ep.
      destruct (starts idz (print_leaf (LPipe x w)) (print_leaf l ++ s)) as [r|] eqn:Es; [exfalso|reflexivity].
      apply starts_prefix in Es. apply prefix_pipe in Es; auto.
      subst l. cbn in E. rewrite !str_eqb_refl in E. discriminate. }
    destruct l; try discriminate; exact G.
Qed.

Lemma replace_all_leaves : forall cur x w new,
  wf_leaves cur -> leaf_sc (LPipe x w) = true ->
  replace_all idz (print_leaves cur) (print_leaf (LPipe x w)) new =
  print_leaves (map (fun l => if leaf_is_pipe x w l then LText new else l) cur).
Proof.
  intros cur x w new Hcur Hp. unfold replace_all.
  destruct (pipe_wf x w Hp) as (Hx & _).
  rewrite (scan_leaves_nil (m_lit idz (print_leaf (LPipe x w))) (act_lit x w) cur (no_lit x w Hx) Hcur
             (fun l => agrees_lit x w l Hp)).
  rewrite subst_leaf_toks, print_leaves_map. apply flat_map_ext.
  intros l. unfold act_lit. destruct (leaf_is_pipe x w l); reflexivity.
Qed.

Definition repl (c : ctx) (x w : str) : str :=
  shield (match lookup c x with Some v => str_value v | None => w end).

Lemma shield_nobrace : forall s, nobrace (shield s) = true.
Proof.
  intros s. unfold nobrace, shield. apply forallb_forall. intros c Hc.
  apply in_map_iff in Hc. destruct Hc as (a & <- & _). unfold sh_char, LB, RB, SH_OPEN, SH_CLOSE.
  destruct (a =? 123) eqn:E1; [lia|]. destruct (a =? 125) eqn:E2; lia.
Qed.

Definition step1 (c : ctx) (xw : str * str) (l : leaf) : leaf :=
  if is_filter (snd xw) then l
  else if leaf_is_pipe (fst xw) (snd xw) l then LText (repl c (fst xw) (snd xw)) else l.

Definition pipes_of (ls : list leaf) : list (str * str) :=
  flat_map (fun l => match l with LPipe x w => [(x, w)] | _ => [] end) ls.

Definition default_step (c : ctx) (res : str) (mc : (str * str) * str) : str :=
  let '((x, d), g0) := mc in
  if is_filter d then res
  else replace_all idz res g0 (sh false (match lookup c x with Some v => str_value v | None => d end)).

Lemma pass_default_unfold : forall c s,
  pass_default false c s = fold_left (default_step c) (matches (scan (m_default idz) O s)) s.
Proof. reflexivity. Qed.

Lemma fold_default_leaves : forall c ps cur,
  Forall (fun xw => leaf_sc (LPipe (fst xw) (snd xw)) = true) ps -> wf_leaves cur ->
  fold_left (default_step c)
            (map (fun xw => (xw, print_leaf (LPipe (fst xw) (snd xw)))) ps) (print_leaves cur) =
  print_leaves (map (fun l => fold_left (fun l' xw => step1 c xw l') ps l) cur).
Proof.
  intros c ps. induction ps as [|[x w] ps IH]; intros cur Hps Hcur.
  - cbn. rewrite map_id. reflexivity.
  - inversion Hps as [|? ? Hp Hps']; subst. cbn [fst snd] in Hp.
    cbn [map fold_left fst snd]. unfold default_step at 2.
    destruct (pipe_wf x w Hp) as (Hx & Hne & Hnb & _).
    assert (E : (if is_filter w then print_leaves cur
                 else replace_all idz (print_leaves cur) (print_leaf (LPipe x w))
                        (sh false (match lookup c x with Some v => str_value v | None => w end)))
                = print_leaves (map (step1 c (x, w)) cur)).
    { unfold step1. cbn [fst snd]. destruct (is_filter w).
      - rewrite map_id. reflexivity.
      - rewrite replace_all_leaves; auto. }
    rewrite E. rewrite IH; auto.
    + rewrite map_map. reflexivity.
    + unfold wf_leaves in *. rewrite Forall_forall in *. intros l Hl.
      apply in_map_iff in Hl. destruct Hl as (l0 & <- & Hl0).
      unfold step1. cbn [fst snd]. destruct (is_filter w); auto.
      destruct (leaf_is_pipe x w l0); auto. cbn [leaf_sc]. apply shield_nobrace.
Qed.

Lemma fold_step1_nonpipe : forall c ps l,
  (forall x w, l <> LPipe x w) -> fold_left (fun l' xw => step1 c xw l') ps l = l.
Proof.
  intros c ps l H. induction ps as [|[x w] ps IH]; cbn [fold_left]; auto.
  assert (E : step1 c (x, w) l = l).
  { unfold step1. cbn [fst snd]. destruct (is_filter w); auto.
    destruct l; auto. exfalso. eapply H. reflexivity. }
  rewrite E. exact IH.
Qed.

Lemma leaf_is_pipe_true : forall x w l, leaf_is_pipe x w l = true -> l = LPipe x w.
Proof.
  intros x w [ | | | |y u| ] H; cbn in H; try discriminate.
  apply andb_prop in H. destruct H as [H1 H2]. apply str_eqb_eq in H1, H2. subst. reflexivity.
Qed.

Lemma fold_step1_pipe : forall c ps y u, In (y, u) ps ->
  fold_left (fun l' xw => step1 c xw l') ps (LPipe y u) = def_leaf c (LPipe y u).
Proof.
  intros c ps y u. induction ps as [|[x w] ps IH]; intros Hin; [destruct Hin|].
  cbn [fold_left]. cbn [def_leaf]. unfold step1 at 2. cbn [fst snd].
  destruct (leaf_is_pipe x w (LPipe y u)) eqn:E.
  - apply leaf_is_pipe_true in E. inversion E; subst y u.
    destruct (is_filter w) eqn:F.
    + clear IH Hin. induction ps as [|[x2 w2] ps IH2]; cbn [fold_left]; auto.
      assert (E2 : step1 c (x2, w2) (LPipe x w) = LPipe x w).
      { unfold step1. cbn [fst snd]. destruct (is_filter w2) eqn:F2; auto.
        destruct (leaf_is_pipe x2 w2 (LPipe x w)) eqn:E3; auto.
        apply leaf_is_pipe_true in E3. inversion E3; subst. congruence. }
      rewrite E2. exact IH2.
    + rewrite fold_step1_nonpipe by (intros; discriminate). reflexivity.
  - assert (Hin' : In (y, u) ps).
    { destruct Hin as [Heq|]; auto. inversion Heq; subst.
      cbn in E. rewrite !str_eqb_refl in E. discriminate. }
    assert (E2 : (if is_filter w then LPipe y u else LPipe y u) = LPipe y u) by (destruct (is_filter w); auto).
    rewrite E2. rewrite IH by auto. reflexivity.
Qed.

Lemma in_pipes_of : forall ls x w, In (LPipe x w) ls -> In (x, w) (pipes_of ls).
Proof.
  intros. unfold pipes_of. apply in_flat_map. exists (LPipe x w). split; auto. left; auto.
Qed.

Lemma pipes_of_wf : forall ls, wf_leaves ls ->
  Forall (fun xw => leaf_sc (LPipe (fst xw) (snd xw)) = true) (pipes_of ls).
Proof.
  intros ls H. apply Forall_forall. intros [x w] Hin. unfold pipes_of in Hin.
  apply in_flat_map in Hin. destruct Hin as (l & Hl & Hin).
  unfold wf_leaves in H. rewrite Forall_forall in H. specialize (H l Hl).
  destruct l; try destruct Hin. inversion H0; subst. exact H. destruct H0.
Qed.

Lemma pass_default_leaves : forall c ls, wf_leaves ls ->
  pass_default false c (print_leaves ls) = print_leaves (map (def_leaf c) ls).
Proof.
  intros c ls Hwf. rewrite pass_default_unfold.
  rewrite (scan_leaves_nil (m_default idz) act_def ls no_default Hwf agrees_default).
  rewrite matches_leaf_toks.
  match goal with |- fold_left _ ?L _ = _ =>
    assert (E : L = map (fun xw => (xw, print_leaf (LPipe (fst xw) (snd xw)))) (pipes_of ls)) end.
  { unfold pipes_of. induction ls as [|l ls IH]; [reflexivity|].
    inversion Hwf; subst. cbn [flat_map]. rewrite map_app, IH by auto. f_equal.
    destruct l; reflexivity. }
  rewrite E. rewrite fold_default_leaves; auto using pipes_of_wf.
  f_equal. apply map_ext_in. intros l Hl.
  destruct l as [t|x| |x|x w|x]; try (apply fold_step1_nonpipe; intros; discriminate).
  apply fold_step1_pipe. apply in_pipes_of. exact Hl.
Qed.

(* ------------------------------------------------------------------ *)
(* G. substituted text is brace-free when the context is                 *)

Lemma nobrace_in : forall s, (forall c, In c s -> c <> 123 /\ c <> 125) -> nobrace s = true.
Proof.
  intros s H. unfold nobrace. apply forallb_forall. intros c Hc. destruct (H c Hc).
  unfold LB, RB. lia.
Qed.
Lemma in_nobrace : forall s c, nobrace s = true -> In c s -> c <> 123 /\ c <> 125.
Proof. intros s c H Hc. destruct (nobrace_forall s c H Hc). unfold LB, RB in *. lia. Qed.

Lemma dec_pos_chars : forall fuel n acc c,
  (forall d, In d acc -> 48 <= d <= 57) -> In c (dec_pos fuel n acc) -> 48 <= c <= 57.
Proof.
  induction fuel as [|f IH]; cbn [dec_pos]; intros n acc c Hacc Hc; auto.
  assert (Hacc' : forall d, In d ((48 + n mod 10) :: acc) -> 48 <= d <= 57).
  { intros d [<-|Hd]; auto. pose proof (Z.mod_pos_bound n 10 ltac:(lia)). lia. }
  destruct (n / 10 =? 0); eauto.
Qed.

Lemma dec_nobrace : forall z, nobrace (dec z) = true.
Proof.
  intros z. apply nobrace_in. intros c Hc. unfold dec in Hc.
  destruct (z =? 0).
  - destruct Hc as [<-|[]]. lia.
  - destruct (z <? 0).
    + destruct Hc as [<-|Hc]; [lia|]. apply dec_pos_chars in Hc; [lia|]. intros d [].
    + apply dec_pos_chars in Hc; [lia|]. intros d [].
Qed.

Lemma lstrip_in : forall s c, In c (lstrip s) -> In c s.
Proof.
  induction s as [|a s IH]; cbn; intros c H; auto.
  destruct (is_space a); auto.
Qed.

Lemma strip_nobrace : forall s, nobrace s = true -> nobrace (strip s) = true.
Proof.
  intros s H. apply nobrace_in. intros c Hc. apply (in_nobrace s c H).
  unfold strip in Hc. apply in_rev in Hc. apply lstrip_in in Hc. apply in_rev in Hc.
  apply lstrip_in in Hc. exact Hc.
Qed.

Lemma map_nobrace : forall (f : Z -> Z) s,
  (forall c, c <> 123 /\ c <> 125 -> f c <> 123 /\ f c <> 125) ->
  nobrace s = true -> nobrace (map f s) = true.
Proof.
  intros f s Hf H. apply nobrace_in. intros c Hc. apply in_map_iff in Hc.
  destruct Hc as (a & <- & Ha). apply Hf. apply (in_nobrace s a H Ha).
Qed.

Lemma ftable_lookup_word : forall (T : ftable) w cf, ftable_ok T = true -> lookup T w = Some cf ->
  nonempty w = true /\ forallb is_word w = true.
Proof.
  induction T as [|[k u] T IH]; cbn [lookup ftable_ok forallb fst]; intros w cf H L; [discriminate|].
  apply andb_prop in H. destruct H as [Hk HT].
  destruct (str_eqb k w) eqn:E.
  - apply str_eqb_eq in E. subst k. apply andb_prop in Hk. tauto.
  - eapply IH; eauto.
Qed.

Lemma is_builtin_word : forall w, is_builtin w = true -> nonempty w = true /\ forallb is_word w = true.
Proof.
  intros w H. unfold is_builtin in H. apply existsb_exists in H. destruct H as (f & Hf & E).
  apply str_eqb_eq in E. subst f. unfold FILTERS in Hf.
  repeat (destruct Hf as [<-|Hf]; [split; reflexivity|]). destruct Hf.
Qed.

Lemma is_filter_word : forall w, is_filter w = true -> forallb is_word w = true.
Proof.
  intros w H. unfold is_filter in H. apply orb_prop in H. destruct H as [H|H].
  - apply is_builtin_word in H. tauto.
  - unfold bound in H. destruct (lookup (custom_filters : ftable) w) as [cf|] eqn:L; [|discriminate].
    apply (ftable_lookup_word _ w cf HFT L).
Qed.

(* ------------------------------------------------------------------ *)
(* H. the filtered pass and the include pass on leaves                    *)

Definition filt_ok (c : ctx) (l : leaf) : Prop :=
  match l with
  | LPipe x w => forall v, lookup c x = Some v -> is_filter w = true ->
                           exists s, apply_filter w v = inl s
  | _ => True
  end.

Lemma pass_filtered_leaves : forall c ls, wf_leaves ls -> Forall (filt_ok c) ls ->
  pass_filtered false c (print_leaves ls) = inl (print_leaves (map (filt_leaf c) ls)).
Proof.
  intros c ls Hwf Hok. unfold pass_filtered.
  rewrite (scan_leaves_nil (m_filtered idz) act_filt ls no_filtered Hwf agrees_filtered).
  rewrite print_leaves_map. apply subst_err_leaf_toks.
  intros l Hl. rewrite Forall_forall in Hok. specialize (Hok l Hl).
  destruct l as [t|x| |x|x w|x]; try reflexivity.
  cbn [act_filt filt_leaf]. destruct (forallb is_word w); [|reflexivity].
  unfold filt_text. cbn [filt_ok] in Hok. destruct (lookup c x) as [v|]; [|reflexivity].
  destruct (is_filter w); [|reflexivity].
  destruct (Hok v eq_refl eq_refl) as (s & ->). reflexivity.
Qed.

Lemma filt_leaf_sc : forall c l, leaf_sc l = true -> leaf_sc (filt_leaf c l) = true.
Proof.
  intros c l H. destruct l as [t|x| |x|x w|x]; auto.
  cbn [filt_leaf]. destruct (forallb is_word w); auto.
  unfold filt_text. destruct (lookup c x) as [v|] eqn:E; auto.
  destruct (is_filter w); [destruct (apply_filter w v) eqn:Ea|]; auto; apply shield_nobrace.
Qed.

Lemma def_leaf_sc : forall c l, leaf_sc l = true -> leaf_sc (def_leaf c l) = true.
Proof.
  intros c l H. destruct l as [t|x| |x|x w|x]; auto.
  cbn [def_leaf]. destruct (is_filter w); auto. apply shield_nobrace.
Qed.

Lemma opt_leaf_sc : forall c l, leaf_sc l = true -> leaf_sc (opt_leaf c l) = true.
Proof.
  intros c l H. destruct l as [t|x| |x|x w|x]; auto. apply shield_nobrace.
Qed.

Lemma map_wf : forall (g : leaf -> leaf) ls,
  (forall l, leaf_sc l = true -> leaf_sc (g l) = true) -> wf_leaves ls -> wf_leaves (map g ls).
Proof.
  intros g ls Hg H. unfold wf_leaves in *. rewrite Forall_forall in *. intros l Hl.
  apply in_map_iff in Hl. destruct Hl as (l0 & <- & Hl0). auto.
Qed.

Definition final_leaf (c : ctx) (l : leaf) : leaf :=
  simple_leaf c (opt_leaf c (def_leaf c (filt_leaf c l))).

Lemma sapp_ok : forall a b t m, sapp a b = SOk t m ->
  exists t1 m1 t2 m2, a = SOk t1 m1 /\ b = SOk t2 m2 /\ t = t1 ++ t2 /\ m = m1 ++ m2.
Proof.
  intros [t1 m1|e1] [t2 m2|e2] t m H; cbn in H; try discriminate.
  inversion H; subst. repeat eexists.
Qed.

Lemma print_map_leaf : forall ls, print (map NLeaf ls) = print_leaves ls.
Proof. intros. unfold print, print_leaves. rewrite flat_map_concat_map, map_map, <- flat_map_concat_map. reflexivity. Qed.

(* ------------------------------------------------------------------ *)
(* J. blocks.  The block delimiters are read as pseudo-leaves so that the print of a
      node is the print of a list of shaped leaves.                                  *)

Definition P_IF (ws c : str) : leaf := LVar ([35; 105; 102] ++ ws ++ c).
Definition P_ELSE : leaf := LVar [35; 101; 108; 115; 101].
Definition P_ENDIF : leaf := LVar [47; 105; 102].
Definition P_EACH (ws x : str) : leaf := LVar ([35; 101; 97; 99; 104] ++ ws ++ x).
Definition P_ENDEACH : leaf := LVar [47; 101; 97; 99; 104].

Definition else_leaves (b : option (list leaf)) : list leaf :=
  match b with Some b' => P_ELSE :: b' | None => [] end.
Definition node_leaves (n : node) : list leaf :=
  match n with
  | NLeaf l => [l]
  | NIf ws c a b => P_IF ws c :: a ++ else_leaves b ++ [P_ENDIF]
  | NEach ws x body => P_EACH ws x :: body ++ [P_ENDEACH]
  end.

Lemma print_leaves_app : forall a b, print_leaves (a ++ b) = print_leaves a ++ print_leaves b.
Proof. intros. unfold print_leaves. apply flat_map_app. Qed.

Lemma print_leaves_cons1 : forall l ls, print_leaves (l :: ls) = print_leaf l ++ print_leaves ls.
Proof. reflexivity. Qed.
Lemma print_leaves_nil : print_leaves [] = [].
Proof. reflexivity. Qed.

Lemma print_node_leaves : forall n, print_node n = print_leaves (node_leaves n).
Proof.
  intros [l|ws c a b|ws x body]; cbn [node_leaves print_node].
  - rewrite print_leaves_cons1, print_leaves_nil, app_nil_r. reflexivity.
  - rewrite print_leaves_cons1, !print_leaves_app, print_leaves_cons1, print_leaves_nil.
    destruct b as [b'|]; cbn [else_leaves]; [rewrite print_leaves_cons1|rewrite print_leaves_nil];
      unfold P_IF, P_ELSE, P_ENDIF, print_leaf, K_IF, K_OPEN, K_CLOSE, K_ELSE, K_ENDIF;
      cbn [app]; repeat rewrite <- app_assoc; cbn [app]; reflexivity.
  - rewrite print_leaves_cons1, !print_leaves_app, print_leaves_cons1, print_leaves_nil.
    unfold P_EACH, P_ENDEACH, print_leaf, K_EACH, K_OPEN, K_CLOSE, K_ENDEACH.
    cbn [app]. repeat rewrite <- app_assoc. cbn [app]. reflexivity.
Qed.

Lemma spaces_forall : forall ws, spaces ws = true -> forallb is_space ws = true /\ nonempty ws = true.
Proof. unfold spaces. intros ws H. apply andb_prop in H. tauto. Qed.

Lemma is_space_facts : forall c, is_space c = true -> c <> 123 /\ c <> 125 /\ is_word c = false.
Proof. unfold is_space, is_word. intros. lia. Qed.

Lemma forall_nolb : forall (f : Z -> bool) s,
  (forall c, f c = true -> c <> 123) -> forallb f s = true -> nolb s.
Proof.
  intros f s Hf H. apply Forall_forall. intros c Hc. rewrite forallb_forall in H.
  unfold LB. apply Hf. auto.
Qed.
Lemma word_nolb : forall x, forallb is_word x = true -> nolb x.
Proof. intros x Hx. apply (forall_nolb is_word); auto. intros c H. apply is_word_facts in H. lia. Qed.
Lemma spaces_nolb : forall x, forallb is_space x = true -> nolb x.
Proof. intros x Hx. apply (forall_nolb is_space); auto. intros c H. apply is_space_facts in H. lia. Qed.

Lemma shaped_var_like : forall i0 body,
  i0 <> LB -> nolb body -> shaped (LVar (i0 :: body)).
Proof.
  intros. right. split; [discriminate|]. exists i0, body. auto.
Qed.

Lemma shaped_P_IF : forall ws c, spaces ws = true -> word c = true -> shaped (P_IF ws c).
Proof.
  intros ws c Hws Hc. apply shaped_var_like; [unfold LB; lia|].
  destruct (spaces_forall ws Hws). repeat (constructor; [unfold LB; lia|]).
  apply nolb_app; auto using spaces_nolb, word_nolb, word_forall.
Qed.
Lemma shaped_P_EACH : forall ws c, spaces ws = true -> word c = true -> shaped (P_EACH ws c).
Proof.
  intros ws c Hws Hc. apply shaped_var_like; [unfold LB; lia|].
  destruct (spaces_forall ws Hws). repeat (constructor; [unfold LB; lia|]).
  apply nolb_app; auto using spaces_nolb, word_nolb, word_forall.
Qed.
Lemma shaped_P_ELSE : shaped P_ELSE.
Proof. apply shaped_var_like; [unfold LB; lia|]. repeat (constructor; [unfold LB; lia|]). constructor. Qed.
Lemma shaped_P_ENDIF : shaped P_ENDIF.
Proof. apply shaped_var_like; [unfold LB; lia|]. repeat (constructor; [unfold LB; lia|]). constructor. Qed.
Lemma shaped_P_ENDEACH : shaped P_ENDEACH.
Proof. apply shaped_var_like; [unfold LB; lia|]. repeat (constructor; [unfold LB; lia|]). constructor. Qed.

(* a matcher that needs a third code point k0 in {#, /} matches no well-formed leaf *)
Lemma agrees_by_kind : forall M (mt : list Z -> option (M * nat)) k0,
  k0 = 35 \/ k0 = 47 ->
  (forall k t, k <> k0 -> mt (123 :: 123 :: k :: t) = None) ->
  forall l, leaf_sc l = true -> agrees M mt act_none l.
Proof.
  intros M mt k0 Hk Hm l H s. unfold act_none.
  destruct l as [t|x| |x|x w|x]; cbv beta iota; [exact I| | | | | ].
  - destruct (word_cons x H) as (x0 & x' & -> & Hx0 & Hx'). pose proof (is_word_facts x0 Hx0).
    rewrite pr_cons_var. apply Hm. lia.
  - rewrite pr_dot. apply Hm. lia.
  - rewrite pr_opt. apply Hm. lia.
  - destruct (pipe_wf x w H) as (Hx & _).
    destruct (word_cons x Hx) as (x0 & x' & -> & Hx0 & Hx'). pose proof (is_word_facts x0 Hx0).
    rewrite pr_cons_pipe. apply Hm. lia.
  - rewrite pr_inc. apply Hm. lia.
Qed.

(* ---- find_sub ---- *)
Lemma find_sub_eq : forall p s,
  find_sub idz p s =
  match starts idz p s with
  | Some r => Some ([], r)
  | None => match s with
            | a :: s' => match find_sub idz p s' with Some (b, r) => Some (a :: b, r) | None => None end
            | [] => None
            end
  end.
Proof. destruct s; reflexivity. Qed.

Lemma find_sub_here : forall p r, find_sub idz p (p ++ r) = Some ([], r).
Proof. intros. rewrite find_sub_eq, starts_app. reflexivity. Qed.

Lemma find_sub_skip : forall p q s,
  (forall u v, q = u ++ v -> v <> [] -> starts idz p (v ++ s) = None) ->
  find_sub idz p (q ++ s) =
  match find_sub idz p s with Some (b, r) => Some (q ++ b, r) | None => None end.
Proof.
  induction q as [|a q IH]; intros s H.
  - cbn [app]. destruct (find_sub idz p s) as [[b r]|]; reflexivity.
  - cbn [app]. rewrite find_sub_eq.
    pose proof (H [] (a :: q) eq_refl ltac:(discriminate)) as H0. cbn [app] in H0. rewrite H0.
    rewrite IH.
    + destruct (find_sub idz p s) as [[b r]|]; reflexivity.
    + intros u v E Hv. apply (H (a :: u) v); auto. cbn. f_equal. exact E.
Qed.

Lemma scan_lits_nomatch : forall {M} (mt : list Z -> option (M * nat)) q s,
  scan mt O (q ++ s) = map TLit q ++ scan mt O s ->
  forall u v, q = u ++ v -> v <> [] -> mt (v ++ s) = None.
Proof.
  intros M mt q s H u. revert q H. induction u as [|a u IH]; intros q H v E Hv.
  - cbn in E. subst q. destruct v as [|b v]; [congruence|]. cbn [app map scan] in H. cbn [app].
    destruct (mt (b :: v ++ s)) as [[m n]|]; [discriminate|reflexivity].
  - subst q. cbn [app map scan] in H.
    destruct (mt (a :: (u ++ v) ++ s)) as [[m n]|]; [discriminate|].
    inversion H as [H']. eapply IH; eauto.
Qed.

Lemma m_lit_starts : forall p s, p <> [] -> m_lit idz p s = None -> starts idz p s = None.
Proof.
  intros p s Hp H. unfold m_lit in H. destruct p; [congruence|].
  destruct (starts idz (z :: p) s); [discriminate|reflexivity].
Qed.

(* the literal p = {{k0...  does not start anywhere inside the print of leaves that it
   does not match *)
Lemma find_sub_leaves : forall p ls s,
  p <> [] -> needs_open (m_lit idz p) ->
  Forall (fun l => shaped l /\ agrees _ (m_lit idz p) act_none l) ls ->
  find_sub idz p (print_leaves ls ++ s) =
  match find_sub idz p s with Some (b, r) => Some (print_leaves ls ++ b, r) | None => None end.
Proof.
  intros p ls s Hp Ho H. apply find_sub_skip. intros u v E Hv.
  apply m_lit_starts; auto.
  eapply (scan_lits_nomatch (m_lit idz p) (print_leaves ls) s); eauto.
  rewrite (scan_leaves _ (m_lit idz p) act_none Ho ls s H). f_equal.
  clear - HFT. induction ls as [|l ls IH]; [reflexivity|].
  cbn [flat_map]. rewrite print_leaves_cons1, map_app, IH. reflexivity.
Qed.

Ltac no_open_lit :=
  unfold needs_open, m_lit; repeat split; intros; unfold LB in *; cbn; unfold idz; zeq; auto.

Lemma no_lit_endif : needs_open (m_lit idz K_ENDIF). Proof. no_open_lit. Qed.
Lemma no_lit_else : needs_open (m_lit idz K_ELSE). Proof. no_open_lit. Qed.
Lemma no_lit_endeach : needs_open (m_lit idz K_ENDEACH). Proof. no_open_lit. Qed.

Lemma lit_endif_kind : forall k t, k <> 47 -> m_lit idz K_ENDIF (123 :: 123 :: k :: t) = None.
Proof. intros. unfold m_lit. cbn. unfold idz. zeq. Qed.
Lemma lit_else_kind : forall k t, k <> 35 -> m_lit idz K_ELSE (123 :: 123 :: k :: t) = None.
Proof. intros. unfold m_lit. cbn. unfold idz. zeq. Qed.
Lemma lit_endeach_kind : forall k t, k <> 47 -> m_lit idz K_ENDEACH (123 :: 123 :: k :: t) = None.
Proof. intros. unfold m_lit. cbn. unfold idz. zeq. Qed.

Definition opt_leaves (b : option (list leaf)) : list leaf := match b with Some b' => b' | None => [] end.
Definition wf_opt (b : option (list leaf)) : Prop := wf_leaves (opt_leaves b).

Lemma wf_shaped_agrees : forall {M} (mt : list Z -> option (M * nat)) ls,
  wf_leaves ls -> (forall l, leaf_sc l = true -> agrees M mt act_none l) ->
  Forall (fun l => shaped l /\ agrees M mt act_none l) ls.
Proof.
  intros M mt ls H Hag. eapply Forall_impl; [|exact H]. cbn. intros l Hl. split; auto using leaf_shape.
Qed.

Lemma agrees_else_under_endif : agrees _ (m_lit idz K_ENDIF) act_none P_ELSE.
Proof. intros s. cbn. reflexivity. Qed.

Lemma find_endif : forall a b s, wf_leaves a -> wf_opt b ->
  find_sub idz K_ENDIF (print_leaves (a ++ else_leaves b) ++ K_ENDIF ++ s) =
  Some (print_leaves (a ++ else_leaves b), s).
Proof.
  intros a b s Ha Hb. rewrite find_sub_leaves.
  - rewrite find_sub_here, app_nil_r. reflexivity.
  - discriminate.
  - exact no_lit_endif.
  - apply Forall_app. split.
    + apply wf_shaped_agrees; auto. apply (agrees_by_kind _ _ 47); auto. apply lit_endif_kind.
    + destruct b as [b'|]; cbn [else_leaves]; [|constructor]. constructor.
      * split. apply shaped_P_ELSE. apply agrees_else_under_endif.
      * apply wf_shaped_agrees; auto. apply (agrees_by_kind _ _ 47); auto. apply lit_endif_kind.
Qed.

Lemma find_else : forall a b, wf_leaves a ->
  find_sub idz K_ELSE (print_leaves (a ++ else_leaves b)) =
  match b with Some b' => Some (print_leaves a, print_leaves b') | None => None end.
Proof.
  intros a b Ha. rewrite print_leaves_app.
  assert (Hag : Forall (fun l => shaped l /\ agrees _ (m_lit idz K_ELSE) act_none l) a).
  { apply wf_shaped_agrees; auto. apply (agrees_by_kind _ _ 35); auto. apply lit_else_kind. }
  rewrite find_sub_leaves; auto using no_lit_else; [|discriminate].
  destruct b as [b'|]; cbn [else_leaves].
  - rewrite print_leaves_cons1.
    change (print_leaf P_ELSE) with K_ELSE. rewrite find_sub_here, app_nil_r. reflexivity.
  - reflexivity.
Qed.

Lemma m_if_shape : forall ws c a b s,
  spaces ws = true -> word c = true -> wf_leaves a -> wf_opt b ->
  m_if idz (K_IF ++ ws ++ c ++ K_CLOSE ++ print_leaves (a ++ else_leaves b) ++ K_ENDIF ++ s) =
  Some ((c, print_leaves a, print_leaves (opt_leaves b)),
        (5 + length ws + length c + 2 + length (print_leaves (a ++ else_leaves b)) + 7)%nat).
Proof.
  intros ws c a b s Hws Hc Ha Hb. unfold m_if. rewrite starts_app.
  destruct (spaces_forall ws Hws) as [Hws1 Hws2].
  destruct (word_cons c Hc) as (c0 & c' & -> & Hc0 & Hc').
  pose proof (is_word_facts c0 Hc0) as F.
  cbn [app]. rewrite (span_app is_space ws c0) by tauto. rewrite Hws2.
  change (c0 :: c' ++ K_CLOSE ++ print_leaves (a ++ else_leaves b) ++ K_ENDIF ++ s)
    with ((c0 :: c') ++ 125 :: 125 :: print_leaves (a ++ else_leaves b) ++ K_ENDIF ++ s).
  rewrite (span_app is_word (c0 :: c') 125) by (auto; cbn; rewrite Hc0, Hc'; reflexivity).
  cbn [nonempty]. cbn [starts K_CLOSE]. unfold idz at 1 2. cbn [Z.eqb Pos.eqb].
  rewrite find_endif by auto. rewrite find_else by auto. rewrite codes_idz.
  destruct b as [b'|]; cbn [else_leaves opt_leaves]; [|rewrite !app_nil_r]; reflexivity.
Qed.

Lemma scan_match' : forall {M} (mt : list Z -> option (M * nat)) (p s : str) m,
  p <> [] -> mt (p ++ s) = Some (m, length p) ->
  scan mt O (p ++ s) = TMatch m p :: scan mt O s.
Proof.
  intros M mt [|a p] s m Hp H; [congruence|]. cbn [app] in *. apply scan_match. exact H.
Qed.

Lemma toks_none : forall {M} ls, flat_map (leaf_toks M act_none) ls = map TLit (print_leaves ls).
Proof.
  intros. induction ls as [|l ls IH]; [reflexivity|].
  cbn [flat_map]. rewrite print_leaves_cons1, map_app, IH. reflexivity.
Qed.

Lemma forallb_wf : forall ls, forallb leaf_wf ls = true -> wf_leaves ls.
Proof. intros ls H. apply Forall_forall. rewrite forallb_forall in H. intros l Hl. apply wf_sc. auto. Qed.

Lemma node_wf_if : forall ws c a b, node_wf (NIf ws c a b) = true ->
  spaces ws = true /\ word c = true /\ wf_leaves a /\ wf_opt b.
Proof.
  intros ws c a b H. cbn [node_wf] in H.
  apply andb_prop in H. destruct H as [H Hb]. apply andb_prop in H. destruct H as [H Ha].
  apply andb_prop in H. destruct H as [Hws Hc].
  repeat split; auto using forallb_wf.
  unfold wf_opt. destruct b; cbn [opt_leaves]; auto using forallb_wf; constructor.
Qed.

Lemma node_wf_each : forall ws x body, node_wf (NEach ws x body) = true ->
  spaces ws = true /\ word x = true /\ wf_leaves body.
Proof.
  intros ws x body H. cbn [node_wf] in H.
  apply andb_prop in H. destruct H as [H Hb]. apply andb_prop in H. destruct H as [Hws Hx].
  auto using forallb_wf.
Qed.

Lemma pr_if : forall ws c a b s,
  print_node (NIf ws c a b) ++ s =
  K_IF ++ ws ++ c ++ K_CLOSE ++ print_leaves (a ++ else_leaves b) ++ K_ENDIF ++ s.
Proof.
  intros. cbn [print_node]. rewrite print_leaves_app. repeat rewrite <- app_assoc.
  do 5 f_equal. destruct b as [b'|]; cbn [else_leaves].
  - rewrite print_leaves_cons1. change (print_leaf P_ELSE) with K_ELSE.
    repeat rewrite <- app_assoc. reflexivity.
  - reflexivity.
Qed.

Lemma len_if : forall ws c a b,
  length (print_node (NIf ws c a b)) =
  (5 + length ws + length c + 2 + length (print_leaves (a ++ else_leaves b)) + 7)%nat.
Proof.
  intros. pose proof (pr_if ws c a b []) as E. rewrite app_nil_r in E. rewrite E.
  repeat rewrite app_length. cbn [length K_IF K_CLOSE K_ENDIF]. lia.
Qed.

Definition if_toks (n : node) : list (tok Z (str * str * str)) :=
  match n with
  | NIf ws x a b => [TMatch (x, print_leaves a, print_leaves (opt_leaves b)) (print_node n)]
  | _ => map TLit (print_node n)
  end.

Lemma agrees_if_P_EACH : forall ws x, agrees _ (m_if idz) act_none (P_EACH ws x).
Proof. intros ws x s. cbn. reflexivity. Qed.
Lemma agrees_if_P_ENDEACH : agrees _ (m_if idz) act_none P_ENDEACH.
Proof. intros s. cbn. reflexivity. Qed.

Lemma scan_if_nodes : forall t s, well_formed t = true ->
  scan (m_if idz) O (print t ++ s) = flat_map if_toks t ++ scan (m_if idz) O s.
Proof.
  induction t as [|n t IH]; intros s Hwf; [reflexivity|].
  cbn [well_formed forallb] in Hwf. apply andb_prop in Hwf. destruct Hwf as [Hn Ht].
  unfold print. cbn [flat_map]. fold (print t). rewrite <- !app_assoc. rewrite <- (IH s Ht).
  set (rest := print t ++ s).
  destruct n as [l|ws c a b|ws x body]; cbn [if_toks].
  - cbn [node_wf] in Hn. apply wf_sc in Hn.
    pose proof (scan_leaves _ (m_if idz) act_none no_if [l] rest) as E.
    rewrite print_leaves_cons1, print_leaves_nil, app_nil_r in E. cbn [print_node].
    rewrite E.
    + rewrite toks_none. rewrite print_leaves_cons1, print_leaves_nil, app_nil_r. reflexivity.
    + constructor; [|constructor]. split; auto using leaf_shape, agrees_if.
  - destruct (node_wf_if ws c a b Hn) as (Hws & Hc & Ha & Hb).
    cbn [app]. apply scan_match'.
    + cbn. discriminate.
    + rewrite pr_if, len_if. apply m_if_shape; auto.
  - destruct (node_wf_each ws x body Hn) as (Hws & Hx & Hbody).
    rewrite print_node_leaves.
    rewrite (scan_leaves _ (m_if idz) act_none no_if (node_leaves (NEach ws x body)) rest).
    + rewrite toks_none. reflexivity.
    + cbn [node_leaves]. constructor.
      * split. apply shaped_P_EACH; auto. apply agrees_if_P_EACH.
      * apply Forall_app. split.
        -- apply wf_shaped_agrees; auto using agrees_if.
        -- constructor; [|constructor]. split. apply shaped_P_ENDEACH. apply agrees_if_P_ENDEACH.
Qed.

Definition if_branch (c : ctx) (x : str) (a : list leaf) (b : option (list leaf)) : list leaf :=
  match lookup c x with
  | Some v => if truthy v then a else opt_leaves b
  | None => opt_leaves b
  end.
Definition if_node (c : ctx) (n : node) : list node :=
  match n with NIf _ x a b => map NLeaf (if_branch c x a b) | _ => [n] end.
Definition if_nodes (c : ctx) (t : template) : template := flat_map (if_node c) t.

Lemma print_app : forall a b, print (a ++ b) = print a ++ print b.
Proof. intros. unfold print. apply flat_map_app. Qed.

Lemma pass_if_nodes : forall c t, well_formed t = true ->
  pass_if c (print t) = print (if_nodes c t).
Proof.
  intros c t Hwf. unfold pass_if.
  pose proof (scan_if_nodes t [] Hwf) as E. rewrite app_nil_r in E. cbn [scan] in E.
  rewrite app_nil_r in E. rewrite E. clear E Hwf.
  induction t as [|n t IH]; [reflexivity|].
  cbn [flat_map]. rewrite subst_app, IH. unfold if_nodes. cbn [flat_map].
  rewrite print_app. f_equal.
  destruct n as [l|ws x a b|ws x body]; cbn [if_toks if_node].
  - rewrite subst_lits. unfold print. cbn. rewrite app_nil_r. reflexivity.
  - unfold subst. cbn [flat_map]. rewrite app_nil_r. rewrite print_map_leaf.
    unfold if_branch. destruct (lookup c x) as [v|]; [destruct (truthy v)|]; reflexivity.
  - rewrite subst_lits. unfold print. cbn [flat_map]. rewrite app_nil_r. reflexivity.
Qed.

(* ------------------------------------------------------------------ *)
(* K. loop bodies: sequential str.replace over the loop-context keys      *)

Definition act_key (k : str) (l : leaf) : option unit :=
  match l with
  | LVar x => if str_eqb k x then Some tt else None
  | LDot => if str_eqb k K_DOT then Some tt else None
  | _ => None
  end.

Lemma key_pattern_var : forall k, key_pattern k = print_leaf (LVar k).
Proof. reflexivity. Qed.

Lemma key_ok_cases : forall k, key_ok k = true -> word k = true \/ k = K_DOT.
Proof.
  unfold key_ok. intros k H. apply orb_prop in H. destruct H as [H|H]; auto.
  right. apply str_eqb_eq. exact H.
Qed.

Lemma key_no125 : forall k, key_ok k = true -> ~ In 125 k.
Proof.
  intros k H. destruct (key_ok_cases k H) as [Hw| ->].
  - apply word_not_in; auto using word_forall.
  - cbn. intros [E|[]]. lia.
Qed.

Lemma no_lit_key : forall k, key_ok k = true -> needs_open (m_lit idz (key_pattern k)).
Proof.
  intros k H. destruct (key_ok_cases k H) as [Hw| ->].
  - destruct (word_cons k Hw) as (k0 & k' & -> & _ & _).
    unfold key_pattern, K_OPEN. cbn [app]. no_open_lit.
  - no_open_lit.
Qed.

Lemma prefix_key : forall l k s r,
  leaf_sc l = true -> key_ok k = true -> is_text l = false ->
  print_leaf l ++ s = key_pattern k ++ r -> inner l = k.
Proof.
  intros l k s r Hl Hk Ht E.
  rewrite (pr_inner l s Ht) in E. rewrite key_pattern_var in E.
  rewrite (pr_inner (LVar k) r eq_refl) in E. cbn [inner] in E.
  assert (E' : inner l ++ 125 :: 125 :: s = k ++ 125 :: 125 :: r) by congruence.
  destruct (split_at 125 (inner l) k _ _ E') as [E1 _]; auto using inner_norb, key_no125.
Qed.

Lemma agrees_key : forall k l, key_ok k = true -> leaf_sc l = true ->
  agrees _ (m_lit idz (key_pattern k)) (act_key k) l.
Proof.
  intros k l Hk Hl s.
  assert (Hne : key_pattern k <> []) by (unfold key_pattern, K_OPEN; discriminate).
  destruct (act_key k l) eqn:Ea.
  - assert (E : print_leaf l = key_pattern k).
    { destruct l as [t|x| |x|x w|x]; cbn [act_key] in Ea; try discriminate.
      - destruct (str_eqb k x) eqn:E; [|discriminate]. apply str_eqb_eq in E. subst. reflexivity.
      - destruct (str_eqb k K_DOT) eqn:E; [|discriminate]. apply str_eqb_eq in E. subst. reflexivity. }
    rewrite E. split; auto. unfold m_lit. destruct (key_pattern k) eqn:Ek; [congruence|].
    rewrite <- Ek. rewrite starts_app. destruct u. reflexivity.
  - destruct (is_text l) eqn:Ht; [destruct l; try discriminate; exact I|].
    assert (G : m_lit idz (key_pattern k) (print_leaf l ++ s) = None).
    { unfold m_lit. destruct (key_pattern k) eqn:Ek; [reflexivity|]. rewrite <- Ek.
      destruct (starts idz (key_pattern k) (print_leaf l ++ s)) as [r|] eqn:Es; [exfalso|reflexivity].
      apply starts_prefix in Es. apply prefix_key in Es; auto.
      destruct (key_ok_cases k Hk) as [Hw| ->].
      - destruct (word_cons k Hw) as (k0 & k' & Ek' & Hk0 & Hk'). pose proof (is_word_facts k0 Hk0).
        assert (H124 : ~ In 124 k) by (apply word_not_in; auto using word_forall).
        destruct l as [t|x| |x|x w|x]; cbn [inner act_key] in *; try discriminate.
        + subst x. rewrite str_eqb_refl in Ea. discriminate.
        + rewrite Ek' in Es. inversion Es. lia.
        + rewrite Ek' in Es. inversion Es. lia.
        + apply H124. rewrite <- Es. apply in_or_app. right. left. reflexivity.
        + rewrite Ek' in Es. inversion Es. lia.
      - destruct l as [t|x| |x|x w|x]; cbn [inner act_key] in *; try discriminate;
          try (cbn in Ea; discriminate).
        + subst x. rewrite str_eqb_refl in Ea. discriminate.
        + destruct x as [|x0 [|x1 x']]; cbn in Es; discriminate. }
    destruct l; try discriminate; exact G.
Qed.

Definition loop_step (kv : str * str) (l : leaf) : leaf :=
  match act_key (fst kv) l with Some _ => LText (shield (snd kv)) | None => l end.

Definition loop_leaf (lc : list (str * str)) (l : leaf) : leaf :=
  match l with
  | LVar x => match lookup lc x with Some v => LText (shield v) | None => l end
  | LDot => match lookup lc K_DOT with Some v => LText (shield v) | None => l end
  | _ => l
  end.

Definition lc_ok (lc : list (str * str)) : Prop :=
  Forall (fun kv => key_ok (fst kv) = true) lc.

Lemma replace_key_leaves : forall cur k v,
  wf_leaves cur -> key_ok k = true ->
  replace_all idz (print_leaves cur) (key_pattern k) (sh false v) =
  print_leaves (map (loop_step (k, v)) cur).
Proof.
  intros cur k v Hcur Hk. unfold replace_all.
  rewrite (scan_leaves_nil (m_lit idz (key_pattern k)) (act_key k) cur (no_lit_key k Hk) Hcur
             (fun l => agrees_key k l Hk)).
  rewrite subst_leaf_toks, print_leaves_map. apply flat_map_ext.
  intros l. unfold loop_step. cbn [fst snd]. destruct (act_key k l); reflexivity.
Qed.

Lemma loop_step_wf : forall kv l, leaf_sc l = true -> leaf_sc (loop_step kv l) = true.
Proof.
  intros kv l Hl. unfold loop_step. destruct (act_key (fst kv) l); auto. apply shield_nobrace.
Qed.

Lemma loop_part_leaves : forall lc body, lc_ok lc -> wf_leaves body ->
  loop_part false (print_leaves body) lc =
  print_leaves (map (fun l => fold_left (fun l' kv => loop_step kv l') lc l) body).
Proof.
  unfold loop_part. induction lc as [|[k v] lc IH]; intros body Hlc Hb.
  - cbn. rewrite map_id. reflexivity.
  - inversion Hlc as [|? ? Hk Hlc']; subst. cbn [fst snd] in *.
    cbn [fold_left fst snd]. rewrite replace_key_leaves by auto.
    rewrite IH; auto.
    + rewrite map_map. reflexivity.
    + apply map_wf; auto. intros l Hl. apply loop_step_wf; auto.
Qed.

Lemma fold_loop_step_text : forall lc t,
  fold_left (fun l' kv => loop_step kv l') lc (LText t) = LText t.
Proof. induction lc as [|kv lc IH]; intros; cbn; auto. Qed.

Lemma fold_loop_step : forall lc l,
  fold_left (fun l' kv => loop_step kv l') lc l = loop_leaf lc l.
Proof.
  induction lc as [|[k v] lc IH]; intros l.
  - destruct l; reflexivity.
  - cbn [fold_left]. unfold loop_step at 2. cbn [fst snd].
    destruct l as [t|x| |x|x w|x]; cbn [act_key loop_leaf lookup]; try apply IH.
    + destruct (str_eqb k x); [apply fold_loop_step_text|apply IH].
    + destruct (str_eqb k K_DOT); [apply fold_loop_step_text|apply IH].
Qed.

Lemma loop_part_eq : forall lc body, lc_ok lc -> wf_leaves body ->
  loop_part false (print_leaves body) lc = print_leaves (map (loop_leaf lc) body).
Proof.
  intros. rewrite loop_part_leaves by auto. f_equal. apply map_ext. apply fold_loop_step.
Qed.

Fixpoint loop_leaves (body : list leaf) (n i : nat) (items : list item) : list leaf :=
  match items with
  | [] => []
  | it :: rest => map (loop_leaf (loop_context i n it)) body ++ loop_leaves body n (S i) rest
  end.

Lemma item_free_ok : forall i n it, item_ok i n it = true -> lc_ok (loop_context i n it).
Proof.
  unfold item_ok, lc_ok. intros i n it H. apply Forall_forall. intros kv Hkv.
  rewrite forallb_forall in H. specialize (H kv Hkv). apply andb_prop in H. tauto.
Qed.

Lemma loop_items_leaves : forall body n items i,
  wf_leaves body -> items_ok n i items = true ->
  loop_items false (print_leaves body) n i items = print_leaves (loop_leaves body n i items).
Proof.
  intros body n items. induction items as [|it rest IH]; intros i Hb Hf; [reflexivity|].
  cbn [items_ok] in Hf. apply andb_prop in Hf. destruct Hf as [H1 H2].
  cbn [loop_items loop_leaves]. rewrite print_leaves_app.
  rewrite loop_part_eq by auto using item_free_ok. rewrite IH by auto. reflexivity.
Qed.

Lemma loop_leaf_sc : forall lc l, leaf_sc l = true -> leaf_sc (loop_leaf lc l) = true.
Proof.
  intros lc l Hl. destruct l as [t|x| |x|x w|x]; auto; cbn [loop_leaf].
  - destruct (lookup lc x) eqn:E; auto. apply shield_nobrace.
  - destruct (lookup lc K_DOT) eqn:E; auto. apply shield_nobrace.
Qed.

Lemma loop_leaves_wf : forall body n items i,
  wf_leaves body -> items_ok n i items = true -> wf_leaves (loop_leaves body n i items).
Proof.
  intros body n items. induction items as [|it rest IH]; intros i Hb Hf; [constructor|].
  cbn [items_ok] in Hf. apply andb_prop in Hf. destruct Hf as [H1 H2].
  cbn [loop_leaves]. apply Forall_app. split.
  - apply map_wf; auto. intros l Hl. apply loop_leaf_sc; auto.
  - apply IH; auto.
Qed.

(* ------------------------------------------------------------------ *)
(* L. the each pass over nodes (after the if pass: no NIf left)           *)

Lemma find_endeach : forall body s, wf_leaves body ->
  find_sub idz K_ENDEACH (print_leaves body ++ K_ENDEACH ++ s) = Some (print_leaves body, s).
Proof.
  intros body s Hb. rewrite find_sub_leaves.
  - rewrite find_sub_here, app_nil_r. reflexivity.
  - discriminate.
  - exact no_lit_endeach.
  - apply wf_shaped_agrees; auto. apply (agrees_by_kind _ _ 47); auto. apply lit_endeach_kind.
Qed.

Lemma m_each_shape : forall ws x body s,
  spaces ws = true -> word x = true -> wf_leaves body ->
  m_each idz (K_EACH ++ ws ++ x ++ K_CLOSE ++ print_leaves body ++ K_ENDEACH ++ s) =
  Some ((x, print_leaves body),
        (7 + length ws + length x + 2 + length (print_leaves body) + 9)%nat).
Proof.
  intros ws x body s Hws Hx Hb. unfold m_each. rewrite starts_app.
  destruct (spaces_forall ws Hws) as [Hws1 Hws2].
  destruct (word_cons x Hx) as (c0 & c' & -> & Hc0 & Hc').
  pose proof (is_word_facts c0 Hc0) as F.
  cbn [app]. rewrite (span_app is_space ws c0) by tauto. rewrite Hws2.
  change (c0 :: c' ++ K_CLOSE ++ print_leaves body ++ K_ENDEACH ++ s)
    with ((c0 :: c') ++ 125 :: 125 :: print_leaves body ++ K_ENDEACH ++ s).
  rewrite (span_app is_word (c0 :: c') 125) by (auto; cbn; rewrite Hc0, Hc'; reflexivity).
  cbn [nonempty]. cbn [starts K_CLOSE]. unfold idz at 1 2. cbn [Z.eqb Pos.eqb].
  rewrite find_endeach by auto. rewrite codes_idz. reflexivity.
Qed.

Lemma pr_each : forall ws x body s,
  print_node (NEach ws x body) ++ s =
  K_EACH ++ ws ++ x ++ K_CLOSE ++ print_leaves body ++ K_ENDEACH ++ s.
Proof. intros. cbn [print_node]. repeat rewrite <- app_assoc. reflexivity. Qed.

Lemma len_each : forall ws x body,
  length (print_node (NEach ws x body)) =
  (7 + length ws + length x + 2 + length (print_leaves body) + 9)%nat.
Proof.
  intros. pose proof (pr_each ws x body []) as E. rewrite app_nil_r in E. rewrite E.
  repeat rewrite app_length. cbn [length K_EACH K_CLOSE K_ENDEACH]. lia.
Qed.

Definition each_toks (n : node) : list (tok Z (str * str)) :=
  match n with
  | NEach ws x body => [TMatch (x, print_leaves body) (print_node n)]
  | _ => map TLit (print_node n)
  end.

Definition if_free (t : template) : Prop :=
  Forall (fun n => match n with NIf _ _ _ _ => False | _ => True end) t.

Lemma scan_each_nodes : forall t s, well_formed t = true -> if_free t ->
  scan (m_each idz) O (print t ++ s) = flat_map each_toks t ++ scan (m_each idz) O s.
Proof.
  induction t as [|n t IH]; intros s Hwf Hni; [reflexivity|].
  cbn [well_formed forallb] in Hwf. apply andb_prop in Hwf. destruct Hwf as [Hn Ht].
  inversion Hni as [|? ? Hn' Hni']; subst.
  unfold print. cbn [flat_map]. fold (print t). rewrite <- !app_assoc. rewrite <- (IH s Ht Hni').
  set (rest := print t ++ s).
  destruct n as [l|ws c a b|ws x body]; cbn [each_toks]; [|destruct Hn'|].
  - cbn [node_wf] in Hn. apply wf_sc in Hn.
    pose proof (scan_leaves _ (m_each idz) act_none no_each [l] rest) as E.
    rewrite print_leaves_cons1, print_leaves_nil, app_nil_r in E. cbn [print_node].
    rewrite E.
    + rewrite toks_none. rewrite print_leaves_cons1, print_leaves_nil, app_nil_r. reflexivity.
    + constructor; [|constructor]. split; auto using leaf_shape, agrees_each.
  - destruct (node_wf_each ws x body Hn) as (Hws & Hx & Hbody).
    cbn [app]. apply scan_match'.
    + cbn. discriminate.
    + rewrite pr_each, len_each. apply m_each_shape; auto.
Qed.

Definition each_node (c : ctx) (n : node) : list node :=
  match n with
  | NEach _ x body =>
      match lookup_seq c x with
      | Some items => map NLeaf (loop_leaves body (length items) O items)
      | None => []
      end
  | _ => [n]
  end.
Definition each_nodes (c : ctx) (t : template) : template := flat_map (each_node c) t.

Lemma lookup_ok : forall c x v, ctx_ok c = true -> lookup c x = Some v -> value_ok v = true.
Proof.
  induction c as [|[k u] c IH]; cbn; intros x v H L; [discriminate|].
  apply andb_prop in H. destruct H as [H1 H2].
  destruct (str_eqb k x); [inversion L; subst; auto|eauto].
Qed.

Lemma lookup_nosent : forall c x v, ctx_ok c = true -> lookup c x = Some v ->
  nosent (str_value v) = true.
Proof.
  intros. apply lookup_ok in H0; auto. unfold value_ok in H0. apply andb_prop in H0. tauto.
Qed.

Lemma lookup_items_ok : forall c x items, ctx_ok c = true ->
  lookup_seq c x = Some items -> items_ok (length items) O items = true.
Proof.
  intros c x items Hc L. unfold lookup_seq in L. destruct (lookup c x) as [v|] eqn:Lv; [|discriminate].
  apply lookup_ok in Lv; auto. unfold value_ok in Lv. apply andb_prop in Lv. destruct Lv as [_ Lv].
  rewrite L in Lv. apply andb_prop in Lv. tauto.
Qed.

Lemma pass_each_nodes : forall c t, ctx_ok c = true -> well_formed t = true -> if_free t ->
  pass_each false c (print t) = print (each_nodes c t).
Proof.
  intros c t Hc Hwf Hni. unfold pass_each.
  pose proof (scan_each_nodes t [] Hwf Hni) as E. rewrite app_nil_r in E. cbn [scan] in E.
  rewrite app_nil_r in E. rewrite E. clear E.
  induction t as [|n t IH]; [reflexivity|].
  cbn [well_formed forallb] in Hwf. apply andb_prop in Hwf. destruct Hwf as [Hn Ht].
  inversion Hni as [|? ? Hn' Hni']; subst.
  cbn [flat_map]. rewrite subst_app, IH by auto. unfold each_nodes. cbn [flat_map].
  rewrite print_app. f_equal.
  destruct n as [l|ws x a b|ws x body]; cbn [each_toks each_node].
  - rewrite subst_lits. unfold print. cbn. rewrite app_nil_r. reflexivity.
  - destruct Hn'.
  - destruct (node_wf_each ws x body Hn) as (Hws & Hx & Hbody).
    unfold subst. cbn [flat_map]. rewrite app_nil_r.
    destruct (lookup_seq c x) as [items|] eqn:L; try reflexivity.
    rewrite print_map_leaf. apply loop_items_leaves; auto.
    eapply lookup_items_ok; eauto.
Qed.


(* ------------------------------------------------------------------ *)
(* M. shielding: round trips, and what stays sentinel-free                *)

Lemma ush_sh : forall c, c <> SH_OPEN -> c <> SH_CLOSE -> ush_char (sh_char c) = c.
Proof.
  intros c H1 H2. unfold ush_char, sh_char, LB, RB, SH_OPEN, SH_CLOSE in *.
  destruct (c =? 123) eqn:E1; [cbn; lia|]. destruct (c =? 125) eqn:E2; [cbn; lia|].
  destruct (c =? 57344) eqn:E3; [lia|]. destruct (c =? 57345) eqn:E4; lia.
Qed.

Lemma nosent_in : forall s c, nosent s = true -> In c s -> c <> SH_OPEN /\ c <> SH_CLOSE.
Proof.
  unfold nosent. intros s c H Hc. rewrite forallb_forall in H. specialize (H c Hc).
  unfold SH_OPEN, SH_CLOSE in *. lia.
Qed.
Lemma in_nosent : forall s, (forall c, In c s -> c <> SH_OPEN /\ c <> SH_CLOSE) -> nosent s = true.
Proof.
  intros s H. unfold nosent. apply forallb_forall. intros c Hc. destruct (H c Hc).
  unfold SH_OPEN, SH_CLOSE in *. lia.
Qed.

Lemma unshield_shield : forall s, nosent s = true -> unshield (shield s) = s.
Proof.
  intros s H. unfold unshield, shield. rewrite map_map. rewrite <- (map_id s) at 2.
  apply map_ext_in. intros c Hc. destruct (nosent_in s c H Hc). apply ush_sh; auto.
Qed.

Lemma unshield_id : forall s, nosent s = true -> unshield s = s.
Proof.
  intros s H. unfold unshield. rewrite <- (map_id s) at 2. apply map_ext_in.
  intros c Hc. destruct (nosent_in s c H Hc) as [H1 H2]. unfold ush_char, SH_OPEN, SH_CLOSE in *.
  destruct (c =? 57344) eqn:E1; [lia|]. destruct (c =? 57345) eqn:E2; [lia|]. reflexivity.
Qed.

Lemma unshield_app : forall a b, unshield (a ++ b) = unshield a ++ unshield b.
Proof. intros. unfold unshield. apply map_app. Qed.

Lemma unshield_nosent : forall s, nosent (unshield s) = true.
Proof.
  intros s. apply in_nosent. intros c Hc. unfold unshield in Hc. apply in_map_iff in Hc.
  destruct Hc as (a & <- & _). unfold ush_char, LB, RB, SH_OPEN, SH_CLOSE.
  destruct (a =? 57344) eqn:E1; [lia|]. destruct (a =? 57345) eqn:E2; lia.
Qed.

Lemma nosent_app : forall a b, nosent a = true -> nosent b = true -> nosent (a ++ b) = true.
Proof. intros. unfold nosent in *. rewrite forallb_app, H, H0. reflexivity. Qed.

Lemma small_nosent : forall s, (forall c, In c s -> c < 57344) -> nosent s = true.
Proof. intros s H. apply in_nosent. intros c Hc. specialize (H c Hc). unfold SH_OPEN, SH_CLOSE. lia. Qed.

Lemma word_nosent : forall x, forallb is_word x = true -> nosent x = true.
Proof.
  intros x H. apply small_nosent. intros c Hc. rewrite forallb_forall in H. apply H in Hc.
  unfold is_word in Hc. lia.
Qed.

Lemma dec_nosent : forall z, nosent (dec z) = true.
Proof.
  intros z. apply small_nosent. intros c Hc.
  pose proof (in_nobrace (dec z) c (dec_nobrace z) Hc) as _.
  unfold dec in Hc. destruct (z =? 0).
  - destruct Hc as [<-|[]]. lia.
  - destruct (z <? 0).
    + destruct Hc as [<-|Hc]; [lia|]. apply dec_pos_chars in Hc; [lia|]. intros d [].
    + apply dec_pos_chars in Hc; [lia|]. intros d [].
Qed.

Lemma strip_nosent : forall s, nosent s = true -> nosent (strip s) = true.
Proof.
  intros s H. apply in_nosent. intros c Hc. apply (nosent_in s c H).
  unfold strip in Hc. apply in_rev in Hc. apply lstrip_in in Hc. apply in_rev in Hc.
  apply lstrip_in in Hc. exact Hc.
Qed.

Lemma map_nosent : forall (f : Z -> Z) s,
  (forall c, c <> SH_OPEN /\ c <> SH_CLOSE -> f c <> SH_OPEN /\ f c <> SH_CLOSE) ->
  nosent s = true -> nosent (map f s) = true.
Proof.
  intros f s Hf H. apply in_nosent. intros c Hc. apply in_map_iff in Hc.
  destruct Hc as (a & <- & Ha). apply Hf. apply (nosent_in s a H Ha).
Qed.

(* --- the filters title / json / repr ------------------------------------ *)
Lemma hex_digit_small : forall n, 0 <= n < 16 -> hex_digit n < 128.
Proof. intros n H. unfold hex_digit. destruct (n <? 10) eqn:E; lia. Qed.

Lemma hex4_small : forall c a, In a (hex4 c) -> a < 128.
Proof.
  intros c a H. unfold hex4 in H.
  pose proof (Z.mod_pos_bound (c / 4096) 16 ltac:(lia)).
  pose proof (Z.mod_pos_bound (c / 256) 16 ltac:(lia)).
  pose proof (Z.mod_pos_bound (c / 16) 16 ltac:(lia)).
  pose proof (Z.mod_pos_bound c 16 ltac:(lia)).
  cbn [In] in H.
  destruct H as [<-|[<-|[<-|[<-|[<-|[<-|[]]]]]]]; try lia; apply hex_digit_small; auto.
Qed.

Lemma json_char_small : forall c a, In a (json_char c) -> a < 128.
Proof.
  intros c a H. unfold json_char in H.
  repeat match type of H with
         | In _ (if ?b then _ else _) => destruct b eqn:?
         end;
    try (cbn [In] in H; intuition lia).
  - apply hex4_small in H. exact H.
  - apply in_app_or in H. destruct H as [H|H]; apply hex4_small in H; exact H.
Qed.

Lemma json_str_small : forall s a, In a (json_str s) -> a < 128.
Proof.
  intros s a H. unfold json_str in H. destruct H as [<-|H]; [lia|].
  apply in_app_or in H. destruct H as [H|[<-|[]]]; [|lia].
  apply in_flat_map in H. destruct H as (c & _ & H). eapply json_char_small; eauto.
Qed.

Lemma json_str_nosent : forall s, nosent (json_str s) = true.
Proof. intros s. apply small_nosent. intros c Hc. apply json_str_small in Hc. lia. Qed.

Lemma join_in : forall sep l a, In a (join sep l) -> In a sep \/ exists x, In x l /\ In a x.
Proof.
  intros sep l. induction l as [|x l IH]; intros a H; [destruct H|].
  destruct l as [|y l].
  - cbn in H. right. exists x. split; [left; reflexivity|exact H].
  - change (join sep (x :: y :: l)) with (x ++ sep ++ join sep (y :: l)) in H.
    apply in_app_or in H. destruct H as [H|H].
    + right. exists x. split; [left; reflexivity|exact H].
    + apply in_app_or in H. destruct H as [H|H]; [left; exact H|].
      destruct (IH a H) as [H1|(z & Hz & Ha)]; [left; exact H1|].
      right. exists z. split; [right; exact Hz|exact Ha].
Qed.

Lemma json_dict_nosent : forall kvs, nosent (json_dict kvs) = true.
Proof.
  intros kvs. apply small_nosent. intros a H. unfold json_dict in H.
  apply in_app_or in H. destruct H as [[<-|[]]|H]; [unfold LB; lia|].
  apply in_app_or in H. destruct H as [H|[<-|[]]]; [|unfold RB; lia].
  apply join_in in H. destruct H as [[<-|[<-|[]]]|(x & Hx & Ha)]; try lia.
  apply in_map_iff in Hx. destruct Hx as (kv & <- & _).
  apply in_app_or in Ha. destruct Ha as [Ha|Ha]; [apply json_str_small in Ha; lia|].
  apply in_app_or in Ha. destruct Ha as [[<-|[<-|[]]]|Ha]; try lia.
  apply json_str_small in Ha. lia.
Qed.

Lemma json_item_nosent : forall it, item_json_ok it = true -> nosent (json_item it) = true.
Proof.
  intros it H. destruct it as [s|kvs|z|b| |s r j|kvs s r j]; cbn [json_item].
  - apply json_str_nosent.
  - apply json_dict_nosent.
  - apply dec_nosent.
  - destruct b; reflexivity.
  - reflexivity.
  - exact H.
  - exact H.
Qed.

Lemma json_seq_nosent : forall l, forallb item_json_ok l = true ->
  nosent ([91] ++ join [44; 32] (map json_item l) ++ [93]) = true.
Proof.
  intros l H. apply nosent_app; [reflexivity|]. apply nosent_app; [|reflexivity].
  apply in_nosent. intros a Ha. apply join_in in Ha.
  destruct Ha as [[<-|[<-|[]]]|(x & Hx & Ha)]; try (unfold SH_OPEN, SH_CLOSE; lia).
  apply in_map_iff in Hx. destruct Hx as (it & <- & Hit).
  rewrite forallb_forall in H. apply (nosent_in _ a (json_item_nosent it (H it Hit)) Ha).
Qed.

Lemma json_value_nosent : forall v, value_ok v = true -> nosent (json_value v) = true.
Proof.
  intros v H. unfold value_ok in H. apply andb_prop in H. destruct H as [Hs Hl].
  destruct v as [s|z|b|l| |s t|l|s r j t n]; cbn [json_value]; cbn [seq_of] in Hl.
  - apply json_str_nosent.
  - apply dec_nosent.
  - destruct b; reflexivity.
  - apply andb_prop in Hl. apply json_seq_nosent. tauto.
  - reflexivity.
  - exact Hs.
  - apply andb_prop in Hl. apply json_seq_nosent. tauto.
  - cbn [obj_views_ok] in Hl. apply andb_prop in Hl. destruct j as [j|]; [tauto|reflexivity].
Qed.

Lemma repr_char_in : forall q c a, q < 128 -> In a (repr_char q c) -> a < 57344 \/ (a = c /\ a <> 57344 /\ a <> 57345).
Proof.
  intros q c a Hq H. unfold repr_char in H.
  repeat match type of H with
         | In _ (if ?b then _ else _) => destruct b eqn:?
         end; cbn [In] in H.
  1-5: intuition lia.
  - left. assert (0 <= c mod 16 < 16) by (apply Z.mod_pos_bound; lia).
    assert (c / 16 < 10) by (apply Z.div_lt_upper_bound; lia).
    destruct H as [<-|[<-|[<-|[<-|[]]]]]; try lia; unfold hex_digit.
    + destruct (c / 16 <? 10) eqn:E; lia.
    + destruct (c mod 16 <? 10) eqn:E; lia.
  - left.
    assert (0 <= c mod 16 < 16) by (apply Z.mod_pos_bound; lia).
    assert (0 <= (c / 16) mod 16 < 16) by (apply Z.mod_pos_bound; lia).
    assert (0 <= (c / 256) mod 16 < 16) by (apply Z.mod_pos_bound; lia).
    assert (c / 4096 < 16) by (apply Z.div_lt_upper_bound; lia).
    assert (0 <= c / 4096) by (apply Z.div_pos; lia).
    destruct H as [<-|[<-|[<-|[<-|[<-|[<-|[]]]]]]]; try lia;
      match goal with |- hex_digit ?n < _ => pose proof (hex_digit_small n ltac:(lia)); lia end.
  - right. destruct H as [<-|[]]. split; [reflexivity|]. lia.
Qed.

Lemma py_repr_nosent : forall s, nosent (py_repr s) = true.
Proof.
  intros s. apply in_nosent. intros a H. unfold py_repr in H.
  set (q := if existsb (Z.eqb 39) s && negb (existsb (Z.eqb 34) s) then 34 else 39) in H.
  assert (Hq : q < 128) by (subst q; destruct (existsb (Z.eqb 39) s && negb (existsb (Z.eqb 34) s)); lia).
  unfold SH_OPEN, SH_CLOSE.
  destruct H as [<-|H]; [lia|]. apply in_app_or in H. destruct H as [H|[<-|[]]]; [|lia].
  apply in_flat_map in H. destruct H as (c & _ & H).
  destruct (repr_char_in q c a Hq H) as [H1|(_ & H1 & H2)]; lia.
Qed.

Lemma repr_value_nosent : forall v, value_ok v = true -> nosent (repr_value v) = true.
Proof.
  intros v Hok. unfold value_ok in Hok. apply andb_prop in Hok. destruct Hok as [H Hl].
  destruct v; cbn [repr_value]; auto.
  - apply py_repr_nosent.
  - cbn [seq_of obj_views_ok] in Hl. apply andb_prop in Hl. tauto.
Qed.

Lemma title_go_in : forall s prev a, In a (title_go prev s) ->
  exists c, In c s /\ (a = low_char c \/ a = up_char c).
Proof.
  induction s as [|c s IH]; intros prev a H; [destruct H|].
  cbn [title_go] in H. destruct H as [<-|H].
  - exists c. split; [left; reflexivity|]. destruct prev; auto.
  - destruct (IH _ _ H) as (d & Hd & E). exists d. split; [right; exact Hd|exact E].
Qed.

Lemma title_nosent : forall s, nosent s = true -> nosent (title s) = true.
Proof.
  intros s H. apply in_nosent. intros a Ha. unfold title in Ha.
  apply title_go_in in Ha. destruct Ha as (c & Hc & E).
  destruct (nosent_in s c H Hc) as [H1 H2]. unfold low_char, up_char, SH_OPEN, SH_CLOSE in *.
  destruct ((65 <=? c) && (c <=? 90)) eqn:E1; destruct ((97 <=? c) && (c <=? 122)) eqn:E2; lia.
Qed.

(* the result of a built-in filter on an admissible value is sentinel-free: shielding and
   unshielding it gives it back unchanged (json / repr even escape the sentinels) *)
Lemma len_filter_nosent : forall v s, len_filter v = inl s -> nosent s = true.
Proof.
  intros v s H. destruct v as [s0|z|b|l| |s0 t|l|s0 r j t n]; cbn [len_filter] in H;
    try destruct n as [n|]; inversion H; subst; apply dec_nosent.
Qed.

Lemma builtin_filter_nosent : forall w v s,
  value_ok v = true -> builtin_filter w v = inl s -> nosent s = true.
Proof.
  intros w v s Hok H.
  assert (Hv : nosent (str_value v) = true).
  { unfold value_ok in Hok. apply andb_prop in Hok. tauto. }
  unfold builtin_filter in H.
  destruct (str_eqb w F_UPPER).
  { inversion H; subst. apply map_nosent; auto. intros c Hc. unfold up_char, SH_OPEN, SH_CLOSE in *.
    destruct ((97 <=? c) && (c <=? 122)) eqn:E; lia. }
  destruct (str_eqb w F_LOWER).
  { inversion H; subst. apply map_nosent; auto. intros c Hc. unfold low_char, SH_OPEN, SH_CLOSE in *.
    destruct ((65 <=? c) && (c <=? 90)) eqn:E; lia. }
  destruct (str_eqb w F_TRIM).
  { inversion H; subst. apply strip_nosent; auto. }
  destruct (str_eqb w F_LENGTH).
  { eapply len_filter_nosent; eauto. }
  destruct (str_eqb w F_TITLE).
  { inversion H; subst. apply title_nosent; auto. }
  destruct (str_eqb w F_JSON).
  { unfold json_filter in H.
    assert (Hj : nosent (json_value v) = true) by (apply json_value_nosent; auto).
    destruct v as [s0|z|b|l| |s0 t|l|s0 r j t n]; try (inversion H; subst; exact Hj).
    destruct j as [j|]; inversion H; subst; exact Hj. }
  inversion H; subst. apply repr_value_nosent; auto.
Qed.

Lemma apply_custom_nosent : forall cf v s,
  nosent (str_value v) = true -> apply_custom cf v = inl s -> nosent s = true.
Proof.
  intros cf v s Hv H. destruct cf; cbn [apply_custom] in H.
  - inversion H; subst. apply map_nosent; auto. intros c Hc.
    unfold paren_char, LB, RB, SH_OPEN, SH_CLOSE in *.
    destruct (c =? 123) eqn:E1; [lia|]. destruct (c =? 125) eqn:E2; lia.
  - inversion H; subst. apply in_nosent. intros c Hc. apply in_rev in Hc.
    apply (nosent_in _ c Hv Hc).
  - injection H as <-. apply (nosent_app K_OPEN (str_value v ++ K_CLOSE)); [reflexivity|].
    apply (nosent_app (str_value v) K_CLOSE); [exact Hv|reflexivity].
  - inversion H; subst. auto.
  - eapply len_filter_nosent; eauto.
  - injection H as <-. apply (nosent_app K_TAG_OPEN (rev (str_value v) ++ K_TAG_CLOSE)); [reflexivity|].
    apply (nosent_app (rev (str_value v)) K_TAG_CLOSE); [|reflexivity].
    apply in_nosent. intros c Hc. apply in_rev in Hc. apply (nosent_in _ c Hv Hc).
Qed.

(* the result of a filter on an admissible value is sentinel-free: shielding and unshielding
   it gives it back unchanged (json / repr even escape the sentinels) *)
Lemma apply_filter_nosent : forall w v s,
  value_ok v = true -> apply_filter w v = inl s -> nosent s = true.
Proof.
  intros w v s Hok H. unfold apply_filter in H.
  destruct (lookup (custom_filters : ftable) w) as [cf|].
  - eapply apply_custom_nosent; eauto. unfold value_ok in Hok. apply andb_prop in Hok. tauto.
  - eapply builtin_filter_nosent; eauto.
Qed.

(* the reference-side reading of a leaf of the partially rendered text *)
Definition unsh_leaf (l : leaf) : leaf :=
  match l with LText s => LText (unshield s) | _ => l end.

(* leaves of the partially rendered text: template leaves, or shielded substituted text *)
Definition good (l : leaf) : Prop :=
  leaf_wf l = true \/ exists v, l = LText (shield v) /\ nosent v = true.

Lemma good_sc : forall l, good l -> leaf_sc l = true.
Proof. intros l [H|(v & -> & _)]; auto using wf_sc. apply shield_nobrace. Qed.

Lemma unsh_leaf_wf : forall l, leaf_wf l = true -> unsh_leaf l = l.
Proof.
  intros [s| | | | | ] H; try reflexivity. cbn in *. rewrite unshield_id; auto using clean_nosent.
Qed.

(* ------------------------------------------------------------------ *)
(* N. blocks on both sides: after the if and each passes the text is the print of the
      leaves [blocks c t], and the reference renders exactly those leaves            *)

Definition block_leaves (c : ctx) (n : node) : list leaf :=
  match n with
  | NLeaf l => [l]
  | NIf _ x a b => if_branch c x a b
  | NEach _ x body =>
      match lookup_seq c x with
      | Some items => loop_leaves body (length items) O items
      | None => []
      end
  end.
Definition blocks (c : ctx) (t : template) : list leaf := flat_map (block_leaves c) t.

Definition twf (ls : list leaf) : Prop := Forall (fun l => leaf_wf l = true) ls.

Lemma forallb_twf : forall ls, forallb leaf_wf ls = true -> twf ls.
Proof. intros ls H. apply Forall_forall. rewrite forallb_forall in H. exact H. Qed.

Lemma node_twf_if : forall ws c a b, node_wf (NIf ws c a b) = true -> twf a /\ twf (opt_leaves b).
Proof.
  intros ws c a b H. cbn [node_wf] in H.
  apply andb_prop in H. destruct H as [H Hb]. apply andb_prop in H. destruct H as [H Ha].
  split; auto using forallb_twf. destruct b; cbn [opt_leaves]; auto using forallb_twf; constructor.
Qed.

Lemma node_twf_each : forall ws x body, node_wf (NEach ws x body) = true -> twf body.
Proof.
  intros ws x body H. cbn [node_wf] in H. apply andb_prop in H. destruct H as [_ Hb].
  auto using forallb_twf.
Qed.

Lemma well_formed_leaves : forall ls, twf ls -> well_formed (map NLeaf ls) = true.
Proof.
  intros ls H. unfold well_formed. apply forallb_forall. intros n Hn.
  apply in_map_iff in Hn. destruct Hn as (l & <- & Hl).
  unfold twf in H. rewrite Forall_forall in H. cbn. auto.
Qed.

Lemma well_formed_app : forall a b, well_formed (a ++ b) = well_formed a && well_formed b.
Proof. intros. unfold well_formed. apply forallb_app. Qed.

Lemma if_branch_wf : forall c x a b, wf_leaves a -> wf_opt b -> wf_leaves (if_branch c x a b).
Proof.
  intros. unfold if_branch. destruct (lookup c x) as [v|]; [destruct (truthy v)|]; auto.
Qed.
Lemma if_branch_twf : forall c x a b, twf a -> twf (opt_leaves b) -> twf (if_branch c x a b).
Proof.
  intros. unfold if_branch. destruct (lookup c x) as [v|]; [destruct (truthy v)|]; auto.
Qed.

Lemma if_nodes_wf : forall c t, well_formed t = true ->
  well_formed (if_nodes c t) = true /\ if_free (if_nodes c t).
Proof.
  intros c t. induction t as [|n t IH]; intros H.
  - split; [reflexivity|constructor].
  - cbn [well_formed forallb] in H. apply andb_prop in H. destruct H as [Hn Ht].
    destruct (IH Ht) as [IH1 IH2]. unfold if_nodes. cbn [flat_map]. fold (if_nodes c t).
    rewrite well_formed_app. unfold if_free. rewrite Forall_app. fold (if_free (if_nodes c t)).
    destruct n as [l|ws x a b|ws x body]; cbn [if_node].
    + split. { cbn. rewrite IH1. cbn in Hn. rewrite Hn. reflexivity. }
      split; auto; repeat constructor.
    + destruct (node_twf_if ws x a b Hn) as (Ha & Hb).
      split. { rewrite well_formed_leaves by (apply if_branch_twf; auto). auto. }
      split; auto. apply Forall_forall. intros n Hn'. apply in_map_iff in Hn'.
      destruct Hn' as (l & <- & _). exact I.
    + split. { cbn [well_formed forallb]. rewrite Hn. cbn. exact IH1. }
      split; auto; repeat constructor.
Qed.

Lemma each_if_nodes : forall c t, each_nodes c (if_nodes c t) = map NLeaf (blocks c t).
Proof.
  intros c t. unfold each_nodes, if_nodes, blocks. induction t as [|n t IH]; [reflexivity|].
  cbn [flat_map]. rewrite flat_map_app, map_app, IH. f_equal.
  destruct n as [l|ws x a b|ws x body]; cbn [if_node block_leaves].
  - reflexivity.
  - induction (if_branch c x a b) as [|l ls IHl]; [reflexivity|]. cbn. f_equal. exact IHl.
  - cbn. rewrite app_nil_r. destruct (lookup_seq c x) as [items|]; reflexivity.
Qed.

Lemma blocks_wf : forall c t, ctx_ok c = true -> well_formed t = true -> wf_leaves (blocks c t).
Proof.
  intros c t Hc. induction t as [|n t IH]; intros H; [constructor|].
  cbn [well_formed forallb] in H. apply andb_prop in H. destruct H as [Hn Ht].
  unfold blocks. cbn [flat_map]. apply Forall_app. split; [|apply IH; auto].
  destruct n as [l|ws x a b|ws x body]; cbn [block_leaves].
  - cbn in Hn. apply wf_sc in Hn. repeat constructor; auto.
  - destruct (node_wf_if ws x a b Hn) as (_ & _ & Ha & Hb). apply if_branch_wf; auto.
  - destruct (node_wf_each ws x body Hn) as (_ & _ & Hbody).
    destruct (lookup_seq c x) as [items|] eqn:L; try constructor.
    apply loop_leaves_wf; auto. eapply lookup_items_ok; eauto.
Qed.

Lemma passes_blocks : forall c t, ctx_ok c = true -> well_formed t = true ->
  pass_each false c (pass_if c (print t)) = print_leaves (blocks c t).
Proof.
  intros c t Hc Hwf. rewrite pass_if_nodes by auto.
  destruct (if_nodes_wf c t Hwf) as [H1 H2].
  rewrite pass_each_nodes by auto. rewrite each_if_nodes. apply print_map_leaf.
Qed.

(* the reference side: the same leaves with the loop values inserted verbatim *)
Definition loop_leaf_s (lc : list (str * str)) (l : leaf) : leaf :=
  match l with
  | LVar x => match lookup lc x with Some v => LText v | None => l end
  | LDot => match lookup lc K_DOT with Some v => LText v | None => l end
  | _ => l
  end.
Fixpoint loop_leaves_s (body : list leaf) (n i : nat) (items : list item) : list leaf :=
  match items with
  | [] => []
  | it :: rest => map (loop_leaf_s (loop_context i n it)) body ++ loop_leaves_s body n (S i) rest
  end.
Definition block_leaves_s (c : ctx) (n : node) : list leaf :=
  match n with
  | NLeaf l => [l]
  | NIf _ x a b => if_branch c x a b
  | NEach _ x body =>
      match lookup_seq c x with
      | Some items => loop_leaves_s body (length items) O items
      | None => []
      end
  end.
Definition blocks_s (c : ctx) (t : template) : list leaf := flat_map (block_leaves_s c) t.

Lemma render_loop_leaf : forall strict c inc lc l,
  render_leaf strict c inc (Some lc) l = render_leaf strict c inc None (loop_leaf_s lc l).
Proof.
  intros. destruct l as [t|x| |x|x w|x]; try reflexivity; cbn [loop_leaf_s render_leaf].
  - destruct (lookup lc x); reflexivity.
  - destruct (lookup lc K_DOT); reflexivity.
Qed.

Lemma sconcat_cons : forall x a, sconcat (x :: a) = sapp x (sconcat a).
Proof. reflexivity. Qed.

Lemma sconcat_app : forall a b, sconcat (a ++ b) = sapp (sconcat a) (sconcat b).
Proof.
  induction a as [|x a IH]; intros b; cbn [app].
  - change (sconcat []) with (SOk [] []). destruct (sconcat b); reflexivity.
  - rewrite !sconcat_cons, IH.
    destruct x as [t1 m1|e1]; cbn; auto.
    destruct (sconcat a) as [t2 m2|e2]; cbn; auto.
    destruct (sconcat b) as [t3 m3|e3]; cbn; auto.
    rewrite !app_assoc. reflexivity.
Qed.

Lemma render_leaves_app : forall strict c inc lc a b,
  render_leaves strict c inc lc (a ++ b) =
  sapp (render_leaves strict c inc lc a) (render_leaves strict c inc lc b).
Proof. intros. unfold render_leaves. rewrite map_app. apply sconcat_app. Qed.

Lemma render_items_leaves : forall strict c inc body n items i,
  render_items strict c inc body n i items =
  render_leaves strict c inc None (loop_leaves_s body n i items).
Proof.
  intros strict c inc body n items. induction items as [|it rest IH]; intros i; [reflexivity|].
  cbn [render_items loop_leaves_s]. rewrite render_leaves_app, IH. f_equal.
  unfold render_leaves. rewrite map_map. f_equal. apply map_ext. intros l. apply render_loop_leaf.
Qed.

Lemma render_nodes_blocks : forall strict c inc t,
  render_nodes strict c inc t = render_leaves strict c inc None (blocks_s c t).
Proof.
  intros strict c inc t. unfold render_nodes, blocks_s. induction t as [|n t IH]; [reflexivity|].
  cbn [map flat_map]. rewrite render_leaves_app, sconcat_cons.
  rewrite IH. f_equal.
  destruct n as [l|ws x a b|ws x body]; cbn [render_node block_leaves_s].
  - unfold render_leaves. cbn. destruct (render_leaf strict c inc None l); cbn; rewrite ?app_nil_r; reflexivity.
  - unfold if_branch. destruct (lookup c x) as [v|]; [destruct (truthy v)|]; try reflexivity;
      destruct b; reflexivity.
  - destruct (lookup_seq c x) as [items|]; try reflexivity. apply render_items_leaves.
Qed.


(* the two readings of the expanded blocks agree, and every leaf is a template leaf or
   shielded sentinel-free text *)
Lemma lc_nosent : forall lc x v,
  Forall (fun kv => nosent (snd kv) = true) lc -> lookup lc x = Some v -> nosent v = true.
Proof.
  induction lc as [|[k u] lc IH]; cbn; intros x v H L; [discriminate|].
  inversion H; subst. destruct (str_eqb k x); [inversion L; subst; auto|eauto].
Qed.

Lemma item_ok_nosent : forall i n it, item_ok i n it = true ->
  Forall (fun kv => nosent (snd kv) = true) (loop_context i n it).
Proof.
  unfold item_ok. intros i n it H. apply Forall_forall. intros kv Hkv.
  rewrite forallb_forall in H. specialize (H kv Hkv). apply andb_prop in H. tauto.
Qed.

Lemma loop_leaf_rel : forall lc l,
  Forall (fun kv => nosent (snd kv) = true) lc -> leaf_wf l = true ->
  unsh_leaf (loop_leaf lc l) = loop_leaf_s lc l /\ good (loop_leaf lc l).
Proof.
  intros lc l Hlc Hl. destruct l as [t|x| |x|x w|x]; cbn [loop_leaf loop_leaf_s];
    try (split; [apply unsh_leaf_wf; auto|left; auto]).
  - destruct (lookup lc x) as [v|] eqn:L.
    + pose proof (lc_nosent lc x v Hlc L). cbn. rewrite unshield_shield by auto.
      split; auto. right. eauto.
    + split; [reflexivity|left; auto].
  - destruct (lookup lc K_DOT) as [v|] eqn:L.
    + pose proof (lc_nosent lc K_DOT v Hlc L). cbn. rewrite unshield_shield by auto.
      split; auto. right. eauto.
    + split; [reflexivity|left; auto].
Qed.

Lemma loop_leaves_rel : forall body n items i, twf body -> items_ok n i items = true ->
  map unsh_leaf (loop_leaves body n i items) = loop_leaves_s body n i items /\
  Forall good (loop_leaves body n i items).
Proof.
  intros body n items. induction items as [|it rest IH]; intros i Hb Hf.
  - split; [reflexivity|constructor].
  - cbn [items_ok] in Hf. apply andb_prop in Hf. destruct Hf as [H1 H2].
    destruct (IH (S i) Hb H2) as [E G]. cbn [loop_leaves loop_leaves_s].
    rewrite map_app, E. pose proof (item_ok_nosent i n it H1) as Hlc.
    split.
    + f_equal. rewrite map_map. apply map_ext_in. intros l Hl.
      unfold twf in Hb. rewrite Forall_forall in Hb. apply loop_leaf_rel; auto.
    + apply Forall_app. split; auto. apply Forall_forall. intros l Hl.
      apply in_map_iff in Hl. destruct Hl as (l0 & <- & Hl0).
      unfold twf in Hb. rewrite Forall_forall in Hb. apply loop_leaf_rel; auto.
Qed.

Lemma twf_rel : forall ls, twf ls -> map unsh_leaf ls = ls /\ Forall good ls.
Proof.
  intros ls H. induction H as [|l ls Hl H IH]; [split; [reflexivity|constructor]|].
  destruct IH as [E G]. cbn [map]. rewrite E, unsh_leaf_wf by auto. split; auto.
  constructor; auto. left. auto.
Qed.

Lemma blocks_rel : forall c t, ctx_ok c = true -> well_formed t = true ->
  map unsh_leaf (blocks c t) = blocks_s c t /\ Forall good (blocks c t).
Proof.
  intros c t Hc. induction t as [|n t IH]; intros H; [split; [reflexivity|constructor]|].
  cbn [well_formed forallb] in H. apply andb_prop in H. destruct H as [Hn Ht].
  destruct (IH Ht) as [E G]. unfold blocks, blocks_s. cbn [flat_map].
  fold (blocks c t). fold (blocks_s c t). rewrite map_app, E. rewrite Forall_app.
  assert (Q : map unsh_leaf (block_leaves c n) = block_leaves_s c n /\ Forall good (block_leaves c n)).
  { destruct n as [l|ws x a b|ws x body]; cbn [block_leaves block_leaves_s].
    - apply twf_rel. constructor; [exact Hn|constructor].
    - destruct (node_twf_if ws x a b Hn) as (Ha & Hb). apply twf_rel. apply if_branch_twf; auto.
    - pose proof (node_twf_each ws x body Hn) as Hbody.
      destruct (lookup_seq c x) as [items|] eqn:L; try (split; [reflexivity|constructor]).
      apply loop_leaves_rel; auto. eapply lookup_items_ok; eauto. }
  destruct Q as [Q1 Q2]. rewrite Q1. auto.
Qed.

(* ------------------------------------------------------------------ *)
(* P. missing plain variables are reported; unknown includes give the marker *)

Definition act_word (l : leaf) : option str :=
  match l with LVar x => if word x then Some x else None | _ => None end.

Lemma agrees_simple_word : forall l, leaf_sc l = true -> agrees _ (m_simple idz) act_word l.
Proof.
  intros l H s. pose proof (agrees_simple l H s) as A.
  destruct l as [t|x| |x|x w|x]; cbn [act_word act_var] in *; auto.
  cbn [leaf_sc] in H. rewrite H. exact A.
Qed.

Lemma agrees_simple_pseudo : forall k body, is_word k = false ->
  agrees _ (m_simple idz) act_word (LVar (k :: body)).
Proof.
  intros k body Hk s. cbn [act_word]. unfold word. cbn [nonempty forallb]. rewrite Hk. cbn [andb].
  rewrite pr_var. cbn [app]. apply m_simple_kind. exact Hk.
Qed.

Definition all_leaves (t : template) : list leaf := flat_map node_leaves t.

Lemma print_all_leaves : forall t, print t = print_leaves (all_leaves t).
Proof.
  induction t as [|n t IH]; [reflexivity|].
  unfold print, all_leaves. cbn [flat_map]. rewrite print_leaves_app. f_equal.
  - apply print_node_leaves.
  - exact IH.
Qed.

Lemma all_leaves_simple : forall t, well_formed t = true ->
  Forall (fun l => shaped l /\ agrees _ (m_simple idz) act_word l) (all_leaves t).
Proof.
  induction t as [|n t IH]; intros H; [constructor|].
  cbn [well_formed forallb] in H. apply andb_prop in H. destruct H as [Hn Ht].
  unfold all_leaves. cbn [flat_map]. apply Forall_app. split; [|apply IH; auto].
  assert (WL : forall ls, wf_leaves ls ->
           Forall (fun l => shaped l /\ agrees _ (m_simple idz) act_word l) ls).
  { intros ls Hls. eapply Forall_impl; [|exact Hls]. cbn. intros l Hl.
    split; auto using leaf_shape, agrees_simple_word. }
  destruct n as [l|ws x a b|ws x body]; cbn [node_leaves].
  - cbn in Hn. apply wf_sc in Hn. apply WL. repeat constructor; auto.
  - destruct (node_wf_if ws x a b Hn) as (Hws & Hx & Ha & Hb).
    constructor. { split. apply shaped_P_IF; auto. apply agrees_simple_pseudo. reflexivity. }
    apply Forall_app. split; [apply WL; auto|]. apply Forall_app. split.
    + destruct b as [b'|]; cbn [else_leaves]; [|constructor]. constructor.
      * split. apply shaped_P_ELSE. apply agrees_simple_pseudo. reflexivity.
      * apply WL. exact Hb.
    + constructor; [|constructor]. split. apply shaped_P_ENDIF. apply agrees_simple_pseudo. reflexivity.
  - destruct (node_wf_each ws x body Hn) as (Hws & Hx & Hbody).
    constructor. { split. apply shaped_P_EACH; auto. apply agrees_simple_pseudo. reflexivity. }
    apply Forall_app. split; [apply WL; auto|].
    constructor; [|constructor]. split. apply shaped_P_ENDEACH. apply agrees_simple_pseudo. reflexivity.
Qed.

Lemma map_fst_matches : forall (act : leaf -> option str) ls,
  map fst (flat_map (fun l => match act l with Some m => [(m, print_leaf l)] | None => [] end) ls) =
  flat_map (fun l => match act l with Some x => [x] | None => [] end) ls.
Proof.
  intros. induction ls as [|l ls IH]; [reflexivity|].
  cbn [flat_map]. rewrite map_app, IH. f_equal. destruct (act l); reflexivity.
Qed.

Lemma required_vars_eq : forall t, well_formed t = true ->
  required_vars (print t) =
  flat_map (fun l => match act_word l with Some x => [x] | None => [] end) (all_leaves t).
Proof.
  intros t H. unfold required_vars. rewrite print_all_leaves.
  rewrite (scan_shaped_nil (m_simple idz) act_word (all_leaves t) no_simple (all_leaves_simple t H)).
  rewrite matches_leaf_toks. apply map_fst_matches.
Qed.

(* the plain variables {{x}} written anywhere in a template (block bodies included) *)
Definition leaf_var (l : leaf) : list str := match l with LVar x => [x] | _ => [] end.
Definition node_vars (n : node) : list str :=
  match n with
  | NLeaf l => leaf_var l
  | NIf _ _ a b => flat_map leaf_var a ++ flat_map leaf_var (opt_leaves b)
  | NEach _ _ body => flat_map leaf_var body
  end.
Definition plain_vars (t : template) : list str := flat_map node_vars t.

Lemma wf_var_word : forall ls x, wf_leaves ls -> In x (flat_map leaf_var ls) ->
  In (LVar x) ls /\ word x = true.
Proof.
  intros ls x H Hin. apply in_flat_map in Hin. destruct Hin as (l & Hl & Hx).
  destruct l; cbn in Hx; try tauto. destruct Hx as [<-|[]]. split; auto.
  unfold wf_leaves in H. rewrite Forall_forall in H. apply (H _ Hl).
Qed.

Lemma plain_vars_required : forall t x, well_formed t = true ->
  In x (plain_vars t) -> In x (required_vars (print t)).
Proof.
  intros t x H Hin. rewrite required_vars_eq by auto.
  assert (G : exists l, In l (all_leaves t) /\ act_word l = Some x).
  { unfold plain_vars in Hin. apply in_flat_map in Hin. destruct Hin as (n & Hn & Hx).
    assert (Hnw : node_wf n = true).
    { unfold well_formed in H. rewrite forallb_forall in H. auto. }
    assert (K : forall ls, wf_leaves ls -> In x (flat_map leaf_var ls) ->
                exists l, In l ls /\ act_word l = Some x).
    { intros ls Hls Hi. destruct (wf_var_word ls x Hls Hi) as [Hl Hw].
      exists (LVar x). split; auto. cbn. rewrite Hw. reflexivity. }
    assert (Q : exists l, In l (node_leaves n) /\ act_word l = Some x).
    { destruct n as [l|ws y a b|ws y body]; cbn [node_vars node_leaves] in *.
      - cbn in Hnw. apply wf_sc in Hnw.
        destruct (K [l]) as (l0 & Hl0 & A); [constructor; auto; constructor|cbn; rewrite app_nil_r; auto|].
        eauto.
      - destruct (node_wf_if ws y a b Hnw) as (_ & _ & Ha & Hb).
        apply in_app_or in Hx. destruct Hx as [Hx|Hx].
        + destruct (K a Ha Hx) as (l0 & Hl0 & A). exists l0. split; auto.
          right. apply in_or_app. left. auto.
        + destruct (K _ Hb Hx) as (l0 & Hl0 & A). exists l0. split; auto.
          right. apply in_or_app. right. apply in_or_app. left.
          destruct b; cbn in *; [right; auto|destruct Hl0].
      - destruct (node_wf_each ws y body Hnw) as (_ & _ & Hbody).
        destruct (K body Hbody Hx) as (l0 & Hl0 & A). exists l0. split; auto.
        right. apply in_or_app. left. auto. }
    destruct Q as (l & Hl & A). exists l. split; auto.
    unfold all_leaves. apply in_flat_map. eauto. }
  destruct G as (l & Hl & A). apply in_flat_map. exists l. split; auto. rewrite A. left. reflexivity.
Qed.


(* the each scanner over ALL nodes (if-blocks are copied) *)
Lemma agrees_each_P_IF : forall ws x, agrees _ (m_each idz) act_none (P_IF ws x).
Proof. intros ws x s. cbn. reflexivity. Qed.
Lemma agrees_each_P_ELSE : agrees _ (m_each idz) act_none P_ELSE.
Proof. intros s. cbn. reflexivity. Qed.
Lemma agrees_each_P_ENDIF : agrees _ (m_each idz) act_none P_ENDIF.
Proof. intros s. cbn. reflexivity. Qed.

Lemma scan_each_all : forall t s, well_formed t = true ->
  scan (m_each idz) O (print t ++ s) = flat_map each_toks t ++ scan (m_each idz) O s.
Proof.
  induction t as [|n t IH]; intros s Hwf; [reflexivity|].
  cbn [well_formed forallb] in Hwf. apply andb_prop in Hwf. destruct Hwf as [Hn Ht].
  unfold print. cbn [flat_map]. fold (print t). rewrite <- !app_assoc. rewrite <- (IH s Ht).
  set (rest := print t ++ s).
  destruct n as [l|ws c a b|ws x body]; cbn [each_toks].
  - cbn [node_wf] in Hn. apply wf_sc in Hn.
    pose proof (scan_leaves _ (m_each idz) act_none no_each [l] rest) as E.
    rewrite print_leaves_cons1, print_leaves_nil, app_nil_r in E. cbn [print_node].
    rewrite E.
    + rewrite toks_none. rewrite print_leaves_cons1, print_leaves_nil, app_nil_r. reflexivity.
    + constructor; [|constructor]. split; auto using leaf_shape, agrees_each.
  - destruct (node_wf_if ws c a b Hn) as (Hws & Hc & Ha & Hb).
    rewrite print_node_leaves.
    rewrite (scan_leaves _ (m_each idz) act_none no_each (node_leaves (NIf ws c a b)) rest).
    + rewrite toks_none. reflexivity.
    + cbn [node_leaves]. constructor.
      * split. apply shaped_P_IF; auto. apply agrees_each_P_IF.
      * apply Forall_app. split; [apply wf_shaped_agrees; auto using agrees_each|].
        apply Forall_app. split.
        -- destruct b as [b'|]; cbn [else_leaves]; [|constructor]. constructor.
           ++ split. apply shaped_P_ELSE. apply agrees_each_P_ELSE.
           ++ apply wf_shaped_agrees; auto using agrees_each.
        -- constructor; [|constructor]. split. apply shaped_P_ENDIF. apply agrees_each_P_ENDIF.
  - destruct (node_wf_each ws x body Hn) as (Hws & Hx & Hbody).
    cbn [app]. apply scan_match'.
    + cbn. discriminate.
    + rewrite pr_each, len_each. apply m_each_shape; auto.
Qed.

Definition not_each (n : node) : bool := match n with NEach _ _ _ => false | _ => true end.
Definition drop_each (t : template) : template := filter not_each t.

Lemma outside_loops_print : forall t, well_formed t = true ->
  outside_loops (print t) = print (drop_each t).
Proof.
  intros t Hwf. unfold outside_loops.
  pose proof (scan_each_all t [] Hwf) as E. rewrite app_nil_r in E. cbn [scan] in E.
  rewrite app_nil_r in E. rewrite E. clear E Hwf.
  induction t as [|n t IH]; [reflexivity|].
  cbn [flat_map]. rewrite subst_app, IH. unfold drop_each. cbn [filter].
  destruct n as [l|ws x a b|ws x body]; cbn [each_toks not_each].
  - rewrite subst_lits. reflexivity.
  - rewrite subst_lits. reflexivity.
  - reflexivity.
Qed.

Lemma find_sub_exists : forall p a b, find_sub idz p (a ++ p ++ b) <> None.
Proof.
  intros p a b. induction a as [|x a IH]; cbn [app].
  - rewrite find_sub_here. discriminate.
  - rewrite find_sub_eq. destruct (starts idz p (x :: a ++ p ++ b)); [discriminate|].
    destruct (find_sub idz p (a ++ p ++ b)) as [[u v]|]; [discriminate|congruence].
Qed.

Lemma occurs_in : forall p a b, occurs p (a ++ p ++ b) = true.
Proof.
  intros. unfold occurs. pose proof (find_sub_exists p a b).
  destruct (find_sub idz p (a ++ p ++ b)); congruence.
Qed.

Lemma in_print_leaves : forall l ls, In l ls ->
  exists a b, print_leaves ls = a ++ print_leaf l ++ b.
Proof.
  intros l ls H. apply in_split in H. destruct H as (l1 & l2 & ->).
  exists (print_leaves l1), (print_leaves l2).
  rewrite print_leaves_app, print_leaves_cons1. reflexivity.
Qed.

(* the plain variables written outside {{#each}} bodies *)
Definition plain_vars_out (t : template) : list str := plain_vars (drop_each t).

Lemma drop_each_wf : forall t, well_formed t = true -> well_formed (drop_each t) = true.
Proof.
  intros t H. unfold well_formed, drop_each in *. apply forallb_forall. intros n Hn.
  apply filter_In in Hn. rewrite forallb_forall in H. apply H. tauto.
Qed.

Lemma plain_vars_sub : forall t x, In x (plain_vars (drop_each t)) -> In x (plain_vars t).
Proof.
  intros t x H. unfold plain_vars, drop_each in *. apply in_flat_map in H.
  destruct H as (n & Hn & Hx). apply filter_In in Hn. apply in_flat_map. exists n. tauto.
Qed.

Lemma var_leaf_in : forall t x, well_formed t = true -> In x (plain_vars t) ->
  In (LVar x) (all_leaves t).
Proof.
  intros t x H Hin. unfold plain_vars in Hin. apply in_flat_map in Hin. destruct Hin as (n & Hn & Hx).
  unfold all_leaves. apply in_flat_map. exists n. split; auto.
  assert (K : forall ls, In x (flat_map leaf_var ls) -> In (LVar x) ls).
  { intros ls Hi. apply in_flat_map in Hi. destruct Hi as (l & Hl & Hl').
    destruct l; cbn in Hl'; try tauto. destruct Hl' as [<-|[]]. exact Hl. }
  destruct n as [l|ws y a b|ws y body]; cbn [node_vars node_leaves] in *.
  - left. destruct l; cbn in Hx; try tauto. destruct Hx as [<-|[]]. reflexivity.
  - right. apply in_app_or in Hx. destruct Hx as [Hx|Hx].
    + apply in_or_app. left. auto.
    + apply in_or_app. right. apply in_or_app. left. destruct b; cbn in *; [right; auto|tauto].
  - right. apply in_or_app. left. auto.
Qed.

Lemma missing_vars_in : forall c t x, well_formed t = true ->
  In x (plain_vars_out t) -> lookup c x = None -> In x (missing_vars false c (print t)).
Proof.
  intros c t x Hwf Hin L. unfold missing_vars. apply filter_In. split.
  - apply plain_vars_required; auto. apply plain_vars_sub. exact Hin.
  - unfold bound. rewrite L. cbn [negb andb orb].
    rewrite outside_loops_print by auto.
    pose proof (var_leaf_in (drop_each t) x (drop_each_wf t Hwf) Hin) as Hl.
    rewrite print_all_leaves.
    destruct (in_print_leaves _ _ Hl) as (a & b & ->). apply occurs_in.
Qed.

(* ------------------------------------------------------------------ *)
(* Q. strict mode                                                        *)

(* where "{{x}}" can occur in a printed template: only as a plain-variable leaf *)
Lemma m_lit_kind : forall k0 p k t, k <> k0 -> m_lit idz (123 :: 123 :: k0 :: p) (123 :: 123 :: k :: t) = None.
Proof. intros. unfold m_lit. cbn. unfold idz. zeq. Qed.

Lemma agrees_key_pseudo : forall x k body, word x = true -> is_word k = false ->
  agrees _ (m_lit idz (key_pattern x)) (act_key x) (LVar (k :: body)).
Proof.
  intros x k body Hx Hk s. destruct (word_cons x Hx) as (x0 & x' & -> & Hx0 & Hx').
  cbn [act_key]. destruct (str_eqb (x0 :: x') (k :: body)) eqn:E.
  - apply str_eqb_eq in E. inversion E; subst. congruence.
  - rewrite pr_var. unfold key_pattern, K_OPEN. cbn [app]. apply m_lit_kind. congruence.
Qed.

Lemma all_leaves_key : forall t x, well_formed t = true -> word x = true ->
  Forall (fun l => shaped l /\ agrees _ (m_lit idz (key_pattern x)) (act_key x) l) (all_leaves t).
Proof.
  intros t x H Hx. assert (Hk : key_ok x = true) by (unfold key_ok; rewrite Hx; reflexivity).
  induction t as [|n t IH]; [constructor|].
  cbn [well_formed forallb] in H. apply andb_prop in H. destruct H as [Hn Ht].
  unfold all_leaves. cbn [flat_map]. apply Forall_app. split; [|apply IH; auto].
  assert (WL : forall ls, wf_leaves ls ->
           Forall (fun l => shaped l /\ agrees _ (m_lit idz (key_pattern x)) (act_key x) l) ls).
  { intros ls Hls. eapply Forall_impl; [|exact Hls]. cbn. intros l Hl.
    split; [apply leaf_shape; auto|apply agrees_key; auto]. }
  destruct n as [l|ws y a b|ws y body]; cbn [node_leaves].
  - cbn in Hn. apply wf_sc in Hn. apply WL. repeat constructor; auto.
  - destruct (node_wf_if ws y a b Hn) as (Hws & Hy & Ha & Hb).
    constructor. { split. apply shaped_P_IF; auto. apply agrees_key_pseudo; auto. }
    apply Forall_app. split; [apply WL; auto|]. apply Forall_app. split.
    + destruct b as [b'|]; cbn [else_leaves]; [|constructor]. constructor.
      * split. apply shaped_P_ELSE. apply agrees_key_pseudo; auto.
      * apply WL. exact Hb.
    + constructor; [|constructor]. split. apply shaped_P_ENDIF. apply agrees_key_pseudo; auto.
  - destruct (node_wf_each ws y body Hn) as (Hws & Hy & Hbody).
    constructor. { split. apply shaped_P_EACH; auto. apply agrees_key_pseudo; auto. }
    apply Forall_app. split; [apply WL; auto|].
    constructor; [|constructor]. split. apply shaped_P_ENDEACH. apply agrees_key_pseudo; auto.
Qed.

Lemma toks_all_none : forall {M} (act : leaf -> option M) ls,
  (forall l, In l ls -> act l = None) ->
  flat_map (leaf_toks M act) ls = map TLit (print_leaves ls).
Proof.
  intros M act ls H. induction ls as [|l ls IH]; [reflexivity|].
  cbn [flat_map]. rewrite print_leaves_cons1, map_app, IH by (intros; apply H; right; auto).
  f_equal. unfold leaf_toks. rewrite (H l) by (left; auto). reflexivity.
Qed.

Lemma occurs_var : forall t x, well_formed t = true -> word x = true ->
  occurs (key_pattern x) (print t) = true -> In x (plain_vars t).
Proof.
  intros t x Hwf Hx Ho.
  assert (Hk : key_ok x = true) by (unfold key_ok; rewrite Hx; reflexivity).
  destruct (existsb (fun l => match act_key x l with Some _ => true | None => false end) (all_leaves t)) eqn:E.
  - apply existsb_exists in E. destruct E as (l & Hl & A).
    destruct l as [s|y| |y|y w|y]; cbn [act_key] in A; try discriminate.
    + destruct (str_eqb x y) eqn:Exy; [|discriminate]. apply str_eqb_eq in Exy. subst y.
      (* LVar x is a real leaf: the pseudo-leaves are not words *)
      unfold all_leaves in Hl. apply in_flat_map in Hl. destruct Hl as (n & Hn & Hl).
      unfold plain_vars. apply in_flat_map. exists n. split; auto.
      assert (Q : forall ls, In (LVar x) ls -> In x (flat_map leaf_var ls)).
      { intros ls Hi. apply in_flat_map. exists (LVar x). split; auto. left; auto. }
      assert (NP : forall k body, is_word k = false -> LVar x <> LVar (k :: body)).
      { intros k body Hkb Eq. inversion Eq; subst. cbn in Hx. rewrite Hkb in Hx. discriminate. }
      destruct n as [l|ws y a b|ws y body]; cbn [node_leaves node_vars] in *.
      * destruct Hl as [Hl|[]]. subst l. left. reflexivity.
      * destruct Hl as [Hl|Hl]; [exfalso; eapply NP; [|symmetry; exact Hl]; reflexivity|].
        apply in_app_or in Hl. destruct Hl as [Hl|Hl]; [apply in_or_app; left; auto|].
        apply in_app_or in Hl. destruct Hl as [Hl|Hl].
        -- apply in_or_app. right. destruct b as [b'|]; cbn [else_leaves opt_leaves] in *; [|destruct Hl].
           destruct Hl as [Hl|Hl]; [exfalso; eapply NP; [|symmetry; exact Hl]; reflexivity|auto].
        -- destruct Hl as [Hl|[]]. exfalso. eapply NP; [|symmetry; exact Hl]. reflexivity.
      * destruct Hl as [Hl|Hl]; [exfalso; eapply NP; [|symmetry; exact Hl]; reflexivity|].
        apply in_app_or in Hl. destruct Hl as [Hl|Hl]; auto.
        destruct Hl as [Hl|[]]. exfalso. eapply NP; [|symmetry; exact Hl]. reflexivity.
    + destruct (str_eqb x K_DOT) eqn:Exd; [|discriminate]. apply str_eqb_eq in Exd. subst x.
      discriminate.
  - (* no leaf matches: the literal does not occur at all *)
    exfalso. unfold occurs in Ho.
    assert (Hnone : forall l, In l (all_leaves t) -> act_key x l = None).
    { intros l Hl. destruct (act_key x l) eqn:A; auto.
      assert (existsb (fun l => match act_key x l with Some _ => true | None => false end) (all_leaves t) = true).
      { apply existsb_exists. exists l. rewrite A. auto. }
      congruence. }
    pose proof (scan_shaped_nil (m_lit idz (key_pattern x)) (act_key x) (all_leaves t)
                  (no_lit_key x Hk) (all_leaves_key t x Hwf Hx)) as S.
    rewrite toks_all_none in S by auto.
    rewrite print_all_leaves in Ho.
    assert (F : find_sub idz (key_pattern x) (print_leaves (all_leaves t) ++ []) = None).
    { assert (S' : scan (m_lit idz (key_pattern x)) O (print_leaves (all_leaves t) ++ []) =
                   map TLit (print_leaves (all_leaves t)) ++ scan (m_lit idz (key_pattern x)) O []).
      { rewrite app_nil_r. cbn [scan]. rewrite app_nil_r. exact S. }
      rewrite find_sub_skip; [reflexivity|]. intros u v Euv Hv.
      apply m_lit_starts; [unfold key_pattern, K_OPEN; discriminate|].
      eapply (scan_lits_nomatch (m_lit idz (key_pattern x)) (print_leaves (all_leaves t)) [] S'); eauto. }
    rewrite app_nil_r in F. rewrite F in Ho. discriminate.
Qed.

Lemma required_word : forall t x, well_formed t = true -> In x (required_vars (print t)) -> word x = true.
Proof.
  intros t x H Hin. rewrite required_vars_eq in Hin by auto. apply in_flat_map in Hin.
  destruct Hin as (l & _ & Hl). destruct l; cbn in Hl; try tauto.
  destruct (word x0) eqn:W; [destruct Hl as [<-|[]]; auto|destruct Hl].
Qed.

(* the up-front check finds nothing when every plain variable outside loops is bound *)
Definition out_bound (c : ctx) (t : template) : Prop :=
  forall x, In x (plain_vars_out t) -> lookup c x <> None.

Lemma missing_none : forall c t, well_formed t = true -> out_bound c t ->
  missing_vars false c (print t) = [].
Proof.
  intros c t Hwf Hb. unfold missing_vars.
  destruct (filter _ (required_vars (print t))) as [|x xs] eqn:E; [reflexivity|exfalso].
  assert (Hx : In x (filter (fun x => negb (bound c x) && (false || occurs (key_pattern x) (outside_loops (print t))))
                            (required_vars (print t)))) by (rewrite E; left; auto).
  apply filter_In in Hx. destruct Hx as [Hr Hx]. apply andb_prop in Hx. destruct Hx as [Hu Ho].
  cbn [orb] in Ho. rewrite outside_loops_print in Ho by auto.
  pose proof (required_word t x Hwf Hr) as Hw.
  apply occurs_var in Ho; auto using drop_each_wf.
  apply (Hb x Ho). unfold bound in Hu. destruct (lookup c x); [discriminate|reflexivity].
Qed.
(* ------------------------------------------------------------------ *)
(* O. leaves to final text; includes; the rendering theorem               *)

Lemma unshield_print_leaves : forall ls,
  unshield (print_leaves ls) = flat_map (fun l => unshield (print_leaf l)) ls.
Proof.
  induction ls as [|l ls IH]; [reflexivity|].
  rewrite print_leaves_cons1, unshield_app, IH. reflexivity.
Qed.

Lemma print_var_nosent : forall x, word x = true -> nosent (print_leaf (LVar x)) = true.
Proof.
  intros. unfold print_leaf. apply nosent_app; [reflexivity|]. apply nosent_app; [|reflexivity].
  apply word_nosent. apply word_forall. auto.
Qed.

Lemma leaf_final : forall strict c inc l t m,
  ctx_ok c = true -> good l -> act_inc l = None ->
  render_leaf strict c inc None (unsh_leaf l) = SOk t m ->
  (filt_ok c l /\ var_ok strict c l) /\ unshield (print_leaf (final_leaf c l)) = t.
Proof.
  intros strict c inc l t m Hc Hg Hni H. unfold final_leaf.
  destruct l as [s|x| |x|x w|x]; try discriminate.
  - cbn in H. inversion H; subst. split; [split; exact I|reflexivity].
  - destruct Hg as [Hwf|(v & E & _)]; [|discriminate]. cbn [leaf_wf] in Hwf.
    cbn [unsh_leaf render_leaf] in H.
    cbn [filt_leaf def_leaf opt_leaf simple_leaf var_ok].
    destruct (lookup c x) as [v|] eqn:L.
    + inversion H; subst. split; [split; [exact I|intros _; discriminate]|].
      cbn [print_leaf]. apply unshield_shield. eapply lookup_nosent; eauto.
    + destruct strict; [discriminate|]. inversion H; subst.
      split; [split; [exact I|intros; discriminate]|].
      apply unshield_id. apply print_var_nosent. auto.
  - cbn in H. inversion H; subst. split; [split; exact I|reflexivity].
  - cbn [unsh_leaf render_leaf] in H. split; [split; exact I|].
    cbn [filt_leaf def_leaf opt_leaf simple_leaf print_leaf].
    destruct (lookup c x) as [v|] eqn:L; inversion H; subst.
    + apply unshield_shield. eapply lookup_nosent; eauto.
    + reflexivity.
  - destruct Hg as [Hwf|(v & E & _)]; [|discriminate].
    assert (Hw : nosent w = true /\ word x = true).
    { cbn [leaf_wf] in Hwf.
      apply andb_prop in Hwf. destruct Hwf as [Hwf Hcl]. apply andb_prop in Hwf.
      destruct Hwf as [Hx _]. auto using clean_nosent. }
    destruct Hw as [Hw Hx].
    assert (Hverb : unshield (print_leaf (LPipe x w)) = print_leaf (LPipe x w)).
    { apply unshield_id. unfold print_leaf. apply nosent_app; [reflexivity|].
      apply nosent_app; [apply word_nosent, word_forall; auto|].
      apply nosent_app; [reflexivity|]. apply nosent_app; [auto|reflexivity]. }
    cbn [unsh_leaf render_leaf] in H. cbn [filt_ok filt_leaf var_ok]. unfold filt_text.
    destruct (is_filter w) eqn:F.
    + rewrite (is_filter_word w F).
      destruct (lookup c x) as [v|] eqn:L.
      * pose proof (lookup_nosent c x v Hc L) as Hv.
        destruct (apply_filter w v) as [s|e] eqn:A; inversion H; subst.
        split. { split; [|exact I]. intros v' Hv' _. inversion Hv'; subst. eauto. }
        cbn. apply unshield_shield. eapply apply_filter_nosent; [eapply lookup_ok; eauto|eauto].
      * inversion H; subst. split. { split; [|exact I]. intros v' Hv'. discriminate. }
        cbn [def_leaf]. rewrite F. exact Hverb.
    + split. { split; [|exact I]. intros v' _ Hf. discriminate. }
      destruct (forallb is_word w).
      * destruct (lookup c x) as [v|] eqn:L; inversion H; subst.
        -- cbn. apply unshield_shield. eapply lookup_nosent; eauto.
        -- cbn [def_leaf]. rewrite F. rewrite L. cbn. apply unshield_shield. auto.
      * cbn [def_leaf]. rewrite F. destruct (lookup c x) as [v|] eqn:L; inversion H; subst; cbn;
          apply unshield_shield; auto. eapply lookup_nosent; eauto.
Qed.

Lemma subst_err_app : forall {M} (f : M -> str -> str + error) (a b : list (tok Z M)),
  subst_err f (a ++ b) =
  match subst_err f a with
  | inl x => match subst_err f b with inl y => inl (x ++ y) | inr e => inr e end
  | inr e => inr e
  end.
Proof.
  intros M f a b. induction a as [|t a IH]; cbn [app subst_err].
  - destruct (subst_err f b); reflexivity.
  - destruct t as [z|m cv].
    + rewrite IH. destruct (subst_err f a); [destruct (subst_err f b)|]; reflexivity.
    + destruct (f m cv); [|reflexivity]. rewrite IH.
      destruct (subst_err f a); [destruct (subst_err f b)|]; try reflexivity.
      rewrite app_assoc. reflexivity.
Qed.

Lemma subst_err_lits_nil : forall {M} (f : M -> str -> str + error) p,
  subst_err f (map TLit p) = inl p.
Proof.
  intros. pose proof (subst_err_lits f p []) as E. rewrite app_nil_r in E. rewrite E.
  cbn. rewrite app_nil_r. reflexivity.
Qed.

(* resolving the include matches first does not change the assembled text *)
Definition tok_data {M R} (h : M -> R) (t : tok Z M) : tok Z R :=
  match t with TLit a => TLit a | TMatch m c => TMatch (h m) c end.

Lemma subst_err_map : forall {M R} (h : M -> R) (f : R -> str -> str + error) (ts : list (tok Z M)),
  subst_err f (map (tok_data h) ts) = subst_err (fun m c => f (h m) c) ts.
Proof.
  intros. induction ts as [|[a|m c] ts IH]; cbn [map tok_data subst_err]; auto.
  - rewrite IH. reflexivity.
  - destruct (f (h m) c); auto. rewrite IH. reflexivity.
Qed.

Lemma matches_map : forall {M R} (h : M -> R) (ts : list (tok Z M)),
  matches (map (tok_data h) ts) = map (fun mc => (h (fst mc), snd mc)) (matches ts).
Proof.
  intros. unfold matches. induction ts as [|[a|m c] ts IH]; cbn; auto. f_equal. exact IH.
Qed.

Lemma include_text_eq : forall legacy (render : str -> option outcome) s,
  include_text legacy (resolve_includes render s) =
  subst_err (fun n c => include_cb legacy (n, render n) c) (scan (m_include idz) O s).
Proof.
  intros. unfold include_text, resolve_includes.
  change (fun t : tok Z str => match t with TLit a => TLit a | TMatch n c => TMatch (n, render n) c end)
    with (tok_data (fun n : str => (n, render n))).
  apply subst_err_map.
Qed.

Definition no_inc (ls : list leaf) : Prop := Forall (fun l => act_inc l = None) ls.

Section IncludeStep.
  Variable strict : bool.
  Variable c : ctx.
  Variable inc : str -> sres.
  Variable render : str -> option outcome.
  Hypothesis Hc : ctx_ok c = true.
  Hypothesis Hrel : forall n tn mn, word n = true -> inc n = SOk tn mn ->
    exists s, include_cb false (n, render n) [] = inl s /\ nobrace s = true /\ unshield s = tn.

  Lemma include_leaves : forall L txt miss,
    Forall good L -> render_leaves strict c inc None (map unsh_leaf L) = SOk txt miss ->
    exists L3, subst_err (fun n cv => include_cb false (n, render n) cv)
                         (flat_map (leaf_toks _ act_inc) L) = inl (print_leaves L3) /\
               wf_leaves L3 /\ no_inc L3 /\ Forall (fun l => filt_ok c l /\ var_ok strict c l) L3 /\
               unshield (print_leaves (map (final_leaf c) L3)) = txt.
  Proof.
    induction L as [|l L IH]; intros txt miss Hg H.
    - cbn in H. inversion H; subst. exists []. repeat split; constructor.
    - inversion Hg as [|? ? Hl HL]; subst. cbn [map] in H.
      change (unsh_leaf l :: map unsh_leaf L) with ([unsh_leaf l] ++ map unsh_leaf L) in H.
      rewrite render_leaves_app in H.
      apply sapp_ok in H. destruct H as (t1 & m1 & t2 & m2 & R1 & R2 & -> & ->).
      destruct (IH t2 m2 HL R2) as (L3 & E3 & W3 & N3 & F3 & P3).
      unfold render_leaves in R1. cbn [map] in R1. rewrite sconcat_cons in R1.
      change (sconcat []) with (SOk [] []) in R1.
      apply sapp_ok in R1. destruct R1 as (t1' & m1' & t0 & m0 & R1 & R0 & -> & ->).
      inversion R0; subst t0 m0. rewrite app_nil_r.
      cbn [flat_map]. rewrite subst_err_app, E3.
      destruct (act_inc l) as [n|] eqn:Ea.
      + destruct l as [t|x| |x|x w|x]; try discriminate. cbn [act_inc] in Ea. inversion Ea; subst x.
        destruct Hl as [Hl|(v & E & _)]; [|discriminate]. cbn [leaf_wf] in Hl.
        cbn [unsh_leaf render_leaf] in R1.
        destruct (Hrel n t1' m1' Hl R1) as (s & Ecb & Hnb & Hun).
        exists (LText s :: L3). unfold leaf_toks. cbn [act_inc]. cbn [subst_err].
        unfold include_cb in *. rewrite Ecb. cbn [app]. rewrite app_nil_r.
        split. { rewrite print_leaves_cons1. reflexivity. }
        split. { constructor; auto. }
        split. { constructor; auto. }
        split. { constructor; auto. split; exact I. }
        cbn [map]. rewrite print_leaves_cons1, unshield_app, P3. f_equal. exact Hun.
      + exists (l :: L3). unfold leaf_toks. rewrite Ea.
        rewrite subst_err_lits_nil.
        destruct (leaf_final strict c inc l t1' m1' Hc Hl Ea R1) as [Hok Pl].
        split. { rewrite print_leaves_cons1. reflexivity. }
        split. { constructor; auto using good_sc. }
        split. { constructor; auto. }
        split. { constructor; auto. }
        cbn [map]. rewrite print_leaves_cons1, unshield_app, Pl, P3. reflexivity.
  Qed.
End IncludeStep.

Definition templates_wf (T : list (str * template)) : Prop :=
  Forall (fun nt => well_formed (snd nt) = true) T.

Lemma lookup_print_templates : forall T n,
  lookup (print_templates T) n = option_map print (lookup T n).
Proof.
  induction T as [|[k t] T IH]; intros n; [reflexivity|].
  cbn. destruct (str_eqb k n); auto.
Qed.

Lemma lookup_wf : forall T n t, templates_wf T -> lookup T n = Some t -> well_formed t = true.
Proof.
  induction T as [|[k u] T IH]; cbn; intros n t H L; [discriminate|].
  inversion H; subst. destruct (str_eqb k n); [inversion L; subst; auto|eauto].
Qed.

Lemma word_nobrace : forall n, word n = true -> nobrace n = true.
Proof.
  intros n H. apply nobrace_in. intros c Hc. apply word_forall in H.
  rewrite forallb_forall in H. apply H in Hc. apply is_word_facts in Hc. lia.
Qed.

Lemma nobrace_app : forall a b, nobrace a = true -> nobrace b = true -> nobrace (a ++ b) = true.
Proof. intros. unfold nobrace in *. rewrite forallb_app, H, H0. reflexivity. Qed.

Lemma marker_nobrace : forall n, word n = true -> nobrace (unknown_marker n) = true.
Proof.
  intros. unfold unknown_marker. apply nobrace_app; [reflexivity|].
  apply nobrace_app; [apply word_nobrace; auto|reflexivity].
Qed.
Lemma marker_nosent : forall n, word n = true -> nosent (unknown_marker n) = true.
Proof.
  intros. unfold unknown_marker. apply nosent_app; [reflexivity|].
  apply nosent_app; [apply word_nosent, word_forall; auto|reflexivity].
Qed.

(* the four variable passes after the include pass *)
Lemma var_ok_map : forall raise c (g : leaf -> leaf) ls,
  (forall l, match g l with LVar x => l = LVar x | _ => True end) ->
  Forall (var_ok raise c) ls -> Forall (var_ok raise c) (map g ls).
Proof.
  intros raise c g ls Hg H. apply Forall_forall. intros l Hl. apply in_map_iff in Hl.
  destruct Hl as (l0 & <- & Hl0). rewrite Forall_forall in H. specialize (H l0 Hl0).
  specialize (Hg l0). destruct (g l0); try exact I. subst l0. exact H.
Qed.

Lemma opt_leaf_var : forall c l, match opt_leaf c l with LVar x => l = LVar x | _ => True end.
Proof. intros c l. destruct l; cbn [opt_leaf]; auto. Qed.
Lemma def_leaf_var : forall c l, match def_leaf c l with LVar x => l = LVar x | _ => True end.
Proof. intros c l. destruct l; cbn [def_leaf]; auto. destruct (is_filter w); exact I. Qed.
Lemma filt_leaf_var : forall c l, match filt_leaf c l with LVar x => l = LVar x | _ => True end.
Proof.
  intros c l. destruct l; cbn [filt_leaf]; auto. destruct (forallb is_word w); [|exact I].
  destruct (filt_text c x w); exact I.
Qed.

Lemma tail_passes : forall raise c L3,
  wf_leaves L3 -> Forall (fun l => filt_ok c l /\ var_ok raise c l) L3 ->
  pass_filtered false c (print_leaves L3) = inl (print_leaves (map (filt_leaf c) L3)) /\
  pass_simple false raise c
    (pass_optional false c (pass_default false c (print_leaves (map (filt_leaf c) L3)))) =
  inl (print_leaves (map (final_leaf c) L3)).
Proof.
  intros raise c L3 Hwf Hok.
  assert (Hf : Forall (filt_ok c) L3) by (eapply Forall_impl; [|exact Hok]; cbn; tauto).
  assert (Hv : Forall (var_ok raise c) L3) by (eapply Forall_impl; [|exact Hok]; cbn; tauto).
  split; [apply pass_filtered_leaves; auto|].
  assert (W1 : wf_leaves (map (filt_leaf c) L3)) by (apply map_wf; auto using filt_leaf_sc).
  rewrite pass_default_leaves by auto.
  assert (W2 : wf_leaves (map (def_leaf c) (map (filt_leaf c) L3))) by (apply map_wf; auto using def_leaf_sc).
  rewrite pass_optional_leaves by auto.
  assert (W3 : wf_leaves (map (opt_leaf c) (map (def_leaf c) (map (filt_leaf c) L3))))
    by (apply map_wf; auto using opt_leaf_sc).
  rewrite pass_simple_leaves_gen; auto.
  - rewrite !map_map. reflexivity.
  - apply var_ok_map; [apply opt_leaf_var|]. apply var_ok_map; [apply def_leaf_var|].
    apply var_ok_map; [apply filt_leaf_var|]. exact Hv.
Qed.

(* whatever translate returns is sentinel-free: it is an _unshield *)
Lemma translate_nosent : forall fuel strict T c s t w,
  translate false fuel strict T c s = Ok t w -> nosent t = true.
Proof.
  intros [|f] strict T c s t w H; [discriminate|]. cbn [translate] in H.
  destruct (if strict then missing_vars false c s else []); [|discriminate].
  destruct (include_text false _) as [s3|e]; [|discriminate].
  destruct (pass_filtered false c s3) as [s4|e]; [|discriminate].
  destruct (pass_simple false _ c _) as [s7|e]; [|discriminate].
  inversion H; subst. apply unshield_nosent.
Qed.

Theorem render_eq_fuel : forall strict T c,
  ctx_ok c = true -> templates_wf T ->
  (strict = true -> Forall (fun nt => out_bound c (snd nt)) T) ->
  forall fuel t txt miss,
    well_formed t = true -> (strict = true -> out_bound c t) ->
    render_tpl fuel strict T c t = SOk txt miss ->
    exists w, translate false fuel strict (print_templates T) c (print t) = Ok txt w.
Proof.
  intros strict T c Hc HT HTb. induction fuel as [|f IH]; intros t txt miss Hwf Hb H; [discriminate|].
  cbn [render_tpl] in H. rewrite render_nodes_blocks in H.
  destruct (blocks_rel c t Hc Hwf) as [Erel Hgood]. rewrite <- Erel in H.
  set (incf := fun n => match lookup T n with
                        | Some t' => render_tpl f strict T c t'
                        | None => SOk (unknown_marker n) []
                        end) in H.
  set (render := fun n => match lookup (print_templates T) n with
                          | Some sq => Some (translate false f strict (print_templates T) c sq)
                          | None => None
                          end).
  assert (Hrel : forall n tn mn, word n = true -> incf n = SOk tn mn ->
            exists s, include_cb false (n, render n) [] = inl s /\ nobrace s = true /\ unshield s = tn).
  { intros n tn mn Hn Hi. unfold incf in Hi. unfold include_cb, render. cbn [fst snd].
    rewrite lookup_print_templates. destruct (lookup T n) as [t'|] eqn:L; cbn [option_map].
    - assert (Hb' : strict = true -> out_bound c t').
      { intros Hs. specialize (HTb Hs). clear - HTb L.
        induction T as [|[k u] T IHT]; cbn in L; [discriminate|]. inversion HTb; subst.
        destruct (str_eqb k n); [inversion L; subst; auto|auto]. }
      destruct (IH t' tn mn (lookup_wf T n t' HT L) Hb' Hi) as (w & E).
      rewrite E. exists (shield tn). cbn [sh]. repeat split; auto using shield_nobrace.
      apply unshield_shield. eapply translate_nosent; eauto.
    - inversion Hi; subst. exists (unknown_marker n). repeat split; auto using marker_nobrace.
      apply unshield_id. apply marker_nosent. auto. }
  destruct (include_leaves strict c incf render Hc Hrel (blocks c t) txt miss Hgood H)
    as (L3 & E3 & W3 & N3 & F3 & P3).
  cbn [translate].
  assert (Em : (if strict then missing_vars false c (print t) else []) = []).
  { destruct strict; [|reflexivity]. apply missing_none; auto. }
  rewrite Em. rewrite passes_blocks by auto.
  fold render. rewrite include_text_eq.
  rewrite (scan_leaves_nil (m_include idz) act_inc (blocks c t) no_include (blocks_wf c t Hc Hwf) agrees_include).
  rewrite E3.
  destruct (tail_passes strict c L3 W3 F3) as [T1 T2]. rewrite T1.
  cbn [negb]. rewrite andb_true_r. rewrite T2.
  cbn [unsh]. rewrite P3. eexists. reflexivity.
Qed.

Lemma templates_wf_b : forall T, forallb (fun nt => well_formed (snd nt)) T = true -> templates_wf T.
Proof. intros T H. apply Forall_forall. rewrite forallb_forall in H. exact H. Qed.

Theorem render_eq_proof : forall T c t txt miss,
  ctx_ok c = true ->
  forallb (fun nt => well_formed (snd nt)) T = true -> well_formed t = true ->
  render_spec false T c t = SOk txt miss ->
  exists w, render_impl false (print_templates T) c (print t) = Ok txt w.
Proof.
  intros T c t txt miss Hc HT Hwf H. unfold render_spec in H. unfold render_impl.
  assert (E : length (print_templates T) = length T) by (unfold print_templates; apply map_length).
  rewrite E. eapply render_eq_fuel; eauto using templates_wf_b; discriminate.
Qed.

Theorem missing_plain_var_warned_proof : forall T c t x,
  well_formed t = true -> In x (plain_vars_out t) -> lookup c x = None ->
  (forall txt w, render_impl false T c (print t) = Ok txt w -> In (WMissing x) w) /\
  (exists y, render_impl true T c (print t) = Err (EMissing y) /\ lookup c y = None).
Proof.
  intros T c t x Hwf Hin L.
  pose proof (missing_vars_in c t x Hwf Hin L) as Hm.
  split.
  - intros txt w H. unfold render_impl in H. cbn [translate] in H.
    destruct (include_text false _) as [s3|e]; [|discriminate].
    destruct (pass_filtered false c s3) as [s4|e]; [|discriminate].
    destruct (pass_simple false _ c _) as [s7|e]; [|discriminate].
    inversion H; subst. apply in_or_app. left. apply in_map. exact Hm.
  - unfold render_impl. cbn [translate].
    destruct (missing_vars false c (print t)) as [|y ys] eqn:E; [destruct Hm|].
    exists y. split; auto.
    assert (Hy : In y (missing_vars false c (print t))) by (rewrite E; left; auto).
    unfold missing_vars in Hy. apply filter_In in Hy. destruct Hy as [_ Hy].
    unfold bound in Hy. destruct (lookup c y); [discriminate|reflexivity].
Qed.

Lemma text_leaf_passes : forall c raise m, nobrace m = true ->
  pass_filtered false c m = inl m /\ warn_filtered c m = [] /\ pass_default false c m = m /\
  pass_optional false c m = m /\ pass_simple false raise c m = inl m /\ warn_simple c m = [].
Proof.
  intros c raise m Hm.
  assert (E : m = print_leaves [LText m]) by (rewrite print_leaves_cons1, print_leaves_nil, app_nil_r; reflexivity).
  assert (W : wf_leaves [LText m]) by (repeat constructor; auto).
  repeat split.
  - rewrite E at 1. rewrite pass_filtered_leaves; auto; [|repeat constructor].
    cbn [map filt_leaf]. rewrite <- E. reflexivity.
  - unfold warn_filtered. rewrite E.
    rewrite (scan_leaves_nil (m_filtered idz) act_filt _ no_filtered W agrees_filtered).
    rewrite matches_leaf_toks. reflexivity.
  - rewrite pass_default_unfold. rewrite E at 1.
    rewrite (scan_leaves_nil (m_default idz) act_def _ no_default W agrees_default).
    rewrite matches_leaf_toks. reflexivity.
  - rewrite E at 1. rewrite pass_optional_leaves by exact W. cbn [map opt_leaf]. rewrite <- E. reflexivity.
  - unfold pass_simple. rewrite E at 1.
    rewrite (scan_leaves_nil (m_simple idz) act_var _ no_simple W agrees_simple).
    unfold leaf_toks. cbn [flat_map act_var print_leaf]. rewrite app_nil_r.
    apply subst_err_lits_nil.
  - unfold warn_simple. rewrite E.
    rewrite (scan_leaves_nil (m_simple idz) act_var _ no_simple W agrees_simple).
    rewrite matches_leaf_toks. reflexivity.
Qed.

Theorem unknown_include_marker_proof : forall strict T c n,
  word n = true -> lookup T n = None ->
  render_impl strict (print_templates T) c (print [NLeaf (LInc n)]) = Ok (unknown_marker n) [].
Proof.
  intros strict T c n Hn L. unfold render_impl. cbn [translate].
  assert (Hwf : well_formed [NLeaf (LInc n)] = true) by (cbn; rewrite Hn; reflexivity).
  assert (Hm : missing_vars false c (print [NLeaf (LInc n)]) = []).
  { unfold missing_vars. rewrite required_vars_eq by auto. reflexivity. }
  rewrite Hm. assert (E0 : (if strict then @nil str else []) = []) by (destruct strict; reflexivity).
  rewrite E0.
  change [NLeaf (LInc n)] with (map NLeaf [LInc n]). rewrite print_map_leaf.
  assert (W : wf_leaves [LInc n]) by (repeat constructor; auto).
  rewrite pass_if_leaves, pass_each_leaves by auto.
  unfold include_warnings. cbn [sh].
  unfold resolve_includes at 2.
  rewrite include_text_eq.
  rewrite (scan_leaves_nil (m_include idz) act_inc _ no_include W agrees_include).
  cbn [flat_map leaf_toks act_inc app subst_err map matches]. unfold include_cb at 1. cbn [fst snd].
  rewrite lookup_print_templates, L. cbn [option_map]. rewrite app_nil_r.
  fold (unknown_marker n).
  destruct (text_leaf_passes c (strict && negb false) (unknown_marker n) (marker_nobrace n Hn))
    as (E1 & E2 & E3 & E4 & E5 & E6).
  rewrite E1, E2, E3, E4, E5, E6. cbn [unsh].
  rewrite unshield_id by (apply marker_nosent; auto). reflexivity.
Qed.


(* ------------------------------------------------------------------ *)
(* R. strict mode: the two theorems                                      *)

Theorem strict_loop_vars_proof : forall T c t txt miss,
  ctx_ok c = true ->
  forallb (fun nt => well_formed (snd nt)) T = true -> well_formed t = true ->
  Forall (fun nt => out_bound c (snd nt)) T -> out_bound c t ->
  render_spec true T c t = SOk txt miss ->
  exists w, render_impl true (print_templates T) c (print t) = Ok txt w.
Proof.
  intros T c t txt miss Hc HT Hwf HTb Hb H. unfold render_spec in H. unfold render_impl.
  assert (E : length (print_templates T) = length T) by (unfold print_templates; apply map_length).
  rewrite E. eapply render_eq_fuel; eauto using templates_wf_b.
Qed.

Lemma subst_err_some_err : forall {M} (f : M -> str -> str + error) ts m cv e,
  In (TMatch m cv) ts -> f m cv = inr e -> exists e', subst_err f ts = inr e'.
Proof.
  intros M f ts m cv e Hin Hf. induction ts as [|t ts IH]; [destruct Hin|].
  destruct Hin as [->|Hin].
  - cbn [subst_err]. rewrite Hf. eauto.
  - destruct (IH Hin) as (e' & E'). destruct t as [a|m' cv']; cbn [subst_err].
    + rewrite E'. eauto.
    + destruct (f m' cv'); [rewrite E'|]; eauto.
Qed.

Lemma in_leaf_toks : forall {M} (act : leaf -> option M) ls l m,
  In l ls -> act l = Some m -> In (TMatch m (print_leaf l)) (flat_map (leaf_toks M act) ls).
Proof.
  intros. apply in_flat_map. exists l. split; auto. unfold leaf_toks. rewrite H0. left. reflexivity.
Qed.

Lemma include_struct : forall (render : str -> option outcome) L, wf_leaves L ->
  (exists e, subst_err (fun n cv => include_cb false (n, render n) cv)
                       (flat_map (leaf_toks _ act_inc) L) = inr e) \/
  (exists L3, subst_err (fun n cv => include_cb false (n, render n) cv)
                        (flat_map (leaf_toks _ act_inc) L) = inl (print_leaves L3) /\
              wf_leaves L3 /\ forall l, In l L -> act_inc l = None -> In l L3).
Proof.
  intros render L H. induction H as [|l L Hl HL IH].
  - right. exists []. repeat split; [constructor|]. intros l [].
  - cbn [flat_map]. rewrite subst_err_app.
    destruct IH as [(e & E)|(L3 & E & W3 & I3)].
    + left. rewrite E. destruct (subst_err _ (leaf_toks str act_inc l)); eauto.
    + rewrite E. unfold leaf_toks. destruct (act_inc l) as [n|] eqn:Ea.
      * destruct l as [t|x| |x|x w|x]; try discriminate. cbn [act_inc] in Ea. inversion Ea; subst x.
        cbn [subst_err]. unfold include_cb. cbn [fst snd].
        destruct (render n) as [[tn wn|e]|].
        -- right. exists (LText (shield tn) :: L3). cbn [sh]. rewrite app_nil_r, print_leaves_cons1.
           repeat split; auto.
           ++ constructor; auto. apply shield_nobrace.
           ++ intros l [<-|Hin] Hn; [discriminate|]. right. auto.
        -- left. eauto.
        -- right. exists (LText (unknown_marker n) :: L3). rewrite app_nil_r, print_leaves_cons1.
           repeat split; auto.
           ++ constructor; auto. cbn [leaf_sc] in *. apply marker_nobrace. auto.
           ++ intros l [<-|Hin] Hni; [discriminate|]. right. auto.
      * right. exists (l :: L3). rewrite subst_err_lits_nil, print_leaves_cons1.
        repeat split; auto.
        -- constructor; auto.
        -- intros l' [<-|Hin] Hn; [left; auto|right; auto].
Qed.

Definition filt_bad (c : ctx) (l : leaf) : bool :=
  match l with
  | LPipe x w => forallb is_word w && is_filter w &&
                 match lookup c x with
                 | Some v => match apply_filter w v with inr _ => true | inl _ => false end
                 | None => false
                 end
  | _ => false
  end.

Lemma filtered_struct : forall c L, wf_leaves L ->
  (exists e, pass_filtered false c (print_leaves L) = inr e) \/
  pass_filtered false c (print_leaves L) = inl (print_leaves (map (filt_leaf c) L)).
Proof.
  intros c L H. destruct (existsb (filt_bad c) L) eqn:E.
  - left. apply existsb_exists in E. destruct E as (l & Hl & Hb).
    destruct l as [t|x| |x|x w|x]; try discriminate. cbn [filt_bad] in Hb.
    apply andb_prop in Hb. destruct Hb as [Hb Hv]. apply andb_prop in Hb. destruct Hb as [Hw Hf].
    destruct (lookup c x) as [v|] eqn:Lx; [|discriminate].
    destruct (apply_filter w v) as [s|e] eqn:A; [discriminate|].
    unfold pass_filtered.
    rewrite (scan_leaves_nil (m_filtered idz) act_filt L no_filtered H agrees_filtered).
    eapply subst_err_some_err.
    + apply (in_leaf_toks act_filt L (LPipe x w) (x, w)); auto. cbn. rewrite Hw. reflexivity.
    + cbv beta iota. rewrite Lx, Hf, A. reflexivity.
  - right. apply pass_filtered_leaves; auto. apply Forall_forall. intros l Hl.
    destruct l as [t|x| |x|x w|x]; try exact I. cbn [filt_ok]. intros v Lx Hf.
    assert (Hb : filt_bad c (LPipe x w) = false).
    { destruct (filt_bad c (LPipe x w)) eqn:B; auto.
      assert (existsb (filt_bad c) L = true) by (apply existsb_exists; eauto). congruence. }
    cbn [filt_bad] in Hb. rewrite (is_filter_word w Hf), Hf, Lx in Hb. cbn [andb] in Hb.
    destruct (apply_filter w v); [eauto|discriminate].
Qed.

Lemma simple_raises : forall c ls x, wf_leaves ls -> In (LVar x) ls -> lookup c x = None ->
  exists e, pass_simple false true c (print_leaves ls) = inr e.
Proof.
  intros c ls x H Hin L. unfold pass_simple.
  rewrite (scan_leaves_nil (m_simple idz) act_var ls no_simple H agrees_simple).
  eapply subst_err_some_err.
  - apply (in_leaf_toks act_var ls (LVar x) x); auto.
  - cbn. rewrite L. reflexivity.
Qed.

(* a plain variable that is rendered (after the blocks are expanded) and unbound is an error in
   strict mode, whatever else the template contains *)
Theorem strict_unbound_error_proof : forall Ts c t x,
  ctx_ok c = true -> well_formed t = true ->
  In (LVar x) (blocks c t) -> lookup c x = None ->
  exists e, render_impl true Ts c (print t) = Err e.
Proof.
  intros Ts c t x Hc Hwf Hin L. unfold render_impl. cbn [translate].
  destruct (missing_vars false c (print t)) as [|y ys]; [|eauto].
  set (render := fun n => match lookup Ts n with
                          | Some sq => Some (translate false (length Ts) true Ts c sq)
                          | None => None
                          end).
  rewrite passes_blocks by auto. rewrite include_text_eq.
  pose proof (blocks_wf c t Hc Hwf) as HB.
  rewrite (scan_leaves_nil (m_include idz) act_inc (blocks c t) no_include HB agrees_include).
  destruct (include_struct render (blocks c t) HB) as [(e & E)|(L3 & E & W3 & I3)].
  - rewrite E. eauto.
  - rewrite E. assert (H3 : In (LVar x) L3) by (apply I3; auto).
    destruct (filtered_struct c L3 W3) as [(e & E4)|E4]; rewrite E4; [eauto|].
    assert (W1 : wf_leaves (map (filt_leaf c) L3)) by (apply map_wf; auto using filt_leaf_sc).
    rewrite pass_default_leaves by auto.
    assert (W2 : wf_leaves (map (def_leaf c) (map (filt_leaf c) L3))) by (apply map_wf; auto using def_leaf_sc).
    rewrite pass_optional_leaves by auto.
    assert (W3' : wf_leaves (map (opt_leaf c) (map (def_leaf c) (map (filt_leaf c) L3))))
      by (apply map_wf; auto using opt_leaf_sc).
    cbn [negb andb].
    destruct (simple_raises c _ x W3') as (e & E7); auto.
    + apply (in_map (opt_leaf c) _ (LVar x)). apply (in_map (def_leaf c) _ (LVar x)).
      apply (in_map (filt_leaf c) _ (LVar x)). exact H3.
    + rewrite E7. eauto.
Qed.

(* ================================================================== *)
(* S. the taint pipeline: scanning tainted text                         *)

Lemma erase_app : forall a b, erase (a ++ b) = erase a ++ erase b.
Proof. intros. unfold erase. apply map_app. Qed.
Lemma erase_length : forall S, length (erase S) = length S.
Proof. intros. unfold erase. apply map_length. Qed.
Lemma erase_taint : forall o s, erase (taint o s) = s.
Proof. intros. unfold erase, taint. rewrite map_map. cbn. apply map_id. Qed.
Lemma codes_erase : forall S : tstr, codes idz (erase S) = codes tcode S.
Proof. intros. unfold codes, erase. rewrite map_map. reflexivity. Qed.
Lemma codes_tcode : forall S : tstr, codes tcode S = erase S.
Proof. reflexivity. Qed.

Lemma starts_erase : forall p S, starts idz p (erase S) = option_map erase (starts tcode p S).
Proof.
  induction p as [|c p IH]; intros S; [reflexivity|].
  destruct S as [|a S]; [reflexivity|]. cbn [erase map starts]. unfold idz at 1.
  destruct (tcode a =? c); [apply IH|reflexivity].
Qed.

Lemma span_erase : forall f S,
  span idz f (erase S) = (erase (fst (span tcode f S)), erase (snd (span tcode f S))).
Proof.
  induction S as [|a S IH]; [reflexivity|]. cbn [erase map span]. unfold idz at 1.
  destruct (f (tcode a)); [|reflexivity].
  fold (erase S). rewrite IH. destruct (span tcode f S). reflexivity.
Qed.

Lemma nonempty_erase : forall S : tstr, nonempty (erase S) = nonempty S.
Proof. destruct S; reflexivity. Qed.

Ltac erase_step :=
  repeat first
    [ rewrite starts_erase
    | rewrite span_erase
    | rewrite nonempty_erase
    | rewrite erase_length
    | rewrite codes_erase ].

Lemma m_simple_erase : forall S, m_simple idz (erase S) = m_simple tcode S.
Proof.
  intros. unfold m_simple. erase_step. destruct (starts tcode K_OPEN S) as [r|]; [|reflexivity].
  cbn [option_map]. erase_step. destruct (span tcode is_word r) as [w r1]. cbn [fst snd].
  erase_step. destruct (nonempty w); [|reflexivity]. erase_step.
  destruct (starts tcode K_CLOSE r1); reflexivity.
Qed.
Lemma m_optional_erase : forall S, m_optional idz (erase S) = m_optional tcode S.
Proof.
  intros. unfold m_optional. erase_step. destruct (starts tcode K_OPT S) as [r|]; [|reflexivity].
  cbn [option_map]. erase_step. destruct (span tcode is_word r) as [w r1]. cbn [fst snd].
  erase_step. destruct (nonempty w); [|reflexivity]. erase_step.
  destruct (starts tcode K_CLOSE r1); reflexivity.
Qed.
Lemma m_include_erase : forall S, m_include idz (erase S) = m_include tcode S.
Proof.
  intros. unfold m_include. erase_step. destruct (starts tcode K_INC S) as [r|]; [|reflexivity].
  cbn [option_map]. erase_step. destruct (span tcode is_word r) as [w r1]. cbn [fst snd].
  erase_step. destruct (nonempty w); [|reflexivity]. erase_step.
  destruct (starts tcode K_CLOSE r1); reflexivity.
Qed.
Lemma m_filtered_erase : forall S, m_filtered idz (erase S) = m_filtered tcode S.
Proof.
  intros. unfold m_filtered. erase_step. destruct (starts tcode K_OPEN S) as [r|]; [|reflexivity].
  cbn [option_map]. erase_step. destruct (span tcode is_word r) as [w r1]. cbn [fst snd].
  erase_step. destruct (nonempty w); [|reflexivity]. erase_step.
  destruct (starts tcode [124] r1) as [r2|]; [|reflexivity]. cbn [option_map]. erase_step.
  destruct (span tcode is_word r2) as [f r3]. cbn [fst snd]. erase_step.
  destruct (nonempty f); [|reflexivity]. erase_step.
  destruct (starts tcode K_CLOSE r3); reflexivity.
Qed.
Lemma m_default_erase : forall S, m_default idz (erase S) = m_default tcode S.
Proof.
  intros. unfold m_default. erase_step. destruct (starts tcode K_OPEN S) as [r|]; [|reflexivity].
  cbn [option_map]. erase_step. destruct (span tcode is_word r) as [w r1]. cbn [fst snd].
  erase_step. destruct (nonempty w); [|reflexivity]. erase_step.
  destruct (starts tcode [124] r1) as [r2|]; [|reflexivity]. cbn [option_map]. erase_step.
  destruct (span tcode (fun c => negb (c =? RB)) r2) as [f r3]. cbn [fst snd]. erase_step.
  destruct (nonempty f); [|reflexivity]. erase_step.
  destruct (starts tcode K_CLOSE r3); reflexivity.
Qed.
Lemma m_lit_erase : forall p S, m_lit idz p (erase S) = m_lit tcode p S.
Proof.
  intros. unfold m_lit. destruct p; [reflexivity|]. erase_step.
  destruct (starts tcode (z :: p) S); reflexivity.
Qed.

(* transport of a scan from the erased text to the tainted text *)
Fixpoint retok {M} (ts : list (tok Z M)) (S : tstr) : list (ttok M) :=
  match ts with
  | [] => []
  | TLit _ :: ts' => match S with
                     | a :: S' => TLit a :: retok ts' S'
                     | [] => []
                     end
  | TMatch m cov :: ts' => TMatch m (firstn (length cov) S) :: retok ts' (skipn (length cov) S)
  end.

Lemma skipn_min : forall {X} n (l : list X), skipn (Nat.min n (length l)) l = skipn n l.
Proof.
  intros X n l. destruct (Nat.le_ge_cases n (length l)).
  - rewrite Nat.min_l by auto. reflexivity.
  - rewrite Nat.min_r by auto. rewrite skipn_all. symmetry. apply skipn_all2. auto.
Qed.
Lemma firstn_min : forall {X} n (l : list X), firstn (Nat.min n (length l)) l = firstn n l.
Proof.
  intros X n l. destruct (Nat.le_ge_cases n (length l)).
  - rewrite Nat.min_l by auto. reflexivity.
  - rewrite Nat.min_r by auto. rewrite firstn_all. symmetry. apply firstn_all2. auto.
Qed.

Lemma scan_transport : forall {M} (mt : tstr -> option (M * nat)) (mz : str -> option (M * nat)),
  (forall S, mz (erase S) = mt S) ->
  (forall s m n, mz s = Some (m, n) -> (1 <= n)%nat) ->
  forall S k, scan mt k S = retok (scan mz k (erase S)) (skipn k S).
Proof.
  intros M mt mz He Hn. induction S as [|a S IH]; intros k.
  - destruct k; reflexivity.
  - destruct k as [|k].
    + cbn [erase map scan skipn]. fold (erase S). rewrite <- He. cbn [erase map]. fold (erase S).
      destruct (mz (tcode a :: erase S)) as [[m n]|] eqn:E.
      * pose proof (Hn _ _ _ E) as Hn1. cbn [retok].
        assert (EL : length (tcode a :: erase S) = length (a :: S))
          by (cbn [length]; rewrite erase_length; reflexivity).
        rewrite firstn_length, EL, firstn_min, skipn_min. f_equal.
        rewrite IH. destruct n; [lia|]. reflexivity.
      * cbn [retok]. f_equal. rewrite IH. reflexivity.
    + cbn [erase map scan skipn]. fold (erase S). apply IH.
Qed.

(* tainted leaves: arbitrary tainted brace-free text, or a template construct *)
Inductive tleaf := TText (s : tstr) | TCon (l : leaf).
Definition pl (tl : tleaf) : leaf := match tl with TText s => LText (erase s) | TCon l => l end.
Definition tpr (tl : tleaf) : tstr :=
  match tl with TText s => s | TCon l => taint FromTemplate (print_leaf l) end.
Definition tprints (tls : list tleaf) : tstr := flat_map tpr tls.
Definition tl_ok (tl : tleaf) : Prop :=
  match tl with
  | TText s => nobrace (erase s) = true
  | TCon l => leaf_sc l = true /\ is_text l = false
  end.
(* the invariant of the partially rendered tainted text *)
Definition Inv (X : tstr) : Prop := exists tls, X = tprints tls /\ Forall tl_ok tls.

Lemma erase_tpr : forall tl, erase (tpr tl) = print_leaf (pl tl).
Proof. intros [s|l]; cbn; auto using erase_taint. Qed.
Lemma erase_tprints : forall tls, erase (tprints tls) = print_leaves (map pl tls).
Proof.
  induction tls as [|tl tls IH]; [reflexivity|].
  unfold tprints. cbn [flat_map map]. rewrite erase_app, print_leaves_cons1, erase_tpr.
  f_equal. exact IH.
Qed.
Lemma tl_ok_sc : forall tls, Forall tl_ok tls -> wf_leaves (map pl tls).
Proof.
  intros tls H. apply Forall_forall. intros l Hl. apply in_map_iff in Hl.
  destruct Hl as (tl & <- & Htl). rewrite Forall_forall in H. specialize (H tl Htl).
  destruct tl; cbn in *; tauto.
Qed.
Lemma tprints_app : forall a b, tprints (a ++ b) = tprints a ++ tprints b.
Proof. intros. unfold tprints. apply flat_map_app. Qed.

Definition ttoks {M} (act : leaf -> option M) (tl : tleaf) : list (ttok M) :=
  match act (pl tl) with
  | Some m => [TMatch m (tpr tl)]
  | None => map TLit (tpr tl)
  end.

Lemma retok_lits : forall {M} (p : str) (ts : list (tok Z M)) (P S : tstr),
  length p = length P -> retok (map TLit p ++ ts) (P ++ S) = map TLit P ++ retok ts S.
Proof.
  intros M p. induction p as [|z p IH]; intros ts P S H; destruct P as [|a P]; try discriminate.
  - reflexivity.
  - cbn [map app retok]. f_equal. apply IH. cbn in H. lia.
Qed.

Lemma retok_leaves : forall {M} (act : leaf -> option M) tls,
  retok (flat_map (leaf_toks M act) (map pl tls)) (tprints tls) = flat_map (ttoks act) tls.
Proof.
  intros M act tls. induction tls as [|tl tls IH]; [reflexivity|].
  cbn [map flat_map]. unfold tprints. cbn [flat_map]. fold (tprints tls).
  unfold leaf_toks at 1. unfold ttoks at 1.
  assert (EL : length (print_leaf (pl tl)) = length (tpr tl)).
  { rewrite <- erase_tpr. apply erase_length. }
  destruct (act (pl tl)) as [m|].
  - cbn [app retok]. rewrite EL, firstn_app_exact.
    rewrite skipn_app, Nat.sub_diag, skipn_all. cbn [app skipn]. rewrite IH. reflexivity.
  - rewrite retok_lits by exact EL. rewrite IH. reflexivity.
Qed.

(* scanning tainted leaves with a matcher that only reads code points *)
Lemma scan_tleaves : forall {M} (mt : tstr -> option (M * nat)) (mz : str -> option (M * nat)) act tls,
  (forall S, mz (erase S) = mt S) ->
  (forall s m n, mz s = Some (m, n) -> (1 <= n)%nat) ->
  needs_open mz -> (forall l, leaf_sc l = true -> agrees M mz act l) ->
  Forall tl_ok tls ->
  scan mt O (tprints tls) = flat_map (ttoks act) tls.
Proof.
  intros M mt mz act tls He Hn Ho Hag Hok.
  rewrite (scan_transport mt mz He Hn). cbn [skipn].
  rewrite erase_tprints.
  rewrite (scan_leaves_nil mz act (map pl tls) Ho (tl_ok_sc tls Hok) Hag).
  apply retok_leaves.
Qed.

Lemma covers_template : forall p s, covers p (taint FromTemplate s) = [].
Proof. intros. unfold covers, taint. induction s; cbn; auto. Qed.

(* a re.sub over tainted leaves: nothing is logged, and the result is again tainted leaves *)
Lemma tsub_tleaves : forall {M} (p : pass) (act : leaf -> option M)
                            (f : M -> tstr -> (tstr + error) * list failure) tls,
  (forall s, act (LText s) = None) ->
  Forall tl_ok tls ->
  (forall tl m, In tl tls -> act (pl tl) = Some m ->
     snd (f m (tpr tl)) = [] /\ (forall Y, fst (f m (tpr tl)) = inl Y -> Inv Y)) ->
  snd (tsub p f (flat_map (ttoks act) tls)) = [] /\
  (forall Y, fst (tsub p f (flat_map (ttoks act) tls)) = inl Y -> Inv Y).
Proof.
  intros M p act f tls Htext Hok Hf. induction Hok as [|tl tls Htl Hok IH].
  - cbn. split; auto. intros Y HY. inversion HY. exists []. split; [reflexivity|constructor].
  - assert (Hf' : forall tl0 m, In tl0 tls -> act (pl tl0) = Some m ->
              snd (f m (tpr tl0)) = [] /\ (forall Y, fst (f m (tpr tl0)) = inl Y -> Inv Y))
      by (intros; apply Hf; auto; right; auto).
    destruct (IH Hf') as [IH1 IH2]. cbn [flat_map].
    destruct (act (pl tl)) as [m|] eqn:Ea.
    + destruct tl as [s|l]; [cbn [pl] in Ea; rewrite Htext in Ea; discriminate|].
      assert (Et : ttoks act (TCon l) = [TMatch m (tpr (TCon l))]) by (unfold ttoks; rewrite Ea; reflexivity).
      rewrite Et. cbn [app tsub]. destruct (Hf (TCon l) m (or_introl eq_refl) Ea) as [F1 F2].
      destruct (f m (tpr (TCon l))) as [r1 lg1] eqn:Ef. cbn [fst snd] in *. subst lg1.
      cbn [tpr]. rewrite covers_template.
      destruct r1 as [x|e]; [|cbn; split; auto; intros; discriminate].
      destruct (tsub p f (flat_map (ttoks act) tls)) as [r lg] eqn:Ets. cbn [fst snd] in *. subst lg.
      cbn. split; auto. intros Y HY. destruct r as [y|e]; [|discriminate]. inversion HY; subst.
      destruct (F2 x eq_refl) as (t1 & -> & O1). destruct (IH2 y eq_refl) as (t2 & -> & O2).
      exists (t1 ++ t2). split; [symmetry; apply tprints_app|apply Forall_app; auto].
    + (* copied leaf *)
      assert (G : forall P ts, snd (tsub p f ts) = [] ->
                  snd (tsub p f (map TLit P ++ ts)) = [] /\
                  fst (tsub p f (map TLit P ++ ts)) =
                  match fst (tsub p f ts) with inl y => inl (P ++ y) | inr e => inr e end).
      { clear - HFT. intros P ts H. induction P as [|a P IHP]; cbn [map app tsub].
        - split; auto. destruct (fst (tsub p f ts)); reflexivity.
        - destruct IHP as [I1 I2]. destruct (tsub p f (map TLit P ++ ts)) as [r lg].
          cbn [fst snd] in *. subst lg. split; auto. rewrite I2.
          destruct (fst (tsub p f ts)); reflexivity. }
      assert (Et : ttoks act tl = map TLit (tpr tl)) by (unfold ttoks; rewrite Ea; reflexivity).
      rewrite Et.
      destruct (G (tpr tl) _ IH1) as [G1 G2]. split; auto.
      intros Y HY. pose proof (eq_trans (eq_sym HY) G2) as K.
      destruct (fst (tsub p f (flat_map (ttoks act) tls))) as [y|e] eqn:Ey; [|discriminate].
      inversion K; subst. destruct (IH2 y eq_refl) as (t2 & -> & O2).
      exists (tl :: t2). split; [reflexivity|constructor; auto].
Qed.

Lemma Inv_nil : Inv [].
Proof. exists []. split; [reflexivity|constructor]. Qed.
Lemma Inv_text : forall S, nobrace (erase S) = true -> Inv S.
Proof.
  intros S H. exists [TText S]. split; [unfold tprints; cbn; rewrite app_nil_r; reflexivity|].
  constructor; [exact H|constructor].
Qed.
Lemma Inv_taint : forall o s, nobrace s = true -> Inv (taint o s).
Proof. intros. apply Inv_text. rewrite erase_taint. auto. Qed.
Lemma Inv_con : forall l, leaf_sc l = true -> is_text l = false -> Inv (tpr (TCon l)).
Proof.
  intros l H1 H2. exists [TCon l]. split; [unfold tprints; cbn; rewrite app_nil_r; reflexivity|].
  constructor; [split; auto|constructor].
Qed.
Lemma Inv_app : forall a b, Inv a -> Inv b -> Inv (a ++ b).
Proof.
  intros a b (t1 & -> & O1) (t2 & -> & O2). exists (t1 ++ t2).
  split; [symmetry; apply tprints_app|apply Forall_app; auto].
Qed.

Lemma toks_log_app : forall {M} p (a b : list (ttok M)),
  toks_log p (a ++ b) = toks_log p a ++ toks_log p b.
Proof. intros. unfold toks_log. apply flat_map_app. Qed.
Lemma tsubst_app : forall {M} (f : M -> tstr -> tstr) (a b : list (ttok M)),
  subst f (a ++ b) = subst f a ++ subst f b.
Proof. intros. unfold subst. apply flat_map_app. Qed.
Lemma toks_log_lits : forall {M} p (P : tstr), @toks_log M p (map TLit P) = [].
Proof. intros. induction P; cbn; auto. Qed.
Lemma tsubst_lits : forall {M} (f : M -> tstr -> tstr) (P : tstr), subst f (map TLit P) = P.
Proof. intros. unfold subst. induction P as [|a P IH]; cbn; auto. f_equal. exact IH. Qed.

(* str.replace over tainted leaves *)
Lemma subst_tleaves : forall {M} (p : pass) (act : leaf -> option M) (new : tstr) tls,
  (forall s, act (LText s) = None) -> Forall tl_ok tls -> nobrace (erase new) = true ->
  toks_log p (flat_map (ttoks act) tls) = [] /\
  Inv (subst (fun _ _ => new) (flat_map (ttoks act) tls)).
Proof.
  intros M p act new tls Htext Hok Hnew. induction Hok as [|tl tls Htl Hok IH].
  - split; [reflexivity|apply Inv_nil].
  - destruct IH as [IH1 IH2]. cbn [flat_map]. rewrite toks_log_app, tsubst_app, IH1, app_nil_r.
    unfold ttoks. destruct (act (pl tl)) as [m|] eqn:Ea.
    + destruct tl as [s|l]; [cbn [pl] in Ea; rewrite Htext in Ea; discriminate|].
      cbn [tpr]. unfold toks_log, subst. cbn [flat_map]. rewrite covers_template, !app_nil_r.
      split; [reflexivity|]. apply Inv_app; auto using Inv_text.
    + rewrite toks_log_lits, tsubst_lits. split; [reflexivity|].
      apply Inv_app; auto. exists [tl]. split; [unfold tprints; cbn; rewrite app_nil_r; reflexivity|].
      constructor; auto.
Qed.

Ltac n_ge_1 :=
  let s := fresh in let m := fresh in let n := fresh in let H := fresh in
  intros s m n H;
  repeat match type of H with
         | match ?x with _ => _ end = _ => destruct x eqn:?; try discriminate
         | (let (_, _) := ?x in _) = _ => destruct x eqn:?
         | (if ?x then _ else _) = _ => destruct x eqn:?; try discriminate
         end; inversion H; lia.

Lemma n1_simple : forall s m n, m_simple idz s = Some (m, n) -> (1 <= n)%nat.
Proof. unfold m_simple. n_ge_1. Qed.
Lemma n1_optional : forall s m n, m_optional idz s = Some (m, n) -> (1 <= n)%nat.
Proof. unfold m_optional. n_ge_1. Qed.
Lemma n1_include : forall s m n, m_include idz s = Some (m, n) -> (1 <= n)%nat.
Proof. unfold m_include. n_ge_1. Qed.
Lemma n1_filtered : forall s m n, m_filtered idz s = Some (m, n) -> (1 <= n)%nat.
Proof. unfold m_filtered. n_ge_1. Qed.
Lemma n1_default : forall s m n, m_default idz s = Some (m, n) -> (1 <= n)%nat.
Proof. unfold m_default. n_ge_1. Qed.
Lemma n1_lit : forall p s m n, m_lit idz p s = Some (m, n) -> (1 <= n)%nat.
Proof. intros p. unfold m_lit. destruct p; [discriminate|]. n_ge_1. Qed.

(* ------------------------------------------------------------------ *)
(* T. every pass of the taint pipeline logs nothing and preserves Inv     *)

Definition clean_pass (r : (tstr + error) * list failure) : Prop :=
  snd r = [] /\ (forall Y, fst r = inl Y -> Inv Y).

Lemma Inv_tl : forall tls tl, Forall tl_ok tls -> In tl tls -> Inv (tpr tl).
Proof.
  intros tls tl H Hin. rewrite Forall_forall in H. specialize (H tl Hin).
  exists [tl]. split; [unfold tprints; cbn; rewrite app_nil_r; reflexivity|]. constructor; auto.
Qed.

Lemma pass_filtered_t_clean : forall c S, Inv S -> clean_pass (pass_filtered_t false c S).
Proof.
  intros c S (tls & -> & Hok). unfold pass_filtered_t, clean_pass.
  rewrite (scan_tleaves (m_filtered tcode) (m_filtered idz) act_filt tls
             m_filtered_erase n1_filtered no_filtered agrees_filtered Hok).
  apply tsub_tleaves; auto.
  intros tl [x f] Hin Ha.
  destruct (lookup c x) as [v|].
  - destruct (is_filter f).
    + destruct (apply_filter f v); cbn; split; auto; intros Y HY; inversion HY; subst.
      apply Inv_taint. cbn [sh]. apply shield_nobrace.
    + cbn. split; auto. intros Y HY. inversion HY; subst. apply Inv_taint. apply shield_nobrace.
  - cbn. split; auto. intros Y HY. inversion HY; subst. eapply Inv_tl; eauto.
Qed.

Lemma pass_optional_t_clean : forall c S, Inv S -> clean_pass (pass_optional_t false c S).
Proof.
  intros c S (tls & -> & Hok). unfold pass_optional_t, clean_pass.
  rewrite (scan_tleaves (m_optional tcode) (m_optional idz) act_opt tls
             m_optional_erase n1_optional no_optional agrees_optional Hok).
  apply tsub_tleaves; auto.
  intros tl x Hin Ha. unfold pure. cbn. split; auto. intros Y HY. inversion HY; subst.
  destruct (lookup c x); [apply Inv_taint, shield_nobrace|apply Inv_nil].
Qed.

Lemma pass_simple_t_clean : forall raise c S, Inv S -> clean_pass (pass_simple_t false raise c S).
Proof.
  intros raise c S (tls & -> & Hok). unfold pass_simple_t, clean_pass.
  rewrite (scan_tleaves (m_simple tcode) (m_simple idz) act_var tls
             m_simple_erase n1_simple no_simple agrees_simple Hok).
  apply tsub_tleaves; auto.
  intros tl x Hin Ha. destruct (lookup c x).
  - cbn. split; auto. intros Y HY. inversion HY; subst. apply Inv_taint, shield_nobrace.
  - destruct raise; cbn; split; auto; intros Y HY; inversion HY; subst. eapply Inv_tl; eauto.
Qed.

Lemma replace_lit_clean : forall (p : pass) act k new tls,
  (forall s, act (LText s) = None) ->
  needs_open (m_lit idz k) -> (forall l, leaf_sc l = true -> agrees _ (m_lit idz k) act l) ->
  Forall tl_ok tls -> nobrace (erase new) = true ->
  toks_log p (scan (m_lit tcode k) O (tprints tls)) = [] /\
  Inv (subst (fun _ _ => new) (scan (m_lit tcode k) O (tprints tls))).
Proof.
  intros p act k new tls Htext Ho Hag Hok Hnew.
  rewrite (scan_tleaves (m_lit tcode k) (m_lit idz k) act tls (m_lit_erase k) (n1_lit k) Ho Hag Hok).
  apply subst_tleaves; auto.
Qed.

Lemma act_lit_text : forall x w s, act_lit x w (LText s) = None.
Proof. reflexivity. Qed.
Lemma act_key_text : forall k s, act_key k (LText s) = None.
Proof. reflexivity. Qed.

Lemma tmatches_app : forall {M} (a b : list (ttok M)), matches (a ++ b) = matches a ++ matches b.
Proof. intros. unfold matches. apply flat_map_app. Qed.
Lemma tmatches_lits : forall {M} (P : tstr), @matches tchar M (map TLit P) = [].
Proof. intros. unfold matches. induction P; cbn; auto. Qed.

Lemma pass_default_t_clean : forall c S, Inv S ->
  snd (pass_default_t false c S) = [] /\ Inv (fst (pass_default_t false c S)).
Proof.
  intros c S (tls & -> & Hok). unfold pass_default_t.
  rewrite (scan_tleaves (m_default tcode) (m_default idz) act_def tls
             m_default_erase n1_default no_default agrees_default Hok).
  (* the matches: one per pipe leaf, covering exactly that leaf *)
  assert (HM : Forall (fun mc : (str * str) * tstr =>
                         erase (snd mc) = print_leaf (LPipe (fst (fst mc)) (snd (fst mc))) /\
                         leaf_sc (LPipe (fst (fst mc)) (snd (fst mc))) = true)
                      (matches (flat_map (ttoks act_def) tls))).
  { clear - Hok. induction Hok as [|tl tls Htl Hok IH]; [constructor|].
    cbn [flat_map]. rewrite tmatches_app. apply Forall_app. split; auto.
    unfold ttoks. destruct (act_def (pl tl)) as [[x w]|] eqn:Ea; [|rewrite tmatches_lits; constructor].
    destruct tl as [s|l]; [discriminate|]. destruct l; try discriminate. cbn [pl act_def] in Ea.
    inversion Ea; subst. unfold matches. cbn [flat_map app]. constructor; [|constructor].
    cbn [fst snd tpr]. destruct Htl. split; auto using erase_taint. }
  assert (HL : toks_log PDefault (flat_map (ttoks act_def) tls) = []).
  { clear - Hok. induction Hok as [|tl tls Htl Hok IH]; [reflexivity|].
    cbn [flat_map]. rewrite toks_log_app, IH, app_nil_r. unfold ttoks.
    destruct (act_def (pl tl)) eqn:Ea; [|apply toks_log_lits].
    destruct tl as [s|l]; [discriminate|]. unfold toks_log. cbn [flat_map tpr].
    rewrite covers_template. reflexivity. }
  rewrite HL.
  assert (G : forall ms res, Forall (fun mc : (str * str) * tstr =>
                         erase (snd mc) = print_leaf (LPipe (fst (fst mc)) (snd (fst mc))) /\
                         leaf_sc (LPipe (fst (fst mc)) (snd (fst mc))) = true) ms ->
              Inv res ->
              let r := fold_left (fun (acc : tstr * list failure) (mc : (str * str) * tstr) =>
                         let '(res, lg) := acc in
                         let '((x, d), g0) := mc in
                         if is_filter d then (res, lg)
                         else
                           let new := match lookup c x with
                                      | Some v => taint FromDefault (sh false (str_value v))
                                      | None => taint FromDefault (sh false d)
                                      end in
                           let '(res', lg') := replace_default_t res (erase g0) new in
                           (res', lg ++ lg')) ms (res, []) in
              snd r = [] /\ Inv (fst r)).
  { clear - HFT. induction ms as [|[[x d] g0] ms IH]; intros res HF HI; [cbn; auto|].
    inversion HF as [|? ? [Hg Hsc] HF']; subst. cbn [fst snd] in *. cbn [fold_left].
    destruct (is_filter d); [apply IH; auto|].
    destruct HI as (tls & -> & Hok). unfold replace_default_t. rewrite Hg.
    destruct (pipe_wf x d Hsc) as (Hx & _).
    set (new := match lookup c x with
                | Some v => taint FromDefault (sh false (str_value v))
                | None => taint FromDefault (sh false d)
                end).
    assert (Hnew : nobrace (erase new) = true).
    { unfold new. destruct (lookup c x); rewrite erase_taint; apply shield_nobrace. }
    destruct (replace_lit_clean PDefault (act_lit x d) (print_leaf (LPipe x d)) new tls
                (act_lit_text x d) (no_lit x d Hx) (fun l => agrees_lit x d l Hsc) Hok Hnew) as [L1 L2].
    rewrite L1. cbn [app]. apply IH; auto. }
  apply G; auto. exists tls. auto.
Qed.

Lemma loop_part_t_clean : forall lc body, lc_ok lc -> Inv body ->
  snd (loop_part_t false body lc) = [] /\ Inv (fst (loop_part_t false body lc)).
Proof.
  unfold loop_part_t.
  assert (G : forall lc part, lc_ok lc -> Inv part ->
    let r := fold_left (fun (acc : tstr * list failure) (kv : str * str) =>
               let '(part, lg) := acc in
               let '(part', lg') := replace_all_t part (key_pattern (fst kv))
                                      (taint FromLoopItem (sh false (snd kv))) in
               (part', lg ++ lg')) lc (part, []) in
    snd r = [] /\ Inv (fst r)).
  { induction lc as [|[k v] lc IH]; intros part Hlc HI; [cbn; auto|].
    inversion Hlc as [|? ? Hk Hlc']; subst. cbn [fst snd] in *. cbn [fold_left fst snd].
    destruct HI as (tls & -> & Hok). unfold replace_all_t.
    assert (Hnew : nobrace (erase (taint FromLoopItem (sh false v))) = true)
      by (rewrite erase_taint; apply shield_nobrace).
    destruct (replace_lit_clean PLoopKeys (act_key k) (key_pattern k) _ tls
                (act_key_text k) (no_lit_key k Hk) (fun l => agrees_key k l Hk) Hok Hnew) as [L1 L2].
    rewrite L1. cbn [app]. apply IH; auto. }
  intros. apply G; auto.
Qed.

Lemma loop_items_t_clean : forall body n items i, items_ok n i items = true -> Inv body ->
  snd (loop_items_t false body n i items) = [] /\ Inv (fst (loop_items_t false body n i items)).
Proof.
  intros body n items. induction items as [|it rest IH]; intros i Hf HI.
  - cbn. split; auto using Inv_nil.
  - cbn [items_ok] in Hf. apply andb_prop in Hf. destruct Hf as [H1 H2].
    cbn [loop_items_t].
    destruct (loop_part_t_clean (loop_context i n it) body (item_free_ok i n it H1) HI) as [P1 P2].
    destruct (loop_part_t false body (loop_context i n it)) as [p1 l1]. cbn [fst snd] in *. subst l1.
    destruct (IH (S i) H2 HI) as [Q1 Q2].
    destruct (loop_items_t false body n (S i) rest) as [p2 l2]. cbn [fst snd] in *. subst l2.
    split; auto using Inv_app.
Qed.

(* uniformly tainted text: the scanners commute with [taint o] *)
Lemma starts_taint : forall o p s, starts tcode p (taint o s) = option_map (taint o) (starts idz p s).
Proof.
  induction p as [|c p IH]; intros s; [reflexivity|].
  destruct s as [|a s]; [reflexivity|]. cbn [taint map starts].
  change (tcode (a, o)) with a. change (idz a) with a.
  destruct (a =? c); [apply IH|reflexivity].
Qed.
Lemma span_taint : forall o f s,
  span tcode f (taint o s) = (taint o (fst (span idz f s)), taint o (snd (span idz f s))).
Proof.
  induction s as [|a s IH]; [reflexivity|]. cbn [taint map span].
  change (tcode (a, o)) with a. change (idz a) with a.
  destruct (f a); [|reflexivity]. fold (taint o s). rewrite IH. destruct (span idz f s). reflexivity.
Qed.
Lemma find_sub_taint : forall o p s,
  find_sub tcode p (taint o s) =
  option_map (fun ab => (taint o (fst ab), taint o (snd ab))) (find_sub idz p s).
Proof.
  induction s as [|a s IH].
  - cbn [taint map find_sub]. pose proof (starts_taint o p []) as E. cbn [taint map] in E. rewrite E.
    destruct (starts idz p []); reflexivity.
  - cbn [taint map find_sub]. pose proof (starts_taint o p (a :: s)) as E. cbn [taint map] in E.
    rewrite E. destruct (starts idz p (a :: s)); [reflexivity|]. cbn [option_map].
    fold (taint o s). rewrite IH. destruct (find_sub idz p s) as [[b r]|]; reflexivity.
Qed.
Lemma taint_length : forall o s, length (taint o s) = length s.
Proof. intros. unfold taint. apply map_length. Qed.
Lemma taint_app : forall o a b, taint o (a ++ b) = taint o a ++ taint o b.
Proof. intros. unfold taint. apply map_app. Qed.
Lemma nonempty_taint : forall o s, nonempty (taint o s) = nonempty s.
Proof. destruct s; reflexivity. Qed.
Lemma codes_taint : forall o s, codes tcode (taint o s) = s.
Proof. intros. apply erase_taint. Qed.

Ltac taint_step :=
  repeat first
    [ rewrite starts_taint
    | rewrite span_taint
    | rewrite find_sub_taint
    | rewrite nonempty_taint
    | rewrite taint_length
    | rewrite codes_taint ].

Lemma m_if_taint : forall o s,
  m_if tcode (taint o s) =
  option_map (fun mn => ((fst (fst (fst mn)), taint o (snd (fst (fst mn))), taint o (snd (fst mn))), snd mn))
             (m_if idz s).
Proof.
  intros. unfold m_if. taint_step. destruct (starts idz K_IF s) as [r|]; [|reflexivity].
  cbn [option_map]. taint_step. destruct (span idz is_space r) as [ws r1]. cbn [fst snd].
  taint_step. destruct (nonempty ws); [|reflexivity]. taint_step.
  destruct (span idz is_word r1) as [w r2]. cbn [fst snd]. taint_step.
  destruct (nonempty w); [|reflexivity]. taint_step.
  destruct (starts idz K_CLOSE r2) as [r3|]; [|reflexivity]. cbn [option_map]. taint_step.
  destruct (find_sub idz K_ENDIF r3) as [[pre post]|]; [|reflexivity]. cbn [option_map fst snd].
  taint_step. rewrite codes_idz.
  destruct (find_sub idz K_ELSE pre) as [[a b]|]; reflexivity.
Qed.

Lemma m_each_taint : forall o s,
  m_each tcode (taint o s) =
  option_map (fun mn => ((fst (fst mn), taint o (snd (fst mn))), snd mn)) (m_each idz s).
Proof.
  intros. unfold m_each. taint_step. destruct (starts idz K_EACH s) as [r|]; [|reflexivity].
  cbn [option_map]. taint_step. destruct (span idz is_space r) as [ws r1]. cbn [fst snd].
  taint_step. destruct (nonempty ws); [|reflexivity]. taint_step.
  destruct (span idz is_word r1) as [w r2]. cbn [fst snd]. taint_step.
  destruct (nonempty w); [|reflexivity]. taint_step.
  destruct (starts idz K_CLOSE r2) as [r3|]; [|reflexivity]. cbn [option_map]. taint_step.
  destruct (find_sub idz K_ENDEACH r3) as [[body post]|]; [|reflexivity]. cbn [option_map fst snd].
  taint_step. rewrite codes_idz. reflexivity.
Qed.

Definition taint_tok {M M'} (o : origin) (h : M -> M') (t : tok Z M) : ttok M' :=
  match t with TLit z => TLit (z, o) | TMatch m cov => TMatch (h m) (taint o cov) end.

Lemma scan_taint : forall {M M'} (mt : tstr -> option (M' * nat)) (mz : str -> option (M * nat))
                          (o : origin) (h : M -> M'),
  (forall s, mt (taint o s) = option_map (fun mn => (h (fst mn), snd mn)) (mz s)) ->
  forall s k, scan mt k (taint o s) = map (taint_tok o h) (scan mz k s).
Proof.
  intros M M' mt mz o h He. induction s as [|a s IH]; intros k; [destruct k; reflexivity|].
  destruct k as [|k]; cbn [taint map scan]; fold (taint o s).
  - pose proof (He (a :: s)) as E. cbn [taint map] in E. fold (taint o s) in E. rewrite E.
    destruct (mz (a :: s)) as [[m n]|]; cbn [option_map fst snd map taint_tok].
    + f_equal; [|apply IH]. f_equal. change ((a, o) :: taint o s) with (taint o (a :: s)).
      unfold taint. rewrite firstn_map. reflexivity.
    + f_equal. apply IH.
  - apply IH.
Qed.

Lemma tsub_app : forall {M} p (f : M -> tstr -> (tstr + error) * list failure) (a b : list (ttok M)),
  tsub p f (a ++ b) =
  match tsub p f a with
  | (inr e, l1) => (inr e, l1)
  | (inl x, l1) => match tsub p f b with
                   | (inl y, l2) => (inl (x ++ y), l1 ++ l2)
                   | (inr e, l2) => (inr e, l1 ++ l2)
                   end
  end.
Proof.
  intros M p f a b. induction a as [|t a IH]; cbn [app tsub].
  - destruct (tsub p f b) as [[y|e] l2]; reflexivity.
  - destruct t as [z|m cv].
    + rewrite IH. destruct (tsub p f a) as [[x|e] l1]; [|reflexivity].
      destruct (tsub p f b) as [[y|e] l2]; reflexivity.
    + destruct (f m cv) as [[x1|e1] lg1]; [|reflexivity]. rewrite IH.
      destruct (tsub p f a) as [[x|e] l1]; [|reflexivity].
      destruct (tsub p f b) as [[y|e] l2]; rewrite <- ?app_assoc; reflexivity.
Qed.

Lemma clean_app : forall {M} p (f : M -> tstr -> (tstr + error) * list failure) (a b : list (ttok M)),
  clean_pass (tsub p f a) -> clean_pass (tsub p f b) -> clean_pass (tsub p f (a ++ b)).
Proof.
  intros M p f a b [A1 A2] [B1 B2]. rewrite tsub_app.
  destruct (tsub p f a) as [[x|e] l1]; cbn [fst snd] in *; subst.
  - destruct (tsub p f b) as [[y|e] l2]; cbn [fst snd] in *; subst; (split; [reflexivity|]).
    + intros Y HY. inversion HY; subst. apply Inv_app; auto.
    + intros; discriminate.
  - split; [reflexivity|]. intros; discriminate.
Qed.

Lemma clean_lits : forall {M} p (f : M -> tstr -> (tstr + error) * list failure) (P : tstr),
  Inv P -> clean_pass (tsub p f (map TLit P)).
Proof.
  intros M p f P HI.
  assert (E : tsub p f (map TLit P) = (inl P, [])).
  { clear - HFT. induction P as [|a P IH]; cbn [map tsub]; [reflexivity|]. rewrite IH. reflexivity. }
  rewrite E. split; auto. intros Y HY. inversion HY; subst. exact HI.
Qed.

Definition inj_leaf (l : leaf) : tleaf :=
  match l with LText s => TText (taint FromTemplate s) | _ => TCon l end.

Lemma Inv_taint_leaves : forall ls, wf_leaves ls -> Inv (taint FromTemplate (print_leaves ls)).
Proof.
  intros ls H. exists (map inj_leaf ls). split.
  - clear H. induction ls as [|l ls IH]; [reflexivity|].
    rewrite print_leaves_cons1, taint_app, IH. unfold tprints. cbn [map flat_map]. f_equal.
    destruct l; reflexivity.
  - apply Forall_forall. intros tl Hin. apply in_map_iff in Hin. destruct Hin as (l & <- & Hl).
    unfold wf_leaves in H. rewrite Forall_forall in H. specialize (H l Hl).
    destruct l; cbn in *; auto. rewrite erase_taint. exact H.
Qed.

Lemma tsub_uniform : forall {M M'} p (gz : M -> str -> str) (gt : M' -> tstr -> tstr) (h : M -> M')
                            (ts : list (tok Z M)),
  (forall m cov, gt (h m) (taint FromTemplate cov) = taint FromTemplate (gz m cov)) ->
  tsub p (pure gt) (map (taint_tok FromTemplate h) ts) = (inl (taint FromTemplate (subst gz ts)), []).
Proof.
  intros M M' p gz gt h ts Hg. induction ts as [|[z|m cov] ts IH]; cbn [map taint_tok tsub].
  - reflexivity.
  - rewrite IH. reflexivity.
  - unfold pure at 1. rewrite IH, covers_template, Hg. cbn [app].
    unfold subst. cbn [flat_map]. rewrite taint_app. reflexivity.
Qed.

Lemma pass_if_t_uniform : forall c s,
  pass_if_t c (taint FromTemplate s) = (inl (taint FromTemplate (pass_if c s)), []).
Proof.
  intros c s. unfold pass_if_t, pass_if.
  rewrite (scan_taint (m_if tcode) (m_if idz) FromTemplate
             (fun m : str * str * str => (fst (fst m), taint FromTemplate (snd (fst m)), taint FromTemplate (snd m)))).
  - apply tsub_uniform. intros [[x a] b] cov. cbn [fst snd].
    destruct (lookup c x) as [v|]; [destruct (truthy v)|]; reflexivity.
  - intros s0. rewrite m_if_taint. destruct (m_if idz s0) as [[[[x a] b] n]|]; reflexivity.
Qed.

Lemma map_taint_lits : forall {M M'} o (h : M -> M') (P : str),
  map (taint_tok o h) (map TLit P) = map TLit (taint o P).
Proof. intros. induction P as [|a P IH]; cbn; auto. f_equal. exact IH. Qed.

Lemma pass_each_t_clean : forall c t, ctx_ok c = true -> well_formed t = true -> if_free t ->
  clean_pass (pass_each_t false c (taint FromTemplate (print t))).
Proof.
  intros c t Hc Hwf Hni. unfold pass_each_t.
  rewrite (scan_taint (m_each tcode) (m_each idz) FromTemplate
             (fun m : str * str => (fst m, taint FromTemplate (snd m)))).
  2:{ intros s0. rewrite m_each_taint. destruct (m_each idz s0) as [[[x b] n]|]; reflexivity. }
  pose proof (scan_each_all t [] Hwf) as E. rewrite app_nil_r in E. cbn [scan] in E.
  rewrite app_nil_r in E. rewrite E. clear E.
  induction t as [|n t IH]; [cbn; split; auto; intros Y HY; inversion HY; apply Inv_nil|].
  cbn [well_formed forallb] in Hwf. apply andb_prop in Hwf. destruct Hwf as [Hn Ht].
  inversion Hni as [|? ? Hn' Hni']; subst.
  cbn [flat_map]. rewrite map_app. apply clean_app; [|apply IH; auto].
  destruct n as [l|ws x a b|ws x body]; cbn [each_toks]; [|destruct Hn'|].
  - cbn [node_wf] in Hn. apply wf_sc in Hn.
    rewrite map_taint_lits. cbn [print_node]. apply clean_lits.
    pose proof (Inv_taint_leaves [l]) as I1. rewrite print_leaves_cons1, print_leaves_nil, app_nil_r in I1.
    apply I1. repeat constructor; auto.
  - destruct (node_wf_each ws x body Hn) as (Hws & Hx & Hbody).
    cbn [map taint_tok tsub fst snd]. rewrite covers_template. cbn [app].
    destruct (lookup_seq c x) as [items|] eqn:L;
      try (cbn; split; auto; intros Y HY; inversion HY; apply Inv_nil).
    pose proof (lookup_items_ok c x items Hc L) as Hit.
    destruct (loop_items_t_clean (taint FromTemplate (print_leaves body)) (length items) items O Hit
                (Inv_taint_leaves body Hbody)) as [Q1 Q2].
    destruct (loop_items_t false (taint FromTemplate (print_leaves body)) (length items) O items) as [r lg].
    cbn [fst snd] in *. subst lg. cbn. split; auto. intros Y HY. inversion HY; subst.
    rewrite app_nil_r. exact Q2.
Qed.

Definition include_cb_t (m : str * option (toutcome * list failure)) (_ : tstr)
  : (tstr + error) * list failure :=
  match snd m with
  | Some (OkT t _, lg) => (inl (tsh false (through_include t)), lg)
  | Some (ErrT e, lg) => (inr e, lg)
  | None => (inl (taint FromTemplate (S_UNKNOWN ++ fst m ++ [93])), [])
  end.

Lemma include_text_t_eq : forall (render : str -> option (toutcome * list failure)) S,
  include_text_t false (resolve_includes_t render S) =
  tsub PInclude (fun n cv => include_cb_t (n, render n) cv) (scan (m_include tcode) O S).
Proof.
  intros render S. unfold include_text_t, resolve_includes_t.
  induction (scan (m_include tcode) O S) as [|[a|n cv] ts IH]; cbn [map tsub].
  - reflexivity.
  - rewrite IH. reflexivity.
  - unfold include_cb_t at 1. cbn [fst snd].
    destruct (render n) as [[[t w|e] lg]|]; try reflexivity; rewrite IH; reflexivity.
Qed.

Lemma erase_tsh : forall X, erase (tsh false X) = shield (erase X).
Proof. intros. unfold tsh, erase, shield. rewrite !map_map. reflexivity. Qed.

Lemma include_text_t_clean : forall (render : str -> option (toutcome * list failure)) S,
  (forall n, match render n with Some (_, lg) => lg = [] | None => True end) ->
  Inv S -> clean_pass (include_text_t false (resolve_includes_t render S)).
Proof.
  intros render S Hr (tls & -> & Hok). rewrite include_text_t_eq. unfold clean_pass.
  rewrite (scan_tleaves (m_include tcode) (m_include idz) act_inc tls
             m_include_erase n1_include no_include agrees_include Hok).
  apply tsub_tleaves; auto.
  intros tl n Hin Ha. unfold include_cb_t. cbn [fst snd]. specialize (Hr n).
  destruct (render n) as [[[t w|e] lg]|].
  - subst lg. cbn [fst snd]. split; auto. intros Y HY.
    assert (EY : Y = tsh false (through_include t)) by congruence. subst Y. apply Inv_text.
    rewrite erase_tsh. apply shield_nobrace.
  - subst lg. cbn [fst snd]. split; auto. intros; discriminate.
  - cbn [fst snd]. split; auto. intros Y HY.
    assert (EY : Y = taint FromTemplate (S_UNKNOWN ++ n ++ [93])) by congruence. subst Y.
    apply Inv_taint.
    destruct tl as [s|l]; [discriminate|]. destruct l; try discriminate. cbn [pl act_inc] in Ha.
    inversion Ha; subst. rewrite Forall_forall in Hok. specialize (Hok _ Hin). destruct Hok as [Hsc _].
    cbn [leaf_sc] in Hsc. apply (marker_nobrace n Hsc).
Qed.

Lemma text_of_Inv : forall r, (forall Y, r = inl Y -> Inv Y) -> Inv (text_of r).
Proof. intros [Y|e] H; cbn; auto using Inv_nil. Qed.

(* the universal opacity theorem on the taint model: nothing is ever logged *)
Theorem taint_log_empty : forall T c,
  ctx_ok c = true -> templates_wf T ->
  forall fuel strict t, well_formed t = true ->
    snd (translate_t false fuel strict (print_templates T) c (print t)) = [].
Proof.
  intros T c Hc HT. induction fuel as [|f IH]; intros strict t Hwf; [reflexivity|].
  cbn [translate_t].
  destruct (if strict then missing_vars false c (print t) else []); [|reflexivity].
  rewrite pass_if_t_uniform. cbn [text_of]. rewrite pass_if_nodes by auto.
  destruct (if_nodes_wf c t Hwf) as [W1 F1].
  destruct (pass_each_t_clean c (if_nodes c t) Hc W1 F1) as [E1 E2].
  destruct (pass_each_t false c (taint FromTemplate (print (if_nodes c t)))) as [r2 l2].
  cbn [fst snd] in *. subst l2.
  pose proof (text_of_Inv r2 E2) as I2.
  set (render := fun n => match lookup (print_templates T) n with
                          | Some sq => Some (translate_t false f strict (print_templates T) c sq)
                          | None => None
                          end).
  assert (Hr : forall n, match render n with Some (_, lg) => lg = [] | None => True end).
  { intros n. unfold render. rewrite lookup_print_templates.
    destruct (lookup T n) as [t'|] eqn:L; cbn [option_map]; [|exact I].
    pose proof (IH strict t' (lookup_wf T n t' HT L)) as Hl.
    destruct (translate_t false f strict (print_templates T) c (print t')). exact Hl. }
  destruct (include_text_t_clean render (text_of r2) Hr I2) as [E3 E4].
  fold render.
  destruct (include_text_t false (resolve_includes_t render (text_of r2))) as [r3 l3].
  cbn [fst snd] in *. subst l3.
  destruct r3 as [s3|e]; [|reflexivity].
  pose proof (E4 s3 eq_refl) as I3.
  destruct (pass_filtered_t_clean c s3 I3) as [E5 E6].
  destruct (pass_filtered_t false c s3) as [r4 l4]. cbn [fst snd] in *. subst l4.
  destruct r4 as [s4|e]; [|reflexivity].
  pose proof (E6 s4 eq_refl) as I4.
  destruct (pass_default_t_clean c s4 I4) as [E7 I5].
  destruct (pass_default_t false c s4) as [s5 l5]. cbn [fst snd] in *. subst l5.
  destruct (pass_optional_t_clean c s5 I5) as [E8 E9].
  destruct (pass_optional_t false c s5) as [r6 l6]. cbn [fst snd] in *. subst l6.
  pose proof (text_of_Inv r6 E9) as I6.
  destruct (pass_simple_t_clean (strict && negb false) c (text_of r6) I6) as [E10 _].
  destruct (pass_simple_t false (strict && negb false) c (text_of r6)) as [r7 l7].
  cbn [fst snd] in *. subst l7.
  destruct r7; reflexivity.
Qed.

Theorem opacity_proof : forall strict T c t,
  ctx_ok c = true ->
  forallb (fun nt => well_formed (snd nt)) T = true -> well_formed t = true ->
  snd (render_taint strict (print_templates T) c (print t)) = [].
Proof.
  intros. unfold render_taint. apply taint_log_empty; auto using templates_wf_b.
Qed.

(* ================================================================== *)
(* U. (histories on one instance: stated and proved after this section, because the filter table is
      part of the instance state) *)

(* registration is dict assignment: afterwards the name resolves to the new template and every
   other name resolves as before *)
Lemma lookup_reg_set : forall T n t m,
  lookup (reg_set T n t) m = if str_eqb n m then Some t else lookup T m.
Proof.
  induction T as [|[k u] T IH]; intros n t m; cbn [reg_set lookup].
  - destruct (str_eqb n m); reflexivity.
  - destruct (str_eqb k n) eqn:E; cbn [lookup].
    + apply str_eqb_eq in E. subst k. destruct (str_eqb n m); reflexivity.
    + rewrite IH. destruct (str_eqb k m) eqn:E2; [|reflexivity].
      apply str_eqb_eq in E2. subst k. destruct (str_eqb n m) eqn:E3; [|reflexivity].
      apply str_eqb_eq in E3. subst m. rewrite str_eqb_refl in E. discriminate.
Qed.

(* ------------------------------------------------------------------ *)
(* a filtered variable renders the filter applied to the RAW bound value *)
Lemma is_filter_nonempty : forall w, is_filter w = true -> nonempty w = true.
Proof.
  intros w H. unfold is_filter in H. apply orb_prop in H. destruct H as [H|H].
  - apply is_builtin_word in H. tauto.
  - unfold bound in H. destruct (lookup (custom_filters : ftable) w) as [cf|] eqn:L; [|discriminate].
    apply (ftable_lookup_word _ w cf HFT L).
Qed.

Lemma filter_leaf_wf : forall x f, word x = true -> is_filter f = true ->
  well_formed [NLeaf (LPipe x f)] = true.
Proof.
  intros x f Hx Hf.
  pose proof (is_filter_nonempty f Hf) as Hne. pose proof (is_filter_word f Hf) as Hw.
  assert (Hwd : word f = true) by (unfold word; rewrite Hne, Hw; reflexivity).
  cbn [well_formed forallb node_wf leaf_wf]. rewrite Hx, Hne. unfold clean.
  rewrite (word_nobrace f Hwd), (word_nosent f Hw). reflexivity.
Qed.

Lemma filter_leaf_spec : forall strict T c x f v r,
  is_filter f = true -> lookup c x = Some v -> apply_filter f v = inl r ->
  render_spec strict T c [NLeaf (LPipe x f)] = SOk r [].
Proof.
  intros strict T c x f v r Hf L A. unfold render_spec.
  cbn [render_tpl render_nodes map sconcat fold_right render_node render_leaf].
  rewrite Hf, L, A. cbn [sapp app]. rewrite app_nil_r. reflexivity.
Qed.

Theorem filter_raw_value_proof : forall strict T c x f v r,
  ctx_ok c = true ->
  forallb (fun nt => well_formed (snd nt)) T = true ->
  (strict = true -> Forall (fun nt => out_bound c (snd nt)) T) ->
  word x = true -> is_filter f = true ->
  lookup c x = Some v -> apply_filter f v = inl r ->
  exists w, render_impl strict (print_templates T) c (print [NLeaf (LPipe x f)]) = Ok r w.
Proof.
  intros strict T c x f v r Hc HT HTb Hx Hf L A.
  pose proof (filter_leaf_wf x f Hx Hf) as Hwf.
  pose proof (filter_leaf_spec strict T c x f v r Hf L A) as Hs.
  destruct strict.
  - eapply strict_loop_vars_proof; eauto. intros y Hy. destruct Hy.
  - eapply render_eq_proof; eauto.
Qed.

(* ================================================================== *)
(* W. mRNA objects with hand-written codons                              *)

Lemma translate_S : forall legacy f strict T c s,
  translate legacy (S f) strict T c s = translate_decl legacy f strict T c s (required_vars s).
Proof.
  intros. unfold translate_decl, translate_core. cbn [translate].
  change (missing_of legacy c s (required_vars s)) with (missing_vars legacy c s).
  destruct (if strict then missing_vars legacy c s else []); [|reflexivity].
  destruct (include_text legacy _) as [s3|e]; [|reflexivity].
  destruct (pass_filtered legacy c s3) as [s4|e]; [|reflexivity].
  destruct (pass_simple legacy _ c _) as [s7|e]; reflexivity.
Qed.

(* no codons given = the auto-detected ones *)
Lemma render_impl_auto : forall strict T c s, render_impl strict T c s = render_impl_decl strict T c s [].
Proof. intros. unfold render_impl, render_impl_decl. cbn [required_of]. apply translate_S. Qed.

Lemma missing_of_spec : forall legacy c s req x, In x (missing_of legacy c s req) ->
  In x req /\ lookup c x = None /\ (legacy = false -> occurs (key_pattern x) (outside_loops s) = true).
Proof.
  intros legacy c s req x H. unfold missing_of in H. apply filter_In in H. destruct H as [Hin H].
  apply andb_prop in H. destruct H as [Hb Ho]. repeat split; auto.
  - unfold bound in Hb. destruct (lookup c x); [discriminate|reflexivity].
  - intros ->. exact Ho.
Qed.

Theorem codons_report_only_proof : forall strict T c s cs,
  (exists x, render_impl_decl strict T c s cs = Err (EMissing x) /\ strict = true /\
             In x (required_of cs s) /\ lookup c x = None /\
             occurs (key_pattern x) (outside_loops s) = true) \/
  (exists m, render_impl_decl strict T c s cs = add_missing m (render_passes strict T c s) /\
             (strict = true -> m = []) /\
             forall x, In x m -> In x (required_of cs s) /\ lookup c x = None /\
                                 occurs (key_pattern x) (outside_loops s) = true).
Proof.
  intros strict T c s cs. unfold render_impl_decl, translate_decl, render_passes.
  set (miss := missing_of false c s (required_of cs s)).
  assert (Hm : forall x, In x miss -> In x (required_of cs s) /\ lookup c x = None /\
                                      occurs (key_pattern x) (outside_loops s) = true).
  { intros x Hx. destruct (missing_of_spec false c s _ x Hx) as (A & B & C). auto. }
  destruct strict.
  - destruct miss as [|x r] eqn:E.
    + right. exists []. split; [reflexivity|]. split; [reflexivity|]. intros y [].
    + left. exists x. split; [reflexivity|]. split; [reflexivity|]. apply Hm. left. reflexivity.
  - right. exists miss. split; [reflexivity|]. split; [discriminate|]. exact Hm.
Qed.

Lemma add_missing_ok : forall m o txt w, add_missing m o = Ok txt w -> exists w0, o = Ok txt w0.
Proof. intros m [t w0|e] txt w H; [|discriminate]. inversion H; subst. eauto. Qed.

(* the text never depends on the codons: lenient mode renders the reference expansion whatever they declare *)
Theorem render_eq_any_codons_proof : forall T c t txt miss cs,
  ctx_ok c = true ->
  forallb (fun nt => well_formed (snd nt)) T = true -> well_formed t = true ->
  render_spec false T c t = SOk txt miss ->
  exists w, render_impl_decl false (print_templates T) c (print t) cs = Ok txt w.
Proof.
  intros T c t txt miss cs Hc HT Hwf H.
  destruct (render_eq_proof T c t txt miss Hc HT Hwf H) as (w & E).
  rewrite render_impl_auto in E.
  destruct (codons_report_only_proof false (print_templates T) c (print t) []) as [(x & _ & D & _)|(m0 & E0 & _)];
    [discriminate|].
  rewrite E0 in E. apply add_missing_ok in E. destruct E as (w0 & E).
  destruct (codons_report_only_proof false (print_templates T) c (print t) cs) as [(x & _ & D & _)|(m & E1 & _)];
    [discriminate|].
  rewrite E1, E. cbn [add_missing]. eauto.
Qed.

Lemma in_matches_leaf : forall {M} (act : leaf -> option M) ls l m,
  In l ls -> act l = Some m -> In (m, print_leaf l) (matches (flat_map (leaf_toks M act) ls)).
Proof.
  intros M act ls l m Hin Ha. rewrite matches_leaf_toks. apply in_flat_map. exists l. split; auto.
  rewrite Ha. left. reflexivity.
Qed.

Lemma simple_warns : forall c ls x, wf_leaves ls -> In (LVar x) ls -> lookup c x = None ->
  In (WUnbound x) (warn_simple c (print_leaves ls)).
Proof.
  intros c ls x H Hin L. unfold warn_simple.
  rewrite (scan_leaves_nil (m_simple idz) act_var ls no_simple H agrees_simple).
  apply in_flat_map. exists (x, print_leaf (LVar x)). split.
  - apply (in_matches_leaf act_var ls (LVar x) x); auto.
  - cbn [fst]. unfold bound. rewrite L. left. reflexivity.
Qed.

(* a plain variable that is still there after the blocks are expanded and is unbound: the passes raise
   in strict mode and report "Unbound variable" otherwise *)
Lemma passes_unbound : forall strict Ts c t x,
  ctx_ok c = true -> well_formed t = true ->
  In (LVar x) (blocks c t) -> lookup c x = None ->
  match render_passes strict Ts c (print t) with
  | Err _ => True
  | Ok _ w => strict = false /\ In (WUnbound x) w
  end.
Proof.
  intros strict Ts c t x Hc Hwf Hin L. unfold render_passes, translate_core.
  set (render := fun n => match lookup Ts n with
                          | Some sq => Some (translate false (length Ts) strict Ts c sq)
                          | None => None
                          end).
  rewrite passes_blocks by auto. rewrite include_text_eq.
  pose proof (blocks_wf c t Hc Hwf) as HB.
  rewrite (scan_leaves_nil (m_include idz) act_inc (blocks c t) no_include HB agrees_include).
  destruct (include_struct render (blocks c t) HB) as [(e & E)|(L3 & E & W3 & I3)].
  - rewrite E. exact I.
  - rewrite E. assert (H3 : In (LVar x) L3) by (apply I3; auto).
    destruct (filtered_struct c L3 W3) as [(e & E4)|E4]; rewrite E4; [exact I|].
    assert (W1 : wf_leaves (map (filt_leaf c) L3)) by (apply map_wf; auto using filt_leaf_sc).
    rewrite pass_default_leaves by auto.
    assert (W2 : wf_leaves (map (def_leaf c) (map (filt_leaf c) L3))) by (apply map_wf; auto using def_leaf_sc).
    rewrite pass_optional_leaves by auto.
    assert (W3' : wf_leaves (map (opt_leaf c) (map (def_leaf c) (map (filt_leaf c) L3))))
      by (apply map_wf; auto using opt_leaf_sc).
    assert (H6 : In (LVar x) (map (opt_leaf c) (map (def_leaf c) (map (filt_leaf c) L3)))).
    { apply (in_map (opt_leaf c) _ (LVar x)). apply (in_map (def_leaf c) _ (LVar x)).
      apply (in_map (filt_leaf c) _ (LVar x)). exact H3. }
    destruct strict; cbn [negb andb].
    + destruct (simple_raises c _ x W3' H6 L) as (e & E7). rewrite E7. exact I.
    + destruct (pass_simple false false c _) as [s7|e]; [|exact I]. split; auto.
      apply in_or_app. right. apply in_or_app. right. apply simple_warns; auto.
Qed.

Theorem rendered_unbound_reported_proof : forall Ts c t x cs,
  ctx_ok c = true -> well_formed t = true ->
  In (LVar x) (blocks c t) -> lookup c x = None ->
  (forall txt w, render_impl_decl false Ts c (print t) cs = Ok txt w -> In (WUnbound x) w) /\
  (exists e, render_impl_decl true Ts c (print t) cs = Err e).
Proof.
  intros Ts c t x cs Hc Hwf Hin L. split.
  - intros txt w H.
    destruct (codons_report_only_proof false Ts c (print t) cs) as [(y & _ & D & _)|(m & E & _)]; [discriminate|].
    rewrite E in H. pose proof (passes_unbound false Ts c t x Hc Hwf Hin L) as P.
    destruct (render_passes false Ts c (print t)) as [t0 w0|e]; [|discriminate].
    cbn [add_missing] in H. inversion H; subst. apply in_or_app. right. tauto.
  - destruct (codons_report_only_proof true Ts c (print t) cs) as [(y & E & _)|(m & E & _)]; [eauto|].
    rewrite E. pose proof (passes_unbound true Ts c t x Hc Hwf Hin L) as P.
    destruct (render_passes true Ts c (print t)) as [t0 w0|e]; [destruct P; discriminate|].
    cbn [add_missing]. eauto.
Qed.

(* opacity does not depend on the codons either: the passes log the same *)
Lemma core_log_empty : forall T c,
  ctx_ok c = true -> templates_wf T ->
  forall f strict t, well_formed t = true ->
    snd (translate_core_t false f strict (print_templates T) c (print t)) = [].
Proof.
  intros T c Hc HT f strict t Hwf. unfold translate_core_t.
  rewrite pass_if_t_uniform. cbn [text_of]. rewrite pass_if_nodes by auto.
  destruct (if_nodes_wf c t Hwf) as [W1 F1].
  destruct (pass_each_t_clean c (if_nodes c t) Hc W1 F1) as [E1 E2].
  destruct (pass_each_t false c (taint FromTemplate (print (if_nodes c t)))) as [r2 l2].
  cbn [fst snd] in *. subst l2.
  pose proof (text_of_Inv r2 E2) as I2.
  set (render := fun n => match lookup (print_templates T) n with
                          | Some sq => Some (translate_t false f strict (print_templates T) c sq)
                          | None => None
                          end).
  assert (Hr : forall n, match render n with Some (_, lg) => lg = [] | None => True end).
  { intros n. unfold render. rewrite lookup_print_templates.
    destruct (lookup T n) as [t'|] eqn:L; cbn [option_map]; [|exact I].
    pose proof (taint_log_empty T c Hc HT f strict t' (lookup_wf T n t' HT L)) as Hl.
    destruct (translate_t false f strict (print_templates T) c (print t')). exact Hl. }
  destruct (include_text_t_clean render (text_of r2) Hr I2) as [E3 E4].
  destruct (include_text_t false (resolve_includes_t render (text_of r2))) as [r3 l3].
  cbn [fst snd] in *. subst l3.
  destruct r3 as [s3|e]; [|reflexivity].
  pose proof (E4 s3 eq_refl) as I3.
  destruct (pass_filtered_t_clean c s3 I3) as [E5 E6].
  destruct (pass_filtered_t false c s3) as [r4 l4]. cbn [fst snd] in *. subst l4.
  destruct r4 as [s4|e]; [|reflexivity].
  pose proof (E6 s4 eq_refl) as I4.
  destruct (pass_default_t_clean c s4 I4) as [E7 I5].
  destruct (pass_default_t false c s4) as [s5 l5]. cbn [fst snd] in *. subst l5.
  destruct (pass_optional_t_clean c s5 I5) as [E8 E9].
  destruct (pass_optional_t false c s5) as [r6 l6]. cbn [fst snd] in *. subst l6.
  pose proof (text_of_Inv r6 E9) as I6.
  destruct (pass_simple_t_clean (strict && negb false) c (text_of r6) I6) as [E10 _].
  destruct (pass_simple_t false (strict && negb false) c (text_of r6)) as [r7 l7].
  cbn [fst snd] in *. subst l7.
  destruct r7; reflexivity.
Qed.

Theorem opacity_any_codons_proof : forall strict T c t cs,
  ctx_ok c = true ->
  forallb (fun nt => well_formed (snd nt)) T = true -> well_formed t = true ->
  snd (render_taint_decl strict (print_templates T) c (print t) cs) = [].
Proof.
  intros strict T c t cs Hc HT Hwf. unfold render_taint_decl, translate_decl_t.
  destruct (if strict then missing_of false c (print t) (required_of cs (print t)) else []); [|reflexivity].
  pose proof (core_log_empty T c Hc (templates_wf_b T HT) (length (print_templates T)) strict t Hwf) as H.
  destruct (translate_core_t false (length (print_templates T)) strict (print_templates T) c (print t)).
  exact H.
Qed.

(* the passes alone render the reference expansion (both modes) whenever it is defined: no condition on the
   plain variables of the template itself - only the registered templates keep their auto-detected check *)
Lemma render_eq_core : forall strict T c,
  ctx_ok c = true -> templates_wf T ->
  (strict = true -> Forall (fun nt => out_bound c (snd nt)) T) ->
  forall f t txt miss,
    well_formed t = true ->
    render_tpl (S f) strict T c t = SOk txt miss ->
    exists w, translate_core false f strict (print_templates T) c (print t) = Ok txt w.
Proof.
  intros strict T c Hc HT HTb f t txt miss Hwf H.
  cbn [render_tpl] in H. rewrite render_nodes_blocks in H.
  destruct (blocks_rel c t Hc Hwf) as [Erel Hgood]. rewrite <- Erel in H.
  set (incf := fun n => match lookup T n with
                        | Some t' => render_tpl f strict T c t'
                        | None => SOk (unknown_marker n) []
                        end) in H.
  set (render := fun n => match lookup (print_templates T) n with
                          | Some sq => Some (translate false f strict (print_templates T) c sq)
                          | None => None
                          end).
  assert (Hrel : forall n tn mn, word n = true -> incf n = SOk tn mn ->
            exists s, include_cb false (n, render n) [] = inl s /\ nobrace s = true /\ unshield s = tn).
  { intros n tn mn Hn Hi. unfold incf in Hi. unfold include_cb, render. cbn [fst snd].
    rewrite lookup_print_templates. destruct (lookup T n) as [t'|] eqn:L; cbn [option_map].
    - assert (Hb' : strict = true -> out_bound c t').
      { intros Hs. specialize (HTb Hs). clear - HTb L.
        induction T as [|[k u] T IHT]; cbn in L; [discriminate|]. inversion HTb; subst.
        destruct (str_eqb k n); [inversion L; subst; auto|auto]. }
      destruct (render_eq_fuel strict T c Hc HT HTb f t' tn mn (lookup_wf T n t' HT L) Hb' Hi) as (w & E).
      rewrite E. exists (shield tn). cbn [sh]. repeat split; auto using shield_nobrace.
      apply unshield_shield. eapply translate_nosent; eauto.
    - inversion Hi; subst. exists (unknown_marker n). repeat split; auto using marker_nobrace.
      apply unshield_id. apply marker_nosent. auto. }
  destruct (include_leaves strict c incf render Hc Hrel (blocks c t) txt miss Hgood H)
    as (L3 & E3 & W3 & N3 & F3 & P3).
  unfold translate_core.
  rewrite passes_blocks by auto.
  fold render. rewrite include_text_eq.
  rewrite (scan_leaves_nil (m_include idz) act_inc (blocks c t) no_include (blocks_wf c t Hc Hwf) agrees_include).
  rewrite E3.
  destruct (tail_passes strict c L3 W3 F3) as [T1 T2]. rewrite T1.
  cbn [negb]. rewrite andb_true_r. rewrite T2.
  cbn [unsh]. rewrite P3. eexists. reflexivity.
Qed.

(* strict mode with hand-written codons: whenever every name the codons declare required, that is written
   outside {{#each}} bodies, is bound (the up-front check passes), the rendering is exactly the reference
   expansion of strict mode *)
Theorem strict_any_codons_proof : forall T c t txt miss cs,
  ctx_ok c = true ->
  forallb (fun nt => well_formed (snd nt)) T = true -> well_formed t = true ->
  Forall (fun nt => out_bound c (snd nt)) T ->
  (forall x, In x (required_of cs (print t)) -> occurs (key_pattern x) (outside_loops (print t)) = true ->
             lookup c x <> None) ->
  render_spec true T c t = SOk txt miss ->
  exists w, render_impl_decl true (print_templates T) c (print t) cs = Ok txt w.
Proof.
  intros T c t txt miss cs Hc HT Hwf HTb Hreq H. unfold render_spec in H.
  destruct (codons_report_only_proof true (print_templates T) c (print t) cs)
    as [(x & _ & _ & A & B & C)|(m & E & Hm & _)].
  - exfalso. exact (Hreq x A C B).
  - rewrite E, (Hm eq_refl). unfold render_passes.
    assert (El : length (print_templates T) = length T) by (unfold print_templates; apply map_length).
    rewrite El.
    destruct (render_eq_core true T c Hc (templates_wf_b T HT) (fun _ => HTb) (length T) t txt miss Hwf H) as (w & Ew).
    rewrite Ew. cbn [add_missing map app]. eauto.
Qed.

(* ================================================================== *)
(* X. WHAT a binding contributes and WHAT IT MAY BE CALLED.
      (1) the text a bound value contributes at a plain / optional / defaulted variable, and a loop item at
          {{.}} / {{item}}, is str(value) - [str_value] / [str_item] - for a value of ANY type: for [VObj s r j t n]
          (an object given by what str(), repr(), json.dumps(), bool(), len() answer for it, five independent
          things) it is s, whatever the other four are;
      (2) the three operations that take the bindings as keyword arguments (synthesize, translate of an mRNA,
          translate by name) and the include that forwards them hand EVERY keyword to the renderer under its
          own name: the statements quantify over every identifier x, with no exception. *)

Lemma render_both : forall strict T c t txt miss,
  ctx_ok c = true ->
  forallb (fun nt => well_formed (snd nt)) T = true -> well_formed t = true ->
  (strict = true -> Forall (fun nt => out_bound c (snd nt)) T) ->
  (strict = true -> out_bound c t) ->
  render_spec strict T c t = SOk txt miss ->
  exists w, render_impl strict (print_templates T) c (print t) = Ok txt w.
Proof.
  intros strict T c t txt miss Hc HT Hwf HTb Hb H. destruct strict.
  - eapply strict_loop_vars_proof; eauto.
  - eapply render_eq_proof; eauto.
Qed.

Lemma out_bound_var : forall c x v, lookup c x = Some v -> out_bound c [NLeaf (LVar x)].
Proof.
  intros c x v L y Hy. cbv in Hy. destruct Hy as [<-|[]]. congruence.
Qed.
Lemma out_bound_opt : forall c x, out_bound c [NLeaf (LOpt x)].
Proof. intros c x y Hy. cbv in Hy. destruct Hy. Qed.
Lemma out_bound_pipe : forall c x d, out_bound c [NLeaf (LPipe x d)].
Proof. intros c x d y Hy. cbv in Hy. destruct Hy. Qed.


Lemma spec_leaf_value : forall strict T c x d v l,
  is_filter d = false -> lookup c x = Some v ->
  In l [LVar x; LOpt x; LPipe x d] ->
  render_spec strict T c [NLeaf l] = SOk (str_value v) [].
Proof.
  intros strict T c x d v l Hd L Hl. unfold render_spec.
  cbn [render_tpl render_nodes map sconcat fold_right render_node].
  destruct Hl as [<-|[<-|[<-|[]]]]; cbn [render_leaf]; rewrite ?Hd, L; cbn [sapp app]; rewrite app_nil_r; reflexivity.
Qed.

Theorem value_text_proof : forall strict T c x d v l,
  ctx_ok c = true ->
  forallb (fun nt => well_formed (snd nt)) T = true ->
  (strict = true -> Forall (fun nt => out_bound c (snd nt)) T) ->
  word x = true -> nonempty d = true -> clean d = true -> is_filter d = false ->
  lookup c x = Some v ->
  In l [LVar x; LOpt x; LPipe x d] ->
  exists w, render_impl strict (print_templates T) c (print [NLeaf l]) = Ok (str_value v) w.
Proof.
  intros strict T c x d v l Hc HT HTb Hx Hne Hcl Hd L Hl.
  pose proof (spec_leaf_value strict T c x d v l Hd L Hl) as Hs.
  eapply render_both; eauto.
  - destruct Hl as [<-|[<-|[<-|[]]]]; cbn [well_formed forallb node_wf leaf_wf]; rewrite ?Hx, ?Hne, ?Hcl; reflexivity.
  - intros _. destruct Hl as [<-|[<-|[<-|[]]]].
    + eapply out_bound_var; eauto.
    + apply out_bound_opt.
    + apply out_bound_pipe.
Qed.


(* loop items *)
Definition is_dict (it : item) : bool :=
  match it with IDict _ | IDictO _ _ _ _ => true | _ => false end.

Lemma loop_context_plain : forall i n it, is_dict it = false ->
  lookup (loop_context i n it) K_DOT = Some (str_item it) /\
  lookup (loop_context i n it) K_ITEM = Some (str_item it).
Proof.
  intros i n it H. destruct it; try discriminate; split; reflexivity.
Qed.

Lemma items_text : forall strict c inc l items n i,
  In l [LDot; LVar K_ITEM] ->
  forallb (fun it => negb (is_dict it)) items = true ->
  render_items strict c inc [l] n i items = SOk (flat_map str_item items) [].
Proof.
  intros strict c inc l items n. induction items as [|it items IH]; intros i Hl Hd; [reflexivity|].
  cbn [forallb] in Hd. apply andb_prop in Hd. destruct Hd as [H1 H2].
  apply negb_true_iff in H1. destruct (loop_context_plain i n it H1) as [Ed Ei].
  cbn [render_items flat_map]. rewrite (IH (S i) Hl H2).
  unfold render_leaves. cbn [map sconcat fold_right].
  destruct Hl as [<-|[<-|[]]]; cbn [render_leaf]; rewrite ?Ed, ?Ei; cbn [sapp app]; rewrite app_nil_r; reflexivity.
Qed.

Theorem item_text_proof : forall strict T c ws x items l,
  ctx_ok c = true ->
  forallb (fun nt => well_formed (snd nt)) T = true ->
  (strict = true -> Forall (fun nt => out_bound c (snd nt)) T) ->
  spaces ws = true -> word x = true ->
  lookup_seq c x = Some items ->
  forallb (fun it => negb (is_dict it)) items = true ->
  In l [LDot; LVar K_ITEM] ->
  exists w, render_impl strict (print_templates T) c (print [NEach ws x [l]]) = Ok (flat_map str_item items) w.
Proof.
  intros strict T c ws x items l Hc HT HTb Hws Hx L Hd Hl.
  assert (Hs : render_spec strict T c [NEach ws x [l]] = SOk (flat_map str_item items) []).
  { unfold render_spec. cbn [render_tpl render_nodes map sconcat fold_right render_node].
    rewrite L, (items_text _ _ _ l items (length items) O Hl Hd). cbn [sapp app]. rewrite app_nil_r. reflexivity. }
  eapply render_both; eauto.
  - cbn [well_formed forallb node_wf]. rewrite Hws, Hx.
    destruct Hl as [<-|[<-|[]]]; reflexivity.
  - intros _ y Hy. cbv in Hy. destruct Hy.
Qed.


(* every entry point, every identifier *)
Definition result_text (r : result) : option str :=
  match r with RRender _ _ (Ok txt _) _ => Some txt | _ => None end.

Lemma spec_leaf_value_fuel : forall f strict T c x d v l,
  is_filter d = false -> lookup c x = Some v ->
  In l [LVar x; LOpt x; LPipe x d] ->
  render_tpl (S f) strict T c [NLeaf l] = SOk (str_value v) [].
Proof.
  intros f strict T c x d v l Hd L Hl.
  cbn [render_tpl render_nodes map sconcat fold_right render_node].
  destruct Hl as [<-|[<-|[<-|[]]]]; cbn [render_leaf]; rewrite ?Hd, L; cbn [sapp app]; rewrite app_nil_r; reflexivity.
Qed.

Lemma spec_include_value : forall strict T c x d v l n,
  is_filter d = false -> lookup c x = Some v ->
  In l [LVar x; LOpt x; LPipe x d] ->
  lookup T n = Some [NLeaf l] ->
  render_spec strict T c [NLeaf (LInc n)] = SOk (str_value v) [].
Proof.
  intros strict T c x d v l n Hd L Hl LT. unfold render_spec.
  destruct T as [|nt T]; [discriminate|]. cbn [length].
  change (render_tpl (S (S (length T))) strict (nt :: T) c [NLeaf (LInc n)])
    with (sapp (match lookup (nt :: T) n with
                | Some t' => render_tpl (S (length T)) strict (nt :: T) c t'
                | None => SOk (unknown_marker n) []
                end) (SOk [] [])).
  rewrite LT, (spec_leaf_value_fuel _ strict _ c x d v l Hd L Hl). cbn [sapp app]. rewrite app_nil_r. reflexivity.
Qed.

Lemma leaf_sites_wf : forall x d l, word x = true -> nonempty d = true -> clean d = true ->
  In l [LVar x; LOpt x; LPipe x d] -> well_formed [NLeaf l] = true.
Proof.
  intros x d l Hx Hne Hcl Hl.
  destruct Hl as [<-|[<-|[<-|[]]]]; cbn [well_formed forallb node_wf leaf_wf]; rewrite ?Hx, ?Hne, ?Hcl; reflexivity.
Qed.
Lemma leaf_sites_bound : forall c x d v l, lookup c x = Some v ->
  In l [LVar x; LOpt x; LPipe x d] -> out_bound c [NLeaf l].
Proof.
  intros c x d v l L Hl. destruct Hl as [<-|[<-|[<-|[]]]].
  - eapply out_bound_var; eauto.
  - apply out_bound_opt.
  - apply out_bound_pipe.
Qed.

Theorem every_identifier_binds_proof : forall strict T c x d v l n o,
  ctx_ok c = true ->
  forallb (fun nt => well_formed (snd nt)) T = true ->
  (strict = true -> Forall (fun nt => out_bound c (snd nt)) T) ->
  word x = true -> nonempty d = true -> clean d = true -> is_filter d = false ->
  lookup c x = Some v ->
  In l [LVar x; LOpt x; LPipe x d] ->
  word n = true -> lookup T n = Some [NLeaf l] ->
  In o [OpSynth [NLeaf l] c; OpRender [NLeaf l] c; OpTranslate n c;
        OpSynth [NLeaf (LInc n)] c; OpRender [NLeaf (LInc n)] c] ->
  result_text (result_on strict T o) = Some (str_value v).
Proof.
  intros strict T c x d v l n o Hc HT HTb Hx Hne Hcl Hd L Hl Hn LT Ho.
  destruct (value_text_proof strict T c x d v l Hc HT HTb Hx Hne Hcl Hd L Hl) as (w1 & E1).
  assert (E2 : exists w, render_impl strict (print_templates T) c (print [NLeaf (LInc n)]) = Ok (str_value v) w).
  { eapply render_both; eauto.
    - cbn [well_formed forallb node_wf leaf_wf]. rewrite Hn. reflexivity.
    - intros _ y Hy. cbv in Hy. destruct Hy.
    - eapply spec_include_value; eauto. }
  destruct E2 as (w2 & E2).
  destruct Ho as [<-|[<-|[<-|[<-|[<-|[]]]]]]; cbn [result_on]; rewrite ?LT, ?E1, ?E2; reflexivity.
Qed.

Theorem every_identifier_binds_decl_proof : forall strict T c x d v l cs,
  ctx_ok c = true ->
  forallb (fun nt => well_formed (snd nt)) T = true ->
  (strict = true -> Forall (fun nt => out_bound c (snd nt)) T) ->
  (strict = true -> forall y, In y (required_of cs (print [NLeaf l])) ->
                    occurs (key_pattern y) (outside_loops (print [NLeaf l])) = true -> lookup c y <> None) ->
  word x = true -> nonempty d = true -> clean d = true -> is_filter d = false ->
  lookup c x = Some v ->
  In l [LVar x; LOpt x; LPipe x d] ->
  result_text (result_on strict T (OpRenderDecl [NLeaf l] cs c)) = Some (str_value v).
Proof.
  intros strict T c x d v l cs Hc HT HTb Hcs Hx Hne Hcl Hd L Hl.
  pose proof (spec_leaf_value strict T c x d v l Hd L Hl) as Hs.
  pose proof (leaf_sites_wf x d l Hx Hne Hcl Hl) as Hwf.
  cbn [result_on]. destruct strict.
  - assert (E : exists w, render_impl_decl true (print_templates T) c (print [NLeaf l]) cs = Ok (str_value v) w)
      by (eapply strict_any_codons_proof; eauto).
    destruct E as (w & E). rewrite E. reflexivity.
  - assert (E : exists w, render_impl_decl false (print_templates T) c (print [NLeaf l]) cs = Ok (str_value v) w)
      by (eapply render_eq_any_codons_proof; eauto).
    destruct E as (w & E). rewrite E. reflexivity.
Qed.

End WithFilterTable.

(* ================================================================== *)
(* U. histories on one instance: every operation answers the pure function [result_on] of the
      filter table and the registry as they are at that moment (built by the filters stored and
      the registrations made so far ON THIS INSTANCE), the strict flag and the operation itself -
      nothing an earlier call did (its outcome, an exception, the counters, the .name of an mRNA
      it rendered) can influence a later one *)
Fixpoint replay (strict : bool) (F : ftable) (T : list (str * template)) (os : list op) : list hrow :=
  match os with
  | [] => []
  | o :: rest => (F, T, @result_on F strict T o) :: replay strict (filters_after F o) (registry_after T o) rest
  end.

Theorem current_registry_proof : forall F T strict n os,
  run_ops (mkInstance F T strict n) os = replay strict F T os.
Proof.
  intros F T strict n os. revert F T n. induction os as [|o os IH]; intros F T n; [reflexivity|].
  cbn [run_ops step replay i_filters i_templates i_strict i_calls]. f_equal. apply IH.
Qed.

(* storing a filter is dict assignment on the filter table: afterwards the name resolves to the
   new callable and every other name resolves as before *)
Lemma lookup_ft_set : forall (F : ftable) n cf m,
  lookup (ft_set F n cf) m = if str_eqb n m then Some cf else lookup F m.
Proof. intros. reflexivity. Qed.

(* ... so afterwards {{x|n}} is a FILTERED variable on that instance, whatever it was before, and the
   reading of every other word is unchanged *)
Lemma is_filter_ft_set : forall (F : ftable) n cf m,
  @is_filter (ft_set F n cf) m = (str_eqb n m || @is_filter F m).
Proof.
  intros. unfold is_filter, bound, custom_filters. rewrite lookup_ft_set.
  destruct (str_eqb n m); [apply orb_true_r|reflexivity].
Qed.

(* ================================================================== *)
(* V. several instances: the rows an instance contributes to a system history are exactly the
      history of a LONE instance given the operations addressed to it.  Operations on other
      instances - filters stored, registrations, renders, exceptions - and instances created
      before or after leave no trace. *)
Fixpoint ops_on (j : nat) (ops : list sop) : list op :=
  match ops with
  | [] => []
  | SOn k o :: rest => if Nat.eqb k j then o :: ops_on j rest else ops_on j rest
  | SNew _ _ _ :: rest => ops_on j rest
  end.
Definition rows_of (j : nat) (rs : list srow) : list hrow :=
  map snd (filter (fun r : srow => Nat.eqb (fst (fst r)) j) rs).

Lemma nth_error_set_nth_same : forall {X} (l : list X) k x y,
  nth_error l k = Some y -> nth_error (set_nth l k x) k = Some x.
Proof.
  induction l as [|a l IH]; intros [|k] x y H; cbn in *; try discriminate; [reflexivity|]. eapply IH; eauto.
Qed.
Lemma nth_error_set_nth_other : forall {X} (l : list X) k j x,
  k <> j -> nth_error (set_nth l k x) j = nth_error l j.
Proof.
  induction l as [|a l IH]; intros [|k] [|j] x H; cbn; try reflexivity; [congruence|]. apply IH. congruence.
Qed.

Lemma step_strict : forall i o, i_strict (fst (step i o)) = i_strict i.
Proof. reflexivity. Qed.

Theorem isolated_proof : forall ops sys j i,
  nth_error sys j = Some i ->
  rows_of j (run_sys sys ops) = run_ops i (ops_on j ops).
Proof.
  induction ops as [|[F T st|k o] ops IH]; intros sys j i Hj; [reflexivity| |].
  - cbn [run_sys ops_on]. apply IH. rewrite nth_error_app1; [exact Hj|].
    apply nth_error_Some. congruence.
  - cbn [run_sys ops_on]. destruct (Nat.eqb k j) eqn:E.
    + apply Nat.eqb_eq in E. subst k. rewrite Hj.
      destruct (step i o) as [i' r] eqn:S. unfold rows_of. cbn [filter fst snd].
      rewrite Nat.eqb_refl. cbn [map snd run_ops]. rewrite S. f_equal.
      apply IH. eapply nth_error_set_nth_same; eauto.
    + apply Nat.eqb_neq in E. destruct (nth_error sys k) as [ik|] eqn:Hk.
      * destruct (step ik o) as [i' r]. unfold rows_of. cbn [filter fst snd].
        apply Nat.eqb_neq in E. rewrite E. apply Nat.eqb_neq in E.
        apply IH. rewrite nth_error_set_nth_other by exact E. exact Hj.
      * apply IH. exact Hj.
Qed.

(* an instance created at ANY moment - whatever the instances that exist already went through -
   behaves as the lone instance of its constructor arguments *)
Theorem fresh_instance_proof : forall sys F T strict ops,
  rows_of (length sys) (run_sys sys (SNew F T strict :: ops)) =
  run_ops (mkInstance F T strict 0) (ops_on (length sys) ops).
Proof.
  intros. cbn [run_sys].
  apply (isolated_proof ops (sys ++ [mkInstance F T strict 0]) (length sys) (mkInstance F T strict 0)).
  rewrite nth_error_app2 by apply le_n. rewrite Nat.sub_diag. reflexivity.
Qed.

(* the rows of one instance carry its own strict flag *)
Lemma sys_rows_strict : forall ops sys j i,
  nth_error sys j = Some i ->
  forall r, In r (run_sys sys ops) -> fst (fst r) = j -> snd (fst r) = i_strict i.
Proof.
  induction ops as [|[F T st|k o] ops IH]; intros sys j i Hj r Hr Hk; [destruct Hr| |].
  - cbn [run_sys] in Hr. refine (IH _ j i _ r Hr Hk). rewrite nth_error_app1; [exact Hj|].
    apply nth_error_Some. congruence.
  - cbn [run_sys] in Hr. destruct (nth_error sys k) as [ik|] eqn:Hnk.
    + destruct (step ik o) as [i' r'] eqn:S. destruct Hr as [Hr|Hr].
      * subst r. cbn [fst snd] in *. subst k. congruence.
      * destruct (Nat.eq_dec k j) as [->|Hne].
        -- assert (ik = i) by congruence. subst ik.
           rewrite <- (step_strict i o). rewrite S. cbn [fst].
           refine (IH _ j i' _ r Hr Hk). eapply nth_error_set_nth_same; eauto.
        -- refine (IH _ j i _ r Hr Hk). rewrite nth_error_set_nth_other by exact Hne. exact Hj.
    + exact (IH _ j i Hj r Hr Hk).
Qed.
