(* C12 — lemmas.  Part A: generic facts about the scanners on plain strings. *)
From Coq Require Import ZArith List Bool Lia ZifyBool.
From Verif Require Import C12.Impl C12.Spec.
Import ListNotations.
Open Scope Z_scope.

(* ------------------------------------------------------------------ *)
(* A. scan                                                              *)

Lemma scan_skip : forall {M} (mt : list Z -> option (M * nat)) (p s : str),
  scan mt (length p) (p ++ s) = scan mt O s.
Proof.
  induction p as [|a p IH]; intros s; cbn [length app scan]; auto.
Qed.

Lemma firstn_app_exact : forall {X} (p s : list X), firstn (length p) (p ++ s) = p.
Proof.
  intros. rewrite firstn_app, Nat.sub_diag, firstn_all. cbn. apply app_nil_r.
Qed.

Lemma scan_match : forall {M} (mt : list Z -> option (M * nat)) (a : Z) (p s : str) m,
  mt (a :: p ++ s) = Some (m, S (length p)) ->
  scan mt O (a :: p ++ s) = TMatch m (a :: p) :: scan mt O s.
Proof.
  intros. cbn [scan]. rewrite H. cbn [pred].
  rewrite scan_skip. f_equal. f_equal.
  change (a :: p ++ s) with ((a :: p) ++ s).
  change (S (length p)) with (length (a :: p)). apply firstn_app_exact.
Qed.

Lemma scan_lit : forall {M} (mt : list Z -> option (M * nat)) (a : Z) (s : str),
  mt (a :: s) = None -> scan mt O (a :: s) = TLit a :: scan mt O s.
Proof. intros. cbn [scan]. rewrite H. reflexivity. Qed.

(* a matcher that can only match at "{{" *)
Definition needs_open {M} (mt : list Z -> option (M * nat)) : Prop :=
  (forall c r, c <> LB -> mt (c :: r) = None) /\
  (forall c r, c <> LB -> mt (LB :: c :: r) = None) /\
  mt [LB] = None /\ mt [] = None.

Definition nolb (s : str) : Prop := Forall (fun c => c <> LB) s.

Lemma scan_nolb : forall {M} (mt : list Z -> option (M * nat)) (p s : str),
  needs_open mt -> nolb p ->
  scan mt O (p ++ s) = map TLit p ++ scan mt O s.
Proof.
  intros M mt p s [H1 _] Hp. induction Hp as [|c p Hc Hp IH]; cbn [app map]; auto.
  rewrite scan_lit by (apply H1; auto). rewrite IH. reflexivity.
Qed.

Lemma nobrace_nolb : forall s, nobrace s = true -> nolb s.
Proof.
  unfold nobrace, nolb. intros s H. rewrite forallb_forall in H. apply Forall_forall.
  intros c Hc. specialize (H c Hc). unfold LB in *. lia.
Qed.

Lemma nolb_app : forall a b, nolb a -> nolb b -> nolb (a ++ b).
Proof. unfold nolb. intros. apply Forall_app; auto. Qed.

(* a construct  {{ i0 inner }}  that the matcher does not match at its start is copied *)
Lemma scan_construct_nomatch : forall {M} (mt : list Z -> option (M * nat)) (i0 : Z) (inner s : str),
  needs_open mt -> i0 <> LB -> nolb inner ->
  mt (LB :: LB :: i0 :: inner ++ RB :: RB :: s) = None ->
  scan mt O (LB :: LB :: i0 :: inner ++ RB :: RB :: s) =
  map TLit (LB :: LB :: i0 :: inner ++ [RB; RB]) ++ scan mt O s.
Proof.
  intros M mt i0 inner s Hno Hi0 Hin H0.
  destruct Hno as (H1 & H2 & H3 & H4).
  rewrite scan_lit by exact H0.
  rewrite scan_lit by (apply H2; auto).
  assert (Hn : nolb (i0 :: inner ++ [RB; RB])).
  { constructor; auto. apply nolb_app; auto. repeat constructor; unfold RB, LB; lia. }
  assert (E : i0 :: inner ++ RB :: RB :: s = (i0 :: inner ++ [RB; RB]) ++ s).
  { cbn [app]. rewrite <- app_assoc. reflexivity. }
  rewrite E.
  rewrite (scan_nolb mt (i0 :: inner ++ [RB; RB]) s).
  - cbn [map app]. reflexivity.
  - repeat split; auto.
  - exact Hn.
Qed.

(* subst over concatenated token lists *)
Lemma subst_app : forall {M} (f : M -> str -> str) (a b : list (tok Z M)),
  subst f (a ++ b) = subst f a ++ subst f b.
Proof. intros. unfold subst. apply flat_map_app. Qed.

Lemma subst_lits : forall {M} (f : M -> str -> str) (p : str),
  subst f (map TLit p) = p.
Proof.
  intros. unfold subst. induction p; cbn; auto. f_equal. exact IHp.
Qed.

Lemma matches_app : forall {M} (a b : list (tok Z M)),
  matches (a ++ b) = matches a ++ matches b.
Proof. intros. unfold matches. apply flat_map_app. Qed.

Lemma matches_lits : forall {M} (p : str), @matches Z M (map TLit p) = [].
Proof. intros. unfold matches. induction p; cbn; auto. Qed.

(* ------------------------------------------------------------------ *)
(* B. characters, span, the matchers at the start of a construct         *)

Lemma map_idz : forall s : str, map idz s = s.
Proof. induction s; cbn; auto. unfold idz at 1. f_equal. exact IHs. Qed.

Lemma codes_idz : forall s : str, codes idz s = s.
Proof. exact map_idz. Qed.

Lemma is_word_facts : forall c, is_word c = true ->
  c <> 35 /\ c <> 46 /\ c <> 47 /\ c <> 62 /\ c <> 63 /\ c <> 123 /\ c <> 124 /\ c <> 125 /\
  is_space c = false.
Proof. unfold is_word, is_space. intros. lia. Qed.

Lemma span_app : forall f (x : str) c r,
  forallb f x = true -> f c = false -> span idz f (x ++ c :: r) = (x, c :: r).
Proof.
  induction x as [|a x IH]; intros c r Hx Hc; cbn [app span].
  - unfold idz at 1. rewrite Hc. reflexivity.
  - cbn [forallb] in Hx. apply andb_prop in Hx. destruct Hx as [Ha Hx].
    unfold idz at 1. rewrite Ha. rewrite (IH c r Hx Hc). reflexivity.
Qed.

Lemma span_not : forall f c r, f c = false -> span idz f (c :: r) = ([], c :: r).
Proof. intros. apply (span_app f [] c r); auto. Qed.

Lemma word_cons : forall x, word x = true ->
  exists x0 x', x = x0 :: x' /\ is_word x0 = true /\ forallb is_word x' = true.
Proof.
  unfold word. intros [|x0 x'] H; cbn in H; try discriminate.
  apply andb_prop in H. destruct H. eauto.
Qed.

Lemma word_forall : forall x, word x = true -> forallb is_word x = true.
Proof. unfold word. intros x H. apply andb_prop in H. tauto. Qed.
Lemma word_nonempty : forall x, word x = true -> nonempty x = true.
Proof. unfold word. intros x H. apply andb_prop in H. tauto. Qed.

Ltac zeq :=
  repeat match goal with
         | |- context [Z.eqb ?a ?b] => destruct (Z.eqb_spec a b); try lia; try congruence
         end; try reflexivity.

(* explicit shapes of the printed leaves *)
Lemma pr_var : forall x s, print_leaf (LVar x) ++ s = 123 :: 123 :: x ++ 125 :: 125 :: s.
Proof. intros. cbn. rewrite <- app_assoc. reflexivity. Qed.
Lemma pr_dot : forall s, print_leaf LDot ++ s = 123 :: 123 :: 46 :: 125 :: 125 :: s.
Proof. reflexivity. Qed.
Lemma pr_opt : forall x s, print_leaf (LOpt x) ++ s = 123 :: 123 :: 63 :: x ++ 125 :: 125 :: s.
Proof. intros. cbn. rewrite <- app_assoc. reflexivity. Qed.
Lemma pr_inc : forall x s, print_leaf (LInc x) ++ s = 123 :: 123 :: 62 :: x ++ 125 :: 125 :: s.
Proof. intros. cbn. rewrite <- app_assoc. reflexivity. Qed.
Lemma pr_pipe : forall x w s,
  print_leaf (LPipe x w) ++ s = 123 :: 123 :: x ++ 124 :: w ++ 125 :: 125 :: s.
Proof.
  intros. unfold print_leaf, K_OPEN, K_CLOSE. repeat rewrite <- app_assoc. reflexivity.
Qed.

(* the third code point decides which matcher can apply *)
Lemma m_if_kind : forall k t, k <> 35 -> m_if idz (123 :: 123 :: k :: t) = None.
Proof. intros. unfold m_if, m_each, m_include, m_optional. cbn. unfold idz. zeq. Qed.
Lemma m_each_kind : forall k t, k <> 35 -> m_each idz (123 :: 123 :: k :: t) = None.
Proof. intros. unfold m_if, m_each, m_include, m_optional. cbn. unfold idz. zeq. Qed.
Lemma m_include_kind : forall k t, k <> 62 -> m_include idz (123 :: 123 :: k :: t) = None.
Proof. intros. unfold m_if, m_each, m_include, m_optional. cbn. unfold idz. zeq. Qed.
Lemma m_optional_kind : forall k t, k <> 63 -> m_optional idz (123 :: 123 :: k :: t) = None.
Proof. intros. unfold m_if, m_each, m_include, m_optional. cbn. unfold idz. zeq. Qed.
Lemma m_simple_kind : forall k t, is_word k = false -> m_simple idz (123 :: 123 :: k :: t) = None.
Proof. intros. unfold m_simple. cbn -[span]. rewrite span_not by auto. reflexivity. Qed.
Lemma m_filtered_kind : forall k t, is_word k = false -> m_filtered idz (123 :: 123 :: k :: t) = None.
Proof. intros. unfold m_filtered. cbn -[span]. rewrite span_not by auto. reflexivity. Qed.
Lemma m_default_kind : forall k t, is_word k = false -> m_default idz (123 :: 123 :: k :: t) = None.
Proof. intros. unfold m_default. cbn -[span]. rewrite span_not by auto. reflexivity. Qed.

Ltac no_open :=
  unfold needs_open, m_if, m_each, m_include, m_optional, m_simple, m_filtered, m_default;
  repeat split; intros; unfold LB in *; cbn; unfold idz; zeq; auto.

Lemma no_if : needs_open (m_if idz). Proof. no_open. Qed.
Lemma no_each : needs_open (m_each idz). Proof. no_open. Qed.
Lemma no_include : needs_open (m_include idz). Proof. no_open. Qed.
Lemma no_optional : needs_open (m_optional idz). Proof. no_open. Qed.
Lemma no_simple : needs_open (m_simple idz). Proof. no_open. Qed.
Lemma no_filtered : needs_open (m_filtered idz). Proof. no_open. Qed.
Lemma no_default : needs_open (m_default idz). Proof. no_open. Qed.

(* ------------------------------------------------------------------ *)
(* C. a scanner over the print of a list of well-formed leaves           *)

(* what the scanners need to know about a leaf: brace-free text, or one construct
   {{ i0 inner }} whose only "{" are the two opening ones.  Besides the well-formed
   leaves this also covers the block delimiters, read as pseudo-leaves (section J). *)
Definition shaped (l : leaf) : Prop :=
  (exists s, l = LText s /\ nobrace s = true) \/
  ((forall s, l <> LText s) /\
   exists i0 inner, print_leaf l = LB :: LB :: i0 :: inner ++ [RB; RB] /\ i0 <> LB /\ nolb inner).

Lemma leaf_shape : forall l, leaf_wf l = true -> shaped l.
Proof.
  unfold shaped.
  intros [s|x| |x|x w|x] H; cbn [leaf_wf] in H; [|right; split; [discriminate|]..]; [| | | | |].
  - left. eauto.
  - destruct (word_cons x H) as (x0 & x' & -> & H0 & H1).
    exists x0, x'. split; [reflexivity|]. split.
    + apply is_word_facts in H0. unfold LB. lia.
    + apply Forall_forall. intros c Hc. rewrite forallb_forall in H1.
      apply H1 in Hc. apply is_word_facts in Hc. unfold LB. lia.
  - exists 46, []. repeat split; auto. unfold LB; lia. constructor.
  - exists 63, x. split; [reflexivity|]. split; [unfold LB; lia|].
    apply word_forall in H. apply Forall_forall. intros c Hc. rewrite forallb_forall in H.
    apply H in Hc. apply is_word_facts in Hc. unfold LB. lia.
  - apply andb_prop in H. destruct H as [H Hf]. apply andb_prop in H. destruct H as [H Hnb].
    apply andb_prop in H. destruct H as [H Hne].
    destruct (word_cons x H) as (x0 & x' & -> & Hx0 & Hx').
    exists x0, (x' ++ 124 :: w). split.
    { unfold print_leaf, K_OPEN, K_CLOSE. cbn [app]. repeat rewrite <- app_assoc. reflexivity. }
    split. { apply is_word_facts in Hx0. unfold LB. lia. }
    apply nolb_app.
    + apply Forall_forall. intros c Hc. rewrite forallb_forall in Hx'.
      apply Hx' in Hc. apply is_word_facts in Hc. unfold LB. lia.
    + constructor. unfold LB; lia. apply nobrace_nolb. auto.
  - exists 62, x. split; [reflexivity|]. split; [unfold LB; lia|].
    apply word_forall in H. apply Forall_forall. intros c Hc. rewrite forallb_forall in H.
    apply H in Hc. apply is_word_facts in Hc. unfold LB. lia.
Qed.

Lemma print_leaves_cons : forall l ls s,
  print_leaves (l :: ls) ++ s = print_leaf l ++ (print_leaves ls ++ s).
Proof. intros. unfold print_leaves. cbn [flat_map]. rewrite <- app_assoc. reflexivity. Qed.

Section Master.
  Variable M : Type.
  Variable mt : list Z -> option (M * nat).
  Variable act : leaf -> option M.
  Hypothesis Hopen : needs_open mt.

  Definition agrees (l : leaf) : Prop := forall s,
    match act l with
    | Some m => mt (print_leaf l ++ s) = Some (m, length (print_leaf l)) /\ print_leaf l <> []
    | None => match l with LText _ => True | _ => mt (print_leaf l ++ s) = None end
    end.

  Definition leaf_toks (l : leaf) : list (tok Z M) :=
    match act l with
    | Some m => [TMatch m (print_leaf l)]
    | None => map TLit (print_leaf l)
    end.

  Lemma scan_leaves : forall ls s,
    Forall (fun l => shaped l /\ agrees l) ls ->
    scan mt O (print_leaves ls ++ s) = flat_map leaf_toks ls ++ scan mt O s.
  Proof.
    intros ls s H. induction H as [|l ls [Hwf Hag] Hls IH].
    - reflexivity.
    - rewrite print_leaves_cons. cbn [flat_map]. rewrite <- app_assoc. rewrite <- IH.
      set (rest := print_leaves ls ++ s). unfold leaf_toks.
      specialize (Hag rest). destruct (act l) as [m|] eqn:Ea.
      + destruct Hag as [Hm Hne]. destruct (print_leaf l) as [|a p] eqn:Ep; [congruence|].
        cbn [app] in *. rewrite (scan_match mt a p rest m Hm). reflexivity.
      + destruct Hwf as [(t & -> & Ht)|(Hnt & i0 & inner & Ep & Hi & Hin)].
        * cbn [print_leaf]. apply scan_nolb; auto. apply nobrace_nolb; auto.
        * assert (Hn : mt (print_leaf l ++ rest) = None).
          { destruct l; auto. exfalso. eapply Hnt. reflexivity. }
          rewrite Ep in *. cbn [app] in *. rewrite <- app_assoc in *. cbn [app] in *.
          rewrite (scan_construct_nomatch mt i0 inner rest Hopen Hi Hin Hn).
          reflexivity.
  Qed.
End Master.

(* ------------------------------------------------------------------ *)
(* D. what each matcher does at the start of each well-formed leaf       *)

Lemma len_var : forall x, length (print_leaf (LVar x)) = (4 + length x)%nat.
Proof. intros. cbn. rewrite app_length. cbn. lia. Qed.
Lemma len_opt : forall x, length (print_leaf (LOpt x)) = (5 + length x)%nat.
Proof. intros. cbn. rewrite app_length. cbn. lia. Qed.
Lemma len_inc : forall x, length (print_leaf (LInc x)) = (5 + length x)%nat.
Proof. intros. cbn. rewrite app_length. cbn. lia. Qed.
Lemma len_pipe : forall x w, length (print_leaf (LPipe x w)) = (5 + length x + length w)%nat.
Proof. intros. unfold print_leaf, K_OPEN, K_CLOSE. repeat rewrite app_length. cbn. lia. Qed.

Lemma m_simple_var : forall x s, word x = true ->
  m_simple idz (print_leaf (LVar x) ++ s) = Some (x, length (print_leaf (LVar x))).
Proof.
  intros. rewrite pr_var, len_var. unfold m_simple. cbn -[span].
  rewrite span_app; auto using word_forall. rewrite word_nonempty by auto.
  cbn. rewrite codes_idz. reflexivity.
Qed.

Lemma m_optional_opt : forall x s, word x = true ->
  m_optional idz (print_leaf (LOpt x) ++ s) = Some (x, length (print_leaf (LOpt x))).
Proof.
  intros. rewrite pr_opt, len_opt. unfold m_optional. cbn -[span].
  rewrite span_app; auto using word_forall. rewrite word_nonempty by auto.
  cbn. rewrite codes_idz. reflexivity.
Qed.

Lemma m_include_inc : forall x s, word x = true ->
  m_include idz (print_leaf (LInc x) ++ s) = Some (x, length (print_leaf (LInc x))).
Proof.
  intros. rewrite pr_inc, len_inc. unfold m_include. cbn -[span].
  rewrite span_app; auto using word_forall. rewrite word_nonempty by auto.
  cbn. rewrite codes_idz. reflexivity.
Qed.

Lemma m_simple_pipe : forall x w s, word x = true ->
  m_simple idz (print_leaf (LPipe x w) ++ s) = None.
Proof.
  intros. rewrite pr_pipe. unfold m_simple. cbn -[span].
  rewrite span_app; auto using word_forall. rewrite word_nonempty by auto. reflexivity.
Qed.

Lemma m_filtered_var : forall x s, word x = true ->
  m_filtered idz (print_leaf (LVar x) ++ s) = None.
Proof.
  intros. rewrite pr_var. unfold m_filtered. cbn -[span].
  rewrite span_app; auto using word_forall. rewrite word_nonempty by auto. reflexivity.
Qed.

Lemma m_default_var : forall x s, word x = true ->
  m_default idz (print_leaf (LVar x) ++ s) = None.
Proof.
  intros. rewrite pr_var. unfold m_default. cbn -[span].
  rewrite span_app; auto using word_forall. rewrite word_nonempty by auto. reflexivity.
Qed.

Lemma m_filtered_pipe_word : forall x w s, word x = true -> word w = true ->
  m_filtered idz (print_leaf (LPipe x w) ++ s) = Some ((x, w), length (print_leaf (LPipe x w))).
Proof.
  intros. rewrite pr_pipe, len_pipe. unfold m_filtered. cbn -[span].
  rewrite span_app; auto using word_forall. rewrite word_nonempty by auto. cbn -[span].
  rewrite span_app; auto using word_forall. rewrite word_nonempty by auto.
  cbn. rewrite !codes_idz. reflexivity.
Qed.

Lemma forallb_false_split : forall (f : Z -> bool) w, forallb f w = false ->
  exists w1 c w2, w = w1 ++ c :: w2 /\ forallb f w1 = true /\ f c = false.
Proof.
  induction w as [|a w IH]; cbn; intros H; [discriminate|].
  destruct (f a) eqn:Ea.
  - cbn in H. destruct (IH H) as (w1 & c & w2 & -> & H1 & H2).
    exists (a :: w1), c, w2. cbn. rewrite Ea, H1. auto.
  - exists [], a, w. auto.
Qed.

Lemma nobrace_forall : forall w c, nobrace w = true -> In c w -> c <> LB /\ c <> RB.
Proof.
  unfold nobrace. intros w c H Hc. rewrite forallb_forall in H. specialize (H c Hc).
  unfold LB, RB in *. lia.
Qed.

Lemma m_filtered_pipe_nonword : forall x w s,
  word x = true -> nobrace w = true -> forallb is_word w = false ->
  m_filtered idz (print_leaf (LPipe x w) ++ s) = None.
Proof.
  intros x w s Hx Hnb Hw. rewrite pr_pipe. unfold m_filtered. cbn -[span].
  rewrite span_app; auto using word_forall. rewrite word_nonempty by auto. cbn -[span].
  destruct (forallb_false_split is_word w Hw) as (w1 & c & w2 & -> & H1 & H2).
  rewrite <- app_assoc. cbn [app]. rewrite span_app by auto.
  destruct w1; [reflexivity|]. cbn.
  assert (c <> RB) by (apply (nobrace_forall _ c Hnb); apply in_or_app; right; left; auto).
  unfold idz, RB in *. zeq.
Qed.

Lemma m_default_pipe : forall x w s,
  word x = true -> nonempty w = true -> nobrace w = true ->
  m_default idz (print_leaf (LPipe x w) ++ s) = Some ((x, w), length (print_leaf (LPipe x w))).
Proof.
  intros x w s Hx Hne Hnb. rewrite pr_pipe, len_pipe. unfold m_default. cbn -[span].
  rewrite span_app; auto using word_forall. rewrite word_nonempty by auto. cbn -[span].
  rewrite (span_app (fun c => negb (c =? RB)) w 125 (125 :: s)).
  - rewrite Hne. cbn. rewrite codes_idz. reflexivity.
  - apply forallb_forall. intros c Hc. destruct (nobrace_forall _ c Hnb Hc). unfold RB in *. lia.
  - reflexivity.
Qed.

(* --- the act functions of the seven scanners on leaves --- *)
Definition act_none {M} (_ : leaf) : option M := None.
Definition act_inc (l : leaf) : option str := match l with LInc n => Some n | _ => None end.
Definition act_opt (l : leaf) : option str := match l with LOpt x => Some x | _ => None end.
Definition act_var (l : leaf) : option str := match l with LVar x => Some x | _ => None end.
Definition act_filt (l : leaf) : option (str * str) :=
  match l with LPipe x w => if forallb is_word w then Some (x, w) else None | _ => None end.
Definition act_def (l : leaf) : option (str * str) :=
  match l with LPipe x w => Some (x, w) | _ => None end.

Ltac leaf_kind l H :=
  destruct l as [t|x| |x|x w|x]; cbn [leaf_wf] in H;
  try (destruct (word_cons x H) as (x0 & x' & -> & Hx0 & Hx'); pose proof (is_word_facts x0 Hx0)).

Lemma pr_cons_var : forall x0 x' s, print_leaf (LVar (x0 :: x')) ++ s = 123 :: 123 :: x0 :: x' ++ 125 :: 125 :: s.
Proof. intros. rewrite pr_var. reflexivity. Qed.
Lemma pr_cons_pipe : forall x0 x' w s,
  print_leaf (LPipe (x0 :: x') w) ++ s = 123 :: 123 :: x0 :: x' ++ 124 :: w ++ 125 :: 125 :: s.
Proof. intros. rewrite pr_pipe. reflexivity. Qed.

Lemma pipe_wf : forall x w, leaf_wf (LPipe x w) = true ->
  word x = true /\ nonempty w = true /\ nobrace w = true /\ (negb (is_filter w) || modelled_filter w = true).
Proof.
  intros x w H. cbn [leaf_wf] in H.
  apply andb_prop in H. destruct H as [H Hf]. apply andb_prop in H. destruct H as [H Hnb].
  apply andb_prop in H. destruct H as [H Hne]. auto.
Qed.

Lemma agrees_if : forall l, leaf_wf l = true -> agrees _ (m_if idz) act_none l.
Proof.
  intros l H s. unfold act_none. destruct l as [t|x| |x|x w|x]; cbv beta iota; [exact I| | | | | ].
  - destruct (word_cons x H) as (x0 & x' & -> & Hx0 & Hx'). pose proof (is_word_facts x0 Hx0).
    rewrite pr_cons_var. apply m_if_kind. lia.
  - rewrite pr_dot. apply m_if_kind. lia.
  - rewrite pr_opt. apply m_if_kind. lia.
  - destruct (pipe_wf x w H) as (Hx & _).
    destruct (word_cons x Hx) as (x0 & x' & -> & Hx0 & Hx'). pose proof (is_word_facts x0 Hx0).
    rewrite pr_cons_pipe. apply m_if_kind. lia.
  - rewrite pr_inc. apply m_if_kind. lia.
Qed.

Lemma agrees_each : forall l, leaf_wf l = true -> agrees _ (m_each idz) act_none l.
Proof.
  intros l H s. unfold act_none. destruct l as [t|x| |x|x w|x]; cbv beta iota; [exact I| | | | | ].
  - destruct (word_cons x H) as (x0 & x' & -> & Hx0 & Hx'). pose proof (is_word_facts x0 Hx0).
    rewrite pr_cons_var. apply m_each_kind. lia.
  - rewrite pr_dot. apply m_each_kind. lia.
  - rewrite pr_opt. apply m_each_kind. lia.
  - destruct (pipe_wf x w H) as (Hx & _).
    destruct (word_cons x Hx) as (x0 & x' & -> & Hx0 & Hx'). pose proof (is_word_facts x0 Hx0).
    rewrite pr_cons_pipe. apply m_each_kind. lia.
  - rewrite pr_inc. apply m_each_kind. lia.
Qed.

Lemma agrees_include : forall l, leaf_wf l = true -> agrees _ (m_include idz) act_inc l.
Proof.
  intros l H s. destruct l as [t|x| |x|x w|x]; cbn [act_inc]; cbv beta iota; [exact I| | | | | ].
  - destruct (word_cons x H) as (x0 & x' & -> & Hx0 & Hx'). pose proof (is_word_facts x0 Hx0).
    rewrite pr_cons_var. apply m_include_kind. lia.
  - rewrite pr_dot. apply m_include_kind. lia.
  - rewrite pr_opt. apply m_include_kind. lia.
  - destruct (pipe_wf x w H) as (Hx & _).
    destruct (word_cons x Hx) as (x0 & x' & -> & Hx0 & Hx'). pose proof (is_word_facts x0 Hx0).
    rewrite pr_cons_pipe. apply m_include_kind. lia.
  - split. apply m_include_inc; auto. discriminate.
Qed.

Lemma agrees_optional : forall l, leaf_wf l = true -> agrees _ (m_optional idz) act_opt l.
Proof.
  intros l H s. destruct l as [t|x| |x|x w|x]; cbn [act_opt]; cbv beta iota; [exact I| | | | | ].
  - destruct (word_cons x H) as (x0 & x' & -> & Hx0 & Hx'). pose proof (is_word_facts x0 Hx0).
    rewrite pr_cons_var. apply m_optional_kind. lia.
  - rewrite pr_dot. apply m_optional_kind. lia.
  - split. apply m_optional_opt; auto. discriminate.
  - destruct (pipe_wf x w H) as (Hx & _).
    destruct (word_cons x Hx) as (x0 & x' & -> & Hx0 & Hx'). pose proof (is_word_facts x0 Hx0).
    rewrite pr_cons_pipe. apply m_optional_kind. lia.
  - rewrite pr_inc. apply m_optional_kind. lia.
Qed.

Lemma agrees_simple : forall l, leaf_wf l = true -> agrees _ (m_simple idz) act_var l.
Proof.
  intros l H s. destruct l as [t|x| |x|x w|x]; cbn [act_var]; cbv beta iota; [exact I| | | | | ].
  - split. apply m_simple_var; auto. discriminate.
  - rewrite pr_dot. apply m_simple_kind. reflexivity.
  - rewrite pr_opt. apply m_simple_kind. reflexivity.
  - destruct (pipe_wf x w H) as (Hx & _). apply m_simple_pipe; auto.
  - rewrite pr_inc. apply m_simple_kind. reflexivity.
Qed.

Lemma agrees_filtered : forall l, leaf_wf l = true -> agrees _ (m_filtered idz) act_filt l.
Proof.
  intros l H s. destruct l as [t|x| |x|x w|x]; cbn [act_filt]; cbv beta iota; [exact I| | | | | ].
  - apply m_filtered_var; auto.
  - rewrite pr_dot. apply m_filtered_kind. reflexivity.
  - rewrite pr_opt. apply m_filtered_kind. reflexivity.
  - destruct (pipe_wf x w H) as (Hx & Hne & Hnb & _).
    destruct (forallb is_word w) eqn:Hw.
    + split. apply m_filtered_pipe_word; auto. unfold word. rewrite Hne, Hw. reflexivity. discriminate.
    + apply m_filtered_pipe_nonword; auto.
  - rewrite pr_inc. apply m_filtered_kind. reflexivity.
Qed.

Lemma agrees_default : forall l, leaf_wf l = true -> agrees _ (m_default idz) act_def l.
Proof.
  intros l H s. destruct l as [t|x| |x|x w|x]; cbn [act_def]; cbv beta iota; [exact I| | | | | ].
  - apply m_default_var; auto.
  - rewrite pr_dot. apply m_default_kind. reflexivity.
  - rewrite pr_opt. apply m_default_kind. reflexivity.
  - destruct (pipe_wf x w H) as (Hx & Hne & Hnb & _).
    split. apply m_default_pipe; auto. discriminate.
  - rewrite pr_inc. apply m_default_kind. reflexivity.
Qed.

(* ------------------------------------------------------------------ *)
(* E. whole passes over printed leaves                                   *)

Definition wf_leaves (ls : list leaf) : Prop := Forall (fun l => leaf_wf l = true) ls.

Lemma scan_shaped_nil : forall {M} (mt : list Z -> option (M * nat)) act ls,
  needs_open mt -> Forall (fun l => shaped l /\ agrees M mt act l) ls ->
  scan mt O (print_leaves ls) = flat_map (leaf_toks M act) ls.
Proof.
  intros M mt act ls Ho H.
  rewrite <- (app_nil_r (print_leaves ls)).
  rewrite (scan_leaves M mt act Ho ls [] H). cbn [scan]. apply app_nil_r.
Qed.

Lemma scan_leaves_nil : forall {M} (mt : list Z -> option (M * nat)) act ls,
  needs_open mt -> wf_leaves ls -> (forall l, leaf_wf l = true -> agrees M mt act l) ->
  scan mt O (print_leaves ls) = flat_map (leaf_toks M act) ls.
Proof.
  intros M mt act ls Ho Hwf Hag. apply scan_shaped_nil; auto.
  eapply Forall_impl; [|exact Hwf]. cbn. intros l Hl. split; auto using leaf_shape.
Qed.

Lemma subst_leaf_toks : forall {M} (act : leaf -> option M) (f : M -> str -> str) ls,
  subst f (flat_map (leaf_toks M act) ls) =
  flat_map (fun l => match act l with Some m => f m (print_leaf l) | None => print_leaf l end) ls.
Proof.
  intros. induction ls as [|l ls IH]; [reflexivity|].
  cbn [flat_map]. rewrite subst_app, IH. f_equal.
  unfold leaf_toks. destruct (act l).
  - unfold subst. cbn. apply app_nil_r.
  - apply subst_lits.
Qed.

Lemma matches_leaf_toks : forall {M} (act : leaf -> option M) ls,
  matches (flat_map (leaf_toks M act) ls) =
  flat_map (fun l => match act l with Some m => [(m, print_leaf l)] | None => [] end) ls.
Proof.
  intros. induction ls as [|l ls IH]; [reflexivity|].
  cbn [flat_map]. rewrite matches_app, IH. f_equal.
  unfold leaf_toks. destruct (act l).
  - reflexivity.
  - apply matches_lits.
Qed.

Lemma subst_err_lits : forall {M} (f : M -> str -> str + error) p ts,
  subst_err f (map TLit p ++ ts) =
  match subst_err f ts with inl r => inl (p ++ r) | inr e => inr e end.
Proof.
  intros. induction p as [|a p IH]; cbn [map app subst_err].
  - destruct (subst_err f ts); reflexivity.
  - rewrite IH. destruct (subst_err f ts); reflexivity.
Qed.

Lemma subst_err_leaf_toks : forall {M} (act : leaf -> option M) (f : M -> str -> str + error)
                                   (g : leaf -> str) ls,
  (forall l, In l ls -> match act l with
                        | Some m => f m (print_leaf l) = inl (g l)
                        | None => g l = print_leaf l
                        end) ->
  subst_err f (flat_map (leaf_toks M act) ls) = inl (flat_map g ls).
Proof.
  intros M act f g ls H. induction ls as [|l ls IH]; [reflexivity|].
  cbn [flat_map]. assert (Hl := H l (or_introl eq_refl)).
  unfold leaf_toks at 1. destruct (act l) as [m|].
  - cbn [app subst_err]. rewrite Hl.
    rewrite (IH (fun l' Hl' => H l' (or_intror Hl'))). reflexivity.
  - rewrite subst_err_lits. rewrite (IH (fun l' Hl' => H l' (or_intror Hl'))). rewrite Hl. reflexivity.
Qed.

(* the leaf-level effect of the four variable passes *)
Definition filt_text (c : ctx) (x w : str) : option str :=
  match lookup c x with
  | Some v => if is_filter w then
                match apply_filter w v with inl s => Some s | inr _ => None end
              else Some (str_value v)
  | None => None
  end.
Definition filt_leaf (c : ctx) (l : leaf) : leaf :=
  match l with
  | LPipe x w => if forallb is_word w then
                   match filt_text c x w with Some s => LText s | None => l end
                 else l
  | _ => l
  end.
Definition def_leaf (c : ctx) (l : leaf) : leaf :=
  match l with
  | LPipe x w => if is_filter w then l
                 else LText (match lookup c x with Some v => str_value v | None => w end)
  | _ => l
  end.
Definition opt_leaf (c : ctx) (l : leaf) : leaf :=
  match l with
  | LOpt x => LText (match lookup c x with Some v => str_value v | None => [] end)
  | _ => l
  end.
Definition simple_leaf (c : ctx) (l : leaf) : leaf :=
  match l with
  | LVar x => match lookup c x with Some v => LText (str_value v) | None => l end
  | _ => l
  end.

Lemma print_leaves_map : forall (g : leaf -> leaf) ls,
  print_leaves (map g ls) = flat_map (fun l => print_leaf (g l)) ls.
Proof. intros. unfold print_leaves. induction ls; cbn; auto. f_equal. auto. Qed.

Lemma pass_if_leaves : forall c ls, wf_leaves ls -> pass_if c (print_leaves ls) = print_leaves ls.
Proof.
  intros. unfold pass_if.
  rewrite (scan_leaves_nil (m_if idz) act_none ls no_if H agrees_if).
  rewrite subst_leaf_toks. reflexivity.
Qed.

Lemma pass_each_leaves : forall c ls, wf_leaves ls -> pass_each c (print_leaves ls) = print_leaves ls.
Proof.
  intros. unfold pass_each.
  rewrite (scan_leaves_nil (m_each idz) act_none ls no_each H agrees_each).
  rewrite subst_leaf_toks. reflexivity.
Qed.

Lemma pass_optional_leaves : forall c ls, wf_leaves ls ->
  pass_optional c (print_leaves ls) = print_leaves (map (opt_leaf c) ls).
Proof.
  intros. unfold pass_optional.
  rewrite (scan_leaves_nil (m_optional idz) act_opt ls no_optional H agrees_optional).
  rewrite subst_leaf_toks, print_leaves_map. apply flat_map_ext.
  intros [ | | | | | ]; reflexivity.
Qed.

Lemma pass_simple_leaves : forall c ls, wf_leaves ls ->
  pass_simple c (print_leaves ls) = print_leaves (map (simple_leaf c) ls).
Proof.
  intros. unfold pass_simple.
  rewrite (scan_leaves_nil (m_simple idz) act_var ls no_simple H agrees_simple).
  rewrite subst_leaf_toks, print_leaves_map. apply flat_map_ext.
  intros [ |x| | | | ]; try reflexivity. cbn. destruct (lookup c x); reflexivity.
Qed.

(* ------------------------------------------------------------------ *)
(* F. literal search (str.replace) over printed leaves; the default pass *)

Lemma str_eqb_eq : forall a b, str_eqb a b = true <-> a = b.
Proof.
  induction a as [|x a IH]; destruct b as [|y b]; cbn; split; intros H; try discriminate; auto.
  - apply andb_prop in H. destruct H as [H1 H2]. apply IH in H2. f_equal; auto. lia.
  - inversion H; subst. rewrite Z.eqb_refl. cbn. apply IH. reflexivity.
Qed.

Lemma str_eqb_refl : forall a, str_eqb a a = true.
Proof. intros. apply str_eqb_eq. reflexivity. Qed.

Lemma starts_app : forall p r, starts idz p (p ++ r) = Some r.
Proof. induction p; cbn; intros; auto. unfold idz at 1. rewrite Z.eqb_refl. auto. Qed.

Lemma starts_prefix : forall p s r, starts idz p s = Some r -> s = p ++ r.
Proof.
  induction p as [|c p IH]; cbn; intros s r H.
  - congruence.
  - destruct s as [|a s]; [discriminate|]. unfold idz at 1 in H.
    destruct (Z.eqb_spec a c); [|discriminate]. subst. f_equal. apply IH. exact H.
Qed.

Lemma split_at : forall (d : Z) a b r1 r2,
  a ++ d :: r1 = b ++ d :: r2 -> ~ In d a -> ~ In d b -> a = b /\ r1 = r2.
Proof.
  induction a as [|x a IH]; destruct b as [|y b]; cbn; intros r1 r2 H Ha Hb.
  - inversion H. auto.
  - inversion H; subst. exfalso. apply Hb. auto.
  - inversion H; subst. exfalso. apply Ha. auto.
  - inversion H; subst. destruct (IH b r1 r2 H2) as [-> ->]; auto.
Qed.

Definition inner (l : leaf) : str :=
  match l with
  | LText _ => []
  | LVar x => x
  | LDot => [46]
  | LOpt x => 63 :: x
  | LPipe x w => x ++ 124 :: w
  | LInc x => 62 :: x
  end.
Definition is_text (l : leaf) : bool := match l with LText _ => true | _ => false end.

Lemma pr_inner : forall l s, is_text l = false ->
  print_leaf l ++ s = 123 :: 123 :: inner l ++ 125 :: 125 :: s.
Proof.
  intros [t|x| |x|x w|x] s H; try discriminate.
  - apply pr_var. - apply pr_dot. - apply pr_opt.
  - rewrite pr_pipe. cbn [inner]. rewrite <- app_assoc. reflexivity.
  - apply pr_inc.
Qed.

Lemma word_not_in : forall x d, forallb is_word x = true -> is_word d = false -> ~ In d x.
Proof.
  intros x d H Hd Hin. rewrite forallb_forall in H. apply H in Hin. congruence.
Qed.

Lemma nobrace_not_in : forall w, nobrace w = true -> ~ In 125 w.
Proof. intros w H Hin. destruct (nobrace_forall w 125 H Hin). unfold RB in *. lia. Qed.

Lemma inner_norb : forall l, leaf_wf l = true -> ~ In 125 (inner l).
Proof.
  intros [t|x| |x|x w|x] H; cbn [inner leaf_wf] in *.
  - auto.
  - apply word_not_in; auto using word_forall.
  - cbn. intros [E|[]]. lia.
  - intros [E|Hin]; [lia|]. revert Hin. apply word_not_in; auto using word_forall.
  - destruct (pipe_wf x w H) as (Hx & Hne & Hnb & _). intros Hin.
    apply in_app_or in Hin. destruct Hin as [Hin|[E|Hin]].
    + revert Hin. apply word_not_in; auto using word_forall.
    + lia.
    + revert Hin. apply nobrace_not_in. auto.
  - intros [E|Hin]; [lia|]. revert Hin. apply word_not_in; auto using word_forall.
Qed.

Definition leaf_is_pipe (x w : str) (l : leaf) : bool :=
  match l with LPipe y u => str_eqb y x && str_eqb u w | _ => false end.

Lemma inner_pipe_inj : forall l x w, leaf_wf l = true -> is_text l = false -> word x = true ->
  inner l = x ++ 124 :: w -> l = LPipe x w.
Proof.
  intros l x w Hwf Ht Hx E.
  assert (Hx124 : ~ In 124 x) by (apply word_not_in; auto using word_forall).
  destruct (word_cons x Hx) as (x0 & x' & Ex & Hx0 & Hx'). pose proof (is_word_facts x0 Hx0) as F.
  destruct l as [t|y| |y|y u|y]; cbn [inner] in E; try discriminate.
  - exfalso. assert (In 124 y) by (rewrite E; apply in_or_app; right; left; auto).
    revert H. apply word_not_in; auto using word_forall.
  - subst x. cbn in E. inversion E. lia.
  - subst x. cbn in E. inversion E. lia.
  - destruct (pipe_wf y u Hwf) as (Hy & _).
    assert (Hy124 : ~ In 124 y) by (apply word_not_in; auto using word_forall).
    destruct (split_at 124 y x u w E Hy124 Hx124) as [-> ->]. reflexivity.
  - subst x. cbn in E. inversion E. lia.
Qed.

Lemma no_lit : forall x w, word x = true -> needs_open (m_lit idz (print_leaf (LPipe x w))).
Proof.
  intros x w Hx. destruct (word_cons x Hx) as (x0 & x' & -> & _ & _).
  unfold needs_open, m_lit. unfold print_leaf, K_OPEN. cbn [app].
  repeat split; intros; unfold LB in *; cbn; unfold idz; zeq; auto.
Qed.

Lemma prefix_pipe : forall l x w s r,
  leaf_wf l = true -> leaf_wf (LPipe x w) = true -> is_text l = false ->
  print_leaf l ++ s = print_leaf (LPipe x w) ++ r -> l = LPipe x w.
Proof.
  intros l x w s r Hl Hp Ht E. destruct (pipe_wf x w Hp) as (Hx & _).
  rewrite (pr_inner l s Ht), (pr_inner (LPipe x w) r eq_refl) in E.
  assert (E' : inner l ++ 125 :: 125 :: s = inner (LPipe x w) ++ 125 :: 125 :: r) by congruence.
  destruct (split_at 125 (inner l) (inner (LPipe x w)) _ _ E') as [E1 _];
    try (apply inner_norb; auto).
  apply inner_pipe_inj; auto.
Qed.

Definition act_lit (x w : str) (l : leaf) : option unit :=
  if leaf_is_pipe x w l then Some tt else None.

Lemma agrees_lit : forall x w l, leaf_wf (LPipe x w) = true -> leaf_wf l = true ->
  agrees _ (m_lit idz (print_leaf (LPipe x w))) (act_lit x w) l.
Proof.
  intros x w l Hp Hl s. destruct (pipe_wf x w Hp) as (Hx & Hne & Hnb & _).
  unfold act_lit. destruct (leaf_is_pipe x w l) eqn:E.
  - destruct l as [t|y| |y|y u|y]; cbn in E; try discriminate.
    apply andb_prop in E. destruct E as [E1 E2]. apply str_eqb_eq in E1, E2. subst y u.
    split; [|discriminate]. unfold m_lit.
    destruct (print_leaf (LPipe x w)) eqn:Ep; [discriminate|]. rewrite <- Ep.
    rewrite starts_app. reflexivity.
  - destruct (is_text l) eqn:Ht; [destruct l; try discriminate; exact I|].
    assert (G : m_lit idz (print_leaf (LPipe x w)) (print_leaf l ++ s) = None).
    { unfold m_lit. destruct (print_leaf (LPipe x w)) eqn:Ep; [reflexivity|]. rewrite <- Ep.
      destruct (starts idz (print_leaf (LPipe x w)) (print_leaf l ++ s)) as [r|] eqn:Es; [exfalso|reflexivity].
      apply starts_prefix in Es. apply prefix_pipe in Es; auto.
      subst l. cbn in E. rewrite !str_eqb_refl in E. discriminate. }
    destruct l; try discriminate; exact G.
Qed.

Lemma replace_all_leaves : forall cur x w new,
  wf_leaves cur -> leaf_wf (LPipe x w) = true ->
  replace_all idz (print_leaves cur) (print_leaf (LPipe x w)) new =
  print_leaves (map (fun l => if leaf_is_pipe x w l then LText new else l) cur).
Proof.
  intros cur x w new Hcur Hp. unfold replace_all.
  destruct (pipe_wf x w Hp) as (Hx & _).
  rewrite (scan_leaves_nil (m_lit idz (print_leaf (LPipe x w))) (act_lit x w) cur (no_lit x w Hx) Hcur
             (fun l => agrees_lit x w l Hp)).
  rewrite subst_leaf_toks, print_leaves_map. apply flat_map_ext.
  intros l. unfold act_lit. destruct (leaf_is_pipe x w l); reflexivity.
Qed.

Definition repl (c : ctx) (x w : str) : str :=
  match lookup c x with Some v => str_value v | None => w end.

Definition step1 (c : ctx) (xw : str * str) (l : leaf) : leaf :=
  if is_filter (snd xw) then l
  else if leaf_is_pipe (fst xw) (snd xw) l then LText (repl c (fst xw) (snd xw)) else l.

Definition pipes_of (ls : list leaf) : list (str * str) :=
  flat_map (fun l => match l with LPipe x w => [(x, w)] | _ => [] end) ls.

Definition default_step (c : ctx) (res : str) (mc : (str * str) * str) : str :=
  let '((x, d), g0) := mc in
  if is_filter d then res
  else replace_all idz res g0 (match lookup c x with Some v => str_value v | None => d end).

Lemma pass_default_unfold : forall c s,
  pass_default c s = fold_left (default_step c) (matches (scan (m_default idz) O s)) s.
Proof. reflexivity. Qed.

Lemma lookup_free : forall c x v, delimiter_free c = true -> lookup c x = Some v ->
  value_free v = true.
Proof.
  induction c as [|[k u] c IH]; cbn; intros x v H L; [discriminate|].
  apply andb_prop in H. destruct H as [H1 H2].
  destruct (str_eqb k x); [inversion L; subst; auto|eauto].
Qed.

Lemma lookup_nobrace : forall c x v, delimiter_free c = true -> lookup c x = Some v ->
  nobrace (str_value v) = true.
Proof.
  intros. apply lookup_free in H0; auto. unfold value_free in H0.
  apply andb_prop in H0. tauto.
Qed.

Lemma repl_nobrace : forall c x w, delimiter_free c = true -> nobrace w = true ->
  nobrace (repl c x w) = true.
Proof.
  intros. unfold repl. destruct (lookup c x) eqn:E; auto. eapply lookup_nobrace; eauto.
Qed.

Lemma fold_default_leaves : forall c ps cur,
  delimiter_free c = true ->
  Forall (fun xw => leaf_wf (LPipe (fst xw) (snd xw)) = true) ps -> wf_leaves cur ->
  fold_left (default_step c)
            (map (fun xw => (xw, print_leaf (LPipe (fst xw) (snd xw)))) ps) (print_leaves cur) =
  print_leaves (map (fun l => fold_left (fun l' xw => step1 c xw l') ps l) cur).
Proof.
  intros c ps. induction ps as [|[x w] ps IH]; intros cur Hc Hps Hcur.
  - cbn. rewrite map_id. reflexivity.
  - inversion Hps as [|? ? Hp Hps']; subst. cbn [fst snd] in Hp.
    cbn [map fold_left fst snd]. unfold default_step at 2.
    destruct (pipe_wf x w Hp) as (Hx & Hne & Hnb & _).
    assert (E : (if is_filter w then print_leaves cur
                 else replace_all idz (print_leaves cur) (print_leaf (LPipe x w))
                        (match lookup c x with Some v => str_value v | None => w end))
                = print_leaves (map (step1 c (x, w)) cur)).
    { unfold step1. cbn [fst snd]. destruct (is_filter w).
      - rewrite map_id. reflexivity.
      - rewrite replace_all_leaves; auto. }
    rewrite E. rewrite IH; auto.
    + rewrite map_map. reflexivity.
    + unfold wf_leaves in *. rewrite Forall_forall in *. intros l Hl.
      apply in_map_iff in Hl. destruct Hl as (l0 & <- & Hl0).
      unfold step1. cbn [fst snd]. destruct (is_filter w); auto.
      destruct (leaf_is_pipe x w l0); auto. cbn [leaf_wf]. apply repl_nobrace; auto.
Qed.

Lemma fold_step1_nonpipe : forall c ps l,
  (forall x w, l <> LPipe x w) -> fold_left (fun l' xw => step1 c xw l') ps l = l.
Proof.
  intros c ps l H. induction ps as [|[x w] ps IH]; cbn [fold_left]; auto.
  assert (E : step1 c (x, w) l = l).
  { unfold step1. cbn [fst snd]. destruct (is_filter w); auto.
    destruct l; auto. exfalso. eapply H. reflexivity. }
  rewrite E. exact IH.
Qed.

Lemma leaf_is_pipe_true : forall x w l, leaf_is_pipe x w l = true -> l = LPipe x w.
Proof.
  intros x w [ | | | |y u| ] H; cbn in H; try discriminate.
  apply andb_prop in H. destruct H as [H1 H2]. apply str_eqb_eq in H1, H2. subst. reflexivity.
Qed.

Lemma fold_step1_pipe : forall c ps y u, In (y, u) ps ->
  fold_left (fun l' xw => step1 c xw l') ps (LPipe y u) = def_leaf c (LPipe y u).
Proof.
  intros c ps y u. induction ps as [|[x w] ps IH]; intros Hin; [destruct Hin|].
  cbn [fold_left]. cbn [def_leaf]. unfold step1 at 2. cbn [fst snd].
  destruct (leaf_is_pipe x w (LPipe y u)) eqn:E.
  - apply leaf_is_pipe_true in E. inversion E; subst y u.
    destruct (is_filter w) eqn:F.
    + clear IH Hin. induction ps as [|[x2 w2] ps IH2]; cbn [fold_left]; auto.
      assert (E2 : step1 c (x2, w2) (LPipe x w) = LPipe x w).
      { unfold step1. cbn [fst snd]. destruct (is_filter w2) eqn:F2; auto.
        destruct (leaf_is_pipe x2 w2 (LPipe x w)) eqn:E3; auto.
        apply leaf_is_pipe_true in E3. inversion E3; subst. congruence. }
      rewrite E2. exact IH2.
    + rewrite fold_step1_nonpipe by (intros; discriminate). reflexivity.
  - assert (Hin' : In (y, u) ps).
    { destruct Hin as [Heq|]; auto. inversion Heq; subst.
      cbn in E. rewrite !str_eqb_refl in E. discriminate. }
    assert (E2 : (if is_filter w then LPipe y u else LPipe y u) = LPipe y u) by (destruct (is_filter w); auto).
    rewrite E2. rewrite IH by auto. reflexivity.
Qed.

Lemma in_pipes_of : forall ls x w, In (LPipe x w) ls -> In (x, w) (pipes_of ls).
Proof.
  intros. unfold pipes_of. apply in_flat_map. exists (LPipe x w). split; auto. left; auto.
Qed.

Lemma pipes_of_wf : forall ls, wf_leaves ls ->
  Forall (fun xw => leaf_wf (LPipe (fst xw) (snd xw)) = true) (pipes_of ls).
Proof.
  intros ls H. apply Forall_forall. intros [x w] Hin. unfold pipes_of in Hin.
  apply in_flat_map in Hin. destruct Hin as (l & Hl & Hin).
  unfold wf_leaves in H. rewrite Forall_forall in H. specialize (H l Hl).
  destruct l; try destruct Hin. inversion H0; subst. exact H. destruct H0.
Qed.

Lemma pass_default_leaves : forall c ls, delimiter_free c = true -> wf_leaves ls ->
  pass_default c (print_leaves ls) = print_leaves (map (def_leaf c) ls).
Proof.
  intros c ls Hc Hwf. rewrite pass_default_unfold.
  rewrite (scan_leaves_nil (m_default idz) act_def ls no_default Hwf agrees_default).
  rewrite matches_leaf_toks.
  match goal with |- fold_left _ ?L _ = _ =>
    assert (E : L = map (fun xw => (xw, print_leaf (LPipe (fst xw) (snd xw)))) (pipes_of ls)) end.
  { unfold pipes_of. clear Hc. induction ls as [|l ls IH]; [reflexivity|].
    inversion Hwf; subst. cbn [flat_map]. rewrite map_app, IH by auto. f_equal.
    destruct l; reflexivity. }
  rewrite E. rewrite fold_default_leaves; auto using pipes_of_wf.
  f_equal. apply map_ext_in. intros l Hl.
  destruct l as [t|x| |x|x w|x]; try (apply fold_step1_nonpipe; intros; discriminate).
  apply fold_step1_pipe. apply in_pipes_of. exact Hl.
Qed.

(* ------------------------------------------------------------------ *)
(* G. substituted text is brace-free when the context is                 *)

Lemma nobrace_in : forall s, (forall c, In c s -> c <> 123 /\ c <> 125) -> nobrace s = true.
Proof.
  intros s H. unfold nobrace. apply forallb_forall. intros c Hc. destruct (H c Hc).
  unfold LB, RB. lia.
Qed.
Lemma in_nobrace : forall s c, nobrace s = true -> In c s -> c <> 123 /\ c <> 125.
Proof. intros s c H Hc. destruct (nobrace_forall s c H Hc). unfold LB, RB in *. lia. Qed.

Lemma dec_pos_chars : forall fuel n acc c,
  (forall d, In d acc -> 48 <= d <= 57) -> In c (dec_pos fuel n acc) -> 48 <= c <= 57.
Proof.
  induction fuel as [|f IH]; cbn [dec_pos]; intros n acc c Hacc Hc; auto.
  assert (Hacc' : forall d, In d ((48 + n mod 10) :: acc) -> 48 <= d <= 57).
  { intros d [<-|Hd]; auto. pose proof (Z.mod_pos_bound n 10 ltac:(lia)). lia. }
  destruct (n / 10 =? 0); eauto.
Qed.

Lemma dec_nobrace : forall z, nobrace (dec z) = true.
Proof.
  intros z. apply nobrace_in. intros c Hc. unfold dec in Hc.
  destruct (z =? 0).
  - destruct Hc as [<-|[]]. lia.
  - destruct (z <? 0).
    + destruct Hc as [<-|Hc]; [lia|]. apply dec_pos_chars in Hc; [lia|]. intros d [].
    + apply dec_pos_chars in Hc; [lia|]. intros d [].
Qed.

Lemma lstrip_in : forall s c, In c (lstrip s) -> In c s.
Proof.
  induction s as [|a s IH]; cbn; intros c H; auto.
  destruct (is_space a); auto.
Qed.

Lemma strip_nobrace : forall s, nobrace s = true -> nobrace (strip s) = true.
Proof.
  intros s H. apply nobrace_in. intros c Hc. apply (in_nobrace s c H).
  unfold strip in Hc. apply in_rev in Hc. apply lstrip_in in Hc. apply in_rev in Hc.
  apply lstrip_in in Hc. exact Hc.
Qed.

Lemma map_nobrace : forall (f : Z -> Z) s,
  (forall c, c <> 123 /\ c <> 125 -> f c <> 123 /\ f c <> 125) ->
  nobrace s = true -> nobrace (map f s) = true.
Proof.
  intros f s Hf H. apply nobrace_in. intros c Hc. apply in_map_iff in Hc.
  destruct Hc as (a & <- & Ha). apply Hf. apply (in_nobrace s a H Ha).
Qed.

Lemma apply_filter_nobrace : forall w v s,
  nobrace (str_value v) = true -> apply_filter w v = inl s -> nobrace s = true.
Proof.
  intros w v s Hv H. unfold apply_filter in H.
  destruct (str_eqb w F_UPPER).
  { inversion H; subst. apply map_nobrace; auto. intros c Hc. unfold up_char.
    destruct ((97 <=? c) && (c <=? 122)) eqn:E; lia. }
  destruct (str_eqb w F_LOWER).
  { inversion H; subst. apply map_nobrace; auto. intros c Hc. unfold low_char.
    destruct ((65 <=? c) && (c <=? 90)) eqn:E; lia. }
  destruct (str_eqb w F_TRIM).
  { inversion H; subst. apply strip_nobrace; auto. }
  destruct (str_eqb w F_LENGTH); [|discriminate].
  destruct v; inversion H; subst; apply dec_nobrace.
Qed.

Lemma is_filter_word : forall w, is_filter w = true -> forallb is_word w = true.
Proof.
  intros w H. unfold is_filter in H. apply existsb_exists in H. destruct H as (f & Hf & E).
  apply str_eqb_eq in E. subst f. unfold FILTERS in Hf.
  repeat (destruct Hf as [<-|Hf]; [reflexivity|]). destruct Hf.
Qed.

(* ------------------------------------------------------------------ *)
(* H. the filtered pass and the include pass on leaves                    *)

Definition filt_ok (c : ctx) (l : leaf) : Prop :=
  match l with
  | LPipe x w => forall v, lookup c x = Some v -> is_filter w = true ->
                           exists s, apply_filter w v = inl s
  | _ => True
  end.

Lemma pass_filtered_leaves : forall c ls, wf_leaves ls -> Forall (filt_ok c) ls ->
  pass_filtered c (print_leaves ls) = inl (print_leaves (map (filt_leaf c) ls)).
Proof.
  intros c ls Hwf Hok. unfold pass_filtered.
  rewrite (scan_leaves_nil (m_filtered idz) act_filt ls no_filtered Hwf agrees_filtered).
  rewrite print_leaves_map. apply subst_err_leaf_toks.
  intros l Hl. rewrite Forall_forall in Hok. specialize (Hok l Hl).
  destruct l as [t|x| |x|x w|x]; try reflexivity.
  cbn [act_filt filt_leaf]. destruct (forallb is_word w); [|reflexivity].
  unfold filt_text. cbn [filt_ok] in Hok. destruct (lookup c x) as [v|]; [|reflexivity].
  destruct (is_filter w); [|reflexivity].
  destruct (Hok v eq_refl eq_refl) as (s & ->). reflexivity.
Qed.

Lemma filt_leaf_wf : forall c l, delimiter_free c = true -> leaf_wf l = true ->
  leaf_wf (filt_leaf c l) = true.
Proof.
  intros c l Hc H. destruct l as [t|x| |x|x w|x]; auto.
  cbn [filt_leaf]. destruct (forallb is_word w); auto.
  unfold filt_text. destruct (lookup c x) as [v|] eqn:E; auto.
  pose proof (lookup_nobrace c x v Hc E).
  destruct (is_filter w); auto.
  destruct (apply_filter w v) eqn:Ea; auto. cbn [leaf_wf]. eapply apply_filter_nobrace; eauto.
Qed.

Lemma def_leaf_wf : forall c l, delimiter_free c = true -> leaf_wf l = true ->
  leaf_wf (def_leaf c l) = true.
Proof.
  intros c l Hc H. destruct l as [t|x| |x|x w|x]; auto.
  cbn [def_leaf]. destruct (is_filter w); auto. cbn [leaf_wf].
  destruct (pipe_wf x w H) as (_ & _ & Hnb & _). apply (repl_nobrace c x w Hc Hnb).
Qed.

Lemma opt_leaf_wf : forall c l, delimiter_free c = true -> leaf_wf l = true ->
  leaf_wf (opt_leaf c l) = true.
Proof.
  intros c l Hc H. destruct l as [t|x| |x|x w|x]; auto.
  cbn [opt_leaf leaf_wf]. destruct (lookup c x) eqn:E; auto. eapply lookup_nobrace; eauto.
Qed.

Lemma map_wf : forall (g : leaf -> leaf) ls,
  (forall l, leaf_wf l = true -> leaf_wf (g l) = true) -> wf_leaves ls -> wf_leaves (map g ls).
Proof.
  intros g ls Hg H. unfold wf_leaves in *. rewrite Forall_forall in *. intros l Hl.
  apply in_map_iff in Hl. destruct Hl as (l0 & <- & Hl0). auto.
Qed.

Definition no_inc (ls : list leaf) : Prop := Forall (fun l => act_inc l = None) ls.

Lemma pass_include_leaves_noinc : forall render ls, wf_leaves ls -> no_inc ls ->
  pass_include render (print_leaves ls) = inl (print_leaves ls).
Proof.
  intros render ls Hwf Hno. unfold pass_include.
  rewrite (scan_leaves_nil (m_include idz) act_inc ls no_include Hwf agrees_include).
  apply subst_err_leaf_toks. intros l Hl. unfold no_inc in Hno. rewrite Forall_forall in Hno.
  rewrite (Hno l Hl). reflexivity.
Qed.

(* ------------------------------------------------------------------ *)
(* I. stage 1: the variables-and-text fragment                           *)

Definition final_leaf (c : ctx) (l : leaf) : leaf :=
  simple_leaf c (opt_leaf c (def_leaf c (filt_leaf c l))).

Lemma sapp_ok : forall a b t m, sapp a b = SOk t m ->
  exists t1 m1 t2 m2, a = SOk t1 m1 /\ b = SOk t2 m2 /\ t = t1 ++ t2 /\ m = m1 ++ m2.
Proof.
  intros [t1 m1|e1] [t2 m2|e2] t m H; cbn in H; try discriminate.
  inversion H; subst. repeat eexists.
Qed.

Lemma leaf_final : forall c inc l t m,
  leaf_wf l = true -> act_inc l = None ->
  render_leaf false c inc None l = SOk t m ->
  filt_ok c l /\ print_leaf (final_leaf c l) = t.
Proof.
  intros c inc l t m Hwf Hni H. unfold final_leaf.
  destruct l as [s|x| |x|x w|x]; cbn [render_leaf] in H; try discriminate.
  - inversion H; subst. split; [exact I|reflexivity].
  - split; [exact I|]. cbn. destruct (lookup c x); inversion H; subst; reflexivity.
  - inversion H; subst. split; [exact I|reflexivity].
  - split; [exact I|]. cbn. destruct (lookup c x); inversion H; subst; reflexivity.
  - cbn [filt_ok filt_leaf]. unfold filt_text.
    destruct (is_filter w) eqn:F.
    + rewrite (is_filter_word w F).
      destruct (lookup c x) as [v|] eqn:L.
      * destruct (apply_filter w v) as [s|e] eqn:A; inversion H; subst.
        split. { intros v' Hv' _. inversion Hv'; subst. eauto. }
        reflexivity.
      * inversion H; subst. split. { intros v' Hv'. discriminate. }
        cbn [def_leaf]. rewrite F. reflexivity.
    + split. { intros v' _ Hf. discriminate. }
      destruct (forallb is_word w).
      * destruct (lookup c x) as [v|] eqn:L; inversion H; subst.
        -- reflexivity.
        -- cbn [def_leaf]. rewrite F. unfold repl. rewrite L. reflexivity.
      * cbn [def_leaf]. rewrite F. destruct (lookup c x) as [v|] eqn:L; inversion H; subst; reflexivity.
Qed.

Lemma leaves_final : forall c inc ls t m,
  wf_leaves ls -> no_inc ls ->
  render_leaves false c inc None ls = SOk t m ->
  Forall (filt_ok c) ls /\ print_leaves (map (final_leaf c) ls) = t.
Proof.
  intros c inc ls. induction ls as [|l ls IH]; intros t m Hwf Hni H.
  - cbn in H. inversion H; subst. split; [constructor|reflexivity].
  - inversion Hwf; subst. inversion Hni; subst.
    unfold render_leaves in H. cbn [map sconcat fold_right] in H.
    apply sapp_ok in H. destruct H as (t1 & m1 & t2 & m2 & R1 & R2 & -> & ->).
    destruct (leaf_final c inc l t1 m1) as [Hok E1]; auto.
    destruct (IH t2 m2) as [Hoks E2]; auto.
    split; [constructor; auto|].
    unfold print_leaves in *. cbn [map flat_map]. rewrite E1, E2. reflexivity.
Qed.

Lemma translate_vars : forall fuel T c ls,
  delimiter_free c = true -> wf_leaves ls -> no_inc ls -> Forall (filt_ok c) ls ->
  exists w, translate (S fuel) false T c (print_leaves ls) =
            Ok (print_leaves (map (final_leaf c) ls)) w.
Proof.
  intros fuel T c ls Hc Hwf Hni Hok. cbn [translate].
  rewrite pass_if_leaves, pass_each_leaves by auto.
  rewrite pass_include_leaves_noinc by auto.
  rewrite pass_filtered_leaves by auto.
  assert (W1 : wf_leaves (map (filt_leaf c) ls)) by (apply map_wf; auto using filt_leaf_wf).
  rewrite pass_default_leaves by auto.
  assert (W2 : wf_leaves (map (def_leaf c) (map (filt_leaf c) ls))) by (apply map_wf; auto using def_leaf_wf).
  rewrite pass_optional_leaves by auto.
  assert (W3 : wf_leaves (map (opt_leaf c) (map (def_leaf c) (map (filt_leaf c) ls))))
    by (apply map_wf; auto using opt_leaf_wf).
  rewrite pass_simple_leaves by auto.
  rewrite !map_map. eexists. reflexivity.
Qed.

Definition leaves_of (t : template) : option (list leaf) :=
  fold_right (fun n acc => match n, acc with NLeaf l, Some ls => Some (l :: ls) | _, _ => None end)
             (Some []) t.

(* the variables-and-text fragment: leaves only, no includes *)
Definition vars_only (t : template) : bool :=
  forallb (fun n => match n with
                    | NLeaf (LInc _) => false
                    | NLeaf _ => true
                    | _ => false
                    end) t.

Lemma vars_only_leaves : forall t, vars_only t = true -> well_formed t = true ->
  exists ls, t = map NLeaf ls /\ wf_leaves ls /\ no_inc ls.
Proof.
  induction t as [|n t IH]; intros Hv Hw.
  - exists []. repeat split; constructor.
  - cbn in Hv, Hw. apply andb_prop in Hv. destruct Hv as [Hn Hv].
    apply andb_prop in Hw. destruct Hw as [Hwn Hw].
    destruct (IH Hv Hw) as (ls & -> & Hwf & Hni).
    destruct n as [l| |]; try discriminate.
    exists (l :: ls). split; [reflexivity|]. split; constructor; auto.
    destruct l; try reflexivity. discriminate.
Qed.

Lemma print_map_leaf : forall ls, print (map NLeaf ls) = print_leaves ls.
Proof. intros. unfold print, print_leaves. rewrite flat_map_concat_map, map_map, <- flat_map_concat_map. reflexivity. Qed.

Lemma render_nodes_leaves : forall strict c inc ls,
  render_nodes strict c inc (map NLeaf ls) = render_leaves strict c inc None ls.
Proof. intros. unfold render_nodes, render_leaves. rewrite map_map. reflexivity. Qed.

Theorem render_eq_vars_proof : forall T c t txt miss,
  delimiter_free c = true -> well_formed t = true -> vars_only t = true ->
  render_spec false T c t = SOk txt miss ->
  exists w, render_impl false (print_templates T) c (print t) = Ok txt w.
Proof.
  intros T c t txt miss Hc Hwf Hv H.
  destruct (vars_only_leaves t Hv Hwf) as (ls & -> & Hls & Hni).
  unfold render_spec in H. cbn [render_tpl] in H. rewrite render_nodes_leaves in H.
  destruct (leaves_final c _ ls txt miss Hls Hni H) as [Hok <-].
  unfold render_impl. rewrite print_map_leaf. apply translate_vars; auto.
Qed.

(* ------------------------------------------------------------------ *)
(* J. blocks.  The block delimiters are read as pseudo-leaves so that the print of a
      node is the print of a list of shaped leaves.                                  *)

Definition P_IF (ws c : str) : leaf := LVar ([35; 105; 102] ++ ws ++ c).
Definition P_ELSE : leaf := LVar [35; 101; 108; 115; 101].
Definition P_ENDIF : leaf := LVar [47; 105; 102].
Definition P_EACH (ws x : str) : leaf := LVar ([35; 101; 97; 99; 104] ++ ws ++ x).
Definition P_ENDEACH : leaf := LVar [47; 101; 97; 99; 104].

Definition else_leaves (b : option (list leaf)) : list leaf :=
  match b with Some b' => P_ELSE :: b' | None => [] end.
Definition node_leaves (n : node) : list leaf :=
  match n with
  | NLeaf l => [l]
  | NIf ws c a b => P_IF ws c :: a ++ else_leaves b ++ [P_ENDIF]
  | NEach ws x body => P_EACH ws x :: body ++ [P_ENDEACH]
  end.

Lemma print_leaves_app : forall a b, print_leaves (a ++ b) = print_leaves a ++ print_leaves b.
Proof. intros. unfold print_leaves. apply flat_map_app. Qed.

Lemma print_leaves_cons1 : forall l ls, print_leaves (l :: ls) = print_leaf l ++ print_leaves ls.
Proof. reflexivity. Qed.
Lemma print_leaves_nil : print_leaves [] = [].
Proof. reflexivity. Qed.

Lemma print_node_leaves : forall n, print_node n = print_leaves (node_leaves n).
Proof.
  intros [l|ws c a b|ws x body]; cbn [node_leaves print_node].
  - rewrite print_leaves_cons1, print_leaves_nil, app_nil_r. reflexivity.
  - rewrite print_leaves_cons1, !print_leaves_app, print_leaves_cons1, print_leaves_nil.
    destruct b as [b'|]; cbn [else_leaves]; [rewrite print_leaves_cons1|rewrite print_leaves_nil];
      unfold P_IF, P_ELSE, P_ENDIF, print_leaf, K_IF, K_OPEN, K_CLOSE, K_ELSE, K_ENDIF;
      cbn [app]; repeat rewrite <- app_assoc; cbn [app]; reflexivity.
  - rewrite print_leaves_cons1, !print_leaves_app, print_leaves_cons1, print_leaves_nil.
    unfold P_EACH, P_ENDEACH, print_leaf, K_EACH, K_OPEN, K_CLOSE, K_ENDEACH.
    cbn [app]. repeat rewrite <- app_assoc. cbn [app]. reflexivity.
Qed.

Lemma spaces_forall : forall ws, spaces ws = true -> forallb is_space ws = true /\ nonempty ws = true.
Proof. unfold spaces. intros ws H. apply andb_prop in H. tauto. Qed.

Lemma is_space_facts : forall c, is_space c = true -> c <> 123 /\ c <> 125 /\ is_word c = false.
Proof. unfold is_space, is_word. intros. lia. Qed.

Lemma forall_nolb : forall (f : Z -> bool) s,
  (forall c, f c = true -> c <> 123) -> forallb f s = true -> nolb s.
Proof.
  intros f s Hf H. apply Forall_forall. intros c Hc. rewrite forallb_forall in H.
  unfold LB. apply Hf. auto.
Qed.
Lemma word_nolb : forall x, forallb is_word x = true -> nolb x.
Proof. intros x Hx. apply (forall_nolb is_word); auto. intros c H. apply is_word_facts in H. lia. Qed.
Lemma spaces_nolb : forall x, forallb is_space x = true -> nolb x.
Proof. intros x Hx. apply (forall_nolb is_space); auto. intros c H. apply is_space_facts in H. lia. Qed.

Lemma shaped_var_like : forall i0 body,
  i0 <> LB -> nolb body -> shaped (LVar (i0 :: body)).
Proof.
  intros. right. split; [discriminate|]. exists i0, body. auto.
Qed.

Lemma shaped_P_IF : forall ws c, spaces ws = true -> word c = true -> shaped (P_IF ws c).
Proof.
  intros ws c Hws Hc. apply shaped_var_like; [unfold LB; lia|].
  destruct (spaces_forall ws Hws). repeat (constructor; [unfold LB; lia|]).
  apply nolb_app; auto using spaces_nolb, word_nolb, word_forall.
Qed.
Lemma shaped_P_EACH : forall ws c, spaces ws = true -> word c = true -> shaped (P_EACH ws c).
Proof.
  intros ws c Hws Hc. apply shaped_var_like; [unfold LB; lia|].
  destruct (spaces_forall ws Hws). repeat (constructor; [unfold LB; lia|]).
  apply nolb_app; auto using spaces_nolb, word_nolb, word_forall.
Qed.
Lemma shaped_P_ELSE : shaped P_ELSE.
Proof. apply shaped_var_like; [unfold LB; lia|]. repeat (constructor; [unfold LB; lia|]). constructor. Qed.
Lemma shaped_P_ENDIF : shaped P_ENDIF.
Proof. apply shaped_var_like; [unfold LB; lia|]. repeat (constructor; [unfold LB; lia|]). constructor. Qed.
Lemma shaped_P_ENDEACH : shaped P_ENDEACH.
Proof. apply shaped_var_like; [unfold LB; lia|]. repeat (constructor; [unfold LB; lia|]). constructor. Qed.

(* a matcher that needs a third code point k0 in {#, /} matches no well-formed leaf *)
Lemma agrees_by_kind : forall M (mt : list Z -> option (M * nat)) k0,
  k0 = 35 \/ k0 = 47 ->
  (forall k t, k <> k0 -> mt (123 :: 123 :: k :: t) = None) ->
  forall l, leaf_wf l = true -> agrees M mt act_none l.
Proof.
  intros M mt k0 Hk Hm l H s. unfold act_none.
  destruct l as [t|x| |x|x w|x]; cbv beta iota; [exact I| | | | | ].
  - destruct (word_cons x H) as (x0 & x' & -> & Hx0 & Hx'). pose proof (is_word_facts x0 Hx0).
    rewrite pr_cons_var. apply Hm. lia.
  - rewrite pr_dot. apply Hm. lia.
  - rewrite pr_opt. apply Hm. lia.
  - destruct (pipe_wf x w H) as (Hx & _).
    destruct (word_cons x Hx) as (x0 & x' & -> & Hx0 & Hx'). pose proof (is_word_facts x0 Hx0).
    rewrite pr_cons_pipe. apply Hm. lia.
  - rewrite pr_inc. apply Hm. lia.
Qed.

(* ---- find_sub ---- *)
Lemma find_sub_eq : forall p s,
  find_sub idz p s =
  match starts idz p s with
  | Some r => Some ([], r)
  | None => match s with
            | a :: s' => match find_sub idz p s' with Some (b, r) => Some (a :: b, r) | None => None end
            | [] => None
            end
  end.
Proof. destruct s; reflexivity. Qed.

Lemma find_sub_here : forall p r, find_sub idz p (p ++ r) = Some ([], r).
Proof. intros. rewrite find_sub_eq, starts_app. reflexivity. Qed.

Lemma find_sub_skip : forall p q s,
  (forall u v, q = u ++ v -> v <> [] -> starts idz p (v ++ s) = None) ->
  find_sub idz p (q ++ s) =
  match find_sub idz p s with Some (b, r) => Some (q ++ b, r) | None => None end.
Proof.
  induction q as [|a q IH]; intros s H.
  - cbn [app]. destruct (find_sub idz p s) as [[b r]|]; reflexivity.
  - cbn [app]. rewrite find_sub_eq.
    pose proof (H [] (a :: q) eq_refl ltac:(discriminate)) as H0. cbn [app] in H0. rewrite H0.
    rewrite IH.
    + destruct (find_sub idz p s) as [[b r]|]; reflexivity.
    + intros u v E Hv. apply (H (a :: u) v); auto. cbn. f_equal. exact E.
Qed.

Lemma scan_lits_nomatch : forall {M} (mt : list Z -> option (M * nat)) q s,
  scan mt O (q ++ s) = map TLit q ++ scan mt O s ->
  forall u v, q = u ++ v -> v <> [] -> mt (v ++ s) = None.
Proof.
  intros M mt q s H u. revert q H. induction u as [|a u IH]; intros q H v E Hv.
  - cbn in E. subst q. destruct v as [|b v]; [congruence|]. cbn [app map scan] in H. cbn [app].
    destruct (mt (b :: v ++ s)) as [[m n]|]; [discriminate|reflexivity].
  - subst q. cbn [app map scan] in H.
    destruct (mt (a :: (u ++ v) ++ s)) as [[m n]|]; [discriminate|].
    inversion H as [H']. eapply IH; eauto.
Qed.

Lemma m_lit_starts : forall p s, p <> [] -> m_lit idz p s = None -> starts idz p s = None.
Proof.
  intros p s Hp H. unfold m_lit in H. destruct p; [congruence|].
  destruct (starts idz (z :: p) s); [discriminate|reflexivity].
Qed.

(* the literal p = {{k0...  does not start anywhere inside the print of leaves that it
   does not match *)
Lemma find_sub_leaves : forall p ls s,
  p <> [] -> needs_open (m_lit idz p) ->
  Forall (fun l => shaped l /\ agrees _ (m_lit idz p) act_none l) ls ->
  find_sub idz p (print_leaves ls ++ s) =
  match find_sub idz p s with Some (b, r) => Some (print_leaves ls ++ b, r) | None => None end.
Proof.
  intros p ls s Hp Ho H. apply find_sub_skip. intros u v E Hv.
  apply m_lit_starts; auto.
  eapply (scan_lits_nomatch (m_lit idz p) (print_leaves ls) s); eauto.
  rewrite (scan_leaves _ (m_lit idz p) act_none Ho ls s H). f_equal.
  clear. induction ls as [|l ls IH]; [reflexivity|].
  cbn [flat_map]. rewrite print_leaves_cons1, map_app, IH. reflexivity.
Qed.

Ltac no_open_lit :=
  unfold needs_open, m_lit; repeat split; intros; unfold LB in *; cbn; unfold idz; zeq; auto.

Lemma no_lit_endif : needs_open (m_lit idz K_ENDIF). Proof. no_open_lit. Qed.
Lemma no_lit_else : needs_open (m_lit idz K_ELSE). Proof. no_open_lit. Qed.
Lemma no_lit_endeach : needs_open (m_lit idz K_ENDEACH). Proof. no_open_lit. Qed.

Lemma lit_endif_kind : forall k t, k <> 47 -> m_lit idz K_ENDIF (123 :: 123 :: k :: t) = None.
Proof. intros. unfold m_lit. cbn. unfold idz. zeq. Qed.
Lemma lit_else_kind : forall k t, k <> 35 -> m_lit idz K_ELSE (123 :: 123 :: k :: t) = None.
Proof. intros. unfold m_lit. cbn. unfold idz. zeq. Qed.
Lemma lit_endeach_kind : forall k t, k <> 47 -> m_lit idz K_ENDEACH (123 :: 123 :: k :: t) = None.
Proof. intros. unfold m_lit. cbn. unfold idz. zeq. Qed.

Definition opt_leaves (b : option (list leaf)) : list leaf := match b with Some b' => b' | None => [] end.
Definition wf_opt (b : option (list leaf)) : Prop := wf_leaves (opt_leaves b).

Lemma wf_shaped_agrees : forall {M} (mt : list Z -> option (M * nat)) ls,
  wf_leaves ls -> (forall l, leaf_wf l = true -> agrees M mt act_none l) ->
  Forall (fun l => shaped l /\ agrees M mt act_none l) ls.
Proof.
  intros M mt ls H Hag. eapply Forall_impl; [|exact H]. cbn. intros l Hl. split; auto using leaf_shape.
Qed.

Lemma agrees_else_under_endif : agrees _ (m_lit idz K_ENDIF) act_none P_ELSE.
Proof. intros s. cbn. reflexivity. Qed.

Lemma find_endif : forall a b s, wf_leaves a -> wf_opt b ->
  find_sub idz K_ENDIF (print_leaves (a ++ else_leaves b) ++ K_ENDIF ++ s) =
  Some (print_leaves (a ++ else_leaves b), s).
Proof.
  intros a b s Ha Hb. rewrite find_sub_leaves.
  - rewrite find_sub_here, app_nil_r. reflexivity.
  - discriminate.
  - exact no_lit_endif.
  - apply Forall_app. split.
    + apply wf_shaped_agrees; auto. apply (agrees_by_kind _ _ 47); auto. apply lit_endif_kind.
    + destruct b as [b'|]; cbn [else_leaves]; [|constructor]. constructor.
      * split. apply shaped_P_ELSE. apply agrees_else_under_endif.
      * apply wf_shaped_agrees; auto. apply (agrees_by_kind _ _ 47); auto. apply lit_endif_kind.
Qed.

Lemma find_else : forall a b, wf_leaves a ->
  find_sub idz K_ELSE (print_leaves (a ++ else_leaves b)) =
  match b with Some b' => Some (print_leaves a, print_leaves b') | None => None end.
Proof.
  intros a b Ha. rewrite print_leaves_app.
  assert (Hag : Forall (fun l => shaped l /\ agrees _ (m_lit idz K_ELSE) act_none l) a).
  { apply wf_shaped_agrees; auto. apply (agrees_by_kind _ _ 35); auto. apply lit_else_kind. }
  rewrite find_sub_leaves; auto using no_lit_else; [|discriminate].
  destruct b as [b'|]; cbn [else_leaves].
  - rewrite print_leaves_cons1.
    change (print_leaf P_ELSE) with K_ELSE. rewrite find_sub_here, app_nil_r. reflexivity.
  - reflexivity.
Qed.

Lemma m_if_shape : forall ws c a b s,
  spaces ws = true -> word c = true -> wf_leaves a -> wf_opt b ->
  m_if idz (K_IF ++ ws ++ c ++ K_CLOSE ++ print_leaves (a ++ else_leaves b) ++ K_ENDIF ++ s) =
  Some ((c, print_leaves a, print_leaves (opt_leaves b)),
        (5 + length ws + length c + 2 + length (print_leaves (a ++ else_leaves b)) + 7)%nat).
Proof.
  intros ws c a b s Hws Hc Ha Hb. unfold m_if. rewrite starts_app.
  destruct (spaces_forall ws Hws) as [Hws1 Hws2].
  destruct (word_cons c Hc) as (c0 & c' & -> & Hc0 & Hc').
  pose proof (is_word_facts c0 Hc0) as F.
  cbn [app]. rewrite (span_app is_space ws c0) by tauto. rewrite Hws2.
  change (c0 :: c' ++ K_CLOSE ++ print_leaves (a ++ else_leaves b) ++ K_ENDIF ++ s)
    with ((c0 :: c') ++ 125 :: 125 :: print_leaves (a ++ else_leaves b) ++ K_ENDIF ++ s).
  rewrite (span_app is_word (c0 :: c') 125) by (auto; cbn; rewrite Hc0, Hc'; reflexivity).
  cbn [nonempty]. cbn [starts K_CLOSE]. unfold idz at 1 2. cbn [Z.eqb Pos.eqb].
  rewrite find_endif by auto. rewrite find_else by auto. rewrite codes_idz.
  destruct b as [b'|]; cbn [else_leaves opt_leaves]; [|rewrite !app_nil_r]; reflexivity.
Qed.

Lemma scan_match' : forall {M} (mt : list Z -> option (M * nat)) (p s : str) m,
  p <> [] -> mt (p ++ s) = Some (m, length p) ->
  scan mt O (p ++ s) = TMatch m p :: scan mt O s.
Proof.
  intros M mt [|a p] s m Hp H; [congruence|]. cbn [app] in *. apply scan_match. exact H.
Qed.

Lemma toks_none : forall {M} ls, flat_map (leaf_toks M act_none) ls = map TLit (print_leaves ls).
Proof.
  intros. induction ls as [|l ls IH]; [reflexivity|].
  cbn [flat_map]. rewrite print_leaves_cons1, map_app, IH. reflexivity.
Qed.

Lemma forallb_wf : forall ls, forallb leaf_wf ls = true -> wf_leaves ls.
Proof. intros ls H. apply Forall_forall. rewrite forallb_forall in H. exact H. Qed.

Lemma node_wf_if : forall ws c a b, node_wf (NIf ws c a b) = true ->
  spaces ws = true /\ word c = true /\ wf_leaves a /\ wf_opt b.
Proof.
  intros ws c a b H. cbn [node_wf] in H.
  apply andb_prop in H. destruct H as [H Hb]. apply andb_prop in H. destruct H as [H Ha].
  apply andb_prop in H. destruct H as [Hws Hc].
  repeat split; auto using forallb_wf.
  unfold wf_opt. destruct b; cbn [opt_leaves]; auto using forallb_wf; constructor.
Qed.

Lemma node_wf_each : forall ws x body, node_wf (NEach ws x body) = true ->
  spaces ws = true /\ word x = true /\ wf_leaves body.
Proof.
  intros ws x body H. cbn [node_wf] in H.
  apply andb_prop in H. destruct H as [H Hb]. apply andb_prop in H. destruct H as [Hws Hx].
  auto using forallb_wf.
Qed.

Lemma pr_if : forall ws c a b s,
  print_node (NIf ws c a b) ++ s =
  K_IF ++ ws ++ c ++ K_CLOSE ++ print_leaves (a ++ else_leaves b) ++ K_ENDIF ++ s.
Proof.
  intros. cbn [print_node]. rewrite print_leaves_app. repeat rewrite <- app_assoc.
  do 5 f_equal. destruct b as [b'|]; cbn [else_leaves].
  - rewrite print_leaves_cons1. change (print_leaf P_ELSE) with K_ELSE.
    repeat rewrite <- app_assoc. reflexivity.
  - reflexivity.
Qed.

Lemma len_if : forall ws c a b,
  length (print_node (NIf ws c a b)) =
  (5 + length ws + length c + 2 + length (print_leaves (a ++ else_leaves b)) + 7)%nat.
Proof.
  intros. pose proof (pr_if ws c a b []) as E. rewrite app_nil_r in E. rewrite E.
  repeat rewrite app_length. cbn [length K_IF K_CLOSE K_ENDIF]. lia.
Qed.

Definition if_toks (n : node) : list (tok Z (str * str * str)) :=
  match n with
  | NIf ws x a b => [TMatch (x, print_leaves a, print_leaves (opt_leaves b)) (print_node n)]
  | _ => map TLit (print_node n)
  end.

Lemma agrees_if_P_EACH : forall ws x, agrees _ (m_if idz) act_none (P_EACH ws x).
Proof. intros ws x s. cbn. reflexivity. Qed.
Lemma agrees_if_P_ENDEACH : agrees _ (m_if idz) act_none P_ENDEACH.
Proof. intros s. cbn. reflexivity. Qed.

Lemma scan_if_nodes : forall t s, well_formed t = true ->
  scan (m_if idz) O (print t ++ s) = flat_map if_toks t ++ scan (m_if idz) O s.
Proof.
  induction t as [|n t IH]; intros s Hwf; [reflexivity|].
  cbn [well_formed forallb] in Hwf. apply andb_prop in Hwf. destruct Hwf as [Hn Ht].
  unfold print. cbn [flat_map]. fold (print t). rewrite <- !app_assoc. rewrite <- (IH s Ht).
  set (rest := print t ++ s).
  destruct n as [l|ws c a b|ws x body]; cbn [if_toks].
  - cbn [node_wf] in Hn.
    pose proof (scan_leaves _ (m_if idz) act_none no_if [l] rest) as E.
    rewrite print_leaves_cons1, print_leaves_nil, app_nil_r in E. cbn [print_node].
    rewrite E.
    + rewrite toks_none. rewrite print_leaves_cons1, print_leaves_nil, app_nil_r. reflexivity.
    + constructor; [|constructor]. split; auto using leaf_shape, agrees_if.
  - destruct (node_wf_if ws c a b Hn) as (Hws & Hc & Ha & Hb).
    cbn [app]. apply scan_match'.
    + cbn. discriminate.
    + rewrite pr_if, len_if. apply m_if_shape; auto.
  - destruct (node_wf_each ws x body Hn) as (Hws & Hx & Hbody).
    rewrite print_node_leaves.
    rewrite (scan_leaves _ (m_if idz) act_none no_if (node_leaves (NEach ws x body)) rest).
    + rewrite toks_none. reflexivity.
    + cbn [node_leaves]. constructor.
      * split. apply shaped_P_EACH; auto. apply agrees_if_P_EACH.
      * apply Forall_app. split.
        -- apply wf_shaped_agrees; auto using agrees_if.
        -- constructor; [|constructor]. split. apply shaped_P_ENDEACH. apply agrees_if_P_ENDEACH.
Qed.

Definition if_branch (c : ctx) (x : str) (a : list leaf) (b : option (list leaf)) : list leaf :=
  match lookup c x with
  | Some v => if truthy v then a else opt_leaves b
  | None => opt_leaves b
  end.
Definition if_node (c : ctx) (n : node) : list node :=
  match n with NIf _ x a b => map NLeaf (if_branch c x a b) | _ => [n] end.
Definition if_nodes (c : ctx) (t : template) : template := flat_map (if_node c) t.

Lemma print_app : forall a b, print (a ++ b) = print a ++ print b.
Proof. intros. unfold print. apply flat_map_app. Qed.

Lemma pass_if_nodes : forall c t, well_formed t = true ->
  pass_if c (print t) = print (if_nodes c t).
Proof.
  intros c t Hwf. unfold pass_if.
  pose proof (scan_if_nodes t [] Hwf) as E. rewrite app_nil_r in E. cbn [scan] in E.
  rewrite app_nil_r in E. rewrite E. clear E Hwf.
  induction t as [|n t IH]; [reflexivity|].
  cbn [flat_map]. rewrite subst_app, IH. unfold if_nodes. cbn [flat_map].
  rewrite print_app. f_equal.
  destruct n as [l|ws x a b|ws x body]; cbn [if_toks if_node].
  - rewrite subst_lits. unfold print. cbn. rewrite app_nil_r. reflexivity.
  - unfold subst. cbn [flat_map]. rewrite app_nil_r. rewrite print_map_leaf.
    unfold if_branch. destruct (lookup c x) as [v|]; [destruct (truthy v)|]; reflexivity.
  - rewrite subst_lits. unfold print. cbn [flat_map]. rewrite app_nil_r. reflexivity.
Qed.

(* ------------------------------------------------------------------ *)
(* K. loop bodies: sequential str.replace over the loop-context keys      *)

Definition act_key (k : str) (l : leaf) : option unit :=
  match l with
  | LVar x => if str_eqb k x then Some tt else None
  | LDot => if str_eqb k K_DOT then Some tt else None
  | _ => None
  end.

Lemma key_pattern_var : forall k, key_pattern k = print_leaf (LVar k).
Proof. reflexivity. Qed.

Lemma key_ok_cases : forall k, key_ok k = true -> word k = true \/ k = K_DOT.
Proof.
  unfold key_ok. intros k H. apply orb_prop in H. destruct H as [H|H]; auto.
  right. apply str_eqb_eq. exact H.
Qed.

Lemma key_no125 : forall k, key_ok k = true -> ~ In 125 k.
Proof.
  intros k H. destruct (key_ok_cases k H) as [Hw| ->].
  - apply word_not_in; auto using word_forall.
  - cbn. intros [E|[]]. lia.
Qed.

Lemma no_lit_key : forall k, key_ok k = true -> needs_open (m_lit idz (key_pattern k)).
Proof.
  intros k H. destruct (key_ok_cases k H) as [Hw| ->].
  - destruct (word_cons k Hw) as (k0 & k' & -> & _ & _).
    unfold key_pattern, K_OPEN. cbn [app]. no_open_lit.
  - no_open_lit.
Qed.

Lemma prefix_key : forall l k s r,
  leaf_wf l = true -> key_ok k = true -> is_text l = false ->
  print_leaf l ++ s = key_pattern k ++ r -> inner l = k.
Proof.
  intros l k s r Hl Hk Ht E.
  rewrite (pr_inner l s Ht) in E. rewrite key_pattern_var in E.
  rewrite (pr_inner (LVar k) r eq_refl) in E. cbn [inner] in E.
  assert (E' : inner l ++ 125 :: 125 :: s = k ++ 125 :: 125 :: r) by congruence.
  destruct (split_at 125 (inner l) k _ _ E') as [E1 _]; auto using inner_norb, key_no125.
Qed.

Lemma agrees_key : forall k l, key_ok k = true -> leaf_wf l = true ->
  agrees _ (m_lit idz (key_pattern k)) (act_key k) l.
Proof.
  intros k l Hk Hl s.
  assert (Hne : key_pattern k <> []) by (unfold key_pattern, K_OPEN; discriminate).
  destruct (act_key k l) eqn:Ea.
  - assert (E : print_leaf l = key_pattern k).
    { destruct l as [t|x| |x|x w|x]; cbn [act_key] in Ea; try discriminate.
      - destruct (str_eqb k x) eqn:E; [|discriminate]. apply str_eqb_eq in E. subst. reflexivity.
      - destruct (str_eqb k K_DOT) eqn:E; [|discriminate]. apply str_eqb_eq in E. subst. reflexivity. }
    rewrite E. split; auto. unfold m_lit. destruct (key_pattern k) eqn:Ek; [congruence|].
    rewrite <- Ek. rewrite starts_app. destruct u. reflexivity.
  - destruct (is_text l) eqn:Ht; [destruct l; try discriminate; exact I|].
    assert (G : m_lit idz (key_pattern k) (print_leaf l ++ s) = None).
    { unfold m_lit. destruct (key_pattern k) eqn:Ek; [reflexivity|]. rewrite <- Ek.
      destruct (starts idz (key_pattern k) (print_leaf l ++ s)) as [r|] eqn:Es; [exfalso|reflexivity].
      apply starts_prefix in Es. apply prefix_key in Es; auto.
      destruct (key_ok_cases k Hk) as [Hw| ->].
      - destruct (word_cons k Hw) as (k0 & k' & Ek' & Hk0 & Hk'). pose proof (is_word_facts k0 Hk0).
        assert (H124 : ~ In 124 k) by (apply word_not_in; auto using word_forall).
        destruct l as [t|x| |x|x w|x]; cbn [inner act_key] in *; try discriminate.
        + subst x. rewrite str_eqb_refl in Ea. discriminate.
        + rewrite Ek' in Es. inversion Es. lia.
        + rewrite Ek' in Es. inversion Es. lia.
        + apply H124. rewrite <- Es. apply in_or_app. right. left. reflexivity.
        + rewrite Ek' in Es. inversion Es. lia.
      - destruct l as [t|x| |x|x w|x]; cbn [inner act_key] in *; try discriminate;
          try (cbn in Ea; discriminate).
        + subst x. rewrite str_eqb_refl in Ea. discriminate.
        + destruct x as [|x0 [|x1 x']]; cbn in Es; discriminate. }
    destruct l; try discriminate; exact G.
Qed.

Definition loop_step (kv : str * str) (l : leaf) : leaf :=
  match act_key (fst kv) l with Some _ => LText (snd kv) | None => l end.

Definition loop_leaf (lc : list (str * str)) (l : leaf) : leaf :=
  match l with
  | LVar x => match lookup lc x with Some v => LText v | None => l end
  | LDot => match lookup lc K_DOT with Some v => LText v | None => l end
  | _ => l
  end.

Definition lc_ok (lc : list (str * str)) : Prop :=
  Forall (fun kv => nobrace (snd kv) = true /\ key_ok (fst kv) = true) lc.

Lemma replace_key_leaves : forall cur k v,
  wf_leaves cur -> key_ok k = true ->
  replace_all idz (print_leaves cur) (key_pattern k) v =
  print_leaves (map (loop_step (k, v)) cur).
Proof.
  intros cur k v Hcur Hk. unfold replace_all.
  rewrite (scan_leaves_nil (m_lit idz (key_pattern k)) (act_key k) cur (no_lit_key k Hk) Hcur
             (fun l => agrees_key k l Hk)).
  rewrite subst_leaf_toks, print_leaves_map. apply flat_map_ext.
  intros l. unfold loop_step. cbn [fst snd]. destruct (act_key k l); reflexivity.
Qed.

Lemma loop_step_wf : forall kv l, nobrace (snd kv) = true -> leaf_wf l = true ->
  leaf_wf (loop_step kv l) = true.
Proof. intros kv l Hv Hl. unfold loop_step. destruct (act_key (fst kv) l); auto. Qed.

Lemma loop_part_leaves : forall lc body, lc_ok lc -> wf_leaves body ->
  loop_part (print_leaves body) lc =
  print_leaves (map (fun l => fold_left (fun l' kv => loop_step kv l') lc l) body).
Proof.
  unfold loop_part. induction lc as [|[k v] lc IH]; intros body Hlc Hb.
  - cbn. rewrite map_id. reflexivity.
  - inversion Hlc as [|? ? [Hv Hk] Hlc']; subst. cbn [fst snd] in *.
    cbn [fold_left fst snd]. rewrite replace_key_leaves by auto.
    rewrite IH; auto.
    + rewrite map_map. reflexivity.
    + apply map_wf; auto. intros l Hl. apply loop_step_wf; auto.
Qed.

Lemma fold_loop_step_text : forall lc t,
  fold_left (fun l' kv => loop_step kv l') lc (LText t) = LText t.
Proof. induction lc as [|kv lc IH]; intros; cbn; auto. Qed.

Lemma fold_loop_step : forall lc l,
  fold_left (fun l' kv => loop_step kv l') lc l = loop_leaf lc l.
Proof.
  induction lc as [|[k v] lc IH]; intros l.
  - destruct l; reflexivity.
  - cbn [fold_left]. unfold loop_step at 2. cbn [fst snd].
    destruct l as [t|x| |x|x w|x]; cbn [act_key loop_leaf lookup]; try apply IH.
    + destruct (str_eqb k x); [apply fold_loop_step_text|apply IH].
    + destruct (str_eqb k K_DOT); [apply fold_loop_step_text|apply IH].
Qed.

Lemma loop_part_eq : forall lc body, lc_ok lc -> wf_leaves body ->
  loop_part (print_leaves body) lc = print_leaves (map (loop_leaf lc) body).
Proof.
  intros. rewrite loop_part_leaves by auto. f_equal. apply map_ext. apply fold_loop_step.
Qed.

Fixpoint loop_leaves (body : list leaf) (n i : nat) (items : list item) : list leaf :=
  match items with
  | [] => []
  | it :: rest => map (loop_leaf (loop_context i n it)) body ++ loop_leaves body n (S i) rest
  end.

Lemma item_free_ok : forall i n it, item_free i n it = true -> lc_ok (loop_context i n it).
Proof.
  unfold item_free, lc_ok. intros i n it H. apply Forall_forall. intros kv Hkv.
  rewrite forallb_forall in H. specialize (H kv Hkv). apply andb_prop in H. exact H.
Qed.

Lemma loop_items_leaves : forall body n items i,
  wf_leaves body -> items_free n i items = true ->
  loop_items (print_leaves body) n i items = print_leaves (loop_leaves body n i items).
Proof.
  intros body n items. induction items as [|it rest IH]; intros i Hb Hf; [reflexivity|].
  cbn [items_free] in Hf. apply andb_prop in Hf. destruct Hf as [H1 H2].
  cbn [loop_items loop_leaves]. rewrite print_leaves_app.
  rewrite loop_part_eq by auto using item_free_ok. rewrite IH by auto. reflexivity.
Qed.

Lemma loop_leaf_wf : forall lc l, lc_ok lc -> leaf_wf l = true -> leaf_wf (loop_leaf lc l) = true.
Proof.
  intros lc l Hlc Hl.
  assert (Hv : forall x v, lookup lc x = Some v -> nobrace v = true).
  { clear l Hl. induction Hlc as [|[k u] lc [Hu _] Hlc IH]; cbn; intros x v H; [discriminate|].
    destruct (str_eqb k x); [inversion H; subst; auto|eauto]. }
  destruct l as [t|x| |x|x w|x]; auto; cbn [loop_leaf].
  - destruct (lookup lc x) eqn:E; auto. cbn. eauto.
  - destruct (lookup lc K_DOT) eqn:E; auto. cbn. eauto.
Qed.

Lemma loop_leaves_wf : forall body n items i,
  wf_leaves body -> items_free n i items = true -> wf_leaves (loop_leaves body n i items).
Proof.
  intros body n items. induction items as [|it rest IH]; intros i Hb Hf; [constructor|].
  cbn [items_free] in Hf. apply andb_prop in Hf. destruct Hf as [H1 H2].
  cbn [loop_leaves]. apply Forall_app. split.
  - apply map_wf; auto. intros l Hl. apply loop_leaf_wf; auto using item_free_ok.
  - apply IH; auto.
Qed.

(* ------------------------------------------------------------------ *)
(* L. the each pass over nodes (after the if pass: no NIf left)           *)

Lemma find_endeach : forall body s, wf_leaves body ->
  find_sub idz K_ENDEACH (print_leaves body ++ K_ENDEACH ++ s) = Some (print_leaves body, s).
Proof.
  intros body s Hb. rewrite find_sub_leaves.
  - rewrite find_sub_here, app_nil_r. reflexivity.
  - discriminate.
  - exact no_lit_endeach.
  - apply wf_shaped_agrees; auto. apply (agrees_by_kind _ _ 47); auto. apply lit_endeach_kind.
Qed.

Lemma m_each_shape : forall ws x body s,
  spaces ws = true -> word x = true -> wf_leaves body ->
  m_each idz (K_EACH ++ ws ++ x ++ K_CLOSE ++ print_leaves body ++ K_ENDEACH ++ s) =
  Some ((x, print_leaves body),
        (7 + length ws + length x + 2 + length (print_leaves body) + 9)%nat).
Proof.
  intros ws x body s Hws Hx Hb. unfold m_each. rewrite starts_app.
  destruct (spaces_forall ws Hws) as [Hws1 Hws2].
  destruct (word_cons x Hx) as (c0 & c' & -> & Hc0 & Hc').
  pose proof (is_word_facts c0 Hc0) as F.
  cbn [app]. rewrite (span_app is_space ws c0) by tauto. rewrite Hws2.
  change (c0 :: c' ++ K_CLOSE ++ print_leaves body ++ K_ENDEACH ++ s)
    with ((c0 :: c') ++ 125 :: 125 :: print_leaves body ++ K_ENDEACH ++ s).
  rewrite (span_app is_word (c0 :: c') 125) by (auto; cbn; rewrite Hc0, Hc'; reflexivity).
  cbn [nonempty]. cbn [starts K_CLOSE]. unfold idz at 1 2. cbn [Z.eqb Pos.eqb].
  rewrite find_endeach by auto. rewrite codes_idz. reflexivity.
Qed.

Lemma pr_each : forall ws x body s,
  print_node (NEach ws x body) ++ s =
  K_EACH ++ ws ++ x ++ K_CLOSE ++ print_leaves body ++ K_ENDEACH ++ s.
Proof. intros. cbn [print_node]. repeat rewrite <- app_assoc. reflexivity. Qed.

Lemma len_each : forall ws x body,
  length (print_node (NEach ws x body)) =
  (7 + length ws + length x + 2 + length (print_leaves body) + 9)%nat.
Proof.
  intros. pose proof (pr_each ws x body []) as E. rewrite app_nil_r in E. rewrite E.
  repeat rewrite app_length. cbn [length K_EACH K_CLOSE K_ENDEACH]. lia.
Qed.

Definition each_toks (n : node) : list (tok Z (str * str)) :=
  match n with
  | NEach ws x body => [TMatch (x, print_leaves body) (print_node n)]
  | _ => map TLit (print_node n)
  end.

Definition if_free (t : template) : Prop :=
  Forall (fun n => match n with NIf _ _ _ _ => False | _ => True end) t.

Lemma scan_each_nodes : forall t s, well_formed t = true -> if_free t ->
  scan (m_each idz) O (print t ++ s) = flat_map each_toks t ++ scan (m_each idz) O s.
Proof.
  induction t as [|n t IH]; intros s Hwf Hni; [reflexivity|].
  cbn [well_formed forallb] in Hwf. apply andb_prop in Hwf. destruct Hwf as [Hn Ht].
  inversion Hni as [|? ? Hn' Hni']; subst.
  unfold print. cbn [flat_map]. fold (print t). rewrite <- !app_assoc. rewrite <- (IH s Ht Hni').
  set (rest := print t ++ s).
  destruct n as [l|ws c a b|ws x body]; cbn [each_toks]; [|destruct Hn'|].
  - cbn [node_wf] in Hn.
    pose proof (scan_leaves _ (m_each idz) act_none no_each [l] rest) as E.
    rewrite print_leaves_cons1, print_leaves_nil, app_nil_r in E. cbn [print_node].
    rewrite E.
    + rewrite toks_none. rewrite print_leaves_cons1, print_leaves_nil, app_nil_r. reflexivity.
    + constructor; [|constructor]. split; auto using leaf_shape, agrees_each.
  - destruct (node_wf_each ws x body Hn) as (Hws & Hx & Hbody).
    cbn [app]. apply scan_match'.
    + cbn. discriminate.
    + rewrite pr_each, len_each. apply m_each_shape; auto.
Qed.

Definition each_node (c : ctx) (n : node) : list node :=
  match n with
  | NEach _ x body =>
      match lookup c x with
      | Some (VList items) => map NLeaf (loop_leaves body (length items) O items)
      | _ => []
      end
  | _ => [n]
  end.
Definition each_nodes (c : ctx) (t : template) : template := flat_map (each_node c) t.

Lemma lookup_items_free : forall c x items, delimiter_free c = true ->
  lookup c x = Some (VList items) -> items_free (length items) O items = true.
Proof.
  intros c x items Hc L. apply lookup_free in L; auto. unfold value_free in L.
  apply andb_prop in L. tauto.
Qed.

Lemma pass_each_nodes : forall c t, delimiter_free c = true -> well_formed t = true -> if_free t ->
  pass_each c (print t) = print (each_nodes c t).
Proof.
  intros c t Hc Hwf Hni. unfold pass_each.
  pose proof (scan_each_nodes t [] Hwf Hni) as E. rewrite app_nil_r in E. cbn [scan] in E.
  rewrite app_nil_r in E. rewrite E. clear E.
  induction t as [|n t IH]; [reflexivity|].
  cbn [well_formed forallb] in Hwf. apply andb_prop in Hwf. destruct Hwf as [Hn Ht].
  inversion Hni as [|? ? Hn' Hni']; subst.
  cbn [flat_map]. rewrite subst_app, IH by auto. unfold each_nodes. cbn [flat_map].
  rewrite print_app. f_equal.
  destruct n as [l|ws x a b|ws x body]; cbn [each_toks each_node].
  - rewrite subst_lits. unfold print. cbn. rewrite app_nil_r. reflexivity.
  - destruct Hn'.
  - destruct (node_wf_each ws x body Hn) as (Hws & Hx & Hbody).
    unfold subst. cbn [flat_map]. rewrite app_nil_r.
    destruct (lookup c x) as [[s0|z|b0|items]|] eqn:L; try reflexivity.
    rewrite print_map_leaf. apply loop_items_leaves; auto.
    eapply lookup_items_free; eauto.
Qed.

(* ------------------------------------------------------------------ *)
(* M. blocks on both sides: after the if and each passes the text is the print of the
      leaves [blocks c t], and the reference renders exactly those leaves            *)

Definition block_leaves (c : ctx) (n : node) : list leaf :=
  match n with
  | NLeaf l => [l]
  | NIf _ x a b => if_branch c x a b
  | NEach _ x body =>
      match lookup c x with
      | Some (VList items) => loop_leaves body (length items) O items
      | _ => []
      end
  end.
Definition blocks (c : ctx) (t : template) : list leaf := flat_map (block_leaves c) t.

Lemma well_formed_leaves : forall ls, wf_leaves ls -> well_formed (map NLeaf ls) = true.
Proof.
  intros ls H. unfold well_formed. apply forallb_forall. intros n Hn.
  apply in_map_iff in Hn. destruct Hn as (l & <- & Hl).
  unfold wf_leaves in H. rewrite Forall_forall in H. cbn. auto.
Qed.

Lemma well_formed_app : forall a b, well_formed (a ++ b) = well_formed a && well_formed b.
Proof. intros. unfold well_formed. apply forallb_app. Qed.

Lemma if_branch_wf : forall c x a b, wf_leaves a -> wf_opt b -> wf_leaves (if_branch c x a b).
Proof.
  intros. unfold if_branch. destruct (lookup c x) as [v|]; [destruct (truthy v)|]; auto.
Qed.

Lemma if_nodes_wf : forall c t, well_formed t = true ->
  well_formed (if_nodes c t) = true /\ if_free (if_nodes c t).
Proof.
  intros c t. induction t as [|n t IH]; intros H.
  - split; [reflexivity|constructor].
  - cbn [well_formed forallb] in H. apply andb_prop in H. destruct H as [Hn Ht].
    destruct (IH Ht) as [IH1 IH2]. unfold if_nodes. cbn [flat_map]. fold (if_nodes c t).
    rewrite well_formed_app. unfold if_free. rewrite Forall_app. fold (if_free (if_nodes c t)).
    destruct n as [l|ws x a b|ws x body]; cbn [if_node].
    + split. { cbn. rewrite IH1. cbn in Hn. rewrite Hn. reflexivity. }
      split; auto; repeat constructor.
    + destruct (node_wf_if ws x a b Hn) as (_ & _ & Ha & Hb).
      split. { rewrite well_formed_leaves by (apply if_branch_wf; auto). auto. }
      split; auto. apply Forall_forall. intros n Hn'. apply in_map_iff in Hn'.
      destruct Hn' as (l & <- & _). exact I.
    + split. { cbn [well_formed forallb]. rewrite Hn. cbn. exact IH1. }
      split; auto; repeat constructor.
Qed.

Lemma each_if_nodes : forall c t, each_nodes c (if_nodes c t) = map NLeaf (blocks c t).
Proof.
  intros c t. unfold each_nodes, if_nodes, blocks. induction t as [|n t IH]; [reflexivity|].
  cbn [flat_map]. rewrite flat_map_app, map_app, IH. f_equal.
  destruct n as [l|ws x a b|ws x body]; cbn [if_node block_leaves].
  - reflexivity.
  - induction (if_branch c x a b) as [|l ls IHl]; [reflexivity|]. cbn. f_equal. exact IHl.
  - cbn. rewrite app_nil_r. destruct (lookup c x) as [[s0|z|b0|items]|]; reflexivity.
Qed.

Lemma blocks_wf : forall c t, delimiter_free c = true -> well_formed t = true -> wf_leaves (blocks c t).
Proof.
  intros c t Hc. induction t as [|n t IH]; intros H; [constructor|].
  cbn [well_formed forallb] in H. apply andb_prop in H. destruct H as [Hn Ht].
  unfold blocks. cbn [flat_map]. apply Forall_app. split; [|apply IH; auto].
  destruct n as [l|ws x a b|ws x body]; cbn [block_leaves].
  - repeat constructor; auto.
  - destruct (node_wf_if ws x a b Hn) as (_ & _ & Ha & Hb). apply if_branch_wf; auto.
  - destruct (node_wf_each ws x body Hn) as (_ & _ & Hbody).
    destruct (lookup c x) as [[s0|z|b0|items]|] eqn:L; try constructor.
    apply loop_leaves_wf; auto. eapply lookup_items_free; eauto.
Qed.

Lemma passes_blocks : forall c t, delimiter_free c = true -> well_formed t = true ->
  pass_each c (pass_if c (print t)) = print_leaves (blocks c t).
Proof.
  intros c t Hc Hwf. rewrite pass_if_nodes by auto.
  destruct (if_nodes_wf c t Hwf) as [H1 H2].
  rewrite pass_each_nodes by auto. rewrite each_if_nodes. apply print_map_leaf.
Qed.

(* the reference side *)
Lemma render_loop_leaf : forall strict c inc lc l,
  render_leaf strict c inc (Some lc) l = render_leaf strict c inc None (loop_leaf lc l).
Proof.
  intros. destruct l as [t|x| |x|x w|x]; try reflexivity; cbn [loop_leaf render_leaf].
  - destruct (lookup lc x); reflexivity.
  - destruct (lookup lc K_DOT); reflexivity.
Qed.

Lemma sconcat_cons : forall x a, sconcat (x :: a) = sapp x (sconcat a).
Proof. reflexivity. Qed.

Lemma sconcat_app : forall a b, sconcat (a ++ b) = sapp (sconcat a) (sconcat b).
Proof.
  induction a as [|x a IH]; intros b; cbn [app].
  - change (sconcat []) with (SOk [] []). destruct (sconcat b); reflexivity.
  - rewrite !sconcat_cons, IH.
    destruct x as [t1 m1|e1]; cbn; auto.
    destruct (sconcat a) as [t2 m2|e2]; cbn; auto.
    destruct (sconcat b) as [t3 m3|e3]; cbn; auto.
    rewrite !app_assoc. reflexivity.
Qed.

Lemma render_leaves_app : forall strict c inc lc a b,
  render_leaves strict c inc lc (a ++ b) =
  sapp (render_leaves strict c inc lc a) (render_leaves strict c inc lc b).
Proof. intros. unfold render_leaves. rewrite map_app. apply sconcat_app. Qed.

Lemma render_items_leaves : forall strict c inc body n items i,
  render_items strict c inc body n i items =
  render_leaves strict c inc None (loop_leaves body n i items).
Proof.
  intros strict c inc body n items. induction items as [|it rest IH]; intros i; [reflexivity|].
  cbn [render_items loop_leaves]. rewrite render_leaves_app, IH. f_equal.
  unfold render_leaves. rewrite map_map. f_equal. apply map_ext. intros l. apply render_loop_leaf.
Qed.

Lemma render_nodes_blocks : forall strict c inc t,
  render_nodes strict c inc t = render_leaves strict c inc None (blocks c t).
Proof.
  intros strict c inc t. unfold render_nodes, blocks. induction t as [|n t IH]; [reflexivity|].
  cbn [map flat_map]. rewrite render_leaves_app, sconcat_cons.
  rewrite IH. f_equal.
  destruct n as [l|ws x a b|ws x body]; cbn [render_node block_leaves].
  - unfold render_leaves. cbn. destruct (render_leaf strict c inc None l); cbn; rewrite ?app_nil_r; reflexivity.
  - unfold if_branch. destruct (lookup c x) as [v|]; [destruct (truthy v)|]; try reflexivity;
      destruct b; reflexivity.
  - destruct (lookup c x) as [[s0|z|b0|items]|]; try reflexivity. apply render_items_leaves.
Qed.

(* ------------------------------------------------------------------ *)
(* N. includes; the full rendering theorem by induction on the include depth *)

(* the leaves a finished rendering consists of: the four variable passes leave them alone *)
Definition stable (c : ctx) (l : leaf) : Prop :=
  leaf_wf l = true /\ act_inc l = None /\ filt_ok c l /\ final_leaf c l = l.

Lemma final_leaf_stable : forall c l, delimiter_free c = true ->
  leaf_wf l = true -> act_inc l = None -> filt_ok c l -> stable c (final_leaf c l).
Proof.
  intros c l Hc Hwf Hni Hok. unfold stable, final_leaf.
  destruct l as [t|x| |x|x w|x]; try discriminate.
  - cbn. auto.
  - cbn [filt_leaf def_leaf opt_leaf simple_leaf].
    destruct (lookup c x) as [v|] eqn:L.
    + cbn. repeat split; auto. eapply lookup_nobrace; eauto.
    + cbn. rewrite L. auto.
  - cbn. auto.
  - cbn [filt_leaf def_leaf opt_leaf simple_leaf].
    repeat split; auto. cbn. destruct (lookup c x) eqn:L; auto. eapply lookup_nobrace; eauto.
  - destruct (pipe_wf x w Hwf) as (Hx & Hne & Hnb & Hm).
    cbn [filt_leaf]. unfold filt_text. cbn [filt_ok] in Hok.
    destruct (forallb is_word w) eqn:Ww.
    + destruct (lookup c x) as [v|] eqn:L.
      * pose proof (lookup_nobrace c x v Hc L) as Hv.
        destruct (is_filter w) eqn:F.
        -- destruct (Hok v eq_refl eq_refl) as (s & A). rewrite A.
           cbn. repeat split; auto. eapply apply_filter_nobrace; eauto.
        -- cbn. repeat split; auto.
      * cbn [def_leaf]. destruct (is_filter w) eqn:F.
        -- cbn [opt_leaf simple_leaf filt_leaf def_leaf]. unfold filt_text. rewrite Ww, L.
           repeat split; auto. intros v Hv. rewrite L in Hv. discriminate.
           cbn [def_leaf]. rewrite F. reflexivity.
        -- cbn. repeat split; auto. rewrite L. exact Hnb.
    + cbn [def_leaf].
      assert (F : is_filter w = false).
      { destruct (is_filter w) eqn:F; auto. apply is_filter_word in F. congruence. }
      rewrite F. cbn. repeat split; auto. apply repl_nobrace; auto.
Qed.

Lemma subst_err_app : forall {M} (f : M -> str -> str + error) (a b : list (tok Z M)),
  subst_err f (a ++ b) =
  match subst_err f a with
  | inl x => match subst_err f b with inl y => inl (x ++ y) | inr e => inr e end
  | inr e => inr e
  end.
Proof.
  intros M f a b. induction a as [|t a IH]; cbn [app subst_err].
  - destruct (subst_err f b); reflexivity.
  - destruct t as [z|m cv].
    + rewrite IH. destruct (subst_err f a); [destruct (subst_err f b)|]; reflexivity.
    + destruct (f m cv); [|reflexivity]. rewrite IH.
      destruct (subst_err f a); [destruct (subst_err f b)|]; try reflexivity.
      rewrite app_assoc. reflexivity.
Qed.

Lemma subst_err_lits_nil : forall {M} (f : M -> str -> str + error) p,
  subst_err f (map TLit p) = inl p.
Proof.
  intros. pose proof (subst_err_lits f p []) as E. rewrite app_nil_r in E. rewrite E.
  cbn. rewrite app_nil_r. reflexivity.
Qed.

Definition include_cb (render : str -> option outcome) (n : str) (_ : str) : str + error :=
  match render n with
  | Some (Ok t _) => inl t
  | Some (Err e) => inr e
  | None => inl (S_UNKNOWN ++ n ++ [93])
  end.

Lemma pass_include_unfold : forall render s,
  pass_include render s = subst_err (include_cb render) (scan (m_include idz) O s).
Proof. reflexivity. Qed.

Section IncludeStep.
  Variable c : ctx.
  Variable inc : str -> sres.
  Variable render : str -> option outcome.
  Hypothesis Hc : delimiter_free c = true.
  Hypothesis Hrel : forall n tn mn, word n = true -> inc n = SOk tn mn ->
    exists Rn, include_cb render n [] = inl (print_leaves Rn) /\
               print_leaves Rn = tn /\ Forall (stable c) Rn.

  Lemma include_leaves : forall L txt miss,
    wf_leaves L -> render_leaves false c inc None L = SOk txt miss ->
    exists L3, subst_err (include_cb render) (flat_map (leaf_toks _ act_inc) L) = inl (print_leaves L3) /\
               wf_leaves L3 /\ no_inc L3 /\ Forall (filt_ok c) L3 /\
               print_leaves (map (final_leaf c) L3) = txt.
  Proof.
    induction L as [|l L IH]; intros txt miss Hwf H.
    - cbn in H. inversion H; subst. exists []. repeat split; constructor.
    - inversion Hwf as [|? ? Hl HL]; subst.
      change (l :: L) with ([l] ++ L) in H. rewrite render_leaves_app in H.
      apply sapp_ok in H. destruct H as (t1 & m1 & t2 & m2 & R1 & R2 & -> & ->).
      destruct (IH t2 m2 HL R2) as (L3 & E3 & W3 & N3 & F3 & P3).
      unfold render_leaves in R1. cbn [map] in R1. rewrite sconcat_cons in R1.
      change (sconcat []) with (SOk [] []) in R1.
      apply sapp_ok in R1. destruct R1 as (t1' & m1' & t0 & m0 & R1 & R0 & -> & ->).
      inversion R0; subst t0 m0. rewrite app_nil_r.
      cbn [flat_map]. rewrite subst_err_app, E3.
      destruct (act_inc l) as [n|] eqn:Ea.
      + destruct l as [t|x| |x|x w|x]; try discriminate. cbn [act_inc] in Ea. inversion Ea; subst x.
        cbn [render_leaf] in R1. cbn [leaf_wf] in Hl.
        destruct (Hrel n t1' m1' Hl R1) as (Rn & Ecb & Pn & Sn).
        exists (Rn ++ L3). unfold leaf_toks. cbn [act_inc]. cbn [subst_err].
        unfold include_cb in *. rewrite Ecb. cbn. rewrite app_nil_r.
        split. { rewrite print_leaves_app. reflexivity. }
        assert (HS : forall P : leaf -> Prop, (forall l, stable c l -> P l) -> Forall P Rn).
        { intros P HP. eapply Forall_impl; [|exact Sn]. exact HP. }
        split. { apply Forall_app. split; auto. apply HS. unfold stable. tauto. }
        split. { apply Forall_app. split; auto. apply HS. unfold stable. tauto. }
        split. { apply Forall_app. split; auto. apply HS. unfold stable. tauto. }
        rewrite map_app, print_leaves_app, P3. f_equal. rewrite <- Pn. f_equal.
        clear - Sn. induction Sn as [|r Rn Hr Sn IHs]; [reflexivity|].
        cbn [map]. destruct Hr as (_ & _ & _ & ->). f_equal. exact IHs.
      + exists (l :: L3). unfold leaf_toks. rewrite Ea.
        rewrite subst_err_lits_nil.
        destruct (leaf_final c inc l t1' m1' Hl Ea R1) as [Hok Pl].
        split. { rewrite print_leaves_cons1. reflexivity. }
        split. { constructor; auto. }
        split. { constructor; auto. }
        split. { constructor; auto. }
        cbn [map]. rewrite print_leaves_cons1, Pl, P3. reflexivity.
  Qed.
End IncludeStep.

Definition templates_wf (T : list (str * template)) : Prop :=
  Forall (fun nt => well_formed (snd nt) = true) T.

Lemma lookup_print_templates : forall T n,
  lookup (print_templates T) n = option_map print (lookup T n).
Proof.
  induction T as [|[k t] T IH]; intros n; [reflexivity|].
  cbn. destruct (str_eqb k n); auto.
Qed.

Lemma lookup_wf : forall T n t, templates_wf T -> lookup T n = Some t -> well_formed t = true.
Proof.
  induction T as [|[k u] T IH]; cbn; intros n t H L; [discriminate|].
  inversion H; subst. destruct (str_eqb k n); [inversion L; subst; auto|eauto].
Qed.

Lemma word_nobrace : forall n, word n = true -> nobrace n = true.
Proof.
  intros n H. apply nobrace_in. intros c Hc. apply word_forall in H.
  rewrite forallb_forall in H. apply H in Hc. apply is_word_facts in Hc. lia.
Qed.

Lemma nobrace_app : forall a b, nobrace a = true -> nobrace b = true -> nobrace (a ++ b) = true.
Proof. intros. unfold nobrace in *. rewrite forallb_app, H, H0. reflexivity. Qed.

Lemma marker_nobrace : forall n, word n = true -> nobrace (unknown_marker n) = true.
Proof.
  intros. unfold unknown_marker. apply nobrace_app; [reflexivity|].
  apply nobrace_app; [apply word_nobrace; auto|reflexivity].
Qed.

Lemma tail_passes : forall c L3 w0 rest,
  delimiter_free c = true -> wf_leaves L3 -> Forall (filt_ok c) L3 ->
  match pass_filtered c (print_leaves L3) with
  | inr e => Err e
  | inl s4 =>
      let s5 := pass_default c s4 in
      let s6 := pass_optional c s5 in
      Ok (pass_simple c s6) (w0 ++ rest s6)
  end = Ok (print_leaves (map (final_leaf c) L3))
           (w0 ++ rest (print_leaves (map (opt_leaf c) (map (def_leaf c) (map (filt_leaf c) L3))))).
Proof.
  intros c L3 w0 rest Hc Hwf Hok.
  rewrite pass_filtered_leaves by auto.
  assert (W1 : wf_leaves (map (filt_leaf c) L3)) by (apply map_wf; auto using filt_leaf_wf).
  cbv zeta. rewrite pass_default_leaves by auto.
  assert (W2 : wf_leaves (map (def_leaf c) (map (filt_leaf c) L3))) by (apply map_wf; auto using def_leaf_wf).
  rewrite pass_optional_leaves by auto.
  assert (W3 : wf_leaves (map (opt_leaf c) (map (def_leaf c) (map (filt_leaf c) L3))))
    by (apply map_wf; auto using opt_leaf_wf).
  rewrite pass_simple_leaves by auto.
  rewrite !map_map. reflexivity.
Qed.

Theorem render_eq_fuel : forall T c,
  delimiter_free c = true -> templates_wf T ->
  forall fuel t txt miss,
    well_formed t = true ->
    render_tpl fuel false T c t = SOk txt miss ->
    exists R w, translate fuel false (print_templates T) c (print t) = Ok (print_leaves R) w /\
                print_leaves R = txt /\ Forall (stable c) R.
Proof.
  intros T c Hc HT. induction fuel as [|f IH]; intros t txt miss Hwf H; [discriminate|].
  cbn [render_tpl] in H. rewrite render_nodes_blocks in H.
  set (incf := fun n => match lookup T n with
                        | Some t' => render_tpl f false T c t'
                        | None => SOk (unknown_marker n) []
                        end) in H.
  set (render := fun n => match lookup (print_templates T) n with
                          | Some sq => Some (translate f false (print_templates T) c sq)
                          | None => None
                          end).
  assert (Hrel : forall n tn mn, word n = true -> incf n = SOk tn mn ->
            exists Rn, include_cb render n [] = inl (print_leaves Rn) /\
                       print_leaves Rn = tn /\ Forall (stable c) Rn).
  { intros n tn mn Hn Hi. unfold incf in Hi. unfold include_cb, render.
    rewrite lookup_print_templates. destruct (lookup T n) as [t'|] eqn:L; cbn [option_map].
    - destruct (IH t' tn mn (lookup_wf T n t' HT L) Hi) as (Rn & w & E & P & S).
      exists Rn. rewrite E. auto.
    - inversion Hi; subst. exists [LText (unknown_marker n)].
      rewrite print_leaves_cons1, print_leaves_nil, app_nil_r. cbn [print_leaf].
      repeat split; auto. constructor; [|constructor].
      unfold stable. cbn. repeat split; auto. apply marker_nobrace; auto. }
  assert (HB : wf_leaves (blocks c t)) by (apply blocks_wf; auto).
  destruct (include_leaves c incf render Hrel (blocks c t) txt miss HB H)
    as (L3 & E3 & W3 & N3 & F3 & P3).
  cbn [translate]. rewrite passes_blocks by auto.
  fold render. rewrite pass_include_unfold.
  rewrite (scan_leaves_nil (m_include idz) act_inc (blocks c t) no_include HB agrees_include).
  rewrite E3.
  match goal with |- context [Ok _ (?w0 ++ ?wf ++ warn_simple c _)] =>
    pose proof (tail_passes c L3 (w0 ++ wf) (fun s6 => warn_simple c s6) Hc W3 F3) as TP end.
  cbv zeta in TP. cbv zeta.
  destruct (pass_filtered c (print_leaves L3)) as [s4|e] eqn:E4.
  - rewrite <- app_assoc in TP. inversion TP as [[TP1 TP2]].
    rewrite TP1. eexists. eexists. split; [reflexivity|]. split; auto.
    clear - Hc W3 N3 F3. induction L3 as [|l L3 IHl]; [constructor|].
    inversion W3; inversion N3; inversion F3; subst. cbn [map]. constructor; auto.
    apply final_leaf_stable; auto.
  - discriminate.
Qed.

Lemma templates_wf_b : forall T, forallb (fun nt => well_formed (snd nt)) T = true -> templates_wf T.
Proof. intros T H. apply Forall_forall. rewrite forallb_forall in H. exact H. Qed.

Theorem render_eq_proof : forall T c t txt miss,
  delimiter_free c = true ->
  forallb (fun nt => well_formed (snd nt)) T = true -> well_formed t = true ->
  render_spec false T c t = SOk txt miss ->
  exists w, render_impl false (print_templates T) c (print t) = Ok txt w.
Proof.
  intros T c t txt miss Hc HT Hwf H. unfold render_spec in H. unfold render_impl.
  assert (E : length (print_templates T) = length T) by (unfold print_templates; apply map_length).
  rewrite E.
  destruct (render_eq_fuel T c Hc (templates_wf_b T HT) (S (length T)) t txt miss Hwf H)
    as (R & w & E1 & E2 & _).
  exists w. rewrite E1, E2. reflexivity.
Qed.

(* ------------------------------------------------------------------ *)
(* O. missing plain variables are reported; unknown includes give the marker *)

Definition act_word (l : leaf) : option str :=
  match l with LVar x => if word x then Some x else None | _ => None end.

Lemma agrees_simple_word : forall l, leaf_wf l = true -> agrees _ (m_simple idz) act_word l.
Proof.
  intros l H s. pose proof (agrees_simple l H s) as A.
  destruct l as [t|x| |x|x w|x]; cbn [act_word act_var] in *; auto.
  cbn [leaf_wf] in H. rewrite H. exact A.
Qed.

Lemma agrees_simple_pseudo : forall k body, is_word k = false ->
  agrees _ (m_simple idz) act_word (LVar (k :: body)).
Proof.
  intros k body Hk s. cbn [act_word]. unfold word. cbn [nonempty forallb]. rewrite Hk. cbn [andb].
  rewrite pr_var. cbn [app]. apply m_simple_kind. exact Hk.
Qed.

Definition all_leaves (t : template) : list leaf := flat_map node_leaves t.

Lemma print_all_leaves : forall t, print t = print_leaves (all_leaves t).
Proof.
  induction t as [|n t IH]; [reflexivity|].
  unfold print, all_leaves. cbn [flat_map]. rewrite print_leaves_app. f_equal.
  - apply print_node_leaves.
  - exact IH.
Qed.

Lemma all_leaves_simple : forall t, well_formed t = true ->
  Forall (fun l => shaped l /\ agrees _ (m_simple idz) act_word l) (all_leaves t).
Proof.
  induction t as [|n t IH]; intros H; [constructor|].
  cbn [well_formed forallb] in H. apply andb_prop in H. destruct H as [Hn Ht].
  unfold all_leaves. cbn [flat_map]. apply Forall_app. split; [|apply IH; auto].
  assert (WL : forall ls, wf_leaves ls ->
           Forall (fun l => shaped l /\ agrees _ (m_simple idz) act_word l) ls).
  { intros ls Hls. eapply Forall_impl; [|exact Hls]. cbn. intros l Hl.
    split; auto using leaf_shape, agrees_simple_word. }
  destruct n as [l|ws x a b|ws x body]; cbn [node_leaves].
  - apply WL. repeat constructor; auto.
  - destruct (node_wf_if ws x a b Hn) as (Hws & Hx & Ha & Hb).
    constructor. { split. apply shaped_P_IF; auto. apply agrees_simple_pseudo. reflexivity. }
    apply Forall_app. split; [apply WL; auto|]. apply Forall_app. split.
    + destruct b as [b'|]; cbn [else_leaves]; [|constructor]. constructor.
      * split. apply shaped_P_ELSE. apply agrees_simple_pseudo. reflexivity.
      * apply WL. exact Hb.
    + constructor; [|constructor]. split. apply shaped_P_ENDIF. apply agrees_simple_pseudo. reflexivity.
  - destruct (node_wf_each ws x body Hn) as (Hws & Hx & Hbody).
    constructor. { split. apply shaped_P_EACH; auto. apply agrees_simple_pseudo. reflexivity. }
    apply Forall_app. split; [apply WL; auto|].
    constructor; [|constructor]. split. apply shaped_P_ENDEACH. apply agrees_simple_pseudo. reflexivity.
Qed.

Lemma map_fst_matches : forall (act : leaf -> option str) ls,
  map fst (flat_map (fun l => match act l with Some m => [(m, print_leaf l)] | None => [] end) ls) =
  flat_map (fun l => match act l with Some x => [x] | None => [] end) ls.
Proof.
  intros. induction ls as [|l ls IH]; [reflexivity|].
  cbn [flat_map]. rewrite map_app, IH. f_equal. destruct (act l); reflexivity.
Qed.

Lemma required_vars_eq : forall t, well_formed t = true ->
  required_vars (print t) =
  flat_map (fun l => match act_word l with Some x => [x] | None => [] end) (all_leaves t).
Proof.
  intros t H. unfold required_vars. rewrite print_all_leaves.
  rewrite (scan_shaped_nil (m_simple idz) act_word (all_leaves t) no_simple (all_leaves_simple t H)).
  rewrite matches_leaf_toks. apply map_fst_matches.
Qed.

(* the plain variables {{x}} written anywhere in a template (block bodies included) *)
Definition leaf_var (l : leaf) : list str := match l with LVar x => [x] | _ => [] end.
Definition node_vars (n : node) : list str :=
  match n with
  | NLeaf l => leaf_var l
  | NIf _ _ a b => flat_map leaf_var a ++ flat_map leaf_var (opt_leaves b)
  | NEach _ _ body => flat_map leaf_var body
  end.
Definition plain_vars (t : template) : list str := flat_map node_vars t.

Lemma wf_var_word : forall ls x, wf_leaves ls -> In x (flat_map leaf_var ls) ->
  In (LVar x) ls /\ word x = true.
Proof.
  intros ls x H Hin. apply in_flat_map in Hin. destruct Hin as (l & Hl & Hx).
  destruct l; cbn in Hx; try tauto. destruct Hx as [<-|[]]. split; auto.
  unfold wf_leaves in H. rewrite Forall_forall in H. apply (H _ Hl).
Qed.

Lemma plain_vars_required : forall t x, well_formed t = true ->
  In x (plain_vars t) -> In x (required_vars (print t)).
Proof.
  intros t x H Hin. rewrite required_vars_eq by auto.
  assert (G : exists l, In l (all_leaves t) /\ act_word l = Some x).
  { unfold plain_vars in Hin. apply in_flat_map in Hin. destruct Hin as (n & Hn & Hx).
    assert (Hnw : node_wf n = true).
    { unfold well_formed in H. rewrite forallb_forall in H. auto. }
    assert (K : forall ls, wf_leaves ls -> In x (flat_map leaf_var ls) ->
                exists l, In l ls /\ act_word l = Some x).
    { intros ls Hls Hi. destruct (wf_var_word ls x Hls Hi) as [Hl Hw].
      exists (LVar x). split; auto. cbn. rewrite Hw. reflexivity. }
    assert (Q : exists l, In l (node_leaves n) /\ act_word l = Some x).
    { destruct n as [l|ws y a b|ws y body]; cbn [node_vars node_leaves] in *.
      - destruct (K [l]) as (l0 & Hl0 & A); [constructor; auto; constructor|cbn; rewrite app_nil_r; auto|].
        eauto.
      - destruct (node_wf_if ws y a b Hnw) as (_ & _ & Ha & Hb).
        apply in_app_or in Hx. destruct Hx as [Hx|Hx].
        + destruct (K a Ha Hx) as (l0 & Hl0 & A). exists l0. split; auto.
          right. apply in_or_app. left. auto.
        + destruct (K _ Hb Hx) as (l0 & Hl0 & A). exists l0. split; auto.
          right. apply in_or_app. right. apply in_or_app. left.
          destruct b; cbn in *; [right; auto|destruct Hl0].
      - destruct (node_wf_each ws y body Hnw) as (_ & _ & Hbody).
        destruct (K body Hbody Hx) as (l0 & Hl0 & A). exists l0. split; auto.
        right. apply in_or_app. left. auto. }
    destruct Q as (l & Hl & A). exists l. split; auto.
    unfold all_leaves. apply in_flat_map. eauto. }
  destruct G as (l & Hl & A). apply in_flat_map. exists l. split; auto. rewrite A. left. reflexivity.
Qed.

Lemma bound_false : forall c x, lookup c x = None -> @bound value c x = false.
Proof. intros. unfold bound. rewrite H. reflexivity. Qed.

Theorem missing_plain_var_warned_proof : forall T c t x,
  well_formed t = true -> In x (plain_vars t) -> lookup c x = None ->
  (forall txt w, render_impl false T c (print t) = Ok txt w -> In (WMissing x) w) /\
  (exists y, render_impl true T c (print t) = Err (EMissing y) /\ lookup c y = None).
Proof.
  intros T c t x Hwf Hin L.
  assert (Hm : In x (missing_vars c (print t))).
  { unfold missing_vars. apply filter_In. split.
    - apply plain_vars_required; auto.
    - rewrite bound_false; auto. }
  split.
  - intros txt w H. unfold render_impl in H. cbn [translate] in H.
    destruct (pass_include _ _) as [s3|e]; [|discriminate].
    destruct (pass_filtered c s3) as [s4|e]; [|discriminate].
    inversion H; subst. apply in_or_app. left. apply in_map. exact Hm.
  - unfold render_impl. cbn [translate].
    destruct (missing_vars c (print t)) as [|y ys] eqn:E; [destruct Hm|].
    exists y. split; auto.
    assert (Hy : In y (missing_vars c (print t))) by (rewrite E; left; auto).
    unfold missing_vars in Hy. apply filter_In in Hy. destruct Hy as [_ Hy].
    unfold bound in Hy. destruct (lookup c y); [discriminate|reflexivity].
Qed.

Lemma text_leaf_passes : forall c m, nobrace m = true ->
  pass_filtered c m = inl m /\ warn_filtered c m = [] /\ pass_default c m = m /\
  pass_optional c m = m /\ pass_simple c m = m /\ warn_simple c m = [].
Proof.
  intros c m Hm.
  assert (E : m = print_leaves [LText m]) by (rewrite print_leaves_cons1, print_leaves_nil, app_nil_r; reflexivity).
  assert (W : wf_leaves [LText m]) by (repeat constructor; auto).
  repeat split.
  - rewrite E at 1. rewrite pass_filtered_leaves; auto; [|repeat constructor].
    cbn [map filt_leaf]. rewrite <- E. reflexivity.
  - unfold warn_filtered. rewrite E.
    rewrite (scan_leaves_nil (m_filtered idz) act_filt _ no_filtered W agrees_filtered).
    rewrite matches_leaf_toks. reflexivity.
  - rewrite pass_default_unfold. rewrite E at 1.
    rewrite (scan_leaves_nil (m_default idz) act_def _ no_default W agrees_default).
    rewrite matches_leaf_toks. reflexivity.
  - rewrite E at 1. rewrite pass_optional_leaves by exact W. cbn [map opt_leaf]. rewrite <- E. reflexivity.
  - rewrite E at 1. rewrite pass_simple_leaves by exact W. cbn [map simple_leaf]. rewrite <- E. reflexivity.
  - unfold warn_simple. rewrite E.
    rewrite (scan_leaves_nil (m_simple idz) act_var _ no_simple W agrees_simple).
    rewrite matches_leaf_toks. reflexivity.
Qed.

Theorem unknown_include_marker_proof : forall strict T c n,
  word n = true -> lookup T n = None ->
  render_impl strict (print_templates T) c (print [NLeaf (LInc n)]) = Ok (unknown_marker n) [].
Proof.
  intros strict T c n Hn L. unfold render_impl. cbn [translate].
  assert (Hwf : well_formed [NLeaf (LInc n)] = true) by (cbn; rewrite Hn; reflexivity).
  assert (Hm : missing_vars c (print [NLeaf (LInc n)]) = []).
  { unfold missing_vars. rewrite required_vars_eq by auto. reflexivity. }
  rewrite Hm. assert (E0 : (if strict then @nil str else []) = []) by (destruct strict; reflexivity).
  rewrite E0.
  change [NLeaf (LInc n)] with (map NLeaf [LInc n]). rewrite print_map_leaf.
  assert (W : wf_leaves [LInc n]) by (repeat constructor; auto).
  rewrite pass_if_leaves, pass_each_leaves by auto.
  rewrite pass_include_unfold.
  rewrite (scan_leaves_nil (m_include idz) act_inc _ no_include W agrees_include).
  cbn [flat_map leaf_toks act_inc app subst_err]. unfold include_cb at 1.
  rewrite lookup_print_templates, L. cbn [option_map]. rewrite app_nil_r.
  fold (unknown_marker n).
  destruct (text_leaf_passes c (unknown_marker n) (marker_nobrace n Hn))
    as (E1 & E2 & E3 & E4 & E5 & E6).
  rewrite E1, E2, E3, E4, E5, E6. reflexivity.
Qed.
