(* C12 — the specification side: template AST of the documented grammar (non-nested
   blocks), its printer, and [render_spec]: ONE left-to-right expansion in which
   bound values, loop items and defaults are emitted verbatim and never looked at
   again.  Executable definitions only.

   Spec decisions (DESIGN.md, C12; checked against the module docstrings):
     text verbatim; {{x}} -> str(v), unbound: left verbatim + reported missing (strict: error);
     {{?x}} -> str(v) or empty; {{x|w}}, w a registered filter -> filter(v), unbound: verbatim;
     {{x|d}} otherwise -> str(v) or d; {{#if c}}A{{#else}}B{{/if}} -> A or B by truthiness
     (unbound: B); {{#each x}}B{{/each}} -> B once per item of a list with {{.}} {{item}}
     {{index}} {{first}} {{last}} and the keys of a dict item bound as PLAIN variables only
     ({{?item}}, {{item|f}} refer to the outer context), non-list / unbound: empty;
     {{>n}} -> the rendering of template n with the same context, or "[Unknown template: n]";
     {{.}} outside a loop stays verbatim. *)
From Coq Require Import ZArith List Bool.
From Verif Require Import C12.Impl.
Import ListNotations.
Open Scope Z_scope.

Inductive leaf :=
| LText (s : str)
| LVar (x : str)          (* {{x}} *)
| LDot                    (* {{.}} *)
| LOpt (x : str)          (* {{?x}} *)
| LPipe (x w : str)       (* {{x|w}} : filter when w is a registered filter name, else default *)
| LInc (n : str).         (* {{>n}} *)

Inductive node :=
| NLeaf (l : leaf)
| NIf (ws c : str) (a : list leaf) (b : option (list leaf))   (* {{#if<ws>c}}a[{{#else}}b]{{/if}} *)
| NEach (ws x : str) (body : list leaf).                       (* {{#each<ws>x}}body{{/each}} *)

Definition template := list node.

Definition print_leaf (l : leaf) : str :=
  match l with
  | LText s => s
  | LVar x => K_OPEN ++ x ++ K_CLOSE
  | LDot => K_OPEN ++ K_DOT ++ K_CLOSE
  | LOpt x => K_OPT ++ x ++ K_CLOSE
  | LPipe x w => K_OPEN ++ x ++ [124] ++ w ++ K_CLOSE
  | LInc n => K_INC ++ n ++ K_CLOSE
  end.
Definition print_leaves (ls : list leaf) : str := flat_map print_leaf ls.
Definition print_node (n : node) : str :=
  match n with
  | NLeaf l => print_leaf l
  | NIf ws c a b =>
      K_IF ++ ws ++ c ++ K_CLOSE ++ print_leaves a ++
      match b with Some b' => K_ELSE ++ print_leaves b' | None => [] end ++ K_ENDIF
  | NEach ws x body => K_EACH ++ ws ++ x ++ K_CLOSE ++ print_leaves body ++ K_ENDEACH
  end.
Definition print (t : template) : str := flat_map print_node t.

(* ------------------------------------------------------------------ *)
(* well-formedness = "generated from the documented grammar"            *)
Definition nobrace (s : str) : bool := forallb (fun c => negb (c =? LB) && negb (c =? RB)) s.
(* free of the two private-use code points the renderer reserves for shielding braces *)
Definition nosent (s : str) : bool := forallb (fun c => negb (c =? SH_OPEN) && negb (c =? SH_CLOSE)) s.
Definition clean (s : str) : bool := nobrace s && nosent s.
Definition word (s : str) : bool := nonempty s && forallb is_word s.
Definition spaces (s : str) : bool := nonempty s && forallb is_space s.

Definition leaf_wf (l : leaf) : bool :=
  match l with
  | LText s => clean s
  | LVar x | LOpt x | LInc x => word x
  | LDot => true
  | LPipe x w => word x && nonempty w && clean w
  end.
Definition node_wf (n : node) : bool :=
  match n with
  | NLeaf l => leaf_wf l
  | NIf ws c a b => spaces ws && word c && forallb leaf_wf a &&
                    match b with Some b' => forallb leaf_wf b' | None => true end
  | NEach ws x body => spaces ws && word x && forallb leaf_wf body
  end.
Definition well_formed (t : template) : bool := forallb node_wf t.

(* admissible context: no substituted string contains the sentinels U+E000 / U+E001 (braces and
   every other code point are allowed); the keys of a dict item are identifiers (or "."), as
   the loop-variable syntax {{key}} presumes *)
Definition key_ok (k : str) : bool := word k || str_eqb k K_DOT.
Definition item_ok (i n : nat) (it : item) : bool :=
  forallb (fun kv => nosent (snd kv) && key_ok (fst kv)) (loop_context i n it).
Fixpoint items_ok (n i : nat) (l : list item) : bool :=
  match l with [] => true | it :: r => item_ok i n it && items_ok n (S i) r end.
(* the pre-rendered json.dumps() text of a float / tuple item *)
Definition item_json_ok (it : item) : bool :=
  match it with IOpaque _ _ j | IDictO _ _ _ j => nosent j | _ => true end.
(* the pre-rendered repr() / json.dumps() texts of an object *)
Definition obj_views_ok (v : value) : bool :=
  match v with
  | VObj _ r j _ _ => nosent r && match j with Some t => nosent t | None => true end
  | _ => true
  end.
Definition value_ok (v : value) : bool :=
  nosent (str_value v) &&
  match seq_of v with Some l => items_ok (length l) O l && forallb item_json_ok l | None => obj_views_ok v end.
Definition ctx_ok (c : ctx) : bool := forallb (fun kv => value_ok (snd kv)) c.

(* ------------------------------------------------------------------ *)
Inductive sres := SOk (text : str) (missing : list str) | SErr (e : error).

Definition sapp (a b : sres) : sres :=
  match a with
  | SErr e => SErr e
  | SOk t1 m1 => match b with SErr e => SErr e | SOk t2 m2 => SOk (t1 ++ t2) (m1 ++ m2) end
  end.
Definition sconcat (l : list sres) : sres := fold_right sapp (SOk [] []) l.

Definition unknown_marker (n : str) : str := S_UNKNOWN ++ n ++ [93].

Section Render.
  Context {F : FTable}.
  Variable strict : bool.
  Variable c : ctx.
  Variable inc : str -> sres.     (* rendering of an included template *)

  Definition render_leaf (lc : option (list (str * str))) (l : leaf) : sres :=
    match l with
    | LText s => SOk s []
    | LDot => match lc with
              | Some d => match lookup d K_DOT with Some s => SOk s [] | None => SOk (print_leaf LDot) [] end
              | None => SOk (print_leaf LDot) []
              end
    | LVar x =>
        match (match lc with Some d => lookup d x | None => None end) with
        | Some s => SOk s []
        | None => match lookup c x with
                  | Some v => SOk (str_value v) []
                  | None => if strict then SErr (EMissing x) else SOk (print_leaf (LVar x)) [x]
                  end
        end
    | LOpt x => match lookup c x with Some v => SOk (str_value v) [] | None => SOk [] [] end
    | LPipe x w =>
        if is_filter w then
          match lookup c x with
          | Some v => match apply_filter w v with inl s => SOk s [] | inr e => SErr e end
          | None => SOk (print_leaf (LPipe x w)) []
          end
        else
          match lookup c x with Some v => SOk (str_value v) [] | None => SOk w [] end
    | LInc n => inc n
    end.

  Definition render_leaves (lc : option (list (str * str))) (ls : list leaf) : sres :=
    sconcat (map (render_leaf lc) ls).

  Fixpoint render_items (body : list leaf) (n i : nat) (items : list item) : sres :=
    match items with
    | [] => SOk [] []
    | it :: rest => sapp (render_leaves (Some (loop_context i n it)) body)
                         (render_items body n (S i) rest)
    end.

  Definition render_node (n : node) : sres :=
    match n with
    | NLeaf l => render_leaf None l
    | NIf _ x a b =>
        let t := match lookup c x with Some v => truthy v | None => false end in
        if t then render_leaves None a
        else match b with Some b' => render_leaves None b' | None => SOk [] [] end
    | NEach _ x body =>
        match lookup_seq c x with
        | Some items => render_items body (length items) O items
        | None => SOk [] []
        end
    end.

  Definition render_nodes (t : template) : sres := sconcat (map render_node t).
End Render.

Fixpoint render_tpl {F : FTable} (fuel : nat) (strict : bool) (T : list (str * template)) (c : ctx) (t : template) : sres :=
  match fuel with
  | O => SErr EFuel
  | S f => render_nodes strict c
             (fun n => match lookup T n with
                       | Some t' => render_tpl f strict T c t'
                       | None => SOk (unknown_marker n) []
                       end) t
  end.

Definition render_spec {F : FTable} (strict : bool) (T : list (str * template)) (c : ctx) (t : template) : sres :=
  render_tpl (S (length T)) strict T c t.

Definition print_templates (T : list (str * template)) : list (str * str) :=
  map (fun nt => (fst nt, print (snd nt))) T.
