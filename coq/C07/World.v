(* C07 — proofs about histories with agents at large (Model.v, Section World): agents whose proteins carry
   a `source_agent` label of their own ([WLabelled]) and agents that raise a BaseException that is not an
   Exception ([WAbort], [WEndAbort]) in a timed history.
     - run() reads the label of a protein nowhere: the events of a history do not depend on the labels,
       and the issuer of every token is the assessor's name in force when the reply was decided;
     - `except Exception` does not catch such an exception: the request is run()'s first half and
       nothing else - no reply, nothing stored, the breaker told nothing;
     - the events of such a history ([unworld]: an exception that left run() is an event without a
       reply) satisfy the cache provenance invariant of Reconf.v, hence every conjunct of the property:
       nothing an agent does besides answering opens the gate, moves a token or feeds the cache. *)
From Coq Require Import ZArith List Bool Lia.
From Verif Require Import Common.Corr C07.Model C07.Proofs C07.Reconf C07.Timed.
Import ListNotations.
Open Scope Z_scope.

Definition tcache (t : tstate) : cache := fst (fst (snd (snd t))).
Definition tpend (t : tstate) : pending := snd (snd (snd t)).
Definition tconf (t : tstate) : Z * (config * bconfig) := (fst t, fst (snd t)).

(* the requests of one operation / of a history *)
Definition wreq_of (o : wop) (q : req) : Prop :=
  match o with
  | WPlain a => treq_in [a] q
  | WLabelled _ _ a => treq_in [a] q
  | WAbort q' _ => q' = q
  | WEndAbort _ _ _ => False
  end.

Definition wreq_in (ops : list wop) (q : req) : Prop := exists o, In o ops /\ wreq_of o q.

Section WorldProofs.
  Variable H : str -> str.
  Variable K : str -> str.

  (* ---- histories without the new operations; the labels ---- *)

  Lemma wtrace_plain_from :
    forall ops t, wtrace_from H K t (map WPlain ops) = map WvOp (ttrace_from H K t ops).
  Proof.
    induction ops as [|o rest IH]; intros t; [reflexivity|].
    cbn [map wtrace_from wstep ttrace_from].
    destruct (tstep H K t o) as [t' e]. cbn [map]. rewrite IH. reflexivity.
  Qed.

  Lemma world_plain_is_timed_proof :
    forall tmo cf bc ops, wtrace H K tmo cf bc (map WPlain ops) = map WvOp (ttrace H K tmo cf bc ops).
  Proof. intros. apply wtrace_plain_from. Qed.

  Lemma wstep_relabel : forall f t o, wstep H K t (relabel f o) = wstep H K t o.
  Proof. intros f t o. destruct o; reflexivity. Qed.

  Lemma wstep_unlabel : forall t o, wstep H K t (unlabel o) = wstep H K t o.
  Proof. intros t o. destruct o; reflexivity. Qed.

  Lemma wtrace_relabel_from :
    forall f ops t, wtrace_from H K t (map (relabel f) ops) = wtrace_from H K t ops.
  Proof.
    intros f. induction ops as [|o rest IH]; intros t; [reflexivity|].
    cbn [map wtrace_from]. rewrite wstep_relabel.
    destruct (wstep H K t o) as [t' e]. rewrite IH. reflexivity.
  Qed.

  Lemma wtrace_unlabel_from :
    forall ops t, wtrace_from H K t (map unlabel ops) = wtrace_from H K t ops.
  Proof.
    induction ops as [|o rest IH]; intros t; [reflexivity|].
    cbn [map wtrace_from]. rewrite wstep_unlabel.
    destruct (wstep H K t o) as [t' e]. rewrite IH. reflexivity.
  Qed.

  Lemma world_labels_inert_proof :
    forall f tmo cf bc ops,
      wtrace H K tmo cf bc (map (relabel f) ops) = wtrace H K tmo cf bc ops /\
      wtrace H K tmo cf bc (map unlabel ops) = wtrace H K tmo cf bc ops.
  Proof. intros. split; [apply wtrace_relabel_from | apply wtrace_unlabel_from]. Qed.

  (* ---- one step of a timed history: the invariant ---- *)

  Lemma tstep_ok :
    forall tr tmo cf bc s pend o t' tmo' e,
      RInv H K tr (fst s) -> tstep H K (tmo, (cf, bc, (s, pend))) o = (t', (tmo', e)) ->
      (forall cfi bci x q rp tl, e = RvOp cfi bci x -> xreply x = Some (q, rp) ->
         rjustified H K (tr ++ e :: tl) (length tr) cfi q rp) /\
      RInv H K (tr ++ [e]) (tcache t').
  Proof.
    intros tr tmo cf bc s pend o t' tmo' e HI Hs.
    destruct o as [[a|st] | q0 d | v]; cbn [tstep rstep] in Hs.
    - destruct (xstep H K cf bc (s, pend) a) as [[s' pend'] e1] eqn:Hx.
      inversion Hs; subst; clear Hs.
      destruct (rxstep_ok H K tr cf bc s pend a s' pend' e1 HI Hx) as [Hj HI'].
      split; [|exact HI'].
      intros cfi bci x q rp tl E Hr. inversion E; subst. apply Hj. exact Hr.
    - destruct (apply_setting st (cf, bc)) as [cf' bc'].
      inversion Hs; subst; clear Hs. split; [intros cfi bci x q rp tl E; discriminate E|].
      apply RInv_app. exact HI.
    - destruct (slow_step H K cf bc (s, pend) q0 d) as [[s' pend'] e1] eqn:Hx.
      inversion Hs; subst; clear Hs.
      destruct (slow_step_ok H K tr cf bc s pend q0 d s' pend' e1 HI Hx) as [Hj HI'].
      split; [|exact HI'].
      intros cfi bci x q rp tl E Hr. inversion E; subst. apply Hj. exact Hr.
    - inversion Hs; subst; clear Hs. split; [intros cfi bci x q rp tl E; discriminate E|].
      apply RInv_app. exact HI.
  Qed.

  (* ---- one step of a history with agents at large ---- *)

  (* a request that is left by an agent's exception: either nobody was asked (the breaker turned it
     away, or the cache served it: the usual reply), or there is NO reply, and then nothing is stored
     (every cache entry was there before), no request in flight is touched and the configuration stays *)
  Lemma abort_leaves_no_reply_proof :
    forall t q who t' e,
      assessor_reached q who = false -> wstep H K t (WAbort q who) = (t', e) ->
      tconf t' = tconf t /\ tpend t' = tpend t /\ (forall x, In x (tcache t') -> In x (tcache t)) /\
      ((exists rp adm, e = WvOp (fst t, RvOp (fst (fst (snd t))) (snd (fst (snd t))) (EvReturned abort_id q rp adm)) /\
                       r_exec_called rp = false /\ r_assess_called rp = false) \/
       (exists n, e = WvPropagated (fst t) (fst (fst (snd t))) (snd (fst (snd t))) who n /\
                  rreply (wrev e) = None /\ n = length (tcache t'))).
  Proof.
    intros [tmo [[cf bc] [[c b] pend]]] q who t' e Ha Hs.
    cbn [wstep] in Hs. rewrite Ha in Hs. unfold abort_step in Hs.
    destruct (enter K cf bc (c, b) (q_prompt q) (q_time q)) as [[c1 b1] r] eqn:Ee.
    destruct (enter_spec _ _ _ _ _ _ _ _ _ _ Ee) as [Hsub _].
    destruct r as [|res|]; inversion Hs; subst; clear Hs; unfold tconf, tpend, tcache; cbn [fst snd].
    - split; [reflexivity|]. split; [reflexivity|]. split; [exact Hsub|].
      left. do 2 eexists. split; [reflexivity|]. split; reflexivity.
    - split; [reflexivity|]. split; [reflexivity|]. split; [exact Hsub|].
      left. do 2 eexists. split; [reflexivity|]. split; reflexivity.
    - split; [reflexivity|]. split; [reflexivity|]. split; [exact Hsub|].
      right. eexists. split; [reflexivity|]. split; reflexivity.
  Qed.

  (* the same for a request in flight: no reply, the loop's cache and breaker are what they were, the
     request is no longer in flight *)
  Lemma end_abort_leaves_no_reply_proof :
    forall t id now who q t' e,
      pending_find id (tpend t) = Some q -> assessor_reached q who = false ->
      wstep H K t (WEndAbort id now who) = (t', e) ->
      tconf t' = tconf t /\ fst (snd (snd t')) = fst (snd (snd t)) /\ tpend t' = pending_remove id (tpend t) /\
      e = WvPropagated (fst t) (fst (fst (snd t))) (snd (fst (snd t))) who (length (tcache t)) /\
      rreply (wrev e) = None.
  Proof.
    intros [tmo [[cf bc] [[c b] pend]]] id now who q t' e Hp Ha Hs.
    unfold tpend in Hp. cbn [fst snd] in Hp.
    cbn [wstep] in Hs. rewrite Hp, Ha in Hs. inversion Hs; subst; clear Hs.
    unfold tconf, tpend, tcache; cbn [fst snd]. auto.
  Qed.

  Lemma wstep_ok :
    forall tr t o t' e,
      RInv H K tr (tcache t) -> wstep H K t o = (t', e) ->
      (forall cfi bci x q rp tl, wrev e = RvOp cfi bci x -> xreply x = Some (q, rp) ->
         rjustified H K (tr ++ wrev e :: tl) (length tr) cfi q rp) /\
      RInv H K (tr ++ [wrev e]) (tcache t').
  Proof.
    intros tr [tmo [[cf bc] [s pend]]] o t' e HI Hs. unfold tcache in HI. cbn [fst snd] in HI.
    assert (Plain : forall a, (let '(t1, e1) := tstep H K (tmo, (cf, bc, (s, pend))) a in (t1, WvOp e1)) = (t', e) ->
      (forall cfi bci x q rp tl, wrev e = RvOp cfi bci x -> xreply x = Some (q, rp) ->
         rjustified H K (tr ++ wrev e :: tl) (length tr) cfi q rp) /\
      RInv H K (tr ++ [wrev e]) (tcache t')).
    { intros a Ht. destruct (tstep H K (tmo, (cf, bc, (s, pend))) a) as [t1 [tmo1 e1]] eqn:Et.
      inversion Ht; subst; clear Ht. cbn [wrev snd].
      exact (tstep_ok tr tmo cf bc s pend a t' tmo1 e1 HI Et). }
    destruct o as [a | sz sy a | q who | id now who]; cbn [wstep] in Hs.
    - apply (Plain a). exact Hs.
    - apply (Plain a). exact Hs.
    - destruct (assessor_reached q who).
      + apply (Plain _ Hs).
      + destruct s as [c b]. unfold abort_step in Hs.
        destruct (enter K cf bc (c, b) (q_prompt q) (q_time q)) as [[c1 b1] r] eqn:Ee.
        destruct (enter_spec _ _ _ _ _ _ _ _ _ _ Ee) as [Hsub Hhit].
        cbn [fst] in HI.
        destruct r as [|res|]; inversion Hs; subst; clear Hs; unfold tcache; cbn [wrev fst snd].
        * split.
          -- intros cfi bci x q' rp tl E Hr. inversion E; subst. cbn in Hr. inversion Hr; subst.
             left. eexists; reflexivity.
          -- apply RInv_app. eapply RInv_sub; eassumption.
        * split.
          -- intros cfi bci x q' rp tl E Hr. inversion E; subst. cbn in Hr. inversion Hr; subst.
             eapply rhit_justified; [exact HI | apply Hhit; reflexivity].
          -- apply RInv_app. eapply RInv_sub; eassumption.
        * split; [intros cfi bci x q' rp tl E; discriminate E|].
          apply RInv_app. eapply RInv_sub; eassumption.
    - destruct (pending_find id pend) as [q|].
      + destruct (assessor_reached q who).
        * apply (Plain _ Hs).
        * inversion Hs; subst; clear Hs. unfold tcache; cbn [wrev fst snd].
          split; [intros cfi bci x q' rp tl E; discriminate E|].
          apply RInv_app. exact HI.
      + apply (Plain _ Hs).
  Qed.

  (* ---- every reply of a history with agents at large ---- *)

  Lemma wtrace_from_justified :
    forall ops tr t, RInv H K tr (tcache t) ->
      forall i cfi bci e q rp,
        nth_error (unworld (wtrace_from H K t ops)) i = Some (RvOp cfi bci e) ->
        xreply e = Some (q, rp) ->
        rjustified H K (tr ++ unworld (wtrace_from H K t ops)) (length tr + i) cfi q rp.
  Proof.
    unfold unworld.
    induction ops as [|o rest IH]; intros tr t HI i cfi bci e q rp Hn Hr.
    - destruct i; discriminate.
    - cbn [wtrace_from] in *.
      destruct (wstep H K t o) as [t' e0] eqn:Hs. cbn [map] in *.
      destruct (wstep_ok tr t o t' e0 HI Hs) as [Hj HI'].
      destruct i as [|i].
      + cbn in Hn. inversion Hn as [E]. rewrite Nat.add_0_r. eapply Hj; [exact E | exact Hr].
      + cbn [nth_error] in Hn.
        pose proof (IH (tr ++ [wrev e0]) t' HI' i cfi bci e q rp Hn Hr) as J.
        rewrite <- app_assoc in J. cbn [app] in J.
        rewrite app_length in J. cbn [length] in J.
        replace (length tr + 1 + i)%nat with (length tr + S i)%nat in J by lia. exact J.
  Qed.

  Lemma world_justified :
    forall tmo0 cf0 bc0 ops i cf bc e q rp,
      nth_error (unworld (wtrace H K tmo0 cf0 bc0 ops)) i = Some (RvOp cf bc e) -> xreply e = Some (q, rp) ->
      rjustified H K (unworld (wtrace H K tmo0 cf0 bc0 ops)) i cf q rp.
  Proof.
    intros tmo0 cf0 bc0 ops i cf bc e q rp Hn Hr.
    exact (wtrace_from_justified ops [] (tmo0, (cf0, bc0, x0)) (fun x (F : In x []) => match F with end)
                                 i cf bc e q rp Hn Hr).
  Qed.

  (* ---- whose request a reply answers ---- *)

  Lemma tstep_origin :
    forall tmo cf bc s pend o t' tmo' e,
      tstep H K (tmo, (cf, bc, (s, pend))) o = (t', (tmo', e)) ->
      (forall cfi bci x q rp, e = RvOp cfi bci x -> xreply x = Some (q, rp) ->
         treq_in [o] q \/ exists id, In (id, q) pend) /\
      (forall id q, In (id, q) (tpend t') -> In (id, q) pend \/ treq_in [o] q).
  Proof.
    intros tmo cf bc s pend o t' tmo' e Hs.
    destruct o as [[a|st] | q0 d | v]; cbn [tstep rstep] in Hs.
    - destruct (xstep H K cf bc (s, pend) a) as [[s' pend'] e1] eqn:Hx.
      inversion Hs; subst; clear Hs. unfold tpend; cbn [fst snd]. split.
      + intros cfi bci x q rp E Hr. inversion E; subst.
        destruct (xstep_origin H K _ _ _ _ _ _ _ _ _ _ Hx Hr) as [-> | [(id & ->) | (id & now & _ & _ & Hin)]].
        * left. left. left. reflexivity.
        * left. right; left. exists id. left. reflexivity.
        * right. exists id. exact Hin.
      + intros id q Hi.
        destruct (xstep_pending H K _ _ _ _ _ _ _ _ _ _ Hx Hi) as [Hp | ->].
        * left. exact Hp.
        * right. right; left. exists id. left. reflexivity.
    - destruct (apply_setting st (cf, bc)) as [cf' bc'].
      inversion Hs; subst; clear Hs. unfold tpend; cbn [fst snd].
      split; [intros cfi bci x q rp E; discriminate E | intros id q Hi; left; exact Hi].
    - destruct (slow_step H K cf bc (s, pend) q0 d) as [[s' pend'] e1] eqn:Hx.
      inversion Hs; subst; clear Hs. unfold tpend; cbn [fst snd].
      destruct (slow_step_shape H K _ _ _ _ _ _ _ _ _ Hx) as [-> (rp0 & Hr0)].
      split.
      + intros cfi bci x q rp E Hr. inversion E; subst. rewrite Hr0 in Hr. inversion Hr; subst.
        left. right; right. exists d. left. reflexivity.
      + intros id q Hi. left. exact Hi.
    - inversion Hs; subst; clear Hs. unfold tpend; cbn [fst snd].
      split; [intros cfi bci x q rp E; discriminate E | intros id q Hi; left; exact Hi].
  Qed.

  Lemma wstep_origin :
    forall t o t' e,
      wstep H K t o = (t', e) ->
      (forall cfi bci x q rp, wrev e = RvOp cfi bci x -> xreply x = Some (q, rp) ->
         wreq_of o q \/ exists id, In (id, q) (tpend t)) /\
      (forall id q, In (id, q) (tpend t') -> In (id, q) (tpend t) \/ wreq_of o q).
  Proof.
    intros [tmo [[cf bc] [s pend]]] o t' e Hs. unfold tpend at 1 3. cbn [fst snd].
    assert (Plain : forall a, (let '(t1, e1) := tstep H K (tmo, (cf, bc, (s, pend))) a in (t1, WvOp e1)) = (t', e) ->
      (forall cfi bci x q rp, wrev e = RvOp cfi bci x -> xreply x = Some (q, rp) ->
         treq_in [a] q \/ exists id, In (id, q) pend) /\
      (forall id q, In (id, q) (tpend t') -> In (id, q) pend \/ treq_in [a] q)).
    { intros a Ht. destruct (tstep H K (tmo, (cf, bc, (s, pend))) a) as [t1 [tmo1 e1]] eqn:Et.
      inversion Ht; subst; clear Ht. cbn [wrev snd].
      exact (tstep_origin tmo cf bc s pend a t' tmo1 e1 Et). }
    destruct o as [a | sz sy a | q who | id now who]; cbn [wstep wreq_of] in *.
    - apply (Plain a). exact Hs.
    - apply (Plain a). exact Hs.
    - destruct (assessor_reached q who).
      + destruct (Plain _ Hs) as [P1 P2]. split.
        * intros cfi bci x q' rp E Hr. destruct (P1 cfi bci x q' rp E Hr) as [[T | [(id & T) | (d & T)]] | P]; [| | |right; exact P].
          -- destruct T as [T | []]. inversion T; subst. left; reflexivity.
          -- destruct T as [T | []]. discriminate T.
          -- destruct T as [T | []]. discriminate T.
        * intros id q' Hi. destruct (P2 id q' Hi) as [P | [T | [(id' & T) | (d & T)]]]; [left; exact P | | |].
          -- destruct T as [T | []]. inversion T; subst. right; reflexivity.
          -- destruct T as [T | []]. discriminate T.
          -- destruct T as [T | []]. discriminate T.
      + unfold abort_step in Hs. destruct (enter K cf bc s (q_prompt q) (q_time q)) as [s1 r].
        destruct r as [|res|]; inversion Hs; subst; clear Hs; unfold tpend; cbn [wrev fst snd].
        * split; [|intros id q' Hi; left; exact Hi].
          intros cfi bci x q' rp E Hr. inversion E; subst. cbn in Hr. inversion Hr; subst. left; reflexivity.
        * split; [|intros id q' Hi; left; exact Hi].
          intros cfi bci x q' rp E Hr. inversion E; subst. cbn in Hr. inversion Hr; subst. left; reflexivity.
        * split; [intros cfi bci x q' rp E; discriminate E | intros id q' Hi; left; exact Hi].
    - assert (EndPlain :
        (let '(t1, e1) := tstep H K (tmo, (cf, bc, (s, pend))) (TPlain (RX (XEnd id now))) in (t1, WvOp e1)) = (t', e) ->
        (forall cfi bci x q rp, wrev e = RvOp cfi bci x -> xreply x = Some (q, rp) -> False \/ exists id, In (id, q) pend) /\
        (forall id q, In (id, q) (tpend t') -> In (id, q) pend \/ False)).
      { intros Ht. destruct (Plain _ Ht) as [P1 P2]. split.
        - intros cfi bci x q rp E Hr. destruct (P1 cfi bci x q rp E Hr) as [[T | [(id' & T) | (d & T)]] | P]; [| | |right; exact P];
            destruct T as [T | []]; discriminate T.
        - intros id' q Hi. destruct (P2 id' q Hi) as [P | [T | [(id'' & T) | (d & T)]]]; [left; exact P | | |];
            destruct T as [T | []]; discriminate T. }
      destruct (pending_find id pend) as [q|].
      + destruct (assessor_reached q who).
        * apply EndPlain. exact Hs.
        * inversion Hs; subst; clear Hs. unfold tpend; cbn [wrev fst snd].
          split; [intros cfi bci x q' rp E; discriminate E|].
          intros id' q' Hi. left. eapply In_pending_remove. exact Hi.
      + apply EndPlain. exact Hs.
  Qed.

  Lemma wtrace_from_req_in :
    forall all ops t,
      (forall o, In o ops -> In o all) ->
      (forall id q, In (id, q) (tpend t) -> wreq_in all q) ->
      forall i cfi bci e q rp,
        nth_error (unworld (wtrace_from H K t ops)) i = Some (RvOp cfi bci e) ->
        xreply e = Some (q, rp) -> wreq_in all q.
  Proof.
    unfold unworld.
    intros all. induction ops as [|o rest IH]; intros t Hsub HP i cfi bci e q rp Hn Hr.
    - destruct i; discriminate.
    - cbn [wtrace_from] in Hn.
      destruct (wstep H K t o) as [t' e0] eqn:Hs. cbn [map] in Hn.
      assert (Hsub' : forall o', In o' rest -> In o' all) by (intros o' Ho; apply Hsub; right; exact Ho).
      assert (Ho : In o all) by (apply Hsub; left; reflexivity).
      destruct (wstep_origin t o t' e0 Hs) as [O1 O2].
      destruct i as [|i].
      + cbn in Hn. inversion Hn as [E].
        destruct (O1 cfi bci e q rp E Hr) as [W | (id & Hin)].
        * exists o. split; [exact Ho | exact W].
        * apply (HP id). exact Hin.
      + cbn [nth_error] in Hn.
        eapply (IH t' Hsub'); [|exact Hn | exact Hr].
        intros id1 q1 Hi. destruct (O2 id1 q1 Hi) as [Hp | W].
        * apply (HP id1). exact Hp.
        * exists o. split; [exact Ho | exact W].
  Qed.

  Lemma world_reply_req_in :
    forall tmo0 cf0 bc0 ops i cf bc e q rp,
      nth_error (unworld (wtrace H K tmo0 cf0 bc0 ops)) i = Some (RvOp cf bc e) -> xreply e = Some (q, rp) ->
      wreq_in ops q.
  Proof.
    intros tmo0 cf0 bc0 ops i cf bc e q rp Hn Hr.
    exact (wtrace_from_req_in ops ops (tmo0, (cf0, bc0, x0)) (fun o Ho => Ho)
             (fun id q (F : In (id, q) []) => match F with end) i cf bc e q rp Hn Hr).
  Qed.

  (* ---- the conjuncts of the property, for histories with agents at large ---- *)

  Definition wK_injective_on (ops : list wop) : Prop :=
    forall a b, wreq_in ops a -> wreq_in ops b -> K (q_prompt a) = K (q_prompt b) -> q_prompt a = q_prompt b.

  Lemma world_pass_only_if_proof :
    forall tmo0 cf0 bc0 ops i cf bc e q rp,
      nth_error (unworld (wtrace H K tmo0 cf0 bc0 ops)) i = Some (RvOp cf bc e) -> xreply e = Some (q, rp) ->
      c_blocked (r_core rp) = false ->
      exists j ej cfj qj rj,
        (j <= i)%nat /\ nth_error (unworld (wtrace H K tmo0 cf0 bc0 ops)) j = Some ej /\
        rreply ej = Some (cfj, qj, rj) /\
        K (q_prompt qj) = K (q_prompt q) /\ r_cached rj = false /\
        (r_cached rp = false -> j = i /\ cfj = cf) /\
        r_core rp = outcome H cfj qj /\
        spec_pass (cf_logic cfj) (q_exec qj) (q_assess qj) = true.
  Proof.
    intros tmo0 cf0 bc0 ops.
    exact (just_pass_only_if H K _ (world_justified tmo0 cf0 bc0 ops)).
  Qed.

  Lemma world_cache_same_verdict_proof :
    forall tmo0 cf0 bc0 ops, wK_injective_on ops ->
    forall i cf bc e q rp,
      nth_error (unworld (wtrace H K tmo0 cf0 bc0 ops)) i = Some (RvOp cf bc e) -> xreply e = Some (q, rp) ->
      r_cached rp = true ->
      exists j ej cfj qj rj tj,
        (j < i)%nat /\ nth_error (unworld (wtrace H K tmo0 cf0 bc0 ops)) j = Some ej /\
        rreply ej = Some (cfj, qj, rj) /\
        rdone_at ej = Some tj /\ q_prompt qj = q_prompt q /\ r_cached rj = false /\
        r_core rp = r_core rj /\ r_core rj = outcome H cfj qj /\
        q_time q - tj < cf_ttl cf /\ cf_cache cf = true /\
        r_exec_called rp = false /\ r_assess_called rp = false.
  Proof.
    intros tmo0 cf0 bc0 ops Hinj.
    exact (just_cache_same_verdict H K _ (wreq_in ops) (world_justified tmo0 cf0 bc0 ops)
                                   (world_reply_req_in tmo0 cf0 bc0 ops) Hinj).
  Qed.

  Lemma world_token_bound_proof :
    forall tmo0 cf0 bc0 ops, wK_injective_on ops ->
    forall i cf bc e q rp t,
      nth_error (unworld (wtrace H K tmo0 cf0 bc0 ops)) i = Some (RvOp cf bc e) -> xreply e = Some (q, rp) ->
      c_token (r_core rp) = Some t ->
      tk_hash t = H (q_prompt q) /\ c_blocked (r_core rp) = false /\
      exists j ej cfj qj rj,
        (j <= i)%nat /\ nth_error (unworld (wtrace H K tmo0 cf0 bc0 ops)) j = Some ej /\
        rreply ej = Some (cfj, qj, rj) /\
        q_prompt qj = q_prompt q /\ r_cached rj = false /\ (r_cached rp = false -> j = i /\ cfj = cf) /\
        q_assess qj = VPermit /\ tk_issuer t = cf_assessor cfj.
  Proof.
    intros tmo0 cf0 bc0 ops Hinj.
    exact (just_token_bound H K _ (wreq_in ops) (world_justified tmo0 cf0 bc0 ops)
                            (world_reply_req_in tmo0 cf0 bc0 ops) Hinj).
  Qed.
End WorldProofs.

(* ---- two objects with agents at large do not influence each other ---- *)

Lemma wloops_isolated_from :
  forall (H K : str -> str) tops t0 t1,
    proj false (wsys_from H K t0 t1 tops) = wtrace_from H K t0 (proj false tops) /\
    proj true (wsys_from H K t0 t1 tops) = wtrace_from H K t1 (proj true tops).
Proof.
  intros H K. induction tops as [|[b o] rest IH]; intros t0 t1; [split; reflexivity|].
  cbn [wsys_from]. destruct b.
  - destruct (wstep H K t1 o) as [t1' e] eqn:Es. destruct (IH t0 t1') as [I0 I1].
    unfold proj in *. cbn [filter fst Bool.eqb map snd wtrace_from]. rewrite Es. split; [exact I0 | f_equal; exact I1].
  - destruct (wstep H K t0 o) as [t0' e] eqn:Es. destruct (IH t0' t1) as [I0 I1].
    unfold proj in *. cbn [filter fst Bool.eqb map snd wtrace_from]. rewrite Es. split; [f_equal; exact I0 | exact I1].
Qed.

Lemma world_loops_isolated_proof :
  forall (H K : str -> str) tmo0 tmo1 cf0 cf1 bc0 bc1 tops,
    proj false (wsys_trace H K tmo0 tmo1 cf0 cf1 bc0 bc1 tops) = wtrace H K tmo0 cf0 bc0 (proj false tops) /\
    proj true (wsys_trace H K tmo0 tmo1 cf0 cf1 bc0 bc1 tops) = wtrace H K tmo1 cf1 bc1 (proj true tops).
Proof. intros. apply wloops_isolated_from. Qed.
