(* C07 — proofs about timed histories (Model.v, Section Timed): requests whose agents need time
   before they answer ([TSlow q d]) and assignments of timeout_seconds ([TSetTimeout v]) in a
   history with reconfiguration.  run() waits for each agent however long it takes and reads
   timeout_seconds nowhere, so
     - a slow request is its first half at the clock value of the call and its second half
       [elapsed q d] later: an overlapping request with nothing in between;
     - the events of a timed history, timeouts left out ([untimed]), satisfy the cache provenance
       invariant of Reconf.v, hence every conjunct of the property - whatever the delays and
       whatever timeout_seconds is or is set to: a verdict that comes late is still the verdict. *)
From Coq Require Import ZArith List Bool Lia.
From Verif Require Import Common.Corr C07.Model C07.Proofs C07.Reconf.
Import ListNotations.
Open Scope Z_scope.

(* the requests of a timed history *)
Definition treq_in (ops : list top) (q : req) : Prop :=
  In (TPlain (RX (XAtomic (OReq q)))) ops \/ (exists id, In (TPlain (RX (XBegin id q))) ops) \/
  exists d, In (TSlow q d) ops.

(* ---------------------------------------------------------------------- *)
(* consequences of [rjustified] for ANY list of events                      *)

Section Justified.
  Variable H : str -> str.
  Variable K : str -> str.
  Variable tr : list rev.
  Variable is_req : req -> Prop.

  Hypothesis Hjust :
    forall i cf bc e q rp, nth_error tr i = Some (RvOp cf bc e) -> xreply e = Some (q, rp) ->
      rjustified H K tr i cf q rp.
  Hypothesis Hreq :
    forall i cf bc e q rp, nth_error tr i = Some (RvOp cf bc e) -> xreply e = Some (q, rp) -> is_req q.

  Lemma just_pass_only_if :
    forall i cf bc e q rp,
      nth_error tr i = Some (RvOp cf bc e) -> xreply e = Some (q, rp) ->
      c_blocked (r_core rp) = false ->
      exists j ej cfj qj rj,
        (j <= i)%nat /\ nth_error tr j = Some ej /\ rreply ej = Some (cfj, qj, rj) /\
        K (q_prompt qj) = K (q_prompt q) /\ r_cached rj = false /\
        (r_cached rp = false -> j = i /\ cfj = cf) /\
        r_core rp = outcome H cfj qj /\
        spec_pass (cf_logic cfj) (q_exec qj) (q_assess qj) = true.
  Proof.
    intros i cf bc e q rp Hn Hr Hb.
    destruct (Hjust i cf bc e q rp Hn Hr)
      as [[n E] | [F | [C (j & ej & cfj & qj & rj & tj & A1 & A2 & A3 & A4 & A5 & A6 & A7 & _)]]].
    - rewrite E in Hb. discriminate Hb.
    - destruct F as (F1 & F2 & _). exists i, (RvOp cf bc e), cf, q, rp.
      split; [lia|]. split; [exact Hn|]. split; [cbn [rreply]; rewrite Hr; reflexivity|].
      split; [reflexivity|]. split; [exact F1|]. split; [intros _; split; reflexivity|]. split; [exact F2|].
      apply pass_iff_proof. rewrite F2 in Hb. exact Hb.
    - destruct A5 as (F1 & F2 & _). exists j, ej, cfj, qj, rj.
      split; [lia|]. split; [exact A2|]. split; [exact A3|]. split; [exact A6|]. split; [exact F1|].
      split; [intros E; congruence|]. split; [congruence|].
      apply pass_iff_proof. rewrite A7, F2 in Hb. exact Hb.
  Qed.

  Hypothesis Hinj :
    forall a b, is_req a -> is_req b -> K (q_prompt a) = K (q_prompt b) -> q_prompt a = q_prompt b.

  Lemma just_cache_same_verdict :
    forall i cf bc e q rp,
      nth_error tr i = Some (RvOp cf bc e) -> xreply e = Some (q, rp) -> r_cached rp = true ->
      exists j ej cfj qj rj tj,
        (j < i)%nat /\ nth_error tr j = Some ej /\ rreply ej = Some (cfj, qj, rj) /\
        rdone_at ej = Some tj /\ q_prompt qj = q_prompt q /\ r_cached rj = false /\
        r_core rp = r_core rj /\ r_core rj = outcome H cfj qj /\
        q_time q - tj < cf_ttl cf /\ cf_cache cf = true /\
        r_exec_called rp = false /\ r_assess_called rp = false.
  Proof.
    intros i cf bc e q rp Hn Hr Hc.
    destruct (Hjust i cf bc e q rp Hn Hr)
      as [[n E] | [F | [_ (j & ej & cfj & qj & rj & tj & A1 & A2 & A3 & A4 & A5 & A6 & A7 & A8 & A9 & A10 & A11 & _)]]].
    - rewrite E in Hc. discriminate Hc.
    - destruct F as (F1 & _). congruence.
    - destruct A5 as (F1 & F2 & _). exists j, ej, cfj, qj, rj, tj.
      split; [exact A1|]. split; [exact A2|]. split; [exact A3|]. split; [exact A4|].
      split.
      { destruct (rreply_inv _ _ _ _ A3) as (bcj & xj & -> & Hx).
        apply Hinj; [exact (Hreq j cfj bcj xj qj rj A2 Hx) | exact (Hreq i cf bc e q rp Hn Hr) | exact A6]. }
      auto 10.
  Qed.

  Lemma just_token_bound :
    forall i cf bc e q rp t,
      nth_error tr i = Some (RvOp cf bc e) -> xreply e = Some (q, rp) ->
      c_token (r_core rp) = Some t ->
      tk_hash t = H (q_prompt q) /\ c_blocked (r_core rp) = false /\
      exists j ej cfj qj rj,
        (j <= i)%nat /\ nth_error tr j = Some ej /\ rreply ej = Some (cfj, qj, rj) /\
        q_prompt qj = q_prompt q /\ r_cached rj = false /\ (r_cached rp = false -> j = i /\ cfj = cf) /\
        q_assess qj = VPermit /\ tk_issuer t = cf_assessor cfj.
  Proof.
    intros i cf bc e q rp t Hn Hr Ht.
    assert (Hb : c_blocked (r_core rp) = false).
    { destruct (Hjust i cf bc e q rp Hn Hr)
        as [[n E] | [F | [_ (j & ej & cfj & qj & rj & tj & _ & _ & _ & _ & A5 & _ & A7 & _)]]].
      - rewrite E in Ht. discriminate Ht.
      - destruct F as (_ & F2 & _). rewrite F2 in Ht |- *.
        destruct (token_iff_proof H cf q) as [T _]. destruct (T t Ht) as (_ & B & _). exact B.
      - destruct A5 as (_ & F2 & _). rewrite A7, F2 in Ht |- *.
        destruct (token_iff_proof H cfj qj) as [T _]. destruct (T t Ht) as (_ & B & _). exact B. }
    destruct (just_pass_only_if i cf bc e q rp Hn Hr Hb)
      as (j & ej & cfj & qj & rj & A1 & A2 & A3 & A4 & A5 & A6 & A7 & _).
    assert (Hp : q_prompt qj = q_prompt q).
    { destruct (rreply_inv _ _ _ _ A3) as (bcj & xj & -> & Hx).
      apply Hinj; [exact (Hreq j cfj bcj xj qj rj A2 Hx) | exact (Hreq i cf bc e q rp Hn Hr) | exact A4]. }
    rewrite A7 in Ht.
    destruct (token_iff_proof H cfj qj) as [T _]. destruct (T t Ht) as (B1 & _ & B3 & B4).
    rewrite <- Hp. split; [exact B3|]. split; [exact Hb|].
    exists j, ej, cfj, qj, rj. auto 10.
  Qed.
End Justified.

Section TimedProofs.
  Variable H : str -> str.
  Variable K : str -> str.

  (* ---- timed histories without slow requests and timeout assignments ---- *)

  Lemma ttrace_plain_from :
    forall ops tmo r,
      ttrace_from H K (tmo, r) (map TPlain ops) = map (pair tmo) (rtrace_from H K r ops).
  Proof.
    induction ops as [|o rest IH]; intros tmo r; [reflexivity|].
    cbn [map ttrace_from tstep rtrace_from].
    destruct (rstep H K r o) as [r' e]. cbn [map]. rewrite IH. reflexivity.
  Qed.

  Lemma timed_plain_is_reconf_proof :
    forall tmo cf bc ops,
      ttrace H K tmo cf bc (map TPlain ops) = map (pair tmo) (rtrace H K cf bc ops).
  Proof. intros. apply ttrace_plain_from. Qed.

  (* ---- timeout_seconds is read by nothing ---- *)

  Lemma timeout_inert_from :
    forall g ops tmo tmo' r,
      untimed (ttrace_from H K (tmo, r) ops) = untimed (ttrace_from H K (tmo', r) (map (retime g) ops)).
  Proof.
    intros g. unfold untimed.
    induction ops as [|o rest IH]; intros tmo tmo' r; [reflexivity|].
    destruct r as [[cf bc] x].
    destruct o as [a | q d | v]; cbn [map retime ttrace_from tstep].
    - destruct (rstep H K (cf, bc, x) a) as [r' e]. cbn [map snd]. f_equal. exact (IH tmo tmo' r').
    - destruct (slow_step H K cf bc x q d) as [x' e].
      cbn [map snd]. f_equal. exact (IH tmo tmo' (cf, bc, x')).
    - cbn [map snd]. f_equal. exact (IH v (g v) (cf, bc, x)).
  Qed.

  Lemma timeout_inert_proof :
    forall g tmo tmo' cf bc ops,
      untimed (ttrace H K tmo cf bc ops) = untimed (ttrace H K tmo' cf bc (map (retime g) ops)).
  Proof. intros. apply timeout_inert_from. Qed.

  (* ---- one slow request ---- *)

  (* agents that answer at once: the request in one go of the earlier layers *)
  Lemma slow_instant_proof :
    forall cf bc s pend q d, elapsed q d = 0 ->
      slow_step H K cf bc (s, pend) q d =
      let '(s', rp, adm) := bstep H K cf bc s q in
      ((s', pend), if r_exec_called rp then EvCompleted slow_id q (q_time q) rp else EvReturned slow_id q rp adm).
  Proof.
    intros cf bc s pend q d He. rewrite bstep_split. unfold slow_step. rewrite He, Z.add_0_r.
    destruct (enter K cf bc s (q_prompt q) (q_time q)) as [s1 r].
    destruct r as [|res|]; [reflexivity | reflexivity |].
    destruct (leave H K cf bc s1 q (q_time q)) as [s2 rp] eqn:El.
    assert (Hx : r_exec_called rp = true).
    { destruct s1 as [c1 b1]. unfold leave in El. inversion El; subst. reflexivity. }
    rewrite Hx. reflexivity.
  Qed.

  (* any delays: the two halves of an overlapping request, nothing in between, the second half
     [elapsed q d] after the first *)
  Lemma slow_is_begin_end_proof :
    forall cf bc s pend q d x' e,
      pending_find slow_id pend = None ->
      slow_step H K cf bc (s, pend) q d = (x', e) ->
      exists x1 e1 e2,
        xstep H K cf bc (s, pend) (XBegin slow_id q) = (x1, e1) /\
        xstep H K cf bc x1 (XEnd slow_id (q_time q + elapsed q d)) = (x', e2) /\
        ((e = e1 /\ exists n, e2 = EvNoSuch slow_id n) \/ ((exists n, e1 = EvInFlight slow_id q n) /\ e = e2)).
  Proof.
    intros cf bc s pend q d x' e Hp Hs. unfold slow_step in Hs. cbn [xstep].
    destruct (enter K cf bc s (q_prompt q) (q_time q)) as [s1 r].
    destruct r as [|res|].
    - inversion Hs; subst; clear Hs. do 3 eexists. split; [reflexivity|].
      cbn [xstep]. rewrite Hp. split; [reflexivity|]. left. split; [reflexivity | eexists; reflexivity].
    - inversion Hs; subst; clear Hs. do 3 eexists. split; [reflexivity|].
      cbn [xstep]. rewrite Hp. split; [reflexivity|]. left. split; [reflexivity | eexists; reflexivity].
    - destruct (leave H K cf bc s1 q (q_time q + elapsed q d)) as [s2 rp] eqn:El.
      inversion Hs; subst; clear Hs. do 3 eexists. split; [reflexivity|].
      cbn [xstep pending_find pending_remove]. rewrite Z.eqb_refl. rewrite El.
      split; [reflexivity|]. right. split; [eexists; reflexivity | reflexivity].
  Qed.

  (* the request a slow step answers, and the requests in flight *)
  Lemma slow_step_shape :
    forall cf bc s pend q d s' pend' e,
      slow_step H K cf bc (s, pend) q d = ((s', pend'), e) ->
      pend' = pend /\ exists rp, xreply e = Some (q, rp).
  Proof.
    intros cf bc s pend q d s' pend' e Hs. unfold slow_step in Hs.
    destruct (enter K cf bc s (q_prompt q) (q_time q)) as [s1 r].
    destruct r as [|res|].
    - inversion Hs; subst. split; [reflexivity | eexists; reflexivity].
    - inversion Hs; subst. split; [reflexivity | eexists; reflexivity].
    - destruct (leave H K cf bc s1 q (q_time q + elapsed q d)) as [s2 rp].
      inversion Hs; subst. split; [reflexivity | eexists; reflexivity].
  Qed.

  (* the reply of a slow request: turned away / served from the cache at the clock value of the
     call, or - the agents were asked - the gate's outcome on ITS prompt and ITS agents' answers,
     produced [elapsed q d] later; neither [d] nor a timeout enters into it *)
  Lemma slow_step_reply :
    forall cf bc x q d x' e,
      slow_step H K cf bc x q d = (x', e) ->
      exists rp, xreply e = Some (q, rp) /\
        (r_exec_called rp = true ->
           xfresh H cf q rp /\ xdone_at e = Some (q_time q + elapsed q d)) /\
        (r_exec_called rp = false -> xdone_at e = Some (q_time q)).
  Proof.
    intros cf bc [s pend] q d x' e Hs. unfold slow_step in Hs.
    destruct (enter K cf bc s (q_prompt q) (q_time q)) as [[c1 b1] r].
    destruct r as [|res|].
    - inversion Hs; subst. eexists. split; [reflexivity|]. split; [intros E; discriminate E | reflexivity].
    - inversion Hs; subst. eexists. split; [reflexivity|]. split; [intros E; discriminate E | reflexivity].
    - destruct (leave H K cf bc (c1, b1) q (q_time q + elapsed q d)) as [[c2 b2] rp] eqn:El.
      inversion Hs; subst. exists rp. split; [reflexivity|].
      destruct (leave_spec H K cf bc c1 b1 q _ c2 b2 rp El) as [Hf _].
      split; [intros _; split; [exact Hf | reflexivity]|].
      intros E. destruct Hf as (_ & _ & F & _). congruence.
  Qed.

  Lemma slow_step_ok :
    forall tr cf bc s pend q d s' pend' e,
      RInv H K tr (fst s) -> slow_step H K cf bc (s, pend) q d = ((s', pend'), e) ->
      (forall q' rp tl, xreply e = Some (q', rp) -> rjustified H K (tr ++ RvOp cf bc e :: tl) (length tr) cf q' rp) /\
      RInv H K (tr ++ [RvOp cf bc e]) (fst s').
  Proof.
    intros tr cf bc [c b] pend q d s' pend' e HI Hs. cbn [fst] in HI. unfold slow_step in Hs.
    destruct (enter K cf bc (c, b) (q_prompt q) (q_time q)) as [[c1 b1] r] eqn:Ee.
    destruct (enter_spec _ _ _ _ _ _ _ _ _ _ Ee) as [Hsub Hhit].
    destruct r as [|res|].
    - inversion Hs; subst; clear Hs. cbn [fst]. split.
      + intros q' rp' tl Hr. cbn in Hr. inversion Hr; subst. left. eexists; reflexivity.
      + apply RInv_app. eapply RInv_sub; eassumption.
    - inversion Hs; subst; clear Hs. cbn [fst]. split.
      + intros q' rp' tl Hr. cbn in Hr. inversion Hr; subst.
        eapply rhit_justified; [exact HI | apply Hhit; reflexivity].
      + apply RInv_app. eapply RInv_sub; eassumption.
    - destruct (leave H K cf bc (c1, b1) q (q_time q + elapsed q d)) as [[c2 b2] rp] eqn:El.
      inversion Hs; subst; clear Hs. cbn [fst].
      assert (HI1 : RInv H K tr c1) by (eapply RInv_sub; eassumption).
      destruct (rleave_ok H K tr cf bc c1 b1 q _ c2 b2 rp
                  (EvCompleted slow_id q (q_time q + elapsed q d) rp) HI1 El eq_refl eq_refl) as [Hf HI2].
      split; [|exact HI2].
      intros q' rp' tl Hr. cbn in Hr. inversion Hr; subst. right; left. exact Hf.
  Qed.

  (* ---- every reply of a timed history ---- *)

  Lemma ttrace_from_justified :
    forall ops tr tmo cf bc s pend, RInv H K tr (fst s) ->
      forall i cfi bci e q rp,
        nth_error (untimed (ttrace_from H K (tmo, (cf, bc, (s, pend))) ops)) i = Some (RvOp cfi bci e) ->
        xreply e = Some (q, rp) ->
        rjustified H K (tr ++ untimed (ttrace_from H K (tmo, (cf, bc, (s, pend))) ops)) (length tr + i) cfi q rp.
  Proof.
    unfold untimed.
    induction ops as [|o rest IH]; intros tr tmo cf bc s pend HI i cfi bci e q rp Hn Hr.
    - destruct i; discriminate.
    - cbn [ttrace_from] in *.
      destruct (tstep H K (tmo, (cf, bc, (s, pend))) o) as [t' e0] eqn:Hs.
      cbn [map snd] in *.
      destruct o as [[a|st] | q0 d | v]; cbn [tstep rstep] in Hs.
      + destruct (xstep H K cf bc (s, pend) a) as [[s' pend'] e1] eqn:Hx.
        inversion Hs; subst t' e0; clear Hs. cbn [snd] in *.
        destruct (rxstep_ok H K tr cf bc s pend a s' pend' e1 HI Hx) as [Hj HI'].
        destruct i as [|i].
        * cbn in Hn. inversion Hn; subst cfi bci e1. rewrite Nat.add_0_r. apply Hj. exact Hr.
        * cbn [nth_error] in Hn.
          pose proof (IH (tr ++ [RvOp cf bc e1]) tmo cf bc s' pend' HI' i cfi bci e q rp Hn Hr) as J.
          rewrite <- app_assoc in J. cbn [app] in J.
          rewrite app_length in J. cbn [length] in J.
          replace (length tr + 1 + i)%nat with (length tr + S i)%nat in J by lia. exact J.
      + destruct (apply_setting st (cf, bc)) as [cf' bc'] eqn:Ea.
        inversion Hs; subst t' e0; clear Hs. cbn [snd] in *.
        destruct i as [|i]; [cbn in Hn; discriminate Hn|].
        cbn [nth_error] in Hn.
        assert (HI' : RInv H K (tr ++ [RvSet cf' bc' (length (fst (fst (s, pend))))]) (fst s)) by (apply RInv_app, HI).
        pose proof (IH _ tmo cf' bc' s pend HI' i cfi bci e q rp Hn Hr) as J.
        rewrite <- app_assoc in J. cbn [app] in J.
        rewrite app_length in J. cbn [length] in J.
        replace (length tr + 1 + i)%nat with (length tr + S i)%nat in J by lia. exact J.
      + destruct (slow_step H K cf bc (s, pend) q0 d) as [[s' pend'] e1] eqn:Hx.
        inversion Hs; subst t' e0; clear Hs. cbn [snd] in *.
        destruct (slow_step_ok tr cf bc s pend q0 d s' pend' e1 HI Hx) as [Hj HI'].
        destruct i as [|i].
        * cbn in Hn. inversion Hn; subst cfi bci e1. rewrite Nat.add_0_r. apply Hj. exact Hr.
        * cbn [nth_error] in Hn.
          pose proof (IH (tr ++ [RvOp cf bc e1]) tmo cf bc s' pend' HI' i cfi bci e q rp Hn Hr) as J.
          rewrite <- app_assoc in J. cbn [app] in J.
          rewrite app_length in J. cbn [length] in J.
          replace (length tr + 1 + i)%nat with (length tr + S i)%nat in J by lia. exact J.
      + inversion Hs; subst t' e0; clear Hs. cbn [snd] in *.
        destruct i as [|i]; [cbn in Hn; discriminate Hn|].
        cbn [nth_error] in Hn.
        assert (HI' : RInv H K (tr ++ [RvSet cf bc (length (fst (fst (s, pend))))]) (fst s)) by (apply RInv_app, HI).
        pose proof (IH _ v cf bc s pend HI' i cfi bci e q rp Hn Hr) as J.
        rewrite <- app_assoc in J. cbn [app] in J.
        rewrite app_length in J. cbn [length] in J.
        replace (length tr + 1 + i)%nat with (length tr + S i)%nat in J by lia. exact J.
  Qed.

  Lemma timed_justified :
    forall tmo0 cf0 bc0 ops i cf bc e q rp,
      nth_error (untimed (ttrace H K tmo0 cf0 bc0 ops)) i = Some (RvOp cf bc e) -> xreply e = Some (q, rp) ->
      rjustified H K (untimed (ttrace H K tmo0 cf0 bc0 ops)) i cf q rp.
  Proof.
    intros tmo0 cf0 bc0 ops i cf bc e q rp Hn Hr.
    exact (ttrace_from_justified ops [] tmo0 cf0 bc0 ([], brk0) [] (fun x (F : In x []) => match F with end)
                                 i cf bc e q rp Hn Hr).
  Qed.

  (* ---- whose request a reply answers ---- *)

  Lemma ttrace_from_req_in :
    forall all ops tmo cf bc s pend,
      (forall o, In o ops -> In o all) ->
      (forall id q, In (id, q) pend -> treq_in all q) ->
      forall i cfi bci e q rp,
        nth_error (untimed (ttrace_from H K (tmo, (cf, bc, (s, pend))) ops)) i = Some (RvOp cfi bci e) ->
        xreply e = Some (q, rp) -> treq_in all q.
  Proof.
    unfold untimed.
    intros all. induction ops as [|o rest IH]; intros tmo cf bc s pend Hsub HP i cfi bci e q rp Hn Hr.
    - destruct i; discriminate.
    - cbn [ttrace_from] in Hn.
      destruct (tstep H K (tmo, (cf, bc, (s, pend))) o) as [t' e0] eqn:Hs.
      cbn [map snd] in Hn.
      assert (Hsub' : forall o', In o' rest -> In o' all) by (intros o' Ho; apply Hsub; right; exact Ho).
      assert (Ho : In o all) by (apply Hsub; left; reflexivity).
      destruct o as [[a|st] | q0 d | v]; cbn [tstep rstep] in Hs.
      + destruct (xstep H K cf bc (s, pend) a) as [[s' pend'] e1] eqn:Hx.
        inversion Hs; subst t' e0; clear Hs. cbn [snd] in Hn.
        destruct i as [|i].
        * cbn in Hn. inversion Hn; subst cfi bci e1; clear Hn.
          destruct (xstep_origin H K _ _ _ _ _ _ _ _ _ _ Hx Hr) as [-> | [(id & ->) | (id & now & _ & _ & Hin)]].
          -- left. exact Ho.
          -- right; left. exists id. exact Ho.
          -- apply (HP id). exact Hin.
        * cbn [nth_error] in Hn.
          eapply (IH tmo cf bc s' pend' Hsub'); [|exact Hn | exact Hr].
          intros id1 q1 Hi.
          destruct (xstep_pending H K _ _ _ _ _ _ _ _ _ _ Hx Hi) as [Hp | ->].
          -- apply (HP id1). exact Hp.
          -- right; left. exists id1. exact Ho.
      + destruct (apply_setting st (cf, bc)) as [cf' bc'].
        inversion Hs; subst t' e0; clear Hs. cbn [snd] in Hn.
        destruct i as [|i]; [cbn in Hn; discriminate Hn|]. cbn [nth_error] in Hn.
        eapply (IH tmo cf' bc' s pend Hsub' HP); [exact Hn | exact Hr].
      + destruct (slow_step H K cf bc (s, pend) q0 d) as [[s' pend'] e1] eqn:Hx.
        inversion Hs; subst t' e0; clear Hs. cbn [snd] in Hn.
        destruct (slow_step_shape _ _ _ _ _ _ _ _ _ Hx) as [-> (rp0 & Hr0)].
        destruct i as [|i].
        * cbn in Hn. inversion Hn; subst cfi bci e1; clear Hn.
          rewrite Hr0 in Hr. inversion Hr; subst. right; right. exists d. exact Ho.
        * cbn [nth_error] in Hn.
          eapply (IH tmo cf bc s' pend Hsub' HP); [exact Hn | exact Hr].
      + inversion Hs; subst t' e0; clear Hs. cbn [snd] in Hn.
        destruct i as [|i]; [cbn in Hn; discriminate Hn|]. cbn [nth_error] in Hn.
        eapply (IH v cf bc s pend Hsub' HP); [exact Hn | exact Hr].
  Qed.

  Lemma timed_reply_req_in :
    forall tmo0 cf0 bc0 ops i cf bc e q rp,
      nth_error (untimed (ttrace H K tmo0 cf0 bc0 ops)) i = Some (RvOp cf bc e) -> xreply e = Some (q, rp) ->
      treq_in ops q.
  Proof.
    intros tmo0 cf0 bc0 ops i cf bc e q rp Hn Hr.
    exact (ttrace_from_req_in ops ops tmo0 cf0 bc0 ([], brk0) [] (fun o Ho => Ho)
             (fun id q (F : In (id, q) []) => match F with end) i cf bc e q rp Hn Hr).
  Qed.

  (* ---- the conjuncts of the property, for timed histories ---- *)

  Definition tK_injective_on (ops : list top) : Prop :=
    forall a b, treq_in ops a -> treq_in ops b -> K (q_prompt a) = K (q_prompt b) -> q_prompt a = q_prompt b.

  Lemma timed_pass_only_if_proof :
    forall tmo0 cf0 bc0 ops i cf bc e q rp,
      nth_error (untimed (ttrace H K tmo0 cf0 bc0 ops)) i = Some (RvOp cf bc e) -> xreply e = Some (q, rp) ->
      c_blocked (r_core rp) = false ->
      exists j ej cfj qj rj,
        (j <= i)%nat /\ nth_error (untimed (ttrace H K tmo0 cf0 bc0 ops)) j = Some ej /\
        rreply ej = Some (cfj, qj, rj) /\
        K (q_prompt qj) = K (q_prompt q) /\ r_cached rj = false /\
        (r_cached rp = false -> j = i /\ cfj = cf) /\
        r_core rp = outcome H cfj qj /\
        spec_pass (cf_logic cfj) (q_exec qj) (q_assess qj) = true.
  Proof.
    intros tmo0 cf0 bc0 ops.
    exact (just_pass_only_if H K _ (timed_justified tmo0 cf0 bc0 ops)).
  Qed.

  Lemma timed_cache_same_verdict_proof :
    forall tmo0 cf0 bc0 ops, tK_injective_on ops ->
    forall i cf bc e q rp,
      nth_error (untimed (ttrace H K tmo0 cf0 bc0 ops)) i = Some (RvOp cf bc e) -> xreply e = Some (q, rp) ->
      r_cached rp = true ->
      exists j ej cfj qj rj tj,
        (j < i)%nat /\ nth_error (untimed (ttrace H K tmo0 cf0 bc0 ops)) j = Some ej /\
        rreply ej = Some (cfj, qj, rj) /\
        rdone_at ej = Some tj /\ q_prompt qj = q_prompt q /\ r_cached rj = false /\
        r_core rp = r_core rj /\ r_core rj = outcome H cfj qj /\
        q_time q - tj < cf_ttl cf /\ cf_cache cf = true /\
        r_exec_called rp = false /\ r_assess_called rp = false.
  Proof.
    intros tmo0 cf0 bc0 ops Hinj.
    exact (just_cache_same_verdict H K _ (treq_in ops) (timed_justified tmo0 cf0 bc0 ops)
                                   (timed_reply_req_in tmo0 cf0 bc0 ops) Hinj).
  Qed.

  Lemma timed_token_bound_proof :
    forall tmo0 cf0 bc0 ops, tK_injective_on ops ->
    forall i cf bc e q rp t,
      nth_error (untimed (ttrace H K tmo0 cf0 bc0 ops)) i = Some (RvOp cf bc e) -> xreply e = Some (q, rp) ->
      c_token (r_core rp) = Some t ->
      tk_hash t = H (q_prompt q) /\ c_blocked (r_core rp) = false /\
      exists j ej cfj qj rj,
        (j <= i)%nat /\ nth_error (untimed (ttrace H K tmo0 cf0 bc0 ops)) j = Some ej /\
        rreply ej = Some (cfj, qj, rj) /\
        q_prompt qj = q_prompt q /\ r_cached rj = false /\ (r_cached rp = false -> j = i /\ cfj = cf) /\
        q_assess qj = VPermit /\ tk_issuer t = cf_assessor cfj.
  Proof.
    intros tmo0 cf0 bc0 ops Hinj.
    exact (just_token_bound H K _ (treq_in ops) (timed_justified tmo0 cf0 bc0 ops)
                            (timed_reply_req_in tmo0 cf0 bc0 ops) Hinj).
  Qed.

  (* ---- the event of a slow request; the configuration and the timeout in force ---- *)

  Lemma ttrace_from_nth :
    forall ops t i ev, nth_error (ttrace_from H K t ops) i = Some ev ->
      exists t' o, nth_error ops i = Some o /\ ev = snd (tstep H K t' o) /\
                   (fst t', (fst (fst (snd t')), snd (fst (snd t')))) = tconfig_after (fst t, (fst (fst (snd t)), snd (fst (snd t)))) (firstn i ops).
  Proof.
    induction ops as [|o rest IH]; intros t i ev Hn; [destruct i; discriminate|].
    cbn [ttrace_from] in Hn. destruct (tstep H K t o) as [t1 e0] eqn:Hs.
    destruct i as [|i].
    - cbn in Hn. inversion Hn; subst e0. exists t, o. split; [reflexivity|]. split; [rewrite Hs; reflexivity|].
      reflexivity.
    - cbn [nth_error] in Hn. destruct (IH t1 i ev Hn) as (t' & o' & A & B & C).
      exists t', o'. split; [exact A|]. split; [exact B|]. rewrite C. clear - Hs.
      destruct t as [tmo [[cf bc] x]]. cbn [fst snd].
      change (firstn (S i) (o :: rest)) with (o :: firstn i rest).
      destruct o as [[a|st] | q0 d | v]; cbn [tstep rstep] in Hs.
      + destruct (xstep H K cf bc x a) as [x' e1]. inversion Hs; subst. reflexivity.
      + cbn [tconfig_after fst snd]. destruct (apply_setting st (cf, bc)) as [cf' bc']. inversion Hs; subst. reflexivity.
      + destruct (slow_step H K cf bc x q0 d) as [x' e1]. inversion Hs; subst. reflexivity.
      + inversion Hs; subst. reflexivity.
  Qed.

  Lemma tconfig_after_firstn_S :
    forall ops c i o, nth_error ops i = Some o ->
      tconfig_after c (firstn (S i) ops) = tconfig_after (tconfig_after c (firstn i ops)) [o].
  Proof.
    induction ops as [|o0 rest IH]; intros c i o Hn; [destruct i; discriminate|].
    destruct i as [|i].
    - cbn in Hn. inversion Hn; subst. reflexivity.
    - cbn [nth_error] in Hn.
      change (firstn (S (S i)) (o0 :: rest)) with (o0 :: firstn (S i) rest).
      change (firstn (S i) (o0 :: rest)) with (o0 :: firstn i rest).
      destruct o0 as [[a|st] | q0 d | v]; cbn [tconfig_after]; apply IH; exact Hn.
  Qed.

  (* the timeout and the configuration in force at an event are those given at construction with
     the assignments so far applied, in order *)
  Lemma timed_config_in_force_proof :
    forall tmo0 cf0 bc0 ops i tmo e,
      nth_error (ttrace H K tmo0 cf0 bc0 ops) i = Some (tmo, e) ->
      (tmo, rev_config e) = tconfig_after (tmo0, (cf0, bc0)) (firstn (S i) ops).
  Proof.
    intros tmo0 cf0 bc0 ops i tmo e Hn.
    destruct (ttrace_from_nth ops _ i _ Hn) as ([tmo' [[cf bc] x]] & o & Ho & He & Hc).
    cbn [fst snd] in Hc. rewrite (tconfig_after_firstn_S ops _ i o Ho). rewrite <- Hc.
    destruct o as [[a|st] | q0 d | v]; cbn [tstep rstep] in He.
    - destruct (xstep H K cf bc x a) as [x' e1]. cbn [snd] in He. inversion He; subst. reflexivity.
    - cbn [tconfig_after fst snd]. destruct (apply_setting st (cf, bc)) as [cf' bc']. cbn [snd] in He.
      inversion He; subst. reflexivity.
    - destruct (slow_step H K cf bc x q0 d) as [x' e1]. cbn [snd] in He. inversion He; subst. reflexivity.
    - cbn [snd] in He. inversion He; subst. reflexivity.
  Qed.

  (* A verdict that comes late is still the verdict: whatever the agents' delays, whatever
     timeout_seconds is, the reply of a slow request for which the agents were asked is the gate's
     outcome on its own prompt and its own agents' answers under the configuration in force *)
  Lemma timed_slow_is_own_gate_proof :
    forall tmo0 cf0 bc0 ops i q d,
      nth_error ops i = Some (TSlow q d) ->
      exists tmo cf bc e rp,
        nth_error (ttrace H K tmo0 cf0 bc0 ops) i = Some (tmo, RvOp cf bc e) /\
        (tmo, (cf, bc)) = tconfig_after (tmo0, (cf0, bc0)) (firstn i ops) /\
        xreply e = Some (q, rp) /\
        (r_exec_called rp = true ->
           r_cached rp = false /\ r_core rp = outcome H cf q /\
           r_assess_called rp = negb (raised (q_exec q)) /\ r_shown rp = Some (q_prompt q) /\
           xdone_at e = Some (q_time q + elapsed q d)) /\
        (r_exec_called rp = false -> xdone_at e = Some (q_time q)).
  Proof.
    intros tmo0 cf0 bc0 ops i q d Ho.
    assert (Hlen : (i < length (ttrace H K tmo0 cf0 bc0 ops))%nat).
    { unfold ttrace. generalize (tmo0, (cf0, bc0, x0)). revert i Ho.
      induction ops as [|o rest IH]; intros i Ho t; [destruct i; discriminate|].
      cbn [ttrace_from]. destruct (tstep H K t o) as [t' e0]. cbn [length].
      destruct i as [|i]; [lia|]. cbn [nth_error] in Ho. specialize (IH i Ho t'). lia. }
    destruct (nth_error (ttrace H K tmo0 cf0 bc0 ops) i) as [ev|] eqn:Hn;
      [|apply nth_error_None in Hn; lia].
    destruct (ttrace_from_nth ops _ i _ Hn) as ([tmo' [[cf bc] x]] & o & Ho' & He & Hc).
    rewrite Ho in Ho'. inversion Ho'; subst o. cbn [fst snd] in Hc.
    cbn [tstep] in He. destruct (slow_step H K cf bc x q d) as [x' e1] eqn:Hx. cbn [snd] in He. subst ev.
    destruct (slow_step_reply _ _ _ _ _ _ _ Hx) as (rp & R1 & R2 & R3).
    exists tmo', cf, bc, e1, rp. split; [reflexivity|]. split; [exact Hc|]. split; [exact R1|].
    split; [|exact R3].
    intros E. destruct (R2 E) as [(F1 & F2 & _ & F4 & F5) D]. auto 6.
  Qed.
End TimedProofs.

(* two loop objects, each with slow agents and timeouts of its own, do not influence each other *)
Lemma tloops_isolated_from :
  forall (H K : str -> str) tops t0 t1 b,
    proj b (tsys_from H K t0 t1 tops) = ttrace_from H K (if b then t1 else t0) (proj b tops).
Proof.
  intros H K. unfold proj.
  induction tops as [|[t o] rest IH]; intros t0 t1 b; [reflexivity|].
  cbn [tsys_from]. destruct t.
  - destruct (tstep H K t1 o) as [t1' e] eqn:Es.
    cbn [filter fst]. destruct b; cbn [Bool.eqb map snd].
    + cbn [ttrace_from]. rewrite Es. rewrite (IH t0 t1' true). reflexivity.
    + rewrite (IH t0 t1' false). reflexivity.
  - destruct (tstep H K t0 o) as [t0' e] eqn:Es.
    cbn [filter fst]. destruct b; cbn [Bool.eqb map snd].
    + rewrite (IH t0' t1 true). reflexivity.
    + cbn [ttrace_from]. rewrite Es. rewrite (IH t0' t1 false). reflexivity.
Qed.

Lemma timed_loops_isolated_proof :
  forall (H K : str -> str) tmo0 tmo1 cf0 cf1 bc0 bc1 tops b,
    proj b (tsys_trace H K tmo0 tmo1 cf0 cf1 bc0 bc1 tops) =
    ttrace H K (if b then tmo1 else tmo0) (if b then cf1 else cf0) (if b then bc1 else bc0) (proj b tops).
Proof.
  intros H K tmo0 tmo1 cf0 cf1 bc0 bc1 tops b. unfold tsys_trace, ttrace.
  rewrite (tloops_isolated_from H K tops (tmo0, (cf0, bc0, x0)) (tmo1, (cf1, bc1, x0)) b). destruct b; reflexivity.
Qed.
