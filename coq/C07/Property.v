(* C07 — property theorems only.  Each is closed by [exact] of a lemma from
   Proofs.v and followed by Print Assumptions.

   Vocabulary (Model.v): [gate l z y] is the decision of one uncached request
   under gate logic [l] when the executor's call produced [z] and the
   assessor's produced [y] ([VRaised] = the call raised); [outcome H cf q] is
   the LoopResult core (success, action, blocked, token) built from it, with
   [H] = sha256(.)[:16]; a history [ops] against one loop object is a list of
   operations (requests [OReq q], [OClear] = clear_cache(), [OObserve] = the
   read-only calls); [trace H K cf ops] is the list of its (request, reply)
   pairs, [cf] being the configuration and [K] = md5(.)[:16] the cache key;
   [OReset] = reset_circuit_breaker().  With a circuit breaker configured by [bc]
   (enabled?, failure threshold, recovery timeout) the steps of a history are
   [betrace H K cf bc ops], each marked with whether the breaker admitted it;
   [admitted H K cf bc ops] are the operations it admitted.
   [sys_trace H K cf0 cf1 bc0 bc1 tops] is every step of two loop objects driven
   by one interleaved list, [proj b] the part that concerns object [b].
   [spec_pass] (Proofs.v) is the table of the property text, transcribed
   independently of the code. *)
From Coq Require Import ZArith List Bool.
From Verif Require Import C07.Model C07.Proofs C07.Reconf C07.Timed C07.World gen.Gen_C07.
Import ListNotations.
Open Scope Z_scope.

(* Not-blocked iff the pair of verdicts satisfies the configured logic — all 6
   logics x all 8 x 8 verdicts (finite domain, closed by case analysis). *)
Theorem c07_pass_iff :
  forall l z y, g_blocked (gate l z y) = false <-> spec_pass l z y = true.
Proof. exact pass_iff_proof. Qed.
Print Assumptions c07_pass_iff.

(* Any agent exception yields the blocked ERROR result, under every logic and
   whatever the other agent said. *)
Theorem c07_exception_blocks :
  forall l z y, z = VRaised \/ y = VRaised ->
    gate l z y = mkG false AError true false.
Proof. exact exception_blocks_proof. Qed.
Print Assumptions c07_exception_blocks.

(* Unknown verdicts (DEFER, UNKNOWN, any other string) never count as an
   approval: two unknown verdicts are blocked under every logic; under the
   two-key logics (AND, UNANIMOUS, and MAJORITY) one unknown verdict is enough
   to block; and under the one-key logics a request with an unknown verdict
   passes only on the strength of the OTHER agent's verdict, in exactly the
   cases the statement allows. *)
Theorem c07_unknown_blocks :
  forall l z y,
    (is_unknown z = true -> is_unknown y = true -> g_blocked (gate l z y) = true) /\
    ((l = LAnd \/ l = LUnanimous \/ l = LMajority) ->
       is_unknown z = true \/ is_unknown y = true -> g_blocked (gate l z y) = true) /\
    (is_unknown z = true -> g_blocked (gate l z y) = false ->
       (l = LOr \/ l = LAssessPrio) /\ y = VPermit) /\
    (is_unknown y = true -> g_blocked (gate l z y) = false ->
       (l = LOr \/ l = LExecPrio) /\ (z = VExecute \/ z = VPermit)).
Proof. exact unknown_blocks_proof. Qed.
Print Assumptions c07_unknown_blocks.

(* The approval token of an uncached reply: present only if the assessor's
   verdict is PERMIT (and the result is not blocked), and then it is exactly
   (H of this request's prompt, the assessor's name); conversely a not-blocked
   result with assessor PERMIT always carries it. *)
Theorem c07_token_iff_assessor_permit :
  forall (H : str -> str) cf q,
    let c := outcome H cf q in
    (forall t, c_token c = Some t ->
       q_assess q = VPermit /\ c_blocked c = false /\
       tk_hash t = H (q_prompt q) /\ tk_issuer t = cf_assessor cf) /\
    (q_assess q = VPermit -> c_blocked c = false ->
       c_token c = Some (mkToken (H (q_prompt q)) (cf_assessor cf))).
Proof. exact token_iff_proof. Qed.
Print Assumptions c07_token_iff_assessor_permit.

(* In any history, a reply that is not served from the cache is the gate's
   outcome on what the two agents said at that very request (so the four
   theorems above apply to it), the executor was asked, the assessor was
   asked unless the executor raised, and what they were shown is exactly the
   prompt. *)
Theorem c07_fresh_reply_is_gate :
  forall (H K : str -> str) cf ops i qi ri,
    nth_error (trace H K cf ops) i = Some (qi, ri) -> r_cached ri = false ->
    r_core ri = outcome H cf qi /\ r_exec_called ri = true /\
    r_assess_called ri = negb (raised (q_exec qi)) /\ r_shown ri = Some (q_prompt qi).
Proof. exact fresh_reply_proof. Qed.
Print Assumptions c07_fresh_reply_is_gate.

(* Whether a reply is served from the cache is not a matter of what the loop
   says about it: the agents are consulted for exactly the replies that are
   not marked cached. *)
Theorem c07_agents_consulted_iff_not_cached :
  forall (H K : str -> str) cf ops i qi ri,
    nth_error (trace H K cf ops) i = Some (qi, ri) ->
    r_exec_called ri = negb (r_cached ri) /\
    (r_assess_called ri = true -> r_cached ri = false) /\
    (r_shown ri <> None -> r_cached ri = false).
Proof. exact consulted_iff_not_cached_proof. Qed.
Print Assumptions c07_agents_consulted_iff_not_cached.

(* Whole-history form of "any agent exception yields blocked": in every
   history, whatever the cache holds for the prompt (nothing, a valid entry, an
   expired one, one that was cleared or evicted), a request at which an agent
   was consulted and the executor or the assessor raised comes back as the
   blocked ERROR result without a token, and is not marked cached. *)
Theorem c07_history_exception_blocks :
  forall (H K : str -> str) cf ops i qi ri,
    nth_error (trace H K cf ops) i = Some (qi, ri) ->
    r_exec_called ri = true \/ r_assess_called ri = true \/ r_cached ri = false ->
    q_exec qi = VRaised \/ q_assess qi = VRaised ->
    r_core ri = mkCore false AError true None /\ r_cached ri = false.
Proof. exact history_exception_blocks_proof. Qed.
Print Assumptions c07_history_exception_blocks.

(* Cached replies are identical in verdict to the original: for every history
   (any length, any clock values, any agent behaviour) on whose prompts the
   cache key is injective, a reply served from the cache has the same core
   (success, action, blocked, token) as an EARLIER, UNCACHED reply to the SAME
   prompt — which was the gate's outcome at that request — it is served within
   the TTL of that reply, and neither agent is invoked for it. *)
Theorem c07_cache_same_verdict :
  forall (H K : str -> str) cf ops,
    (forall a b, In (OReq a) ops -> In (OReq b) ops -> K (q_prompt a) = K (q_prompt b) -> q_prompt a = q_prompt b) ->
    forall i qi ri, nth_error (trace H K cf ops) i = Some (qi, ri) -> r_cached ri = true ->
      exists j qj rj,
        (j < i)%nat /\ nth_error (trace H K cf ops) j = Some (qj, rj) /\
        q_prompt qj = q_prompt qi /\ r_cached rj = false /\
        r_core ri = r_core rj /\ r_core rj = outcome H cf qj /\
        q_time qi - q_time qj < cf_ttl cf /\
        r_exec_called ri = false /\ r_assess_called ri = false.
Proof. exact cache_same_verdict_proof. Qed.
Print Assumptions c07_cache_same_verdict.

(* The same without the injectivity assumption: what is shared is the key. *)
Theorem c07_cache_same_key :
  forall (H K : str -> str) cf ops i qi ri,
    nth_error (trace H K cf ops) i = Some (qi, ri) -> r_cached ri = true ->
      exists j qj rj,
        (j < i)%nat /\ nth_error (trace H K cf ops) j = Some (qj, rj) /\
        K (q_prompt qj) = K (q_prompt qi) /\ r_cached rj = false /\
        r_core ri = r_core rj /\ r_core rj = outcome H cf qj /\
        q_time qi - q_time qj < cf_ttl cf /\
        r_exec_called ri = false /\ r_assess_called ri = false.
Proof. exact cache_same_key_proof. Qed.
Print Assumptions c07_cache_same_key.

(* Whole-history form of the first conjunct: EVERY reply of every history,
   cached or not, that is not blocked goes back to a request (itself when
   uncached) at which the agents' verdicts satisfied the configured logic. *)
Theorem c07_history_pass_only_if :
  forall (H K : str -> str) cf ops i qi ri,
    nth_error (trace H K cf ops) i = Some (qi, ri) -> c_blocked (r_core ri) = false ->
    exists j qj rj,
      (j <= i)%nat /\ nth_error (trace H K cf ops) j = Some (qj, rj) /\
      K (q_prompt qj) = K (q_prompt qi) /\ r_cached rj = false /\
      (r_cached ri = false -> j = i) /\
      spec_pass (cf_logic cf) (q_exec qj) (q_assess qj) = true.
Proof. exact history_pass_only_if_proof. Qed.
Print Assumptions c07_history_pass_only_if.

(* Whole-history form of the token conjunct: every token on every reply,
   cached or not, is bound to the hash of exactly the prompt being answered,
   names the assessor, sits on a not-blocked reply, and the assessor said
   PERMIT to this prompt when it was asked. *)
Theorem c07_history_token_bound :
  forall (H K : str -> str) cf ops,
    (forall a b, In (OReq a) ops -> In (OReq b) ops -> K (q_prompt a) = K (q_prompt b) -> q_prompt a = q_prompt b) ->
    forall i qi ri t, nth_error (trace H K cf ops) i = Some (qi, ri) ->
      c_token (r_core ri) = Some t ->
      tk_hash t = H (q_prompt qi) /\ tk_issuer t = cf_assessor cf /\
      c_blocked (r_core ri) = false /\
      exists j qj rj,
        (j <= i)%nat /\ nth_error (trace H K cf ops) j = Some (qj, rj) /\
        q_prompt qj = q_prompt qi /\ r_cached rj = false /\ q_assess qj = VPermit.
Proof. exact history_token_bound_proof. Qed.
Print Assumptions c07_history_token_bound.

(* A token is good for one request only: in a history on whose prompts the
   two truncated hashes are injective, two replies (cached or not) whose tokens
   carry the same request hash answer the same prompt. *)
Theorem c07_tokens_not_interchangeable :
  forall (H K : str -> str) cf ops,
    (forall a b, In (OReq a) ops -> In (OReq b) ops -> K (q_prompt a) = K (q_prompt b) -> q_prompt a = q_prompt b) ->
    (forall a b, In (OReq a) ops -> In (OReq b) ops -> H (q_prompt a) = H (q_prompt b) -> q_prompt a = q_prompt b) ->
    forall i qi ri ti j qj rj tj,
      nth_error (trace H K cf ops) i = Some (qi, ri) -> c_token (r_core ri) = Some ti ->
      nth_error (trace H K cf ops) j = Some (qj, rj) -> c_token (r_core rj) = Some tj ->
      tk_hash ti = tk_hash tj -> q_prompt qi = q_prompt qj.
Proof. exact tokens_not_interchangeable_proof. Qed.
Print Assumptions c07_tokens_not_interchangeable.

(* clear_cache(): the replies of a history with a clear in it are those of the
   part before, followed by those of the part after against a NEW loop (so every
   theorem above applies to the part after on its own: a cached reply after a
   clear has its original after the clear). *)
Theorem c07_clear_forgets :
  forall (H K : str -> str) cf ops1 ops2,
    trace H K cf (ops1 ++ OClear :: ops2) = trace H K cf ops1 ++ trace H K cf ops2.
Proof. exact clear_forgets_proof. Qed.
Print Assumptions c07_clear_forgets.

(* The read-only calls (statistics, results log, breaker stats) change no reply. *)
Theorem c07_observe_is_noop :
  forall (H K : str -> str) cf ops1 ops2,
    trace H K cf (ops1 ++ OObserve :: ops2) = trace H K cf (ops1 ++ ops2).
Proof. exact observe_noop_proof. Qed.
Print Assumptions c07_observe_is_noop.

(* reset_circuit_breaker() changes no reply of a loop whose breaker admits. *)
Theorem c07_reset_is_noop :
  forall (H K : str -> str) cf ops1 ops2,
    trace H K cf (ops1 ++ OReset :: ops2) = trace H K cf (ops1 ++ ops2).
Proof. exact reset_noop_proof. Qed.
Print Assumptions c07_reset_is_noop.

(* The circuit breaker (any threshold, any recovery time, any history incl.
   resets) only ever REJECTS: the admitted steps of a history are, step for
   step, the history of the admitted operations against the loop without a
   breaker - so every theorem above holds of them, with [admitted ... ops] (a
   sub-list of [ops]) as the history - and every other step is a request that
   came back with the blocked CIRCUIT_OPEN result: no token, not marked cached,
   no agent asked, cache untouched. *)
Theorem c07_breaker_only_rejects :
  forall (H K : str -> str) cf bc ops,
    reqs_of (admitted_evs (betrace H K cf bc ops)) = trace H K cf (admitted H K cf bc ops) /\
    (forall e, In e (betrace H K cf bc ops) -> snd e = false ->
       exists q n, e = ((OReq q, Some (mkReply (mkCore false ACircuitOpen true None) false false false None n), n), false)) /\
    (forall o, In o (admitted H K cf bc ops) -> In o ops).
Proof. exact breaker_only_rejects_proof. Qed.
Print Assumptions c07_breaker_only_rejects.

(* Whole-history form of the first conjunct for a loop WITH a breaker: a reply
   that is not blocked, or carries a token, or is marked cached, was admitted,
   is the reply of the breaker-less loop to the same request in the admitted
   history, and if it is not blocked it goes back to a request at which the
   agents' verdicts satisfied the configured logic. *)
Theorem c07_breaker_pass_only_if :
  forall (H K : str -> str) cf bc ops q r n adm,
    In ((OReq q, Some r, n), adm) (betrace H K cf bc ops) ->
    c_blocked (r_core r) = false \/ c_token (r_core r) <> None \/ r_cached r = true ->
    adm = true /\
    exists i, nth_error (trace H K cf (admitted H K cf bc ops)) i = Some (q, r) /\
      (c_blocked (r_core r) = false ->
       exists j qj rj,
         (j <= i)%nat /\ nth_error (trace H K cf (admitted H K cf bc ops)) j = Some (qj, rj) /\
         K (q_prompt qj) = K (q_prompt q) /\ r_cached rj = false /\
         (r_cached r = false -> j = i) /\
         spec_pass (cf_logic cf) (q_exec qj) (q_assess qj) = true).
Proof. exact breaker_pass_only_if_proof. Qed.
Print Assumptions c07_breaker_pass_only_if.

(* With enable_circuit_breaker=False every step is admitted and the history is
   that of the loop proper (whatever the breaker's counters do meanwhile). *)
Theorem c07_breaker_disabled :
  forall (H K : str -> str) cf bc, bc_enabled bc = false ->
    forall ops,
      reqs_of (map fst (betrace H K cf bc ops)) = trace H K cf ops /\
      forallb snd (betrace H K cf bc ops) = true.
Proof. exact breaker_disabled_proof. Qed.
Print Assumptions c07_breaker_disabled.

(* Two loop objects (any two configurations, with or without breakers) driven
   by one interleaved list of operations do not influence each other: the steps
   of object [b] are those of its own operations alone - so every theorem above
   holds of each object of a system, and no reply of one object goes back to a
   request made to the other. *)
Theorem c07_loops_isolated :
  forall (H K : str -> str) cf0 cf1 bc0 bc1 tops b,
    proj b (sys_trace H K cf0 cf1 bc0 bc1 tops) =
    betrace H K (if b then cf1 else cf0) (if b then bc1 else bc0) (proj b tops).
Proof. exact loops_isolated_proof. Qed.
Print Assumptions c07_loops_isolated.

(* ---------------------------------------------------------------------- *)
(* Overlapping requests.  run() is not atomic for its caller: while a request is
   inside executor.express() / assessor.express(), another thread - or the agent
   itself, re-entrantly - may use the same loop object.  An overlapping history
   [xop] puts any operations ([XAtomic o], further [XBegin]s, [XEnd]s of other
   requests) between the two halves [XBegin id q] ... [XEnd id now] of any number
   of requests in flight; [xtrace H K cf bc ops] has one event per operation
   ([EvReturned]: the begin came back at once - rejected by the breaker or
   served from the cache; [EvInFlight]; [EvCompleted id q now rp]: the request
   begun as [XBegin id q] returned [rp] at clock [now]); [xreply e] is the
   (request, reply) pair of an event, [xdone_at e] the clock value at which
   that reply was produced. *)

(* The histories of all theorems above are the overlapping histories without
   overlap ... *)
Theorem c07_overlap_atomic_is_sequential :
  forall (H K : str -> str) cf bc ops,
    xtrace H K cf bc (map XAtomic ops) = map EvAtomic (betrace H K cf bc ops).
Proof. exact overlap_atomic_is_sequential_proof. Qed.
Print Assumptions c07_overlap_atomic_is_sequential.

(* ... and a request carried out in one go is its two halves back to back at one
   clock value: same reply, same state of the loop object afterwards. *)
Theorem c07_overlap_begin_end_is_request :
  forall (H K : str -> str) cf bc s pend id q s' rp adm,
    bstep H K cf bc s q = (s', rp, adm) ->
    (r_exec_called rp = false /\
     xstep H K cf bc (s, pend) (XBegin id q) = ((s', pend), EvReturned id q rp adm)) \/
    (r_exec_called rp = true /\ adm = true /\
     exists s1 n,
       xstep H K cf bc (s, pend) (XBegin id q) = ((s1, (id, q) :: pend), EvInFlight id q n) /\
       xstep H K cf bc (s1, (id, q) :: pend) (XEnd id (q_time q)) =
         ((s', pend), EvCompleted id q (q_time q) rp)).
Proof. exact begin_end_is_request_proof. Qed.
Print Assumptions c07_overlap_begin_end_is_request.

(* A request is judged on ITS OWN prompt and ITS OWN agents' verdicts, whatever
   else happens on the loop object while it is in flight: in every overlapping
   history the reply with which an in-flight request returns is the gate's
   outcome (decision, token with H of THIS prompt and the assessor's name) for
   the request given at the begin with that id earlier in the history; it is not
   marked cached and its agents were handed exactly its prompt. *)
Theorem c07_overlap_completed_is_own_gate :
  forall (H K : str -> str) cf bc ops i id q now rp,
    nth_error (xtrace H K cf bc ops) i = Some (EvCompleted id q now rp) ->
    nth_error ops i = Some (XEnd id now) /\ In (XBegin id q) (firstn i ops) /\
    r_cached rp = false /\ r_core rp = outcome H cf q /\ r_exec_called rp = true /\
    r_assess_called rp = negb (raised (q_exec q)) /\ r_shown rp = Some (q_prompt q).
Proof. exact overlap_completed_is_own_gate_proof. Qed.
Print Assumptions c07_overlap_completed_is_own_gate.

(* First conjunct, for every reply of every overlapping history (in one go, at
   a begin, at an end; cached or not; with or without a breaker): a reply that
   is not blocked is the gate's outcome for a request of the history with the
   same cache key - itself unless the reply is a cached one, otherwise one
   whose own reply was produced EARLIER - whose agents' verdicts satisfied the
   configured logic. *)
Theorem c07_overlap_pass_only_if :
  forall (H K : str -> str) cf bc ops i e q rp,
    nth_error (xtrace H K cf bc ops) i = Some e -> xreply e = Some (q, rp) ->
    c_blocked (r_core rp) = false ->
    exists j ej qj rj,
      (j <= i)%nat /\ nth_error (xtrace H K cf bc ops) j = Some ej /\ xreply ej = Some (qj, rj) /\
      K (q_prompt qj) = K (q_prompt q) /\ r_cached rj = false /\ (r_cached rp = false -> j = i) /\
      r_core rp = outcome H cf qj /\
      spec_pass (cf_logic cf) (q_exec qj) (q_assess qj) = true.
Proof. exact overlap_pass_only_if_proof. Qed.
Print Assumptions c07_overlap_pass_only_if.

(* Cached replies are identical in verdict to the original, for overlapping
   histories: a reply marked cached has the core of the uncached reply of a
   request for the SAME prompt (cache key injective on the history's prompts)
   that had RETURNED before - a request still in flight has stored nothing -
   and is served within the TTL counted from the moment that reply was produced
   (its end, not its begin); no agent is asked. *)
Theorem c07_overlap_cache_same_verdict :
  forall (H K : str -> str) cf bc ops,
    (forall a b, (In (XAtomic (OReq a)) ops \/ exists id, In (XBegin id a) ops) ->
                 (In (XAtomic (OReq b)) ops \/ exists id, In (XBegin id b) ops) ->
                 K (q_prompt a) = K (q_prompt b) -> q_prompt a = q_prompt b) ->
    forall i e q rp,
      nth_error (xtrace H K cf bc ops) i = Some e -> xreply e = Some (q, rp) -> r_cached rp = true ->
      exists j ej qj rj tj,
        (j < i)%nat /\ nth_error (xtrace H K cf bc ops) j = Some ej /\ xreply ej = Some (qj, rj) /\
        xdone_at ej = Some tj /\ q_prompt qj = q_prompt q /\ r_cached rj = false /\
        r_core rp = r_core rj /\ r_core rj = outcome H cf qj /\
        q_time q - tj < cf_ttl cf /\ r_exec_called rp = false /\ r_assess_called rp = false.
Proof. exact overlap_cache_same_verdict_proof. Qed.
Print Assumptions c07_overlap_cache_same_verdict.

(* Token conjunct, for overlapping histories: every token on every reply is
   bound to the hash of exactly the prompt being answered - never to that of
   another request in flight at the same time -, names the assessor, sits on a
   not-blocked reply, and the assessor said PERMIT to this prompt. *)
Theorem c07_overlap_token_bound :
  forall (H K : str -> str) cf bc ops,
    (forall a b, (In (XAtomic (OReq a)) ops \/ exists id, In (XBegin id a) ops) ->
                 (In (XAtomic (OReq b)) ops \/ exists id, In (XBegin id b) ops) ->
                 K (q_prompt a) = K (q_prompt b) -> q_prompt a = q_prompt b) ->
    forall i e q rp t,
      nth_error (xtrace H K cf bc ops) i = Some e -> xreply e = Some (q, rp) ->
      c_token (r_core rp) = Some t ->
      tk_hash t = H (q_prompt q) /\ tk_issuer t = cf_assessor cf /\ c_blocked (r_core rp) = false /\
      exists j ej qj rj,
        (j <= i)%nat /\ nth_error (xtrace H K cf bc ops) j = Some ej /\ xreply ej = Some (qj, rj) /\
        q_prompt qj = q_prompt q /\ r_cached rj = false /\ q_assess qj = VPermit.
Proof. exact overlap_token_bound_proof. Qed.
Print Assumptions c07_overlap_token_bound.

(* Two loop objects, overlapping requests on each: still no influence. *)
Theorem c07_overlap_loops_isolated :
  forall (H K : str -> str) cf0 cf1 bc0 bc1 tops b,
    proj b (xsys_trace H K cf0 cf1 bc0 bc1 tops) =
    xtrace H K (if b then cf1 else cf0) (if b then bc1 else bc0) (proj b tops).
Proof. exact overlap_loops_isolated_proof. Qed.
Print Assumptions c07_overlap_loops_isolated.

(* ---------------------------------------------------------------------- *)
(* Reconfiguration of a live loop object.  Every constructor argument ends up in a public
   attribute that run() reads again at each request, so "the configured gate logic" (assessor
   name, TTL, ...) is what is configured WHEN A REPLY IS PRODUCED, not what the loop was built
   with.  A history with reconfiguration [rop] is an overlapping history ([RX o]) with assignments
   [RSet s] to gate_logic / assessor.name / enable_cache / cache_ttl / enable_circuit_breaker /
   failure_threshold / recovery_timeout anywhere in it - also between the two halves of requests
   in flight.  [rtrace H K cf0 bc0 ops], [cf0]/[bc0] being the configuration at construction, has
   one event per operation: [RvOp cf bc e] = the event [e] of the operation as before, carried out
   under the configuration [cf]/[bc] then in force; [RvSet cf bc n] = an assignment, [cf]/[bc] in
   force from then on.  [rreply e] = (configuration in force, request, reply) of an event,
   [rdone_at e] the clock value at which that reply was produced. *)

(* The histories of all theorems above are the histories without an assignment. *)
Theorem c07_reconf_none_is_overlap :
  forall (H K : str -> str) cf bc ops,
    rtrace H K cf bc (map RX ops) = map (RvOp cf bc) (xtrace H K cf bc ops).
Proof. exact reconf_none_is_overlap_proof. Qed.
Print Assumptions c07_reconf_none_is_overlap.

(* An assignment changes the configuration and nothing else (cache, breaker state and the
   requests in flight stay as they are) ... *)
Theorem c07_reconf_assignment_touches_configuration_only :
  forall (H K : str -> str) cf bc x s,
    rstep H K (cf, bc, x) (RSet s) =
    (fst (apply_setting s (cf, bc)), snd (apply_setting s (cf, bc)), x,
     RvSet (fst (apply_setting s (cf, bc))) (snd (apply_setting s (cf, bc))) (length (fst (fst x)))).
Proof. exact reconf_set_step_proof. Qed.
Print Assumptions c07_reconf_assignment_touches_configuration_only.

(* ... and the configuration in force at any event is the one given at construction with the
   assignments made so far applied in order: no operation is carried out under a configuration
   that an assignment has already replaced. *)
Theorem c07_reconf_config_in_force :
  forall (H K : str -> str) cf0 bc0 ops i e,
    nth_error (rtrace H K cf0 bc0 ops) i = Some e ->
    rev_config e = config_after (cf0, bc0) (firstn (S i) ops).
Proof. exact reconf_config_in_force_proof. Qed.
Print Assumptions c07_reconf_config_in_force.

(* A request that was in flight while the loop was reconfigured is judged on its own prompt and
   its own agents' verdicts under the configuration (gate logic, assessor name) in force when it
   RETURNS - the configuration at construction with the assignments before its end applied. *)
Theorem c07_reconf_completed_is_own_gate :
  forall (H K : str -> str) cf0 bc0 ops i cf bc id q now rp,
    nth_error (rtrace H K cf0 bc0 ops) i = Some (RvOp cf bc (EvCompleted id q now rp)) ->
    nth_error ops i = Some (RX (XEnd id now)) /\ In (RX (XBegin id q)) (firstn i ops) /\
    (cf, bc) = config_after (cf0, bc0) (firstn i ops) /\
    r_cached rp = false /\ r_core rp = outcome H cf q /\ r_exec_called rp = true /\
    r_assess_called rp = negb (raised (q_exec q)) /\ r_shown rp = Some (q_prompt q).
Proof. exact reconf_completed_is_own_gate_proof. Qed.
Print Assumptions c07_reconf_completed_is_own_gate.

(* First conjunct, for every reply of every history with reconfiguration: a reply that is not
   blocked is the gate's outcome for a request of the history with the same cache key whose
   agents' verdicts satisfied the gate logic CONFIGURED WHEN THAT REQUEST WAS DECIDED - for a
   reply that is not a cached one this is the request itself and the logic in force at this very
   moment ([cfj = cf]), never the logic the loop was built with or one configured earlier. *)
Theorem c07_reconf_pass_only_if :
  forall (H K : str -> str) cf0 bc0 ops i cf bc e q rp,
    nth_error (rtrace H K cf0 bc0 ops) i = Some (RvOp cf bc e) -> xreply e = Some (q, rp) ->
    c_blocked (r_core rp) = false ->
    exists j ej cfj qj rj,
      (j <= i)%nat /\ nth_error (rtrace H K cf0 bc0 ops) j = Some ej /\ rreply ej = Some (cfj, qj, rj) /\
      K (q_prompt qj) = K (q_prompt q) /\ r_cached rj = false /\
      (r_cached rp = false -> j = i /\ cfj = cf) /\
      r_core rp = outcome H cfj qj /\
      spec_pass (cf_logic cfj) (q_exec qj) (q_assess qj) = true.
Proof. exact reconf_pass_only_if_proof. Qed.
Print Assumptions c07_reconf_pass_only_if.

(* Cached replies are identical in verdict to the original, across reconfiguration: a reply
   marked cached has the core of the uncached reply of a request for the SAME prompt that had
   returned before (the gate's outcome under the configuration of THAT moment), is served within
   the TTL now in force counted from that moment, with the cache now enabled; no agent is asked. *)
Theorem c07_reconf_cache_same_verdict :
  forall (H K : str -> str) cf0 bc0 ops,
    (forall a b, (In (RX (XAtomic (OReq a))) ops \/ exists id, In (RX (XBegin id a)) ops) ->
                 (In (RX (XAtomic (OReq b))) ops \/ exists id, In (RX (XBegin id b)) ops) ->
                 K (q_prompt a) = K (q_prompt b) -> q_prompt a = q_prompt b) ->
    forall i cf bc e q rp,
      nth_error (rtrace H K cf0 bc0 ops) i = Some (RvOp cf bc e) -> xreply e = Some (q, rp) -> r_cached rp = true ->
      exists j ej cfj qj rj tj,
        (j < i)%nat /\ nth_error (rtrace H K cf0 bc0 ops) j = Some ej /\ rreply ej = Some (cfj, qj, rj) /\
        rdone_at ej = Some tj /\ q_prompt qj = q_prompt q /\ r_cached rj = false /\
        r_core rp = r_core rj /\ r_core rj = outcome H cfj qj /\
        q_time q - tj < cf_ttl cf /\ cf_cache cf = true /\
        r_exec_called rp = false /\ r_assess_called rp = false.
Proof. exact reconf_cache_same_verdict_proof. Qed.
Print Assumptions c07_reconf_cache_same_verdict.

(* Token conjunct, across reconfiguration: every token on every reply is bound to the hash of
   exactly the prompt being answered, sits on a not-blocked reply, and goes back to a request for
   this prompt (itself, under the configuration now in force, unless the reply is a cached one)
   at which the assessor said PERMIT and whose issuer is the assessor's name of that moment. *)
Theorem c07_reconf_token_bound :
  forall (H K : str -> str) cf0 bc0 ops,
    (forall a b, (In (RX (XAtomic (OReq a))) ops \/ exists id, In (RX (XBegin id a)) ops) ->
                 (In (RX (XAtomic (OReq b))) ops \/ exists id, In (RX (XBegin id b)) ops) ->
                 K (q_prompt a) = K (q_prompt b) -> q_prompt a = q_prompt b) ->
    forall i cf bc e q rp t,
      nth_error (rtrace H K cf0 bc0 ops) i = Some (RvOp cf bc e) -> xreply e = Some (q, rp) ->
      c_token (r_core rp) = Some t ->
      tk_hash t = H (q_prompt q) /\ c_blocked (r_core rp) = false /\
      exists j ej cfj qj rj,
        (j <= i)%nat /\ nth_error (rtrace H K cf0 bc0 ops) j = Some ej /\ rreply ej = Some (cfj, qj, rj) /\
        q_prompt qj = q_prompt q /\ r_cached rj = false /\ (r_cached rp = false -> j = i /\ cfj = cf) /\
        q_assess qj = VPermit /\ tk_issuer t = cf_assessor cfj.
Proof. exact reconf_token_bound_proof. Qed.
Print Assumptions c07_reconf_token_bound.

(* Two loop objects, each reconfigured at will: reconfiguring one changes nothing of the other. *)
Theorem c07_reconf_loops_isolated :
  forall (H K : str -> str) cf0 cf1 bc0 bc1 tops b,
    proj b (rsys_trace H K cf0 cf1 bc0 bc1 tops) =
    rtrace H K (if b then cf1 else cf0) (if b then bc1 else bc0) (proj b tops).
Proof. exact reconf_loops_isolated_proof. Qed.
Print Assumptions c07_reconf_loops_isolated.

(* ---------------------------------------------------------------------- *)
(* Time.  An agent's express() takes time, and the loop keeps a `timeout_seconds` in a public
   attribute.  A timed history [top] is a history with reconfiguration ([TPlain o]) in which a
   request carried out in one go may say how long each of its agents needs before it answers
   ([TSlow q d], [d_exec d] / [d_assess d]; [elapsed q d] = the time the request spends inside the
   agents it asks) and in which timeout_seconds may be assigned ([TSetTimeout v]) anywhere.
   [ttrace H K tmo0 cf0 bc0 ops] has one event per operation, each paired with the timeout in force;
   [untimed] leaves the timeouts out (events as in [rtrace]).  The property speaks of "the
   executor's and the risk assessor's verdicts" - not of verdicts that came in time: the theorems
   below hold for ALL delays and ALL timeouts, so a verdict that comes late is still the verdict
   (a BLOCK that took longer than timeout_seconds blocks), and no timeout ever changes a reply. *)

(* The histories of all theorems above are the timed histories without slow requests and without
   assignments of timeout_seconds (whatever the timeout at construction). *)
Theorem c07_timed_plain_is_reconf :
  forall (H K : str -> str) tmo cf bc ops,
    ttrace H K tmo cf bc (map TPlain ops) = map (pair tmo) (rtrace H K cf bc ops).
Proof. exact timed_plain_is_reconf_proof. Qed.
Print Assumptions c07_timed_plain_is_reconf.

(* timeout_seconds is inert: the events of a timed history - every reply, every cache size - are the
   same whatever the timeout at construction ([tmo] / [tmo']) and whatever values are assigned to it
   later ([g] replaces each assigned value by another): no agent is ever "timed out". *)
Theorem c07_timed_timeout_is_inert :
  forall (H K : str -> str) (g : Z -> Z) tmo tmo' cf bc ops,
    untimed (ttrace H K tmo cf bc ops) = untimed (ttrace H K tmo' cf bc (map (retime g) ops)).
Proof. exact timeout_inert_proof. Qed.
Print Assumptions c07_timed_timeout_is_inert.

(* The timeout and the configuration in force at an event are those given at construction with the
   assignments made so far applied in order. *)
Theorem c07_timed_config_in_force :
  forall (H K : str -> str) tmo0 cf0 bc0 ops i tmo e,
    nth_error (ttrace H K tmo0 cf0 bc0 ops) i = Some (tmo, e) ->
    (tmo, rev_config e) = tconfig_after (tmo0, (cf0, bc0)) (firstn (S i) ops).
Proof. exact timed_config_in_force_proof. Qed.
Print Assumptions c07_timed_config_in_force.

(* A request whose agents answer at once is the request in one go of the earlier layers: same
   reply, same state of the loop object afterwards ... *)
Theorem c07_timed_instant_is_request :
  forall (H K : str -> str) cf bc s pend q d, elapsed q d = 0 ->
    slow_step H K cf bc (s, pend) q d =
    let '(s', rp, adm) := bstep H K cf bc s q in
    ((s', pend), if r_exec_called rp then EvCompleted slow_id q (q_time q) rp else EvReturned slow_id q rp adm).
Proof. exact slow_instant_proof. Qed.
Print Assumptions c07_timed_instant_is_request.

(* ... and with agents that need time it is the two halves of an overlapping request with nothing
   in between, the second half [elapsed q d] after the first: every theorem about overlapping
   requests applies to it (its cache entry is stamped, and the breaker told, at the later moment). *)
Theorem c07_timed_slow_is_begin_end :
  forall (H K : str -> str) cf bc s pend q d x' e,
    pending_find slow_id pend = None ->
    slow_step H K cf bc (s, pend) q d = (x', e) ->
    exists x1 e1 e2,
      xstep H K cf bc (s, pend) (XBegin slow_id q) = (x1, e1) /\
      xstep H K cf bc x1 (XEnd slow_id (q_time q + elapsed q d)) = (x', e2) /\
      ((e = e1 /\ exists n, e2 = EvNoSuch slow_id n) \/ ((exists n, e1 = EvInFlight slow_id q n) /\ e = e2)).
Proof. exact slow_is_begin_end_proof. Qed.
Print Assumptions c07_timed_slow_is_begin_end.

(* A verdict that comes late is still the verdict.  In every timed history, for ALL delays [d] and
   whatever timeout_seconds is at that moment ([tmo], possibly far below [elapsed q d]): the reply
   to a slow request is produced under the configuration in force; if its agents were asked it is
   not marked cached and is the gate's outcome on ITS prompt and ITS agents' answers - by
   c07_pass_iff not blocked iff those verdicts satisfy the configured logic, so a slow assessor's
   BLOCK blocks under EXECUTOR_PRIORITY -, produced [elapsed q d] after the call; otherwise it was
   turned away by the breaker or served from the cache at the clock value of the call. *)
Theorem c07_timed_late_verdict_is_the_verdict :
  forall (H K : str -> str) tmo0 cf0 bc0 ops i q d,
    nth_error ops i = Some (TSlow q d) ->
    exists tmo cf bc e rp,
      nth_error (ttrace H K tmo0 cf0 bc0 ops) i = Some (tmo, RvOp cf bc e) /\
      (tmo, (cf, bc)) = tconfig_after (tmo0, (cf0, bc0)) (firstn i ops) /\
      xreply e = Some (q, rp) /\
      (r_exec_called rp = true ->
         r_cached rp = false /\ r_core rp = outcome H cf q /\
         r_assess_called rp = negb (raised (q_exec q)) /\ r_shown rp = Some (q_prompt q) /\
         xdone_at e = Some (q_time q + elapsed q d)) /\
      (r_exec_called rp = false -> xdone_at e = Some (q_time q)).
Proof. exact timed_slow_is_own_gate_proof. Qed.
Print Assumptions c07_timed_late_verdict_is_the_verdict.

(* First conjunct, for every reply of every timed history (slow or not, in one go or overlapping,
   cached or not, any timeouts): a reply that is not blocked is the gate's outcome for a request of
   the history with the same cache key whose agents' verdicts - however late they came - satisfied
   the gate logic configured when that request was decided; for a reply that is not a cached one
   this is the request itself and the logic in force at this very moment. *)
Theorem c07_timed_pass_only_if :
  forall (H K : str -> str) tmo0 cf0 bc0 ops i cf bc e q rp,
    nth_error (untimed (ttrace H K tmo0 cf0 bc0 ops)) i = Some (RvOp cf bc e) -> xreply e = Some (q, rp) ->
    c_blocked (r_core rp) = false ->
    exists j ej cfj qj rj,
      (j <= i)%nat /\ nth_error (untimed (ttrace H K tmo0 cf0 bc0 ops)) j = Some ej /\
      rreply ej = Some (cfj, qj, rj) /\
      K (q_prompt qj) = K (q_prompt q) /\ r_cached rj = false /\
      (r_cached rp = false -> j = i /\ cfj = cf) /\
      r_core rp = outcome H cfj qj /\
      spec_pass (cf_logic cfj) (q_exec qj) (q_assess qj) = true.
Proof. exact timed_pass_only_if_proof. Qed.
Print Assumptions c07_timed_pass_only_if.

(* Cached replies are identical in verdict to the original, in timed histories: the original is the
   uncached reply of a request for the SAME prompt that had returned before, and the TTL is counted
   from the moment that reply was produced - for a slow request [elapsed] after its call. *)
Theorem c07_timed_cache_same_verdict :
  forall (H K : str -> str) tmo0 cf0 bc0 ops,
    (forall a b, treq_in ops a -> treq_in ops b -> K (q_prompt a) = K (q_prompt b) -> q_prompt a = q_prompt b) ->
    forall i cf bc e q rp,
      nth_error (untimed (ttrace H K tmo0 cf0 bc0 ops)) i = Some (RvOp cf bc e) -> xreply e = Some (q, rp) ->
      r_cached rp = true ->
      exists j ej cfj qj rj tj,
        (j < i)%nat /\ nth_error (untimed (ttrace H K tmo0 cf0 bc0 ops)) j = Some ej /\
        rreply ej = Some (cfj, qj, rj) /\
        rdone_at ej = Some tj /\ q_prompt qj = q_prompt q /\ r_cached rj = false /\
        r_core rp = r_core rj /\ r_core rj = outcome H cfj qj /\
        q_time q - tj < cf_ttl cf /\ cf_cache cf = true /\
        r_exec_called rp = false /\ r_assess_called rp = false.
Proof. exact timed_cache_same_verdict_proof. Qed.
Print Assumptions c07_timed_cache_same_verdict.

(* Token conjunct, in timed histories: a token is attached only when the assessor - however slow -
   said PERMIT to this prompt, is bound to the hash of exactly this prompt and names the assessor. *)
Theorem c07_timed_token_bound :
  forall (H K : str -> str) tmo0 cf0 bc0 ops,
    (forall a b, treq_in ops a -> treq_in ops b -> K (q_prompt a) = K (q_prompt b) -> q_prompt a = q_prompt b) ->
    forall i cf bc e q rp t,
      nth_error (untimed (ttrace H K tmo0 cf0 bc0 ops)) i = Some (RvOp cf bc e) -> xreply e = Some (q, rp) ->
      c_token (r_core rp) = Some t ->
      tk_hash t = H (q_prompt q) /\ c_blocked (r_core rp) = false /\
      exists j ej cfj qj rj,
        (j <= i)%nat /\ nth_error (untimed (ttrace H K tmo0 cf0 bc0 ops)) j = Some ej /\
        rreply ej = Some (cfj, qj, rj) /\
        q_prompt qj = q_prompt q /\ r_cached rj = false /\ (r_cached rp = false -> j = i /\ cfj = cf) /\
        q_assess qj = VPermit /\ tk_issuer t = cf_assessor cfj.
Proof. exact timed_token_bound_proof. Qed.
Print Assumptions c07_timed_token_bound.

(* Two loop objects, each with slow agents and a timeout of its own: still no influence. *)
Theorem c07_timed_loops_isolated :
  forall (H K : str -> str) tmo0 tmo1 cf0 cf1 bc0 bc1 tops b,
    proj b (tsys_trace H K tmo0 tmo1 cf0 cf1 bc0 bc1 tops) =
    ttrace H K (if b then tmo1 else tmo0) (if b then cf1 else cf0) (if b then bc1 else bc0) (proj b tops).
Proof. exact timed_loops_isolated_proof. Qed.
Print Assumptions c07_timed_loops_isolated.

(* ---------------------------------------------------------------------- *)
(* Agents at large (Model.v, Section World; proofs in World.v).  The executor / assessor are whatever
   objects the caller put into the loop: their proteins may carry a `source_agent` label of their own
   ([WLabelled sz sy o]: the operation [o], the proteins returned at it labelled [sz] / [sy]), and
   express() may raise a BaseException that is not an Exception ([WAbort q who]: run() in one go;
   [WEndAbort id now who]: the request [id] in flight; [who] = the assessor raised, the executor having
   answered).  [wtrace H K tmo cf bc ops] are the events of such a history - [WvPropagated]: run() was
   left by the exception, the caller got NO reply - and [unworld] turns them into events as before. *)

(* Histories without the new operations are exactly the timed histories. *)
Theorem c07_world_plain_is_timed :
  forall (H K : str -> str) tmo cf bc ops,
    wtrace H K tmo cf bc (map WPlain ops) = map WvOp (ttrace H K tmo cf bc ops).
Proof. exact world_plain_is_timed_proof. Qed.
Print Assumptions c07_world_plain_is_timed.

(* "names the assessor as issuer", whatever the proteins say about their own origin: replace the labels
   by any others ([relabel f]) or take them off ([unlabel]) - every event, hence every reply, every token
   and its issuer, stays what it was.  The labels are read by nothing. *)
Theorem c07_world_labels_are_inert :
  forall (H K : str -> str) (f : option str -> option str) tmo cf bc ops,
    wtrace H K tmo cf bc (map (relabel f) ops) = wtrace H K tmo cf bc ops /\
    wtrace H K tmo cf bc (map unlabel ops) = wtrace H K tmo cf bc ops.
Proof. exact world_labels_inert_proof. Qed.
Print Assumptions c07_world_labels_are_inert.

(* An agent exception that is not an Exception never yields a not-blocked reply: a request at which an
   agent that is ASKED raises one either asked nobody after all (turned away by the breaker or served
   from the cache: the usual reply, [r_exec_called] = [r_assess_called] = false) or has NO reply at all
   ([WvPropagated], which carries none) - and then nothing was stored (every cache entry was there
   before), no request in flight and no configuration attribute was touched. *)
Theorem c07_world_abort_leaves_no_reply :
  forall (H K : str -> str) t q who t' e,
    assessor_reached q who = false -> wstep H K t (WAbort q who) = (t', e) ->
    tconf t' = tconf t /\ tpend t' = tpend t /\ (forall x, In x (tcache t') -> In x (tcache t)) /\
    ((exists rp adm, e = WvOp (fst t, RvOp (fst (fst (snd t))) (snd (fst (snd t))) (EvReturned abort_id q rp adm)) /\
                     r_exec_called rp = false /\ r_assess_called rp = false) \/
     (exists n, e = WvPropagated (fst t) (fst (fst (snd t))) (snd (fst (snd t))) who n /\
                rreply (wrev e) = None /\ n = length (tcache t'))).
Proof. exact abort_leaves_no_reply_proof. Qed.
Print Assumptions c07_world_abort_leaves_no_reply.

(* The same for a request that is in flight when its agent raises: no reply; cache and breaker are what
   they were; the request is no longer in flight. *)
Theorem c07_world_end_abort_leaves_no_reply :
  forall (H K : str -> str) t id now who q t' e,
    pending_find id (tpend t) = Some q -> assessor_reached q who = false ->
    wstep H K t (WEndAbort id now who) = (t', e) ->
    tconf t' = tconf t /\ fst (snd (snd t')) = fst (snd (snd t)) /\ tpend t' = pending_remove id (tpend t) /\
    e = WvPropagated (fst t) (fst (fst (snd t))) (snd (fst (snd t))) who (length (tcache t)) /\
    rreply (wrev e) = None.
Proof. exact end_abort_leaves_no_reply_proof. Qed.
Print Assumptions c07_world_end_abort_leaves_no_reply.

(* First conjunct, for every reply of every history with agents at large (labelled proteins, requests
   left by exceptions before, after or while this one was dealt with): a reply that is not blocked is
   the gate's outcome for a request of the history with the same cache key whose agents' verdicts
   satisfied the gate logic configured when it was decided; if it is not a cached reply, this very
   request under the logic in force now. *)
Theorem c07_world_pass_only_if :
  forall (H K : str -> str) tmo0 cf0 bc0 ops i cf bc e q rp,
    nth_error (unworld (wtrace H K tmo0 cf0 bc0 ops)) i = Some (RvOp cf bc e) -> xreply e = Some (q, rp) ->
    c_blocked (r_core rp) = false ->
    exists j ej cfj qj rj,
      (j <= i)%nat /\ nth_error (unworld (wtrace H K tmo0 cf0 bc0 ops)) j = Some ej /\
      rreply ej = Some (cfj, qj, rj) /\
      K (q_prompt qj) = K (q_prompt q) /\ r_cached rj = false /\
      (r_cached rp = false -> j = i /\ cfj = cf) /\
      r_core rp = outcome H cfj qj /\
      spec_pass (cf_logic cfj) (q_exec qj) (q_assess qj) = true.
Proof. exact world_pass_only_if_proof. Qed.
Print Assumptions c07_world_pass_only_if.

(* Cached replies are identical in verdict to the original, with agents at large: the original is the
   uncached reply of an earlier request for the SAME prompt that RETURNED - a request that was left by
   an exception is nobody's original. *)
Theorem c07_world_cache_same_verdict :
  forall (H K : str -> str) tmo0 cf0 bc0 ops,
    (forall a b, wreq_in ops a -> wreq_in ops b -> K (q_prompt a) = K (q_prompt b) -> q_prompt a = q_prompt b) ->
    forall i cf bc e q rp,
      nth_error (unworld (wtrace H K tmo0 cf0 bc0 ops)) i = Some (RvOp cf bc e) -> xreply e = Some (q, rp) ->
      r_cached rp = true ->
      exists j ej cfj qj rj tj,
        (j < i)%nat /\ nth_error (unworld (wtrace H K tmo0 cf0 bc0 ops)) j = Some ej /\
        rreply ej = Some (cfj, qj, rj) /\
        rdone_at ej = Some tj /\ q_prompt qj = q_prompt q /\ r_cached rj = false /\
        r_core rp = r_core rj /\ r_core rj = outcome H cfj qj /\
        q_time q - tj < cf_ttl cf /\ cf_cache cf = true /\
        r_exec_called rp = false /\ r_assess_called rp = false.
Proof. exact world_cache_same_verdict_proof. Qed.
Print Assumptions c07_world_cache_same_verdict.

(* Token conjunct, with agents at large: a token is attached only when the assessor said PERMIT to this
   prompt, is bound to the hash of exactly this prompt, and its issuer is the name of the loop's assessor
   in force when the reply was decided - never what a protein says about its own origin. *)
Theorem c07_world_token_bound :
  forall (H K : str -> str) tmo0 cf0 bc0 ops,
    (forall a b, wreq_in ops a -> wreq_in ops b -> K (q_prompt a) = K (q_prompt b) -> q_prompt a = q_prompt b) ->
    forall i cf bc e q rp t,
      nth_error (unworld (wtrace H K tmo0 cf0 bc0 ops)) i = Some (RvOp cf bc e) -> xreply e = Some (q, rp) ->
      c_token (r_core rp) = Some t ->
      tk_hash t = H (q_prompt q) /\ c_blocked (r_core rp) = false /\
      exists j ej cfj qj rj,
        (j <= i)%nat /\ nth_error (unworld (wtrace H K tmo0 cf0 bc0 ops)) j = Some ej /\
        rreply ej = Some (cfj, qj, rj) /\
        q_prompt qj = q_prompt q /\ r_cached rj = false /\ (r_cached rp = false -> j = i /\ cfj = cf) /\
        q_assess qj = VPermit /\ tk_issuer t = cf_assessor cfj.
Proof. exact world_token_bound_proof. Qed.
Print Assumptions c07_world_token_bound.

(* Two loop objects with agents at large: still no influence. *)
Theorem c07_world_loops_isolated :
  forall (H K : str -> str) tmo0 tmo1 cf0 cf1 bc0 bc1 tops,
    proj false (wsys_trace H K tmo0 tmo1 cf0 cf1 bc0 bc1 tops) = wtrace H K tmo0 cf0 bc0 (proj false tops) /\
    proj true (wsys_trace H K tmo0 tmo1 cf0 cf1 bc0 bc1 tops) = wtrace H K tmo1 cf1 bc1 (proj true tops).
Proof. exact world_loops_isolated_proof. Qed.
Print Assumptions c07_world_loops_isolated.

(* Generated-data obligations: the table obtained on this run by calling the
   real _apply_gate_logic on every combination is the model's gate, and it
   mentions all 6 x 7 x 7 combinations of returned verdicts. *)
Theorem Gen_C07_ok : forallb (agrees gate) gen_table = true.
Proof. exact gen_table_agrees_proof. Qed.
Print Assumptions Gen_C07_ok.

Theorem Gen_C07_complete : covers gen_table = true.
Proof. exact gen_table_complete_proof. Qed.
Print Assumptions Gen_C07_complete.
