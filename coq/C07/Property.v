(* C07 — property theorems only.  Each is closed by [exact] of a lemma from
   Proofs.v and followed by Print Assumptions.

   Vocabulary (Model.v): [gate l z y] is the decision of one uncached request
   under gate logic [l] when the executor's call produced [z] and the
   assessor's produced [y] ([VRaised] = the call raised); [outcome H cf q] is
   the LoopResult core (success, action, blocked, token) built from it, with
   [H] = sha256(.)[:16]; [trace H K cf qs] is the list of (request, reply)
   pairs of a whole history [qs] against one loop object with configuration
   [cf], [K] = md5(.)[:16] being the cache key.
   [spec_pass] (Proofs.v) is the table of the property text, transcribed
   independently of the code. *)
From Coq Require Import ZArith List Bool.
From Verif Require Import C07.Model C07.Proofs gen.Gen_C07.
Import ListNotations.
Open Scope Z_scope.

(* Not-blocked iff the pair of verdicts satisfies the configured logic — all 6
   logics x all 8 x 8 verdicts (finite domain, closed by case analysis). *)
Theorem c07_pass_iff :
  forall l z y, g_blocked (gate l z y) = false <-> spec_pass l z y = true.
Proof. exact pass_iff_proof. Qed.
Print Assumptions c07_pass_iff.

(* Any agent exception yields the blocked ERROR result, under every logic and
   whatever the other agent said. *)
Theorem c07_exception_blocks :
  forall l z y, z = VRaised \/ y = VRaised ->
    gate l z y = mkG false AError true false.
Proof. exact exception_blocks_proof. Qed.
Print Assumptions c07_exception_blocks.

(* Unknown verdicts (DEFER, UNKNOWN, any other string) never count as an
   approval: two unknown verdicts are blocked under every logic; under the
   two-key logics (AND, UNANIMOUS, and MAJORITY) one unknown verdict is enough
   to block; and under the one-key logics a request with an unknown verdict
   passes only on the strength of the OTHER agent's verdict, in exactly the
   cases the statement allows. *)
Theorem c07_unknown_blocks :
  forall l z y,
    (is_unknown z = true -> is_unknown y = true -> g_blocked (gate l z y) = true) /\
    ((l = LAnd \/ l = LUnanimous \/ l = LMajority) ->
       is_unknown z = true \/ is_unknown y = true -> g_blocked (gate l z y) = true) /\
    (is_unknown z = true -> g_blocked (gate l z y) = false ->
       (l = LOr \/ l = LAssessPrio) /\ y = VPermit) /\
    (is_unknown y = true -> g_blocked (gate l z y) = false ->
       (l = LOr \/ l = LExecPrio) /\ (z = VExecute \/ z = VPermit)).
Proof. exact unknown_blocks_proof. Qed.
Print Assumptions c07_unknown_blocks.

(* The approval token of an uncached reply: present only if the assessor's
   verdict is PERMIT (and the result is not blocked), and then it is exactly
   (H of this request's prompt, the assessor's name); conversely a not-blocked
   result with assessor PERMIT always carries it. *)
Theorem c07_token_iff_assessor_permit :
  forall (H : str -> str) cf q,
    let c := outcome H cf q in
    (forall t, c_token c = Some t ->
       q_assess q = VPermit /\ c_blocked c = false /\
       tk_hash t = H (q_prompt q) /\ tk_issuer t = cf_assessor cf) /\
    (q_assess q = VPermit -> c_blocked c = false ->
       c_token c = Some (mkToken (H (q_prompt q)) (cf_assessor cf))).
Proof. exact token_iff_proof. Qed.
Print Assumptions c07_token_iff_assessor_permit.

(* In any history, a reply that is not served from the cache is the gate's
   outcome on what the two agents said at that very request (so the four
   theorems above apply to it), the executor was asked, and the assessor was
   asked unless the executor raised. *)
Theorem c07_fresh_reply_is_gate :
  forall (H K : str -> str) cf qs i qi ri,
    nth_error (trace H K cf qs) i = Some (qi, ri) -> r_cached ri = false ->
    r_core ri = outcome H cf qi /\ r_exec_called ri = true /\
    r_assess_called ri = negb (raised (q_exec qi)).
Proof. exact fresh_reply_proof. Qed.
Print Assumptions c07_fresh_reply_is_gate.

(* Cached replies are identical in verdict to the original: for every history
   (any length, any clock values, any agent behaviour) on whose prompts the
   cache key is injective, a reply served from the cache has the same core
   (success, action, blocked, token) as an EARLIER, UNCACHED reply to the SAME
   prompt — which was the gate's outcome at that request — it is served within
   the TTL of that reply, and neither agent is invoked for it. *)
Theorem c07_cache_same_verdict :
  forall (H K : str -> str) cf qs,
    (forall a b, In a qs -> In b qs -> K (q_prompt a) = K (q_prompt b) -> q_prompt a = q_prompt b) ->
    forall i qi ri, nth_error (trace H K cf qs) i = Some (qi, ri) -> r_cached ri = true ->
      exists j qj rj,
        (j < i)%nat /\ nth_error (trace H K cf qs) j = Some (qj, rj) /\
        q_prompt qj = q_prompt qi /\ r_cached rj = false /\
        r_core ri = r_core rj /\ r_core rj = outcome H cf qj /\
        q_time qi - q_time qj < cf_ttl cf /\
        r_exec_called ri = false /\ r_assess_called ri = false.
Proof. exact cache_same_verdict_proof. Qed.
Print Assumptions c07_cache_same_verdict.

(* The same without the injectivity assumption: what is shared is the key. *)
Theorem c07_cache_same_key :
  forall (H K : str -> str) cf qs i qi ri,
    nth_error (trace H K cf qs) i = Some (qi, ri) -> r_cached ri = true ->
      exists j qj rj,
        (j < i)%nat /\ nth_error (trace H K cf qs) j = Some (qj, rj) /\
        K (q_prompt qj) = K (q_prompt qi) /\ r_cached rj = false /\
        r_core ri = r_core rj /\ r_core rj = outcome H cf qj /\
        q_time qi - q_time qj < cf_ttl cf /\
        r_exec_called ri = false /\ r_assess_called ri = false.
Proof. exact cache_same_key_proof. Qed.
Print Assumptions c07_cache_same_key.

(* Whole-history form of the first conjunct: EVERY reply of every history,
   cached or not, that is not blocked goes back to a request (itself when
   uncached) at which the agents' verdicts satisfied the configured logic. *)
Theorem c07_history_pass_only_if :
  forall (H K : str -> str) cf qs i qi ri,
    nth_error (trace H K cf qs) i = Some (qi, ri) -> c_blocked (r_core ri) = false ->
    exists j qj rj,
      (j <= i)%nat /\ nth_error (trace H K cf qs) j = Some (qj, rj) /\
      K (q_prompt qj) = K (q_prompt qi) /\ r_cached rj = false /\
      (r_cached ri = false -> j = i) /\
      spec_pass (cf_logic cf) (q_exec qj) (q_assess qj) = true.
Proof. exact history_pass_only_if_proof. Qed.
Print Assumptions c07_history_pass_only_if.

(* Whole-history form of the token conjunct: every token on every reply,
   cached or not, is bound to the hash of exactly the prompt being answered,
   names the assessor, sits on a not-blocked reply, and the assessor said
   PERMIT to this prompt when it was asked. *)
Theorem c07_history_token_bound :
  forall (H K : str -> str) cf qs,
    (forall a b, In a qs -> In b qs -> K (q_prompt a) = K (q_prompt b) -> q_prompt a = q_prompt b) ->
    forall i qi ri t, nth_error (trace H K cf qs) i = Some (qi, ri) ->
      c_token (r_core ri) = Some t ->
      tk_hash t = H (q_prompt qi) /\ tk_issuer t = cf_assessor cf /\
      c_blocked (r_core ri) = false /\
      exists j qj rj,
        (j <= i)%nat /\ nth_error (trace H K cf qs) j = Some (qj, rj) /\
        q_prompt qj = q_prompt qi /\ r_cached rj = false /\ q_assess qj = VPermit.
Proof. exact history_token_bound_proof. Qed.
Print Assumptions c07_history_token_bound.

(* Generated-data obligations: the table obtained on this run by calling the
   real _apply_gate_logic on every combination is the model's gate, and it
   mentions all 6 x 7 x 7 combinations of returned verdicts. *)
Theorem Gen_C07_ok : forallb (agrees gate) gen_table = true.
Proof. exact gen_table_agrees_proof. Qed.
Print Assumptions Gen_C07_ok.

Theorem Gen_C07_complete : covers gen_table = true.
Proof. exact gen_table_complete_proof. Qed.
Print Assumptions Gen_C07_complete.
