(* C07 — proofs about histories in which the configuration of a LIVE loop object is changed
   (Model.v, Section Reconf): between any two operations - also while requests are in flight -
   the caller may assign gate_logic, assessor.name, enable_cache, cache_ttl,
   enable_circuit_breaker, failure_threshold, recovery_timeout.  The cache provenance invariant
   of Proofs.v (Section OverlapProofs) is carried over with the configuration no longer fixed:
   a cache entry holds the own gate outcome of an earlier request UNDER THE CONFIGURATION IN
   FORCE WHEN THAT REPLY WAS PRODUCED. *)
From Coq Require Import ZArith List Bool Lia.
From Verif Require Import Common.Corr C07.Model C07.Proofs.
Import ListNotations.
Open Scope Z_scope.

(* the requests of a history with reconfiguration *)
Definition rreq_in (ops : list rop) (q : req) : Prop :=
  In (RX (XAtomic (OReq q))) ops \/ exists id, In (RX (XBegin id q)) ops.

Section ReconfProofs.
  Variable H : str -> str.
  Variable K : str -> str.

  (* ---- histories without an assignment are the overlapping histories of Proofs.v ---- *)

  Lemma rtrace_no_set_from :
    forall ops cf bc x,
      rtrace_from H K (cf, bc, x) (map RX ops) = map (RvOp cf bc) (xtrace_from H K cf bc x ops).
  Proof.
    induction ops as [|o rest IH]; intros cf bc x; [reflexivity|].
    cbn [map rtrace_from rstep xtrace_from].
    destruct (xstep H K cf bc x o) as [x' e]. cbn [map]. rewrite IH. reflexivity.
  Qed.

  Lemma reconf_none_is_overlap_proof :
    forall cf bc ops, rtrace H K cf bc (map RX ops) = map (RvOp cf bc) (xtrace H K cf bc ops).
  Proof. intros cf bc ops. apply rtrace_no_set_from. Qed.

  (* ---- an assignment changes the configuration and nothing else ---- *)

  Lemma reconf_set_step_proof :
    forall cf bc x s,
      rstep H K (cf, bc, x) (RSet s) =
      (fst (apply_setting s (cf, bc)), snd (apply_setting s (cf, bc)), x,
       RvSet (fst (apply_setting s (cf, bc))) (snd (apply_setting s (cf, bc))) (length (fst (fst x)))).
  Proof.
    intros cf bc x s. cbn [rstep]. destruct (apply_setting s (cf, bc)) as [cf' bc']. reflexivity.
  Qed.

  (* ---- the configuration in force at an event ---- *)

  Lemma rtrace_from_config :
    forall ops cf bc x i e,
      nth_error (rtrace_from H K (cf, bc, x) ops) i = Some e ->
      rev_config e = config_after (cf, bc) (firstn (S i) ops).
  Proof.
    induction ops as [|o rest IH]; intros cf bc x i e Hn; [destruct i; discriminate|].
    cbn [rtrace_from] in Hn.
    destruct (rstep H K (cf, bc, x) o) as [r' e0] eqn:Hs.
    destruct o as [a|s]; cbn [rstep] in Hs.
    - destruct (xstep H K cf bc x a) as [x' e1]. inversion Hs; subst; clear Hs.
      destruct i as [|i].
      + cbn in Hn. inversion Hn; subst. reflexivity.
      + cbn [nth_error] in Hn. change (firstn (S (S i)) (RX a :: rest)) with (RX a :: firstn (S i) rest).
        cbn [config_after]. eapply IH; exact Hn.
    - destruct (apply_setting s (cf, bc)) as [cf' bc'] eqn:Ea. inversion Hs; subst; clear Hs.
      destruct i as [|i].
      + cbn in Hn. inversion Hn; subst. cbn [rev_config firstn config_after]. rewrite Ea. reflexivity.
      + cbn [nth_error] in Hn. change (firstn (S (S i)) (RSet s :: rest)) with (RSet s :: firstn (S i) rest).
        cbn [config_after]. rewrite Ea. eapply IH; exact Hn.
  Qed.

  Lemma reconf_config_in_force_proof :
    forall cf0 bc0 ops i e,
      nth_error (rtrace H K cf0 bc0 ops) i = Some e ->
      rev_config e = config_after (cf0, bc0) (firstn (S i) ops).
  Proof. intros cf0 bc0 ops i e Hn. eapply rtrace_from_config; exact Hn. Qed.

  (* ---- every reply of a history with reconfiguration ---- *)

  (* a cache entry was stored by a request of the history that went to the agents, holds that
     request's own reply - the gate's outcome under the configuration in force when it was
     produced - and is stamped with the clock value of that moment *)
  Definition rentry_ok (tr : list rev) (e : entry) : Prop :=
    exists j ej cfj qj rj,
      nth_error tr j = Some ej /\ rreply ej = Some (cfj, qj, rj) /\ rdone_at ej = Some (snd (snd e)) /\
      xfresh H cfj qj rj /\ K (q_prompt qj) = fst e /\ r_core rj = fst (snd e).

  Definition RInv (tr : list rev) (c : cache) : Prop := forall e, In e c -> rentry_ok tr e.

  (* reply [rp] to request [q] at position [i], produced under configuration [cf]: the breaker's
     rejection, or the request's own gate outcome under [cf], or the reply of an EARLIER COMPLETED
     request with the same key (its own gate outcome under the configuration of ITS moment),
     served within the TTL now in force, the cache being enabled now *)
  Definition rjustified (tr : list rev) (i : nat) (cf : config) (q : req) (rp : reply) : Prop :=
    (exists n, rp = rejected_reply n) \/
    xfresh H cf q rp \/
    (r_cached rp = true /\
     exists j ej cfj qj rj tj,
       (j < i)%nat /\ nth_error tr j = Some ej /\ rreply ej = Some (cfj, qj, rj) /\ rdone_at ej = Some tj /\
       xfresh H cfj qj rj /\ K (q_prompt qj) = K (q_prompt q) /\ r_core rp = r_core rj /\
       q_time q - tj < cf_ttl cf /\ cf_cache cf = true /\
       r_exec_called rp = false /\ r_assess_called rp = false /\ r_shown rp = None).

  Lemma rentry_ok_app : forall tr l e, rentry_ok tr e -> rentry_ok (tr ++ l) e.
  Proof.
    intros tr l e (j & ej & cfj & qj & rj & Hn & rest).
    exists j, ej, cfj, qj, rj. split; [|exact rest].
    rewrite nth_error_app1; [exact Hn|]. apply nth_error_Some. congruence.
  Qed.

  Lemma RInv_app : forall tr l c, RInv tr c -> RInv (tr ++ l) c.
  Proof. intros tr l c HI e He. apply rentry_ok_app, HI, He. Qed.

  Lemma RInv_sub : forall tr c c', RInv tr c -> (forall e, In e c' -> In e c) -> RInv tr c'.
  Proof. intros tr c c' HI Hs e He. apply HI, Hs, He. Qed.

  Lemma rhit_justified :
    forall tr tl c cf q res n ehit,
      RInv tr c ->
      (exists ts, In (K (q_prompt q), (res, ts)) c /\ q_time q - ts < cf_ttl cf /\ cf_cache cf = true) ->
      rjustified (tr ++ ehit :: tl) (length tr) cf q (hit_reply res n).
  Proof.
    intros tr tl c cf q res n ehit HI (ts & Hin & Ht & Hc).
    right; right. split; [reflexivity|].
    destruct (HI _ Hin) as (j & ej & cfj & qj & rj & Hn & Hr & Hd & Hf & Hk & Hcore).
    cbn [fst snd] in *.
    assert (Hj : (j < length tr)%nat) by (apply nth_error_Some; congruence).
    exists j, ej, cfj, qj, rj, ts.
    split; [exact Hj|]. split; [rewrite nth_error_app1 by exact Hj; exact Hn|].
    split; [exact Hr|]. split; [exact Hd|]. split; [exact Hf|]. split; [exact Hk|].
    split; [cbn; symmetry; exact Hcore|]. split; [exact Ht|]. split; [exact Hc|].
    cbn. auto.
  Qed.

  Lemma rleave_ok :
    forall tr cf bc c b q now c2 b2 rp e,
      RInv tr c -> leave H K cf bc (c, b) q now = ((c2, b2), rp) ->
      xreply e = Some (q, rp) -> xdone_at e = Some now ->
      xfresh H cf q rp /\ RInv (tr ++ [RvOp cf bc e]) c2.
  Proof.
    intros tr cf bc c b q now c2 b2 rp e HI Hl Hr Hd.
    destruct (leave_spec H K cf bc c b q now c2 b2 rp Hl) as [Hf Hc].
    split; [exact Hf|].
    intros x Hx. destruct (Hc x Hx) as [-> | Hin].
    - exists (length tr), (RvOp cf bc e), cf, q, rp.
      split; [apply nth_error_here|]. split; [cbn [rreply]; rewrite Hr; reflexivity|].
      split; [exact Hd|]. split; [exact Hf|]. split; [reflexivity|].
      destruct Hf as (_ & Hcore & _). exact Hcore.
    - apply rentry_ok_app, HI, Hin.
  Qed.

  (* one operation under the configuration [cf]/[bc] in force *)
  Lemma rxstep_ok :
    forall tr cf bc s pend o s' pend' e,
      RInv tr (fst s) -> xstep H K cf bc (s, pend) o = ((s', pend'), e) ->
      (forall q rp tl, xreply e = Some (q, rp) -> rjustified (tr ++ RvOp cf bc e :: tl) (length tr) cf q rp) /\
      RInv (tr ++ [RvOp cf bc e]) (fst s').
  Proof.
    intros tr cf bc [c b] pend o s' pend' e HI Hs. cbn [fst] in HI.
    destruct o as [a | id q | id now]; cbn [xstep] in Hs.
    - destruct a as [q| | |]; cbn [bstep_op] in Hs.
      + rewrite bstep_split in Hs.
        destruct (enter K cf bc (c, b) (q_prompt q) (q_time q)) as [[c1 b1] r] eqn:Ee.
        destruct (enter_spec _ _ _ _ _ _ _ _ _ _ Ee) as [Hsub Hhit].
        destruct r as [|res|].
        * inversion Hs; subst; clear Hs. cbn [fst]. split.
          -- intros q' rp' tl Hr. cbn in Hr. inversion Hr; subst. left. eexists; reflexivity.
          -- apply RInv_app. eapply RInv_sub; eassumption.
        * inversion Hs; subst; clear Hs. cbn [fst]. split.
          -- intros q' rp' tl Hr. cbn in Hr. inversion Hr; subst.
             eapply rhit_justified; [exact HI | apply Hhit; reflexivity].
          -- apply RInv_app. eapply RInv_sub; eassumption.
        * destruct (leave H K cf bc (c1, b1) q (q_time q)) as [[c2 b2] rp] eqn:El.
          inversion Hs; subst; clear Hs. cbn [fst].
          assert (HI1 : RInv tr c1) by (eapply RInv_sub; eassumption).
          destruct (rleave_ok tr cf bc c1 b1 q (q_time q) c2 b2 rp
                      (EvAtomic (OReq q, Some rp, length c2, true)) HI1 El eq_refl eq_refl) as [Hf HI2].
          split; [|exact HI2].
          intros q' rp' tl Hr. cbn in Hr. inversion Hr; subst. right; left. exact Hf.
      + inversion Hs; subst; clear Hs. cbn [fst]. split; [intros q rp tl Hr; discriminate | intros x []].
      + inversion Hs; subst; clear Hs. cbn [fst]. split; [intros q rp tl Hr; discriminate | apply RInv_app, HI].
      + inversion Hs; subst; clear Hs. cbn [fst]. split; [intros q rp tl Hr; discriminate | apply RInv_app, HI].
    - destruct (enter K cf bc (c, b) (q_prompt q) (q_time q)) as [[c1 b1] r] eqn:Ee.
      destruct (enter_spec _ _ _ _ _ _ _ _ _ _ Ee) as [Hsub Hhit].
      destruct r as [|res|]; inversion Hs; subst; clear Hs; cbn [fst]; split.
      + intros q' rp' tl Hr. cbn in Hr. inversion Hr; subst. left. eexists; reflexivity.
      + apply RInv_app. eapply RInv_sub; eassumption.
      + intros q' rp' tl Hr. cbn in Hr. inversion Hr; subst.
        eapply rhit_justified; [exact HI | apply Hhit; reflexivity].
      + apply RInv_app. eapply RInv_sub; eassumption.
      + intros q' rp' tl Hr. discriminate.
      + apply RInv_app. eapply RInv_sub; eassumption.
    - destruct (pending_find id pend) as [q|].
      + destruct (leave H K cf bc (c, b) q now) as [[c2 b2] rp] eqn:El.
        inversion Hs; subst; clear Hs. cbn [fst].
        destruct (rleave_ok tr cf bc c b q now c2 b2 rp (EvCompleted id q now rp) HI El eq_refl eq_refl) as [Hf HI2].
        split; [|exact HI2].
        intros q' rp' tl Hr. cbn in Hr. inversion Hr; subst. right; left. exact Hf.
      + inversion Hs; subst; clear Hs. cbn [fst].
        split; [intros q rp tl Hr; discriminate | apply RInv_app, HI].
  Qed.

  Lemma rtrace_from_justified :
    forall ops tr cf bc s pend, RInv tr (fst s) ->
      forall i cfi bci e q rp,
        nth_error (rtrace_from H K (cf, bc, (s, pend)) ops) i = Some (RvOp cfi bci e) -> xreply e = Some (q, rp) ->
        rjustified (tr ++ rtrace_from H K (cf, bc, (s, pend)) ops) (length tr + i) cfi q rp.
  Proof.
    induction ops as [|o rest IH]; intros tr cf bc s pend HI i cfi bci e q rp Hn Hr.
    - destruct i; discriminate.
    - cbn [rtrace_from] in *.
      destruct (rstep H K (cf, bc, (s, pend)) o) as [r' e0] eqn:Hs.
      destruct o as [a|st]; cbn [rstep] in Hs.
      + destruct (xstep H K cf bc (s, pend) a) as [[s' pend'] e1] eqn:Hx.
        inversion Hs; subst r' e0; clear Hs.
        destruct (rxstep_ok tr cf bc s pend a s' pend' e1 HI Hx) as [Hj HI'].
        destruct i as [|i].
        * cbn in Hn. inversion Hn; subst cfi bci e1. rewrite Nat.add_0_r. apply Hj. exact Hr.
        * cbn [nth_error] in Hn.
          pose proof (IH (tr ++ [RvOp cf bc e1]) cf bc s' pend' HI' i cfi bci e q rp Hn Hr) as J.
          rewrite <- app_assoc in J. cbn [app] in J.
          rewrite app_length in J. cbn [length] in J.
          replace (length tr + 1 + i)%nat with (length tr + S i)%nat in J by lia. exact J.
      + destruct (apply_setting st (cf, bc)) as [cf' bc'] eqn:Ea.
        inversion Hs; subst r' e0; clear Hs.
        destruct i as [|i]; [cbn in Hn; discriminate Hn|].
        cbn [nth_error] in Hn.
        assert (HI' : RInv (tr ++ [RvSet cf' bc' (length (fst (fst (s, pend))))]) (fst s)) by (apply RInv_app, HI).
        pose proof (IH _ cf' bc' s pend HI' i cfi bci e q rp Hn Hr) as J.
        rewrite <- app_assoc in J. cbn [app] in J.
        rewrite app_length in J. cbn [length] in J.
        replace (length tr + 1 + i)%nat with (length tr + S i)%nat in J by lia. exact J.
  Qed.

  Lemma reconf_justified_proof :
    forall cf0 bc0 ops i cf bc e q rp,
      nth_error (rtrace H K cf0 bc0 ops) i = Some (RvOp cf bc e) -> xreply e = Some (q, rp) ->
      rjustified (rtrace H K cf0 bc0 ops) i cf q rp.
  Proof.
    intros cf0 bc0 ops i cf bc e q rp Hn Hr.
    exact (rtrace_from_justified ops [] cf0 bc0 ([], brk0) [] (fun x (F : In x []) => match F with end)
                                 i cf bc e q rp Hn Hr).
  Qed.

  (* ---- whose request a reply answers ---- *)

  (* one step: where the request of a reply comes from ... *)
  Lemma xstep_origin :
    forall cf bc s pend o s' pend' e q rp,
      xstep H K cf bc (s, pend) o = ((s', pend'), e) -> xreply e = Some (q, rp) ->
      o = XAtomic (OReq q) \/ (exists id, o = XBegin id q) \/
      (exists id now, e = EvCompleted id q now rp /\ o = XEnd id now /\ In (id, q) pend).
  Proof.
    intros cf bc s pend o s' pend' e q rp Hs Hr.
    destruct o as [a | id q0 | id now]; cbn [xstep] in Hs.
    - destruct (bstep_op H K cf bc s a) as [s1 e1] eqn:Eb. inversion Hs; subst; clear Hs.
      destruct a as [q0| | |]; cbn [bstep_op] in Eb.
      + destruct (bstep H K cf bc s q0) as [[s2 rp2] adm]. inversion Eb; subst.
        cbn in Hr. inversion Hr; subst. left; reflexivity.
      + inversion Eb; subst. discriminate Hr.
      + inversion Eb; subst. discriminate Hr.
      + inversion Eb; subst. discriminate Hr.
    - destruct (enter K cf bc s (q_prompt q0) (q_time q0)) as [s1 r].
      destruct r; inversion Hs; subst; clear Hs; cbn in Hr; try discriminate;
        inversion Hr; subst; right; left; exists id; reflexivity.
    - destruct (pending_find id pend) as [q0|] eqn:Ef.
      + destruct (leave H K cf bc s q0 now) as [s2 rp2]. inversion Hs; subst; clear Hs.
        cbn in Hr. inversion Hr; subst. right; right. exists id, now.
        split; [reflexivity|]. split; [reflexivity|]. apply pending_find_In. exact Ef.
      + inversion Hs; subst. discriminate Hr.
  Qed.

  (* ... and which requests are in flight afterwards *)
  Lemma xstep_pending :
    forall cf bc s pend o s' pend' e id q,
      xstep H K cf bc (s, pend) o = ((s', pend'), e) -> In (id, q) pend' ->
      In (id, q) pend \/ o = XBegin id q.
  Proof.
    intros cf bc s pend o s' pend' e id q Hs Hi.
    destruct o as [a | id0 q0 | id0 now]; cbn [xstep] in Hs.
    - destruct (bstep_op H K cf bc s a) as [s1 e1]. inversion Hs; subst. left; exact Hi.
    - destruct (enter K cf bc s (q_prompt q0) (q_time q0)) as [s1 r].
      destruct r; inversion Hs; subst; clear Hs.
      + left; exact Hi.
      + left; exact Hi.
      + destruct Hi as [Hi|Hi]; [inversion Hi; subst; right; reflexivity | left; exact Hi].
    - destruct (pending_find id0 pend) as [q0|].
      + destruct (leave H K cf bc s q0 now) as [s2 rp2]. inversion Hs; subst.
        left. eapply In_pending_remove; exact Hi.
      + inversion Hs; subst. left; exact Hi.
  Qed.

  Definition RPInv (pre : list rop) (pend : pending) : Prop :=
    forall id q, In (id, q) pend -> In (RX (XBegin id q)) pre.

  Definition rorigin (i : nat) (ops pre : list rop) (e : xev) (q : req) : Prop :=
    nth_error ops i = Some (RX (XAtomic (OReq q))) \/
    (exists id, nth_error ops i = Some (RX (XBegin id q))) \/
    (exists id now rp, e = EvCompleted id q now rp /\ nth_error ops i = Some (RX (XEnd id now)) /\
                       In (RX (XBegin id q)) (pre ++ firstn i ops)).

  Lemma rtrace_from_origin :
    forall ops pre cf bc s pend, RPInv pre pend ->
      forall i cfi bci e q rp,
        nth_error (rtrace_from H K (cf, bc, (s, pend)) ops) i = Some (RvOp cfi bci e) -> xreply e = Some (q, rp) ->
        rorigin i ops pre e q.
  Proof.
    induction ops as [|o rest IH]; intros pre cf bc s pend HP i cfi bci e q rp Hn Hr.
    - destruct i; discriminate.
    - cbn [rtrace_from] in Hn.
      destruct (rstep H K (cf, bc, (s, pend)) o) as [r' e0] eqn:Hs.
      destruct o as [a|st]; cbn [rstep] in Hs.
      + destruct (xstep H K cf bc (s, pend) a) as [[s' pend'] e1] eqn:Hx.
        inversion Hs; subst r' e0; clear Hs.
        destruct i as [|i].
        * cbn in Hn. inversion Hn; subst cfi bci e1; clear Hn. unfold rorigin. cbn [nth_error firstn].
          destruct (xstep_origin _ _ _ _ _ _ _ _ _ _ Hx Hr) as [-> | [(id & ->) | (id & now & -> & -> & Hin)]].
          -- left; reflexivity.
          -- right; left. exists id; reflexivity.
          -- right; right. exists id, now, rp. split; [reflexivity|]. split; [reflexivity|].
             rewrite app_nil_r. apply HP. exact Hin.
        * cbn [nth_error] in Hn.
          assert (HP' : RPInv (pre ++ [RX a]) pend').
          { intros id1 q1 Hi. apply in_or_app.
            destruct (xstep_pending _ _ _ _ _ _ _ _ _ _ Hx Hi) as [Hp | ->].
            - left. apply HP; exact Hp.
            - right; left; reflexivity. }
          pose proof (IH (pre ++ [RX a]) cf bc s' pend' HP' i cfi bci e q rp Hn Hr) as J.
          unfold rorigin in *. cbn [nth_error firstn].
          destruct J as [J | [J | (id & now & rp' & J1 & J2 & J3)]]; [left; exact J | right; left; exact J |].
          right; right. exists id, now, rp'. split; [exact J1|]. split; [exact J2|].
          rewrite <- app_assoc in J3. exact J3.
      + destruct (apply_setting st (cf, bc)) as [cf' bc'] eqn:Ea.
        inversion Hs; subst r' e0; clear Hs.
        destruct i as [|i]; [cbn in Hn; discriminate Hn|].
        cbn [nth_error] in Hn.
        assert (HP' : RPInv (pre ++ [RSet st]) pend).
        { intros id1 q1 Hi. apply in_or_app. left. apply HP; exact Hi. }
        pose proof (IH (pre ++ [RSet st]) cf' bc' s pend HP' i cfi bci e q rp Hn Hr) as J.
        unfold rorigin in *. cbn [nth_error firstn].
        destruct J as [J | [J | (id & now & rp' & J1 & J2 & J3)]]; [left; exact J | right; left; exact J |].
        right; right. exists id, now, rp'. split; [exact J1|]. split; [exact J2|].
        rewrite <- app_assoc in J3. exact J3.
  Qed.

  Lemma rreply_req_in :
    forall cf0 bc0 ops i cf bc e q rp,
      nth_error (rtrace H K cf0 bc0 ops) i = Some (RvOp cf bc e) -> xreply e = Some (q, rp) -> rreq_in ops q.
  Proof.
    intros cf0 bc0 ops i cf bc e q rp Hn Hr.
    destruct (rtrace_from_origin ops [] cf0 bc0 ([], brk0) [] (fun id q (F : In (id, q) []) => match F with end)
                                 i cf bc e q rp Hn Hr) as [J | [(id & J) | (id & now & rp' & _ & _ & J)]].
    - left. eapply nth_error_In; exact J.
    - right. exists id. eapply nth_error_In; exact J.
    - right. exists id. cbn [app] in J. eapply In_firstn; exact J.
  Qed.

  Lemma rreply_inv :
    forall e cf q rp, rreply e = Some (cf, q, rp) ->
      exists bc x, e = RvOp cf bc x /\ xreply x = Some (q, rp).
  Proof.
    intros e cf q rp E. destruct e as [cf' bc' x | cf' bc' n]; cbn [rreply] in E; [|discriminate].
    destruct (xreply x) as [[q' rp']|] eqn:Ex; [|discriminate].
    inversion E; subst. exists bc', x. split; [reflexivity | exact Ex].
  Qed.

  (* ---- the conjuncts of the property, for histories with reconfiguration ---- *)

  Lemma rtrace_from_nth_op :
    forall ops r i cf bc e, nth_error (rtrace_from H K r ops) i = Some (RvOp cf bc e) ->
      exists x a, nth_error ops i = Some (RX a) /\ e = snd (xstep H K cf bc x a).
  Proof.
    induction ops as [|o rest IH]; intros r i cf bc e Hn; [destruct i; discriminate|].
    cbn [rtrace_from] in Hn. destruct (rstep H K r o) as [r' e0] eqn:Hs.
    destruct i as [|i].
    - cbn in Hn. inversion Hn; subst e0. destruct r as [[cf1 bc1] x].
      destruct o as [a|st]; cbn [rstep] in Hs.
      + destruct (xstep H K cf1 bc1 x a) as [x' e1] eqn:Hx. inversion Hs; subst.
        exists x, a. split; [reflexivity|]. rewrite Hx. reflexivity.
      + destruct (apply_setting st (cf1, bc1)). inversion Hs.
    - cbn [nth_error] in Hn. eapply IH; exact Hn.
  Qed.

  Lemma config_after_firstn_RX :
    forall ops cb i a, nth_error ops i = Some (RX a) ->
      config_after cb (firstn (S i) ops) = config_after cb (firstn i ops).
  Proof.
    induction ops as [|o rest IH]; intros cb i a J; [destruct i; discriminate|].
    destruct i as [|i].
    - cbn in J. inversion J; subst o. reflexivity.
    - cbn [nth_error] in J.
      change (firstn (S (S i)) (o :: rest)) with (o :: firstn (S i) rest).
      change (firstn (S i) (o :: rest)) with (o :: firstn i rest).
      destruct o as [a0|st]; cbn [config_after]; eapply IH; exact J.
  Qed.

  (* a request that was in flight returns with the gate's outcome on ITS prompt and ITS agents'
     answers under the configuration in force WHEN IT RETURNS *)
  Lemma reconf_completed_is_own_gate_proof :
    forall cf0 bc0 ops i cf bc id q now rp,
      nth_error (rtrace H K cf0 bc0 ops) i = Some (RvOp cf bc (EvCompleted id q now rp)) ->
      nth_error ops i = Some (RX (XEnd id now)) /\ In (RX (XBegin id q)) (firstn i ops) /\
      (cf, bc) = config_after (cf0, bc0) (firstn i ops) /\
      r_cached rp = false /\ r_core rp = outcome H cf q /\ r_exec_called rp = true /\
      r_assess_called rp = negb (raised (q_exec q)) /\ r_shown rp = Some (q_prompt q).
  Proof.
    intros cf0 bc0 ops i cf bc id q now rp Hn.
    destruct (rtrace_from_nth_op ops _ i cf bc _ Hn) as (x' & a & Ho & He).
    symmetry in He. destruct (xstep_completed_shape H K cf bc x' a id q now rp He) as (-> & Hx & Hc).
    split; [exact Ho|].
    destruct (rtrace_from_origin ops [] cf0 bc0 ([], brk0) [] (fun id q (F : In (id, q) []) => match F with end)
                                 i cf bc _ q rp Hn eq_refl) as [J | [(id' & J) | (id' & now' & rp' & J1 & J2 & J3)]].
    - rewrite Ho in J. discriminate J.
    - rewrite Ho in J. discriminate J.
    - inversion J1; subst id' now' rp'. cbn [app] in J3. split; [exact J3|].
      split.
      { pose proof (reconf_config_in_force_proof cf0 bc0 ops i _ Hn) as C. cbn [rev_config] in C.
        rewrite C. eapply config_after_firstn_RX; exact Ho. }
      destruct (reconf_justified_proof cf0 bc0 ops i cf bc _ q rp Hn eq_refl) as [[n E] | [F | [C _]]].
      + rewrite E in Hx. discriminate Hx.
      + destruct F as (F1 & F2 & F3 & F4 & F5). auto 8.
      + congruence.
  Qed.

  (* first conjunct *)
  Lemma reconf_pass_only_if_proof :
    forall cf0 bc0 ops i cf bc e q rp,
      nth_error (rtrace H K cf0 bc0 ops) i = Some (RvOp cf bc e) -> xreply e = Some (q, rp) ->
      c_blocked (r_core rp) = false ->
      exists j ej cfj qj rj,
        (j <= i)%nat /\ nth_error (rtrace H K cf0 bc0 ops) j = Some ej /\ rreply ej = Some (cfj, qj, rj) /\
        K (q_prompt qj) = K (q_prompt q) /\ r_cached rj = false /\
        (r_cached rp = false -> j = i /\ cfj = cf) /\
        r_core rp = outcome H cfj qj /\
        spec_pass (cf_logic cfj) (q_exec qj) (q_assess qj) = true.
  Proof.
    intros cf0 bc0 ops i cf bc e q rp Hn Hr Hb.
    destruct (reconf_justified_proof cf0 bc0 ops i cf bc e q rp Hn Hr)
      as [[n E] | [F | [C (j & ej & cfj & qj & rj & tj & A1 & A2 & A3 & A4 & A5 & A6 & A7 & _)]]].
    - rewrite E in Hb. discriminate Hb.
    - destruct F as (F1 & F2 & _). exists i, (RvOp cf bc e), cf, q, rp.
      split; [lia|]. split; [exact Hn|]. split; [cbn [rreply]; rewrite Hr; reflexivity|].
      split; [reflexivity|]. split; [exact F1|]. split; [intros _; split; reflexivity|]. split; [exact F2|].
      apply pass_iff_proof. rewrite F2 in Hb. exact Hb.
    - destruct A5 as (F1 & F2 & _). exists j, ej, cfj, qj, rj.
      split; [lia|]. split; [exact A2|]. split; [exact A3|]. split; [exact A6|]. split; [exact F1|].
      split; [intros E; congruence|]. split; [congruence|].
      apply pass_iff_proof. rewrite A7, F2 in Hb. exact Hb.
  Qed.

  Definition rK_injective_on (ops : list rop) : Prop :=
    forall a b, rreq_in ops a -> rreq_in ops b -> K (q_prompt a) = K (q_prompt b) -> q_prompt a = q_prompt b.

  (* cached replies are identical in verdict to the original *)
  Lemma reconf_cache_same_verdict_proof :
    forall cf0 bc0 ops, rK_injective_on ops ->
    forall i cf bc e q rp,
      nth_error (rtrace H K cf0 bc0 ops) i = Some (RvOp cf bc e) -> xreply e = Some (q, rp) -> r_cached rp = true ->
      exists j ej cfj qj rj tj,
        (j < i)%nat /\ nth_error (rtrace H K cf0 bc0 ops) j = Some ej /\ rreply ej = Some (cfj, qj, rj) /\
        rdone_at ej = Some tj /\ q_prompt qj = q_prompt q /\ r_cached rj = false /\
        r_core rp = r_core rj /\ r_core rj = outcome H cfj qj /\
        q_time q - tj < cf_ttl cf /\ cf_cache cf = true /\
        r_exec_called rp = false /\ r_assess_called rp = false.
  Proof.
    intros cf0 bc0 ops Hinj i cf bc e q rp Hn Hr Hc.
    destruct (reconf_justified_proof cf0 bc0 ops i cf bc e q rp Hn Hr)
      as [[n E] | [F | [_ (j & ej & cfj & qj & rj & tj & A1 & A2 & A3 & A4 & A5 & A6 & A7 & A8 & A9 & A10 & A11 & _)]]].
    - rewrite E in Hc. discriminate Hc.
    - destruct F as (F1 & _). congruence.
    - destruct A5 as (F1 & F2 & _). exists j, ej, cfj, qj, rj, tj.
      split; [exact A1|]. split; [exact A2|]. split; [exact A3|]. split; [exact A4|].
      split.
      { destruct (rreply_inv _ _ _ _ A3) as (bcj & xj & -> & Hx).
        apply Hinj; [exact (rreply_req_in cf0 bc0 ops j cfj bcj xj qj rj A2 Hx)
                    | exact (rreply_req_in cf0 bc0 ops i cf bc e q rp Hn Hr) | exact A6]. }
      auto 10.
  Qed.

  (* token conjunct *)
  Lemma reconf_token_bound_proof :
    forall cf0 bc0 ops, rK_injective_on ops ->
    forall i cf bc e q rp t,
      nth_error (rtrace H K cf0 bc0 ops) i = Some (RvOp cf bc e) -> xreply e = Some (q, rp) ->
      c_token (r_core rp) = Some t ->
      tk_hash t = H (q_prompt q) /\ c_blocked (r_core rp) = false /\
      exists j ej cfj qj rj,
        (j <= i)%nat /\ nth_error (rtrace H K cf0 bc0 ops) j = Some ej /\ rreply ej = Some (cfj, qj, rj) /\
        q_prompt qj = q_prompt q /\ r_cached rj = false /\ (r_cached rp = false -> j = i /\ cfj = cf) /\
        q_assess qj = VPermit /\ tk_issuer t = cf_assessor cfj.
  Proof.
    intros cf0 bc0 ops Hinj i cf bc e q rp t Hn Hr Ht.
    assert (Hb : c_blocked (r_core rp) = false).
    { destruct (reconf_justified_proof cf0 bc0 ops i cf bc e q rp Hn Hr)
        as [[n E] | [F | [_ (j & ej & cfj & qj & rj & tj & _ & _ & _ & _ & A5 & _ & A7 & _)]]].
      - rewrite E in Ht. discriminate Ht.
      - destruct F as (_ & F2 & _). rewrite F2 in Ht |- *.
        destruct (token_iff_proof H cf q) as [T _]. destruct (T t Ht) as (_ & B & _). exact B.
      - destruct A5 as (_ & F2 & _). rewrite A7, F2 in Ht |- *.
        destruct (token_iff_proof H cfj qj) as [T _]. destruct (T t Ht) as (_ & B & _). exact B. }
    destruct (reconf_pass_only_if_proof cf0 bc0 ops i cf bc e q rp Hn Hr Hb)
      as (j & ej & cfj & qj & rj & A1 & A2 & A3 & A4 & A5 & A6 & A7 & _).
    assert (Hp : q_prompt qj = q_prompt q).
    { destruct (rreply_inv _ _ _ _ A3) as (bcj & xj & -> & Hx).
      apply Hinj; [exact (rreply_req_in cf0 bc0 ops j cfj bcj xj qj rj A2 Hx)
                  | exact (rreply_req_in cf0 bc0 ops i cf bc e q rp Hn Hr) | exact A4]. }
    rewrite A7 in Ht.
    destruct (token_iff_proof H cfj qj) as [T _]. destruct (T t Ht) as (B1 & _ & B3 & B4).
    rewrite <- Hp. split; [exact B3|]. split; [exact Hb|].
    exists j, ej, cfj, qj, rj. auto 10.
  Qed.
End ReconfProofs.

(* two loop objects, each reconfigured at will, do not influence each other *)
Lemma rloops_isolated_from :
  forall (H K : str -> str) tops r0 r1 b,
    proj b (rsys_from H K r0 r1 tops) = rtrace_from H K (if b then r1 else r0) (proj b tops).
Proof.
  intros H K. unfold proj.
  induction tops as [|[t o] rest IH]; intros r0 r1 b; [reflexivity|].
  cbn [rsys_from]. destruct t.
  - destruct (rstep H K r1 o) as [r1' e] eqn:Es.
    cbn [filter fst]. destruct b; cbn [Bool.eqb map snd].
    + cbn [rtrace_from]. rewrite Es. rewrite (IH r0 r1' true). reflexivity.
    + rewrite (IH r0 r1' false). reflexivity.
  - destruct (rstep H K r0 o) as [r0' e] eqn:Es.
    cbn [filter fst]. destruct b; cbn [Bool.eqb map snd].
    + rewrite (IH r0' r1 true). reflexivity.
    + cbn [rtrace_from]. rewrite Es. rewrite (IH r0' r1 false). reflexivity.
Qed.

Lemma reconf_loops_isolated_proof :
  forall (H K : str -> str) cf0 cf1 bc0 bc1 tops b,
    proj b (rsys_trace H K cf0 cf1 bc0 bc1 tops) =
    rtrace H K (if b then cf1 else cf0) (if b then bc1 else bc0) (proj b tops).
Proof.
  intros H K cf0 cf1 bc0 bc1 tops b. unfold rsys_trace, rtrace.
  rewrite (rloops_isolated_from H K tops (cf0, bc0, x0) (cf1, bc1, x0) b). destruct b; reflexivity.
Qed.
