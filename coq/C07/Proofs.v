(* C07 — specification side (transcribed from the property text, not from the
   code) and all lemmas.  Property.v only re-exports them. *)
From Coq Require Import ZArith List Bool Lia.
From Verif Require Import Common.Corr C07.Model gen.Gen_C07.
Import ListNotations.
Open Scope Z_scope.

(* ---------------------------------------------------------------------- *)
(* The statement, transcribed.

   "A request ... comes back not-blocked only if the executor's and the risk
    assessor's verdicts satisfy the configured gate logic
      (AND/UNANIMOUS: both permit; OR: at least one;
       EXECUTOR_PRIORITY: executor permits and assessor does not block;
       ASSESSOR_PRIORITY: assessor permits and executor did not fail);
    any other combination, any unknown verdict and any agent exception yield
    blocked."

   Reading of the words (fixed here, independent of how the code computes it):
   - the executor "permits" when its action type is EXECUTE or PERMIT;
   - the assessor "permits" when its action type is PERMIT ("an approval token
     is attached only when the assessor permitted" / anchor "only when
     assessor action is PERMIT"); it "blocks" when it is BLOCK;
   - the executor "failed" when its action type is FAILURE;
   - an agent exception is never a permit, whatever the logic;
   - MAJORITY is not given any passing combination by the statement, so
     nothing passes under it ("any other combination ... yield blocked");
   - an "unknown verdict" is an action type that is none of EXECUTE, PERMIT,
     BLOCK, FAILURE (DEFER, UNKNOWN, any other string). *)

Definition spec_exec_permits (z : verdict) : bool :=
  match z with VExecute => true | VPermit => true | _ => false end.
Definition spec_assess_permits (y : verdict) : bool :=
  match y with VPermit => true | _ => false end.
Definition spec_assess_blocks (y : verdict) : bool :=
  match y with VBlock => true | _ => false end.
Definition spec_exec_failed (z : verdict) : bool :=
  match z with VFailure => true | _ => false end.
Definition is_exception (v : verdict) : bool :=
  match v with VRaised => true | _ => false end.
Definition is_unknown (v : verdict) : bool :=
  match v with VDefer => true | VUnknown => true | VOther => true | _ => false end.

Definition spec_pass (l : logic) (z y : verdict) : bool :=
  negb (is_exception z) && negb (is_exception y) &&
  match l with
  | LAnd => spec_exec_permits z && spec_assess_permits y
  | LUnanimous => spec_exec_permits z && spec_assess_permits y
  | LOr => spec_exec_permits z || spec_assess_permits y
  | LExecPrio => spec_exec_permits z && negb (spec_assess_blocks y)
  | LAssessPrio => spec_assess_permits y && negb (spec_exec_failed z)
  | LMajority => false
  end.

(* ---------------------------------------------------------------------- *)
(* the finite part: the gate                                                *)

Lemma pass_iff_proof :
  forall l z y, g_blocked (gate l z y) = false <-> spec_pass l z y = true.
Proof.
  intros l z y; destruct l, z, y; vm_compute; split; intro; congruence.
Qed.

Lemma exception_blocks_proof :
  forall l z y, z = VRaised \/ y = VRaised ->
    gate l z y = mkG false AError true false.
Proof.
  intros l z y [-> | ->].
  - reflexivity.
  - destruct z; reflexivity.
Qed.

Lemma unknown_blocks_proof :
  forall l z y,
    (is_unknown z = true -> is_unknown y = true -> g_blocked (gate l z y) = true) /\
    ((l = LAnd \/ l = LUnanimous \/ l = LMajority) ->
       is_unknown z = true \/ is_unknown y = true -> g_blocked (gate l z y) = true) /\
    (is_unknown z = true -> g_blocked (gate l z y) = false ->
       (l = LOr \/ l = LAssessPrio) /\ y = VPermit) /\
    (is_unknown y = true -> g_blocked (gate l z y) = false ->
       (l = LOr \/ l = LExecPrio) /\ (z = VExecute \/ z = VPermit)).
Proof.
  intros l z y.
  destruct l, z, y; vm_compute; repeat split; intros;
    try congruence; try reflexivity; auto;
    repeat match goal with H : _ \/ _ |- _ => destruct H end; congruence.
Qed.

(* blocked results never carry a token; passing results carry one exactly when
   the assessor's action type is PERMIT *)
Lemma gate_token_proof :
  forall l z y, g_token (gate l z y) = negb (g_blocked (gate l z y)) && spec_assess_permits y.
Proof. intros l z y; destruct l, z, y; reflexivity. Qed.

Lemma gen_table_agrees_proof : forallb (agrees gate) gen_table = true.
Proof. vm_compute. reflexivity. Qed.

Lemma gen_table_complete_proof : covers gen_table = true.
Proof. vm_compute. reflexivity. Qed.

(* ---------------------------------------------------------------------- *)
(* list / cache plumbing                                                    *)

Lemma zl_eqb_eq : forall a b, zl_eqb a b = true <-> a = b.
Proof.
  induction a as [|x a IH]; destruct b as [|y b]; cbn; split; intro E;
    try reflexivity; try discriminate.
  - apply andb_true_iff in E as [E1 E2]. apply Z.eqb_eq in E1. apply IH in E2. congruence.
  - inversion E; subst. apply andb_true_iff; split; [apply Z.eqb_refl | apply IH; reflexivity].
Qed.

Lemma lookup_In : forall k c v, lookup k c = Some v -> In (k, v) c.
Proof.
  induction c as [|[k' v'] r IH]; cbn; intros v E; [discriminate|].
  destruct (zl_eqb k' k) eqn:Ek.
  - apply zl_eqb_eq in Ek; subst. inversion E; subst. left; reflexivity.
  - right; apply IH; exact E.
Qed.

Lemma In_remove : forall k e c, In e (remove k c) -> In e c.
Proof.
  induction c as [|[k' v'] r IH]; cbn; intros E; [exact E|].
  destruct (zl_eqb k' k).
  - right; apply IH; exact E.
  - destruct E as [E|E]; [left; exact E | right; apply IH; exact E].
Qed.

Lemma In_set_entry : forall k v e c, In e (set_entry k v c) -> e = (k, v) \/ In e c.
Proof.
  induction c as [|[k' v'] r IH]; cbn; intros E.
  - destruct E as [E|[]]; left; symmetry; exact E.
  - destruct (zl_eqb k' k).
    + destruct E as [E|E]; [left; symmetry; exact E | right; right; exact E].
    + destruct E as [E|E]; [right; left; exact E|].
      destruct (IH E) as [E'|E']; [left; exact E' | right; right; exact E'].
Qed.

Lemma In_evict : forall cap e c, In e (evict cap c) -> In e c.
Proof.
  intros cap e c; unfold evict. destruct (Nat.ltb cap (length c)); [|auto].
  destruct c as [|e0 r]; [auto|]. apply In_remove.
Qed.

(* ---------------------------------------------------------------------- *)
(* the token of an uncached reply                                           *)

Lemma core_of_blocked : forall H cf p g, c_blocked (core_of H cf p g) = g_blocked g.
Proof. reflexivity. Qed.

Lemma token_iff_proof :
  forall (H : str -> str) cf q,
    let c := outcome H cf q in
    (forall t, c_token c = Some t ->
       q_assess q = VPermit /\ c_blocked c = false /\
       tk_hash t = H (q_prompt q) /\ tk_issuer t = cf_assessor cf) /\
    (q_assess q = VPermit -> c_blocked c = false ->
       c_token c = Some (mkToken (H (q_prompt q)) (cf_assessor cf))).
Proof.
  intros H cf q c. subst c. unfold outcome, core_of. cbn [c_token c_blocked].
  rewrite gate_token_proof.
  destruct (g_blocked (gate (cf_logic cf) (q_exec q) (q_assess q))); cbn [negb andb].
  - split; [intros t E; discriminate | intros _ E; discriminate].
  - split.
    + intros t E. destruct (q_assess q); cbn in E; try discriminate.
      inversion E; subst; cbn. auto.
    + intros -> _. reflexivity.
Qed.

(* ---------------------------------------------------------------------- *)
(* histories: where every reply comes from                                  *)

Section History.
  Variable H : str -> str.
  Variable K : str -> str.
  Variable cf : config.

  Definition hist := list (req * reply).

  (* unfolding equations of [trace_from] *)
  Lemma trace_from_nil : forall c, trace_from H K cf c [] = [].
  Proof. reflexivity. Qed.

  Lemma trace_from_req : forall c q rest,
    trace_from H K cf c (OReq q :: rest) =
    (q, snd (step H K cf c q)) :: trace_from H K cf (fst (step H K cf c q)) rest.
  Proof.
    intros c q rest. unfold trace_from. cbn [etrace_from step_op].
    destruct (step H K cf c q) as [c' rp]. reflexivity.
  Qed.

  Lemma trace_from_clear : forall c rest,
    trace_from H K cf c (OClear :: rest) = trace_from H K cf [] rest.
  Proof. reflexivity. Qed.

  Lemma trace_from_observe : forall c rest,
    trace_from H K cf c (OObserve :: rest) = trace_from H K cf c rest.
  Proof. reflexivity. Qed.

  Lemma trace_from_reset : forall c rest,
    trace_from H K cf c (OReset :: rest) = trace_from H K cf c rest.
  Proof. reflexivity. Qed.

  (* a cache entry was stored by an earlier uncached, exception-free request
     with this key, holds exactly that request's reply, stamped with its time *)
  Definition entry_ok (h : hist) (e : entry) : Prop :=
    exists j qj rj,
      nth_error h j = Some (qj, rj) /\ K (q_prompt qj) = fst e /\
      r_cached rj = false /\ r_core rj = fst (snd e) /\
      r_core rj = outcome H cf qj /\ q_time qj = snd (snd e).

  Definition Inv (h : hist) (c : cache) : Prop := forall e, In e c -> entry_ok h e.

  Lemma Inv_nil : forall h, Inv h [].
  Proof. intros h e []. Qed.

  (* reply [ri] to request [qi] at position [i] of the trace [tr] is either
     computed by the gate from what the agents said at [i] (and the agents
     were handed exactly the prompt), or is the reply of an earlier uncached
     request with the same key, still within TTL (and no agent was asked) *)
  Definition justified (tr : hist) (i : nat) (qi : req) (ri : reply) : Prop :=
    if r_cached ri then
      exists j qj rj,
        (j < i)%nat /\ nth_error tr j = Some (qj, rj) /\
        K (q_prompt qj) = K (q_prompt qi) /\ r_cached rj = false /\
        r_core ri = r_core rj /\ r_core rj = outcome H cf qj /\
        q_time qi - q_time qj < cf_ttl cf /\ cf_cache cf = true /\
        r_exec_called ri = false /\ r_assess_called ri = false /\ r_shown ri = None
    else
      r_core ri = outcome H cf qi /\ r_exec_called ri = true /\
      r_assess_called ri = negb (raised (q_exec qi)) /\ r_shown ri = Some (q_prompt qi).

  Lemma entry_ok_app : forall h l e, entry_ok h e -> entry_ok (h ++ l) e.
  Proof.
    intros h l e (j & qj & rj & Hn & rest).
    exists j, qj, rj. split; [|exact rest].
    rewrite nth_error_app1; [exact Hn|]. apply nth_error_Some. congruence.
  Qed.

  Lemma Inv_app : forall h l c, Inv h c -> Inv (h ++ l) c.
  Proof. intros h l c HI e He. apply entry_ok_app, HI, He. Qed.

  Lemma nth_error_here : forall (A : Type) (h : list A) x tl, nth_error (h ++ x :: tl) (length h) = Some x.
  Proof. intros A h x tl. rewrite nth_error_app2 by lia. rewrite Nat.sub_diag. reflexivity. Qed.

  (* the uncached path of run() *)
  Lemma miss_ok :
    forall h c1 q, Inv h c1 ->
      let res := outcome H cf q in
      let exn := raised (q_exec q) || raised (q_assess q) in
      let c2 := if cf_cache cf && negb exn
                then evict (cf_cap cf) (set_entry (K (q_prompt q)) (res, q_time q) c1) else c1 in
      let rp := mkReply res false true (negb (raised (q_exec q))) (Some (q_prompt q)) (length c2) in
      (forall tl, justified (h ++ (q, rp) :: tl) (length h) q rp) /\ Inv (h ++ [(q, rp)]) c2.
  Proof.
    intros h c1 q HI res exn c2 rp. split.
    - intros tl. unfold justified. subst rp. cbn. auto.
    - intros e He. subst c2.
      destruct (cf_cache cf && negb exn) eqn:Eb.
      + apply In_evict in He. apply In_set_entry in He. destruct He as [-> | He].
        * exists (length h), q, rp. split; [apply nth_error_here|].
          subst rp; cbn. auto.
        * apply entry_ok_app, HI, He.
      + apply entry_ok_app, HI, He.
  Qed.

  Lemma step_ok :
    forall h c q c' rp, Inv h c -> step H K cf c q = (c', rp) ->
      (forall tl, justified (h ++ (q, rp) :: tl) (length h) q rp) /\ Inv (h ++ [(q, rp)]) c'.
  Proof.
    intros h c q c' rp HI Hs. unfold step in Hs.
    destruct (cf_cache cf) eqn:Ec.
    - unfold check_cache in Hs.
      destruct (lookup (K (q_prompt q)) c) as [[res ts]|] eqn:El.
      + destruct (q_time q - ts <? cf_ttl cf) eqn:Et.
        * (* hit *)
          inversion Hs; subst c' rp; clear Hs. split; [|apply Inv_app, HI].
          intros tl. unfold justified; cbn [r_cached].
          apply lookup_In in El. destruct (HI _ El) as (j & qj & rj & Hn & Hk & Hc & Hr & Ho & Hts).
          cbn [fst snd] in *.
          assert (Hj : (j < length h)%nat) by (apply nth_error_Some; congruence).
          exists j, qj, rj.
          split; [exact Hj|].
          split; [rewrite nth_error_app1 by exact Hj; exact Hn|].
          split; [exact Hk|]. split; [exact Hc|].
          split; [cbn; symmetry; exact Hr|]. split; [exact Ho|].
          split; [rewrite Hts; apply Z.ltb_lt; exact Et|].
          cbn. auto.
        * (* expired: deleted, then the uncached path *)
          assert (HI1 : Inv h (remove (K (q_prompt q)) c))
            by (intros e He; apply HI; eapply In_remove; exact He).
          pose proof (miss_ok h _ q HI1) as M. cbv zeta in M. rewrite Ec in M.
          inversion Hs; subst c' rp; clear Hs. exact M.
      + pose proof (miss_ok h _ q HI) as M. cbv zeta in M. rewrite Ec in M.
        inversion Hs; subst c' rp; clear Hs. exact M.
    - pose proof (miss_ok h _ q HI) as M. cbv zeta in M. rewrite Ec in M.
      inversion Hs; subst c' rp; clear Hs. exact M.
  Qed.

  Lemma trace_from_justified :
    forall ops h c, Inv h c ->
      forall i qi ri, nth_error (trace_from H K cf c ops) i = Some (qi, ri) ->
        justified (h ++ trace_from H K cf c ops) (length h + i) qi ri.
  Proof.
    induction ops as [|o rest IH]; intros h c HI i qi ri Hn.
    - destruct i; discriminate.
    - destruct o as [q| | |].
      + rewrite trace_from_req in *.
        destruct (step H K cf c q) as [c' rp] eqn:Hs. cbn [fst snd] in *.
        destruct (step_ok h c q c' rp HI Hs) as [Hj HI'].
        destruct i as [|i].
        * cbn in Hn. inversion Hn; subst qi ri. rewrite Nat.add_0_r. apply Hj.
        * cbn [nth_error] in Hn.
          pose proof (IH (h ++ [(q, rp)]) c' HI' i qi ri Hn) as J.
          rewrite <- app_assoc in J. cbn [app] in J.
          rewrite app_length in J. cbn [length] in J.
          replace (length h + 1 + i)%nat with (length h + S i)%nat in J by lia. exact J.
      + rewrite trace_from_clear in *. apply IH; [apply Inv_nil | exact Hn].
      + rewrite trace_from_observe in *. apply IH; [exact HI | exact Hn].
      + rewrite trace_from_reset in *. apply IH; [exact HI | exact Hn].
  Qed.

  Lemma trace_justified :
    forall ops i qi ri, nth_error (trace H K cf ops) i = Some (qi, ri) ->
      justified (trace H K cf ops) i qi ri.
  Proof.
    intros ops i qi ri Hn.
    apply (trace_from_justified ops [] [] (Inv_nil []) i qi ri Hn).
  Qed.

  Lemma trace_from_In : forall ops c q r, In (q, r) (trace_from H K cf c ops) -> In (OReq q) ops.
  Proof.
    induction ops as [|o rest IH]; intros c q r Hi; [destruct Hi|].
    destruct o as [q0| | |].
    - rewrite trace_from_req in Hi. destruct Hi as [E|Hi].
      + inversion E; subst. left; reflexivity.
      + right. eapply IH; exact Hi.
    - rewrite trace_from_clear in Hi. right. eapply IH; exact Hi.
    - rewrite trace_from_observe in Hi. right. eapply IH; exact Hi.
    - rewrite trace_from_reset in Hi. right. eapply IH; exact Hi.
  Qed.

  Lemma trace_In : forall ops i qi ri, nth_error (trace H K cf ops) i = Some (qi, ri) -> In (OReq qi) ops.
  Proof.
    intros ops i qi ri Hn. eapply trace_from_In. eapply nth_error_In. exact Hn.
  Qed.

  Definition K_injective_on (ops : list op) : Prop :=
    forall a b, In (OReq a) ops -> In (OReq b) ops -> K (q_prompt a) = K (q_prompt b) -> q_prompt a = q_prompt b.

  (* every reply goes back to one uncached request with the same cache key *)
  Lemma origin :
    forall ops i qi ri, nth_error (trace H K cf ops) i = Some (qi, ri) ->
      exists j qj rj,
        (j <= i)%nat /\ nth_error (trace H K cf ops) j = Some (qj, rj) /\
        K (q_prompt qj) = K (q_prompt qi) /\ r_cached rj = false /\
        r_core ri = outcome H cf qj /\ (r_cached ri = false -> j = i).
  Proof.
    intros ops i qi ri Hn. pose proof (trace_justified ops i qi ri Hn) as J.
    unfold justified in J. destruct (r_cached ri) eqn:Ec.
    - destruct J as (j & qj & rj & Hlt & Hj & Hk & Hc & Hcore & Ho & _).
      exists j, qj, rj. repeat split; auto; try lia; try congruence.
    - destruct J as (Ho & _). exists i, qi, ri. repeat split; auto.
  Qed.

  Lemma fresh_reply_proof :
    forall ops i qi ri, nth_error (trace H K cf ops) i = Some (qi, ri) -> r_cached ri = false ->
      r_core ri = outcome H cf qi /\ r_exec_called ri = true /\
      r_assess_called ri = negb (raised (q_exec qi)) /\ r_shown ri = Some (q_prompt qi).
  Proof.
    intros ops i qi ri Hn Ec. pose proof (trace_justified ops i qi ri Hn) as J.
    unfold justified in J. rewrite Ec in J. exact J.
  Qed.

  (* the agents are consulted exactly for the replies that are not served
     from the cache *)
  Lemma consulted_iff_not_cached_proof :
    forall ops i qi ri, nth_error (trace H K cf ops) i = Some (qi, ri) ->
      r_exec_called ri = negb (r_cached ri) /\
      (r_assess_called ri = true -> r_cached ri = false) /\
      (r_shown ri <> None -> r_cached ri = false).
  Proof.
    intros ops i qi ri Hn. pose proof (trace_justified ops i qi ri Hn) as J.
    unfold justified in J. destruct (r_cached ri) eqn:Ec.
    - destruct J as (j & qj & rj & _ & _ & _ & _ & _ & _ & _ & _ & A & B & C).
      rewrite A, B, C. repeat split; intros; congruence.
    - destruct J as (_ & A & _). rewrite A. repeat split; intros; reflexivity.
  Qed.

  (* any agent exception yields blocked, whatever the cache holds: a request at
     which an agent was invoked and an invoked agent raised comes back as the
     blocked ERROR result without a token, and is not marked cached *)
  Lemma history_exception_blocks_proof :
    forall ops i qi ri, nth_error (trace H K cf ops) i = Some (qi, ri) ->
      r_exec_called ri = true \/ r_assess_called ri = true \/ r_cached ri = false ->
      q_exec qi = VRaised \/ q_assess qi = VRaised ->
      r_core ri = mkCore false AError true None /\ r_cached ri = false.
  Proof.
    intros ops i qi ri Hn Hc He.
    destruct (consulted_iff_not_cached_proof ops i qi ri Hn) as (A & B & _).
    assert (Ec : r_cached ri = false).
    { destruct Hc as [Hc | [Hc | Hc]]; [| auto | exact Hc].
      rewrite Hc in A. destruct (r_cached ri); [discriminate | reflexivity]. }
    split; [|exact Ec].
    destruct (fresh_reply_proof ops i qi ri Hn Ec) as (Ho & _).
    rewrite Ho. unfold outcome. rewrite (exception_blocks_proof _ _ _ He). reflexivity.
  Qed.

  Lemma cache_same_key_proof :
    forall ops i qi ri, nth_error (trace H K cf ops) i = Some (qi, ri) -> r_cached ri = true ->
      exists j qj rj,
        (j < i)%nat /\ nth_error (trace H K cf ops) j = Some (qj, rj) /\
        K (q_prompt qj) = K (q_prompt qi) /\ r_cached rj = false /\
        r_core ri = r_core rj /\ r_core rj = outcome H cf qj /\
        q_time qi - q_time qj < cf_ttl cf /\
        r_exec_called ri = false /\ r_assess_called ri = false.
  Proof.
    intros ops i qi ri Hn Ec. pose proof (trace_justified ops i qi ri Hn) as J.
    unfold justified in J. rewrite Ec in J.
    destruct J as (j & qj & rj & A1 & A2 & A3 & A4 & A5 & A6 & A7 & _ & A9 & A10 & _).
    exists j, qj, rj. auto 12.
  Qed.

  Lemma cache_same_verdict_proof :
    forall ops, K_injective_on ops ->
    forall i qi ri, nth_error (trace H K cf ops) i = Some (qi, ri) -> r_cached ri = true ->
      exists j qj rj,
        (j < i)%nat /\ nth_error (trace H K cf ops) j = Some (qj, rj) /\
        q_prompt qj = q_prompt qi /\ r_cached rj = false /\
        r_core ri = r_core rj /\ r_core rj = outcome H cf qj /\
        q_time qi - q_time qj < cf_ttl cf /\
        r_exec_called ri = false /\ r_assess_called ri = false.
  Proof.
    intros ops Hinj i qi ri Hn Ec.
    destruct (cache_same_key_proof ops i qi ri Hn Ec)
      as (j & qj & rj & A1 & A2 & A3 & rest).
    exists j, qj, rj. split; [exact A1|]. split; [exact A2|]. split; [|exact rest].
    apply Hinj; [eapply trace_In; exact A2 | eapply trace_In; exact Hn | exact A3].
  Qed.

  Lemma history_pass_only_if_proof :
    forall ops i qi ri, nth_error (trace H K cf ops) i = Some (qi, ri) ->
      c_blocked (r_core ri) = false ->
      exists j qj rj,
        (j <= i)%nat /\ nth_error (trace H K cf ops) j = Some (qj, rj) /\
        K (q_prompt qj) = K (q_prompt qi) /\ r_cached rj = false /\
        (r_cached ri = false -> j = i) /\
        spec_pass (cf_logic cf) (q_exec qj) (q_assess qj) = true.
  Proof.
    intros ops i qi ri Hn Hb.
    destruct (origin ops i qi ri Hn) as (j & qj & rj & A1 & A2 & A3 & A4 & A5 & A6).
    exists j, qj, rj. repeat split; auto.
    apply pass_iff_proof. rewrite A5 in Hb. exact Hb.
  Qed.

  Lemma history_token_bound_proof :
    forall ops, K_injective_on ops ->
    forall i qi ri t, nth_error (trace H K cf ops) i = Some (qi, ri) ->
      c_token (r_core ri) = Some t ->
      tk_hash t = H (q_prompt qi) /\ tk_issuer t = cf_assessor cf /\
      c_blocked (r_core ri) = false /\
      exists j qj rj,
        (j <= i)%nat /\ nth_error (trace H K cf ops) j = Some (qj, rj) /\
        q_prompt qj = q_prompt qi /\ r_cached rj = false /\ q_assess qj = VPermit.
  Proof.
    intros ops Hinj i qi ri t Hn Ht.
    destruct (origin ops i qi ri Hn) as (j & qj & rj & A1 & A2 & A3 & A4 & A5 & _).
    assert (Hp : q_prompt qj = q_prompt qi)
      by (apply Hinj; [eapply trace_In; exact A2 | eapply trace_In; exact Hn | exact A3]).
    rewrite A5 in Ht |- *.
    destruct (token_iff_proof H cf qj) as [T _].
    destruct (T t Ht) as (B1 & B2 & B3 & B4).
    rewrite <- Hp. repeat split; auto.
    exists j, qj, rj. repeat split; auto.
  Qed.

  (* a token is good for one request only: two replies of a history (cached or
     not) whose tokens carry the same hash answer the same prompt *)
  Definition H_injective_on (ops : list op) : Prop :=
    forall a b, In (OReq a) ops -> In (OReq b) ops -> H (q_prompt a) = H (q_prompt b) -> q_prompt a = q_prompt b.

  Lemma tokens_not_interchangeable_proof :
    forall ops, K_injective_on ops -> H_injective_on ops ->
    forall i qi ri ti j qj rj tj,
      nth_error (trace H K cf ops) i = Some (qi, ri) -> c_token (r_core ri) = Some ti ->
      nth_error (trace H K cf ops) j = Some (qj, rj) -> c_token (r_core rj) = Some tj ->
      tk_hash ti = tk_hash tj -> q_prompt qi = q_prompt qj.
  Proof.
    intros ops HK HH i qi ri ti j qj rj tj Hi Ti Hj Tj E.
    destruct (history_token_bound_proof ops HK i qi ri ti Hi Ti) as (A & _).
    destruct (history_token_bound_proof ops HK j qj rj tj Hj Tj) as (B & _).
    apply HH; [eapply trace_In; exact Hi | eapply trace_In; exact Hj | congruence].
  Qed.

  (* ---------------------------------------------------------------------- *)
  (* clear_cache and the read-only calls                                      *)

  Lemma etrace_from_app : forall ops1 ops2 c,
    etrace_from H K cf c (ops1 ++ ops2) =
    etrace_from H K cf c ops1 ++ etrace_from H K cf (cache_after H K cf c ops1) ops2.
  Proof.
    induction ops1 as [|o rest IH]; intros ops2 c; [reflexivity|].
    cbn [app etrace_from cache_after].
    destruct (step_op H K cf c o) as [c' e]. cbn [fst app]. rewrite IH. reflexivity.
  Qed.

  Lemma reqs_of_app : forall a b, reqs_of (a ++ b) = reqs_of a ++ reqs_of b.
  Proof. intros a b. unfold reqs_of. apply flat_map_app. Qed.

  (* after clear_cache() the loop answers as a new one does: the replies of a
     history with a clear in it are those of the part before, followed by those
     of the part after run against a fresh loop *)
  Lemma clear_forgets_proof :
    forall ops1 ops2,
      trace H K cf (ops1 ++ OClear :: ops2) = trace H K cf ops1 ++ trace H K cf ops2.
  Proof.
    intros ops1 ops2. unfold trace, trace_from.
    rewrite etrace_from_app, reqs_of_app. reflexivity.
  Qed.

  (* the read-only calls change nothing *)
  Lemma observe_noop_proof :
    forall ops1 ops2,
      trace H K cf (ops1 ++ OObserve :: ops2) = trace H K cf (ops1 ++ ops2).
  Proof.
    intros ops1 ops2. unfold trace, trace_from.
    rewrite !etrace_from_app, !reqs_of_app. reflexivity.
  Qed.

  (* reset_circuit_breaker() does not touch cache or agents *)
  Lemma reset_noop_proof :
    forall ops1 ops2,
      trace H K cf (ops1 ++ OReset :: ops2) = trace H K cf (ops1 ++ ops2).
  Proof.
    intros ops1 ops2. unfold trace, trace_from.
    rewrite !etrace_from_app, !reqs_of_app. reflexivity.
  Qed.
End History.

(* ---------------------------------------------------------------------- *)
(* the circuit breaker only rejects                                         *)

Section Breaker.
  Variable H : str -> str.
  Variable K : str -> str.
  Variable cf : config.
  Variable bc : bconfig.

  (* one request: either rejected (the blocked CIRCUIT_OPEN reply; cache
     untouched, nobody asked) or exactly [step] on the cache *)
  Lemma bstep_cases :
    forall c b q,
      (exists b', bstep H K cf bc (c, b) q = ((c, b'), rejected_reply (length c), false)) \/
      (exists b', bstep H K cf bc (c, b) q =
                  ((fst (step H K cf c q), b'), snd (step H K cf c q), true)).
  Proof.
    intros c b q. unfold bstep.
    destruct (if bc_enabled bc then check_circuit bc (q_time q) b else (true, b)) as [ok b1].
    destruct ok.
    - right. destruct (step H K cf c q) as [c' rp]. eexists. reflexivity.
    - left. eexists. reflexivity.
  Qed.

  (* a rejection happens only with the breaker enabled *)
  Lemma bstep_disabled :
    bc_enabled bc = false ->
    forall c b q, exists b', bstep H K cf bc (c, b) q =
                  ((fst (step H K cf c q), b'), snd (step H K cf c q), true).
  Proof.
    intros Hd c b q. unfold bstep. rewrite Hd.
    destruct (step H K cf c q) as [c' rp]. eexists. reflexivity.
  Qed.

  Definition is_rejection (e : bev) : Prop :=
    exists q n, e = ((OReq q, Some (rejected_reply n), n), false).

  (* every step of a breaker history: admitted and then the step of the
     breaker-less loop on the same cache, or a rejection that leaves the cache alone *)
  Lemma bstep_op_cases :
    forall c b o,
      (exists b', bstep_op H K cf bc (c, b) o = ((fst (step_op H K cf c o), b'), (snd (step_op H K cf c o), true))) \/
      (exists b' e, bstep_op H K cf bc (c, b) o = ((c, b'), e) /\ is_rejection e).
  Proof.
    intros c b o. destruct o as [q| | |].
    - cbn [bstep_op step_op].
      destruct (bstep_cases c b q) as [[b' E] | [b' E]]; rewrite E.
      + right. exists b'. eexists. split; [reflexivity|]. exists q, (length c). reflexivity.
      + left. exists b'. destruct (step H K cf c q) as [c' rp]. reflexivity.
    - left. exists b. reflexivity.
    - left. exists b. reflexivity.
    - left. eexists. reflexivity.
  Qed.

  (* the admitted steps of a breaker history ARE the history of the admitted
     operations against the loop without a breaker *)
  Lemma admitted_refines_from :
    forall ops c b,
      admitted_evs (betrace_from H K cf bc (c, b) ops) =
      etrace_from H K cf c (admitted_from H K cf bc (c, b) ops).
  Proof.
    unfold admitted_evs.
    induction ops as [|o rest IH]; intros c b; [reflexivity|].
    cbn [betrace_from admitted_from].
    destruct (bstep_op_cases c b o) as [[b' E] | (b' & e & E & (q & n & ->))]; rewrite E.
    - cbn [snd fst filter map app etrace_from].
      destruct (step_op H K cf c o) as [c' e']. cbn [fst snd]. rewrite IH. reflexivity.
    - cbn [snd fst filter app]. apply IH.
  Qed.

  Lemma rejections_from :
    forall ops c b e, In e (betrace_from H K cf bc (c, b) ops) -> snd e = false -> is_rejection e.
  Proof.
    induction ops as [|o rest IH]; intros c b e Hi Hs; [destruct Hi|].
    cbn [betrace_from] in Hi.
    destruct (bstep_op_cases c b o) as [[b' E] | (b' & e' & E & R)]; rewrite E in Hi.
    - destruct Hi as [<- | Hi]; [discriminate Hs|]. eapply IH; eassumption.
    - destruct Hi as [<- | Hi]; [exact R|]. eapply IH; eassumption.
  Qed.

  Lemma admitted_incl_from :
    forall ops c b o, In o (admitted_from H K cf bc (c, b) ops) -> In o ops.
  Proof.
    induction ops as [|o' rest IH]; intros c b o Hi; [destruct Hi|].
    cbn [admitted_from] in Hi.
    destruct (bstep_op H K cf bc (c, b) o') as [[c' b'] e].
    apply in_app_or in Hi. destruct Hi as [Hi | Hi].
    - destruct (snd e); [destruct Hi as [<- | []]; left; reflexivity | destruct Hi].
    - right. eapply IH; exact Hi.
  Qed.

  Lemma breaker_only_rejects_proof :
    forall ops,
      reqs_of (admitted_evs (betrace H K cf bc ops)) = trace H K cf (admitted H K cf bc ops) /\
      (forall e, In e (betrace H K cf bc ops) -> snd e = false -> is_rejection e) /\
      (forall o, In o (admitted H K cf bc ops) -> In o ops).
  Proof.
    intros ops. unfold betrace, admitted, trace, trace_from. split; [|split].
    - rewrite admitted_refines_from. reflexivity.
    - intros e. apply rejections_from.
    - intros o. apply admitted_incl_from.
  Qed.

  (* every reply of a breaker history is the rejection or a reply of the
     breaker-less loop to the admitted history *)
  Lemma breaker_reply_proof :
    forall ops q r n adm, In ((OReq q, Some r, n), adm) (betrace H K cf bc ops) ->
      (adm = false /\ r = rejected_reply n) \/
      (adm = true /\ exists i, nth_error (trace H K cf (admitted H K cf bc ops)) i = Some (q, r)).
  Proof.
    intros ops q r n adm Hi.
    destruct (breaker_only_rejects_proof ops) as (A & B & _).
    destruct adm.
    - right. split; [reflexivity|]. apply In_nth_error. rewrite <- A.
      unfold reqs_of, admitted_evs. apply in_flat_map.
      exists (OReq q, Some r, n). split; [|left; reflexivity].
      apply in_map_iff. exists ((OReq q, Some r, n), true). split; [reflexivity|].
      apply filter_In. split; [exact Hi | reflexivity].
    - left. split; [reflexivity|].
      destruct (B _ Hi eq_refl) as (q' & n' & E). inversion E; subst. reflexivity.
  Qed.

  (* in particular: a not-blocked reply, and a reply with a token, is never the
     breaker's own; it is a reply of the loop proper, to which the history
     theorems apply *)
  Lemma breaker_pass_only_if_proof :
    forall ops q r n adm, In ((OReq q, Some r, n), adm) (betrace H K cf bc ops) ->
      c_blocked (r_core r) = false \/ c_token (r_core r) <> None \/ r_cached r = true ->
      adm = true /\
      exists i, nth_error (trace H K cf (admitted H K cf bc ops)) i = Some (q, r) /\
        (c_blocked (r_core r) = false ->
         exists j qj rj,
           (j <= i)%nat /\ nth_error (trace H K cf (admitted H K cf bc ops)) j = Some (qj, rj) /\
           K (q_prompt qj) = K (q_prompt q) /\ r_cached rj = false /\
           (r_cached r = false -> j = i) /\
           spec_pass (cf_logic cf) (q_exec qj) (q_assess qj) = true).
  Proof.
    intros ops q r n adm Hi Hc.
    destruct (breaker_reply_proof ops q r n adm Hi) as [[_ ->] | [-> [i Hn]]].
    - exfalso. cbn in Hc. destruct Hc as [Hc | [Hc | Hc]]; [discriminate | apply Hc; reflexivity | discriminate].
    - split; [reflexivity|]. exists i. split; [exact Hn|].
      intros Hb. exact (history_pass_only_if_proof H K cf _ i q r Hn Hb).
  Qed.

  (* with the breaker disabled nothing is ever rejected *)
  Lemma breaker_disabled_from :
    bc_enabled bc = false ->
    forall ops c b,
      map fst (betrace_from H K cf bc (c, b) ops) = etrace_from H K cf c ops /\
      forallb snd (betrace_from H K cf bc (c, b) ops) = true.
  Proof.
    intros Hd. induction ops as [|o rest IH]; intros c b; [split; reflexivity|].
    cbn [betrace_from etrace_from].
    assert (E : exists b', bstep_op H K cf bc (c, b) o =
                           ((fst (step_op H K cf c o), b'), (snd (step_op H K cf c o), true))).
    { destruct o as [q| | |]; try (eexists; reflexivity).
      cbn [bstep_op step_op]. destruct (bstep_disabled Hd c b q) as [b' E]. rewrite E.
      exists b'. destruct (step H K cf c q) as [c' rp]. reflexivity. }
    destruct E as [b' E]. rewrite E.
    destruct (step_op H K cf c o) as [c' e']. cbn [fst snd map forallb andb].
    destruct (IH c' b') as [I1 I2]. rewrite I1, I2. split; reflexivity.
  Qed.

  Lemma breaker_disabled_proof :
    bc_enabled bc = false ->
    forall ops,
      reqs_of (map fst (betrace H K cf bc ops)) = trace H K cf ops /\
      forallb snd (betrace H K cf bc ops) = true.
  Proof.
    intros Hd ops. destruct (breaker_disabled_from Hd ops [] brk0) as [A B].
    unfold betrace, trace, trace_from. split; [exact (f_equal reqs_of A) | exact B].
  Qed.
End Breaker.

(* ---------------------------------------------------------------------- *)
(* two loop objects do not influence each other                            *)

Lemma loops_isolated_from :
  forall (H K : str -> str) cf0 cf1 bc0 bc1 tops s0 s1 b,
    proj b (sys_from H K cf0 cf1 bc0 bc1 s0 s1 tops) =
    betrace_from H K (if b then cf1 else cf0) (if b then bc1 else bc0) (if b then s1 else s0) (proj b tops).
Proof.
  intros H K cf0 cf1 bc0 bc1. unfold proj.
  induction tops as [|[t o] rest IH]; intros s0 s1 b; [reflexivity|].
  cbn [sys_from]. destruct t.
  - destruct (bstep_op H K cf1 bc1 s1 o) as [s1' e] eqn:Es.
    cbn [filter fst]. destruct b; cbn [Bool.eqb map snd].
    + cbn [betrace_from]. rewrite Es. rewrite (IH s0 s1' true). reflexivity.
    + rewrite (IH s0 s1' false). reflexivity.
  - destruct (bstep_op H K cf0 bc0 s0 o) as [s0' e] eqn:Es.
    cbn [filter fst]. destruct b; cbn [Bool.eqb map snd].
    + rewrite (IH s0' s1 true). reflexivity.
    + cbn [betrace_from]. rewrite Es. rewrite (IH s0' s1 false). reflexivity.
Qed.

Lemma loops_isolated_proof :
  forall (H K : str -> str) cf0 cf1 bc0 bc1 tops b,
    proj b (sys_trace H K cf0 cf1 bc0 bc1 tops) =
    betrace H K (if b then cf1 else cf0) (if b then bc1 else bc0) (proj b tops).
Proof.
  intros H K cf0 cf1 bc0 bc1 tops b. unfold sys_trace, betrace.
  rewrite (loops_isolated_from H K cf0 cf1 bc0 bc1 tops ([], brk0) ([], brk0) b). destruct b; reflexivity.
Qed.

(* ---------------------------------------------------------------------- *)
(* overlapping requests on one loop object                                  *)

Section OverlapProofs.
  Variable H : str -> str.
  Variable K : str -> str.
  Variable cf : config.
  Variable bc : bconfig.

  (* a request carried out in one go is its two halves at one clock value *)
  Lemma bstep_split :
    forall s q,
      bstep H K cf bc s q =
      let '(s1, r) := enter K cf bc s (q_prompt q) (q_time q) in
      match r with
      | ERejected => (s1, rejected_reply (length (fst s1)), false)
      | EHit res => (s1, hit_reply res (length (fst s1)), true)
      | EMiss => let '(s2, rp) := leave H K cf bc s1 q (q_time q) in (s2, rp, true)
      end.
  Proof.
    intros [c b] q. unfold bstep, enter, leave, step.
    destruct (if bc_enabled bc then check_circuit bc (q_time q) b else (true, b)) as [ok b1].
    destruct ok; [|reflexivity].
    destruct (if cf_cache cf then check_cache cf (q_time q) (K (q_prompt q)) c else (None, c)) as [hit c1].
    destruct hit as [res|]; reflexivity.
  Qed.

  (* histories without overlap are the sequential histories of the theorems above *)
  Lemma xtrace_atomic_from :
    forall ops s pend,
      xtrace_from H K cf bc (s, pend) (map XAtomic ops) = map EvAtomic (betrace_from H K cf bc s ops).
  Proof.
    induction ops as [|o rest IH]; intros s pend; [reflexivity|].
    cbn [map xtrace_from xstep betrace_from].
    destruct (bstep_op H K cf bc s o) as [s' e]. cbn [map]. rewrite IH. reflexivity.
  Qed.

  Lemma overlap_atomic_is_sequential_proof :
    forall ops, xtrace H K cf bc (map XAtomic ops) = map EvAtomic (betrace H K cf bc ops).
  Proof. intros ops. apply xtrace_atomic_from. Qed.

  (* begin followed at once by end, at one clock value, is the request in one go *)
  Lemma begin_end_is_request_proof :
    forall s pend id q s' rp adm,
      bstep H K cf bc s q = (s', rp, adm) ->
      (r_exec_called rp = false /\
       xstep H K cf bc (s, pend) (XBegin id q) = ((s', pend), EvReturned id q rp adm)) \/
      (r_exec_called rp = true /\ adm = true /\
       exists s1 n,
         xstep H K cf bc (s, pend) (XBegin id q) = ((s1, (id, q) :: pend), EvInFlight id q n) /\
         xstep H K cf bc (s1, (id, q) :: pend) (XEnd id (q_time q)) =
           ((s', pend), EvCompleted id q (q_time q) rp)).
  Proof.
    intros s pend id q s' rp adm Hb. rewrite bstep_split in Hb.
    cbn [xstep].
    destruct (enter K cf bc s (q_prompt q) (q_time q)) as [s1 r] eqn:Ee.
    destruct r as [|res|].
    - inversion Hb; subst. left. split; reflexivity.
    - inversion Hb; subst. left. split; reflexivity.
    - destruct (leave H K cf bc s1 q (q_time q)) as [s2 rp2] eqn:El.
      inversion Hb; subst. right.
      assert (Hx : r_exec_called rp = true).
      { destruct s1 as [c1 b1]. unfold leave in El. inversion El; subst. reflexivity. }
      split; [exact Hx|]. split; [reflexivity|].
      exists s1, (length (fst s1)). split; [reflexivity|].
      cbn [xstep pending_find pending_remove]. rewrite Z.eqb_refl. rewrite El. reflexivity.
  Qed.

  (* ---- what the two halves do to the cache ---- *)

  Lemma enter_spec :
    forall c b p now c1 b1 r,
      enter K cf bc (c, b) p now = ((c1, b1), r) ->
      (forall e, In e c1 -> In e c) /\
      (forall res, r = EHit res ->
         exists ts, In (K p, (res, ts)) c /\ now - ts < cf_ttl cf /\ cf_cache cf = true).
  Proof.
    intros c b p now c1 b1 r He. unfold enter in He.
    destruct (if bc_enabled bc then check_circuit bc now b else (true, b)) as [ok b'].
    destruct ok.
    - destruct (cf_cache cf) eqn:Ec.
      + unfold check_cache in He.
        destruct (lookup (K p) c) as [[res ts]|] eqn:El.
        * destruct (now - ts <? cf_ttl cf) eqn:Et.
          -- inversion He; subst. split; [auto|].
             intros res' E. inversion E; subst. exists ts.
             split; [apply lookup_In; exact El|]. split; [apply Z.ltb_lt; exact Et | reflexivity].
          -- inversion He; subst. split; [intros e; apply In_remove | intros res' E; discriminate].
        * inversion He; subst. split; [auto | intros res' E; discriminate].
      + inversion He; subst. split; [auto | intros res' E; discriminate].
    - inversion He; subst. split; [auto | intros res' E; discriminate].
  Qed.

  (* the reply of a request that went to the agents: computed from ITS prompt and ITS agents' answers *)
  Definition xfresh (q : req) (rp : reply) : Prop :=
    r_cached rp = false /\ r_core rp = outcome H cf q /\ r_exec_called rp = true /\
    r_assess_called rp = negb (raised (q_exec q)) /\ r_shown rp = Some (q_prompt q).

  Lemma leave_spec :
    forall c b q now c2 b2 rp,
      leave H K cf bc (c, b) q now = ((c2, b2), rp) ->
      xfresh q rp /\
      (forall e, In e c2 -> e = (K (q_prompt q), (outcome H cf q, now)) \/ In e c).
  Proof.
    intros c b q now c2 b2 rp Hl. unfold leave in Hl. inversion Hl; subst; clear Hl.
    split; [unfold xfresh; cbn; auto 6|].
    intros e He.
    destruct (cf_cache cf && negb (raised (q_exec q) || raised (q_assess q))).
    - apply In_evict in He. apply In_set_entry in He. exact He.
    - right; exact He.
  Qed.

  (* ---- every reply of an overlapping history ---- *)

  (* a cache entry was stored by a request of the history that went to the agents, holds that
     request's own reply, and is stamped with the clock value at which that reply was produced *)
  Definition xentry_ok (tr : list xev) (e : entry) : Prop :=
    exists j ej qj rj,
      nth_error tr j = Some ej /\ xreply ej = Some (qj, rj) /\ xdone_at ej = Some (snd (snd e)) /\
      xfresh qj rj /\ K (q_prompt qj) = fst e /\ r_core rj = fst (snd e).

  Definition XInv (tr : list xev) (c : cache) : Prop := forall e, In e c -> xentry_ok tr e.

  (* reply [rp] to request [q] at position [i]: the breaker's rejection, or the request's own
     gate outcome, or the reply of an EARLIER COMPLETED request with the same key that went to
     the agents (its own gate outcome), served within the TTL of the moment that reply was produced *)
  Definition xjustified (tr : list xev) (i : nat) (q : req) (rp : reply) : Prop :=
    (exists n, rp = rejected_reply n) \/
    xfresh q rp \/
    (r_cached rp = true /\
     exists j ej qj rj tj,
       (j < i)%nat /\ nth_error tr j = Some ej /\ xreply ej = Some (qj, rj) /\ xdone_at ej = Some tj /\
       xfresh qj rj /\ K (q_prompt qj) = K (q_prompt q) /\ r_core rp = r_core rj /\
       q_time q - tj < cf_ttl cf /\ cf_cache cf = true /\
       r_exec_called rp = false /\ r_assess_called rp = false /\ r_shown rp = None).

  Lemma xentry_ok_app : forall tr l e, xentry_ok tr e -> xentry_ok (tr ++ l) e.
  Proof.
    intros tr l e (j & ej & qj & rj & Hn & rest).
    exists j, ej, qj, rj. split; [|exact rest].
    rewrite nth_error_app1; [exact Hn|]. apply nth_error_Some. congruence.
  Qed.

  Lemma XInv_app : forall tr l c, XInv tr c -> XInv (tr ++ l) c.
  Proof. intros tr l c HI e He. apply xentry_ok_app, HI, He. Qed.

  Lemma XInv_sub : forall tr c c', XInv tr c -> (forall e, In e c' -> In e c) -> XInv tr c'.
  Proof. intros tr c c' HI Hs e He. apply HI, Hs, He. Qed.

  (* a hit found by [enter] is justified by the invariant *)
  Lemma hit_justified :
    forall tr tl c q res n ehit,
      XInv tr c ->
      (exists ts, In (K (q_prompt q), (res, ts)) c /\ q_time q - ts < cf_ttl cf /\ cf_cache cf = true) ->
      xjustified (tr ++ ehit :: tl) (length tr) q (hit_reply res n).
  Proof.
    intros tr tl c q res n ehit HI (ts & Hin & Ht & Hc).
    right; right. split; [reflexivity|].
    destruct (HI _ Hin) as (j & ej & qj & rj & Hn & Hr & Hd & Hf & Hk & Hcore).
    cbn [fst snd] in *.
    assert (Hj : (j < length tr)%nat) by (apply nth_error_Some; congruence).
    exists j, ej, qj, rj, ts.
    split; [exact Hj|]. split; [rewrite nth_error_app1 by exact Hj; exact Hn|].
    split; [exact Hr|]. split; [exact Hd|]. split; [exact Hf|]. split; [exact Hk|].
    split; [cbn; symmetry; exact Hcore|]. split; [exact Ht|]. split; [exact Hc|].
    cbn. auto.
  Qed.

  (* a reply produced by [leave] and the cache it leaves behind *)
  Lemma leave_ok :
    forall tr c b q now c2 b2 rp e,
      XInv tr c -> leave H K cf bc (c, b) q now = ((c2, b2), rp) ->
      xreply e = Some (q, rp) -> xdone_at e = Some now ->
      xfresh q rp /\ XInv (tr ++ [e]) c2.
  Proof.
    intros tr c b q now c2 b2 rp e HI Hl Hr Hd.
    destruct (leave_spec c b q now c2 b2 rp Hl) as [Hf Hc].
    split; [exact Hf|].
    intros x Hx. destruct (Hc x Hx) as [-> | Hin].
    - exists (length tr), e, q, rp.
      split; [apply nth_error_here|]. split; [exact Hr|]. split; [exact Hd|].
      split; [exact Hf|]. split; [reflexivity|]. destruct Hf as (_ & Hcore & _). exact Hcore.
    - apply xentry_ok_app, HI, Hin.
  Qed.

  Lemma xstep_ok :
    forall tr s pend o s' pend' e,
      XInv tr (fst s) -> xstep H K cf bc (s, pend) o = ((s', pend'), e) ->
      (forall q rp tl, xreply e = Some (q, rp) -> xjustified (tr ++ e :: tl) (length tr) q rp) /\
      XInv (tr ++ [e]) (fst s').
  Proof.
    intros tr [c b] pend o s' pend' e HI Hs. cbn [fst] in HI.
    destruct o as [a | id q | id now]; cbn [xstep] in Hs.
    - (* an operation in one go *)
      destruct a as [q| | |]; cbn [bstep_op] in Hs.
      + rewrite bstep_split in Hs.
        destruct (enter K cf bc (c, b) (q_prompt q) (q_time q)) as [[c1 b1] r] eqn:Ee.
        destruct (enter_spec _ _ _ _ _ _ _ Ee) as [Hsub Hhit].
        destruct r as [|res|].
        * inversion Hs; subst; clear Hs. cbn [fst]. split.
          -- intros q' rp' tl Hr. cbn in Hr. inversion Hr; subst. left. eexists; reflexivity.
          -- apply XInv_app. eapply XInv_sub; eassumption.
        * inversion Hs; subst; clear Hs. cbn [fst]. split.
          -- intros q' rp' tl Hr. cbn in Hr. inversion Hr; subst.
             eapply hit_justified; [exact HI | apply Hhit; reflexivity].
          -- apply XInv_app. eapply XInv_sub; eassumption.
        * destruct (leave H K cf bc (c1, b1) q (q_time q)) as [[c2 b2] rp] eqn:El.
          inversion Hs; subst; clear Hs. cbn [fst].
          assert (HI1 : XInv tr c1) by (eapply XInv_sub; eassumption).
          destruct (leave_ok tr c1 b1 q (q_time q) c2 b2 rp
                      (EvAtomic (OReq q, Some rp, length c2, true)) HI1 El eq_refl eq_refl) as [Hf HI2].
          split; [|exact HI2].
          intros q' rp' tl Hr. cbn in Hr. inversion Hr; subst. right; left. exact Hf.
      + inversion Hs; subst; clear Hs. cbn [fst]. split; [intros q rp tl Hr; discriminate | intros x []].
      + inversion Hs; subst; clear Hs. cbn [fst]. split; [intros q rp tl Hr; discriminate | apply XInv_app, HI].
      + inversion Hs; subst; clear Hs. cbn [fst]. split; [intros q rp tl Hr; discriminate | apply XInv_app, HI].
    - (* first half *)
      destruct (enter K cf bc (c, b) (q_prompt q) (q_time q)) as [[c1 b1] r] eqn:Ee.
      destruct (enter_spec _ _ _ _ _ _ _ Ee) as [Hsub Hhit].
      destruct r as [|res|]; inversion Hs; subst; clear Hs; cbn [fst]; split.
      + intros q' rp' tl Hr. cbn in Hr. inversion Hr; subst. left. eexists; reflexivity.
      + apply XInv_app. eapply XInv_sub; eassumption.
      + intros q' rp' tl Hr. cbn in Hr. inversion Hr; subst.
        eapply hit_justified; [exact HI | apply Hhit; reflexivity].
      + apply XInv_app. eapply XInv_sub; eassumption.
      + intros q' rp' tl Hr. discriminate.
      + apply XInv_app. eapply XInv_sub; eassumption.
    - (* second half *)
      destruct (pending_find id pend) as [q|].
      + destruct (leave H K cf bc (c, b) q now) as [[c2 b2] rp] eqn:El.
        inversion Hs; subst; clear Hs. cbn [fst].
        destruct (leave_ok tr c b q now c2 b2 rp (EvCompleted id q now rp) HI El eq_refl eq_refl) as [Hf HI2].
        split; [|exact HI2].
        intros q' rp' tl Hr. cbn in Hr. inversion Hr; subst. right; left. exact Hf.
      + inversion Hs; subst; clear Hs. cbn [fst].
        split; [intros q rp tl Hr; discriminate | apply XInv_app, HI].
  Qed.

  Lemma xtrace_from_justified :
    forall ops tr s pend, XInv tr (fst s) ->
      forall i e q rp, nth_error (xtrace_from H K cf bc (s, pend) ops) i = Some e -> xreply e = Some (q, rp) ->
        xjustified (tr ++ xtrace_from H K cf bc (s, pend) ops) (length tr + i) q rp.
  Proof.
    induction ops as [|o rest IH]; intros tr s pend HI i e q rp Hn Hr.
    - destruct i; discriminate.
    - cbn [xtrace_from] in *.
      destruct (xstep H K cf bc (s, pend) o) as [[s' pend'] e0] eqn:Hs.
      destruct (xstep_ok tr s pend o s' pend' e0 HI Hs) as [Hj HI'].
      destruct i as [|i].
      + cbn in Hn. inversion Hn; subst e0. rewrite Nat.add_0_r. apply Hj. exact Hr.
      + cbn [nth_error] in Hn.
        pose proof (IH (tr ++ [e0]) s' pend' HI' i e q rp Hn Hr) as J.
        rewrite <- app_assoc in J. cbn [app] in J.
        rewrite app_length in J. cbn [length] in J.
        replace (length tr + 1 + i)%nat with (length tr + S i)%nat in J by lia. exact J.
  Qed.

  Lemma overlap_justified_proof :
    forall ops i e q rp,
      nth_error (xtrace H K cf bc ops) i = Some e -> xreply e = Some (q, rp) ->
      xjustified (xtrace H K cf bc ops) i q rp.
  Proof.
    intros ops i e q rp Hn Hr.
    exact (xtrace_from_justified ops [] ([], brk0) [] (fun x (F : In x []) => match F with end) i e q rp Hn Hr).
  Qed.

  (* ---- whose request a reply answers ---- *)

  Definition PInv (pre : list xop) (pend : pending) : Prop :=
    forall id q, In (id, q) pend -> In (XBegin id q) pre.

  Lemma pending_find_In : forall id pend q, pending_find id pend = Some q -> In (id, q) pend.
  Proof.
    induction pend as [|[i q0] r IH]; cbn; intros q E; [discriminate|].
    destruct (Z.eqb i id) eqn:Ei.
    - apply Z.eqb_eq in Ei. inversion E; subst. left; reflexivity.
    - right; apply IH; exact E.
  Qed.

  Lemma In_pending_remove : forall id x pend, In x (pending_remove id pend) -> In x pend.
  Proof.
    induction pend as [|[i q0] r IH]; cbn; intros E; [exact E|].
    destruct (Z.eqb i id).
    - right; exact E.
    - destruct E as [E|E]; [left; exact E | right; apply IH; exact E].
  Qed.

  (* where the request of a reply at position [i] comes from: the operation at position [i]
     itself, or - for a request that was in flight - the begin with its id, EARLIER in the history *)
  Definition xorigin (all : list xop) (i : nat) (ops : list xop) (pre : list xop) (e : xev) (q : req) : Prop :=
    nth_error ops i = Some (XAtomic (OReq q)) \/
    (exists id, nth_error ops i = Some (XBegin id q)) \/
    (exists id now rp, e = EvCompleted id q now rp /\ nth_error ops i = Some (XEnd id now) /\
                       In (XBegin id q) (pre ++ firstn i ops)).

  Lemma xtrace_from_origin :
    forall ops pre s pend, PInv pre pend ->
      forall i e q rp, nth_error (xtrace_from H K cf bc (s, pend) ops) i = Some e -> xreply e = Some (q, rp) ->
        xorigin (pre ++ ops) i ops pre e q.
  Proof.
    induction ops as [|o rest IH]; intros pre s pend HP i e q rp Hn Hr.
    - destruct i; discriminate.
    - cbn [xtrace_from] in Hn.
      destruct (xstep H K cf bc (s, pend) o) as [[s' pend'] e0] eqn:Hs.
      destruct i as [|i].
      + cbn in Hn. inversion Hn; subst e0; clear Hn. unfold xorigin. cbn [nth_error firstn].
        destruct o as [a | id q0 | id now]; cbn [xstep] in Hs.
        * destruct (bstep_op H K cf bc s a) as [s1 e1] eqn:Eb. inversion Hs; subst; clear Hs.
          destruct a as [q0| | |]; cbn [bstep_op] in Eb.
          -- destruct (bstep H K cf bc s q0) as [[s2 rp2] adm]. inversion Eb; subst.
             cbn in Hr. inversion Hr; subst. left; reflexivity.
          -- inversion Eb; subst. discriminate Hr.
          -- inversion Eb; subst. discriminate Hr.
          -- inversion Eb; subst. discriminate Hr.
        * destruct (enter K cf bc s (q_prompt q0) (q_time q0)) as [s1 r].
          destruct r; inversion Hs; subst; clear Hs; cbn in Hr; try discriminate;
            inversion Hr; subst; right; left; exists id; reflexivity.
        * destruct (pending_find id pend) as [q0|] eqn:Ef.
          -- destruct (leave H K cf bc s q0 now) as [s2 rp2]. inversion Hs; subst; clear Hs.
             cbn in Hr. inversion Hr; subst. right; right. exists id, now, rp.
             split; [reflexivity|]. split; [reflexivity|].
             rewrite app_nil_r. apply HP. apply pending_find_In. exact Ef.
          -- inversion Hs; subst. discriminate Hr.
      + cbn [nth_error] in Hn.
        assert (HP' : PInv (pre ++ [o]) pend').
        { destruct o as [a | id q0 | id now]; cbn [xstep] in Hs.
          - destruct (bstep_op H K cf bc s a) as [s1 e1]. inversion Hs; subst.
            intros id q1 Hi. apply in_or_app; left. apply HP; exact Hi.
          - destruct (enter K cf bc s (q_prompt q0) (q_time q0)) as [s1 r].
            destruct r; inversion Hs; subst; intros id1 q1 Hi.
            + apply in_or_app; left. apply HP; exact Hi.
            + apply in_or_app; left. apply HP; exact Hi.
            + destruct Hi as [Hi|Hi].
              * inversion Hi; subst. apply in_or_app; right; left; reflexivity.
              * apply in_or_app; left. apply HP; exact Hi.
          - destruct (pending_find id pend) as [q0|].
            + destruct (leave H K cf bc s q0 now) as [s2 rp2]. inversion Hs; subst.
              intros id1 q1 Hi. apply in_or_app; left. apply HP. eapply In_pending_remove; exact Hi.
            + inversion Hs; subst. intros id1 q1 Hi. apply in_or_app; left. apply HP; exact Hi. }
        pose proof (IH (pre ++ [o]) s' pend' HP' i e q rp Hn Hr) as J.
        unfold xorigin in *. cbn [nth_error firstn].
        destruct J as [J | [J | (id & now & rp' & J1 & J2 & J3)]]; [left; exact J | right; left; exact J |].
        right; right. exists id, now, rp'. split; [exact J1|]. split; [exact J2|].
        rewrite <- app_assoc in J3. exact J3.
  Qed.

  (* the requests of an overlapping history *)
  Definition xreq_in (ops : list xop) (q : req) : Prop :=
    In (XAtomic (OReq q)) ops \/ exists id, In (XBegin id q) ops.

  Lemma In_firstn : forall (A : Type) n (l : list A) x, In x (firstn n l) -> In x l.
  Proof.
    intros A n. induction n as [|n IH]; intros l x Hi; [destruct Hi|].
    destruct l as [|y l]; [destruct Hi|]. destruct Hi as [->|Hi]; [left; reflexivity | right; apply IH; exact Hi].
  Qed.

  Lemma xreply_req_in :
    forall ops i e q rp,
      nth_error (xtrace H K cf bc ops) i = Some e -> xreply e = Some (q, rp) -> xreq_in ops q.
  Proof.
    intros ops i e q rp Hn Hr.
    destruct (xtrace_from_origin ops [] ([], brk0) [] (fun id q (F : In (id, q) []) => match F with end)
                                 i e q rp Hn Hr) as [J | [(id & J) | (id & now & rp' & _ & _ & J)]].
    - left. eapply nth_error_In; exact J.
    - right. exists id. eapply nth_error_In; exact J.
    - right. exists id. cbn [app] in J. eapply In_firstn; exact J.
  Qed.

  Lemma xtrace_from_nth_op :
    forall ops x i e, nth_error (xtrace_from H K cf bc x ops) i = Some e ->
      exists x' o, nth_error ops i = Some o /\ e = snd (xstep H K cf bc x' o).
  Proof.
    induction ops as [|o rest IH]; intros x i e Hn; [destruct i; discriminate|].
    cbn [xtrace_from] in Hn. destruct (xstep H K cf bc x o) as [x1 e0] eqn:Hs.
    destruct i as [|i].
    - cbn in Hn. injection Hn as <-. exists x, o. split; [reflexivity|]. rewrite Hs. reflexivity.
    - cbn [nth_error] in Hn. destruct (IH x1 i e Hn) as (x' & o' & A & B). exists x', o'. split; assumption.
  Qed.

  (* only the second half of a request produces an [EvCompleted]; it says the executor was asked
     and is not marked cached *)
  Lemma xstep_completed_shape :
    forall x o id q now rp, snd (xstep H K cf bc x o) = EvCompleted id q now rp ->
      o = XEnd id now /\ r_exec_called rp = true /\ r_cached rp = false.
  Proof.
    intros [s pend] o id q now rp E.
    destruct o as [a | id0 q0 | id0 now0]; cbn [xstep] in E.
    - destruct (bstep_op H K cf bc s a) as [s1 e1]. discriminate E.
    - destruct (enter K cf bc s (q_prompt q0) (q_time q0)) as [s1 r]. destruct r; discriminate E.
    - destruct (pending_find id0 pend) as [q0|]; [|discriminate E].
      destruct s as [c b]. unfold leave in E. cbn [snd] in E. inversion E; subst. auto.
  Qed.

  (* the reply of a request that was in flight - whatever happened on the loop object between
     its two halves - is the gate's outcome on the prompt and the agents' answers of the begin
     with that id, which stands earlier in the history *)
  Lemma overlap_completed_is_own_gate_proof :
    forall ops i id q now rp,
      nth_error (xtrace H K cf bc ops) i = Some (EvCompleted id q now rp) ->
      nth_error ops i = Some (XEnd id now) /\ In (XBegin id q) (firstn i ops) /\
      r_cached rp = false /\ r_core rp = outcome H cf q /\ r_exec_called rp = true /\
      r_assess_called rp = negb (raised (q_exec q)) /\ r_shown rp = Some (q_prompt q).
  Proof.
    intros ops i id q now rp Hn.
    destruct (xtrace_from_nth_op ops _ i _ Hn) as (x' & o & Ho & He).
    symmetry in He. destruct (xstep_completed_shape x' o id q now rp He) as (-> & Hx & Hc).
    split; [exact Ho|].
    destruct (xtrace_from_origin ops [] ([], brk0) [] (fun id q (F : In (id, q) []) => match F with end)
                                 i _ q rp Hn eq_refl) as [J | [(id' & J) | (id' & now' & rp' & J1 & J2 & J3)]].
    - rewrite Ho in J. discriminate J.
    - rewrite Ho in J. discriminate J.
    - inversion J1; subst id' now' rp'. cbn [app] in J3. split; [exact J3|].
      destruct (overlap_justified_proof ops i _ q rp Hn eq_refl) as [[n E] | [F | [C _]]].
      + rewrite E in Hx. discriminate Hx.
      + exact F.
      + congruence.
  Qed.

  (* ---- the conjuncts of the property, for overlapping histories ---- *)

  Lemma overlap_pass_only_if_proof :
    forall ops i e q rp,
      nth_error (xtrace H K cf bc ops) i = Some e -> xreply e = Some (q, rp) ->
      c_blocked (r_core rp) = false ->
      exists j ej qj rj,
        (j <= i)%nat /\ nth_error (xtrace H K cf bc ops) j = Some ej /\ xreply ej = Some (qj, rj) /\
        K (q_prompt qj) = K (q_prompt q) /\ r_cached rj = false /\ (r_cached rp = false -> j = i) /\
        r_core rp = outcome H cf qj /\
        spec_pass (cf_logic cf) (q_exec qj) (q_assess qj) = true.
  Proof.
    intros ops i e q rp Hn Hr Hb.
    destruct (overlap_justified_proof ops i e q rp Hn Hr)
      as [[n E] | [F | [C (j & ej & qj & rj & tj & A1 & A2 & A3 & A4 & A5 & A6 & A7 & _)]]].
    - rewrite E in Hb. discriminate Hb.
    - destruct F as (F1 & F2 & _). exists i, e, q, rp.
      split; [lia|]. split; [exact Hn|]. split; [exact Hr|]. split; [reflexivity|]. split; [exact F1|].
      split; [reflexivity|]. split; [exact F2|].
      apply pass_iff_proof. rewrite F2 in Hb. exact Hb.
    - destruct A5 as (F1 & F2 & _). exists j, ej, qj, rj.
      split; [lia|]. split; [exact A2|]. split; [exact A3|]. split; [exact A6|]. split; [exact F1|].
      split; [intros E; congruence|]. split; [congruence|].
      apply pass_iff_proof. rewrite A7, F2 in Hb. exact Hb.
  Qed.

  Definition xK_injective_on (ops : list xop) : Prop :=
    forall a b, xreq_in ops a -> xreq_in ops b -> K (q_prompt a) = K (q_prompt b) -> q_prompt a = q_prompt b.

  Lemma overlap_cache_same_verdict_proof :
    forall ops, xK_injective_on ops ->
    forall i e q rp,
      nth_error (xtrace H K cf bc ops) i = Some e -> xreply e = Some (q, rp) -> r_cached rp = true ->
      exists j ej qj rj tj,
        (j < i)%nat /\ nth_error (xtrace H K cf bc ops) j = Some ej /\ xreply ej = Some (qj, rj) /\
        xdone_at ej = Some tj /\ q_prompt qj = q_prompt q /\ r_cached rj = false /\
        r_core rp = r_core rj /\ r_core rj = outcome H cf qj /\
        q_time q - tj < cf_ttl cf /\ r_exec_called rp = false /\ r_assess_called rp = false.
  Proof.
    intros ops Hinj i e q rp Hn Hr Hc.
    destruct (overlap_justified_proof ops i e q rp Hn Hr)
      as [[n E] | [F | [_ (j & ej & qj & rj & tj & A1 & A2 & A3 & A4 & A5 & A6 & A7 & A8 & _ & A10 & A11 & _)]]].
    - rewrite E in Hc. discriminate Hc.
    - destruct F as (F1 & _). congruence.
    - destruct A5 as (F1 & F2 & _). exists j, ej, qj, rj, tj.
      split; [exact A1|]. split; [exact A2|]. split; [exact A3|]. split; [exact A4|].
      split; [apply Hinj; [exact (xreply_req_in ops j ej qj rj A2 A3) | exact (xreply_req_in ops i e q rp Hn Hr) | exact A6]|].
      auto 8.
  Qed.

  Lemma overlap_token_bound_proof :
    forall ops, xK_injective_on ops ->
    forall i e q rp t,
      nth_error (xtrace H K cf bc ops) i = Some e -> xreply e = Some (q, rp) ->
      c_token (r_core rp) = Some t ->
      tk_hash t = H (q_prompt q) /\ tk_issuer t = cf_assessor cf /\ c_blocked (r_core rp) = false /\
      exists j ej qj rj,
        (j <= i)%nat /\ nth_error (xtrace H K cf bc ops) j = Some ej /\ xreply ej = Some (qj, rj) /\
        q_prompt qj = q_prompt q /\ r_cached rj = false /\ q_assess qj = VPermit.
  Proof.
    intros ops Hinj i e q rp t Hn Hr Ht.
    assert (Hb : c_blocked (r_core rp) = false).
    { destruct (overlap_justified_proof ops i e q rp Hn Hr)
        as [[n E] | [F | [_ (j & ej & qj & rj & tj & _ & _ & _ & _ & A5 & _ & A7 & _)]]].
      - rewrite E in Ht. discriminate Ht.
      - destruct F as (_ & F2 & _). rewrite F2 in Ht |- *.
        destruct (token_iff_proof H cf q) as [T _]. destruct (T t Ht) as (_ & B & _). exact B.
      - destruct A5 as (_ & F2 & _). rewrite A7, F2 in Ht |- *.
        destruct (token_iff_proof H cf qj) as [T _]. destruct (T t Ht) as (_ & B & _). exact B. }
    destruct (overlap_pass_only_if_proof ops i e q rp Hn Hr Hb)
      as (j & ej & qj & rj & A1 & A2 & A3 & A4 & A5 & _ & A7 & _).
    assert (Hp : q_prompt qj = q_prompt q)
      by (apply Hinj; [exact (xreply_req_in ops j ej qj rj A2 A3) | exact (xreply_req_in ops i e q rp Hn Hr) | exact A4]).
    rewrite A7 in Ht.
    destruct (token_iff_proof H cf qj) as [T _]. destruct (T t Ht) as (B1 & _ & B3 & B4).
    rewrite <- Hp. split; [exact B3|]. split; [exact B4|]. split; [exact Hb|].
    exists j, ej, qj, rj. auto 8.
  Qed.
End OverlapProofs.

(* two loop objects with overlapping requests on each do not influence each other *)
Lemma xloops_isolated_from :
  forall (H K : str -> str) cf0 cf1 bc0 bc1 tops a0 a1 b,
    proj b (xsys_from H K cf0 cf1 bc0 bc1 a0 a1 tops) =
    xtrace_from H K (if b then cf1 else cf0) (if b then bc1 else bc0) (if b then a1 else a0) (proj b tops).
Proof.
  intros H K cf0 cf1 bc0 bc1. unfold proj.
  induction tops as [|[t o] rest IH]; intros a0 a1 b; [reflexivity|].
  cbn [xsys_from]. destruct t.
  - destruct (xstep H K cf1 bc1 a1 o) as [a1' e] eqn:Es.
    cbn [filter fst]. destruct b; cbn [Bool.eqb map snd].
    + cbn [xtrace_from]. rewrite Es. rewrite (IH a0 a1' true). reflexivity.
    + rewrite (IH a0 a1' false). reflexivity.
  - destruct (xstep H K cf0 bc0 a0 o) as [a0' e] eqn:Es.
    cbn [filter fst]. destruct b; cbn [Bool.eqb map snd].
    + rewrite (IH a0' a1 true). reflexivity.
    + cbn [xtrace_from]. rewrite Es. rewrite (IH a0' a1 false). reflexivity.
Qed.

Lemma overlap_loops_isolated_proof :
  forall (H K : str -> str) cf0 cf1 bc0 bc1 tops b,
    proj b (xsys_trace H K cf0 cf1 bc0 bc1 tops) =
    xtrace H K (if b then cf1 else cf0) (if b then bc1 else bc0) (proj b tops).
Proof.
  intros H K cf0 cf1 bc0 bc1 tops b. unfold xsys_trace, xtrace.
  rewrite (xloops_isolated_from H K cf0 cf1 bc0 bc1 tops x0 x0 b). destruct b; reflexivity.
Qed.
