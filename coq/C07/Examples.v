(* C07 — non-vacuity examples.  The unchanged code satisfies C07, so there is
   no legacy switch and no refutation of the code here; the last example shows
   that the injectivity hypothesis of the cache/token theorems is needed. *)
From Coq Require Import ZArith List Bool.
From Verif Require Import C07.Model C07.Proofs C07.Timed C07.World.
Import ListNotations.
Open Scope Z_scope.

(* c07_pass_iff: both sides of the iff are inhabited under every logic that
   can pass, and MAJORITY blocks even two permits *)
Example ex_pass_and_block :
  g_blocked (gate LAnd VExecute VPermit) = false /\ spec_pass LAnd VExecute VPermit = true /\
  g_blocked (gate LAnd VExecute VExecute) = true /\ spec_pass LAnd VExecute VExecute = false /\
  g_blocked (gate LUnanimous VPermit VPermit) = false /\
  g_blocked (gate LOr VBlock VPermit) = false /\ g_blocked (gate LOr VBlock VBlock) = true /\
  g_blocked (gate LExecPrio VExecute VFailure) = false /\ g_blocked (gate LExecPrio VExecute VBlock) = true /\
  g_blocked (gate LAssessPrio VBlock VPermit) = false /\ g_blocked (gate LAssessPrio VFailure VPermit) = true /\
  g_blocked (gate LMajority VPermit VPermit) = true.
Proof. vm_compute. repeat split; reflexivity. Qed.

(* c07_exception_blocks: a pair that WOULD pass if the raise were ignored *)
Example ex_exception :
  gate LOr VRaised VPermit = mkG false AError true false /\
  gate LExecPrio VExecute VRaised = mkG false AError true false /\
  apply_gate_logic LExecPrio VExecute VRaised <> mkG false AError true false.
Proof. vm_compute. repeat split; try reflexivity. discriminate. Qed.

(* c07_unknown_blocks: the hypotheses of all four clauses are met by concrete
   verdicts, including the two passing one-key situations *)
Example ex_unknown :
  is_unknown VDefer = true /\ is_unknown VOther = true /\
  g_blocked (gate LOr VDefer VOther) = true /\
  g_blocked (gate LAnd VUnknown VPermit) = true /\
  g_blocked (gate LOr VUnknown VPermit) = false /\
  g_blocked (gate LAssessPrio VOther VPermit) = false /\
  g_blocked (gate LExecPrio VExecute VDefer) = false.
Proof. vm_compute. repeat split; reflexivity. Qed.

Definition hash_x (p : str) : str := 7 :: p.          (* some H *)
Definition cf_and := mkConfig LAnd [89] true 5 1000.
Definition cf_or := mkConfig LOr [89] true 5 1000.

(* c07_token_iff_assessor_permit: a token is really built, and really withheld *)
Example ex_token :
  c_token (outcome hash_x cf_and (mkReq [97] 0 VExecute VPermit)) = Some (mkToken [7; 97] [89]) /\
  c_token (outcome hash_x cf_or (mkReq [97] 0 VExecute VBlock)) = None /\
  c_blocked (outcome hash_x cf_or (mkReq [97] 0 VExecute VBlock)) = false /\
  c_token (outcome hash_x cf_and (mkReq [97] 0 VBlock VPermit)) = None.
Proof. vm_compute. repeat split; reflexivity. Qed.

(* c07_cache_same_verdict / c07_fresh_reply_is_gate: a history with a hit
   (request 2 repeats prompt "a" within the TTL although the agents would now
   say BLOCK/BLOCK), an expiry (request 3, 9 s later) and a second prompt *)
Definition hist1 : list op :=
  [ OReq (mkReq [97] 0 VExecute VPermit); OReq (mkReq [98] 1 VBlock VBlock);
    OReq (mkReq [97] 2 VBlock VBlock);    OReq (mkReq [97] 9 VBlock VBlock) ].

Example ex_cache_hit :
  let tr := trace hash_x (fun p => p) cf_and hist1 in
  map (fun x => r_cached (snd x)) tr = [false; false; true; false] /\
  map (fun x => c_blocked (r_core (snd x))) tr = [false; true; false; true] /\
  map (fun x => r_exec_called (snd x)) tr = [true; true; false; true] /\
  (exists r0 r2, nth_error tr 0 = Some (mkReq [97] 0 VExecute VPermit, r0) /\
                 nth_error tr 2 = Some (mkReq [97] 2 VBlock VBlock, r2) /\
                 r_core r2 = r_core r0 /\ c_token (r_core r2) = Some (mkToken [7; 97] [89])).
Proof. vm_compute. repeat split; try reflexivity. eexists; eexists; repeat split; reflexivity. Qed.

Example ex_hist1_keys_injective :
  forall a b, In (OReq a) hist1 -> In (OReq b) hist1 ->
    (fun p : str => p) (q_prompt a) = (fun p : str => p) (q_prompt b) -> q_prompt a = q_prompt b.
Proof. intros a b _ _ E. exact E. Qed.

(* an exception reply is not stored: the repeat asks the agents again *)
Example ex_exception_not_cached :
  map (fun x => (r_cached (snd x), c_blocked (r_core (snd x))))
      (trace hash_x (fun p => p) cf_and
             [OReq (mkReq [97] 0 VRaised VPermit); OReq (mkReq [97] 1 VExecute VPermit)])
  = [(false, true); (false, false)].
Proof. vm_compute. reflexivity. Qed.

(* eviction (capacity 2 here): the oldest entry goes, the evicted prompt is
   evaluated afresh *)
Example ex_eviction :
  map (fun x => (r_cached (snd x), r_cache_size (snd x)))
      (trace hash_x (fun p => p) (mkConfig LAnd [89] true 100 2)
             (map OReq [mkReq [1] 0 VExecute VPermit; mkReq [2] 1 VExecute VPermit; mkReq [3] 2 VExecute VPermit;
                        mkReq [1] 3 VBlock VBlock; mkReq [3] 3 VBlock VBlock]))
  = [(false, 1%nat); (false, 2%nat); (false, 2%nat); (false, 2%nat); (true, 2%nat)].
Proof. vm_compute. reflexivity. Qed.

(* c07_history_exception_blocks / c07_agents_consulted_iff_not_cached: the
   prompt was permitted and cached (request 0), is served from the cache while
   valid even though the assessor would now raise (request 1: nobody is asked,
   so nothing raises), and once the entry has expired the raising assessor
   (request 2) and the raising executor (request 3) both give the blocked ERROR
   result without a token - the hypotheses of the theorem are met at 2 and 3,
   not at 1 - and nothing of it is cached (request 4 asks again). *)
Definition hist_exc : list op :=
  [ OReq (mkReq [97] 0 VExecute VPermit); OReq (mkReq [97] 4 VExecute VRaised);
    OReq (mkReq [97] 5 VExecute VRaised); OReq (mkReq [97] 6 VRaised VPermit);
    OReq (mkReq [97] 7 VExecute VPermit) ].

Example ex_exception_after_expiry :
  let tr := trace hash_x (fun p => p) cf_and hist_exc in
  map (fun x => (r_cached (snd x), r_exec_called (snd x), r_assess_called (snd x))) tr
    = [(false, true, true); (true, false, false); (false, true, true); (false, true, false); (false, true, true)] /\
  map (fun x => c_blocked (r_core (snd x))) tr = [false; false; true; true; false] /\
  map (fun x => r_core (snd x)) (firstn 2 (skipn 2 tr))
    = [mkCore false AError true None; mkCore false AError true None] /\
  map (fun x => r_shown (snd x)) tr = [Some [97]; None; Some [97]; Some [97]; Some [97]].
Proof. vm_compute. repeat split; reflexivity. Qed.

(* c07_tokens_not_interchangeable: two prompts, two tokens, different hashes;
   the repeat of the first prompt carries the first token again *)
Example ex_tokens_differ :
  map (fun x => c_token (r_core (snd x)))
      (trace hash_x (fun p => p) cf_and
             [OReq (mkReq [97] 0 VExecute VPermit); OReq (mkReq [65] 0 VExecute VPermit);
              OReq (mkReq [97] 1 VBlock VBlock)])
  = [Some (mkToken [7; 97] [89]); Some (mkToken [7; 65] [89]); Some (mkToken [7; 97] [89])].
Proof. vm_compute. reflexivity. Qed.

(* c07_clear_forgets / c07_observe_is_noop: within the TTL the repeat is a hit
   after a read-only call and a fresh evaluation after clear_cache() *)
Example ex_clear_and_observe :
  map (fun x => (r_cached (snd x), c_blocked (r_core (snd x))))
      (trace hash_x (fun p => p) cf_and
             [OReq (mkReq [97] 0 VExecute VPermit); OObserve; OReq (mkReq [97] 1 VBlock VBlock);
              OClear; OReq (mkReq [97] 2 VBlock VBlock)])
  = [(false, false); (true, false); (false, true)] /\
  map (fun e => snd e)
      (etrace_from hash_x (fun p => p) cf_and []
             [OReq (mkReq [97] 0 VExecute VPermit); OObserve; OClear; OObserve])
  = [1%nat; 1%nat; 0%nat; 0%nat].
Proof. vm_compute. split; reflexivity. Qed.

(* c07_loops_isolated: the same prompt sent to two objects (AND and OR) is
   evaluated by each; the second object's reply is not the first one's *)
Definition bc_off := mkBcfg false 5 60.
Definition bc_2 := mkBcfg true 2 10.        (* opens at the 2nd failure, probes 10 later *)

Example ex_two_loops :
  map (fun x => match x with
                | (b, ((_, Some r, _), _)) => (b, r_cached r, c_blocked (r_core r))
                | (b, _) => (b, false, false) end)
      (sys_trace hash_x (fun p => p) cf_and cf_or bc_off bc_2
             [(false, OReq (mkReq [97] 0 VExecute VPermit)); (true, OReq (mkReq [97] 1 VBlock VBlock));
              (false, OReq (mkReq [97] 2 VBlock VBlock)); (true, OReq (mkReq [97] 3 VExecute VPermit))])
  = [(false, false, false); (true, false, true); (false, true, false); (true, true, true)].
Proof. vm_compute. reflexivity. Qed.

(* c07_breaker_only_rejects / c07_breaker_pass_only_if: prompt "a" is approved
   and cached (0); two agent exceptions on "b" open the breaker (1, 2); while it
   is open even the cached, approved "a" is rejected (3, 4: CIRCUIT_OPEN, nobody
   asked, cache still 1 entry); once the recovery time has passed a request is
   admitted as the probe (5: fresh, passes, closes the breaker), and from then
   on requests are admitted (6).  The admitted history is the original one
   without requests 3 and 4. *)
Definition hist_brk : list op :=
  [ OReq (mkReq [97] 0 VExecute VPermit); OReq (mkReq [98] 1 VRaised VPermit);
    OReq (mkReq [98] 2 VExecute VRaised); OReq (mkReq [97] 3 VExecute VPermit);
    OReq (mkReq [97] 4 VBlock VBlock);    OReq (mkReq [99] 12 VExecute VPermit);
    OReq (mkReq [98] 13 VBlock VBlock) ].

Example ex_breaker :
  let cf := mkConfig LAnd [89] true 100 1000 in
  let tr := betrace hash_x (fun p => p) cf bc_2 hist_brk in
  map snd tr = [true; true; true; false; false; true; true] /\
  map (fun x => match x with ((_, Some r, n), _) => (action_code (c_action (r_core r)), r_cached r, r_exec_called r, n)
                           | _ => (-1, false, false, 0%nat) end) tr
    = [(0, false, true, 1%nat); (4, false, true, 1%nat); (4, false, true, 1%nat); (5, false, false, 1%nat);
       (5, false, false, 1%nat); (0, false, true, 2%nat); (1, false, true, 3%nat)] /\
  admitted hash_x (fun p => p) cf bc_2 hist_brk
    = [ OReq (mkReq [97] 0 VExecute VPermit); OReq (mkReq [98] 1 VRaised VPermit);
        OReq (mkReq [98] 2 VExecute VRaised); OReq (mkReq [99] 12 VExecute VPermit);
        OReq (mkReq [98] 13 VBlock VBlock) ].
Proof. vm_compute. repeat split; reflexivity. Qed.

(* the probe after the recovery time can be a cache hit (the breaker stays
   half-open), and reset_circuit_breaker() re-admits at once *)
Example ex_breaker_probe_and_reset :
  let cf := mkConfig LOr [89] true 100 1000 in
  map (fun x => match x with ((_, Some r, _), adm) => (adm, r_cached r, c_blocked (r_core r))
                           | (_, adm) => (adm, false, false) end)
      (betrace hash_x (fun p => p) cf (mkBcfg true 1 10)
         [ OReq (mkReq [97] 0 VExecute VBlock); OReq (mkReq [98] 1 VRaised VPermit);
           OReq (mkReq [97] 2 VBlock VBlock);   OReq (mkReq [97] 11 VBlock VBlock);
           OReq (mkReq [98] 12 VRaised VRaised); OReq (mkReq [97] 13 VBlock VBlock);
           OReset; OReq (mkReq [97] 14 VBlock VBlock) ])
  = [(true, false, false); (true, false, true); (false, false, true); (true, true, false);
     (true, false, true); (false, false, true); (true, false, false); (true, true, false)].
Proof. vm_compute. reflexivity. Qed.

(* c07_breaker_disabled is not vacuous the other way: the same history with the
   breaker disabled admits everything *)
Example ex_breaker_disabled :
  forallb snd (betrace hash_x (fun p => p) (mkConfig LAnd [89] true 100 1000) (mkBcfg false 2 10) hist_brk) = true.
Proof. vm_compute. reflexivity. Qed.

(* The injectivity hypothesis is needed: with a cache key that collides on
   two different prompts, the second prompt is answered with the first one's
   verdict and a token bound to the first prompt's hash. *)
Lemma c07_key_collision_breaks_binding :
  exists (K : str -> str) ops i qi ri t,
    nth_error (trace hash_x K cf_and ops) i = Some (qi, ri) /\
    c_token (r_core ri) = Some t /\ tk_hash t <> hash_x (q_prompt qi) /\
    spec_pass (cf_logic cf_and) (q_exec qi) (q_assess qi) = false /\
    c_blocked (r_core ri) = false.
Proof.
  exists (fun _ => []), [OReq (mkReq [97] 0 VExecute VPermit); OReq (mkReq [98] 1 VBlock VBlock)], 1%nat.
  eexists. eexists. eexists. vm_compute. repeat split; try reflexivity. discriminate.
Qed.

(* ---------------------------------------------------------------------- *)
(* overlapping requests                                                     *)

(* c07_overlap_completed_is_own_gate / c07_overlap_token_bound / c07_overlap_cache_same_verdict:
   request 0 for "a" (EXECUTE/PERMIT) is in flight while a whole request for "b" (BLOCK/BLOCK) is
   answered; when it returns, its reply is its own (passes, token bound to H "a"), and afterwards both
   prompts are served from the cache, each with its own verdict. *)
Definition xhist1 : list xop :=
  [ XBegin 0 (mkReq [97] 0 VExecute VPermit); XAtomic (OReq (mkReq [98] 1 VBlock VBlock)); XEnd 0 2;
    XAtomic (OReq (mkReq [97] 3 VBlock VBlock)); XAtomic (OReq (mkReq [98] 4 VExecute VPermit)) ].

Example ex_overlap_other_prompt :
  let tr := xtrace hash_x (fun p => p) cf_and bc_off xhist1 in
  nth_error tr 0 = Some (EvInFlight 0 (mkReq [97] 0 VExecute VPermit) 0%nat) /\
  (exists rp, nth_error tr 2 = Some (EvCompleted 0 (mkReq [97] 0 VExecute VPermit) 2 rp) /\
              r_core rp = mkCore true ASuccess false (Some (mkToken [7; 97] [89])) /\ r_cache_size rp = 2%nat) /\
  map (fun e => match xreply e with
                | Some (_, r) => (r_cached r, c_blocked (r_core r), c_token (r_core r))
                | None => (false, false, None) end) tr
  = [ (false, false, None); (false, true, None); (false, false, Some (mkToken [7; 97] [89]));
      (true, false, Some (mkToken [7; 97] [89])); (true, true, None) ].
Proof. vm_compute. split; [reflexivity|]. split; [eexists; repeat split; reflexivity | reflexivity]. Qed.

Example ex_xhist1_keys_injective :
  forall a b, (In (XAtomic (OReq a)) xhist1 \/ exists id, In (XBegin id a) xhist1) ->
              (In (XAtomic (OReq b)) xhist1 \/ exists id, In (XBegin id b) xhist1) ->
              (fun p : str => p) (q_prompt a) = (fun p : str => p) (q_prompt b) -> q_prompt a = q_prompt b.
Proof. intros a b _ _ E. exact E. Qed.

(* two requests for ONE prompt in flight together: both go to the agents (a request in flight has stored
   nothing), each returns its own verdict, and the cache afterwards holds the reply of the one that
   returned last *)
Example ex_overlap_same_prompt :
  map (fun e => match e with
                | EvInFlight id _ n => (id, false, false, n)
                | EvCompleted id _ _ r => (id, r_cached r, c_blocked (r_core r), r_cache_size r)
                | EvAtomic ((_, Some r, n), _) => (-1, r_cached r, c_blocked (r_core r), n)
                | _ => (-2, false, false, 0%nat) end)
      (xtrace hash_x (fun p => p) cf_and bc_off
         [ XBegin 0 (mkReq [97] 0 VExecute VPermit); XBegin 1 (mkReq [97] 1 VBlock VBlock); XEnd 1 2;
           XAtomic (OReq (mkReq [97] 3 VExecute VPermit)); XEnd 0 4; XAtomic (OReq (mkReq [97] 4 VBlock VBlock)) ])
  = [ (0, false, false, 0%nat); (1, false, false, 0%nat); (1, false, true, 1%nat);
      (-1, true, true, 1%nat); (0, false, false, 1%nat); (-1, true, false, 1%nat) ].
Proof. vm_compute. reflexivity. Qed.

(* the TTL (5 here) counts from the moment the reply was produced (the end, clock 10), not from the begin
   (clock 0): a hit at 14, a fresh evaluation at 15; and an end for which nothing is in flight is a no-op *)
Example ex_overlap_stamped_at_return :
  map (fun e => match xreply e with Some (_, r) => (r_cached r, r_exec_called r) | None => (false, false) end)
      (xtrace hash_x (fun p => p) cf_and bc_off
         [ XBegin 0 (mkReq [97] 0 VExecute VPermit); XEnd 0 10; XEnd 0 11;
           XAtomic (OReq (mkReq [97] 14 VBlock VBlock)); XAtomic (OReq (mkReq [97] 15 VBlock VBlock)) ])
  = [ (false, false); (false, true); (false, false); (true, false); (false, true) ].
Proof. vm_compute. reflexivity. Qed.

(* with a breaker (opens at the 2nd failure): two raising requests in flight together; the second
   failure, recorded when the second of them RETURNS, opens the breaker - the begin after that is turned
   away at once (EvReturned, not admitted), and its end finds nothing in flight *)
Example ex_overlap_breaker :
  map (fun e => match e with
                | EvInFlight _ _ _ => 0 | EvCompleted _ _ _ r => 1 + action_code (c_action (r_core r))
                | EvReturned _ _ r adm => 10 + action_code (c_action (r_core r)) + (if adm then 100 else 0)
                | EvNoSuch _ _ => -2 | EvAtomic _ => -1 end)
      (xtrace hash_x (fun p => p) cf_and bc_2
         [ XBegin 0 (mkReq [97] 0 VRaised VPermit); XBegin 1 (mkReq [98] 0 VExecute VRaised); XEnd 0 1; XEnd 1 2;
           XBegin 2 (mkReq [99] 3 VExecute VPermit); XEnd 2 4 ])
  = [0; 0; 5; 5; 15; -2].
Proof. vm_compute. reflexivity. Qed.

(* c07_overlap_begin_end_is_request / c07_overlap_atomic_is_sequential: both alternatives occur *)
Example ex_overlap_begin_end :
  let s0 : lstate := ([], brk0) in
  let q := mkReq [97] 0 VExecute VPermit in
  let '(s1, rp, _) := bstep hash_x (fun p => p) cf_and bc_off s0 q in
  r_exec_called rp = true /\
  r_exec_called (snd (fst (bstep hash_x (fun p => p) cf_and bc_off s1 (mkReq [97] 1 VBlock VBlock)))) = false /\
  xtrace hash_x (fun p => p) cf_and bc_off (map XAtomic hist1)
    = map EvAtomic (betrace hash_x (fun p => p) cf_and bc_off hist1).
Proof. vm_compute. repeat split; reflexivity. Qed.

(* ---------------------------------------------------------------------- *)
(* reconfiguration of a live loop object                                    *)

(* what matters of the events of a history with reconfiguration: for a reply (logic in force, cached?,
   blocked?, token); for an assignment the logic from now on *)
Definition rshape (e : rev) :=
  match e with
  | RvSet cf _ _ => (cf_logic cf, false, false, None)
  | RvOp cf _ x => match xreply x with
                   | Some (_, r) => (cf_logic cf, r_cached r, c_blocked (r_core r), c_token (r_core r))
                   | None => (cf_logic cf, false, false, None)
                   end
  end.

(* c07_reconf_pass_only_if / c07_reconf_config_in_force: a loop built with OR ("dry run") lets
   EXECUTE/BLOCK through; after gate_logic = AND and clear_cache() the same verdicts for the same
   prompt are blocked - the reply is decided by the logic in force, not by the one the loop was built
   with; back to OR (cache cleared again): passes again *)
Definition rhist1 : list rop :=
  [ RX (XAtomic (OReq (mkReq [97] 0 VExecute VBlock)));
    RSet (SLogic LAnd); RX (XAtomic OClear);
    RX (XAtomic (OReq (mkReq [97] 1 VExecute VBlock)));
    RSet (SLogic LOr); RX (XAtomic OClear);
    RX (XAtomic (OReq (mkReq [97] 2 VExecute VBlock))) ].

Example ex_reconf_go_live :
  map rshape (rtrace hash_x (fun p => p) cf_or bc_off rhist1)
  = [ (LOr, false, false, None); (LAnd, false, false, None); (LAnd, false, false, None);
      (LAnd, false, true, None);
      (LOr, false, false, None); (LOr, false, false, None); (LOr, false, false, None) ] /\
  config_after (cf_or, bc_off) (firstn 4 rhist1) = (cf_and, bc_off).
Proof. vm_compute. split; reflexivity. Qed.

(* c07_reconf_cache_same_verdict / c07_reconf_pass_only_if, cached branch: WITHOUT the clear_cache()
   the approval given under OR is still served (within the TTL) after gate_logic = AND: identical in
   verdict to the original, which satisfied the logic configured when it was decided ([cfj] = the OR
   configuration, not the one in force); once the entry has expired the request is decided under AND *)
Example ex_reconf_cached_across :
  map rshape (rtrace hash_x (fun p => p) cf_or bc_off
    [ RX (XAtomic (OReq (mkReq [97] 0 VExecute VBlock))); RSet (SLogic LAnd);
      RX (XAtomic (OReq (mkReq [97] 4 VExecute VBlock))); RX (XAtomic (OReq (mkReq [97] 5 VExecute VBlock))) ])
  = [ (LOr, false, false, None); (LAnd, false, false, None); (LAnd, true, false, None); (LAnd, false, true, None) ].
Proof. vm_compute. reflexivity. Qed.

(* c07_reconf_completed_is_own_gate: a request begun under OR that is still inside its agents when the
   loop goes to AND is judged under AND when it returns (blocked); one begun under AND and ended under
   OR passes *)
Example ex_reconf_in_flight :
  map rshape (rtrace hash_x (fun p => p) cf_or bc_off
    [ RX (XBegin 0 (mkReq [97] 0 VExecute VBlock)); RSet (SLogic LAnd); RX (XEnd 0 1);
      RX (XBegin 1 (mkReq [98] 2 VExecute VBlock)); RSet (SLogic LOr); RX (XEnd 1 3) ])
  = [ (LOr, false, false, None); (LAnd, false, false, None); (LAnd, false, true, None);
      (LAnd, false, false, None); (LOr, false, false, None); (LOr, false, false, None) ].
Proof. vm_compute. reflexivity. Qed.

(* c07_reconf_token_bound: the issuer of a token is the assessor's name when the reply was produced: the
   cached token keeps the old name [89], a fresh one carries the new name [90]; and the other settings
   act from the moment they are assigned: with enable_cache = False nothing is served or stored, a
   shorter TTL expires an entry that the old one would still serve *)
Example ex_reconf_other_settings :
  map (fun e => match rreply e with
                | Some (_, _, r) => (r_cached r, c_token (r_core r), r_cache_size r)
                | None => (false, None, 0%nat) end)
      (rtrace hash_x (fun p => p) cf_and bc_off
        [ RX (XAtomic (OReq (mkReq [97] 0 VExecute VPermit))); RSet (SAssessor [90]);
          RX (XAtomic (OReq (mkReq [97] 1 VBlock VBlock))); RX (XAtomic (OReq (mkReq [98] 1 VExecute VPermit)));
          RSet (SCache false); RX (XAtomic (OReq (mkReq [97] 2 VBlock VBlock)));
          RSet (SCache true); RSet (STtl 2); RX (XAtomic (OReq (mkReq [97] 2 VBlock VBlock))) ])
  = [ (false, Some (mkToken [7; 97] [89]), 1%nat); (false, None, 0%nat);
      (true, Some (mkToken [7; 97] [89]), 1%nat); (false, Some (mkToken [7; 98] [90]), 2%nat);
      (false, None, 0%nat); (false, None, 2%nat);
      (false, None, 0%nat); (false, None, 0%nat); (false, None, 2%nat) ].
Proof. vm_compute. reflexivity. Qed.

(* the breaker's settings too: its counters run while it is disabled (threshold 2: two raising requests
   open it), so enabling it on the live loop turns the next request away; a lower recovery time then
   lets a probe through *)
Example ex_reconf_breaker :
  map (fun e => match rreply e with
                | Some (_, _, r) => action_code (c_action (r_core r))
                | None => -1 end)
      (rtrace hash_x (fun p => p) cf_and (mkBcfg false 2 60)
        [ RX (XAtomic (OReq (mkReq [97] 0 VRaised VPermit))); RX (XAtomic (OReq (mkReq [97] 1 VRaised VPermit)));
          RX (XAtomic (OReq (mkReq [98] 2 VExecute VPermit)));
          RSet (SBreaker true); RX (XAtomic (OReq (mkReq [99] 3 VExecute VPermit)));
          RSet (SRecovery 2); RX (XAtomic (OReq (mkReq [99] 3 VExecute VPermit))) ])
  = [4; 4; 0; -1; 5; -1; 0].
Proof. vm_compute. reflexivity. Qed.

(* c07_reconf_none_is_overlap / c07_reconf_loops_isolated on concrete histories *)
Example ex_reconf_none :
  rtrace hash_x (fun p => p) cf_and bc_off (map RX xhist1)
  = map (RvOp cf_and bc_off) (xtrace hash_x (fun p => p) cf_and bc_off xhist1) /\
  proj true (rsys_trace hash_x (fun p => p) cf_or cf_or bc_off bc_off
               [ (true, RSet (SLogic LAnd)); (false, RX (XAtomic (OReq (mkReq [97] 0 VExecute VBlock))));
                 (true, RX (XAtomic (OReq (mkReq [97] 0 VExecute VBlock)))) ])
  = rtrace hash_x (fun p => p) cf_or bc_off [RSet (SLogic LAnd); RX (XAtomic (OReq (mkReq [97] 0 VExecute VBlock)))].
Proof. vm_compute. split; reflexivity. Qed.

(* Had the gate been resolved ONCE, at construction (a loop that keeps deciding by the logic it was built
   with while reporting the configured one), the first conjunct would fail on [rhist1]: request 3 would
   come back not blocked although EXECUTE/BLOCK does not satisfy the configured AND. *)
Example ex_reconf_stale_gate_would_violate :
  spec_pass (cf_logic (fst (config_after (cf_or, bc_off) (firstn 4 rhist1)))) VExecute VBlock = false /\
  g_blocked (gate (cf_logic cf_or) VExecute VBlock) = false.
Proof. vm_compute. split; reflexivity. Qed.

(* ---- timed histories ---- *)

Definition cf_xp := mkConfig LExecPrio [89] true 5 1000.

Definition tshape (e : tev) :=
  match rreply (snd e) with
  | Some (_, _, r) => (fst e, r_cached r, c_blocked (r_core r), rdone_at (snd e))
  | None => (fst e, false, false, None)
  end.

(* c07_timed_late_verdict_is_the_verdict / c07_timed_pass_only_if: EXECUTOR_PRIORITY, timeout 2; the
   executor says EXECUTE at once, the assessor needs 50 (25 timeouts) and says BLOCK: blocked, the reply
   produced at 50.  With a slow DEFER instead the request passes (on the executor's strength), at 101.
   The entries are stamped when the replies were produced: at 54 the first prompt is still served from
   the cache (54 - 50 < ttl 5) although 54 - 0 is far beyond the TTL, at 55 it is decided anew. *)
Definition thist1 : list top :=
  [ TSlow (mkReq [97] 0 VExecute VBlock) (mkDl 0 50);
    TSlow (mkReq [98] 1 VExecute VDefer) (mkDl 40 60);
    TPlain (RX (XAtomic (OReq (mkReq [97] 54 VExecute VPermit))));
    TSetTimeout 1000;
    TSlow (mkReq [97] 55 VExecute VPermit) (mkDl 1 1) ].

Example ex_timed_late_block :
  map tshape (ttrace hash_x (fun p => p) 2 cf_xp bc_off thist1)
  = [ (2, false, true, Some 50); (2, false, false, Some 101); (2, true, true, Some 54);
      (1000, false, false, None); (1000, false, false, Some 57) ] /\
  elapsed (mkReq [97] 0 VExecute VBlock) (mkDl 0 50) = 50 /\
  spec_pass LExecPrio VExecute VBlock = false /\ spec_pass LExecPrio VExecute VDefer = true /\
  tconfig_after (2, (cf_xp, bc_off)) (firstn 4 thist1) = (1000, (cf_xp, bc_off)).
Proof. vm_compute. repeat split; reflexivity. Qed.

(* Had the loop replaced an answer that came after timeout_seconds by an abstention (DEFER), the first
   request of [thist1] would have come back not blocked although the assessor's verdict was BLOCK. *)
Example ex_timed_abstention_would_violate :
  g_blocked (gate LExecPrio VExecute VDefer) = false /\ g_blocked (gate LExecPrio VExecute VBlock) = true.
Proof. vm_compute. split; reflexivity. Qed.

(* c07_timed_timeout_is_inert / c07_timed_plain_is_reconf / c07_timed_loops_isolated on concrete histories;
   an executor that raises: the assessor is not asked and its delay does not count *)
Example ex_timed_inert :
  untimed (ttrace hash_x (fun p => p) 2 cf_xp bc_off thist1)
  = untimed (ttrace hash_x (fun p => p) 30000 cf_xp bc_off (map (retime (fun _ => 0)) thist1)) /\
  ttrace hash_x (fun p => p) 7 cf_or bc_off (map TPlain rhist1)
  = map (pair 7) (rtrace hash_x (fun p => p) cf_or bc_off rhist1) /\
  map tshape (ttrace hash_x (fun p => p) 2 cf_xp bc_off [TSlow (mkReq [97] 3 VRaised VPermit) (mkDl 10 500)])
  = [ (2, false, true, Some 13) ] /\
  proj true (tsys_trace hash_x (fun p => p) 1 2 cf_or cf_xp bc_off bc_off
               [ (true, TSetTimeout 9); (false, TSlow (mkReq [97] 0 VExecute VBlock) (mkDl 3 3));
                 (true, TSlow (mkReq [97] 0 VExecute VBlock) (mkDl 5 5)) ])
  = ttrace hash_x (fun p => p) 2 cf_xp bc_off [TSetTimeout 9; TSlow (mkReq [97] 0 VExecute VBlock) (mkDl 5 5)].
Proof. vm_compute. repeat split; reflexivity. Qed.

(* c07_timed_instant_is_request / c07_timed_slow_is_begin_end: hypotheses met (no delay; delays with
   [slow_id] not in flight), both outcomes of the first half (asked / served from the cache) *)
Example ex_timed_steps :
  elapsed (mkReq [97] 0 VExecute VPermit) (mkDl 0 0) = 0 /\
  pending_find slow_id [(0, mkReq [98] 0 VExecute VPermit)] = None /\
  (exists x rp, slow_step hash_x (fun p => p) cf_and bc_off (([], brk0), []) (mkReq [97] 0 VExecute VPermit) (mkDl 2 2)
                = (x, EvCompleted slow_id (mkReq [97] 0 VExecute VPermit) 4 rp)) /\
  (exists x rp, slow_step hash_x (fun p => p) cf_and bc_off
                  (([([97], (mkCore true ASuccess false None, 0))], brk0), []) (mkReq [97] 1 VBlock VBlock) (mkDl 2 2)
                = (x, EvReturned slow_id (mkReq [97] 1 VBlock VBlock) rp true)).
Proof. vm_compute. repeat split; try reflexivity; do 2 eexists; reflexivity. Qed.

(* ---- agents at large: labelled proteins, exceptions that are not Exceptions ---- *)

Definition wshape (e : wev) :=
  match e with
  | WvOp e' => match rreply (snd e') with
               | Some (_, _, r) => (0, r_cached r, c_blocked (r_core r),
                                    match c_token (r_core r) with Some t => tk_issuer t | None => [] end)
               | None => (1, false, false, [])
               end
  | WvPropagated _ _ _ who _ => (2, who, false, [])
  end.

(* c07_world_pass_only_if / c07_world_cache_same_verdict / c07_world_token_bound / c07_world_labels_are_inert:
   OR logic, assessor "Y" (89), ttl 5.  The assessor's PERMIT protein says it comes from "T" (84): the reply
   passes with a token whose issuer is "Y"; the executor's KeyboardInterrupt at a second prompt: no reply,
   nothing stored (the same prompt is decided afresh afterwards - and blocked); the first prompt is
   served from the cache while an aborting request for it asks nobody (the usual reply); after the TTL the
   assessor raises at it: no reply, and the expired entry is gone. *)
Definition cf_wor := mkConfig LOr [89] true 5 1000.

Definition whist1 : list wop :=
  [ WLabelled None (Some [84]) (TPlain (RX (XAtomic (OReq (mkReq [97] 0 VBlock VPermit)))));
    WAbort (mkReq [98] 1 VUnknown VUnknown) false;
    WPlain (TPlain (RX (XAtomic (OReq (mkReq [98] 2 VBlock VBlock)))));
    WAbort (mkReq [97] 3 VUnknown VUnknown) false;
    WAbort (mkReq [97] 6 VExecute VUnknown) true;
    WPlain (TPlain (RX (XAtomic (OReq (mkReq [97] 7 VBlock VBlock))))) ].

Example ex_world_history :
  map wshape (wtrace hash_x (fun p => p) 30 cf_wor bc_off whist1)
  = [ (0, false, false, [89]); (2, false, false, []); (0, false, true, []); (0, true, false, [89]);
      (2, true, false, []); (0, false, true, []) ] /\
  wtrace hash_x (fun p => p) 30 cf_wor bc_off (map unlabel whist1) = wtrace hash_x (fun p => p) 30 cf_wor bc_off whist1 /\
  wtrace hash_x (fun p => p) 30 cf_wor bc_off (map (relabel (fun _ => Some [89])) whist1)
  = wtrace hash_x (fun p => p) 30 cf_wor bc_off whist1 /\
  spec_pass LOr VBlock VPermit = true /\ spec_pass LOr VBlock VBlock = false.
Proof. vm_compute. repeat split; reflexivity. Qed.

(* Had the issuer been taken from the protein's label, the first token of [whist1] would name "T". *)
Example ex_world_label_issuer_would_violate :
  Verif.Common.Corr.zl_eqb [84] (cf_assessor cf_wor) = false /\
  (exists t, c_token (outcome hash_x cf_wor (mkReq [97] 0 VBlock VPermit)) = Some t /\ tk_issuer t = [89]).
Proof. vm_compute. split; [reflexivity | eexists; split; reflexivity]. Qed.

(* c07_world_abort_leaves_no_reply: hypotheses met, both disjuncts (served from the cache / no reply at all);
   an assessor that would raise is never reached when the executor raised an Exception: the plain blocked ERROR *)
Example ex_world_abort_steps :
  assessor_reached (mkReq [97] 0 VExecute VUnknown) true = false /\
  assessor_reached (mkReq [97] 0 VRaised VUnknown) true = true /\
  (exists t' n, wstep hash_x (fun p => p) (30, (cf_wor, bc_off, x0)) (WAbort (mkReq [97] 0 VExecute VUnknown) true)
                = (t', WvPropagated 30 cf_wor bc_off true n)) /\
  (exists t' rp, wstep hash_x (fun p => p)
                   (30, (cf_wor, bc_off, (([([97], (mkCore true ASuccess false None, 0))], brk0), [])))
                   (WAbort (mkReq [97] 1 VExecute VUnknown) true)
                 = (t', WvOp (30, RvOp cf_wor bc_off (EvReturned abort_id (mkReq [97] 1 VExecute VUnknown) rp true)))) /\
  map wshape (wtrace hash_x (fun p => p) 30 cf_wor bc_off [WAbort (mkReq [97] 0 VRaised VUnknown) true])
  = [ (0, false, true, []) ].
Proof. vm_compute. repeat split; try reflexivity; do 2 eexists; reflexivity. Qed.

(* c07_world_end_abort_leaves_no_reply: a request in flight whose assessor raises SystemExit: no reply, it is no
   longer in flight (a second end finds nothing), the prompt is decided afresh afterwards; the breaker
   (threshold 1) was told nothing: the next request is admitted.  c07_world_loops_isolated /
   c07_world_plain_is_timed on concrete histories. *)
Definition whist2 : list wop :=
  [ WPlain (TPlain (RX (XBegin 0 (mkReq [97] 0 VExecute VUnknown))));
    WEndAbort 0 1 true;
    WEndAbort 0 2 true;
    WPlain (TPlain (RX (XAtomic (OReq (mkReq [97] 3 VBlock VPermit))))) ].

Example ex_world_in_flight :
  map wshape (wtrace hash_x (fun p => p) 30 cf_wor (mkBcfg true 1 60) whist2)
  = [ (1, false, false, []); (2, true, false, []); (1, false, false, []); (0, false, false, [89]) ] /\
  pending_find 0 [(0, mkReq [97] 0 VExecute VUnknown)] = Some (mkReq [97] 0 VExecute VUnknown) /\
  wtrace hash_x (fun p => p) 2 cf_xp bc_off (map WPlain thist1) = map WvOp (ttrace hash_x (fun p => p) 2 cf_xp bc_off thist1) /\
  proj true (wsys_trace hash_x (fun p => p) 1 2 cf_or cf_wor bc_off bc_off
               [ (true, WAbort (mkReq [97] 0 VUnknown VUnknown) false); (false, WAbort (mkReq [97] 0 VExecute VUnknown) true);
                 (true, WPlain (TSlow (mkReq [97] 1 VExecute VBlock) (mkDl 5 5))) ])
  = wtrace hash_x (fun p => p) 2 cf_wor bc_off
      [WAbort (mkReq [97] 0 VUnknown VUnknown) false; WPlain (TSlow (mkReq [97] 1 VExecute VBlock) (mkDl 5 5))].
Proof. vm_compute. repeat split; reflexivity. Qed.
