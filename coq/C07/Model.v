(* C07 — model of operon_ai/topology/loops.py, CoherentFeedForwardLoop.run with
   _apply_gate_logic, the approval token and the result cache.
   Executable definitions only (no proofs): this file keeps compiling (and the
   correspondence check keeps running) when a proof breaks.

   Scope.  [step] is one call of run() that the circuit breaker admits (always,
   when enable_circuit_breaker=False).  The breaker of the same class (whose own
   behaviour is property C08) is a layer on top of it, [bstep]: it either
   rejects the request before cache and agents are looked at (the blocked
   CIRCUIT_OPEN result) or lets [step] run and then updates its own state from
   what happened.  Proofs.v shows that this is ALL it does to the replies.

   What is abstract.  Strings (prompts, hashes, cache keys, the assessor's
   name) are lists of code points.  sha256(prompt)[:16] is the Section
   variable [H], md5(prompt)[:16] is the Section variable [K]; nothing is
   assumed about them in this file.  datetime.now() is the request's
   [q_time] (a virtual clock; constant during one request carried out in one go -
   a request that is suspended in an agent returns at the clock value of its [XEnd]).
   The two agents are oracles: [q_exec]/[q_assess] is what executor.express /
   assessor.express does IF it is invoked at that request (it is not invoked
   on a cache hit, and the assessor is not invoked when the executor raised).

   Histories.  One loop object is driven by a list of operations [op]:
   requests, clear_cache(), reset_circuit_breaker() and the read-only calls
   (get_statistics, get_results_log, get_circuit_breaker_stats).  Time is in whatever unit the
   harness chooses (milliseconds), ttl in the same unit.  A case of the
   correspondence check drives TWO loop objects (each with its own
   configuration, agents and cache) by one interleaved list of operations.

   Overlapping requests (Section Overlap).  run() is not atomic for its caller:
   while a request is inside executor.express()/assessor.express() another
   thread - or the agent itself, re-entrantly - may call any method of the
   same loop object.  A call of run() therefore falls into two halves,
   [enter] (lines 198-220: breaker, cache look-up) and [leave] (lines 229-275:
   exception handling, gate, breaker bookkeeping, cache store - at the clock
   value of THAT moment), and an overlapping history [xop] may put any
   operations between the two halves of any number of requests in flight.
   Between the two express() calls the loop reads and writes nothing of its
   own state, so where exactly a request is suspended (in the executor or in
   the assessor) is not part of the model's input.

   Reconfiguration (Section Reconf).  The loop object is live: every constructor
   argument is kept in a public attribute that run() reads again at each
   request.  A history with reconfiguration [rop] may assign gate_logic,
   assessor.name, enable_cache, cache_ttl and the three breaker settings
   ([RSet]) between any two operations, also while requests are in flight; the
   configuration is then part of the state ([rstate]) and every event records
   the configuration it was produced under.

   Time (Section Timed).  An agent's express() TAKES time, and the constructor
   keeps a `timeout_seconds` in a public attribute.  A timed history [top] is a
   history with reconfiguration in which a request carried out in one go may
   say how long each of its agents needs before it answers ([TSlow q d]) and
   in which timeout_seconds may be assigned ([TSetTimeout v]).  run() calls the
   agents synchronously and reads timeout_seconds nowhere: a slow request is
   its first half at the clock value of the call and its second half [elapsed]
   later (that is the clock value its cache entry and the breaker's failure
   stamp carry), and the timeout in force is carried along and consulted by
   nothing.

   Agents at large (Section World).  The executor / assessor are whatever objects the caller put
   there.  The proteins they return may carry a `source_agent` label of their own ([WLabelled]),
   which run() reads nowhere (the token's issuer is loop.assessor.name); and express() may raise a
   BaseException that is not an Exception ([WAbort], [WEndAbort]), which `except Exception` does
   not catch: run() is left by it after its first half and there is no reply.  [run_case] runs
   this layer. *)
From Coq Require Import ZArith List Bool.
From Verif Require Import Common.Corr.
Import ListNotations.
Open Scope Z_scope.

(* ---------------------------------------------------------------------- *)
(* verdicts, gate logics, results                                          *)

(* What one agent call produced: an ActionProtein whose action_type is one of
   the six strings the code base uses, any other string ([VOther]: lower-case,
   empty, "SUCCESS", ...), or a raised exception. *)
Inductive verdict :=
  VExecute | VPermit | VBlock | VFailure | VDefer | VUnknown | VOther | VRaised.

Inductive logic := LAnd | LOr | LMajority | LUnanimous | LExecPrio | LAssessPrio.

(* LoopResult.action *)
Inductive action := ASuccess | ABlocked | AFailure | ASkipped | AError | ACircuitOpen.

(* the decision part of a LoopResult; [g_token] says whether the
   approval_token field is set (not None) *)
Record gres := mkG { g_success : bool; g_action : action; g_blocked : bool; g_token : bool }.

(* loops.py 298-303 *)
Definition executor_permits (z : verdict) : bool :=
  match z with VExecute | VPermit => true | _ => false end.
Definition executor_blocks (z : verdict) : bool :=
  match z with VBlock => true | _ => false end.
Definition executor_fails (z : verdict) : bool :=
  match z with VFailure => true | _ => false end.
Definition assessor_permits (y : verdict) : bool :=
  match y with VPermit => true | _ => false end.
Definition assessor_blocks (y : verdict) : bool :=
  match y with VBlock => true | _ => false end.

(* loops.py 427-436: the fall-through *)
Definition default_error : gres := mkG false AError true false.

(* loops.py 277-436, branch for branch.  [approval] is "the ApprovalToken
   object was built" (y_out.action_type == "PERMIT", line 294); it reaches the
   result only in the SUCCESS returns. *)
Definition apply_gate_logic (l : logic) (z y : verdict) : gres :=
  let approval := assessor_permits y in
  match l with
  | LAnd | LUnanimous =>
      if assessor_blocks y then mkG true ABlocked true false
      else if executor_fails z then mkG false AFailure true false
      else if executor_blocks z then mkG true ASkipped true false
      else if executor_permits z && assessor_permits y then mkG true ASuccess false approval
      else default_error
  | LOr =>
      if executor_permits z || assessor_permits y then mkG true ASuccess false approval
      else mkG false ABlocked true false
  | LExecPrio =>
      if assessor_blocks y then mkG true ABlocked true false
      else if executor_permits z then mkG true ASuccess false approval
      else default_error
  | LAssessPrio =>
      if executor_fails z then mkG false AFailure true false
      else if assessor_permits y then mkG true ASuccess false approval
      else if assessor_blocks y then mkG true ABlocked true false
      else default_error
  | LMajority => default_error          (* no branch for MAJORITY in the code *)
  end.

Definition raised (v : verdict) : bool := match v with VRaised => true | _ => false end.

(* loops.py 226-240: `except Exception` around the two express() calls *)
Definition exception_result : gres := mkG false AError true false.

(* the decision of one uncached request *)
Definition gate (l : logic) (z y : verdict) : gres :=
  if raised z || raised y then exception_result else apply_gate_logic l z y.

(* ---------------------------------------------------------------------- *)
(* tokens, replies, configuration, requests                                 *)

Definition str := list Z.

Record token := mkToken { tk_hash : str; tk_issuer : str }.

(* the part of a LoopResult that the cache stores and hands out again *)
Record core := mkCore {
  c_success : bool; c_action : action; c_blocked : bool; c_token : option token }.

Record reply := mkReply {
  r_core : core;
  r_cached : bool;           (* LoopResult.cached *)
  r_exec_called : bool;      (* executor.express was invoked for this request *)
  r_assess_called : bool;    (* assessor.express was invoked for this request *)
  r_shown : option str;      (* Signal.content the agents were handed, if they were invoked *)
  r_cache_size : nat }.      (* len(loop._cache) after the request *)

Record config := mkConfig {
  cf_logic : logic;
  cf_assessor : str;         (* loop.assessor.name *)
  cf_cache : bool;           (* enable_cache *)
  cf_ttl : Z;                (* cache_ttl, seconds *)
  cf_cap : nat }.            (* the size limit, 1000 in the code *)

Record req := mkReq { q_prompt : str; q_time : Z; q_exec : verdict; q_assess : verdict }.

(* what a caller can do with one loop object *)
Inductive op :=
| OReq (q : req)      (* loop.run(prompt) *)
| OClear              (* loop.clear_cache() *)
| OObserve            (* get_statistics / get_results_log / get_circuit_breaker_stats *)
| OReset.             (* loop.reset_circuit_breaker(): touches the breaker only *)

(* one step of a history as the harness sees it: the operation, the reply if
   it was a request, len(loop._cache) afterwards *)
Definition ev := (op * option reply * nat)%type.

(* the cache: a Python dict in insertion order; value = (result, timestamp) *)
Definition entry := (str * (core * Z))%type.
Definition cache := list entry.

Fixpoint lookup (k : str) (c : cache) : option (core * Z) :=
  match c with
  | [] => None
  | (k', v) :: r => if zl_eqb k' k then Some v else lookup k r
  end.

Fixpoint remove (k : str) (c : cache) : cache :=
  match c with
  | [] => []
  | (k', v) :: r => if zl_eqb k' k then remove k r else (k', v) :: remove k r
  end.

(* dict assignment: replace in place, or append *)
Fixpoint set_entry (k : str) (v : core * Z) (c : cache) : cache :=
  match c with
  | [] => [(k, v)]
  | (k', v') :: r => if zl_eqb k' k then (k, v) :: r else (k', v') :: set_entry k v r
  end.

(* min(items, key=timestamp): the first entry with the least timestamp *)
Fixpoint oldest_from (best : entry) (c : cache) : entry :=
  match c with
  | [] => best
  | e :: r => if snd (snd e) <? snd (snd best) then oldest_from e r else oldest_from best r
  end.

(* loops.py 510-513 *)
Definition evict (cap : nat) (c : cache) : cache :=
  if Nat.ltb cap (length c) then
    match c with
    | [] => []
    | e :: r => remove (fst (oldest_from e r)) c
    end
  else c.

(* loops.py 493-503: a hit only while now - timestamp < ttl; an expired entry
   is deleted *)
Definition check_cache (cf : config) (now : Z) (k : str) (c : cache) : option core * cache :=
  match lookup k c with
  | Some (res, ts) => if now - ts <? cf_ttl cf then (Some res, c) else (None, remove k c)
  | None => (None, c)
  end.

Definition error_core : core := mkCore false AError true None.

(* ---------------------------------------------------------------------- *)
(* the circuit breaker's own state (loops.py 438-491, 549-553)              *)

Inductive circuit := CClosed | COpen | CHalfOpen.

Record breaker := mkBrk {
  b_state : circuit;          (* _circuit_state *)
  b_failures : Z;             (* _failure_count *)
  b_last : option Z }.        (* _last_failure *)

Record bconfig := mkBcfg {
  bc_enabled : bool;          (* enable_circuit_breaker *)
  bc_threshold : Z;           (* failure_threshold *)
  bc_recovery : Z }.          (* recovery_timeout, same unit as the clock *)

Definition brk0 : breaker := mkBrk CClosed 0 None.

(* loops.py 438-457: may the request go on?  An OPEN breaker whose recovery
   time has passed becomes HALF_OPEN and admits. *)
Definition check_circuit (bc : bconfig) (now : Z) (b : breaker) : bool * breaker :=
  match b_state b with
  | CClosed => (true, b)
  | CHalfOpen => (true, b)
  | COpen =>
      match b_last b with
      | Some lf => if bc_recovery bc <=? now - lf
                   then (true, mkBrk CHalfOpen (b_failures b) (b_last b)) else (false, b)
      | None => (false, b)
      end
  end.

(* loops.py 459-470 *)
Definition record_success (b : breaker) : breaker :=
  match b_state b with
  | CHalfOpen => mkBrk CClosed 0 (b_last b)
  | _ => b
  end.

(* loops.py 472-491 *)
Definition record_failure (bc : bconfig) (now : Z) (b : breaker) : breaker :=
  let n := b_failures b + 1 in
  mkBrk (match b_state b with
         | CHalfOpen => COpen
         | CClosed => if bc_threshold bc <=? n then COpen else CClosed
         | COpen => COpen
         end) n (Some now).

(* loops.py 549-553 *)
Definition reset_breaker (b : breaker) : breaker := mkBrk CClosed 0 (b_last b).

(* loops.py 229-230 and 246-253: what run() tells the breaker after a request
   that reached the agents (called whether or not the breaker is enabled) *)
Definition record_outcome (bc : bconfig) (now : Z) (l : logic) (z y : verdict) (b : breaker) : breaker :=
  if raised z || raised y then record_failure bc now b
  else
    let g := apply_gate_logic l z y in
    if g_success g && negb (g_blocked g) then record_success b
    else if g_blocked g && negb (executor_fails z) then b
    else record_failure bc now b.

(* loops.py 203-211: the reply of a request the breaker rejects *)
Definition circuit_open_core : core := mkCore false ACircuitOpen true None.
Definition rejected_reply (n : nat) : reply := mkReply circuit_open_core false false false None n.

(* what one loop object holds between calls *)
Definition lstate := (cache * breaker)%type.

Section Run.
  Variable H : str -> str.     (* sha256(prompt.encode()).hexdigest()[:16] *)
  Variable K : str -> str.     (* md5(prompt.encode()).hexdigest()[:16]    *)

  (* loops.py 285-296 + the LoopResult built by the gate *)
  Definition core_of (cf : config) (p : str) (g : gres) : core :=
    mkCore (g_success g) (g_action g) (g_blocked g)
           (if g_token g then Some (mkToken (H p) (cf_assessor cf)) else None).

  (* what an uncached request [q] comes back with *)
  Definition outcome (cf : config) (q : req) : core :=
    core_of cf (q_prompt q) (gate (cf_logic cf) (q_exec q) (q_assess q)).

  (* one call of run() (breaker disabled) *)
  Definition step (cf : config) (c : cache) (q : req) : cache * reply :=
    let k := K (q_prompt q) in
    let '(hit, c1) := if cf_cache cf then check_cache cf (q_time q) k c else (None, c) in
    match hit with
    | Some res => (c1, mkReply res true false false None (length c1))
    | None =>
        let res := outcome cf q in
        let exn := raised (q_exec q) || raised (q_assess q) in
        (* the exception return (line 240) comes before _cache_result *)
        let c2 := if cf_cache cf && negb exn
                  then evict (cf_cap cf) (set_entry k (res, q_time q) c1) else c1 in
        (c2, mkReply res false true (negb (raised (q_exec q))) (Some (q_prompt q)) (length c2))
    end.

  Definition step_op (cf : config) (c : cache) (o : op) : cache * ev :=
    match o with
    | OReq q => let '(c', rp) := step cf c q in (c', (o, Some rp, length c'))
    | OClear => ([], (o, None, 0%nat))
    | OObserve => (c, (o, None, length c))
    | OReset => (c, (o, None, length c))
    end.

  (* the cache after a sequence of operations *)
  Fixpoint cache_after (cf : config) (c : cache) (ops : list op) : cache :=
    match ops with
    | [] => c
    | o :: rest => cache_after cf (fst (step_op cf c o)) rest
    end.

  (* every step of a history against one loop object *)
  Fixpoint etrace_from (cf : config) (c : cache) (ops : list op) : list ev :=
    match ops with
    | [] => []
    | o :: rest => let '(c', e) := step_op cf c o in e :: etrace_from cf c' rest
    end.

  Definition pair_of (e : ev) : list (req * reply) :=
    match e with
    | (OReq q, Some rp, _) => [(q, rp)]
    | _ => []
    end.

  Definition reqs_of (es : list ev) : list (req * reply) := flat_map pair_of es.

  (* a history against one loop object: its request/reply pairs, in order *)
  Definition trace_from (cf : config) (c : cache) (ops : list op) : list (req * reply) :=
    reqs_of (etrace_from cf c ops).

  Definition trace (cf : config) (ops : list op) : list (req * reply) := trace_from cf [] ops.

  (* ---- the circuit-breaker layer (loops.py 200-211, 229-230, 246-253) ---- *)

  (* one call of run() on a loop with breaker configuration [bc]; the third
     component says whether the breaker admitted the request.  A rejected
     request returns at line 211: neither _check_cache (so no expired entry is
     deleted) nor an agent is reached.  An admitted request is [step]; a cache
     hit returns at line 220 and tells the breaker nothing. *)
  Definition bstep (cf : config) (bc : bconfig) (s : lstate) (q : req) : lstate * reply * bool :=
    let '(c, b) := s in
    let '(ok, b1) := if bc_enabled bc then check_circuit bc (q_time q) b else (true, b) in
    if ok then
      let '(c', rp) := step cf c q in
      ((c', if r_cached rp then b1
            else record_outcome bc (q_time q) (cf_logic cf) (q_exec q) (q_assess q) b1), rp, true)
    else ((c, b1), rejected_reply (length c), false).

  (* an event of a breaker history: the step as before + "was admitted" *)
  Definition bev := (ev * bool)%type.

  Definition bstep_op (cf : config) (bc : bconfig) (s : lstate) (o : op) : lstate * bev :=
    match o with
    | OReq q => let '(s', rp, adm) := bstep cf bc s q in (s', ((o, Some rp, length (fst s')), adm))
    | OClear => (([], snd s), ((o, None, 0%nat), true))
    | OObserve => (s, ((o, None, length (fst s)), true))
    | OReset => ((fst s, reset_breaker (snd s)), ((o, None, length (fst s)), true))
    end.

  Fixpoint betrace_from (cf : config) (bc : bconfig) (s : lstate) (ops : list op) : list bev :=
    match ops with
    | [] => []
    | o :: rest => let '(s', e) := bstep_op cf bc s o in e :: betrace_from cf bc s' rest
    end.

  Definition betrace (cf : config) (bc : bconfig) (ops : list op) : list bev :=
    betrace_from cf bc ([], brk0) ops.

  (* the operations of a history that reach cache and agents: everything but
     the requests the breaker rejected *)
  Fixpoint admitted_from (cf : config) (bc : bconfig) (s : lstate) (ops : list op) : list op :=
    match ops with
    | [] => []
    | o :: rest => let '(s', e) := bstep_op cf bc s o in
                   (if snd e then [o] else []) ++ admitted_from cf bc s' rest
    end.

  Definition admitted (cf : config) (bc : bconfig) (ops : list op) : list op :=
    admitted_from cf bc ([], brk0) ops.

  (* the steps of a breaker history that were admitted *)
  Definition admitted_evs (l : list bev) : list ev := map fst (filter snd l).

  (* two loop objects driven by one interleaved list of operations
     ([false] = the first object, [true] = the second) *)
  Fixpoint sys_from (cf0 cf1 : config) (bc0 bc1 : bconfig) (s0 s1 : lstate)
           (tops : list (bool * op)) : list (bool * bev) :=
    match tops with
    | [] => []
    | (b, o) :: rest =>
        if b then let '(s1', e) := bstep_op cf1 bc1 s1 o in (b, e) :: sys_from cf0 cf1 bc0 bc1 s0 s1' rest
        else let '(s0', e) := bstep_op cf0 bc0 s0 o in (b, e) :: sys_from cf0 cf1 bc0 bc1 s0' s1 rest
    end.

  Definition sys_trace (cf0 cf1 : config) (bc0 bc1 : bconfig) (tops : list (bool * op)) : list (bool * bev) :=
    sys_from cf0 cf1 bc0 bc1 ([], brk0) ([], brk0) tops.

  (* the part of an interleaved list that concerns one of the two objects *)
  Definition proj {A : Type} (b : bool) (l : list (bool * A)) : list A :=
    map snd (filter (fun x => Bool.eqb (fst x) b) l).
End Run.

(* ---------------------------------------------------------------------- *)
(* overlapping requests on one loop object                                  *)

(* how the first half of run() ended *)
Inductive entered :=
| ERejected                (* line 211: the breaker turned the request away *)
| EHit (res : core)        (* line 220: served from the cache *)
| EMiss.                   (* line 227: the executor is being asked *)

(* an operation of an overlapping history *)
Inductive xop :=
| XAtomic (o : op)             (* an operation carried out in one go (as in [op]) *)
| XBegin (id : Z) (q : req)    (* run(q_prompt q) is called at clock [q_time q] and proceeds until it returns
                                  at once (rejected / cache hit) or is inside an agent's express() *)
| XEnd (id : Z) (now : Z).     (* the agents of the in-flight request [id] answer (what its [q_exec]/[q_assess]
                                  say) and its run() returns, the clock standing at [now] *)

(* what the harness sees of one [xop] *)
Inductive xev :=
| EvAtomic (e : bev)
| EvReturned (id : Z) (q : req) (rp : reply) (adm : bool)   (* a begin that returned at once *)
| EvInFlight (id : Z) (q : req) (n : nat)                   (* suspended in an agent; len(_cache) *)
| EvCompleted (id : Z) (q : req) (now : Z) (rp : reply)     (* the in-flight request returned *)
| EvNoSuch (id : Z) (n : nat).                              (* no request [id] is in flight *)

Definition pending := list (Z * req).

Fixpoint pending_find (id : Z) (l : pending) : option req :=
  match l with
  | [] => None
  | (i, q) :: r => if Z.eqb i id then Some q else pending_find id r
  end.

Fixpoint pending_remove (id : Z) (l : pending) : pending :=
  match l with
  | [] => []
  | (i, q) :: r => if Z.eqb i id then r else (i, q) :: pending_remove id r
  end.

(* one loop object: cache, breaker, the requests in flight *)
Definition xstate := (lstate * pending)%type.

Section Overlap.
  Variable H : str -> str.
  Variable K : str -> str.

  (* loops.py 198-220 at clock [now]: breaker, then cache *)
  Definition enter (cf : config) (bc : bconfig) (s : lstate) (p : str) (now : Z) : lstate * entered :=
    let '(c, b) := s in
    let '(ok, b1) := if bc_enabled bc then check_circuit bc now b else (true, b) in
    if ok then
      let '(hit, c1) := if cf_cache cf then check_cache cf now (K p) c else (None, c) in
      match hit with
      | Some res => ((c1, b1), EHit res)
      | None => ((c1, b1), EMiss)
      end
    else ((c, b1), ERejected).

  (* loops.py 229-275 at clock [now]: everything is computed from the request's OWN prompt and
     the answers of the agents to THIS request (local variables of run()) *)
  Definition leave (cf : config) (bc : bconfig) (s : lstate) (q : req) (now : Z) : lstate * reply :=
    let '(c, b) := s in
    let res := outcome H cf q in
    let exn := raised (q_exec q) || raised (q_assess q) in
    let c2 := if cf_cache cf && negb exn
              then evict (cf_cap cf) (set_entry (K (q_prompt q)) (res, now) c) else c in
    ((c2, record_outcome bc now (cf_logic cf) (q_exec q) (q_assess q) b),
     mkReply res false true (negb (raised (q_exec q))) (Some (q_prompt q)) (length c2)).

  Definition hit_reply (res : core) (n : nat) : reply := mkReply res true false false None n.

  Definition xstep (cf : config) (bc : bconfig) (x : xstate) (o : xop) : xstate * xev :=
    let '(s, pend) := x in
    match o with
    | XAtomic a => let '(s', e) := bstep_op H K cf bc s a in ((s', pend), EvAtomic e)
    | XBegin id q =>
        let '(s1, r) := enter cf bc s (q_prompt q) (q_time q) in
        match r with
        | ERejected => ((s1, pend), EvReturned id q (rejected_reply (length (fst s1))) false)
        | EHit res => ((s1, pend), EvReturned id q (hit_reply res (length (fst s1))) true)
        | EMiss => ((s1, (id, q) :: pend), EvInFlight id q (length (fst s1)))
        end
    | XEnd id now =>
        match pending_find id pend with
        | Some q => let '(s2, rp) := leave cf bc s q now in
                    ((s2, pending_remove id pend), EvCompleted id q now rp)
        | None => (x, EvNoSuch id (length (fst s)))
        end
    end.

  Fixpoint xtrace_from (cf : config) (bc : bconfig) (x : xstate) (ops : list xop) : list xev :=
    match ops with
    | [] => []
    | o :: rest => let '(x', e) := xstep cf bc x o in e :: xtrace_from cf bc x' rest
    end.

  Definition x0 : xstate := (([], brk0), []).

  Definition xtrace (cf : config) (bc : bconfig) (ops : list xop) : list xev := xtrace_from cf bc x0 ops.

  (* two loop objects, one interleaved overlapping history *)
  Fixpoint xsys_from (cf0 cf1 : config) (bc0 bc1 : bconfig) (a0 a1 : xstate)
           (tops : list (bool * xop)) : list (bool * xev) :=
    match tops with
    | [] => []
    | (b, o) :: rest =>
        if b then let '(a1', e) := xstep cf1 bc1 a1 o in (b, e) :: xsys_from cf0 cf1 bc0 bc1 a0 a1' rest
        else let '(a0', e) := xstep cf0 bc0 a0 o in (b, e) :: xsys_from cf0 cf1 bc0 bc1 a0' a1 rest
    end.

  Definition xsys_trace (cf0 cf1 : config) (bc0 bc1 : bconfig) (tops : list (bool * xop)) : list (bool * xev) :=
    xsys_from cf0 cf1 bc0 bc1 x0 x0 tops.
End Overlap.

(* the request/reply pair of an event, if it carries a reply *)
Definition xreply (e : xev) : option (req * reply) :=
  match e with
  | EvAtomic ((OReq q, Some rp, _), _) => Some (q, rp)
  | EvReturned _ q rp _ => Some (q, rp)
  | EvCompleted _ q _ rp => Some (q, rp)
  | _ => None
  end.

(* the clock value at which the reply of an event was produced (and, if it is an uncached one
   that is stored, stamped) *)
Definition xdone_at (e : xev) : option Z :=
  match e with
  | EvAtomic ((OReq q, Some _, _), _) => Some (q_time q)
  | EvReturned _ q _ _ => Some (q_time q)
  | EvCompleted _ _ now _ => Some now
  | _ => None
  end.

(* ---------------------------------------------------------------------- *)
(* reconfiguration of a live loop object                                    *)

(* Everything the constructor takes is kept in a PUBLIC attribute that run() reads again at every
   request (self.gate_logic at lines 208/237/304.., self.assessor.name at 289, self.enable_cache at
   214/256, self.cache_ttl at 499, self.enable_circuit_breaker at 201, self.failure_threshold at
   487, self.recovery_timeout at 446): a caller may assign any of them between two operations of a
   history - also while requests are in flight.  [setting] is one such assignment. *)
Inductive setting :=
| SLogic (l : logic)          (* loop.gate_logic = l *)
| SAssessor (n : str)         (* loop.assessor.name = n *)
| SCache (b : bool)           (* loop.enable_cache = b *)
| STtl (t : Z)                (* loop.cache_ttl = timedelta(..) *)
| SBreaker (b : bool)         (* loop.enable_circuit_breaker = b *)
| SThreshold (n : Z)          (* loop.failure_threshold = n *)
| SRecovery (t : Z).          (* loop.recovery_timeout = timedelta(..) *)

Definition apply_setting (s : setting) (cb : config * bconfig) : config * bconfig :=
  let '(cf, bc) := cb in
  match s with
  | SLogic l => (mkConfig l (cf_assessor cf) (cf_cache cf) (cf_ttl cf) (cf_cap cf), bc)
  | SAssessor n => (mkConfig (cf_logic cf) n (cf_cache cf) (cf_ttl cf) (cf_cap cf), bc)
  | SCache b => (mkConfig (cf_logic cf) (cf_assessor cf) b (cf_ttl cf) (cf_cap cf), bc)
  | STtl t => (mkConfig (cf_logic cf) (cf_assessor cf) (cf_cache cf) t (cf_cap cf), bc)
  | SBreaker b => (cf, mkBcfg b (bc_threshold bc) (bc_recovery bc))
  | SThreshold n => (cf, mkBcfg (bc_enabled bc) n (bc_recovery bc))
  | SRecovery t => (cf, mkBcfg (bc_enabled bc) (bc_threshold bc) t)
  end.

(* an operation of a history with reconfiguration *)
Inductive rop :=
| RX (o : xop)                (* any operation of an overlapping history *)
| RSet (s : setting).         (* an assignment to a configuration attribute *)

(* what the harness sees of one [rop], together with the configuration IN FORCE when it was
   carried out (for an assignment: from then on) *)
Inductive rev :=
| RvOp (cf : config) (bc : bconfig) (e : xev)
| RvSet (cf : config) (bc : bconfig) (n : nat).       (* len(_cache): an assignment touches nothing else *)

(* one loop object: its current configuration, and what it holds *)
Definition rstate := (config * bconfig * xstate)%type.

Definition rev_config (e : rev) : config * bconfig :=
  match e with RvOp cf bc _ => (cf, bc) | RvSet cf bc _ => (cf, bc) end.

(* the configuration after the assignments among [ops] *)
Fixpoint config_after (cb : config * bconfig) (ops : list rop) : config * bconfig :=
  match ops with
  | [] => cb
  | RX _ :: rest => config_after cb rest
  | RSet s :: rest => config_after (apply_setting s cb) rest
  end.

Section Reconf.
  Variable H : str -> str.
  Variable K : str -> str.

  Definition rstep (r : rstate) (o : rop) : rstate * rev :=
    let '(cf, bc, x) := r in
    match o with
    | RX a => let '(x', e) := xstep H K cf bc x a in ((cf, bc, x'), RvOp cf bc e)
    | RSet s => let '(cf', bc') := apply_setting s (cf, bc) in
                ((cf', bc', x), RvSet cf' bc' (length (fst (fst x))))
    end.

  Fixpoint rtrace_from (r : rstate) (ops : list rop) : list rev :=
    match ops with
    | [] => []
    | o :: rest => let '(r', e) := rstep r o in e :: rtrace_from r' rest
    end.

  Definition rtrace (cf : config) (bc : bconfig) (ops : list rop) : list rev :=
    rtrace_from (cf, bc, x0) ops.

  (* two loop objects, one interleaved history with reconfiguration *)
  Fixpoint rsys_from (r0 r1 : rstate) (tops : list (bool * rop)) : list (bool * rev) :=
    match tops with
    | [] => []
    | (b, o) :: rest =>
        if b then let '(r1', e) := rstep r1 o in (b, e) :: rsys_from r0 r1' rest
        else let '(r0', e) := rstep r0 o in (b, e) :: rsys_from r0' r1 rest
    end.

  Definition rsys_trace (cf0 cf1 : config) (bc0 bc1 : bconfig) (tops : list (bool * rop)) : list (bool * rev) :=
    rsys_from (cf0, bc0, x0) (cf1, bc1, x0) tops.
End Reconf.

(* the (configuration in force, request, reply) of an event, if it carries a reply *)
Definition rreply (e : rev) : option (config * req * reply) :=
  match e with
  | RvOp cf _ x => match xreply x with Some (q, rp) => Some (cf, q, rp) | None => None end
  | RvSet _ _ _ => None
  end.

Definition rdone_at (e : rev) : option Z :=
  match e with RvOp _ _ x => xdone_at x | RvSet _ _ _ => None end.

(* ---------------------------------------------------------------------- *)
(* agents that need time; timeout_seconds                                    *)

(* how long executor.express / assessor.express takes IF it is invoked at a request (same unit as the clock) *)
Record delays := mkDl { d_exec : Z; d_assess : Z }.

(* the time a request that went to the agents spends inside them: run() calls them one after the
   other (loops.py 227-228) and waits for each however long it takes; the assessor is not asked
   when the executor raised *)
Definition elapsed (q : req) (d : delays) : Z :=
  d_exec d + (if raised (q_exec q) then 0 else d_assess d).

(* an operation of a timed history *)
Inductive top :=
| TPlain (o : rop)                 (* any operation of a history with reconfiguration (agents answer at once; a
                                      request begun with [XBegin] takes as long as its [XEnd] says) *)
| TSlow (q : req) (d : delays)     (* loop.run(q_prompt q) called at clock [q_time q], carried out in one go, with
                                      agents that need [d] before they answer *)
| TSetTimeout (v : Z).             (* loop.timeout_seconds = v *)

(* the id under which the events of slow requests appear ([EvReturned] / [EvCompleted]) *)
Definition slow_id : Z := -1.

(* one loop object: timeout_seconds, and everything else *)
Definition tstate := (Z * rstate)%type.

(* what the harness sees of one [top]: the event as before, and the timeout_seconds in force *)
Definition tev := (Z * rev)%type.

Section Timed.
  Variable H : str -> str.
  Variable K : str -> str.

  (* run() in one go with slow agents: lines 198-220 at the clock value of the call; if the agents
     are asked, lines 229-275 at the clock value at which the last of them has answered.  Nothing in
     between looks at how long they took. *)
  Definition slow_step (cf : config) (bc : bconfig) (x : xstate) (q : req) (d : delays) : xstate * xev :=
    let '(s, pend) := x in
    let '(s1, r) := enter K cf bc s (q_prompt q) (q_time q) in
    match r with
    | ERejected => ((s1, pend), EvReturned slow_id q (rejected_reply (length (fst s1))) false)
    | EHit res => ((s1, pend), EvReturned slow_id q (hit_reply res (length (fst s1))) true)
    | EMiss => let now := q_time q + elapsed q d in
               let '(s2, rp) := leave H K cf bc s1 q now in
               ((s2, pend), EvCompleted slow_id q now rp)
    end.

  (* [tmo] (timeout_seconds) is stored by the constructor / an assignment and read by nothing *)
  Definition tstep (t : tstate) (o : top) : tstate * tev :=
    let '(tmo, r) := t in
    match o with
    | TPlain a => let '(r', e) := rstep H K r a in ((tmo, r'), (tmo, e))
    | TSlow q d =>
        let '(cf, bc, x) := r in
        let '(x', e) := slow_step cf bc x q d in ((tmo, (cf, bc, x')), (tmo, RvOp cf bc e))
    | TSetTimeout v =>
        let '(cf, bc, x) := r in ((v, r), (v, RvSet cf bc (length (fst (fst x)))))
    end.

  Fixpoint ttrace_from (t : tstate) (ops : list top) : list tev :=
    match ops with
    | [] => []
    | o :: rest => let '(t', e) := tstep t o in e :: ttrace_from t' rest
    end.

  Definition ttrace (tmo : Z) (cf : config) (bc : bconfig) (ops : list top) : list tev :=
    ttrace_from (tmo, (cf, bc, x0)) ops.

  (* two loop objects, one interleaved timed history *)
  Fixpoint tsys_from (t0 t1 : tstate) (tops : list (bool * top)) : list (bool * tev) :=
    match tops with
    | [] => []
    | (b, o) :: rest =>
        if b then let '(t1', e) := tstep t1 o in (b, e) :: tsys_from t0 t1' rest
        else let '(t0', e) := tstep t0 o in (b, e) :: tsys_from t0' t1 rest
    end.

  Definition tsys_trace (tmo0 tmo1 : Z) (cf0 cf1 : config) (bc0 bc1 : bconfig)
             (tops : list (bool * top)) : list (bool * tev) :=
    tsys_from (tmo0, (cf0, bc0, x0)) (tmo1, (cf1, bc1, x0)) tops.
End Timed.

(* the events of a timed history without the timeouts: a history's events as in [rtrace] *)
Definition untimed (l : list tev) : list rev := map snd l.

(* timeout_seconds and the configuration after the assignments among [ops] *)
Fixpoint tconfig_after (c : Z * (config * bconfig)) (ops : list top) : Z * (config * bconfig) :=
  match ops with
  | [] => c
  | TPlain (RSet s) :: rest => tconfig_after (fst c, apply_setting s (snd c)) rest
  | TSetTimeout v :: rest => tconfig_after (v, snd c) rest
  | _ :: rest => tconfig_after c rest
  end.

(* another value for every assignment of timeout_seconds *)
Definition retime (g : Z -> Z) (o : top) : top :=
  match o with TSetTimeout v => TSetTimeout (g v) | _ => o end.

(* ---------------------------------------------------------------------- *)
(* what else an agent may do: labelled proteins, exceptions that are not Exceptions *)

(* The agents are whatever objects the caller puts into loop.executor / loop.assessor: stubs, BioAgents,
   subclasses of BioAgent whose hook relays the protein of another agent.
   (1) The ActionProtein an agent returns has a field `source_agent` (None by default, any string:
       the agent's own name, the name of the helper whose protein is relayed, the OTHER agent's
       name, a model label).  run()/_apply_gate_logic read action_type, payload and confidence of a
       protein and nothing else: the issuer of a token is loop.assessor.name (line 289).  [WLabelled
       sz sy o] is the operation [o] at which the proteins returned carry the labels [sz] / [sy].
   (2) express() may raise a BaseException that is NOT an Exception (KeyboardInterrupt, SystemExit,
       GeneratorExit, ...).  `except Exception` (line 229) does not catch it: run() is left by the
       exception after its first half (lines 198-220: the breaker may have gone HALF_OPEN, an expired
       cache entry may have been deleted) - the breaker is told nothing, nothing is stored, nothing
       is logged, and there is NO reply.  [WAbort q who]: run(q_prompt q) in one go, the executor
       ([who] = false) or - after the executor has answered [q_exec q] - the assessor ([who] = true)
       raising such an exception; if the breaker rejects the request or the cache serves it, nobody
       is asked and the reply is the usual one.  [WEndAbort id now who]: the same for the request
       [id] that is in flight.  Where the executor raised an ordinary Exception the assessor is
       never asked: that request is the plain one. *)
Inductive wop :=
| WPlain (o : top)
| WLabelled (sz sy : option str) (o : top)
| WAbort (q : req) (who : bool)
| WEndAbort (id : Z) (now : Z) (who : bool).

(* what the harness sees of one [wop]: an event as before, or "run() was left by the agent's
   exception" with the timeout / configuration in force, who raised, and len(_cache) *)
Inductive wev :=
| WvOp (e : tev)
| WvPropagated (tmo : Z) (cf : config) (bc : bconfig) (who : bool) (n : nat).

(* the id under which the replies of [WAbort] requests that asked nobody appear *)
Definition abort_id : Z := -2.

(* is the assessor reached? *)
Definition assessor_reached (q : req) (who : bool) : bool := who && raised (q_exec q).

Section World.
  Variable H : str -> str.
  Variable K : str -> str.

  (* lines 198-220 only; [None] = the agents were asked and run() was left by the exception *)
  Definition abort_step (cf : config) (bc : bconfig) (x : xstate) (q : req) : xstate * option xev :=
    let '(s, pend) := x in
    let '(s1, r) := enter K cf bc s (q_prompt q) (q_time q) in
    match r with
    | ERejected => ((s1, pend), Some (EvReturned abort_id q (rejected_reply (length (fst s1))) false))
    | EHit res => ((s1, pend), Some (EvReturned abort_id q (hit_reply res (length (fst s1))) true))
    | EMiss => ((s1, pend), None)
    end.

  Definition wstep (t : tstate) (o : wop) : tstate * wev :=
    match o with
    | WPlain a => let '(t', e) := tstep H K t a in (t', WvOp e)
    | WLabelled _ _ a => let '(t', e) := tstep H K t a in (t', WvOp e)      (* the labels are read by nothing *)
    | WAbort q who =>
        if assessor_reached q who
        then let '(t', e) := tstep H K t (TPlain (RX (XAtomic (OReq q)))) in (t', WvOp e)
        else
          let '(tmo, (cf, bc, x)) := t in
          let '(x', e) := abort_step cf bc x q in
          ((tmo, (cf, bc, x')),
           match e with
           | Some e' => WvOp (tmo, RvOp cf bc e')
           | None => WvPropagated tmo cf bc who (length (fst (fst x')))
           end)
    | WEndAbort id now who =>
        let '(tmo, (cf, bc, (s, pend))) := t in
        match pending_find id pend with
        | Some q =>
            if assessor_reached q who
            then let '(t', e) := tstep H K t (TPlain (RX (XEnd id now))) in (t', WvOp e)
            else ((tmo, (cf, bc, (s, pending_remove id pend))), WvPropagated tmo cf bc who (length (fst s)))
        | None => let '(t', e) := tstep H K t (TPlain (RX (XEnd id now))) in (t', WvOp e)
        end
    end.

  Fixpoint wtrace_from (t : tstate) (ops : list wop) : list wev :=
    match ops with
    | [] => []
    | o :: rest => let '(t', e) := wstep t o in e :: wtrace_from t' rest
    end.

  Definition wtrace (tmo : Z) (cf : config) (bc : bconfig) (ops : list wop) : list wev :=
    wtrace_from (tmo, (cf, bc, x0)) ops.

  Fixpoint wsys_from (t0 t1 : tstate) (tops : list (bool * wop)) : list (bool * wev) :=
    match tops with
    | [] => []
    | (b, o) :: rest =>
        if b then let '(t1', e) := wstep t1 o in (b, e) :: wsys_from t0 t1' rest
        else let '(t0', e) := wstep t0 o in (b, e) :: wsys_from t0' t1 rest
    end.

  Definition wsys_trace (tmo0 tmo1 : Z) (cf0 cf1 : config) (bc0 bc1 : bconfig)
             (tops : list (bool * wop)) : list (bool * wev) :=
    wsys_from (tmo0, (cf0, bc0, x0)) (tmo1, (cf1, bc1, x0)) tops.
End World.

(* the events of a history as in [rtrace]: an exception that left run() is an event that carries no
   reply (the configuration in force and len(_cache), as for an assignment) *)
Definition wrev (e : wev) : rev :=
  match e with
  | WvOp e' => snd e'
  | WvPropagated _ cf bc _ n => RvSet cf bc n
  end.

Definition unworld (l : list wev) : list rev := map wrev l.

(* other labels on the proteins of every operation *)
Definition relabel (f : option str -> option str) (o : wop) : wop :=
  match o with WLabelled sz sy a => WLabelled (f sz) (f sy) a | _ => o end.

(* the labels taken off *)
Definition unlabel (o : wop) : wop :=
  match o with WLabelled _ _ a => WPlain a | _ => o end.

(* ---------------------------------------------------------------------- *)
(* codes shared with the harness                                            *)

Definition action_code (a : action) : Z :=
  match a with ASuccess => 0 | ABlocked => 1 | AFailure => 2 | ASkipped => 3 | AError => 4 | ACircuitOpen => 5 end.

Definition verdict_of_code (n : Z) : option verdict :=
  match n with
  | 0 => Some VExecute | 1 => Some VPermit | 2 => Some VBlock | 3 => Some VFailure
  | 4 => Some VDefer | 5 => Some VUnknown | 6 => Some VOther | 7 => Some VRaised
  | _ => None
  end.

(* by the NAME of the GateLogic member *)
Definition logic_of_code (n : Z) : option logic :=
  match n with
  | 0 => Some LAnd | 1 => Some LOr | 2 => Some LMajority | 3 => Some LUnanimous
  | 4 => Some LExecPrio | 5 => Some LAssessPrio
  | _ => None
  end.

Definition gres_codes (g : gres) : list Z :=
  [b2z (g_blocked g); b2z (g_success g); action_code (g_action g); b2z (g_token g)].

(* one row of the table the translator obtains by calling the real
   _apply_gate_logic: (logic, executor verdict, assessor verdict, observed
   [blocked; success; action; token present]).  Unknown codes never agree. *)
Definition agrees (g : logic -> verdict -> verdict -> gres) (row : Z * Z * Z * list Z) : bool :=
  let '(l, z, y, o) := row in
  match logic_of_code l, verdict_of_code z, verdict_of_code y with
  | Some l', Some z', Some y' => zl_eqb (gres_codes (g l' z' y')) o
  | _, _, _ => false
  end.

(* the table mentions every logic x every returned verdict pair (6 x 7 x 7) *)
Definition all_combos : list (Z * Z * Z) :=
  flat_map (fun l => flat_map (fun z => map (fun y => (l, z, y)) [0;1;2;3;4;5;6])
                              [0;1;2;3;4;5;6]) [0;1;2;3;4;5].

Definition covers (t : list (Z * Z * Z * list Z)) : bool :=
  forallb (fun c : Z * Z * Z => let '(l, z, y) := c in
     existsb (fun r : Z * Z * Z * list Z => let '(l', z', y', _) := r in
                Z.eqb l l' && Z.eqb z z' && Z.eqb y y') t) all_combos.

(* ---------------------------------------------------------------------- *)
(* correspondence entry point                                               *)

(* In the generated cases H and K are the identity on the prompt (any
   injective function would do: the harness checks on every case that the
   real md5[:16]/sha256[:16] are injective on the prompts of the case and
   observes only WHETHER the token hash is the hash of the request). *)
Inductive cop :=
| CReq (p : str) (t : Z) (z y : verdict) | CClear | CObserve | CReset
| CBegin (id : Z) (p : str) (t : Z) (z y : verdict)     (* run(p) starts at clock t ... *)
| CEnd (id : Z) (t : Z)                                 (* ... and, if it went to the agents, returns at clock t *)
| CSet (s : setting)                                    (* an assignment to a configuration attribute *)
| CSlow (p : str) (t : Z) (z y : verdict) (dz dy : Z)   (* run(p) at clock t; the executor needs dz, the assessor dy *)
| CSetTimeout (v : Z).                                  (* loop.timeout_seconds = v *)

Definition top_of (o : cop) : top :=
  match o with
  | CReq p t z y => TPlain (RX (XAtomic (OReq (mkReq p t z y))))
  | CClear => TPlain (RX (XAtomic OClear))
  | CObserve => TPlain (RX (XAtomic OObserve))
  | CReset => TPlain (RX (XAtomic OReset))
  | CBegin id p t z y => TPlain (RX (XBegin id (mkReq p t z y)))
  | CEnd id t => TPlain (RX (XEnd id t))
  | CSet s => TPlain (RSet s)
  | CSlow p t z y dz dy => TSlow (mkReq p t z y) (mkDl dz dy)
  | CSetTimeout v => TSetTimeout v
  end.

(* an operation of a case: one of the above as it is; with labelled proteins; with an agent that raises a
   BaseException that is not an Exception (the executor: [who] = false, [z] is not looked at; the assessor:
   [who] = true, the executor having answered [z]) *)
Inductive wcop :=
| CPlain (c : cop)
| CLabelled (sz sy : option str) (c : cop)              (* source_agent of the executor's / the assessor's protein *)
| CAbort (p : str) (t : Z) (z : verdict) (who : bool)   (* run(p) at clock t, in one go *)
| CEndAbort (id : Z) (t : Z) (who : bool).              (* the in-flight request [id] is left by the exception at clock t *)

Definition wop_of (o : wcop) : wop :=
  match o with
  | CPlain c => WPlain (top_of c)
  | CLabelled sz sy c => WLabelled sz sy (top_of c)
  | CAbort p t z who => WAbort (mkReq p t z VUnknown) who
  | CEndAbort id t who => WEndAbort id t who
  end.

(* configuration of one loop object AT CONSTRUCTION: gate logic, assessor name, enable_cache, ttl,
   enable_circuit_breaker, failure_threshold, recovery_timeout, timeout_seconds *)
Definition lcfg := (logic * str * bool * Z * bool * Z * Z * Z)%type.

Definition case := (lcfg * lcfg * nat * list (bool * wcop))%type.

Definition reply_obs (cf : config) (q : req) (r : reply) : list Z :=
  let c := r_core r in
  [ b2z (c_blocked c); b2z (c_success c); action_code (c_action c);
    match c_token c with Some _ => 1 | None => 0 end;
    match c_token c with Some t => b2z (zl_eqb (tk_hash t) (q_prompt q)) | None => 0 end;
    match c_token c with Some t => b2z (zl_eqb (tk_issuer t) (cf_assessor cf)) | None => 0 end;
    b2z (r_cached r); b2z (r_exec_called r); b2z (r_assess_called r);
    match r_shown r with Some s => b2z (zl_eqb s (q_prompt q)) | None => -1 end;
    Z.of_nat (r_cache_size r) ].

(* a request row is the eleven values above; clear_cache / reset / observer rows
   are the cache size alone *)
Definition ev_obs (cf0 cf1 : config) (x : bool * bev) : list Z :=
  let '(b, ((o, r, n), _)) := x in
  match o, r with
  | OReq q, Some rp => reply_obs (if b then cf1 else cf0) q rp
  | _, _ => [Z.of_nat n]
  end.

(* a begin that is now in flight: [-3; cache size]; an end without a request in flight:
   [-2; cache size]; every reply: the eleven values *)
Definition xev_obs (cf0 cf1 : config) (x : bool * xev) : list Z :=
  let '(b, e) := x in
  match e with
  | EvAtomic a => ev_obs cf0 cf1 (b, a)
  | EvReturned _ q rp _ => reply_obs (if b then cf1 else cf0) q rp
  | EvInFlight _ _ n => [-3; Z.of_nat n]
  | EvCompleted _ q _ rp => reply_obs (if b then cf1 else cf0) q rp
  | EvNoSuch _ n => [-2; Z.of_nat n]
  end.

(* an assignment (of timeout_seconds too): [-4; cache size]; everything else as before, the token's issuer
   being compared with the assessor's name at that moment; the reply of a slow request: the eleven values *)
Definition rev_obs (x : bool * rev) : list Z :=
  let '(b, e) := x in
  match e with
  | RvOp cf _ a => xev_obs cf cf (b, a)
  | RvSet _ _ n => [-4; Z.of_nat n]
  end.

Definition config_of (l : lcfg) (cap : nat) : config :=
  let '(lg, nm, en, ttl, _, _, _, _) := l in mkConfig lg nm en ttl cap.

Definition bconfig_of (l : lcfg) : bconfig :=
  let '(_, _, _, _, be, th, rc, _) := l in mkBcfg be th rc.

Definition timeout_of (l : lcfg) : Z :=
  let '(_, _, _, _, _, _, _, tmo) := l in tmo.

(* run() left by an agent's exception: [-997; executor asked; assessor asked; cache size] *)
Definition wev_obs (x : bool * wev) : list Z :=
  match snd x with
  | WvOp e => rev_obs (fst x, snd e)
  | WvPropagated _ _ _ who n => [-997; 1; b2z who; Z.of_nat n]
  end.

Definition run_case (c : case) : list (list Z) :=
  let '(l0, l1, cap, tops) := c in
  let cf0 := config_of l0 cap in
  let cf1 := config_of l1 cap in
  map wev_obs
      (wsys_trace (fun p => p) (fun p => p) (timeout_of l0) (timeout_of l1) cf0 cf1 (bconfig_of l0) (bconfig_of l1)
                  (map (fun x : bool * wcop => (fst x, wop_of (snd x))) tops)).
