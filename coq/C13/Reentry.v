(* C13 — lemmas for Part 1f of Model.v (digesters / on_toxic callbacks that
   call back into the lysosome they are called from).  Property.v closes its
   c13_reentrant_* theorems on these by [exact]. *)
From Coq Require Import ZArith List Bool Lia Permutation Arith.
From Coq Require Import ZifyBool.
From Verif Require Import C13.Model C13.Proofs C13.Threads.
Import ListNotations.
Open Scope Z_scope.

(* ---- a re-entrant history is a plain (reconfigured, interleaved) one ----- *)

Lemma rrun_from_app : forall a b cfg cs,
  rrun_from cfg cs (a ++ b) = rrun_from (fst (rrun_from cfg cs a)) (snd (rrun_from cfg cs a)) b.
Proof.
  intros a b cfg cs. unfold rrun_from. rewrite fold_left_app.
  destruct (fold_left (fun st o => fst (rstep (fst st) (snd st) o)) a (cfg, cs)) as [cfg' cs']. reflexivity.
Qed.

Lemma xrun_from_flatten : forall a ops cfg cs,
  xrun_from a cfg cs ops = rrun_from cfg cs (xflatten a cfg cs ops).
Proof.
  intros a. induction ops as [|o ops IH]; intros cfg cs.
  - reflexivity.
  - unfold xrun_from in *. cbn [fold_left xflatten]. rewrite rrun_from_app.
    unfold xstep at 2. cbn [fst snd].
    destruct (rrun_from cfg cs (xexpand a cs o)) as [cfg' cs'] eqn:E. cbn [fst snd].
    apply IH.
Qed.

Lemma reentrant_is_interleaved : forall a cfg ops,
  xrun a cfg ops = rrun cfg (xflatten a cfg cinit ops).
Proof. intros a cfg ops. unfold xrun, rrun. apply xrun_from_flatten. Qed.

(* ---- so every statement about reconfigured histories holds ------------- *)

Lemma reentrant_statements : forall a cfg ops,
  let cs := snd (xrun a cfg ops) in
  (2 <= max_queue cfg -> Z.of_nat (List.length (queue (c_base cs))) <= max_queue cfg) /\
  overlap_conservation_cs cfg cs /\
  reported_once_cs cs /\
  results_cs cfg cs /\
  overlap_toxic_cs cfg cs.
Proof.
  intros a cfg ops. cbv zeta. rewrite reentrant_is_interleaved.
  split; [intros H; apply reconf_queue_bounded; exact H|].
  split; [apply reconf_conservation|].
  split; [apply reconf_reported_once|].
  split; [apply reconf_results|apply reconf_toxic].
Qed.

(* ---- the re-entrant digest() call returns ------------------------------- *)

Lemma find_set_same : forall p y l x0,
  p_id y = p -> find_pass p l = Some x0 -> find_pass p (set_pass p (Some y) l) = Some y.
Proof.
  intros p y. induction l as [|x l IH]; intros x0 Hy H; cbn [find_pass set_pass] in *; [discriminate|].
  destruct (p_id x =? p) eqn:E.
  - cbn [find_pass]. rewrite Hy, Z.eqb_refl. reflexivity.
  - cbn [find_pass]. rewrite E. eapply IH; eauto.
Qed.

Lemma set_set_none : forall p y l,
  p_id y = p -> set_pass p None (set_pass p (Some y) l) = set_pass p None l.
Proof.
  intros p y. induction l as [|x l IH]; intros Hy; cbn [set_pass]; [reflexivity|].
  destruct (p_id x =? p) eqn:E.
  - cbn [set_pass]. rewrite Hy, Z.eqb_refl. reflexivity.
  - cbn [set_pass]. rewrite E, IH; auto.
Qed.

Lemma rrun_from_cons' : forall cfg cs o ops,
  rrun_from cfg cs (o :: ops) =
  rrun_from (fst (fst (rstep cfg cs o))) (snd (fst (rstep cfg cs o))) ops.
Proof.
  intros cfg cs o ops. unfold rrun_from. cbn [fold_left fst snd].
  destruct (rstep cfg cs o) as [[c1 s1] r]. reflexivity.
Qed.

(* a call made by a callback leaves the calls in progress as they are *)
Lemma atomic_keeps_open : forall cfg cs o,
  fst (fst (rstep cfg cs (ROp (Atomic o)))) = cfg /\
  c_open (snd (fst (rstep cfg cs (ROp (Atomic o))))) = c_open cs /\
  exists more, c_done (snd (fst (rstep cfg cs (ROp (Atomic o))))) = more ++ c_done cs.
Proof.
  intros cfg cs o. cbn [rstep cstep]. unfold catomic.
  destruct (step cfg (c_base cs) o) as [s' r]. cbn [fst snd c_open c_done].
  split; [reflexivity|]. split; [reflexivity|].
  destruct r; try (exists []; reflexivity).
  eexists [_]. reflexivity.
Qed.

Lemma act_steps_keep_open : forall a it cfg cs,
  fst (rrun_from cfg cs (act_steps a it)) = cfg /\
  c_open (snd (rrun_from cfg cs (act_steps a it))) = c_open cs /\
  exists more, c_done (snd (rrun_from cfg cs (act_steps a it))) = more ++ c_done cs.
Proof.
  intros a it cfg cs. unfold act_steps. destruct (find_act (it_id it) a) as [o|].
  - rewrite rrun_from_cons'. unfold rrun_from. cbn [fold_left fst snd].
    apply atomic_keeps_open.
  - unfold rrun_from. cbn [fold_left fst snd]. split; [reflexivity|]. split; [reflexivity|].
    exists []. reflexivity.
Qed.

(* digest() is inside the digester of the first of [items]: whatever the
   callbacks of these items call, after one digester call per item the pass
   is closed and its DigestResult - for exactly the items it took - returned *)
Lemma callbacks_close : forall a items cfg cs res taken,
  items <> [] ->
  find_pass self_label (c_open cs) = Some (mkPass self_label items res taken) ->
  fst (rrun_from cfg cs (callbacks a items)) = cfg /\
  c_open (snd (rrun_from cfg cs (callbacks a items))) = set_pass self_label None (c_open cs) /\
  exists r more, c_done (snd (rrun_from cfg cs (callbacks a items))) = (taken, r) :: more ++ c_done cs.
Proof.
  intros a. induction items as [|it rest IH]; intros cfg cs res taken Hne Hf; [congruence|].
  cbn [callbacks]. rewrite rrun_from_app.
  destruct (act_steps_keep_open a it cfg cs) as (E1 & E2 & (m1 & E3)).
  set (st1 := rrun_from cfg cs (act_steps a it)) in *.
  destruct st1 as [cfg1 cs1]. cbn [fst snd] in *. subst cfg1.
  rewrite rrun_from_cons'. cbn [rstep cstep]. unfold cpstep. rewrite E2, Hf. cbn [p_todo p_res p_taken].
  destruct (digest_item cfg false it (c_base cs1) res) as [s1 r1] eqn:ED.
  destruct rest as [|it2 rest2].
  - cbn [fst snd callbacks]. unfold rrun_from. cbn [fold_left fst snd c_open c_done].
    split; [reflexivity|]. split; [rewrite ?E2; reflexivity|].
    exists r1, m1. rewrite ?E3. reflexivity.
  - cbn [fst snd].
    match goal with |- context [rrun_from cfg ?C (callbacks a (it2 :: rest2))] => set (cs2 := C) end.
    assert (Hf2 : find_pass self_label (c_open cs2) = Some (mkPass self_label (it2 :: rest2) r1 taken)).
    { unfold cs2. cbn [c_open]. rewrite ?E2. eapply find_set_same; [reflexivity|exact Hf]. }
    destruct (IH cfg cs2 r1 taken ltac:(discriminate) Hf2) as (F1 & F2 & (r & m2 & F3)).
    split; [exact F1|]. split.
    + rewrite F2. unfold cs2. cbn [c_open]. rewrite ?E2. apply set_set_none. reflexivity.
    + exists r, (m2 ++ m1). rewrite F3. unfold cs2. cbn [c_done]. rewrite ?E3, app_assoc. reflexivity.
Qed.

Lemma reentrant_digest_returns : forall a cfg cs k,
  find_pass self_label (c_open cs) = None ->
  let st := xstep a (cfg, cs) (XDigest k) in
  fst st = cfg /\
  c_open (snd st) = c_open cs /\
  exists r more, c_done (snd st) = (to_process k (queue (c_base cs)), r) :: more ++ c_done cs.
Proof.
  intros a cfg cs k Hn. cbv zeta. unfold xstep. cbn [fst snd xexpand].
  rewrite rrun_from_cons'. cbn [rstep cstep]. unfold cbegin. rewrite Hn.
  destruct (to_process k (queue (c_base cs))) as [|it rest] eqn:ET.
  - cbn [fst snd callbacks]. unfold rrun_from. cbn [fold_left fst snd c_open c_done].
    split; [reflexivity|]. split; [reflexivity|]. exists dres0, []. reflexivity.
  - cbn [fst snd].
    match goal with |- context [rrun_from cfg ?C (callbacks a (it :: rest))] => set (cs1 := C) end.
    assert (Hf : find_pass self_label (c_open cs1) = Some (mkPass self_label (it :: rest) dres0 (it :: rest))).
    { unfold cs1. cbn [c_open find_pass p_id]. rewrite Z.eqb_refl. reflexivity. }
    destruct (callbacks_close a (it :: rest) cfg cs1 dres0 (it :: rest) ltac:(discriminate) Hf) as (F1 & F2 & (r & m & F3)).
    split; [exact F1|]. split.
    + rewrite F2. unfold cs1. cbn [c_open set_pass p_id]. rewrite Z.eqb_refl. reflexivity.
    + exists r, m. rewrite F3. unfold cs1. cbn [c_done]. reflexivity.
Qed.
