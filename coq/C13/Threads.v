(* C13 — lemmas for Part 1d (the threshold reassigned at run time), Part 1c
   (threads with programs under a schedule) and for
   the two further call-graph checks of Part 2 (every call is a finite program;
   every call has one critical section), and the step bound of the lock
   machine.  Property.v closes its theorems on these by [exact]. *)
From Coq Require Import ZArith List Bool Lia Permutation String Arith.
From Coq Require Import ZifyBool.
From Verif Require Import C13.Model C13.Proofs.
Import ListNotations.
Open Scope Z_scope.

(* ====================================================================== *)
(* Part 1d: reconfigured histories                                          *)

(* the invariant reads the configuration only through has_cb *)
Lemma process_cb : forall cfg cfg' it log,
  has_cb cfg' = has_cb cfg -> process cfg' it log = process cfg it log.
Proof. intros cfg cfg' it log H. unfold process. rewrite H. reflexivity. Qed.

Lemma raises_cb : forall cfg cfg' it, has_cb cfg' = has_cb cfg -> raises cfg' it = raises cfg it.
Proof. intros cfg cfg' it H. unfold raises, verdict. rewrite (process_cb cfg cfg' it [] H). reflexivity. Qed.

Lemma pass_fate_cb : forall cfg cfg' it, has_cb cfg' = has_cb cfg -> pass_fate cfg' it = pass_fate cfg it.
Proof. intros cfg cfg' it H. unfold pass_fate. rewrite (raises_cb cfg cfg' it H). reflexivity. Qed.

Lemma accounts_cb : forall cfg cfg' l r, has_cb cfg' = has_cb cfg -> accounts cfg l r -> accounts cfg' l r.
Proof.
  intros cfg cfg' l r H [A1 A2]. unfold accounts.
  rewrite (filter_ext (fun it => negb (raises cfg' it)) (fun it => negb (raises cfg it))),
          (filter_ext (raises cfg') (raises cfg)).
  - split; assumption.
  - intros it. apply raises_cb; exact H.
  - intros it. rewrite (raises_cb cfg cfg' it H). reflexivity.
Qed.

Lemma Inv_cb : forall cfg cfg' live s, has_cb cfg' = has_cb cfg -> Inv cfg live s -> Inv cfg' live s.
Proof.
  intros cfg cfg' live s H [P1 P2 P3 P4 P5 P6 P7 P8 P9]. constructor; try assumption.
  - intros i Hi. destruct (P7 i Hi) as (it & f & H1 & H2 & H3 & H4 & H5).
    exists it, f. rewrite H. auto.
  - intros it f H1 H2 H3 H4. rewrite H in H4. eapply P8; eassumption.
Qed.

Lemma CInv_cb : forall cfg cfg' cs, has_cb cfg' = has_cb cfg -> CInv cfg cs -> CInv cfg' cs.
Proof.
  intros cfg cfg' cs H [I B R D O]. constructor.
  - eapply Inv_cb; eassumption.
  - exact B.
  - exact R.
  - intros taken r Hin. destruct (D taken r Hin) as [A F]. split; [eapply accounts_cb; eassumption|].
    intros it Hit. unfold fated_as. rewrite (pass_fate_cb cfg cfg' it H). apply F; exact Hit.
  - intros ps Hin. destruct (O ps Hin) as (N & pre & E & A & F). split; [exact N|].
    exists pre. split; [exact E|split; [eapply accounts_cb; eassumption|]].
    intros it Hit. unfold fated_as. rewrite (pass_fate_cb cfg cfg' it H). apply F; exact Hit.
Qed.

(* what a reassignment of the threshold / of the retention period leaves alone *)
Definition same_shape (cfg cfg' : config) : Prop :=
  max_queue cfg' = max_queue cfg /\ has_cb cfg' = has_cb cfg.

Lemma rstep_shape : forall cfg cs o, same_shape cfg (fst (fst (rstep cfg cs o))).
Proof.
  intros cfg cs o. destruct o as [o|t|rt]; cbn [rstep].
  - destruct (cstep cfg cs o) as [cs' r]. cbn [fst]. repeat split.
  - cbn [fst set_thr]. repeat split.
  - cbn [fst set_ret]. repeat split.
Qed.

Lemma rstep_inv : forall cfg cs o,
  CInv cfg cs -> CInv (fst (fst (rstep cfg cs o))) (snd (fst (rstep cfg cs o))).
Proof.
  intros cfg cs o I. destruct o as [o|t|rt]; cbn [rstep].
  - pose proof (cstep_inv cfg cs o I) as H. destruct (cstep cfg cs o) as [cs' r]. exact H.
  - cbn [fst snd]. eapply CInv_cb; [|exact I]. reflexivity.
  - cbn [fst snd]. eapply CInv_cb; [|exact I]. reflexivity.
Qed.

Lemma rstep_bounded : forall cfg cs o,
  2 <= max_queue cfg -> qlen (c_base cs) <= max_queue cfg ->
  qlen (c_base (snd (fst (rstep cfg cs o)))) <= max_queue cfg.
Proof.
  intros cfg cs o Hmax Hq. destruct o as [o|t|rt]; cbn [rstep].
  - pose proof (cstep_bounded cfg cs o Hmax Hq) as H. destruct (cstep cfg cs o) as [cs' r]. exact H.
  - exact Hq.
  - exact Hq.
Qed.

Lemma rrun_from_facts : forall ops cfg cs,
  CInv cfg cs ->
  let st := rrun_from cfg cs ops in
  CInv (fst st) (snd st) /\ same_shape cfg (fst st) /\
  (2 <= max_queue cfg -> qlen (c_base cs) <= max_queue cfg -> qlen (c_base (snd st)) <= max_queue cfg).
Proof.
  induction ops as [|o ops IH]; intros cfg cs I; cbv zeta.
  - cbn. split; [exact I|split; [repeat split|auto]].
  - unfold rrun_from in *. cbn [fold_left fst snd].
    pose proof (rstep_inv cfg cs o I) as I1. pose proof (rstep_shape cfg cs o) as (S1 & S3).
    pose proof (rstep_bounded cfg cs o) as B1.
    destruct (rstep cfg cs o) as [[cfg1 cs1] r]. cbn [fst snd] in *.
    destruct (IH cfg1 cs1 I1) as (I2 & (T1 & T3) & B2). cbv zeta in *.
    split; [exact I2|split; [repeat split; congruence|]].
    intros Hmax Hq. rewrite <- S1. apply B2; rewrite S1; auto.
Qed.

Lemma rrun_facts : forall cfg ops,
  let st := rrun cfg ops in
  CInv (fst st) (snd st) /\ CInv cfg (snd st) /\ same_shape cfg (fst st) /\
  (2 <= max_queue cfg -> qlen (c_base (snd st)) <= max_queue cfg).
Proof.
  intros cfg ops. cbv zeta. unfold rrun.
  destruct (rrun_from_facts ops cfg cinit (cinit_inv cfg)) as (I & Sh & B). cbv zeta in *.
  split; [exact I|split; [|split; [exact Sh|]]].
  - destruct Sh as (_ & H). eapply CInv_cb; [|exact I]. symmetry. exact H.
  - intros Hmax. apply B; [exact Hmax|]. unfold qlen; cbn. lia.
Qed.

Lemma reconf_queue_bounded : forall cfg ops, 2 <= max_queue cfg ->
  Z.of_nat (List.length (queue (c_base (snd (rrun cfg ops))))) <= max_queue cfg.
Proof. intros cfg ops Hmax. apply (rrun_facts cfg ops). exact Hmax. Qed.

Lemma reconf_conservation : forall cfg ops, overlap_conservation_cs cfg (snd (rrun cfg ops)).
Proof. intros cfg ops. apply overlap_conservation_of_inv. apply (rrun_facts cfg ops). Qed.

Lemma reconf_reported_once : forall cfg ops, reported_once_cs (snd (rrun cfg ops)).
Proof. intros cfg ops. apply (reported_once_of_inv cfg). apply (rrun_facts cfg ops). Qed.

Lemma reconf_results : forall cfg ops, results_cs cfg (snd (rrun cfg ops)).
Proof. intros cfg ops. apply results_of_inv. apply (rrun_facts cfg ops). Qed.

Lemma reconf_toxic : forall cfg ops, overlap_toxic_cs cfg (snd (rrun cfg ops)).
Proof. intros cfg ops. apply overlap_toxic_of_inv. apply (rrun_facts cfg ops). Qed.

(* a history without reassignments is a history of Part 1b *)
Lemma reconf_refines : forall cfg ops, rrun cfg (map ROp ops) = (cfg, crun cfg ops).
Proof.
  intros cfg ops. unfold rrun, crun, rrun_from, crun_from. generalize cinit as cs.
  induction ops as [|o ops IH]; intros cs; cbn [map fold_left]; [reflexivity|].
  cbn [rstep fst snd]. destruct (cstep cfg cs o) as [cs' r] eqn:E. cbn [fst snd]. apply IH.
Qed.

Lemma reconf_total : forall cfg cs o, exists cfg' cs' r, rstep cfg cs o = (cfg', cs', r).
Proof. intros cfg cs o. destruct (rstep cfg cs o) as [[cfg' cs'] r]. eauto. Qed.

(* ====================================================================== *)
(* Part 1c: a run of threads is an interleaved history                      *)

Definition next_cop (i : nat) (o : op) : cop :=
  match o with DigestOp k => PassBegin (Z.of_nat i) k | _ => Atomic o end.

Lemma next_cop_step : forall cfg cs i o,
  match o with
  | DigestOp k => cbegin cfg (Z.of_nat i) k cs
  | _ => catomic cfg o cs
  end = cstep cfg cs (next_cop i o).
Proof. intros cfg cs i o. destruct o; reflexivity. Qed.

(* the step of the interleaved semantics thread i makes when it is scheduled *)
Definition tcop (ts : tstate) (i : nat) : option cop :=
  if in_pass ts i then Some (PassStep (Z.of_nat i))
  else match nth i (t_progs ts) [] with
       | [] => None
       | o :: _ => Some (next_cop i o)
       end.

Lemma tstep_tcop : forall cfg ts i,
  match tcop ts i with
  | None => tstep cfg ts i = (ts, CBad)
  | Some c => t_cs (fst (tstep cfg ts i)) = fst (cstep cfg (t_cs ts) c) /\
              snd (tstep cfg ts i) = snd (cstep cfg (t_cs ts) c)
  end.
Proof.
  intros cfg ts i. unfold tcop, tstep. destruct (in_pass ts i).
  - cbn [cstep]. destruct (cpstep cfg (Z.of_nat i) (t_cs ts)) as [cs' r]. split; reflexivity.
  - destruct (nth i (t_progs ts) []) as [|o rest]; [reflexivity|].
    rewrite (next_cop_step cfg (t_cs ts) i o).
    destruct (cstep cfg (t_cs ts) (next_cop i o)) as [cs' r]. split; reflexivity.
Qed.

Lemma crun_from_app : forall cfg cs a b,
  crun_from cfg cs (a ++ b) = crun_from cfg (crun_from cfg cs a) b.
Proof. intros cfg cs a b. unfold crun_from. apply fold_left_app. Qed.

Lemma trun_interleaving : forall cfg sched ts,
  exists ops, t_cs (trun cfg ts sched) = crun_from cfg (t_cs ts) ops.
Proof.
  intros cfg. induction sched as [|i sched IH]; intros ts.
  - exists []. reflexivity.
  - unfold trun in *. cbn [fold_left]. destruct (IH (fst (tstep cfg ts i))) as [ops E]. rewrite E.
    pose proof (tstep_tcop cfg ts i) as H. destruct (tcop ts i) as [c|].
    + destruct H as [H _]. exists (c :: ops). rewrite H. reflexivity.
    + rewrite H. exists ops. reflexivity.
Qed.

Lemma crun_from_bounded : forall cfg ops cs,
  2 <= max_queue cfg -> qlen (c_base cs) <= max_queue cfg ->
  qlen (c_base (crun_from cfg cs ops)) <= max_queue cfg.
Proof.
  intros cfg. unfold crun_from. induction ops as [|o ops IH]; intros cs Hmax Hq; cbn [fold_left]; [exact Hq|].
  apply IH; [exact Hmax|]. apply cstep_bounded; assumption.
Qed.

(* the threads start on the object a (reconfigured) history [pre] has led to,
   under the configuration then in force *)
Lemma threads_are_interleavings : forall cfg pre progs sched,
  let st := rrun cfg pre in
  exists ops, t_cs (trun (fst st) (mkT (snd st) progs) sched) = crun_from (fst st) (snd st) ops.
Proof.
  intros cfg pre progs sched. cbv zeta.
  destruct (trun_interleaving (fst (rrun cfg pre)) sched (mkT (snd (rrun cfg pre)) progs)) as [ops E].
  exists ops. exact E.
Qed.

Lemma threads_queue_bounded : forall cfg pre progs sched,
  2 <= max_queue cfg ->
  let st := rrun cfg pre in
  Z.of_nat (List.length (queue (c_base (t_cs (trun (fst st) (mkT (snd st) progs) sched))))) <= max_queue cfg.
Proof.
  intros cfg pre progs sched Hmax. cbv zeta.
  destruct (threads_are_interleavings cfg pre progs sched) as [ops E]. cbv zeta in E. rewrite E.
  destruct (rrun_facts cfg pre) as (_ & _ & (S1 & _) & B). cbv zeta in *.
  rewrite <- S1. apply crun_from_bounded; rewrite S1; auto.
Qed.

(* ====================================================================== *)
(* Part 1c: every schedule ends                                             *)

Lemma tstep_inv : forall cfg ts i, CInv cfg (t_cs ts) -> CInv cfg (t_cs (fst (tstep cfg ts i))).
Proof.
  intros cfg ts i I. pose proof (tstep_tcop cfg ts i) as H. destruct (tcop ts i) as [c|].
  - destruct H as [H _]. rewrite H. apply cstep_inv; exact I.
  - rewrite H. exact I.
Qed.

Lemma trun_inv : forall cfg sched ts, CInv cfg (t_cs ts) -> CInv cfg (t_cs (trun cfg ts sched)).
Proof.
  intros cfg. induction sched as [|i sched IH]; intros ts I; [exact I|].
  unfold trun in *. cbn [fold_left]. apply IH. apply tstep_inv; exact I.
Qed.

Lemma list_sum_cons : forall a l, list_sum (a :: l) = (a + list_sum l)%nat.
Proof. reflexivity. Qed.

Definition cost (p : list op) : nat := (List.length p + List.length (filter is_ingest_op p))%nat.

Lemma cost_cons : forall o rest,
  cost (o :: rest) = (cost rest + 1 + (if is_ingest_op o then 1 else 0))%nat.
Proof. intros o rest. unfold cost. cbn [List.length filter]. destruct (is_ingest_op o); cbn [List.length]; lia. Qed.

Lemma sum_set_nth : forall (progs : list (list op)) i o rest,
  nth i progs [] = o :: rest ->
  (list_sum (map cost (set_nth i rest progs)) + cost (o :: rest) = list_sum (map cost progs) + cost rest)%nat.
Proof.
  induction progs as [|p progs IH]; intros i o rest H.
  - destruct i; discriminate.
  - destruct i as [|i]; cbn [nth] in H; cbn [set_nth map]; rewrite ?list_sum_cons.
    + subst p. lia.
    + specialize (IH i o rest H). lia.
Qed.

Lemma ingest_qlen : forall cfg t c o s,
  (List.length (queue (ingest cfg t c o s)) <= List.length (queue s) + 1)%nat.
Proof.
  intros cfg t c o s. unfold ingest.
  set (s1 := if max_queue cfg <=? qlen s then emergency cfg s else s).
  assert (H1 : (List.length (queue s1) <= List.length (queue s))%nat).
  { unfold s1. destruct (max_queue cfg <=? qlen s); [|lia].
    rewrite emergency_queue, skipn_length. lia. }
  clearbody s1.
  match goal with |- context [if _ then fst (digest _ _ _ ?S) else _] => set (s2 := S) end.
  assert (H2 : List.length (queue s2) = (List.length (queue s1) + 1)%nat).
  { unfold s2; cbn [queue]. rewrite app_length; cbn [List.length]. lia. }
  destruct (auto_thr cfg <=? qlen s2); [|lia].
  rewrite digest_queue.
  pose proof (after_take_le (Some (qlen s2 / 2)) (queue s2)). lia.
Qed.

Lemma step_qlen : forall cfg s o,
  (List.length (queue (fst (step cfg s o))) <= List.length (queue s) + (if is_ingest_op o then 1 else 0))%nat.
Proof.
  intros cfg s o. destruct o; cbn [step is_ingest_op].
  - apply ingest_qlen.
  - apply ingest_qlen.
  - apply ingest_qlen.
  - pose proof (digest_queue cfg false k s) as Q.
    destruct (digest cfg false k s) as [s' r]. cbn [fst] in *. rewrite Q.
    pose proof (after_take_le k (queue s)). lia.
  - destruct (sweepable cfg s); [|cbn [fst]; lia].
    unfold autophagy. cbn [fst queue].
    pose proof (filter_length_le (fresh cfg (now s)) (queue s)). lia.
  - cbn [fst set_now queue]. lia.
  - cbn [fst set_bin queue]. lia.
  - apply ingest_qlen.
  - cbn [fst]. lia.
Qed.

Lemma in_pass_find : forall ts i,
  in_pass ts i = true -> exists ps, find_pass (Z.of_nat i) (c_open (t_cs ts)) = Some ps.
Proof.
  intros ts i H. unfold in_pass in H.
  destruct (find_pass (Z.of_nat i) (c_open (t_cs ts))) as [ps|]; [eauto|discriminate].
Qed.

(* a digester step: one item less in flight, the queue as it was *)
Lemma cpstep_work : forall cfg p cs ps,
  CInv cfg cs -> find_pass p (c_open cs) = Some ps ->
  snd (cpstep cfg p cs) <> CBad /\
  List.length (queue (c_base (fst (cpstep cfg p cs)))) = List.length (queue (c_base cs)) /\
  (List.length (inflight (fst (cpstep cfg p cs))) + 1 = List.length (inflight cs))%nat.
Proof.
  intros cfg p cs ps I F. unfold cpstep. rewrite F.
  destruct (find_pass_split _ _ _ F) as (l1 & l2 & El & SP).
  assert (Hin : In ps (c_open cs)) by (rewrite El; apply in_or_app; right; left; reflexivity).
  destruct (ci_open _ _ I ps Hin) as (Hne & _).
  destruct (p_todo ps) as [|it rest] eqn:T; [contradiction|].
  pose proof (digest_item_queue cfg false it (c_base cs) (p_res ps)) as Q.
  destruct (digest_item cfg false it (c_base cs) (p_res ps)) as [s1 r1]. cbn [fst] in Q.
  assert (L0 : List.length (inflight cs) =
               (List.length (flat_map p_todo l1) + S (List.length rest) + List.length (flat_map p_todo l2))%nat).
  { unfold inflight. rewrite El, flat_map_app. cbn [flat_map]. rewrite T, !app_length. cbn [List.length]. lia. }
  destruct rest as [|it2 rest]; cbn [fst snd c_base].
  - split; [discriminate|]. split; [cbn [finish set_bin queue]; rewrite Q; reflexivity|].
    rewrite L0. unfold inflight. cbn [c_open]. rewrite (SP None), flat_map_app. cbn [app]. rewrite app_length.
    cbn [List.length]. lia.
  - split; [discriminate|]. split; [rewrite Q; reflexivity|].
    rewrite L0. unfold inflight. cbn [c_open]. rewrite (SP (Some _)), !flat_map_app. cbn [flat_map p_todo app].
    rewrite ?app_nil_r, !app_length. cbn [List.length]. rewrite ?app_length. lia.
Qed.

(* digest(k) taking its items: what leaves the queue is in flight *)
Lemma cbegin_work : forall cfg p k cs,
  find_pass p (c_open cs) = None ->
  snd (cbegin cfg p k cs) <> CBad /\
  (List.length (queue (c_base (fst (cbegin cfg p k cs)))) + List.length (inflight (fst (cbegin cfg p k cs)))
   = List.length (queue (c_base cs)) + List.length (inflight cs))%nat.
Proof.
  intros cfg p k cs F. unfold cbegin. rewrite F.
  destruct (take_split k (queue (c_base cs))) as [Sp _].
  assert (L : (List.length (to_process k (queue (c_base cs))) + List.length (after_take k (queue (c_base cs)))
               = List.length (queue (c_base cs)))%nat).
  { rewrite <- app_length, Sp. reflexivity. }
  destruct (to_process k (queue (c_base cs))) as [|it items]; cbn [fst snd c_base].
  - split; [discriminate|]. cbn [finish set_bin set_queue queue]. unfold inflight. cbn [c_open].
    cbn [List.length] in L. lia.
  - split; [discriminate|]. cbn [set_queue queue]. unfold inflight. cbn [c_open flat_map p_todo].
    rewrite app_length. lia.
Qed.

Lemma catomic_work : forall cfg o cs,
  snd (catomic cfg o cs) <> CBad /\
  (List.length (queue (c_base (fst (catomic cfg o cs))))
   <= List.length (queue (c_base cs)) + (if is_ingest_op o then 1 else 0))%nat /\
  inflight (fst (catomic cfg o cs)) = inflight cs.
Proof.
  intros cfg o cs. unfold catomic. pose proof (step_qlen cfg (c_base cs) o) as H.
  destruct (step cfg (c_base cs) o) as [s' r]. cbn [fst snd c_base] in *.
  split; [discriminate|]. split; [exact H|reflexivity].
Qed.

Lemma tstep_work : forall cfg ts i,
  CInv cfg (t_cs ts) -> busy ts i = true ->
  snd (tstep cfg ts i) <> CBad /\ (work (fst (tstep cfg ts i)) < work ts)%nat.
Proof.
  intros cfg ts i I B. unfold busy in B. unfold tstep.
  destruct (in_pass ts i) eqn:P.
  - destruct (in_pass_find _ _ P) as [ps F].
    destruct (cpstep_work cfg (Z.of_nat i) (t_cs ts) ps I F) as (Hr & Hq & Hf).
    destruct (cpstep cfg (Z.of_nat i) (t_cs ts)) as [cs' r]. cbn [fst snd] in *.
    split; [exact Hr|]. unfold work. cbn [t_cs t_progs]. fold cost. lia.
  - cbn [orb] in B. destruct (nth i (t_progs ts) []) as [|o rest] eqn:N; [discriminate|].
    pose proof (sum_set_nth (t_progs ts) i o rest N) as SN. rewrite cost_cons in SN.
    assert (NF : find_pass (Z.of_nat i) (c_open (t_cs ts)) = None).
    { unfold in_pass in P. destruct (find_pass (Z.of_nat i) (c_open (t_cs ts))); [discriminate|reflexivity]. }
    destruct o.
    1-3, 5-9:
      match goal with |- context [catomic ?C ?O ?X] =>
        destruct (catomic_work C O X) as (Hr & Hq & Hf);
        destruct (catomic C O X) as [cs' r] end;
      cbn [fst snd is_ingest_op] in *; split; [exact Hr|];
      unfold work; cbn [t_cs t_progs]; fold cost; rewrite Hf; lia.
    destruct (cbegin_work cfg (Z.of_nat i) k (t_cs ts) NF) as (Hr & Hq).
    destruct (cbegin cfg (Z.of_nat i) k (t_cs ts)) as [cs' r]. cbn [fst snd is_ingest_op] in *.
    split; [exact Hr|]. unfold work. cbn [t_cs t_progs]. fold cost. lia.
Qed.

Lemma tstep_idle : forall cfg ts i, busy ts i = false -> tstep cfg ts i = (ts, CBad).
Proof.
  intros cfg ts i B. unfold busy in B. apply orb_false_iff in B. destruct B as [P N].
  unfold tstep. rewrite P. destruct (nth i (t_progs ts) []); [reflexivity|discriminate].
Qed.

(* steps made + work left <= work at the start, for every schedule *)
Lemma real_steps_bound : forall cfg sched ts,
  CInv cfg (t_cs ts) -> (real_steps cfg ts sched + work (trun cfg ts sched) <= work ts)%nat.
Proof.
  intros cfg. induction sched as [|i sched IH]; intros ts I.
  - cbn. lia.
  - unfold trun in *. cbn [real_steps fold_left].
    specialize (IH (fst (tstep cfg ts i)) (tstep_inv cfg ts i I)).
    destruct (busy ts i) eqn:B.
    + destruct (tstep_work cfg ts i I B) as [_ W]. lia.
    + rewrite (tstep_idle cfg ts i B) in *. cbn [fst] in *. lia.
Qed.

Lemma cost_zero : forall p, cost p = 0%nat -> p = [].
Proof. intros [|o p] H; [reflexivity|]. unfold cost in H. cbn [List.length] in H. lia. Qed.

Lemma sum_zero_all : forall (progs : list (list op)),
  list_sum (map cost progs) = 0%nat -> forallb (fun p => negb (nonempty p)) progs = true.
Proof.
  induction progs as [|p progs IH]; intros H; [reflexivity|].
  cbn [map] in H; rewrite list_sum_cons in H. cbn [forallb].
  rewrite (cost_zero p) by lia. cbn [nonempty negb andb]. apply IH. lia.
Qed.

Lemma work_zero_done : forall cfg ts, CInv cfg (t_cs ts) -> work ts = 0%nat -> all_done ts = true.
Proof.
  intros cfg ts I W. unfold work in W. fold cost in W. unfold all_done.
  rewrite sum_zero_all by lia. cbn [andb].
  destruct (c_open (t_cs ts)) as [|ps l] eqn:E; [reflexivity|].
  exfalso. destruct (ci_open _ _ I ps) as (Hne & _); [rewrite E; left; reflexivity|].
  unfold inflight in W. rewrite E in W. cbn [flat_map] in W. rewrite app_length in W.
  destruct (p_todo ps); [contradiction|]. cbn [List.length] in W. lia.
Qed.

Lemma threads_inv : forall cfg pre progs sched,
  let st := rrun cfg pre in
  CInv cfg (t_cs (trun (fst st) (mkT (snd st) progs) sched)).
Proof.
  intros cfg pre progs sched. cbv zeta.
  destruct (rrun_facts cfg pre) as (I & _ & (_ & H) & _). cbv zeta in *.
  eapply CInv_cb; [symmetry; exact H|]. apply trun_inv. exact I.
Qed.

Lemma threads_conservation : forall cfg pre progs sched,
  let st := rrun cfg pre in
  overlap_conservation_cs cfg (t_cs (trun (fst st) (mkT (snd st) progs) sched)).
Proof. intros cfg pre progs sched. apply overlap_conservation_of_inv, threads_inv. Qed.

Lemma threads_reported_once : forall cfg pre progs sched,
  let st := rrun cfg pre in
  reported_once_cs (t_cs (trun (fst st) (mkT (snd st) progs) sched)).
Proof. intros cfg pre progs sched. apply (reported_once_of_inv cfg), threads_inv. Qed.

Lemma threads_results : forall cfg pre progs sched,
  let st := rrun cfg pre in
  results_cs cfg (t_cs (trun (fst st) (mkT (snd st) progs) sched)).
Proof. intros cfg pre progs sched. apply results_of_inv, threads_inv. Qed.

Lemma threads_toxic : forall cfg pre progs sched,
  let st := rrun cfg pre in
  overlap_toxic_cs cfg (t_cs (trun (fst st) (mkT (snd st) progs) sched)).
Proof. intros cfg pre progs sched. apply overlap_toxic_of_inv, threads_inv. Qed.

Definition threads_return_stmt (cfg : config) (pre : list rop) (progs : list (list op)) (sched : list nat) : Prop :=
  let st := rrun cfg pre in
  let cfg' := fst st in
  let ts0 := mkT (snd st) progs in
  let ts := trun cfg' ts0 sched in
  (forall i, busy ts i = true ->
     snd (tstep cfg' ts i) <> CBad /\ (work (fst (tstep cfg' ts i)) < work ts)%nat) /\
  (forall i, busy ts i = false -> tstep cfg' ts i = (ts, CBad)) /\
  (real_steps cfg' ts0 sched + work ts <= work ts0)%nat /\
  (work ts = 0%nat -> all_done ts = true).

Lemma threads_return_proof : forall cfg pre progs sched, threads_return_stmt cfg pre progs sched.
Proof.
  intros cfg pre progs sched. unfold threads_return_stmt. cbv zeta.
  destruct (rrun_facts cfg pre) as (I0 & _). cbv zeta in I0.
  set (cfg' := fst (rrun cfg pre)) in *. set (cs0 := snd (rrun cfg pre)) in *.
  assert (I0' : CInv cfg' (t_cs (mkT cs0 progs))) by exact I0.
  pose proof (trun_inv cfg' sched _ I0') as I.
  split; [|split; [|split]].
  - intros i B. apply tstep_work; assumption.
  - intros i B. apply tstep_idle; assumption.
  - apply real_steps_bound; exact I0'.
  - apply work_zero_done with (cfg := cfg'); exact I.
Qed.

(* ---- error paths (Part 1f): a call of a thread that raises --------------- *)

Lemma trun_snoc : forall cfg ts sched i,
  trun cfg ts (sched ++ [i]) = fst (tstep cfg (trun cfg ts sched) i).
Proof. intros cfg ts sched i. unfold trun. rewrite fold_left_app. reflexivity. Qed.

Lemma catomic_raised : forall cfg o cs,
  snd (catomic cfg o cs) = CRet RRaised -> fst (catomic cfg o cs) = cs.
Proof.
  intros cfg o cs H. unfold catomic in *.
  pose proof (raising_call_proof cfg (c_base cs) o) as [_ R].
  destruct (step cfg (c_base cs) o) as [s' r]. cbn [fst snd] in *.
  inversion H; subst r. rewrite (R eq_refl). destruct cs; reflexivity.
Qed.

Lemma cbegin_not_raised : forall cfg p k cs, snd (cbegin cfg p k cs) <> CRet RRaised.
Proof.
  intros cfg p k cs. unfold cbegin. destruct (find_pass p (c_open cs)); [discriminate|].
  destruct (to_process k (queue (c_base cs))); discriminate.
Qed.

Lemma cpstep_not_raised : forall cfg p cs, snd (cpstep cfg p cs) <> CRet RRaised.
Proof.
  intros cfg p cs. unfold cpstep. destruct (find_pass p (c_open cs)) as [ps|]; [|discriminate].
  destruct (p_todo ps) as [|it rest]; [discriminate|].
  destruct (digest_item cfg false it (c_base cs) (p_res ps)) as [s1 r1]. destruct rest; discriminate.
Qed.

(* the step of thread i raised: it was a whole call (digest(<not an integer>) or
   autophagy() over a queue it cannot sweep), the object is exactly as it was,
   and the thread has gone on to its next call *)
Lemma tstep_raised : forall cfg ts i,
  snd (tstep cfg ts i) = CRet RRaised ->
  t_cs (fst (tstep cfg ts i)) = t_cs ts /\
  exists o rest, nth i (t_progs ts) [] = o :: rest /\
                 t_progs (fst (tstep cfg ts i)) = set_nth i rest (t_progs ts) /\
                 (o = DigestBad \/ (o = Autophagy /\ sweepable cfg (c_base (t_cs ts)) = false)).
Proof.
  intros cfg ts i H. unfold tstep in *. destruct (in_pass ts i).
  - exfalso. pose proof (cpstep_not_raised cfg (Z.of_nat i) (t_cs ts)) as N.
    destruct (cpstep cfg (Z.of_nat i) (t_cs ts)) as [cs' r]. cbn [snd] in *. exact (N H).
  - destruct (nth i (t_progs ts) []) as [|o rest] eqn:E; [discriminate|].
    assert (K : forall k, o = DigestOp k -> False).
    { intros k ->. pose proof (cbegin_not_raised cfg (Z.of_nat i) k (t_cs ts)) as N.
      destruct (cbegin cfg (Z.of_nat i) k (t_cs ts)) as [cs' r]. cbn [snd] in *. exact (N H). }
    assert (A : (let '(cs', r) := catomic cfg o (t_cs ts) in (mkT cs' (set_nth i rest (t_progs ts)), r)) =
                (let '(cs', r) := match o with
                                  | DigestOp k => cbegin cfg (Z.of_nat i) k (t_cs ts)
                                  | _ => catomic cfg o (t_cs ts)
                                  end in (mkT cs' (set_nth i rest (t_progs ts)), r))).
    { destruct o; try reflexivity. exfalso. eapply K. reflexivity. }
    rewrite <- A in *. clear A.
    pose proof (catomic_raised cfg o (t_cs ts)) as C.
    pose proof (raising_call_proof cfg (c_base (t_cs ts)) o) as [W _].
    unfold catomic in *. destruct (step cfg (c_base (t_cs ts)) o) as [s' r]. cbn [fst snd] in *.
    inversion H; subst r. split; [apply C; reflexivity|].
    exists o, rest. split; [reflexivity|split; [reflexivity|]]. apply W. reflexivity.
Qed.

Definition threads_raising_stmt (cfg : config) (pre : list rop) (progs : list (list op)) (sched : list nat) (i : nat) : Prop :=
  let st := rrun cfg pre in
  let cfg' := fst st in
  let ts := trun cfg' (mkT (snd st) progs) sched in
  let ts' := fst (tstep cfg' ts i) in
  snd (tstep cfg' ts i) = CRet RRaised ->
    t_cs ts' = t_cs ts /\
    (exists o rest, nth i (t_progs ts) [] = o :: rest /\ t_progs ts' = set_nth i rest (t_progs ts) /\
                    (o = DigestBad \/ (o = Autophagy /\ sweepable cfg' (c_base (t_cs ts)) = false))) /\
    (forall j, busy ts' j = true ->
       snd (tstep cfg' ts' j) <> CBad /\ (work (fst (tstep cfg' ts' j)) < work ts')%nat).

Lemma threads_raising_proof : forall cfg pre progs sched i, threads_raising_stmt cfg pre progs sched i.
Proof.
  intros cfg pre progs sched i. unfold threads_raising_stmt. cbv zeta. intros H.
  destruct (tstep_raised _ _ _ H) as [E X]. split; [exact E|split; [exact X|]].
  intros j B.
  pose proof (threads_return_proof cfg pre progs (sched ++ [i])) as T.
  unfold threads_return_stmt in T. cbv zeta in T. rewrite trun_snoc in T.
  destruct T as (T1 & _). apply T1. exact B.
Qed.

(* ====================================================================== *)
(* Part 2: a call is a finite program with one critical section             *)

Open Scope nat_scope.

(* when the unfolding of m fits in the fuel, more fuel changes nothing: the
   compiled program is THE program of the call, not a truncation of it *)
Lemma fits_stable : forall g f m, fits g f m = true ->
  forall f', f <= f' -> compile g f' m = compile g f m.
Proof.
  intros g. induction f as [|f IH]; intros m H f' L; cbn [fits] in H; [discriminate|].
  destruct f' as [|f']; [lia|]. cbn [compile].
  destruct (lookup g m) as [mi|]; [|reflexivity].
  rewrite forallb_forall in H.
  assert (E : forall l, (forall c, In c l -> In c (all_calls mi)) ->
                        flat_map (compile g f') l = flat_map (compile g f) l).
  { induction l as [|a l IHl]; intros Sub; cbn [flat_map]; [reflexivity|].
    rewrite IHl by (intros c Hc; apply Sub; right; exact Hc).
    rewrite (IH a); [reflexivity| |lia]. apply H, Sub. left; reflexivity. }
  destruct (acquires mi).
  - rewrite (E (m_calls_locked mi)), (E (m_calls_unlocked mi)); [reflexivity| |];
      intros c Hc; unfold all_calls; apply in_or_app; auto.
  - rewrite (E (all_calls mi)); auto.
Qed.

Lemma bounded_calls_stable : forall g, bounded_calls g = true ->
  forall mi fuel, In mi g -> S (List.length g) <= fuel ->
    m_loops mi = [] /\ compile g fuel (m_name mi) = compile g (S (List.length g)) (m_name mi).
Proof.
  intros g H mi fuel Hin L. unfold bounded_calls in H. rewrite forallb_forall in H.
  specialize (H mi Hin). apply andb_true_iff in H. destruct H as [H1 H2].
  split.
  - destruct (m_loops mi); [reflexivity|discriminate].
  - apply fits_stable; assumption.
Qed.

(* inside a critical section nothing counts as an outermost section, and a
   compiled call gives the lock back *)
Lemma osec_inner_flat_map : forall (F : string -> list instr) l,
  (forall x d q, osec (S d) (F x ++ q) = osec (S d) q) ->
  forall d q, osec (S d) (flat_map F l ++ q) = osec (S d) q.
Proof.
  intros F. induction l as [|x l IH]; intros H d q; cbn [flat_map app]; [reflexivity|].
  rewrite <- app_assoc, H. apply IH; exact H.
Qed.

Lemma osec_inner : forall g fuel m d q, osec (S d) (compile g fuel m ++ q) = osec (S d) q.
Proof.
  intros g. induction fuel as [|f IH]; intros m d q; cbn [compile]; [reflexivity|].
  destruct (lookup g m) as [mi|]; [|reflexivity].
  destruct (acquires mi).
  - cbn [app osec]. rewrite <- app_assoc.
    rewrite (osec_inner_flat_map (compile g f) _ (fun x => IH x)). cbn [app osec Nat.pred].
    apply (osec_inner_flat_map (compile g f) _ (fun x => IH x)).
  - cbn [app osec]. apply (osec_inner_flat_map (compile g f) _ (fun x => IH x)).
Qed.

Lemma osec_outer_flat_map : forall (F : string -> list instr) (c : string -> nat) l,
  (forall x q, osec 0 (F x ++ q) = c x + osec 0 q) ->
  forall q, osec 0 (flat_map F l ++ q) = list_sum (map c l) + osec 0 q.
Proof.
  intros F c. induction l as [|x l IH]; intros H q; cbn [flat_map app map]; rewrite ?list_sum_cons; [reflexivity|].
  rewrite <- app_assoc, H, IH by exact H. lia.
Qed.

(* the outermost critical sections of the compiled call are the ones counted on the graph *)
Lemma osec_compile : forall g fuel m q, osec 0 (compile g fuel m ++ q) = secs g fuel m + osec 0 q.
Proof.
  intros g. induction fuel as [|f IH]; intros m q; cbn [compile secs]; [reflexivity|].
  destruct (lookup g m) as [mi|]; [|reflexivity].
  destruct (acquires mi).
  - cbn [app osec]. rewrite <- app_assoc.
    rewrite (osec_inner_flat_map (compile g f) _ (fun x => osec_inner g f x)). cbn [app osec Nat.pred].
    rewrite (osec_outer_flat_map (compile g f) (secs g f) _ (fun x => IH x)). lia.
  - cbn [app osec].
    apply (osec_outer_flat_map (compile g f) (secs g f) _ (fun x => IH x)).
Qed.

Lemma atomic_calls_one_section : forall g, atomic_calls g = true ->
  forall mi, In mi g ->
    osec 0 (compile g (S (List.length g)) (m_name mi)) <= 1 /\
    (m_sections mi <= 1)%Z /\
    (m_qwrites_unlocked mi = true -> lock_context_only g (m_name mi) = true).
Proof.
  intros g H mi Hin. unfold atomic_calls in H. rewrite forallb_forall in H.
  specialize (H mi Hin). apply andb_true_iff in H. destruct H as [H H3].
  apply andb_true_iff in H. destruct H as [H1 H2].
  split; [|split].
  - rewrite <- (app_nil_r (compile _ _ _)), osec_compile. cbn [osec].
    apply Nat.leb_le in H2. lia.
  - lia.
  - intros W. rewrite W in H3. cbn [negb orb] in H3. exact H3.
Qed.

(* both checks together: for every fuel that is enough, the program of a call
   of any method of the class is the same finite instruction list, no method
   has an unbounded loop, and the program has at most one outermost critical
   section *)
Lemma finite_atomic_calls : forall g, bounded_calls g && atomic_calls g = true ->
  forall mi fuel, In mi g -> S (List.length g) <= fuel ->
    m_loops mi = [] /\
    compile g fuel (m_name mi) = compile g (S (List.length g)) (m_name mi) /\
    osec 0 (compile g fuel (m_name mi)) <= 1.
Proof.
  intros g H mi fuel Hin L. apply andb_true_iff in H. destruct H as [Hb Ha].
  destruct (bounded_calls_stable g Hb mi fuel Hin L) as [E1 E2].
  split; [exact E1|split; [exact E2|]]. rewrite E2.
  apply (atomic_calls_one_section g Ha mi Hin).
Qed.

(* ---- the lock machine stops -------------------------------------------- *)

Lemma sum_upd_out : forall (f : nat -> list instr) i c N a, i < a ->
  list_sum (map (fun j => List.length (upd f i c j)) (seq a N)) =
  list_sum (map (fun j => List.length (f j)) (seq a N)).
Proof.
  intros f i c. induction N as [|N IH]; intros a L; cbn [seq map]; rewrite ?list_sum_cons; [reflexivity|].
  rewrite IH by lia. rewrite upd_other by lia. reflexivity.
Qed.

Lemma sum_upd_in : forall (f : nat -> list instr) i x rest, f i = x :: rest ->
  forall N a, a <= i < a + N ->
  list_sum (map (fun j => List.length (upd f i rest j)) (seq a N)) + 1 =
  list_sum (map (fun j => List.length (f j)) (seq a N)).
Proof.
  intros f i x rest Hi. induction N as [|N IH]; intros a L; [lia|].
  cbn [seq map]; rewrite !list_sum_cons. destruct (Nat.eq_dec a i) as [->|Ne].
  - rewrite upd_same, Hi, sum_upd_out by lia. cbn [List.length]. lia.
  - rewrite upd_other by lia. specialize (IH (S a) ltac:(lia)). lia.
Qed.

Definition idle_above (N : nat) (m : mstate) : Prop := forall i, N <= i -> m_code m i = [].

Lemma mstep_code_left : forall k N m m',
  idle_above N m -> mstep k m m' -> code_left N m' + 1 = code_left N m /\ idle_above N m'.
Proof.
  intros k N m m' Id St.
  assert (G : forall f i x rest o c o' c', m = mkMS f o c -> m' = mkMS (upd f i rest) o' c' -> f i = x :: rest ->
              code_left N m' + 1 = code_left N m /\ idle_above N m').
  { intros f i x rest o c o' c' -> -> Hi.
    assert (Li : i < N).
    { destruct (Nat.lt_ge_cases i N) as [Lt|Ge]; [exact Lt|].
      specialize (Id i Ge). cbn [m_code] in Id. rewrite Id in Hi. discriminate. }
    split.
    - unfold code_left. cbn [m_code]. apply (sum_upd_in f i x rest Hi N 0). lia.
    - intros j Hj. cbn [m_code]. rewrite upd_other by lia. apply (Id j Hj). }
  inversion St; subst; eapply G; try reflexivity; eassumption.
Qed.

Lemma machine_steps_bounded : forall k N n m0 m,
  idle_above N m0 -> msteps k n m0 m -> n + code_left N m = code_left N m0 /\ idle_above N m.
Proof.
  intros k N n m0 m Id R. induction R as [m|n m m' m'' R IH St].
  - split; [reflexivity|exact Id].
  - destruct (IH Id) as [E I']. destruct (mstep_code_left k N m' m'' I' St) as [E2 I2].
    split; [lia|exact I2].
Qed.

(* with finitely many threads every run of the machine is at most as long as
   the programs together, and - by progress - ends with every thread finished *)
Lemma lock_machine_terminates : forall k (progs : nat -> list instr) N,
  (forall i, N <= i -> progs i = []) ->
  forall n m, msteps k n (minit progs) m ->
    n + code_left N m = code_left N (minit progs) /\
    (code_left N m = 0 -> forall i, m_code m i = []).
Proof.
  intros k progs N Id n m R.
  assert (Id0 : idle_above N (minit progs)) by (intros i Hi; cbn [minit m_code]; apply Id; exact Hi).
  destruct (machine_steps_bounded k N n _ m Id0 R) as [E I]. split; [exact E|].
  intros Z i. destruct (Nat.lt_ge_cases i N) as [Lt|Ge]; [|apply I; exact Ge].
  unfold code_left in Z.
  assert (G : forall l, list_sum (map (fun j => List.length (m_code m j)) l) = 0 -> forall j, In j l -> m_code m j = []).
  { induction l as [|a l IHl]; intros H j Hj; [contradiction|]. cbn [map] in H; rewrite list_sum_cons in H.
    destruct Hj as [<-|Hj]; [destruct (m_code m a); [reflexivity|cbn [List.length] in H; lia]|apply IHl; [lia|exact Hj]]. }
  apply (G _ Z). apply in_seq. lia.
Qed.
