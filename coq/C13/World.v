(* C13 — lemmas for Part 1e of Model.v (several lysosomes in one program, built
   from one caller-owned digesters mapping, on one clock).  Property.v closes
   its c13_world_* theorems on these by [exact]. *)
From Coq Require Import ZArith List Bool Lia Permutation Arith.
From Coq Require Import ZifyBool.
From Verif Require Import C13.Model C13.Proofs C13.Threads.
Import ListNotations.
Open Scope Z_scope.

(* ---- set_nth ----------------------------------------------------------- *)

Lemma set_nth_same {A} : forall (l : list A) i x y,
  nth_error l i = Some y -> nth_error (set_nth i x l) i = Some x.
Proof.
  induction l as [|a l IH]; intros i x y H; destruct i; cbn in *; try discriminate.
  - reflexivity.
  - eapply IH; exact H.
Qed.

Lemma set_nth_other {A} : forall (l : list A) i j x,
  i <> j -> nth_error (set_nth i x l) j = nth_error l j.
Proof.
  induction l as [|a l IH]; intros i j x H; destruct i; destruct j; cbn; try reflexivity.
  - congruence.
  - apply IH. congruence.
Qed.

Lemma set_nth_length {A} : forall (l : list A) i x, List.length (set_nth i x l) = List.length l.
Proof. induction l as [|a l IH]; intros i x; destruct i; cbn; try reflexivity. rewrite IH. reflexivity. Qed.

Lemma Forall_set_nth {A} (P : A -> Prop) : forall (l : list A) i x,
  Forall P l -> P x -> Forall P (set_nth i x l).
Proof.
  induction l as [|a l IH]; intros i x H Hx; destruct i; cbn; try constructor.
  - exact Hx.
  - inversion H; assumption.
  - inversion H; assumption.
  - inversion H; subst. apply IH; assumption.
Qed.

(* ---- an object of a world lives the history addressed to it ------------- *)

Lemma rrun_from_cons : forall cfg cs o ops,
  rrun_from cfg cs (o :: ops) =
  rrun_from (fst (obj_step (cfg, cs) o)) (snd (obj_step (cfg, cs) o)) ops.
Proof.
  intros cfg cs o ops. unfold rrun_from, obj_step. cbn [fold_left fst snd].
  destruct (rstep cfg cs o) as [[c1 s1] r]. reflexivity.
Qed.

Lemma wrun_from_cons : forall w o ops, wrun_from w (o :: ops) = wrun_from (fst (wstep w o)) ops.
Proof. reflexivity. Qed.

(* From the moment an object exists: whatever the world does afterwards - calls
   on it, calls on the others, further objects built from the same mapping, the
   clock - its configuration and state are those of the single-object history
   [wproj j ops]: the calls addressed to it (and the clock), in order. *)
Lemma world_proj : forall ops w j p,
  nth_error (w_objs w) j = Some p ->
  nth_error (w_objs (wrun_from w ops)) j = Some (rrun_from (fst p) (snd p) (wproj j ops)).
Proof.
  induction ops as [|o ops IH]; intros w j p H.
  - cbn. rewrite H. destruct p; reflexivity.
  - rewrite wrun_from_cons. destruct o as [cfg|i o'|d].
    + cbn [wstep fst wproj]. apply IH. cbn [w_objs].
      rewrite nth_error_app1; [exact H|]. apply nth_error_Some. congruence.
    + cbn [wstep wproj]. destruct (nth_error (w_objs w) i) as [q|] eqn:E.
      * cbn [fst]. destruct (Nat.eqb i j) eqn:Eij.
        -- apply Nat.eqb_eq in Eij. subst i. rewrite H in E. inversion E; subst q.
           destruct p as [cfg cs]. cbn [fst snd]. rewrite rrun_from_cons.
           apply IH. cbn [w_objs]. eapply set_nth_same. exact H.
        -- apply Nat.eqb_neq in Eij. apply IH. cbn [w_objs].
           rewrite set_nth_other; [exact H|exact Eij].
      * cbn [fst]. destruct (Nat.eqb i j) eqn:Eij.
        -- apply Nat.eqb_eq in Eij. subst i. congruence.
        -- apply IH. exact H.
    + cbn [wstep fst wproj]. destruct p as [cfg cs]. cbn [fst snd]. rewrite rrun_from_cons.
      apply IH. cbn [w_objs]. apply (map_nth_error (fun p => obj_step p (tick d))). exact H.
Qed.

(* a new object is fresh, whatever the world was *)
Lemma world_new_fresh : forall w cfg,
  nth_error (w_objs (fst (wstep w (WNew cfg)))) (List.length (w_objs w)) = Some (cfg, cinit) /\
  forall j, (j < List.length (w_objs w))%nat ->
    nth_error (w_objs (fst (wstep w (WNew cfg)))) j = nth_error (w_objs w) j.
Proof.
  intros w cfg. cbn [wstep fst w_objs]. split.
  - rewrite nth_error_app2 by lia. rewrite Nat.sub_diag. reflexivity.
  - intros j Hj. apply nth_error_app1. exact Hj.
Qed.

(* a call on one lysosome changes no other lysosome, and nothing changes the
   caller's mapping *)
Lemma world_frame : forall w j o i,
  i <> j -> nth_error (w_objs (fst (wstep w (WOn j o)))) i = nth_error (w_objs w) i.
Proof.
  intros w j o i H. cbn [wstep]. destruct (nth_error (w_objs w) j) as [q|]; cbn [fst w_objs].
  - apply set_nth_other. congruence.
  - reflexivity.
Qed.

Lemma wstep_map : forall w o, w_map (fst (wstep w o)) = w_map w.
Proof.
  intros w o. destruct o as [cfg|j o'|d]; cbn [wstep]; try reflexivity.
  destruct (nth_error (w_objs w) j); reflexivity.
Qed.

Lemma world_mapping_untouched : forall ops w, w_map (wrun_from w ops) = w_map w.
Proof.
  induction ops as [|o ops IH]; intros w; [reflexivity|].
  rewrite wrun_from_cons, IH. apply wstep_map.
Qed.

Lemma wstep_total : forall w o, exists w' r, wstep w o = (w', r).
Proof. intros w o. destruct (wstep w o) as [w' r]. eauto. Qed.

(* ---- every object of every world satisfies the single-object statements -- *)

Definition obj_ok (p : config * cstate) : Prop :=
  CInv (fst p) (snd p) /\
  (2 <= max_queue (fst p) -> qlen (c_base (snd p)) <= max_queue (fst p)).

Lemma obj_step_ok : forall p o, obj_ok p -> obj_ok (obj_step p o).
Proof.
  intros [cfg cs] o [I B]. unfold obj_step. cbn [fst snd] in *.
  pose proof (rstep_inv cfg cs o I) as I1. pose proof (rstep_shape cfg cs o) as (S1 & _).
  pose proof (rstep_bounded cfg cs o) as B1.
  destruct (rstep cfg cs o) as [[cfg1 cs1] r]. cbn [fst snd] in *.
  split; [exact I1|]. cbn [fst snd]. intros Hmax. rewrite S1 in Hmax. rewrite S1. apply B1; auto.
Qed.

Lemma fresh_ok : forall cfg, obj_ok (cfg, cinit).
Proof.
  intros cfg. split; cbn [fst snd]; [apply cinit_inv|]. intros H. unfold qlen. cbn. lia.
Qed.

Lemma wstep_ok : forall w o, Forall obj_ok (w_objs w) -> Forall obj_ok (w_objs (fst (wstep w o))).
Proof.
  intros w o H. destruct o as [cfg|j o'|d]; cbn [wstep].
  - cbn [fst w_objs]. apply Forall_app. split; [exact H|]. constructor; [apply fresh_ok|constructor].
  - destruct (nth_error (w_objs w) j) as [q|] eqn:E; cbn [fst w_objs]; [|exact H].
    apply Forall_set_nth; [exact H|]. apply obj_step_ok.
    rewrite Forall_forall in H. apply H. eapply nth_error_In. exact E.
  - cbn [fst w_objs]. rewrite Forall_forall in *. intros x Hx. apply in_map_iff in Hx.
    destruct Hx as (q & <- & Hq). apply obj_step_ok. apply H. exact Hq.
Qed.

Lemma wrun_from_ok : forall ops w, Forall obj_ok (w_objs w) -> Forall obj_ok (w_objs (wrun_from w ops)).
Proof.
  induction ops as [|o ops IH]; intros w H; [exact H|].
  rewrite wrun_from_cons. apply IH. apply wstep_ok. exact H.
Qed.

Definition world_objects_stmt (m : list Z) (ops : list wop) : Prop :=
  forall cfg cs, In (cfg, cs) (w_objs (wrun m ops)) ->
    (2 <= max_queue cfg -> Z.of_nat (List.length (queue (c_base cs))) <= max_queue cfg) /\
    overlap_conservation_cs cfg cs /\ reported_once_cs cs /\ results_cs cfg cs /\ overlap_toxic_cs cfg cs.

Lemma world_objects_proof : forall m ops, world_objects_stmt m ops.
Proof.
  intros m ops cfg cs Hin.
  assert (Forall obj_ok (w_objs (wrun m ops))) as F.
  { unfold wrun. apply wrun_from_ok. cbn. constructor. }
  rewrite Forall_forall in F. destruct (F _ Hin) as [I B]. cbn [fst snd] in *.
  split; [exact B|]. split; [apply overlap_conservation_of_inv; exact I|].
  split; [apply (reported_once_of_inv cfg); exact I|].
  split; [apply results_of_inv; exact I|apply overlap_toxic_of_inv; exact I].
Qed.

(* ... and it is exactly the history addressed to it: for a history that first
   builds the objects [cfgs] and then does anything (further objects included) *)
Lemma wrun_news : forall cfgs w,
  w_objs (wrun_from w (map WNew cfgs)) = w_objs w ++ map (fun c => (c, cinit)) cfgs.
Proof.
  induction cfgs as [|c cfgs IH]; intros w; cbn [map].
  - cbn. rewrite app_nil_r. reflexivity.
  - rewrite wrun_from_cons, IH. cbn [wstep fst w_objs]. rewrite <- app_assoc. reflexivity.
Qed.

Lemma wrun_from_app : forall a b w, wrun_from w (a ++ b) = wrun_from (wrun_from w a) b.
Proof. intros a b w. unfold wrun_from. apply fold_left_app. Qed.

Lemma world_independent : forall m cfgs ops j cfg,
  nth_error cfgs j = Some cfg ->
  nth_error (w_objs (wrun m (map WNew cfgs ++ ops))) j = Some (rrun cfg (wproj j ops)).
Proof.
  intros m cfgs ops j cfg H. unfold wrun. rewrite wrun_from_app.
  rewrite (world_proj ops _ j (cfg, cinit)); [reflexivity|].
  rewrite wrun_news. cbn [w_objs app]. apply (map_nth_error (fun c => (c, cinit))). exact H.
Qed.
