(* C13 — non-vacuity examples, the instantiation of the lock-discipline theorem
   on the generated call graph, and the refutation of the pre-repair lock. *)
From Coq Require Import ZArith List Bool String Lia.
From Verif Require Import C13.Model C13.Proofs C13.Threads C13.World C13.Reentry gen.Gen_C13.
Import ListNotations.
Open Scope Z_scope.

(* ---- sequential model ------------------------------------------------- *)

(* capacity 2, threshold out of reach: the third ingest runs the emergency
   digest (one item counted), the fourth again; the bound is attained *)
Definition cfg_cap := mkConfig 2 9 (Some 2) true.
Example ex_bounded_at_capacity :
  let s := run cfg_cap [Ingest Misfolded 0 (Ok [1]); Ingest Orphaned 0 Raises;
                        Ingest ExpiredCache 0 (Ok []); IngestError (Ok [2])] in
  qlen s = 2 /\ nfate EmergOk s = 1 /\ nfate EmergFail s = 1 /\ n_ingested s = 4 /\ bin s = [].
Proof. vm_compute. auto 12. Qed.

(* the hypothesis max_queue_size >= 2 of c13_queue_bounded is needed: with
   capacity 1 the emergency digest processes 1 // 2 = 0 items *)
Example bound_fails_at_1 :
  exists ops, qlen (run (mkConfig 1 9 (Some 2) true) ops) > 1.
Proof. exists [Ingest Misfolded 0 (Ok []); Ingest Misfolded 0 (Ok [])]. vm_compute. reflexivity. Qed.

(* a history in which every fate occurs and something is still queued *)
Definition ops_all : list op :=
  [ Ingest Misfolded 0 (Ok [1]); Ingest Orphaned 0 Raises;        (* ids 0 1 *)
    Ingest ExpiredCache 0 (Ok []);                                (* 2: emergency takes 0 (ok) *)
    Ingest FailedOp 0 (Ok [3]);                                   (* 3: emergency takes 1 (raises) *)
    DigestOp (Some 1);                                            (* digests 2 *)
    IngestSensitive Raises;                                       (* 4 *)
    DigestOp None;                                                (* 3 digested, 4 reported *)
    Ingest Misfolded 0 (Ok [7]); Advance 5; Autophagy;            (* 5 expires *)
    IngestSensitive (Ok []); Ingest Misfolded 0 (Ok [1]) ].       (* 6 7 queued *)
Example ex_all_fates :
  let s := run cfg_cap ops_all in
  ids (queue s) = [6; 7] /\
  (nfate Digested s, nfate Reported s, nfate EmergOk s, nfate EmergFail s, nfate Expired s)
    = (2, 1, 1, 1, 1) /\
  n_ingested s = 8 /\ n_digested s = 3 /\ bin s = [(3, 3)] /\ toxlog s = [4].
Proof. vm_compute. auto 12. Qed.

(* auto-digest at the threshold (the call that used to hang): threshold 2, the
   second ingest digests 2 // 2 = 1 item; a raising digester there is the
   AutoDiscarded fate nobody is told about *)
Example ex_auto_digest :
  let s := run (mkConfig 8 2 (Some 2) true) [Ingest Misfolded 0 Raises; IngestSensitive (Ok [])] in
  ids (queue s) = [1] /\ nfate AutoDiscarded s = 1 /\ n_digested s = 0 /\ n_ingested s = 2.
Proof. vm_compute. auto 12. Qed.

(* threshold 1: len // 2 = 0 means "all" *)
Example ex_threshold_one :
  let s := run (mkConfig 4 1 (Some 2) true) [IngestSensitive (Ok [])] in
  queue s = [] /\ n_digested s = 1 /\ toxlog s = [0].
Proof. vm_compute. auto 12. Qed.

(* hypotheses of c13_toxic_never_recycled / c13_toxic_callback_at_most_once are
   satisfiable: a bin entry, a toxic item digested (logged once), a toxic item
   expired (never logged) *)
Example ex_toxic :
  let s := run (mkConfig 8 9 (Some 1) true)
               [IngestSensitive (Ok []); Ingest Misfolded 0 (Ok [5]); DigestOp None;
                IngestSensitive (Ok []); Advance 1; Autophagy] in
  In (5, 1) (bin s) /\
  In (mkItem 0 Toxic (At 0) (Ok []), Digested) (g_fates s) /\
  In (mkItem 2 Toxic (At 0) (Ok []), Expired) (g_fates s) /\
  toxlog s = [0].
Proof. vm_compute. auto 12. Qed.

(* clear_recycling_bin() empties the bin and nothing else: the counters, the
   queue and the fates are as they were; a later digest fills the bin again *)
Example ex_clear_bin :
  let ops := [Ingest Misfolded 0 (Ok [5]); IngestSensitive (Ok []); DigestOp (Some 1)] in
  let s0 := run (mkConfig 8 9 (Some 1) true) ops in
  let s1 := run (mkConfig 8 9 (Some 1) true) (ops ++ [ClearBin]) in
  let s2 := run (mkConfig 8 9 (Some 1) true) (ops ++ [ClearBin; Ingest Orphaned 0 (Ok [5; 6]); DigestOp None]) in
  bin s0 = [(5, 0)] /\ bin s1 = [] /\ queue s1 = queue s0 /\ g_fates s1 = g_fates s0 /\
  (n_ingested s1, n_digested s1, n_recycled s1) = (2, 1, 1) /\
  bin s2 = [(5, 2); (6, 2)] /\ toxlog s2 = [1].
Proof. vm_compute. auto 12. Qed.

(* ---- error paths ------------------------------------------------------- *)

(* an item with a timezone-aware (or non-datetime) created_at is queued between
   two ordinary ones: autophagy() raises - and so does digest(1.5) - leaving
   the object exactly as it was; the caller digests the odd item away and the
   next sweep works (the sensitive item expires: never logged) *)
Example ex_error_paths :
  let cfg := mkConfig 8 9 (Some 1) true in
  let ops := [Ingest Misfolded 0 (Ok [1]); IngestOdd ExpiredCache (Ok []); IngestSensitive (Ok [])] in
  let s := run cfg ops in
  step cfg s Autophagy = (s, RRaised) /\ step cfg s DigestBad = (s, RRaised) /\
  sweepable cfg s = false /\ ids (queue s) = [0; 1; 2] /\
  let s2 := run cfg (ops ++ [Autophagy; DigestBad; Advance 2; Autophagy; DigestOp (Some 2)]) in
  ids (queue s2) = [2] /\ sweepable cfg s2 = true /\ step cfg s2 Autophagy <> (s2, RRaised) /\
  let s3 := run cfg (ops ++ [Autophagy; DigestBad; Advance 2; Autophagy; DigestOp (Some 2); Autophagy]) in
  queue s3 = [] /\ nfate Expired s3 = 1 /\ nfate Digested s3 = 2 /\ n_ingested s3 = 3 /\ toxlog s3 = [] /\
  bin s3 = [(1, 0)].
Proof. vm_compute. repeat split; try reflexivity; discriminate. Qed.

(* retention_period assigned something that is not a timedelta on the live
   object: autophagy() raises as soon as an item is queued (not on the empty
   queue: nothing is compared); assigned a timedelta again, the sweep works *)
Example ex_retention_not_a_timedelta :
  let cfg := mkConfig 8 9 (Some 1) true in
  let st := rrun cfg [ROp (Atomic (IngestError (Ok []))); SetRet None] in
  retention (fst st) = None /\ auto_thr (fst st) = 9 /\
  snd (rstep (fst st) (snd st) (ROp (Atomic Autophagy))) = CRet RRaised /\
  snd (fst (rstep (fst st) (snd st) (ROp (Atomic Autophagy)))) = snd st /\
  snd (rstep (set_ret cfg None) cinit (ROp (Atomic Autophagy))) = CRet (RRemoved 0) /\
  snd (rstep (set_ret (fst st) (Some 0)) (snd st) (ROp (Atomic Autophagy))) = CRet (RRemoved 1).
Proof. vm_compute. auto 12. Qed.

(* two threads, both of which make calls that raise (hypothesis of
   c13_threads_after_a_raising_call): thread 0's autophagy() raises over the odd
   item, then thread 1's digest(1.5) raises, then thread 1 digests the item,
   sweeps (nothing to compare any more) and thread 0 ingests: everything returns *)
Example ex_threads_raising :
  let cfg := mkConfig 4 9 (Some 1) true in
  let ts0 := mkT (crun cfg [Atomic (IngestOdd Orphaned (Ok [2]))])
                 [[Autophagy; IngestError (Ok [])]; [DigestBad; DigestOp None; Autophagy]] in
  let ts1 := fst (tstep cfg ts0 0) in
  snd (tstep cfg ts0 0) = CRet RRaised /\ t_cs ts1 = t_cs ts0 /\
  busy ts1 1 = true /\ busy ts1 0 = true /\ snd (tstep cfg ts1 1) = CRet RRaised /\
  snd (tstep cfg (trun cfg ts0 [0; 1; 1; 1]%nat) 1) = CRet (RRemoved 0) /\
  let ts := trun cfg ts0 [0; 1; 1; 1; 1; 0]%nat in
  all_done ts = true /\ work ts = 1%nat (* the item left in the queue *) /\ ids (queue (c_base (t_cs ts))) = [1] /\
  bin (c_base (t_cs ts)) = [(2, 0)].
Proof. vm_compute. auto 12. Qed.

(* ---- overlapping digest calls ------------------------------------------ *)

Definition cfg_free := mkConfig 8 9 (Some 2) true.

(* thread 0 digests [0; 1] (both digesters raise); while it is inside the
   digester of item 1 another thread runs a complete digest() on the empty
   queue.  Each call reports its own items: ([], no errors) and ([0;1], errors
   1 and 0); nothing is in flight at the end. *)
Example ex_overlap_other_digest_in_between :
  let cs := crun cfg_free [Atomic (IngestError Raises); Atomic (IngestError Raises);
                           PassBegin 0 None; PassStep 0; Atomic (DigestOp None); PassStep 0] in
  c_open cs = [] /\ inflight cs = [] /\
  map (fun d => (ids (fst d), d_disposed (snd d), d_errors (snd d))) (c_done cs)
    = [([0; 1], 0, [1; 0]); ([], 0, [])] /\
  reported_ids cs = [1; 0] /\ ids (with_fate Reported (c_base cs)) = [1; 0] /\
  n_ingested (c_base cs) = 2 /\ nfate Reported (c_base cs) = 2.
Proof. vm_compute. auto 12. Qed.

(* two calls in progress at once, an ingest in between, results returned in
   the other order: thread 1's result lists item 2 only, thread 0's items 0
   and 1 - every failure in exactly one result *)
Example ex_overlap_two_calls_in_progress :
  let mid := crun cfg_free [Atomic (IngestError Raises); Atomic (Ingest Misfolded 0 (Ok [4]));
                            PassBegin 0 None; Atomic (Ingest Orphaned 0 Raises); PassBegin 1 None;
                            PassStep 0] in
  let cs := crun_from cfg_free mid [PassStep 1; PassStep 0] in
  (* in the middle: item 0 reported by the call in progress, items 1 and 2 in flight *)
  ids (inflight mid) = [2; 1] /\ reported_ids mid = [0] /\ List.length (c_open mid) = 2%nat /\
  qlen (c_base mid) = 0 /\ n_ingested (c_base mid) = 3 /\ nfate Reported (c_base mid) = 1 /\
  (* at the end *)
  c_open cs = [] /\
  map (fun d => (ids (fst d), d_disposed (snd d), d_errors (snd d))) (c_done cs)
    = [([0; 1], 1, [0]); ([2], 0, [2])] /\
  bin (c_base cs) = [(4, 1)] /\ n_digested (c_base cs) = 1.
Proof. vm_compute. auto 20. Qed.

(* a sensitive item handed to on_toxic by a digest call that overlaps an
   ingest reaching the auto-digest threshold (whose own digest pass fails
   silently): logged once, nothing recycled from it *)
Example ex_overlap_toxic_and_auto_digest :
  let cs := crun (mkConfig 8 2 (Some 2) true)
                 [Atomic (IngestSensitive (Ok [])); PassBegin 0 None;
                  Atomic (Ingest Misfolded 0 Raises); Atomic (Ingest Misfolded 0 (Ok [1]));
                  PassStep 0] in
  toxlog (c_base cs) = [0] /\ ids (queue (c_base cs)) = [2] /\
  nfate AutoDiscarded (c_base cs) = 1 /\ nfate Digested (c_base cs) = 1 /\ bin (c_base cs) = [] /\
  In (mkItem 0 Toxic (At 0) (Ok []), Digested) (g_fates (c_base cs)).
Proof. vm_compute. auto 12. Qed.

(* a label in use / a step of a pass that does not exist are not calls *)
Example ex_overlap_bad_labels :
  snd (cstep cfg_free cinit (PassStep 3)) = CBad /\
  snd (cstep cfg_free (crun cfg_free [Atomic (IngestError Raises); PassBegin 0 None]) (PassBegin 0 None)) = CBad /\
  snd (cstep cfg_free cinit (PassBegin 0 None)) = CRet (RDigest dres0).
Proof. vm_compute. auto. Qed.

(* ---- threads ----------------------------------------------------------- *)

(* two threads on a full queue (capacity 2, threshold out of reach): thread 0
   ingests (emergency digest of the oldest item, then the append), thread 1
   ingests a sensitive item and then digests everything; whatever the
   schedule, the bound holds after every step.  Here: 0, 1, 1, 1, 1 - thread 1
   takes both items and hands them to their digesters one by one *)
Definition thr_pre : list cop := [Atomic (Ingest Misfolded 0 (Ok [1])); Atomic (Ingest Orphaned 0 Raises)].
Definition thr_progs : list (list op) :=
  [[Ingest FailedOp 0 (Ok [2])]; [IngestSensitive (Ok []); DigestOp None]].
Example ex_threads_capacity :
  let ts0 := mkT (crun cfg_cap thr_pre) thr_progs in
  let mid := trun cfg_cap ts0 [0; 1; 1]%nat in
  let ts := trun cfg_cap ts0 [0; 1; 1; 1; 1; 0]%nat in
  (* after the two ingests: the queue is full again, two items were emergency-processed *)
  qlen (c_base (t_cs (trun cfg_cap ts0 [0; 1]%nat))) = 2 /\
  (* thread 1 is inside digest(): both items in flight, it is busy, thread 0 is not *)
  ids (inflight (t_cs mid)) = [2; 3] /\ busy mid 1 = true /\ busy mid 0 = false /\ work mid = 2%nat /\
  (* at the end *)
  all_done ts = true /\ work ts = 0%nat /\ work ts0 = 7%nat /\
  real_steps cfg_cap ts0 [0; 1; 1; 1; 1; 0]%nat = 5%nat /\
  n_ingested (c_base (t_cs ts)) = 4 /\ toxlog (c_base (t_cs ts)) = [3] /\
  nfate EmergOk (c_base (t_cs ts)) = 1 /\ nfate EmergFail (c_base (t_cs ts)) = 1 /\
  nfate Digested (c_base (t_cs ts)) = 2.
Proof. vm_compute. auto 20. Qed.

(* the other order of the two ingests gives other ids to the items - the
   schedule matters - and the same bound *)
Example ex_threads_other_schedule :
  let ts0 := mkT (crun cfg_cap thr_pre) thr_progs in
  ids (queue (c_base (t_cs (trun cfg_cap ts0 [1; 0]%nat)))) = [2; 3] /\
  it_type (nth 0 (queue (c_base (t_cs (trun cfg_cap ts0 [1; 0]%nat)))) (mkItem 0 Misfolded (At 0) Raises)) = Toxic /\
  it_type (nth 0 (queue (c_base (t_cs (trun cfg_cap ts0 [0; 1]%nat)))) (mkItem 0 Misfolded (At 0) Raises)) = FailedOp.
Proof. vm_compute. auto. Qed.

(* what run_case prints for such a run (the rows the harness compares with
   the real threads): one row per scheduled step, then the quiescent state *)
Example ex_threads_run_case :
  List.length (run_case (cfg_cap, map ROp thr_pre, thr_progs, [0; 1; 1; 1; 1], ([], []), ([], []))) = 7%nat /\
  nth 1 (run_case (cfg_cap, map ROp thr_pre, thr_progs, [0; 1; 1; 1; 1], ([], []), ([], []))) [] = [0; 0; 2; 3; 1; 0; 1; 1; 0; 1; 2].
Proof. vm_compute. auto. Qed.

(* ---- several lysosomes built from one digesters mapping ----------------- *)

(* two lysosomes built from the same mapping (custom digesters for types 0-3),
   a third one built in the middle of the history; each gets a sensitive item
   and digests it (the third one: emergency digest at capacity 2): every
   on_toxic log holds the object's OWN item, once; the objects number their
   items independently; the mapping is what it was *)
Definition cfg_w := mkConfig 4 9 (Some 2) true.
Definition world_ops : list wop :=
  [ WNew cfg_w; WNew cfg_w;
    WOn 0 (ROp (Atomic (IngestSensitive (Ok [])))); WOn 0 (ROp (Atomic (DigestOp None)));
    WOn 1 (ROp (Atomic (Ingest Misfolded 0 (Ok [1])))); WOn 1 (ROp (Atomic (IngestSensitive (Ok []))));
    WAdv 1;
    WNew cfg_cap;
    WOn 1 (ROp (Atomic (DigestOp None)));
    WOn 2 (ROp (Atomic (IngestSensitive (Ok [])))); WOn 2 (ROp (Atomic (Ingest ExpiredCache 0 (Ok []))));
    WOn 2 (ROp (Atomic (Ingest ExpiredCache 0 (Ok [])))); WOn 5 (ROp (Atomic Autophagy)) ].
Example ex_world :
  let w := wrun [0; 1; 2; 3] world_ops in
  map (fun p => rev (toxlog (c_base (snd p)))) (w_objs w) = [[0]; [1]; [0]] /\
  map (fun p => n_digested (c_base (snd p))) (w_objs w) = [1; 2; 1] /\
  map (fun p => ids (queue (c_base (snd p)))) (w_objs w) = [[]; []; [1; 2]] /\
  map (fun p => now (c_base (snd p))) (w_objs w) = [1; 1; 0] /\
  map (fun p => bin (c_base (snd p))) (w_objs w) = [[]; [(1, 0)]; []] /\
  w_map w = [0; 1; 2; 3] /\
  (* the call on a lysosome that does not exist is not a call *)
  snd (wstep w (WOn 5 (ROp (Atomic Autophagy)))) = CBad /\
  (* object 1 lived exactly the history addressed to it *)
  wproj 1 world_ops = [ROp (Atomic (Ingest Misfolded 0 (Ok [1]))); ROp (Atomic (IngestSensitive (Ok [])));
                       tick 1; ROp (Atomic (DigestOp None))] /\
  nth_error (w_objs w) 1 = Some (rrun cfg_w (wproj 1 world_ops)).
Proof. vm_compute. auto 20. Qed.

(* the hypotheses of c13_world_every_object / c13_world_objects_independent are
   met by it: three objects, and [world_ops] = two constructions ++ the rest *)
Example ex_world_hyps :
  List.length (w_objs (wrun [0; 1; 2; 3] world_ops)) = 3%nat /\
  world_ops = (map WNew [cfg_w; cfg_w] ++ skipn 2 world_ops)%list /\
  In (cfg_cap, snd (rrun cfg_cap (wproj 2 (skipn 8 world_ops)))) (w_objs (wrun [0; 1; 2; 3] world_ops)).
Proof. vm_compute. auto 12. Qed.

(* what run_case prints for a world: per step the row of the object the call
   was made on, then the keys of the mapping and (queue length, total_digested,
   on_toxic calls) of EVERY object *)
Example ex_world_run_case :
  nth 4 (run_case (cfg_cap, [], [], [], ([0; 1; 2; 3], world_ops), ([], []))) [] =
    [0;  1; 1; 1; 0; 0;  0; 1; 1; 0;  0; 0; 0; 0; 1;  0;  0; 4;  0; 0; 0; 0; 0;  0;  0;  1; 0;  0; 0; 0;
     4; 0; 1; 2; 3;  2;  0; 1; 1;  0; 0; 0;  0].
Proof. vm_compute. reflexivity. Qed.

(* ---- the threshold reassigned at run time ------------------------------ *)

(* five items queued under threshold 8; the threshold is then lowered to 1:
   the next ingest digests half of the six (6 // 2 = 3), one pass, and
   returns with three items queued - still at or above the new threshold; the
   one after it digests 4 // 2 = 2 *)
Example ex_threshold_lowered :
  let ops := (map (fun o => ROp (Atomic o)) (repeat (Ingest Misfolded 0 (Ok [])) 5)
              ++ [SetThr 1; ROp (Atomic (IngestError (Ok [])))])%list in
  let st := rrun (mkConfig 8 8 (Some 2) true) ops in
  let st2 := rrun (mkConfig 8 8 (Some 2) true) (ops ++ [ROp (Atomic (IngestError (Ok [])))])%list in
  auto_thr (fst st) = 1 /\ max_queue (fst st) = 8 /\
  ids (queue (c_base (snd st))) = [3; 4; 5] /\ nfate Digested (c_base (snd st)) = 3 /\
  ids (queue (c_base (snd st2))) = [5; 6] /\ n_ingested (c_base (snd st2)) = 7.
Proof. vm_compute. auto 12. Qed.

(* the predicates the reconfiguration / thread theorems are stated with are the
   bodies of the c13_overlap_* statements *)
Example cs_statements_are_the_overlap_statements :
  forall cfg ops,
    (overlap_conservation_cs cfg (crun cfg ops) = overlap_conservation_stmt cfg ops) /\
    (reported_once_cs (crun cfg ops) = reported_once_stmt cfg ops) /\
    (results_cs cfg (crun cfg ops) = results_stmt cfg ops) /\
    (overlap_toxic_cs cfg (crun cfg ops) = overlap_toxic_stmt cfg ops).
Proof. intros cfg ops. repeat split; reflexivity. Qed.

(* ---- lock discipline -------------------------------------------------- *)

(* the generated obligation, and the theorem instantiated on the class as it
   is in the source now *)
Example gen_ok : no_self_deadlock gen_kind gen_graph && single_lock gen_graph = true.
Proof. exact Gen_C13_ok. Qed.

Example gen_no_deadlock :
  forall fuel (calls : nat -> list string) m,
    mreach gen_kind (minit (fun i => thread_prog gen_graph fuel (calls i))) m ->
    (exists i, m_code m i <> []) -> exists m', mstep gen_kind m m'.
Proof. exact (lock_discipline_no_deadlock gen_kind gen_graph Gen_C13_ok). Qed.

(* the second generated obligation, and its theorem on the class as it is now:
   every method is a finite program with at most one outermost critical section *)
Example gen_calls_ok : bounded_calls gen_graph && atomic_calls gen_graph = true.
Proof. exact Gen_C13_calls_ok. Qed.

Example gen_calls_finite_atomic :
  forall mi fuel, In mi gen_graph -> (S (List.length gen_graph) <= fuel)%nat ->
    m_loops mi = [] /\
    compile gen_graph fuel (m_name mi) = compile gen_graph (S (List.length gen_graph)) (m_name mi) /\
    (osec 0 (compile gen_graph fuel (m_name mi)) <= 1)%nat.
Proof. exact (finite_atomic_calls gen_graph Gen_C13_calls_ok). Qed.

(* non-vacuity: ingest has exactly one outermost critical section (with the
   nested re-acquisition of digest inside it), ingest_error inherits it *)
Example gen_ingest_one_section :
  osec 0 (compile gen_graph 30 "ingest") = 1%nat /\ osec 0 (compile gen_graph 30 "ingest_error") = 1%nat /\
  osec 0 (compile gen_graph 30 "get_statistics") = 0%nat /\
  List.length (filter (fun x => match x with Acq => true | _ => false end) (compile gen_graph 30 "ingest")) = 2%nat.
Proof. vm_compute. auto 12. Qed.

(* two threads making three calls each on the class as it is: the machine
   makes exactly as many steps as their programs are long *)
Definition two_threads (i : nat) : list instr :=
  if Nat.ltb i 2 then thread_prog gen_graph 30 ["ingest"; "digest"; "autophagy"]%string else [].
Example gen_two_threads_stop :
  forall n m, msteps gen_kind n (minit two_threads) m ->
    (n <= code_left 2 (minit two_threads))%nat /\ (code_left 2 (minit two_threads) < 200)%nat.
Proof.
  intros n m R.
  assert (Id : forall i, (2 <= i)%nat -> two_threads i = []).
  { intros i Hi. unfold two_threads. destruct (Nat.ltb_spec i 2); [lia|reflexivity]. }
  destruct (lock_machine_terminates gen_kind two_threads 2 Id n m R) as [E _].
  split; [lia|]. vm_compute. lia.
Qed.

(* error paths on the class as it is: any calls, any of them raising anywhere *)
Example gen_error_paths_no_deadlock :
  forall fuel (calls : nat -> list xcall) m,
    mreach gen_kind (minit (fun i => thread_prog_x gen_graph fuel (calls i))) m ->
    (exists i, m_code m i <> []) -> exists m', mstep gen_kind m m'.
Proof. exact (error_paths_no_deadlock gen_kind gen_graph Gen_C13_ok). Qed.

(* non-vacuity: autophagy() raising inside its `with` block gives the lock back;
   ingest() raising at any of its points - some of them two levels deep (ingest
   -> _auto_digest -> digest) - gives back every level *)
Example gen_unwind :
  compile gen_graph 30 "autophagy" = [Acq; Step; Rel] /\
  unwind 2 (compile gen_graph 30 "autophagy") = [Acq; Step; Rel] /\
  unwind 0 (compile gen_graph 30 "autophagy") = [] /\
  existsb (fun n => Nat.eqb (depth_after 0 (firstn n (compile gen_graph 30 "ingest"))) 2) (seq 0 60) = true /\
  forallb (fun n => wb 0 (unwind n (compile gen_graph 30 "ingest"))) (seq 0 60) = true /\
  thread_prog_x gen_graph 30 [("autophagy"%string, Some 2%nat); ("digest"%string, None)]
    = ([Acq; Step; Rel] ++ compile gen_graph 30 "digest")%list.
Proof. vm_compute. auto 12. Qed.

(* what the theorem rules out.  `self._lock.acquire() ... self._lock.release()`
   without try/finally is NOT `with self._lock:`: on the error path the raise
   skips the release.  Thread 0 makes such a call and it raises ([Acq; Step],
   no Rel: not well bracketed), thread 1 then calls anything that takes the
   lock: thread 0 has finished, thread 1 can never move - although the lock is
   re-entrant *)
Definition leaky_progs (i : nat) : list instr :=
  match i with O => [Acq; Step] | S O => [Acq; Step; Rel] | _ => [] end.

Lemma error_path_without_release_deadlocks :
  wb 0 (leaky_progs 0) = false /\
  exists m, mreach Reentrant (minit leaky_progs) m /\
            m_code m 0%nat = [] /\ (exists i, m_code m i <> []) /\
            ~ exists m', mstep Reentrant m m'.
Proof.
  split; [reflexivity|].
  set (f1 := upd leaky_progs 0 [Step]).
  set (f2 := upd f1 0 []).
  exists (mkMS f2 (Some 0%nat) 1).
  assert (F2 : forall i, f2 i = match i with 1%nat => [Acq; Step; Rel] | _ => [] end).
  { intros i. unfold f2, f1, upd, leaky_progs. destruct i as [|[|i]]; reflexivity. }
  split; [|split; [|split]].
  - eapply MRS; [eapply MRS; [apply MR0|]|].
    + unfold minit. apply (MAcqFree Reentrant leaky_progs 0 0). reflexivity.
    + apply (MStep Reentrant f1 (Some 0%nat) 1 0). reflexivity.
  - reflexivity.
  - exists 1%nat. cbn. discriminate.
  - intros [m' S].
    inversion S as [f o c i rest Hi | f c i rest Hi | f c i rest Hk Hi | f i rest Hi | f c i rest Hi]; subst.
    + rewrite F2 in Hi. destruct i as [|[|i]]; discriminate.
    + rewrite F2 in Hi. discriminate.
    + rewrite F2 in Hi. discriminate.
Qed.

(* the checks can fail.  (1) A loop that digests "until the queue is below the
   threshold" is not bounded by any list: bounded_calls fails.  (2) Mutual
   recursion: the unfolding does not fit in any fuel.  (3) An ingest that
   makes room in one critical section and appends in a second one: two
   outermost sections, atomic_calls fails - and between the two another
   thread's ingest fits. *)
Definition loop_graph : callgraph :=
  [ mkM "ingest" [LSelf] ["_auto_digest"] [] [] [] 1 [] false;
    mkM "_auto_digest" [] [] ["digest"] [] [] 0 ["while len(self._queue) >= self.auto_digest_threshold"] false;
    mkM "digest" [LSelf] [] [] [] [] 1 [] false ]%string.
Definition rec_graph : callgraph :=
  [ mkM "a" [] [] ["b"] [] [] 0 [] false; mkM "b" [] [] ["a"] [] [] 0 [] false ]%string.
Definition split_graph : callgraph :=
  [ mkM "ingest" [LSelf] ["_enqueue"; "_evict"] ["_emergency"] [] [] 2 [] false;
    mkM "_enqueue" [] [] [] [] [] 0 [] true;
    mkM "_evict" [] [] [] [] [] 0 [] true;
    mkM "_emergency" [] [] [] [] [] 0 [] false ]%string.
Definition split2_graph : callgraph :=
  [ mkM "ingest" [LSelf] [] ["_finish"] [] [] 1 [] false;
    mkM "_finish" [LSelf] [] [] [] [] 1 [] false ]%string.
Example checks_can_fail :
  bounded_calls loop_graph = false /\ atomic_calls loop_graph = true /\
  bounded_calls rec_graph = false /\
  (forall f, fits rec_graph f "a" = false) /\
  bounded_calls split_graph = true /\ atomic_calls split_graph = false /\
  atomic_calls split2_graph = false /\ osec 0 (compile split2_graph 3 "ingest") = 2%nat.
Proof.
  repeat split; try (vm_compute; reflexivity).
  assert (G : forall f, fits rec_graph f "a" = false /\ fits rec_graph f "b" = false).
  { induction f as [|f [Ha Hb]]; [split; reflexivity|]. split; cbn; [rewrite Hb|rewrite Ha]; reflexivity. }
  intros f. apply G.
Qed.

(* non-vacuity: ingest really re-acquires (ingest -> _auto_digest -> digest):
   its program is well bracketed but not flat *)
Example gen_ingest_nests :
  wb 0 (compile gen_graph 6 "ingest") = true /\ flat 0 (compile gen_graph 6 "ingest") = false /\
  In Acq (compile gen_graph 6 "ingest").
Proof. vm_compute. auto 12. Qed.

(* the same call structure on a non-reentrant lock (the code before the repair)
   fails the check ... *)
Example legacy_check_fails : no_self_deadlock NonReentrant gen_graph = false.
Proof. vm_compute. reflexivity. Qed.

(* ... and really deadlocks: one thread, one call of ingest, on the three
   methods that matter *)
Definition legacy_graph : callgraph :=
  [ mkM "ingest" [LSelf] ["_auto_digest"] [] [] [] 1 [] false;
    mkM "_auto_digest" [] [] ["digest"] [] [] 0 [] false;
    mkM "digest" [LSelf] [] [] [] [] 1 [] false ]%string.

Definition legacy_progs (i : nat) : list instr :=
  if Nat.eqb i 0 then compile legacy_graph 3 "ingest" else [].

Lemma c13_legacy_refuted :
  exists m, mreach NonReentrant (minit legacy_progs) m /\
            (exists i, m_code m i <> []) /\
            ~ exists m', mstep NonReentrant m m'.
Proof.
  set (f1 := upd legacy_progs 0 [Step; Step; Acq; Step; Rel; Rel]).
  set (f2 := upd f1 0 [Step; Acq; Step; Rel; Rel]).
  set (f3 := upd f2 0 [Acq; Step; Rel; Rel]).
  exists (mkMS f3 (Some 0%nat) 1).
  split; [|split].
  - eapply MRS; [eapply MRS; [eapply MRS; [apply MR0|]|]|].
    + unfold minit. apply (MAcqFree NonReentrant legacy_progs 0 0). reflexivity.
    + apply (MStep NonReentrant f1 (Some 0%nat) 1 0). reflexivity.
    + apply (MStep NonReentrant f2 (Some 0%nat) 1 0). reflexivity.
  - exists 0%nat. cbn. discriminate.
  - intros [m' S].
    assert (F3 : forall i, f3 i = if Nat.eqb i 0 then [Acq; Step; Rel; Rel] else []).
    { intros i. unfold f3, f2, f1, upd, legacy_progs. destruct (Nat.eqb i 0); reflexivity. }
    inversion S as [f o c i rest Hi | f c i rest Hi | f c i rest Hk Hi | f i rest Hi | f c i rest Hi]; subst.
    + rewrite F3 in Hi. destruct (Nat.eqb i 0); discriminate.
    + discriminate.
    + rewrite F3 in Hi. cbn in Hi. discriminate.
Qed.

(* ---- callbacks that call back (Part 1f) -------------------------------- *)

(* two sensitive items and a cache item queued; the program calls digest(1);
   the on_toxic callback of item 0 calls digest() to flush the rest, the
   digester of item 2 (run by that nested call) has an entry too but does not
   call back from inside a nested call *)
Definition re_cfg := mkConfig 8 9 (Some 1) true.
Definition re_acts : list (Z * op) := [(0, DigestOp None); (2, IngestSensitive (Ok []))].
Definition re_ops : list xop :=
  [XR (ROp (Atomic (IngestSensitive (Ok [])))); XR (ROp (Atomic (IngestSensitive Raises)));
   XR (ROp (Atomic (Ingest ExpiredCache 0 (Ok [1])))); XDigest (Some 1)].

(* non-vacuity of c13_reentrant_*: the nested call ran (three items left the
   queue during a digest(1)), both sensitive items reached on_toxic once, the
   nested DigestResult lists the raising callback of item 1, the outer one
   accounts for item 0 only, no call is left in progress *)
Example ex_reentrant_history :
  let cs := snd (xrun re_acts re_cfg re_ops) in
  queue (c_base cs) = [] /\ rev (toxlog (c_base cs)) = [1; 0] /\ n_digested (c_base cs) = 2 /\
  c_open cs = [] /\
  map (fun d => (ids (fst d), d_disposed (snd d), d_errors (snd d))) (c_done cs) = [([0], 1, []); ([1; 2], 1, [1])] /\
  xflatten re_acts re_cfg cinit re_ops =
    [ROp (Atomic (IngestSensitive (Ok []))); ROp (Atomic (IngestSensitive Raises));
     ROp (Atomic (Ingest ExpiredCache 0 (Ok [1])));
     ROp (PassBegin self_label (Some 1)); ROp (Atomic (DigestOp None)); ROp (PassStep self_label)].
Proof. vm_compute. repeat split; reflexivity. Qed.

(* the hypothesis of c13_reentrant_digest_returns is met at every point of that
   history (the calling thread is not inside a digest() of its own) *)
Example ex_reentrant_hypothesis :
  find_pass self_label (c_open (snd (xrun re_acts re_cfg (firstn 3 re_ops)))) = None.
Proof. vm_compute. reflexivity. Qed.

(* what run_case prints for it: the header, three ingests, then one row per
   step INSIDE the digest(1) call - inside the first digester, the nested
   digest() returning, the return of the call *)
Example ex_reentrant_run_case :
  let rows := run_case (re_cfg, [], [], [], ([], []), (re_acts, re_ops)) in
  List.length rows = 7%nat /\ map (fun r => hd 0 r) rows = [8; 0; 0; 0; 3; 1; 1].
Proof. vm_compute. auto. Qed.
