(* C13 — property theorems only.  Each is closed by [exact] of a lemma from
   Proofs.v and followed by Print Assumptions.

   [run cfg ops] is the state of the model of Lysosome after the calls [ops]
   (ingest of any waste type with any created_at - also one that is
   timezone-aware or not a datetime -, ingest_error, ingest_sensitive,
   digest(k), digest(<not an integer>), autophagy, clock advance), from the
   fresh object, for configuration [cfg]; every ingested item carries the
   outcome its digester (or on_toxic) will have.  [ops] is arbitrary, so "the
   state after [ops]" is "the state after every call of every history" -
   histories in which calls RAISE inside the object (outcome [RRaised]: the
   exception propagates to the caller, who goes on) included: every theorem
   below holds after such calls as well.

   The generated obligation [Gen_C13_ok : no_self_deadlock gen_kind gen_graph
   && single_lock gen_graph = true] (on the lock kind and call structure read
   from lysosome.py on every run) lives in coq/gen/Gen_C13.v; it is the
   hypothesis of c13_every_call_returns_threads, instantiated in Examples.v
   (gen_no_deadlock).  A second generated obligation [Gen_C13_calls_ok :
   bounded_calls gen_graph && atomic_calls gen_graph = true] (no unbounded loop
   and no recursion in the class; one critical section per call, the queue only
   written inside one) is the hypothesis of c13_calls_are_finite_and_atomic,
   instantiated in Examples.v (gen_calls_finite_atomic). *)
From Coq Require Import ZArith List Bool Permutation String.
From Verif Require Import C13.Model C13.Proofs C13.Threads C13.World C13.Reentry.
Import ListNotations.
Open Scope Z_scope.

(* After every call the queue holds at most max_queue_size items
   (max_queue_size >= 2), whatever the threshold, the retention and the
   digester outcomes are. *)
Theorem c13_queue_bounded :
  forall cfg ops, 2 <= max_queue cfg ->
    Z.of_nat (List.length (queue (run cfg ops))) <= max_queue cfg.
Proof. exact queue_bounded_proof. Qed.
Print Assumptions c13_queue_bounded.

(* Conservation.  Ghost state: [g_all] = every item ever ingested, [g_fates] =
   (item, fate) for every item that left the queue, fate in Digested |
   Reported | AutoDiscarded | EmergOk | EmergFail | Expired.
   (1) the ingested items are exactly the queued ones plus the fated ones,
       with multiplicity;
   (2) no id occurs twice among queued and fated items;
   (3) hence an id was ingested iff it is queued or fated;
   (4) an id has one fate only;
   (5,6) the counters get_statistics exposes are the ghost counts:
       total_ingested = |ingested|, total_digested = |Digested| + |EmergOk|;
   (7) total_ingested = queue_size + total_digested + reported errors
       + errors inside auto-digest (DigestResult discarded) + emergency drops
       + expired. *)
Theorem c13_conservation :
  forall cfg ops,
    let s := run cfg ops in
    Permutation (g_all s) (queue s ++ map fst (g_fates s)) /\
    NoDup (ids (queue s) ++ ids (map fst (g_fates s))) /\
    (forall i, In i (ids (g_all s)) <->
               In i (ids (queue s)) \/ In i (ids (map fst (g_fates s)))) /\
    (forall it f it' f', In (it, f) (g_fates s) -> In (it', f') (g_fates s) ->
                         it_id it = it_id it' -> it = it' /\ f = f') /\
    n_ingested s = Z.of_nat (List.length (g_all s)) /\
    n_digested s = nfate Digested s + nfate EmergOk s /\
    n_ingested s = Z.of_nat (List.length (queue s)) + n_digested s + nfate Reported s
                   + nfate AutoDiscarded s + nfate EmergFail s + nfate Expired s.
Proof. exact conservation_proof. Qed.
Print Assumptions c13_conservation.

(* No value in the recycling bin was produced from a sensitive item. *)
Theorem c13_toxic_never_recycled :
  forall cfg ops k v it,
    let s := run cfg ops in
    In (k, v) (bin s) -> In it (g_all s) -> it_id it = v -> it_type it <> Toxic.
Proof. exact toxic_never_recycled_proof. Qed.
Print Assumptions c13_toxic_never_recycled.

(* on_toxic: at most once per id, ever; only for ingested sensitive items;
   never while the item is queued; exactly once for a sensitive item that was
   digested or emergency-processed (on_toxic set), never for an expired one. *)
Theorem c13_toxic_callback_at_most_once :
  forall cfg ops,
    let s := run cfg ops in
    (forall i, (count_occ Z.eq_dec (toxlog s) i <= 1)%nat) /\
    (forall i, In i (toxlog s) ->
       has_cb cfg = true /\ exists it, In it (g_all s) /\ it_id it = i /\ it_type it = Toxic) /\
    (forall it, In it (queue s) -> ~ In (it_id it) (toxlog s)) /\
    (forall it f, In (it, f) (g_fates s) -> it_type it = Toxic -> has_cb cfg = true ->
       count_occ Z.eq_dec (toxlog s) (it_id it) = if fate_eqb f Expired then 0%nat else 1%nat).
Proof. exact toxic_callback_proof. Qed.
Print Assumptions c13_toxic_callback_at_most_once.

(* Every call returns, (i): the sequential model is total — [step] is a
   structurally recursive Gallina function without fuel, so every call on every
   state yields a state and a result (a raising digester is the explicit
   outcome [Raises], handled by the per-item try/except). *)
Theorem c13_every_call_returns_sequential :
  forall cfg s o, exists s' r, step cfg s o = (s', r).
Proof. exact step_total. Qed.
Print Assumptions c13_every_call_returns_sequential.

(* Every call returns, (ii): one lock, any number of threads.  If every
   thread's program is well bracketed (and, for a non-reentrant lock, never
   acquires while holding) then no reachable configuration with an unfinished
   thread is stuck. *)
Theorem c13_every_call_returns_lock_machine :
  forall k (progs : nat -> list instr),
    (forall i, wb 0 (progs i) = true) ->
    (k <> Reentrant -> forall i, flat 0 (progs i) = true) ->
    forall m, mreach k (minit progs) m -> (exists i, m_code m i <> []) ->
    exists m', mstep k m m'.
Proof. exact lock_machine_no_deadlock. Qed.
Print Assumptions c13_every_call_returns_lock_machine.

(* ... and the programs compiled from ANY call graph that passes the two
   decidable checks are of that shape: threads calling any methods in any order
   never deadlock.  [single_lock g] is what makes the one-lock machine the right
   abstraction of the class (every acquisition in it is of self._lock). *)
Theorem c13_every_call_returns_threads :
  forall k g, no_self_deadlock k g && single_lock g = true ->
    forall fuel (calls : nat -> list string) m,
      mreach k (minit (fun i => thread_prog g fuel (calls i))) m ->
      (exists i, m_code m i <> []) -> exists m', mstep k m m'.
Proof. exact lock_discipline_no_deadlock. Qed.
Print Assumptions c13_every_call_returns_threads.

(* Error paths.  A call that raises is a call that returns - to a caller who
   handles the exception and goes on, on this thread or another one.
   (1) Exactly these calls raise: digest(<not an integer>), and autophagy() when
       some queued item cannot be compared (created_at timezone-aware / not a
       datetime, or retention_period not a timedelta); ingest never does,
       whatever the item.
   (2) A call that raises leaves the object exactly as it was: queue,
       counters, recycling bin, on_toxic log and the ghost fates - so every
       ingested item is still exactly one of queued / digested / ... *)
Theorem c13_raising_calls_change_nothing :
  forall cfg s o,
    (snd (step cfg s o) = RRaised <->
       (o = DigestBad \/
        (o = Autophagy /\ exists it, In it (queue s) /\ comparable cfg it = false))) /\
    (snd (step cfg s o) = RRaised -> fst (step cfg s o) = s).
Proof. exact raising_calls_proof. Qed.
Print Assumptions c13_raising_calls_change_nothing.

(* Every call returns, (iii): error paths on the lock machine.  Every thread
   calls any methods in any order and ANY of its calls may raise at ANY point of
   its program ([Some n]: after n instructions; the exception leaves through the
   `with self._lock:` blocks it is inside, each giving the lock back: [unwind]).
   If the call graph passes the checks then no reachable configuration with an
   unfinished thread is stuck: after a call that raised - on any thread - the
   calls of every other thread still get the lock and return. *)
Theorem c13_every_call_returns_after_a_raising_call :
  forall k g, no_self_deadlock k g && single_lock g = true ->
    forall fuel (calls : nat -> list xcall) m,
      mreach k (minit (fun i => thread_prog_x g fuel (calls i))) m ->
      (exists i, m_code m i <> []) -> exists m', mstep k m m'.
Proof. exact error_paths_no_deadlock. Qed.
Print Assumptions c13_every_call_returns_after_a_raising_call.

(* ---------------------------------------------------------------------- *)
(* Overlapping calls ("from any number of threads").  digest() runs its
   digesters outside the lock, so between two digester calls of one digest
   pass any other call can run - also further digest passes, on any number of
   threads.  [crun cfg ops] is the state after the interleaved history [ops]
   over  Atomic o | PassBegin p k | PassStep p  (Model.v, Part 1b): [ops] is
   arbitrary, so these hold at every point of every interleaving at
   digester-call granularity; [inflight cs] are the items some digest call in
   progress has taken off the queue and not yet handed to a digester. *)

(* Conservation with calls in progress: every ingested item is exactly one
   of queued, taken by a digest call in progress, or fated (one fate only),
   and the counters are the ghost counts. *)
Theorem c13_overlap_conservation :
  forall cfg ops,
    let cs := crun cfg ops in
    let s := c_base cs in
    Permutation (g_all s) (queue s ++ inflight cs ++ map fst (g_fates s)) /\
    NoDup (ids (queue s) ++ ids (inflight cs) ++ ids (map fst (g_fates s))) /\
    (forall it f it' f', In (it, f) (g_fates s) -> In (it', f') (g_fates s) ->
                         it_id it = it_id it' -> it = it' /\ f = f') /\
    n_ingested s = Z.of_nat (List.length (g_all s)) /\
    n_digested s = nfate Digested s + nfate EmergOk s /\
    n_ingested s = Z.of_nat (List.length (queue s)) + Z.of_nat (List.length (inflight cs))
                   + n_digested s + nfate Reported s
                   + nfate AutoDiscarded s + nfate EmergFail s + nfate Expired s.
Proof. exact overlap_conservation_proof. Qed.
Print Assumptions c13_overlap_conservation.

(* "Reported as a digestion error", exactly once: the ids listed in the
   `errors` of all DigestResults (returned, or being built by a call in
   progress) are, with multiplicity, the ids of the items with fate Reported;
   no id is listed twice - neither within one result nor in two results. *)
Theorem c13_overlap_reported_exactly_once :
  forall cfg ops,
    let cs := crun cfg ops in
    Permutation (reported_ids cs) (ids (with_fate Reported (c_base cs))) /\
    NoDup (reported_ids cs) /\
    (forall i, (count_occ Z.eq_dec (reported_ids cs) i =
                if in_dec Z.eq_dec i (ids (with_fate Reported (c_base cs))) then 1 else 0)%nat).
Proof. exact reported_once_proof. Qed.
Print Assumptions c13_overlap_reported_exactly_once.

(* Every returned DigestResult accounts for exactly the items its own call
   took off the queue, whatever ran in between: `disposed` counts the ones
   whose digester returned, `errors` lists the others in order, and each of
   these items has the corresponding fate.  A call in progress has done so
   for the items it has processed, and still has work. *)
Theorem c13_overlap_result_accounts_for_its_items :
  forall cfg ops,
    let cs := crun cfg ops in
    (forall taken r, In (taken, r) (c_done cs) ->
       accounts cfg taken r /\
       forall it, In it taken -> In (it, pass_fate cfg it) (g_fates (c_base cs))) /\
    (forall ps, In ps (c_open cs) ->
       p_todo ps <> [] /\
       exists pre, p_taken ps = pre ++ p_todo ps /\ accounts cfg pre (p_res ps) /\
         forall it, In it pre -> In (it, pass_fate cfg it) (g_fates (c_base cs))).
Proof. exact results_proof. Qed.
Print Assumptions c13_overlap_result_accounts_for_its_items.

(* Sensitive items under overlap: nothing in the recycling bin - nor in the
   `recycled` of a call in progress - comes from a sensitive item; on_toxic at
   most once per id, only for ingested sensitive items, never for an item
   that is queued or still in flight, exactly once for a fated (non-expired)
   sensitive item. *)
Theorem c13_overlap_toxic :
  forall cfg ops,
    let cs := crun cfg ops in
    let s := c_base cs in
    (forall k v it, In (k, v) (bin s) -> In it (g_all s) -> it_id it = v -> it_type it <> Toxic) /\
    (forall ps k v it, In ps (c_open cs) -> In (k, v) (d_recycled (p_res ps)) ->
                       In it (g_all s) -> it_id it = v -> it_type it <> Toxic) /\
    (forall i, (count_occ Z.eq_dec (toxlog s) i <= 1)%nat) /\
    (forall i, In i (toxlog s) ->
       has_cb cfg = true /\ exists it, In it (g_all s) /\ it_id it = i /\ it_type it = Toxic) /\
    (forall it, In it (queue s ++ inflight cs) -> ~ In (it_id it) (toxlog s)) /\
    (forall it f, In (it, f) (g_fates s) -> it_type it = Toxic -> has_cb cfg = true ->
       count_occ Z.eq_dec (toxlog s) (it_id it) = if fate_eqb f Expired then 0%nat else 1%nat).
Proof. exact overlap_toxic_proof. Qed.
Print Assumptions c13_overlap_toxic.

(* The queue bound does not depend on calls being atomic. *)
Theorem c13_overlap_queue_bounded :
  forall cfg ops, 2 <= max_queue cfg ->
    Z.of_nat (List.length (queue (c_base (crun cfg ops)))) <= max_queue cfg.
Proof. exact overlap_queue_bounded_proof. Qed.
Print Assumptions c13_overlap_queue_bounded.

(* The interleaved semantics refines the sequential one: a history of atomic
   calls is [run]; and one digest pass stepped through all its items with
   nothing in between is digest() - same state, same DigestResult. *)
Theorem c13_overlap_refines_sequential :
  (forall cfg ops,
     c_base (crun cfg (map Atomic ops)) = run cfg ops /\ c_open (crun cfg (map Atomic ops)) = []) /\
  (forall cfg p k cs, find_pass p (c_open cs) = None ->
     crun_from cfg cs (PassBegin p k :: repeat (PassStep p) (List.length (to_process k (queue (c_base cs))))) =
     mkC (fst (digest cfg false k (c_base cs))) (c_open cs)
         ((to_process k (queue (c_base cs)), snd (digest cfg false k (c_base cs))) :: c_done cs)).
Proof. exact (conj atomic_run pass_uninterleaved). Qed.
Print Assumptions c13_overlap_refines_sequential.

(* Every step of the interleaved model yields a state and an outcome. *)
Theorem c13_every_call_returns_overlapping :
  forall cfg cs o, exists cs' r, cstep cfg cs o = (cs', r).
Proof. exact cstep_total. Qed.
Print Assumptions c13_every_call_returns_overlapping.

(* ---------------------------------------------------------------------- *)
(* The threshold reassigned at run time.  auto_digest_threshold is a plain
   public attribute; [rrun cfg ops] is the (configuration in force, state)
   after a history [ops] over  ROp (any step of the interleaved semantics) |
   SetThr t  (lysosome.auto_digest_threshold = t) |  SetRet r
   (lysosome.retention_period = a timedelta / something that is not one), every
   call running under the threshold and retention in force when it is made
   (Model.v, Part 1d).  The statements
   are those of the c13_overlap_* theorems above, for that state: the
   predicates *_cs (Proofs.v) are their bodies with the state as a parameter
   (Examples.v, cs_statements_are_the_overlap_statements). *)

Theorem c13_reconf_queue_bounded :
  forall cfg ops, 2 <= max_queue cfg ->
    Z.of_nat (List.length (queue (c_base (snd (rrun cfg ops))))) <= max_queue cfg.
Proof. exact reconf_queue_bounded. Qed.
Print Assumptions c13_reconf_queue_bounded.

Theorem c13_reconf_conservation :
  forall cfg ops, overlap_conservation_cs cfg (snd (rrun cfg ops)).
Proof. exact reconf_conservation. Qed.
Print Assumptions c13_reconf_conservation.

Theorem c13_reconf_reported_and_accounted :
  forall cfg ops, reported_once_cs (snd (rrun cfg ops)) /\ results_cs cfg (snd (rrun cfg ops)).
Proof. exact (fun cfg ops => conj (reconf_reported_once cfg ops) (reconf_results cfg ops)). Qed.
Print Assumptions c13_reconf_reported_and_accounted.

Theorem c13_reconf_toxic :
  forall cfg ops, overlap_toxic_cs cfg (snd (rrun cfg ops)).
Proof. exact reconf_toxic. Qed.
Print Assumptions c13_reconf_toxic.

(* every step of a reconfigured history yields a configuration, a state and an
   outcome; and without reassignments it is the interleaved history *)
Theorem c13_reconf_returns_and_refines :
  (forall cfg cs o, exists cfg' cs' r, rstep cfg cs o = (cfg', cs', r)) /\
  (forall cfg ops, rrun cfg (map ROp ops) = (cfg, crun cfg ops)).
Proof. exact (conj reconf_total reconf_refines). Qed.
Print Assumptions c13_reconf_returns_and_refines.

(* ---------------------------------------------------------------------- *)
(* Several lysosomes in one program ("for any history ... configurations": the
   `digesters` mapping is a constructor argument the CALLER owns, and a program
   hands one such table to every lysosome it builds).  [wrun m ops] is the
   world after a history [ops] over  WNew cfg (a further lysosome is built from
   the caller's mapping, whose keys are [m], with an on_toxic of its own) |
   WOn j o (any step of a reconfigured, interleaved history on the j-th
   lysosome) | WAdv d (the one clock moves), from the empty world (Model.v,
   Part 1e).  [ops] is arbitrary: any number of objects, built at any points of
   the history, used in any order. *)

(* Every lysosome of every world satisfies, for ITS OWN queue, counters,
   recycling bin, DigestResults and on_toxic log, every statement above: the
   queue bound, conservation (with calls in progress), exactly-once reporting
   and accounting, and the toxic statements - in particular the on_toxic log of
   a lysosome holds ids of sensitive items ingested into THAT lysosome only,
   each at most once, and exactly once for each of its sensitive items that was
   digested or emergency-processed. *)
Theorem c13_world_every_object :
  forall m ops cfg cs, In (cfg, cs) (w_objs (wrun m ops)) ->
    (2 <= max_queue cfg -> Z.of_nat (List.length (queue (c_base cs))) <= max_queue cfg) /\
    overlap_conservation_cs cfg cs /\ reported_once_cs cs /\ results_cs cfg cs /\ overlap_toxic_cs cfg cs.
Proof. exact world_objects_proof. Qed.
Print Assumptions c13_world_every_object.

(* Objects do not share state:
   (1) in a history that builds the objects [cfgs] and then does anything
       (further objects included), object j ends in exactly the configuration
       and state of the single-object history [wproj j ops] - the calls
       addressed to it and the clock, in order - from the fresh object;
   (2) the same from any world, for any object that exists in it;
   (3) a call on one lysosome leaves every other lysosome as it was;
   (4) a lysosome built in any world is the fresh object, and building it
       leaves the others as they were. *)
Theorem c13_world_objects_independent :
  (forall m cfgs ops j cfg, nth_error cfgs j = Some cfg ->
     nth_error (w_objs (wrun m (map WNew cfgs ++ ops))) j = Some (rrun cfg (wproj j ops))) /\
  (forall ops w j p, nth_error (w_objs w) j = Some p ->
     nth_error (w_objs (wrun_from w ops)) j = Some (rrun_from (fst p) (snd p) (wproj j ops))) /\
  (forall w j o i, i <> j -> nth_error (w_objs (fst (wstep w (WOn j o)))) i = nth_error (w_objs w) i) /\
  (forall w cfg,
     nth_error (w_objs (fst (wstep w (WNew cfg)))) (List.length (w_objs w)) = Some (cfg, cinit) /\
     forall j, (j < List.length (w_objs w))%nat ->
       nth_error (w_objs (fst (wstep w (WNew cfg)))) j = nth_error (w_objs w) j).
Proof. exact (conj world_independent (conj world_proj (conj world_frame world_new_fresh))). Qed.
Print Assumptions c13_world_objects_independent.

(* No step of any world history writes to the caller's digesters mapping, and
   every step yields a world and an outcome. *)
Theorem c13_world_mapping_untouched_and_total :
  (forall ops w, w_map (wrun_from w ops) = w_map w) /\
  (forall w o, exists w' r, wstep w o = (w', r)).
Proof. exact (conj world_mapping_untouched wstep_total). Qed.
Print Assumptions c13_world_mapping_untouched_and_total.

(* ---------------------------------------------------------------------- *)
(* Threads ("from any number of threads ... all interleavings").  Any number
   of threads, thread i with its own list of calls [nth i progs], started on
   the object reached by any (reconfigured) history [pre], under the
   configuration then in force; [sched] says which thread moves next (Model.v,
   Part 1c: one step = the critical section of a call, or one digester call of
   a digest() in progress; scheduling a thread that has finished is a no-op).
   [progs] and [sched] are arbitrary. *)

(* Every run of threads under every schedule is an interleaved history of Part
   1b continuing [pre]. *)
Theorem c13_threads_are_interleavings :
  forall cfg pre progs sched,
    let st := rrun cfg pre in
    exists ops, t_cs (trun (fst st) (mkT (snd st) progs) sched) = crun_from (fst st) (snd st) ops.
Proof. exact threads_are_interleavings. Qed.
Print Assumptions c13_threads_are_interleavings.

(* After every step of every thread under every schedule - in particular after
   every call of every thread - the queue holds at most max_queue_size items. *)
Theorem c13_threads_queue_bounded :
  forall cfg pre progs sched, 2 <= max_queue cfg ->
    let st := rrun cfg pre in
    Z.of_nat (List.length (queue (c_base (t_cs (trun (fst st) (mkT (snd st) progs) sched))))) <= max_queue cfg.
Proof. exact threads_queue_bounded. Qed.
Print Assumptions c13_threads_queue_bounded.

(* ... every ingested item is exactly one of queued, taken by a digest() call
   that has not handed it to a digester yet, or fated (one fate), the counters
   are the ghost counts; every digestion error is listed in exactly one
   DigestResult and every result accounts for exactly the items its call took;
   the toxic statements. *)
Theorem c13_threads_conservation :
  forall cfg pre progs sched,
    let st := rrun cfg pre in
    let cs := t_cs (trun (fst st) (mkT (snd st) progs) sched) in
    overlap_conservation_cs cfg cs /\ reported_once_cs cs /\ results_cs cfg cs /\ overlap_toxic_cs cfg cs.
Proof.
  exact (fun cfg pre progs sched =>
           conj (threads_conservation cfg pre progs sched)
          (conj (threads_reported_once cfg pre progs sched)
          (conj (threads_results cfg pre progs sched) (threads_toxic cfg pre progs sched)))).
Qed.
Print Assumptions c13_threads_conservation.

(* Every call of every thread returns, whatever the schedule: at every point
   (1) a thread that has something left to do can move - it is never blocked -
       and its move is a step of a call, after which strictly less [work] is
       left (work = calls and ingests not yet made + items queued + items in
       flight);
   (2) scheduling a thread that has nothing left changes nothing;
   (3) so the steps a schedule really makes, plus the work left after it, are
       at most the work at the start: no schedule, fair or not, keeps the
       threads busy for more than [work] steps;
   (4) and when no work is left every thread has made all its calls and none
       is inside a digest(). *)
Theorem c13_threads_every_call_returns :
  forall cfg pre progs sched,
    let st := rrun cfg pre in
    let cfg' := fst st in
    let ts0 := mkT (snd st) progs in
    let ts := trun cfg' ts0 sched in
    (forall i, busy ts i = true ->
       snd (tstep cfg' ts i) <> CBad /\ (work (fst (tstep cfg' ts i)) < work ts)%nat) /\
    (forall i, busy ts i = false -> tstep cfg' ts i = (ts, CBad)) /\
    (real_steps cfg' ts0 sched + work ts <= work ts0)%nat /\
    (work ts = 0%nat -> all_done ts = true).
Proof. exact threads_return_proof. Qed.
Print Assumptions c13_threads_every_call_returns.

(* A call of a thread that raises, under any schedule, after any history: the
   object is exactly as it was (state, calls in progress, results returned), the
   call was digest(<not an integer>) or an autophagy() over a queue it cannot
   sweep, the thread has gone on to its next call - and every thread that has
   something left to do (this one or any other) can move: it is not blocked, and
   its move is a step of a call after which strictly less work is left. *)
Theorem c13_threads_after_a_raising_call :
  forall cfg pre progs sched i,
    let st := rrun cfg pre in
    let cfg' := fst st in
    let ts := trun cfg' (mkT (snd st) progs) sched in
    let ts' := fst (tstep cfg' ts i) in
    snd (tstep cfg' ts i) = CRet RRaised ->
      t_cs ts' = t_cs ts /\
      (exists o rest, nth i (t_progs ts) [] = o :: rest /\ t_progs ts' = set_nth i rest (t_progs ts) /\
                      (o = DigestBad \/ (o = Autophagy /\ sweepable cfg' (c_base (t_cs ts)) = false))) /\
      (forall j, busy ts' j = true ->
         snd (tstep cfg' ts' j) <> CBad /\ (work (fst (tstep cfg' ts' j)) < work ts')%nat).
Proof. exact threads_raising_proof. Qed.
Print Assumptions c13_threads_after_a_raising_call.

(* Every call is a finite program with one critical section.  For ANY call
   graph that passes the two decidable checks (regenerated from lysosome.py and
   discharged on every run: Gen_C13_calls_ok): no method has a loop whose
   length is not bounded by a list it iterates over, the unfolding of a call
   never runs out of fuel - more fuel gives the same instruction list, so the
   lock machine runs the whole call and not a truncation of it -, and the
   call goes through at most one outermost critical section (what makes "one
   call = one atomic step on the queue" the right granularity above). *)
Theorem c13_calls_are_finite_and_atomic :
  forall g, bounded_calls g && atomic_calls g = true ->
    forall mi fuel, In mi g -> (S (List.length g) <= fuel)%nat ->
      m_loops mi = [] /\
      compile g fuel (m_name mi) = compile g (S (List.length g)) (m_name mi) /\
      (osec 0 (compile g fuel (m_name mi)) <= 1)%nat.
Proof. exact finite_atomic_calls. Qed.
Print Assumptions c13_calls_are_finite_and_atomic.

(* The lock machine stops: with finitely many threads (N), a run of n steps
   has executed exactly n of their instructions, so no run is longer than the
   programs together; and when nothing is left every thread has finished.
   With c13_every_call_returns_lock_machine (a configuration with an
   unfinished thread is never stuck): every maximal run ends with every call
   of every thread returned. *)
Theorem c13_lock_machine_terminates :
  forall k (progs : nat -> list instr) N,
    (forall i, (N <= i)%nat -> progs i = []) ->
    forall n m, msteps k n (minit progs) m ->
      (n + code_left N m = code_left N (minit progs))%nat /\
      (code_left N m = 0%nat -> forall i, m_code m i = []).
Proof. exact lock_machine_terminates. Qed.
Print Assumptions c13_lock_machine_terminates.

(* ---------------------------------------------------------------------- *)
(* Callbacks that call back ("for any history": the digesters and on_toxic
   are the CALLER's code, and digest() runs them outside the lock, its items
   already off the queue - a callback may call the lysosome it was called
   from: read it, or make a call of its own that runs to completion before the
   callback returns).  [xrun acts cfg ops] is the (configuration, state) after
   a history [ops] over  XR (any step of a reconfigured, interleaved history)
   |  XDigest k  (digest(k) by the program, in which the digester / on_toxic
   of every item with an entry (id, call) in [acts] makes that call - digest,
   an ingest of any kind, autophagy, ... - while digest() is inside it), Model.v
   Part 1f.  [acts] and [ops] are arbitrary. *)

(* A re-entrant history IS an interleaved history: the calls the callbacks
   make are calls that run between two digester calls of the digest() in
   progress.  [xflatten] is that history. *)
Theorem c13_reentrant_is_interleaved :
  forall acts cfg ops, xrun acts cfg ops = rrun cfg (xflatten acts cfg cinit ops).
Proof. exact reentrant_is_interleaved. Qed.
Print Assumptions c13_reentrant_is_interleaved.

(* So after every history with callbacks that call back: the queue bound,
   conservation (every ingested item exactly one of queued / in flight / one
   fate; the counters are the ghost counts), every digestion error listed in
   exactly one DigestResult, every DigestResult accounting for exactly the
   items its call took - the nested calls have results of their own -, nothing
   of a sensitive item recycled and on_toxic at most once per item, exactly
   once for a digested / emergency-processed one. *)
Theorem c13_reentrant_statements :
  forall acts cfg ops,
    let cs := snd (xrun acts cfg ops) in
    (2 <= max_queue cfg -> Z.of_nat (List.length (queue (c_base cs))) <= max_queue cfg) /\
    overlap_conservation_cs cfg cs /\
    reported_once_cs cs /\
    results_cs cfg cs /\
    overlap_toxic_cs cfg cs.
Proof. exact reentrant_statements. Qed.
Print Assumptions c13_reentrant_statements.

(* The re-entrant digest(k) call RETURNS, whatever its callbacks call: from
   any state in which the calling thread is not already inside a digest() of
   its own, after exactly one digester call per item taken - and the calls the
   callbacks made in between - the call is no longer in progress, the calls of
   other threads that were in progress still are, the configuration is the
   same, and a DigestResult for exactly the items the call took off the queue
   has been returned (the results of the nested calls, [more], besides it). *)
Theorem c13_reentrant_digest_returns :
  forall acts cfg cs k,
    find_pass self_label (c_open cs) = None ->
    let st := xstep acts (cfg, cs) (XDigest k) in
    fst st = cfg /\
    c_open (snd st) = c_open cs /\
    exists r more, c_done (snd st) = (to_process k (queue (c_base cs)), r) :: more ++ c_done cs.
Proof. exact reentrant_digest_returns. Qed.
Print Assumptions c13_reentrant_digest_returns.
