(* C13 — property theorems only.  Each is closed by [exact] of a lemma from
   Proofs.v and followed by Print Assumptions.

   [run cfg ops] is the state of the model of Lysosome after the calls [ops]
   (ingest of any waste type with any created_at, ingest_error,
   ingest_sensitive, digest(k), autophagy, clock advance), from the fresh
   object, for configuration [cfg]; every ingested item carries the outcome
   its digester (or on_toxic) will have.  [ops] is arbitrary, so "the state
   after [ops]" is "the state after every call of every history".

   The generated obligation [Gen_C13_ok : no_self_deadlock gen_kind gen_graph
   && single_lock gen_graph = true] (on the lock kind and call structure read
   from lysosome.py on every run) lives in coq/gen/Gen_C13.v; it is the
   hypothesis of c13_every_call_returns_threads, instantiated in Examples.v
   (gen_no_deadlock). *)
From Coq Require Import ZArith List Bool Permutation String.
From Verif Require Import C13.Model C13.Proofs.
Import ListNotations.
Open Scope Z_scope.

(* After every call the queue holds at most max_queue_size items
   (max_queue_size >= 2), whatever the threshold, the retention and the
   digester outcomes are. *)
Theorem c13_queue_bounded :
  forall cfg ops, 2 <= max_queue cfg ->
    Z.of_nat (List.length (queue (run cfg ops))) <= max_queue cfg.
Proof. exact queue_bounded_proof. Qed.
Print Assumptions c13_queue_bounded.

(* Conservation.  Ghost state: [g_all] = every item ever ingested, [g_fates] =
   (item, fate) for every item that left the queue, fate in Digested |
   Reported | AutoDiscarded | EmergOk | EmergFail | Expired.
   (1) the ingested items are exactly the queued ones plus the fated ones,
       with multiplicity;
   (2) no id occurs twice among queued and fated items;
   (3) hence an id was ingested iff it is queued or fated;
   (4) an id has one fate only;
   (5,6) the counters get_statistics exposes are the ghost counts:
       total_ingested = |ingested|, total_digested = |Digested| + |EmergOk|;
   (7) total_ingested = queue_size + total_digested + reported errors
       + errors inside auto-digest (DigestResult discarded) + emergency drops
       + expired. *)
Theorem c13_conservation :
  forall cfg ops,
    let s := run cfg ops in
    Permutation (g_all s) (queue s ++ map fst (g_fates s)) /\
    NoDup (ids (queue s) ++ ids (map fst (g_fates s))) /\
    (forall i, In i (ids (g_all s)) <->
               In i (ids (queue s)) \/ In i (ids (map fst (g_fates s)))) /\
    (forall it f it' f', In (it, f) (g_fates s) -> In (it', f') (g_fates s) ->
                         it_id it = it_id it' -> it = it' /\ f = f') /\
    n_ingested s = Z.of_nat (List.length (g_all s)) /\
    n_digested s = nfate Digested s + nfate EmergOk s /\
    n_ingested s = Z.of_nat (List.length (queue s)) + n_digested s + nfate Reported s
                   + nfate AutoDiscarded s + nfate EmergFail s + nfate Expired s.
Proof. exact conservation_proof. Qed.
Print Assumptions c13_conservation.

(* No value in the recycling bin was produced from a sensitive item. *)
Theorem c13_toxic_never_recycled :
  forall cfg ops k v it,
    let s := run cfg ops in
    In (k, v) (bin s) -> In it (g_all s) -> it_id it = v -> it_type it <> Toxic.
Proof. exact toxic_never_recycled_proof. Qed.
Print Assumptions c13_toxic_never_recycled.

(* on_toxic: at most once per id, ever; only for ingested sensitive items;
   never while the item is queued; exactly once for a sensitive item that was
   digested or emergency-processed (on_toxic set), never for an expired one. *)
Theorem c13_toxic_callback_at_most_once :
  forall cfg ops,
    let s := run cfg ops in
    (forall i, (count_occ Z.eq_dec (toxlog s) i <= 1)%nat) /\
    (forall i, In i (toxlog s) ->
       has_cb cfg = true /\ exists it, In it (g_all s) /\ it_id it = i /\ it_type it = Toxic) /\
    (forall it, In it (queue s) -> ~ In (it_id it) (toxlog s)) /\
    (forall it f, In (it, f) (g_fates s) -> it_type it = Toxic -> has_cb cfg = true ->
       count_occ Z.eq_dec (toxlog s) (it_id it) = if fate_eqb f Expired then 0%nat else 1%nat).
Proof. exact toxic_callback_proof. Qed.
Print Assumptions c13_toxic_callback_at_most_once.

(* Every call returns, (i): the sequential model is total — [step] is a
   structurally recursive Gallina function without fuel, so every call on every
   state yields a state and a result (a raising digester is the explicit
   outcome [Raises], handled by the per-item try/except). *)
Theorem c13_every_call_returns_sequential :
  forall cfg s o, exists s' r, step cfg s o = (s', r).
Proof. exact step_total. Qed.
Print Assumptions c13_every_call_returns_sequential.

(* Every call returns, (ii): one lock, any number of threads.  If every
   thread's program is well bracketed (and, for a non-reentrant lock, never
   acquires while holding) then no reachable configuration with an unfinished
   thread is stuck. *)
Theorem c13_every_call_returns_lock_machine :
  forall k (progs : nat -> list instr),
    (forall i, wb 0 (progs i) = true) ->
    (k <> Reentrant -> forall i, flat 0 (progs i) = true) ->
    forall m, mreach k (minit progs) m -> (exists i, m_code m i <> []) ->
    exists m', mstep k m m'.
Proof. exact lock_machine_no_deadlock. Qed.
Print Assumptions c13_every_call_returns_lock_machine.

(* ... and the programs compiled from ANY call graph that passes the two
   decidable checks are of that shape: threads calling any methods in any order
   never deadlock.  [single_lock g] is what makes the one-lock machine the right
   abstraction of the class (every acquisition in it is of self._lock). *)
Theorem c13_every_call_returns_threads :
  forall k g, no_self_deadlock k g && single_lock g = true ->
    forall fuel (calls : nat -> list string) m,
      mreach k (minit (fun i => thread_prog g fuel (calls i))) m ->
      (exists i, m_code m i <> []) -> exists m', mstep k m m'.
Proof. exact lock_discipline_no_deadlock. Qed.
Print Assumptions c13_every_call_returns_threads.

(* ---------------------------------------------------------------------- *)
(* Overlapping calls ("from any number of threads").  digest() runs its
   digesters outside the lock, so between two digester calls of one digest
   pass any other call can run - also further digest passes, on any number of
   threads.  [crun cfg ops] is the state after the interleaved history [ops]
   over  Atomic o | PassBegin p k | PassStep p  (Model.v, Part 1b): [ops] is
   arbitrary, so these hold at every point of every interleaving at
   digester-call granularity; [inflight cs] are the items some digest call in
   progress has taken off the queue and not yet handed to a digester. *)

(* Conservation with calls in progress: every ingested item is exactly one
   of queued, taken by a digest call in progress, or fated (one fate only),
   and the counters are the ghost counts. *)
Theorem c13_overlap_conservation :
  forall cfg ops,
    let cs := crun cfg ops in
    let s := c_base cs in
    Permutation (g_all s) (queue s ++ inflight cs ++ map fst (g_fates s)) /\
    NoDup (ids (queue s) ++ ids (inflight cs) ++ ids (map fst (g_fates s))) /\
    (forall it f it' f', In (it, f) (g_fates s) -> In (it', f') (g_fates s) ->
                         it_id it = it_id it' -> it = it' /\ f = f') /\
    n_ingested s = Z.of_nat (List.length (g_all s)) /\
    n_digested s = nfate Digested s + nfate EmergOk s /\
    n_ingested s = Z.of_nat (List.length (queue s)) + Z.of_nat (List.length (inflight cs))
                   + n_digested s + nfate Reported s
                   + nfate AutoDiscarded s + nfate EmergFail s + nfate Expired s.
Proof. exact overlap_conservation_proof. Qed.
Print Assumptions c13_overlap_conservation.

(* "Reported as a digestion error", exactly once: the ids listed in the
   `errors` of all DigestResults (returned, or being built by a call in
   progress) are, with multiplicity, the ids of the items with fate Reported;
   no id is listed twice - neither within one result nor in two results. *)
Theorem c13_overlap_reported_exactly_once :
  forall cfg ops,
    let cs := crun cfg ops in
    Permutation (reported_ids cs) (ids (with_fate Reported (c_base cs))) /\
    NoDup (reported_ids cs) /\
    (forall i, (count_occ Z.eq_dec (reported_ids cs) i =
                if in_dec Z.eq_dec i (ids (with_fate Reported (c_base cs))) then 1 else 0)%nat).
Proof. exact reported_once_proof. Qed.
Print Assumptions c13_overlap_reported_exactly_once.

(* Every returned DigestResult accounts for exactly the items its own call
   took off the queue, whatever ran in between: `disposed` counts the ones
   whose digester returned, `errors` lists the others in order, and each of
   these items has the corresponding fate.  A call in progress has done so
   for the items it has processed, and still has work. *)
Theorem c13_overlap_result_accounts_for_its_items :
  forall cfg ops,
    let cs := crun cfg ops in
    (forall taken r, In (taken, r) (c_done cs) ->
       accounts cfg taken r /\
       forall it, In it taken -> In (it, pass_fate cfg it) (g_fates (c_base cs))) /\
    (forall ps, In ps (c_open cs) ->
       p_todo ps <> [] /\
       exists pre, p_taken ps = pre ++ p_todo ps /\ accounts cfg pre (p_res ps) /\
         forall it, In it pre -> In (it, pass_fate cfg it) (g_fates (c_base cs))).
Proof. exact results_proof. Qed.
Print Assumptions c13_overlap_result_accounts_for_its_items.

(* Sensitive items under overlap: nothing in the recycling bin - nor in the
   `recycled` of a call in progress - comes from a sensitive item; on_toxic at
   most once per id, only for ingested sensitive items, never for an item
   that is queued or still in flight, exactly once for a fated (non-expired)
   sensitive item. *)
Theorem c13_overlap_toxic :
  forall cfg ops,
    let cs := crun cfg ops in
    let s := c_base cs in
    (forall k v it, In (k, v) (bin s) -> In it (g_all s) -> it_id it = v -> it_type it <> Toxic) /\
    (forall ps k v it, In ps (c_open cs) -> In (k, v) (d_recycled (p_res ps)) ->
                       In it (g_all s) -> it_id it = v -> it_type it <> Toxic) /\
    (forall i, (count_occ Z.eq_dec (toxlog s) i <= 1)%nat) /\
    (forall i, In i (toxlog s) ->
       has_cb cfg = true /\ exists it, In it (g_all s) /\ it_id it = i /\ it_type it = Toxic) /\
    (forall it, In it (queue s ++ inflight cs) -> ~ In (it_id it) (toxlog s)) /\
    (forall it f, In (it, f) (g_fates s) -> it_type it = Toxic -> has_cb cfg = true ->
       count_occ Z.eq_dec (toxlog s) (it_id it) = if fate_eqb f Expired then 0%nat else 1%nat).
Proof. exact overlap_toxic_proof. Qed.
Print Assumptions c13_overlap_toxic.

(* The queue bound does not depend on calls being atomic. *)
Theorem c13_overlap_queue_bounded :
  forall cfg ops, 2 <= max_queue cfg ->
    Z.of_nat (List.length (queue (c_base (crun cfg ops)))) <= max_queue cfg.
Proof. exact overlap_queue_bounded_proof. Qed.
Print Assumptions c13_overlap_queue_bounded.

(* The interleaved semantics refines the sequential one: a history of atomic
   calls is [run]; and one digest pass stepped through all its items with
   nothing in between is digest() - same state, same DigestResult. *)
Theorem c13_overlap_refines_sequential :
  (forall cfg ops,
     c_base (crun cfg (map Atomic ops)) = run cfg ops /\ c_open (crun cfg (map Atomic ops)) = []) /\
  (forall cfg p k cs, find_pass p (c_open cs) = None ->
     crun_from cfg cs (PassBegin p k :: repeat (PassStep p) (List.length (to_process k (queue (c_base cs))))) =
     mkC (fst (digest cfg false k (c_base cs))) (c_open cs)
         ((to_process k (queue (c_base cs)), snd (digest cfg false k (c_base cs))) :: c_done cs)).
Proof. exact (conj atomic_run pass_uninterleaved). Qed.
Print Assumptions c13_overlap_refines_sequential.

(* Every step of the interleaved model yields a state and an outcome. *)
Theorem c13_every_call_returns_overlapping :
  forall cfg cs o, exists cs' r, cstep cfg cs o = (cs', r).
Proof. exact cstep_total. Qed.
Print Assumptions c13_every_call_returns_overlapping.
