(* C13 — lemmas.  Part 1: the invariant of the sequential model, by induction
   over histories.  Part 1b: digest passes of several threads overlapping each
   other and every other call, split at their digester calls.  Part 2: the
   abstract lock machine and the compilation of call graphs into it. *)
From Coq Require Import ZArith List Bool Lia Permutation String Arith.
From Coq Require Import ZifyBool.
From Verif Require Import C13.Model.
Import ListNotations.
Open Scope Z_scope.

(* ====================================================================== *)
(* generic list facts                                                       *)

Lemma firstn_len_split {A} : forall n (q : list A),
  firstn (List.length (firstn n q)) q = firstn n q /\
  firstn n q ++ skipn (List.length (firstn n q)) q = q.
Proof.
  induction n; intros q; cbn.
  - split; reflexivity.
  - destruct q as [|x q]; cbn; [split; reflexivity|].
    destruct (IHn q) as [H1 H2]. rewrite H1, H2. split; reflexivity.
Qed.

Lemma filter_partition {A} (f : A -> bool) : forall l,
  Permutation l (filter f l ++ filter (fun x => negb (f x)) l).
Proof.
  induction l as [|x l IH]; cbn; [constructor|].
  destruct (f x); cbn.
  - constructor; exact IH.
  - apply Permutation_cons_app; exact IH.
Qed.

Lemma filter_length_le {A} (f : A -> bool) : forall l,
  (List.length (filter f l) <= List.length l)%nat.
Proof. induction l; cbn; [lia|]. destruct (f a); cbn; lia. Qed.

Lemma NoDup_map_inj {A B} (g : A -> B) : forall l a b,
  NoDup (map g l) -> In a l -> In b l -> g a = g b -> a = b.
Proof.
  induction l as [|x l IH]; intros a b Hnd Ha Hb Hg; [contradiction|].
  cbn in Hnd. inversion Hnd as [|? ? Hnotin Hnd']; subst.
  destruct Ha as [Ha|Ha], Hb as [Hb|Hb]; subst.
  - reflexivity.
  - exfalso. apply Hnotin. rewrite Hg. apply in_map; assumption.
  - exfalso. apply Hnotin. rewrite <- Hg. apply in_map; assumption.
  - eapply IH; eassumption.
Qed.

(* ====================================================================== *)
(* dict facts                                                               *)

Lemma put_in : forall k v d k' v',
  In (k', v') (put k v d) -> (k', v') = (k, v) \/ In (k', v') d.
Proof.
  induction d as [|[k0 v0] d IH]; intros k' v' H; cbn in H.
  - destruct H as [H|[]]; auto.
  - destruct (k <? k0).
    + destruct H as [H|H]; auto.
    + destruct (k =? k0).
      * destruct H as [H|H]; auto. right; right; exact H.
      * destruct H as [H|H]; [right; left; exact H|].
        destruct (IH _ _ H) as [E|E]; auto. right; right; exact E.
Qed.

Lemma put_keys_in : forall ks x d k v,
  In (k, v) (put_keys ks x d) -> (v = x /\ ks <> []) \/ In (k, v) d.
Proof.
  unfold put_keys. induction ks as [|k0 ks IH]; intros x d k v H; cbn in H; auto.
  destruct (IH _ _ _ _ H) as [[E _]|E].
  - left; split; [exact E|discriminate].
  - destruct (put_in _ _ _ _ _ E) as [E'|E']; auto.
    inversion E'; subst. left; split; [reflexivity|discriminate].
Qed.

Lemma merge_in : forall e d k v, In (k, v) (merge e d) -> In (k, v) e \/ In (k, v) d.
Proof.
  unfold merge. induction e as [|[k0 v0] e IH]; intros d k v H; cbn in H; auto.
  destruct (IH _ _ _ H) as [E|E].
  - left; right; exact E.
  - cbn in E. destruct (put_in _ _ _ _ _ E) as [E'|E']; auto.
    left; left; symmetry; exact E'.
Qed.

(* ====================================================================== *)
(* Part 1: the invariant                                                    *)

Definition fated (s : state) : list item := map fst (g_fates s).

Definition counted (f : fate) : bool :=
  match f with Digested | EmergOk => true | _ => false end.

(* every recycled value comes from a fated, non-toxic item *)
Definition binok (s : state) (b : list (Z * Z)) : Prop :=
  forall k v, In (k, v) b ->
    exists it f, In (it, f) (g_fates s) /\ it_id it = v /\ it_type it <> Toxic.

(* [live] = the items that are neither fated nor lost: the queue, between
   calls; the queue plus the items a loop still has to process, inside one *)
Record Inv (cfg : config) (live : list item) (s : state) : Prop := mkInv {
  inv_perm : Permutation (g_all s) (live ++ fated s);
  inv_nodup : NoDup (ids (g_all s));
  inv_fresh : forall it, In it (g_all s) -> it_id it < n_ingested s;
  inv_ning : n_ingested s = lenZ (g_all s);
  inv_ndig : n_digested s = nfate Digested s + nfate EmergOk s;
  inv_tox_nodup : NoDup (toxlog s);
  inv_tox_sound : forall i, In i (toxlog s) ->
      exists it f, In (it, f) (g_fates s) /\ it_id it = i /\ it_type it = Toxic /\
                   f <> Expired /\ has_cb cfg = true;
  inv_tox_complete : forall it f, In (it, f) (g_fates s) -> it_type it = Toxic ->
      f <> Expired -> has_cb cfg = true -> In (it_id it) (toxlog s);
  inv_bin : binok s (bin s)
}.

(* the invariant only reads these components *)
Lemma Inv_same : forall cfg live s s',
  g_all s' = g_all s -> n_ingested s' = n_ingested s -> n_digested s' = n_digested s ->
  toxlog s' = toxlog s -> bin s' = bin s -> g_fates s' = g_fates s ->
  Inv cfg live s -> Inv cfg live s'.
Proof.
  intros cfg live s s' Ha Hn Hd Ht Hb Hf [P1 P2 P3 P4 P5 P6 P7 P8 P9].
  constructor; unfold fated, nfate, with_fate, binok in *; rewrite ?Ha, ?Hn, ?Hd, ?Ht, ?Hb, ?Hf; assumption.
Qed.

(* ... and [live] only up to order *)
Lemma Inv_live_perm : forall cfg live live' s,
  Permutation live live' -> Inv cfg live s -> Inv cfg live' s.
Proof.
  intros cfg live live' s HP [P1 P2 P3 P4 P5 P6 P7 P8 P9]. constructor; try assumption.
  eapply Permutation_trans; [exact P1|]. apply Permutation_app_tail. exact HP.
Qed.

Lemma binok_mono : forall s s' b,
  (forall x, In x (g_fates s) -> In x (g_fates s')) -> binok s b -> binok s' b.
Proof.
  intros s s' b Hm H k v Hin. destruct (H k v Hin) as (it & f & H1 & H2 & H3).
  exists it, f. auto.
Qed.

Lemma nfate_cons : forall s s' it f,
  g_fates s' = (it, f) :: g_fates s ->
  nfate Digested s' + nfate EmergOk s' =
  nfate Digested s + nfate EmergOk s + (if counted f then 1 else 0).
Proof.
  intros s s' it f H. unfold nfate, with_fate. rewrite H.
  destruct f; cbn [filter snd fate_eqb map List.length counted]; lia.
Qed.

Lemma process_log : forall cfg it log pr log',
  process cfg it log = (pr, log') ->
  (log' = log /\ ~ (it_type it = Toxic /\ has_cb cfg = true)) \/
  (log' = it_id it :: log /\ it_type it = Toxic /\ has_cb cfg = true).
Proof.
  intros cfg it log pr log' H. unfold process in H.
  destruct (it_type it) eqn:T; try (inversion H; subst; left; split; [reflexivity|intros [? ?]; discriminate]).
  destruct (has_cb cfg) eqn:C; inversion H; subst.
  - right; auto.
  - left; split; [reflexivity|intros [? ?]; discriminate].
Qed.

Lemma process_keys : forall cfg it log ks log',
  process cfg it log = (POk ks, log') -> ks <> [] -> it_type it <> Toxic.
Proof.
  intros cfg it log ks log' H Hne T. unfold process in H. rewrite T in H.
  destruct (has_cb cfg); [destruct (it_out it)|]; inversion H; subst; apply Hne; reflexivity.
Qed.

Lemma NoDup_app_disj {A} : forall (l1 l2 : list A) x,
  NoDup (l1 ++ l2) -> In x l1 -> In x l2 -> False.
Proof.
  induction l1 as [|a l1 IH]; intros l2 x H H1 H2; [contradiction|].
  cbn in H. inversion H as [|? ? Hn Hnd]; subst.
  destruct H1 as [H1|H1].
  - subst. apply Hn. apply in_or_app; right; exact H2.
  - eapply IH; eassumption.
Qed.

Lemma NoDup_app_r {A} : forall (l1 l2 : list A), NoDup (l1 ++ l2) -> NoDup l2.
Proof.
  induction l1 as [|a l1 IH]; intros l2 H; [exact H|].
  cbn in H. inversion H; subst. apply IH; assumption.
Qed.

Lemma Inv_nodup_live : forall cfg live s,
  Inv cfg live s -> NoDup (ids live ++ ids (fated s)).
Proof.
  intros cfg live s I. unfold ids. rewrite <- map_app.
  eapply Permutation_NoDup; [apply Permutation_map; apply (inv_perm _ _ _ I)|apply (inv_nodup _ _ _ I)].
Qed.

(* an item of [live] and a fated item never share an id *)
Lemma live_not_fated : forall cfg live s it it',
  Inv cfg live s -> In it live -> In it' (fated s) -> it_id it <> it_id it'.
Proof.
  intros cfg live s it it' I Hl Hf E.
  apply (NoDup_app_disj _ _ (it_id it) (Inv_nodup_live _ _ _ I)).
  - apply in_map; exact Hl.
  - rewrite E. apply in_map; exact Hf.
Qed.

Lemma in_fates_fated : forall s it f, In (it, f) (g_fates s) -> In it (fated s).
Proof. intros s it f H. unfold fated. change it with (fst (it, f)). apply in_map; exact H. Qed.

(* the heart: giving the next live item a (non-expiry) fate keeps the invariant *)
Lemma fate_item_inv : forall cfg fok fbad it live s,
  Inv cfg (it :: live) s ->
  counted fok = true -> counted fbad = false -> fbad <> Expired ->
  Inv cfg live (fst (fate_item cfg fok fbad it s)).
Proof.
  intros cfg fok fbad it live s I Hok Hbad HbadE.
  assert (HokE : fok <> Expired) by (intros ->; discriminate).
  unfold fate_item. destruct (process cfg it (toxlog s)) as [pr log'] eqn:P. cbn [fst].
  set (f := match pr with POk _ => fok | PRaise => fbad end).
  assert (HfE : f <> Expired) by (unfold f; destruct pr; assumption).
  assert (Hcnt : (if counted f then 1 else 0) = match pr with POk _ => 1 | PRaise => 0 end).
  { unfold f; destruct pr; [rewrite Hok|rewrite Hbad]; reflexivity. }
  pose proof (process_log _ _ _ _ _ P) as Hlog.
  destruct I as [P1 P2 P3 P4 P5 P6 P7 P8 P9].
  constructor; cbn [g_all n_ingested n_digested toxlog bin g_fates queue].
  - unfold fated; cbn [g_fates map fst]. cbn in P1.
    eapply Permutation_trans; [exact P1|]. apply Permutation_middle.
  - exact P2.
  - exact P3.
  - exact P4.
  - erewrite (nfate_cons s _ it f) by reflexivity. rewrite Hcnt. destruct pr; lia.
  - destruct Hlog as [[-> _]|[-> [T C]]]; [exact P6|].
    constructor; [|exact P6]. intros Hin.
    destruct (P7 _ Hin) as (it' & f' & H1 & H2 & _).
    assert (I0 : Inv cfg (it :: live) s) by (constructor; assumption).
    eapply (live_not_fated _ _ _ it it' I0); [left; reflexivity|eapply in_fates_fated; exact H1|congruence].
  - intros i Hin.
    destruct Hlog as [[-> _]|[-> [T C]]].
    + destruct (P7 _ Hin) as (it' & f' & H1 & H2). exists it', f'. split; [right; exact H1|exact H2].
    + destruct Hin as [<-|Hin].
      * exists it, f. repeat split; auto. left; reflexivity.
      * destruct (P7 _ Hin) as (it' & f' & H1 & H2). exists it', f'. split; [right; exact H1|exact H2].
  - intros it' f' [E|Hin] T HE C.
    + inversion E; subst it' f'.
      destruct Hlog as [[_ Hn]|[-> _]]; [exfalso; apply Hn; auto|left; reflexivity].
    + specialize (P8 _ _ Hin T HE C).
      destruct Hlog as [[-> _]|[-> _]]; [exact P8|right; exact P8].
  - eapply binok_mono; [|exact P9]. intros x Hx; right; exact Hx.
Qed.

Lemma fate_item_facts : forall cfg fok fbad it s,
  let s' := fst (fate_item cfg fok fbad it s) in
  queue s' = queue s /\ bin s' = bin s /\
  (exists f, g_fates s' = (it, f) :: g_fates s) /\
  (forall ks, snd (fate_item cfg fok fbad it s) = POk ks -> ks <> [] -> it_type it <> Toxic).
Proof.
  intros cfg fok fbad it s. unfold fate_item.
  destruct (process cfg it (toxlog s)) as [pr log'] eqn:P. cbn.
  repeat split; eauto.
  intros ks -> Hne. eapply process_keys; eassumption.
Qed.

(* ---- emergency -------------------------------------------------------- *)

Lemma emerg_loop_inv : forall cfg items live s,
  Inv cfg (items ++ live) s -> Inv cfg live (emerg_loop cfg items s).
Proof.
  induction items as [|it items IH]; intros live s I; cbn; [exact I|].
  apply IH. unfold emerg_item. apply fate_item_inv; auto; discriminate.
Qed.

Lemma emerg_loop_queue : forall cfg items s, queue (emerg_loop cfg items s) = queue s.
Proof.
  induction items as [|it items IH]; intros s; cbn; [reflexivity|].
  rewrite IH. unfold emerg_item. apply (fate_item_facts cfg EmergOk EmergFail it s).
Qed.

Lemma emergency_queue : forall cfg s,
  queue (emergency cfg s) =
  skipn (Z.to_nat (Z.of_nat (List.length (queue s)) / 2)) (queue s).
Proof.
  intros cfg s. unfold emergency.
  destruct (Z.to_nat (Z.of_nat (List.length (queue s)) / 2)) eqn:E; [reflexivity|].
  cbn [queue set_queue]. rewrite emerg_loop_queue. reflexivity.
Qed.

(* [ex]: items that are live but not queued - taken by a digest pass of another
   thread that has not processed them yet (Part 1b); [] in a sequential history *)
Lemma emergency_inv : forall cfg s ex,
  Inv cfg (queue s ++ ex) s -> Inv cfg (queue (emergency cfg s) ++ ex) (emergency cfg s).
Proof.
  intros cfg s ex I. rewrite emergency_queue. unfold emergency.
  destruct (Z.to_nat (Z.of_nat (List.length (queue s)) / 2)) as [|n] eqn:E; [exact I|].
  apply (Inv_same cfg _ (emerg_loop cfg (firstn (S n) (queue s)) s)); [reflexivity..|].
  apply emerg_loop_inv. rewrite app_assoc, firstn_skipn. exact I.
Qed.

(* ---- digest ----------------------------------------------------------- *)

Lemma take_split : forall k q,
  to_process k q ++ after_take k q = q /\
  after_take k q = skipn (List.length (to_process k q)) q.
Proof.
  intros k q. unfold after_take, to_process. destruct k as [k|].
  - destruct (k =? 0).
    + rewrite app_nil_r, skipn_all. auto.
    + unfold py_take. destruct (0 <=? k); split; try reflexivity; apply firstn_len_split.
  - rewrite app_nil_r, skipn_all. auto.
Qed.

Lemma digest_item_inv : forall cfg auto it live s r s' r',
  digest_item cfg auto it s r = (s', r') ->
  Inv cfg (it :: live) s -> binok s (d_recycled r) ->
  Inv cfg live s' /\ binok s' (d_recycled r') /\ queue s' = queue s.
Proof.
  intros cfg auto it live s r s' r' H I B. unfold digest_item in H.
  set (fbad := if auto then AutoDiscarded else Reported) in *.
  assert (I' : Inv cfg live (fst (fate_item cfg Digested fbad it s))).
  { apply fate_item_inv; auto; unfold fbad; destruct auto; (reflexivity || discriminate). }
  destruct (fate_item_facts cfg Digested fbad it s) as (Hq & Hb & (f & Hf) & Hk).
  destruct (fate_item cfg Digested fbad it s) as [s1 pr]. cbn [fst snd] in *.
  assert (Bm : binok s1 (d_recycled r)).
  { eapply binok_mono; [|exact B]. intros x Hx. rewrite Hf. right; exact Hx. }
  destruct pr as [ks|].
  - inversion H; subst s' r'; clear H. cbn [d_recycled].
    assert (Bn : binok s1 (put_keys ks (it_id it) (d_recycled r))).
    { intros k v Hin. destruct (put_keys_in _ _ _ _ _ Hin) as [[-> Hne]|Hin'].
      - exists it, f. split; [rewrite Hf; left; reflexivity|]. split; [reflexivity|]. apply (Hk ks); auto.
      - apply (Bm k v); exact Hin'. }
    destruct (nonempty ks).
    + split; [|split].
      * apply (Inv_same cfg live s1); [reflexivity..|exact I'].
      * exact Bn.
      * exact Hq.
    + auto.
  - inversion H; subst s' r'; clear H. cbn [d_recycled]. auto.
Qed.

Lemma digest_loop_inv : forall cfg auto items live s r s' r',
  digest_loop cfg auto items s r = (s', r') ->
  Inv cfg (items ++ live) s -> binok s (d_recycled r) ->
  Inv cfg live s' /\ binok s' (d_recycled r') /\ queue s' = queue s.
Proof.
  induction items as [|it items IH]; intros live s r s' r' H I B; cbn in H.
  - inversion H; subst. auto.
  - destruct (digest_item cfg auto it s r) as [s1 r1] eqn:D.
    destruct (digest_item_inv _ _ _ (items ++ live) _ _ _ _ D I B) as (I1 & B1 & Q1).
    destruct (IH _ _ _ _ _ H I1 B1) as (I2 & B2 & Q2).
    split; [exact I2|split; [exact B2|congruence]].
Qed.

Lemma digest_queue : forall cfg auto k s,
  queue (fst (digest cfg auto k s)) = after_take k (queue s).
Proof.
  intros cfg auto k s. unfold digest.
  destruct (digest_loop cfg auto (to_process k (queue s)) (set_queue s (after_take k (queue s)))
                        (mkDres 0 [] [])) as [s1 r] eqn:D.
  cbn [fst set_bin queue].
  assert (Hq : queue s1 = queue (set_queue s (after_take k (queue s)))).
  { clear -D. revert D. generalize (set_queue s (after_take k (queue s))) as s0.
    generalize (mkDres 0 [] []) as r0. generalize (to_process k (queue s)) as items.
    induction items as [|it items IH]; intros r0 s0 D; cbn in D.
    - inversion D; reflexivity.
    - destruct (digest_item cfg auto it s0 r0) as [s2 r2] eqn:E.
      rewrite (IH _ _ D). unfold digest_item in E.
      destruct (fate_item_facts cfg Digested (if auto then AutoDiscarded else Reported) it s0) as (Hq & _).
      destruct (fate_item cfg Digested (if auto then AutoDiscarded else Reported) it s0) as [s3 pr].
      cbn [fst] in Hq. destruct pr as [ks|]; inversion E; subst; [destruct (nonempty ks)|]; exact Hq. }
  rewrite Hq. reflexivity.
Qed.

Lemma digest_inv : forall cfg auto k s ex,
  Inv cfg (queue s ++ ex) s ->
  Inv cfg (queue (fst (digest cfg auto k s)) ++ ex) (fst (digest cfg auto k s)).
Proof.
  intros cfg auto k s ex I. rewrite digest_queue. unfold digest.
  destruct (take_split k (queue s)) as [Hsplit _].
  destruct (digest_loop cfg auto (to_process k (queue s)) (set_queue s (after_take k (queue s)))
                        (mkDres 0 [] [])) as [s1 r] eqn:D.
  cbn [fst].
  assert (I0 : Inv cfg (to_process k (queue s) ++ (after_take k (queue s) ++ ex))
                   (set_queue s (after_take k (queue s)))).
  { rewrite app_assoc, Hsplit. apply (Inv_same cfg _ s); [reflexivity..|exact I]. }
  assert (B0 : binok (set_queue s (after_take k (queue s))) (d_recycled (mkDres 0 [] []))).
  { intros k0 v []. }
  destruct (digest_loop_inv _ _ _ _ _ _ _ _ D I0 B0) as (I1 & B1 & _).
  destruct I1 as [P1 P2 P3 P4 P5 P6 P7 P8 P9].
  constructor; try assumption.
  cbn [bin set_bin]. intros k0 v Hin.
  destruct (merge_in _ _ _ _ Hin) as [E|E]; [apply (B1 k0 v)|apply (P9 k0 v)]; exact E.
Qed.

(* ---- ingest ----------------------------------------------------------- *)

Lemma lenZ_cons {A} : forall (x : A) l, lenZ (x :: l) = lenZ l + 1.
Proof. intros; unfold lenZ; cbn [List.length]; lia. Qed.

Lemma ingest_inv : forall cfg t c o s ex,
  Inv cfg (queue s ++ ex) s -> Inv cfg (queue (ingest cfg t c o s) ++ ex) (ingest cfg t c o s).
Proof.
  intros cfg t c o s ex I. unfold ingest.
  set (s1 := if max_queue cfg <=? qlen s then emergency cfg s else s).
  assert (I1 : Inv cfg (queue s1 ++ ex) s1).
  { unfold s1. destruct (max_queue cfg <=? qlen s); [apply emergency_inv|]; exact I. }
  clearbody s1. clear I s.
  set (it := mkItem (n_ingested s1) t c o).
  match goal with |- context [if _ then fst (digest _ _ _ ?S) else _] => set (s2 := S) end.
  assert (I2 : Inv cfg (queue s2 ++ ex) s2).
  { destruct I1 as [P1 P2 P3 P4 P5 P6 P7 P8 P9].
    constructor; unfold s2; cbn [queue g_all n_ingested n_digested toxlog bin g_fates];
      unfold fated, nfate, with_fate, binok in *; cbn [g_fates]; try assumption.
    - rewrite <- !app_assoc. cbn [app]. apply Permutation_cons_app. rewrite <- app_assoc in P1. exact P1.
    - cbn [ids map]. constructor; [|exact P2]. intros Hin.
      apply in_map_iff in Hin. destruct Hin as (x & Hx & Hin).
      specialize (P3 _ Hin). cbn [it_id it] in Hx. lia.
    - intros x [<-|Hx]; [cbn; lia|]. specialize (P3 _ Hx). lia.
    - rewrite lenZ_cons. lia. }
  destruct (auto_thr cfg <=? qlen s2); [apply digest_inv|]; exact I2.
Qed.

(* ---- autophagy -------------------------------------------------------- *)

Lemma filter_expired_none : forall f (l : list item), f <> Expired ->
  filter (fun p : item * fate => fate_eqb (snd p) f) (map (fun it => (it, Expired)) l) = [].
Proof.
  intros f l Hf. induction l as [|x l IH]; cbn; [reflexivity|].
  destruct f; try exact IH. contradiction.
Qed.

Lemma nfate_autophagy : forall f s gone s',
  f <> Expired -> g_fates s' = map (fun it => (it, Expired)) gone ++ g_fates s ->
  nfate f s' = nfate f s.
Proof.
  intros f s gone s' Hf H. unfold nfate, with_fate. rewrite H, filter_app, filter_expired_none by exact Hf.
  reflexivity.
Qed.

Lemma autophagy_inv : forall cfg s ex,
  Inv cfg (queue s ++ ex) s ->
  Inv cfg (queue (fst (autophagy cfg s)) ++ ex) (fst (autophagy cfg s)).
Proof.
  intros cfg s ex [P1 P2 P3 P4 P5 P6 P7 P8 P9]. unfold autophagy. cbn [fst queue].
  set (keep := filter (fresh cfg (now s)) (queue s)).
  set (gone := filter (fun it => negb (fresh cfg (now s) it)) (queue s)).
  constructor; cbn [g_all n_ingested n_digested toxlog bin g_fates]; try assumption.
  - unfold fated; cbn [g_fates]. rewrite map_app, map_map. cbn [fst]. rewrite map_id.
    eapply Permutation_trans; [exact P1|]. rewrite app_assoc.
    apply Permutation_app_tail.
    eapply Permutation_trans; [apply Permutation_app_tail; apply (filter_partition (fresh cfg (now s)))|].
    fold keep gone. rewrite <- !app_assoc. apply Permutation_app_head. apply Permutation_app_comm.
  - rewrite (nfate_autophagy Digested s gone), (nfate_autophagy EmergOk s gone); try discriminate; try reflexivity.
    exact P5.
  - intros i Hin. destruct (P7 _ Hin) as (it & f & H1 & H2). exists it, f.
    split; [apply in_or_app; right; exact H1|exact H2].
  - intros it f Hin T HE C. apply in_app_or in Hin. destruct Hin as [Hin|Hin].
    + apply in_map_iff in Hin. destruct Hin as (x & E & _). inversion E; subst. exfalso; apply HE; reflexivity.
    + eapply P8; eassumption.
  - eapply binok_mono; [|exact P9]. intros x Hx. cbn [g_fates]. apply in_or_app; right; exact Hx.
Qed.

(* ---- all histories ---------------------------------------------------- *)

Lemma init_inv : forall cfg, Inv cfg (queue init) init.
Proof.
  intros cfg. constructor; cbn.
  - constructor.
  - constructor.
  - intros it [].
  - reflexivity.
  - reflexivity.
  - constructor.
  - intros i [].
  - intros it f [].
  - intros k v [].
Qed.

Lemma step_inv_fr : forall cfg s o ex,
  Inv cfg (queue s ++ ex) s -> Inv cfg (queue (fst (step cfg s o)) ++ ex) (fst (step cfg s o)).
Proof.
  intros cfg s o ex I. destruct o; cbn [step].
  - apply ingest_inv; exact I.
  - apply ingest_inv; exact I.
  - apply ingest_inv; exact I.
  - pose proof (digest_inv cfg false k s ex I) as H.
    destruct (digest cfg false k s) as [s' r]. exact H.
  - destruct (sweepable cfg s); [|exact I].
    pose proof (autophagy_inv cfg s ex I) as H.
    destruct (autophagy cfg s) as [s' n]. exact H.
  - cbn [fst]. apply (Inv_same cfg _ s); [reflexivity..|exact I].
  - (* clear_recycling_bin: only the bin changes, and nothing is in it *)
    cbn [fst]. destruct I as [P1 P2 P3 P4 P5 P6 P7 P8 P9].
    constructor; try assumption. cbn [bin set_bin]. intros k v [].
  - apply ingest_inv; exact I.
  - (* digest(<not an integer>) raises: nothing changed *)
    exact I.
Qed.

Lemma step_inv : forall cfg s o,
  Inv cfg (queue s) s -> Inv cfg (queue (fst (step cfg s o))) (fst (step cfg s o)).
Proof.
  intros cfg s o I. rewrite <- (app_nil_r (queue (fst (step cfg s o)))).
  apply step_inv_fr. rewrite app_nil_r. exact I.
Qed.

Lemma run_from_inv : forall cfg ops s,
  Inv cfg (queue s) s ->
  let s' := fold_left (fun s o => fst (step cfg s o)) ops s in Inv cfg (queue s') s'.
Proof.
  induction ops as [|o ops IH]; intros s I; cbn; [exact I|].
  apply IH. apply step_inv. exact I.
Qed.

Lemma run_inv : forall cfg ops, Inv cfg (queue (run cfg ops)) (run cfg ops).
Proof. intros. unfold run. apply run_from_inv. apply init_inv. Qed.

(* ====================================================================== *)
(* the property conjuncts, for all histories                                *)

Lemma fates_count : forall l : list (item * fate),
  Z.of_nat (List.length l) =
    Z.of_nat (List.length (filter (fun p => fate_eqb (snd p) Digested) l))
  + Z.of_nat (List.length (filter (fun p => fate_eqb (snd p) Reported) l))
  + Z.of_nat (List.length (filter (fun p => fate_eqb (snd p) AutoDiscarded) l))
  + Z.of_nat (List.length (filter (fun p => fate_eqb (snd p) EmergOk) l))
  + Z.of_nat (List.length (filter (fun p => fate_eqb (snd p) EmergFail) l))
  + Z.of_nat (List.length (filter (fun p => fate_eqb (snd p) Expired) l)).
Proof.
  induction l as [|[it f] l IH]; [reflexivity|].
  destruct f; cbn [filter snd fate_eqb List.length]; lia.
Qed.

Lemma nfate_total : forall s,
  lenZ (g_fates s) = nfate Digested s + nfate Reported s + nfate AutoDiscarded s
                     + nfate EmergOk s + nfate EmergFail s + nfate Expired s.
Proof.
  intros s. unfold nfate, with_fate, lenZ. rewrite !map_length. apply fates_count.
Qed.

Lemma fate_unique : forall cfg live s it f it' f',
  Inv cfg live s -> In (it, f) (g_fates s) -> In (it', f') (g_fates s) ->
  it_id it = it_id it' -> it = it' /\ f = f'.
Proof.
  intros cfg live s it f it' f' I H1 H2 E.
  pose proof (Inv_nodup_live _ _ _ I) as Hnd. apply NoDup_app_r in Hnd.
  unfold ids, fated in Hnd. rewrite map_map in Hnd.
  assert (X : (it, f) = (it', f')).
  { eapply (NoDup_map_inj (fun p : item * fate => it_id (fst p))); eauto. }
  inversion X; auto.
Qed.

Definition conservation_stmt (cfg : config) (ops : list op) : Prop :=
  let s := run cfg ops in
  Permutation (g_all s) (queue s ++ map fst (g_fates s)) /\
  NoDup (ids (queue s) ++ ids (map fst (g_fates s))) /\
  (forall i, In i (ids (g_all s)) <->
             In i (ids (queue s)) \/ In i (ids (map fst (g_fates s)))) /\
  (forall it f it' f', In (it, f) (g_fates s) -> In (it', f') (g_fates s) ->
                       it_id it = it_id it' -> it = it' /\ f = f') /\
  n_ingested s = lenZ (g_all s) /\
  n_digested s = nfate Digested s + nfate EmergOk s /\
  n_ingested s = qlen s + n_digested s + nfate Reported s + nfate AutoDiscarded s
                 + nfate EmergFail s + nfate Expired s.

Lemma conservation_proof : forall cfg ops, conservation_stmt cfg ops.
Proof.
  intros cfg ops. unfold conservation_stmt. cbv zeta.
  pose proof (run_inv cfg ops) as I. set (s := run cfg ops) in *.
  pose proof (inv_perm _ _ _ I) as P1. fold (fated s).
  split; [exact P1|].
  split; [apply (Inv_nodup_live _ _ _ I)|].
  split.
  { intros i. unfold ids. rewrite <- in_app_iff, <- map_app. split; intros H.
    - eapply Permutation_in; [apply Permutation_map; exact P1|exact H].
    - eapply Permutation_in; [apply Permutation_map; apply Permutation_sym; exact P1|exact H]. }
  split; [intros; eapply fate_unique; eauto|].
  split; [apply (inv_ning _ _ _ I)|].
  split; [apply (inv_ndig _ _ _ I)|].
  rewrite (inv_ning _ _ _ I), (inv_ndig _ _ _ I).
  pose proof (Permutation_length P1) as L. rewrite app_length in L.
  unfold fated in L. rewrite map_length in L.
  pose proof (nfate_total s) as T. unfold lenZ, qlen in *. lia.
Qed.

(* ---- bounded queue ---------------------------------------------------- *)

Lemma after_take_le : forall k q, (List.length (after_take k q) <= List.length q)%nat.
Proof.
  intros k q. destruct (take_split k q) as [_ ->]. rewrite skipn_length. lia.
Qed.

Lemma ingest_bounded : forall cfg t c o s,
  2 <= max_queue cfg -> qlen s <= max_queue cfg -> qlen (ingest cfg t c o s) <= max_queue cfg.
Proof.
  intros cfg t c o s Hmax Hq. unfold ingest.
  set (s1 := if max_queue cfg <=? qlen s then emergency cfg s else s).
  assert (H1 : qlen s1 + 1 <= max_queue cfg).
  { unfold s1. destruct (max_queue cfg <=? qlen s) eqn:E; [|lia].
    unfold qlen in *. rewrite emergency_queue, skipn_length.
    pose proof (Z.div_mod (Z.of_nat (List.length (queue s))) 2 ltac:(lia)) as D.
    pose proof (Z.mod_pos_bound (Z.of_nat (List.length (queue s))) 2 ltac:(lia)) as M.
    set (h := Z.of_nat (List.length (queue s)) / 2) in *. lia. }
  clearbody s1.
  match goal with |- context [if _ then fst (digest _ _ _ ?S) else _] => set (s2 := S) end.
  assert (H2 : qlen s2 = qlen s1 + 1).
  { unfold s2, qlen; cbn [queue]. rewrite app_length; cbn [List.length]. lia. }
  destruct (auto_thr cfg <=? qlen s2); [|lia].
  unfold qlen in *. rewrite digest_queue.
  pose proof (after_take_le (Some (Z.of_nat (List.length (queue s2)) / 2)) (queue s2)). lia.
Qed.

Lemma step_bounded : forall cfg s o,
  2 <= max_queue cfg -> qlen s <= max_queue cfg -> qlen (fst (step cfg s o)) <= max_queue cfg.
Proof.
  intros cfg s o Hmax Hq. destruct o; cbn [step].
  - apply ingest_bounded; assumption.
  - apply ingest_bounded; assumption.
  - apply ingest_bounded; assumption.
  - pose proof (digest_queue cfg false k s) as Q.
    destruct (digest cfg false k s) as [s' r]. cbn [fst] in *. unfold qlen in *. rewrite Q.
    pose proof (after_take_le k (queue s)). lia.
  - destruct (sweepable cfg s); [|exact Hq].
    unfold autophagy, qlen in *. cbn [fst queue].
    pose proof (filter_length_le (fresh cfg (now s)) (queue s)). lia.
  - exact Hq.
  - exact Hq.
  - apply ingest_bounded; assumption.
  - exact Hq.
Qed.

Lemma queue_bounded_proof : forall cfg ops,
  2 <= max_queue cfg -> qlen (run cfg ops) <= max_queue cfg.
Proof.
  intros cfg ops Hmax. unfold run.
  assert (G : forall s, qlen s <= max_queue cfg ->
                        qlen (fold_left (fun s o => fst (step cfg s o)) ops s) <= max_queue cfg).
  { induction ops as [|o ops IH]; intros s Hs; cbn; [exact Hs|].
    apply IH. apply step_bounded; assumption. }
  apply G. unfold qlen; cbn. lia.
Qed.

(* ---- toxic items ------------------------------------------------------ *)

Lemma fated_in_all : forall cfg live s it f,
  Inv cfg live s -> In (it, f) (g_fates s) -> In it (g_all s).
Proof.
  intros cfg live s it f I H.
  eapply Permutation_in; [apply Permutation_sym; apply (inv_perm _ _ _ I)|].
  apply in_or_app; right. eapply in_fates_fated; exact H.
Qed.

Lemma toxic_never_recycled_proof : forall cfg ops k v it,
  let s := run cfg ops in
  In (k, v) (bin s) -> In it (g_all s) -> it_id it = v -> it_type it <> Toxic.
Proof.
  intros cfg ops k v it s Hb Hit Hid.
  pose proof (run_inv cfg ops) as I. fold s in I.
  destruct (inv_bin _ _ _ I k v Hb) as (it' & f & H1 & H2 & H3).
  assert (it = it').
  { eapply (NoDup_map_inj it_id); [apply (inv_nodup _ _ _ I)|exact Hit|eapply fated_in_all; eauto|congruence]. }
  subst it'. exact H3.
Qed.

Definition toxic_callback_stmt (cfg : config) (ops : list op) : Prop :=
  let s := run cfg ops in
  (* at most once, ever *)
  (forall i, (count_occ Z.eq_dec (toxlog s) i <= 1)%nat) /\
  (* only for sensitive items that were ingested, and only if on_toxic is set *)
  (forall i, In i (toxlog s) ->
     has_cb cfg = true /\ exists it, In it (g_all s) /\ it_id it = i /\ it_type it = Toxic) /\
  (* never while the item is still queued *)
  (forall it, In it (queue s) -> ~ In (it_id it) (toxlog s)) /\
  (* exactly once for every sensitive item that was digested or
     emergency-processed (whether on_toxic returned or raised); never for
     one that autophagy expired *)
  (forall it f, In (it, f) (g_fates s) -> it_type it = Toxic -> has_cb cfg = true ->
     count_occ Z.eq_dec (toxlog s) (it_id it) = if fate_eqb f Expired then 0%nat else 1%nat).

Lemma fate_eqb_spec : forall a b, fate_eqb a b = true <-> a = b.
Proof. intros a b; destruct a, b; cbn; split; intros H; try reflexivity; try discriminate. Qed.

Lemma toxic_callback_proof : forall cfg ops, toxic_callback_stmt cfg ops.
Proof.
  intros cfg ops. unfold toxic_callback_stmt. cbv zeta.
  pose proof (run_inv cfg ops) as I. set (s := run cfg ops) in *.
  pose proof (inv_tox_nodup _ _ _ I) as Hnd.
  split; [intros i; apply (proj1 (NoDup_count_occ Z.eq_dec _) Hnd)|].
  split.
  { intros i Hin. destruct (inv_tox_sound _ _ _ I i Hin) as (it & f & H1 & H2 & H3 & _ & H5).
    split; [exact H5|]. exists it. split; [eapply fated_in_all; eauto|auto]. }
  split.
  { intros it Hq Hin. destruct (inv_tox_sound _ _ _ I _ Hin) as (it' & f & H1 & H2 & _).
    eapply (live_not_fated _ _ _ it it' I Hq); [eapply in_fates_fated; exact H1|congruence]. }
  intros it f Hf T C.
  destruct (fate_eqb f Expired) eqn:E.
  - apply fate_eqb_spec in E. subst f. apply count_occ_not_In. intros Hin.
    destruct (inv_tox_sound _ _ _ I _ Hin) as (it' & f' & H1 & H2 & _ & H4 & _).
    destruct (fate_unique _ _ _ _ _ _ _ I Hf H1 (eq_sym H2)) as [_ X]. congruence.
  - assert (HE : f <> Expired) by (intros ->; cbn in E; discriminate).
    apply (proj1 (NoDup_count_occ' Z.eq_dec _) Hnd).
    eapply (inv_tox_complete _ _ _ I); eauto.
Qed.

(* ---- every model call returns ----------------------------------------- *)

Lemma step_total : forall cfg s o, exists s' r, step cfg s o = (s', r).
Proof. intros cfg s o. destruct (step cfg s o) as [s' r]. eauto. Qed.

(* ---- error paths (Part 1f) --------------------------------------------- *)

(* which calls raise, exactly: digest(<not an integer>), and autophagy() over a
   queue holding an item the retention comparison raises on; and a call that
   raises leaves the object exactly as it was - queue, counters, recycling
   bin, on_toxic log, and the ghost fates *)
Lemma raising_call_proof : forall cfg s o,
  (snd (step cfg s o) = RRaised <-> (o = DigestBad \/ (o = Autophagy /\ sweepable cfg s = false))) /\
  (snd (step cfg s o) = RRaised -> fst (step cfg s o) = s).
Proof.
  intros cfg s o. destruct o; cbn [step fst snd];
    try (split; [split; [discriminate|intros [H|[H _]]; discriminate]|discriminate]).
  - (* digest(k) *)
    destruct (digest cfg false k s) as [s' r]. cbn [snd].
    split; [split; [discriminate|intros [H|[H _]]; discriminate]|discriminate].
  - (* autophagy *)
    destruct (sweepable cfg s) eqn:E.
    + destruct (autophagy cfg s) as [s' n]. cbn [snd].
      split; [split; [discriminate|intros [H|[_ H]]; discriminate]|discriminate].
    + cbn [fst snd]. split; [split; auto|reflexivity].
  - (* digest(<not an integer>) *)
    split; [split; auto|reflexivity].
Qed.

(* ... so autophagy() raises exactly when some queued item cannot be compared *)
Lemma sweepable_false : forall cfg s,
  sweepable cfg s = false <-> exists it, In it (queue s) /\ comparable cfg it = false.
Proof.
  intros cfg s. unfold sweepable. split.
  - intros H. induction (queue s) as [|x l IH]; cbn [forallb] in H; [discriminate|].
    destruct (comparable cfg x) eqn:C.
    + destruct (IH H) as (it & Hin & Hc). exists it. split; [right; exact Hin|exact Hc].
    + exists x. split; [left; reflexivity|exact C].
  - intros (it & Hin & Hc). destruct (forallb (comparable cfg) (queue s)) eqn:F; [|reflexivity].
    rewrite forallb_forall in F. rewrite (F it Hin) in Hc. discriminate.
Qed.

Lemma raising_calls_proof : forall cfg s o,
  (snd (step cfg s o) = RRaised <->
     (o = DigestBad \/ (o = Autophagy /\ exists it, In it (queue s) /\ comparable cfg it = false))) /\
  (snd (step cfg s o) = RRaised -> fst (step cfg s o) = s).
Proof.
  intros cfg s o. destruct (raising_call_proof cfg s o) as [A B]. split; [|exact B].
  rewrite A. rewrite sweepable_false. reflexivity.
Qed.

(* ====================================================================== *)
(* Part 1b: overlapping digest passes                                       *)

(* ---- which fates a call adds ------------------------------------------ *)

Lemma process_verdict : forall cfg it log, fst (process cfg it log) = verdict cfg it.
Proof.
  intros cfg it log. unfold verdict, process.
  destruct (it_type it); try reflexivity. destruct (has_cb cfg); reflexivity.
Qed.

Lemma fate_item_fates : forall cfg fok fbad it s,
  g_fates (fst (fate_item cfg fok fbad it s)) =
    (it, match verdict cfg it with POk _ => fok | PRaise => fbad end) :: g_fates s /\
  snd (fate_item cfg fok fbad it s) = verdict cfg it.
Proof.
  intros cfg fok fbad it s. unfold fate_item.
  pose proof (process_verdict cfg it (toxlog s)) as V.
  destruct (process cfg it (toxlog s)) as [pr log']. cbn [fst snd] in *. subst pr. split; reflexivity.
Qed.

(* fates are only ever added *)
Definition norep (new : list (item * fate)) : Prop := Forall (fun p => snd p <> Reported) new.

Definition grows (s s' : state) (new : list (item * fate)) : Prop := g_fates s' = new ++ g_fates s.

Lemma norep_filter : forall new, norep new ->
  filter (fun p : item * fate => fate_eqb (snd p) Reported) new = [].
Proof.
  induction new as [|[it f] new IH]; intros H; [reflexivity|].
  inversion H as [|? ? Hf Hr]; subst. cbn [filter snd] in *.
  destruct f; cbn [fate_eqb]; try (apply IH; exact Hr). exfalso; apply Hf; reflexivity.
Qed.

Lemma grows_rep_same : forall s s' new, grows s s' new -> norep new ->
  with_fate Reported s' = with_fate Reported s.
Proof.
  intros s s' new G N. unfold with_fate. rewrite G, filter_app, (norep_filter _ N). reflexivity.
Qed.

Lemma grows_mono : forall s s' new x, grows s s' new -> In x (g_fates s) -> In x (g_fates s').
Proof. intros s s' new x G H. rewrite G. apply in_or_app; right; exact H. Qed.

Lemma emerg_loop_grows : forall cfg items s,
  exists new, grows s (emerg_loop cfg items s) new /\ norep new.
Proof.
  induction items as [|it items IH]; intros s; cbn [emerg_loop].
  - exists []. split; [reflexivity|constructor].
  - destruct (IH (emerg_item cfg it s)) as (new & G & N).
    destruct (fate_item_fates cfg EmergOk EmergFail it s) as [F _].
    exists (new ++ [(it, match verdict cfg it with POk _ => EmergOk | PRaise => EmergFail end)]).
    split.
    + unfold grows in *. rewrite G. unfold emerg_item. rewrite F, <- app_assoc. reflexivity.
    + apply Forall_app. split; [exact N|]. constructor; [|constructor].
      cbn [snd]. destruct (verdict cfg it); discriminate.
Qed.

Lemma emergency_grows : forall cfg s, exists new, grows s (emergency cfg s) new /\ norep new.
Proof.
  intros cfg s. unfold emergency.
  destruct (Z.to_nat (Z.of_nat (List.length (queue s)) / 2)) as [|n].
  - exists []. split; [reflexivity|constructor].
  - destruct (emerg_loop_grows cfg (firstn (S n) (queue s)) s) as (new & G & N).
    exists new. split; [exact G|exact N].
Qed.

Definition dfate (cfg : config) (auto : bool) (it : item) : fate :=
  if raises cfg it then (if auto then AutoDiscarded else Reported) else Digested.

Definition count_ok (cfg : config) (l : list item) : Z :=
  lenZ (filter (fun it => negb (raises cfg it)) l).

Lemma digest_item_fates : forall cfg auto it s r s' r',
  digest_item cfg auto it s r = (s', r') ->
  g_fates s' = (it, dfate cfg auto it) :: g_fates s /\
  d_disposed r' = d_disposed r + (if raises cfg it then 0 else 1) /\
  d_errors r' = (if raises cfg it then [it_id it] else []) ++ d_errors r.
Proof.
  intros cfg auto it s r s' r' H. unfold digest_item in H.
  destruct (fate_item_fates cfg Digested (if auto then AutoDiscarded else Reported) it s) as [F V].
  destruct (fate_item cfg Digested (if auto then AutoDiscarded else Reported) it s) as [s1 pr].
  cbn [fst snd] in *. subst pr. unfold dfate, raises.
  destruct (verdict cfg it) as [ks|]; inversion H; subst; cbn [d_disposed d_errors app].
  - split; [|split; [lia|reflexivity]]. destruct (nonempty ks); exact F.
  - split; [exact F|split; [lia|reflexivity]].
Qed.

Lemma digest_loop_fates : forall cfg auto items s r s' r',
  digest_loop cfg auto items s r = (s', r') ->
  g_fates s' = rev (map (fun it => (it, dfate cfg auto it)) items) ++ g_fates s /\
  d_disposed r' = d_disposed r + count_ok cfg items /\
  d_errors r' = rev (ids (filter (raises cfg) items)) ++ d_errors r.
Proof.
  induction items as [|it items IH]; intros s r s' r' H; cbn [digest_loop] in H.
  - inversion H; subst. unfold count_ok, lenZ. cbn. split; [reflexivity|split; [lia|reflexivity]].
  - destruct (digest_item cfg auto it s r) as [s1 r1] eqn:D.
    destruct (digest_item_fates _ _ _ _ _ _ _ D) as (F1 & D1 & E1).
    destruct (IH _ _ _ _ H) as (F2 & D2 & E2).
    split; [|split].
    + rewrite F2, F1. cbn [map rev]. rewrite <- app_assoc. reflexivity.
    + rewrite D2, D1. unfold count_ok, lenZ. cbn [filter].
      destruct (raises cfg it); cbn [negb List.length]; lia.
    + rewrite E2, E1. cbn [filter]. destruct (raises cfg it); cbn [ids map rev app]; [|reflexivity].
      unfold ids. rewrite <- app_assoc. reflexivity.
Qed.

Lemma norep_dfate_auto : forall cfg items,
  norep (rev (map (fun it => (it, dfate cfg true it)) items)).
Proof.
  intros cfg items. apply Forall_rev. apply Forall_forall. intros p Hp.
  apply in_map_iff in Hp. destruct Hp as (it & <- & _). cbn [snd]. unfold dfate.
  destruct (raises cfg it); discriminate.
Qed.

Lemma digest_grows : forall cfg auto k s,
  let items := to_process k (queue s) in
  let '(s', r) := digest cfg auto k s in
  grows s s' (rev (map (fun it => (it, dfate cfg auto it)) items)) /\
  d_disposed r = count_ok cfg items /\
  d_errors r = rev (ids (filter (raises cfg) items)).
Proof.
  intros cfg auto k s items. unfold digest. fold items.
  destruct (digest_loop cfg auto items (set_queue s (after_take k (queue s))) (mkDres 0 [] [])) as [s1 r] eqn:D.
  destruct (digest_loop_fates _ _ _ _ _ _ _ D) as (F & Dd & E).
  cbn [d_disposed d_errors] in *. rewrite app_nil_r in E.
  split; [|split; [lia|exact E]]. unfold grows. cbn [g_fates set_bin]. exact F.
Qed.

Lemma ingest_grows : forall cfg t c o s, exists new, grows s (ingest cfg t c o s) new /\ norep new.
Proof.
  intros cfg t c o s. unfold ingest.
  set (s1 := if max_queue cfg <=? qlen s then emergency cfg s else s).
  assert (G1 : exists new, grows s s1 new /\ norep new).
  { unfold s1. destruct (max_queue cfg <=? qlen s); [apply emergency_grows|].
    exists []. split; [reflexivity|constructor]. }
  destruct G1 as (n1 & G1 & N1).
  match goal with |- context [if _ then fst (digest _ _ _ ?S) else _] => set (s2 := S) end.
  assert (G2 : grows s s2 n1) by (unfold grows, s2; cbn [g_fates]; exact G1).
  destruct (auto_thr cfg <=? qlen s2).
  - pose proof (digest_grows cfg true (Some (qlen s2 / 2)) s2) as H. cbv zeta in H.
    destruct (digest cfg true (Some (qlen s2 / 2)) s2) as [s3 r]. destruct H as (G3 & _). cbn [fst].
    eexists. split.
    + unfold grows in *. rewrite G3, G2, app_assoc. reflexivity.
    + apply Forall_app. split; [apply norep_dfate_auto|exact N1].
  - exists n1. split; assumption.
Qed.

Lemma autophagy_grows : forall cfg s, exists new, grows s (fst (autophagy cfg s)) new /\ norep new.
Proof.
  intros cfg s. unfold autophagy. cbn [fst].
  eexists. split; [unfold grows; cbn [g_fates]; reflexivity|].
  apply Forall_forall. intros p Hp. apply in_map_iff in Hp. destruct Hp as (it & <- & _). discriminate.
Qed.

(* ---- the list of open passes ------------------------------------------- *)

Lemma find_pass_split : forall p l ps,
  find_pass p l = Some ps ->
  exists l1 l2, l = l1 ++ ps :: l2 /\
    forall new, set_pass p new l = l1 ++ (match new with Some y => [y] | None => [] end) ++ l2.
Proof.
  induction l as [|x l IH]; intros ps H; cbn [find_pass] in H; [discriminate|].
  destruct (p_id x =? p) eqn:E.
  - inversion H; subst x. exists [], l. split; [reflexivity|].
    intros new. cbn [set_pass]. rewrite E. destruct new; reflexivity.
  - destruct (IH _ H) as (l1 & l2 & -> & S). exists (x :: l1), l2. split; [reflexivity|].
    intros new. cbn [set_pass]. rewrite E, S. reflexivity.
Qed.

Lemma perm_count : forall l1 l2 : list Z,
  (forall x, count_occ Z.eq_dec l1 x = count_occ Z.eq_dec l2 x) -> Permutation l1 l2.
Proof. intros l1 l2 H. apply (Permutation_count_occ Z.eq_dec). exact H. Qed.

(* the DigestResult [r] accounts for the processed items [l] *)
Lemma accounts_nil : forall cfg, accounts cfg [] dres0.
Proof. intros cfg. split; reflexivity. Qed.

Lemma accounts_snoc : forall cfg l r it r',
  accounts cfg l r ->
  d_disposed r' = d_disposed r + (if raises cfg it then 0 else 1) ->
  d_errors r' = (if raises cfg it then [it_id it] else []) ++ d_errors r ->
  accounts cfg (l ++ [it]) r'.
Proof.
  intros cfg l r it r' [A1 A2] D E. unfold accounts. rewrite !filter_app. cbn [filter].
  rewrite D, E, A1. unfold lenZ, ids in *. rewrite !app_length, map_app, <- A2.
  destruct (raises cfg it); cbn [negb List.length map app rev]; split; try lia; try reflexivity.
  - rewrite app_nil_r. reflexivity.
Qed.

(* ---- the invariant of the interleaved semantics ----------------------- *)

Definition fated_as (cfg : config) (s : state) (it : item) : Prop :=
  In (it, pass_fate cfg it) (g_fates s).

Record CInv (cfg : config) (cs : cstate) : Prop := mkCInv {
  ci_inv : Inv cfg (queue (c_base cs) ++ inflight cs) (c_base cs);
  ci_bin : forall ps, In ps (c_open cs) -> binok (c_base cs) (d_recycled (p_res ps));
  ci_rep : Permutation (reported_ids cs) (ids (with_fate Reported (c_base cs)));
  ci_done : forall taken r, In (taken, r) (c_done cs) ->
      accounts cfg taken r /\ forall it, In it taken -> fated_as cfg (c_base cs) it;
  ci_open : forall ps, In ps (c_open cs) ->
      p_todo ps <> [] /\
      exists pre, p_taken ps = pre ++ p_todo ps /\ accounts cfg pre (p_res ps) /\
                  forall it, In it pre -> fated_as cfg (c_base cs) it
}.

Lemma cinit_inv : forall cfg, CInv cfg cinit.
Proof.
  intros cfg. constructor; cbn.
  - apply init_inv.
  - intros ps [].
  - constructor.
  - intros taken r [].
  - intros ps [].
Qed.

(* everything except ci_inv and ci_rep is stable when fates are only added *)
Lemma CInv_grow : forall cfg cs s' new,
  grows (c_base cs) s' new ->
  CInv cfg cs ->
  (forall ps, In ps (c_open cs) -> binok s' (d_recycled (p_res ps))) /\
  (forall taken r, In (taken, r) (c_done cs) ->
      accounts cfg taken r /\ forall it, In it taken -> fated_as cfg s' it) /\
  (forall ps, In ps (c_open cs) ->
      p_todo ps <> [] /\
      exists pre, p_taken ps = pre ++ p_todo ps /\ accounts cfg pre (p_res ps) /\
                  forall it, In it pre -> fated_as cfg s' it).
Proof.
  intros cfg cs s' new G [I B R D O]. split; [|split].
  - intros ps H. eapply binok_mono; [|apply B; exact H]. intros x Hx. eapply grows_mono; eassumption.
  - intros taken r H. destruct (D _ _ H) as [A F]. split; [exact A|].
    intros it Hit. unfold fated_as. eapply grows_mono; [exact G|apply F; exact Hit].
  - intros ps H. destruct (O _ H) as (N & pre & E & A & F). split; [exact N|].
    exists pre. split; [exact E|split; [exact A|]].
    intros it Hit. unfold fated_as. eapply grows_mono; [exact G|apply F; exact Hit].
Qed.

Lemma step_grows : forall cfg s o,
  exists new, grows s (fst (step cfg s o)) new /\
    (norep new \/ exists k, o = DigestOp k).
Proof.
  intros cfg s o. destruct o; cbn [step].
  - destruct (ingest_grows cfg t (At (now s + off)) o s) as (n & G & N). exists n; auto.
  - destruct (ingest_grows cfg FailedOp (At (now s)) o s) as (n & G & N). exists n; auto.
  - destruct (ingest_grows cfg Toxic (At (now s)) o s) as (n & G & N). exists n; auto.
  - pose proof (digest_grows cfg false k s) as H. cbv zeta in H.
    destruct (digest cfg false k s) as [s' r]. destruct H as (G & _). cbn [fst].
    eexists. split; [exact G|right; eauto].
  - destruct (sweepable cfg s).
    + destruct (autophagy_grows cfg s) as (n & G & N).
      destruct (autophagy cfg s) as [s' m]. exists n; auto.
    + exists []. cbn [fst]. split; [reflexivity|left; constructor].
  - exists []. cbn [fst]. split; [reflexivity|left; constructor].
  - exists []. cbn [fst]. split; [reflexivity|left; constructor].
  - destruct (ingest_grows cfg t Odd o s) as (n & G & N). exists n; auto.
  - exists []. cbn [fst]. split; [reflexivity|left; constructor].
Qed.

Lemma with_fate_rev_dfate : forall cfg items,
  ids (map fst (filter (fun p : item * fate => fate_eqb (snd p) Reported)
                       (rev (map (fun it => (it, dfate cfg false it)) items)))) =
  rev (ids (filter (raises cfg) items)).
Proof.
  intros cfg. induction items as [|it items IH]; [reflexivity|].
  cbn [map rev]. rewrite filter_app, map_app. unfold ids in *. rewrite map_app, IH.
  cbn [filter snd]. unfold dfate. destruct (raises cfg it); cbn [fate_eqb map fst rev app].
  - reflexivity.
  - rewrite app_nil_r. reflexivity.
Qed.

Lemma in_rev_dfate : forall cfg items it,
  In it items -> In (it, pass_fate cfg it) (rev (map (fun it => (it, dfate cfg false it)) items)).
Proof.
  intros cfg items it H. apply in_rev. rewrite rev_involutive.
  apply in_map_iff. exists it. split; [reflexivity|exact H].
Qed.

Lemma catomic_inv : forall cfg cs o, CInv cfg cs -> CInv cfg (fst (catomic cfg o cs)).
Proof.
  intros cfg cs o CI. unfold catomic.
  pose proof (step_inv_fr cfg (c_base cs) o (inflight cs) (ci_inv _ _ CI)) as I'.
  destruct (step_grows cfg (c_base cs) o) as (new & G & N).
  destruct (CInv_grow cfg cs _ new G CI) as (B' & D' & O').
  destruct (step cfg (c_base cs) o) as [s' r] eqn:S. cbn [fst] in *.
  destruct o as [t off out|out|out|k| |d0| |t out| ]; cbn [step] in S;
    try (match type of S with context [sweepable] =>
           destruct (sweepable cfg (c_base cs)); [destruct (autophagy cfg (c_base cs)) as [sa na]|] end);
    try (inversion S; subst s' r; clear S;
         destruct N as [N|[k0 Hk]]; [|discriminate];
         constructor; cbn [c_base c_open c_done]; try assumption;
         unfold reported_ids; cbn [c_base c_open c_done];
         try rewrite (grows_rep_same _ _ _ G N); apply (ci_rep _ _ CI)).
  - (* digest(k), atomic *)
    pose proof (digest_grows cfg false k (c_base cs)) as H. cbv zeta in H.
    destruct (digest cfg false k (c_base cs)) as [s1 r1]. inversion S; subst s' r; clear S.
    destruct H as (G1 & Dd & E).
    constructor; cbn [c_base c_open c_done taken_by]; try assumption.
    + unfold reported_ids; cbn [c_base c_open c_done flat_map snd].
      unfold with_fate. rewrite G1, filter_app, map_app. unfold ids at 1. rewrite map_app.
      fold (ids (map fst (filter (fun p : item * fate => fate_eqb (snd p) Reported)
                           (rev (map (fun it => (it, dfate cfg false it)) (to_process k (queue (c_base cs)))))))).
      rewrite with_fate_rev_dfate, <- E, <- app_assoc.
      apply Permutation_app_head. apply (ci_rep _ _ CI).
    + intros taken r [X|X]; [|apply D'; exact X]. inversion X; subst taken r. split.
      * split; [exact Dd|]. rewrite E, rev_involutive. reflexivity.
      * intros it Hit. unfold fated_as. rewrite G1. apply in_or_app; left. apply in_rev_dfate; exact Hit.
Qed.

Lemma finish_inv : forall cfg live s r,
  Inv cfg live s -> binok s (d_recycled r) -> Inv cfg live (finish s r).
Proof.
  intros cfg live s r [P1 P2 P3 P4 P5 P6 P7 P8 P9] B. unfold finish.
  constructor; try assumption.
  cbn [bin set_bin]. intros k v Hin.
  destruct (merge_in _ _ _ _ Hin) as [E|E]; [apply (B k v)|apply (P9 k v)]; exact E.
Qed.

Lemma cbegin_inv : forall cfg p k cs, CInv cfg cs -> CInv cfg (fst (cbegin cfg p k cs)).
Proof.
  intros cfg p k cs CI. unfold cbegin.
  destruct (find_pass p (c_open cs)); [exact CI|].
  set (s := c_base cs).
  destruct (take_split k (queue s)) as [Hsplit _].
  pose proof (ci_inv _ _ CI) as I. fold s in I.
  destruct (to_process k (queue s)) as [|it items] eqn:T; cbn [fst].
  - (* nothing queued: the call returns at once *)
    cbn [app] in Hsplit.
    assert (G : grows s (finish (set_queue s (after_take k (queue s))) dres0) []) by reflexivity.
    destruct (CInv_grow cfg cs _ [] G CI) as (B' & D' & O').
    constructor; cbn [c_base c_open c_done]; try assumption.
    + unfold inflight; cbn [c_open]. cbn [finish queue set_bin set_queue]. rewrite Hsplit.
      apply (Inv_same cfg _ s); [reflexivity..|exact I].
    + unfold reported_ids; cbn [c_base c_open c_done flat_map snd d_errors dres0 app].
      rewrite (grows_rep_same _ _ _ G (Forall_nil _)). apply (ci_rep _ _ CI).
    + intros taken r [X|X]; [|apply D'; exact X]. inversion X; subst. split; [apply accounts_nil|intros it []].
  - (* the thread is inside the digester of its first item *)
    set (s0 := set_queue s (after_take k (queue s))).
    assert (G : grows s s0 []) by reflexivity.
    destruct (CInv_grow cfg cs _ [] G CI) as (B' & D' & O').
    constructor; cbn [c_base c_open c_done]; try assumption.
    + unfold inflight; cbn [c_open flat_map p_todo]. fold (inflight cs). cbn [queue s0 set_queue].
      apply (Inv_same cfg _ s); [reflexivity..|].
      eapply Inv_live_perm; [|exact I]. rewrite <- Hsplit at 1. rewrite <- !app_assoc.
      apply Permutation_app_swap_app.
    + intros ps [<-|H]; [intros k0 v []|apply B'; exact H].
    + unfold reported_ids; cbn [c_base c_open c_done flat_map p_res d_errors dres0 app].
      rewrite (grows_rep_same _ _ _ G (Forall_nil _)). apply (ci_rep _ _ CI).
    + intros ps [<-|H]; [|apply O'; exact H]. cbn [p_todo p_taken p_res]. split; [discriminate|].
      exists []. split; [reflexivity|split; [apply accounts_nil|intros x []]].
Qed.

Lemma count_perm : forall (l1 l2 : list Z) x,
  Permutation l1 l2 -> count_occ Z.eq_dec l1 x = count_occ Z.eq_dec l2 x.
Proof. intros l1 l2 x H. apply (Permutation_count_occ Z.eq_dec). exact H. Qed.

Lemma cpstep_inv : forall cfg p cs, CInv cfg cs -> CInv cfg (fst (cpstep cfg p cs)).
Proof.
  intros cfg p cs CI. unfold cpstep.
  destruct (find_pass p (c_open cs)) as [ps|] eqn:F; [|exact CI].
  destruct (find_pass_split _ _ _ F) as (l1 & l2 & Hopen & Hset).
  destruct (p_todo ps) as [|it rest] eqn:Todo; [exact CI|].
  set (s := c_base cs).
  assert (Hps : In ps (c_open cs)) by (rewrite Hopen; apply in_or_app; right; left; reflexivity).
  pose proof (ci_inv _ _ CI) as I. fold s in I.
  pose proof (ci_bin _ _ CI ps Hps) as Bps. fold s in Bps.
  destruct (ci_open _ _ CI ps Hps) as (_ & pre & Htaken & Apre & Fpre). fold s in Fpre.
  set (fl := flat_map p_todo).
  assert (Hinfl : inflight cs = fl l1 ++ (it :: rest) ++ fl l2).
  { unfold inflight. rewrite Hopen. unfold fl. rewrite flat_map_app. cbn [flat_map]. rewrite Todo. reflexivity. }
  assert (I0 : Inv cfg (it :: (queue s ++ fl l1 ++ rest ++ fl l2)) s).
  { eapply Inv_live_perm; [|exact I]. rewrite Hinfl.
    cbn [app]. rewrite (app_assoc (queue s) (fl l1) (it :: rest ++ fl l2)).
    rewrite (app_assoc (queue s) (fl l1) (rest ++ fl l2)). symmetry. apply Permutation_middle. }
  destruct (digest_item cfg false it s (p_res ps)) as [s1 r1] eqn:D.
  destruct (digest_item_inv _ _ _ _ _ _ _ _ D I0 Bps) as (I1 & B1 & Q1).
  destruct (digest_item_fates _ _ _ _ _ _ _ D) as (F1 & Dd & E).
  assert (G : grows s s1 [(it, dfate cfg false it)]) by exact F1.
  destruct (CInv_grow cfg cs _ _ G CI) as (B' & D' & O').
  assert (Hit : fated_as cfg s1 it) by (unfold fated_as; rewrite F1; left; reflexivity).
  assert (Apre' : accounts cfg (pre ++ [it]) r1) by (eapply accounts_snoc; eassumption).
  assert (Fpre' : forall x, In x (pre ++ [it]) -> fated_as cfg s1 x).
  { intros x Hx. apply in_app_or in Hx. destruct Hx as [Hx|[<-|[]]]; [|exact Hit].
    unfold fated_as. eapply grows_mono; [exact G|apply Fpre; exact Hx]. }
  assert (Hsub : forall x, In x (l1 ++ l2) -> In x (c_open cs)).
  { intros x Hx. rewrite Hopen. apply in_app_or in Hx. apply in_or_app.
    destruct Hx; [left|right; right]; assumption. }
  set (ferr := flat_map (fun ps0 : pass => d_errors (p_res ps0))).
  set (derr := flat_map (fun d : list item * dres => d_errors (snd d)) (c_done cs)).
  set (e := if raises cfg it then [it_id it] else []) in *.
  assert (Hrep1 : ids (with_fate Reported s1) = e ++ ids (with_fate Reported s)).
  { unfold with_fate. rewrite F1. cbn [filter snd]. unfold e, dfate.
    destruct (raises cfg it); cbn [fate_eqb map fst ids app]; reflexivity. }
  assert (Hold : forall x, count_occ Z.eq_dec (derr ++ ferr l1 ++ d_errors (p_res ps) ++ ferr l2) x =
                           count_occ Z.eq_dec (ids (with_fate Reported s)) x).
  { intros x. apply count_perm. pose proof (ci_rep _ _ CI) as R. unfold reported_ids in R.
    rewrite Hopen, flat_map_app in R. cbn [flat_map] in R. exact R. }
  destruct rest as [|it2 rest'].
  - (* the last item: the call returns *)
    cbn [fst]. rewrite (Hset None). cbn [app].
    constructor; cbn [c_base c_open c_done].
    + cbn [finish queue set_bin]. rewrite Q1. unfold inflight; cbn [c_open]. fold fl. unfold fl at 1. rewrite flat_map_app. fold fl.
      apply finish_inv; [|exact B1]. cbn [app] in I1. exact I1.
    + intros ps0 H. apply (B' ps0). apply Hsub; exact H.
    + unfold reported_ids; cbn [c_base c_open c_done flat_map snd]. fold derr. fold ferr.
      change (with_fate Reported (finish s1 r1)) with (with_fate Reported s1). rewrite Hrep1, E.
      unfold ferr at 1. rewrite flat_map_app. fold ferr.
      apply perm_count. intros x. specialize (Hold x). rewrite !count_occ_app in *. lia.
    + intros taken r [X|X].
      * inversion X; subst taken r. rewrite Htaken, Todo. split; [exact Apre'|exact Fpre'].
      * apply (D' taken r X).
    + intros ps0 H. apply (O' ps0). apply Hsub; exact H.
  - (* on to the digester of the next item *)
    cbn [fst]. rewrite (Hset (Some (mkPass p (it2 :: rest') r1 (p_taken ps)))).
    constructor; cbn [c_base c_open c_done].
    + rewrite Q1. unfold inflight; cbn [c_open]. fold fl. unfold fl at 1.
      rewrite flat_map_app. cbn [flat_map app p_todo]. fold fl. exact I1.
    + intros ps0 H. apply in_app_or in H. destruct H as [H|[<-|H]].
      * apply (B' ps0). apply Hsub. apply in_or_app; left; exact H.
      * exact B1.
      * apply (B' ps0). apply Hsub. apply in_or_app; right; exact H.
    + unfold reported_ids; cbn [c_base c_open c_done]. fold derr. fold ferr. rewrite Hrep1.
      unfold ferr at 1. rewrite flat_map_app. cbn [flat_map app p_res]. fold ferr. rewrite E.
      apply perm_count. intros x. specialize (Hold x). rewrite !count_occ_app in *. lia.
    + exact D'.
    + intros ps0 H. apply in_app_or in H. destruct H as [H|[<-|H]].
      * apply (O' ps0). apply Hsub. apply in_or_app; left; exact H.
      * cbn [p_todo p_taken p_res]. split; [discriminate|].
        exists (pre ++ [it]). split; [rewrite Htaken, Todo, <- app_assoc; reflexivity|split; [exact Apre'|exact Fpre']].
      * apply (O' ps0). apply Hsub. apply in_or_app; right; exact H.
Qed.

Lemma cstep_inv : forall cfg cs o, CInv cfg cs -> CInv cfg (fst (cstep cfg cs o)).
Proof.
  intros cfg cs o CI. destruct o; cbn [cstep].
  - apply catomic_inv; exact CI.
  - apply cbegin_inv; exact CI.
  - apply cpstep_inv; exact CI.
Qed.

Lemma crun_from_inv : forall cfg ops cs, CInv cfg cs -> CInv cfg (crun_from cfg cs ops).
Proof.
  unfold crun_from. induction ops as [|o ops IH]; intros cs CI; cbn [fold_left]; [exact CI|].
  apply IH. apply cstep_inv. exact CI.
Qed.

Lemma crun_inv : forall cfg ops, CInv cfg (crun cfg ops).
Proof. intros. unfold crun. apply crun_from_inv. apply cinit_inv. Qed.

(* ---- conservation with calls in progress ------------------------------- *)

Definition overlap_conservation_cs (cfg : config) (cs : cstate) : Prop :=
  let s := c_base cs in
  Permutation (g_all s) (queue s ++ inflight cs ++ map fst (g_fates s)) /\
  NoDup (ids (queue s) ++ ids (inflight cs) ++ ids (map fst (g_fates s))) /\
  (forall it f it' f', In (it, f) (g_fates s) -> In (it', f') (g_fates s) ->
                       it_id it = it_id it' -> it = it' /\ f = f') /\
  n_ingested s = lenZ (g_all s) /\
  n_digested s = nfate Digested s + nfate EmergOk s /\
  n_ingested s = qlen s + lenZ (inflight cs) + n_digested s + nfate Reported s
                 + nfate AutoDiscarded s + nfate EmergFail s + nfate Expired s.

Definition overlap_conservation_stmt (cfg : config) (ops : list cop) : Prop :=
  overlap_conservation_cs cfg (crun cfg ops).

(* everything below follows from the invariant alone: it holds in every state
   the invariant holds in, however that state was reached *)
Lemma overlap_conservation_of_inv : forall cfg cs, CInv cfg cs -> overlap_conservation_cs cfg cs.
Proof.
  intros cfg cs CI. unfold overlap_conservation_cs. cbv zeta.
  pose proof (ci_inv _ _ CI) as I.
  set (s := c_base cs) in *.
  pose proof (inv_perm _ _ _ I) as P1. fold (fated s). rewrite <- app_assoc in P1.
  split; [exact P1|].
  split.
  { pose proof (Inv_nodup_live _ _ _ I) as H. unfold ids in *. rewrite map_app, <- app_assoc in H. exact H. }
  split; [intros; eapply fate_unique; eauto|].
  split; [apply (inv_ning _ _ _ I)|].
  split; [apply (inv_ndig _ _ _ I)|].
  rewrite (inv_ning _ _ _ I), (inv_ndig _ _ _ I).
  pose proof (Permutation_length P1) as L. rewrite !app_length in L.
  unfold fated in L. rewrite map_length in L.
  pose proof (nfate_total s) as T. unfold lenZ, qlen in *. lia.
Qed.

Lemma overlap_conservation_proof : forall cfg ops, overlap_conservation_stmt cfg ops.
Proof. intros cfg ops. apply overlap_conservation_of_inv, crun_inv. Qed.

(* ---- every digestion error is reported exactly once -------------------- *)

Lemma NoDup_map_filter {A B} (g : A -> B) (f : A -> bool) : forall l,
  NoDup (map g l) -> NoDup (map g (filter f l)).
Proof.
  induction l as [|x l IH]; intros H; cbn; [constructor|].
  cbn in H. inversion H as [|? ? Hn Hnd]; subst.
  destruct (f x); cbn; [|apply IH; exact Hnd].
  constructor; [|apply IH; exact Hnd]. intros Hin. apply Hn.
  apply in_map_iff in Hin. destruct Hin as (y & E & Hy). apply filter_In in Hy.
  apply in_map_iff. exists y. split; [exact E|apply Hy].
Qed.

Definition reported_once_cs (cs : cstate) : Prop :=
  Permutation (reported_ids cs) (ids (with_fate Reported (c_base cs))) /\
  NoDup (reported_ids cs) /\
  (forall i, (count_occ Z.eq_dec (reported_ids cs) i =
              if in_dec Z.eq_dec i (ids (with_fate Reported (c_base cs))) then 1 else 0)%nat).

Definition reported_once_stmt (cfg : config) (ops : list cop) : Prop := reported_once_cs (crun cfg ops).

Lemma reported_once_of_inv : forall cfg cs, CInv cfg cs -> reported_once_cs cs.
Proof.
  intros cfg cs CI. unfold reported_once_cs.
  pose proof (ci_rep _ _ CI) as R. pose proof (ci_inv _ _ CI) as I.
  assert (ND : NoDup (ids (with_fate Reported (c_base cs)))).
  { pose proof (Inv_nodup_live _ _ _ I) as H. apply NoDup_app_r in H.
    unfold ids, with_fate, fated in *. rewrite map_map in *. apply NoDup_map_filter. exact H. }
  assert (ND' : NoDup (reported_ids cs)).
  { eapply Permutation_NoDup; [apply Permutation_sym; exact R|exact ND]. }
  split; [exact R|]. split; [exact ND'|].
  intros i. destruct (in_dec Z.eq_dec i (ids (with_fate Reported (c_base cs)))) as [Hin|Hn].
  - apply (proj1 (NoDup_count_occ' Z.eq_dec _) ND').
    eapply Permutation_in; [apply Permutation_sym; exact R|exact Hin].
  - apply count_occ_not_In. intros Hin. apply Hn. eapply Permutation_in; [exact R|exact Hin].
Qed.

Lemma reported_once_proof : forall cfg ops, reported_once_stmt cfg ops.
Proof. intros cfg ops. apply (reported_once_of_inv cfg), crun_inv. Qed.

(* ---- every returned DigestResult accounts for the items its call took -- *)

Definition results_cs (cfg : config) (cs : cstate) : Prop :=
  (forall taken r, In (taken, r) (c_done cs) ->
     accounts cfg taken r /\
     forall it, In it taken -> In (it, pass_fate cfg it) (g_fates (c_base cs))) /\
  (forall ps, In ps (c_open cs) ->
     p_todo ps <> [] /\
     exists pre, p_taken ps = pre ++ p_todo ps /\ accounts cfg pre (p_res ps) /\
       forall it, In it pre -> In (it, pass_fate cfg it) (g_fates (c_base cs))).

Definition results_stmt (cfg : config) (ops : list cop) : Prop := results_cs cfg (crun cfg ops).

Lemma results_of_inv : forall cfg cs, CInv cfg cs -> results_cs cfg cs.
Proof.
  intros cfg cs CI. unfold results_cs. split.
  - apply (ci_done _ _ CI).
  - apply (ci_open _ _ CI).
Qed.

Lemma results_proof : forall cfg ops, results_stmt cfg ops.
Proof. intros cfg ops. apply results_of_inv, crun_inv. Qed.

(* ---- sensitive items ---------------------------------------------------- *)

Definition overlap_toxic_cs (cfg : config) (cs : cstate) : Prop :=
  let s := c_base cs in
  (forall k v it, In (k, v) (bin s) -> In it (g_all s) -> it_id it = v -> it_type it <> Toxic) /\
  (forall ps k v it, In ps (c_open cs) -> In (k, v) (d_recycled (p_res ps)) ->
                     In it (g_all s) -> it_id it = v -> it_type it <> Toxic) /\
  (forall i, (count_occ Z.eq_dec (toxlog s) i <= 1)%nat) /\
  (forall i, In i (toxlog s) ->
     has_cb cfg = true /\ exists it, In it (g_all s) /\ it_id it = i /\ it_type it = Toxic) /\
  (forall it, In it (queue s ++ inflight cs) -> ~ In (it_id it) (toxlog s)) /\
  (forall it f, In (it, f) (g_fates s) -> it_type it = Toxic -> has_cb cfg = true ->
     count_occ Z.eq_dec (toxlog s) (it_id it) = if fate_eqb f Expired then 0%nat else 1%nat).

Lemma binok_not_toxic : forall cfg live s b k v it,
  Inv cfg live s -> binok s b -> In (k, v) b -> In it (g_all s) -> it_id it = v -> it_type it <> Toxic.
Proof.
  intros cfg live s b k v it I B Hb Hit Hid.
  destruct (B k v Hb) as (it' & f & H1 & H2 & H3).
  assert (it = it').
  { eapply (NoDup_map_inj it_id); [apply (inv_nodup _ _ _ I)|exact Hit|eapply fated_in_all; eauto|congruence]. }
  subst it'. exact H3.
Qed.

Definition overlap_toxic_stmt (cfg : config) (ops : list cop) : Prop := overlap_toxic_cs cfg (crun cfg ops).

Lemma overlap_toxic_of_inv : forall cfg cs, CInv cfg cs -> overlap_toxic_cs cfg cs.
Proof.
  intros cfg cs CI. unfold overlap_toxic_cs. cbv zeta.
  pose proof (ci_inv _ _ CI) as I. set (s := c_base cs) in *.
  pose proof (inv_tox_nodup _ _ _ I) as Hnd.
  split; [intros k v it; apply (binok_not_toxic _ _ _ _ _ _ _ I (inv_bin _ _ _ I))|].
  split; [intros ps k v it Hps; apply (binok_not_toxic _ _ _ _ _ _ _ I (ci_bin _ _ CI ps Hps))|].
  split; [intros i; apply (proj1 (NoDup_count_occ Z.eq_dec _) Hnd)|].
  split.
  { intros i Hin. destruct (inv_tox_sound _ _ _ I i Hin) as (it & f & H1 & H2 & H3 & _ & H5).
    split; [exact H5|]. exists it. split; [eapply fated_in_all; eauto|auto]. }
  split.
  { intros it Hq Hin. destruct (inv_tox_sound _ _ _ I _ Hin) as (it' & f & H1 & H2 & _).
    eapply (live_not_fated _ _ _ it it' I Hq); [eapply in_fates_fated; exact H1|congruence]. }
  intros it f Hf T C.
  destruct (fate_eqb f Expired) eqn:E.
  - apply fate_eqb_spec in E. subst f. apply count_occ_not_In. intros Hin.
    destruct (inv_tox_sound _ _ _ I _ Hin) as (it' & f' & H1 & H2 & _ & H4 & _).
    destruct (fate_unique _ _ _ _ _ _ _ I Hf H1 (eq_sym H2)) as [_ X]. congruence.
  - assert (HE : f <> Expired) by (intros ->; cbn in E; discriminate).
    apply (proj1 (NoDup_count_occ' Z.eq_dec _) Hnd).
    eapply (inv_tox_complete _ _ _ I); eauto.
Qed.

Lemma overlap_toxic_proof : forall cfg ops, overlap_toxic_stmt cfg ops.
Proof. intros cfg ops. apply overlap_toxic_of_inv, crun_inv. Qed.

(* ---- bounded queue ------------------------------------------------------ *)

Lemma digest_item_queue : forall cfg auto it s r,
  queue (fst (digest_item cfg auto it s r)) = queue s.
Proof.
  intros cfg auto it s r. unfold digest_item.
  destruct (fate_item_facts cfg Digested (if auto then AutoDiscarded else Reported) it s) as (Hq & _).
  destruct (fate_item cfg Digested (if auto then AutoDiscarded else Reported) it s) as [s1 pr].
  cbn [fst] in Hq. destruct pr as [ks|]; cbn [fst]; [destruct (nonempty ks)|]; exact Hq.
Qed.

Lemma cstep_bounded : forall cfg cs o,
  2 <= max_queue cfg -> qlen (c_base cs) <= max_queue cfg ->
  qlen (c_base (fst (cstep cfg cs o))) <= max_queue cfg.
Proof.
  intros cfg cs o Hmax Hq. destruct o as [o|p k|p]; cbn [cstep].
  - unfold catomic. pose proof (step_bounded cfg (c_base cs) o Hmax Hq) as H.
    destruct (step cfg (c_base cs) o) as [s' r]. exact H.
  - unfold cbegin. destruct (find_pass p (c_open cs)); [exact Hq|].
    pose proof (after_take_le k (queue (c_base cs))) as L.
    destruct (to_process k (queue (c_base cs))); cbn [fst c_base]; unfold qlen in *;
      cbn [finish queue set_bin set_queue]; lia.
  - unfold cpstep. destruct (find_pass p (c_open cs)) as [ps|]; [|exact Hq].
    destruct (p_todo ps) as [|it rest]; [exact Hq|].
    pose proof (digest_item_queue cfg false it (c_base cs) (p_res ps)) as Q.
    destruct (digest_item cfg false it (c_base cs) (p_res ps)) as [s1 r1]. cbn [fst] in Q.
    destruct rest; cbn [fst c_base]; unfold qlen in *; cbn [finish queue set_bin]; rewrite Q; exact Hq.
Qed.

Lemma overlap_queue_bounded_proof : forall cfg ops,
  2 <= max_queue cfg -> qlen (c_base (crun cfg ops)) <= max_queue cfg.
Proof.
  intros cfg ops Hmax. unfold crun, crun_from.
  assert (G : forall cs, qlen (c_base cs) <= max_queue cfg ->
     qlen (c_base (fold_left (fun cs o => fst (cstep cfg cs o)) ops cs)) <= max_queue cfg).
  { induction ops as [|o ops IH]; intros cs Hs; cbn [fold_left]; [exact Hs|].
    apply IH. apply cstep_bounded; assumption. }
  apply G. unfold qlen; cbn. lia.
Qed.

(* ---- the sequential model is the special case without overlap ---------- *)

Lemma atomic_refines : forall cfg ops cs,
  c_base (crun_from cfg cs (map Atomic ops)) = fold_left (fun s o => fst (step cfg s o)) ops (c_base cs) /\
  c_open (crun_from cfg cs (map Atomic ops)) = c_open cs.
Proof.
  unfold crun_from. induction ops as [|o ops IH]; intros cs; cbn [map fold_left]; [split; reflexivity|].
  destruct (IH (fst (cstep cfg cs (Atomic o)))) as [H1 H2]. rewrite H1, H2.
  cbn [cstep]. unfold catomic. destruct (step cfg (c_base cs) o) as [s' r]. split; reflexivity.
Qed.

Lemma atomic_run : forall cfg ops,
  c_base (crun cfg (map Atomic ops)) = run cfg ops /\ c_open (crun cfg (map Atomic ops)) = [].
Proof. intros cfg ops. unfold crun, run. apply (atomic_refines cfg ops cinit). Qed.

(* one digest pass, stepped without anything in between, is digest() *)
Lemma pass_steps_loop : forall cfg p items it r s taken open0 done,
  crun_from cfg (mkC s (mkPass p (it :: items) r taken :: open0) done)
            (repeat (PassStep p) (S (List.length items))) =
  let '(s', r') := digest_loop cfg false (it :: items) s r in
  mkC (finish s' r') open0 ((taken, r') :: done).
Proof.
  intros cfg p. induction items as [|it2 items IH]; intros it r s taken open0 done.
  - unfold crun_from. cbn [List.length repeat fold_left cstep]. unfold cpstep.
    cbn [c_open find_pass p_id]. rewrite Z.eqb_refl. cbn [p_todo p_res c_base digest_loop].
    destruct (digest_item cfg false it s r) as [s1 r1]. cbn [fst set_pass p_id c_open c_done p_taken].
    rewrite Z.eqb_refl. reflexivity.
  - unfold crun_from in *. cbn [List.length repeat fold_left]. cbn [cstep]. unfold cpstep at 2.
    cbn [c_open find_pass p_id]. rewrite Z.eqb_refl. cbn [p_todo p_res c_base].
    cbn [digest_loop]. destruct (digest_item cfg false it s r) as [s1 r1].
    cbn [fst set_pass p_id c_open c_done p_taken]. rewrite Z.eqb_refl.
    specialize (IH it2 r1 s1 taken open0 done). cbn [List.length repeat fold_left] in IH. exact IH.
Qed.

Lemma pass_uninterleaved : forall cfg p k cs,
  find_pass p (c_open cs) = None ->
  let n := List.length (to_process k (queue (c_base cs))) in
  crun_from cfg cs (PassBegin p k :: repeat (PassStep p) n) =
  mkC (fst (digest cfg false k (c_base cs))) (c_open cs)
      ((to_process k (queue (c_base cs)), snd (digest cfg false k (c_base cs))) :: c_done cs).
Proof.
  intros cfg p k cs Hf n. unfold crun_from. cbn [fold_left cstep]. unfold cbegin. rewrite Hf.
  unfold digest, n. destruct (to_process k (queue (c_base cs))) as [|it items].
  - cbn [List.length repeat fold_left fst digest_loop snd]. reflexivity.
  - cbn [fst]. pose proof (pass_steps_loop cfg p items it dres0 (set_queue (c_base cs) (after_take k (queue (c_base cs))))
                                            (it :: items) (c_open cs) (c_done cs)) as H.
    unfold crun_from in H. cbn [List.length]. rewrite H. unfold dres0.
    destruct (digest_loop cfg false (it :: items) (set_queue (c_base cs) (after_take k (queue (c_base cs)))) (mkDres 0 [] [])) as [s' r'].
    reflexivity.
Qed.

Lemma cstep_total : forall cfg cs o, exists cs' r, cstep cfg cs o = (cs', r).
Proof. intros cfg cs o. destruct (cstep cfg cs o) as [cs' r]. eauto. Qed.

(* ====================================================================== *)
(* Part 2: the one-lock machine                                             *)

Open Scope nat_scope.

(* how many times thread i holds the lock *)
Definition held (m : mstate) (i : nat) : nat :=
  match m_owner m with
  | Some j => if Nat.eqb j i then m_count m else 0
  | None => 0
  end.

Record minv (k : lockkind) (m : mstate) : Prop := mkMinv {
  mi_wb : forall i, wb (held m i) (m_code m i) = true;
  mi_flat : k <> Reentrant -> forall i, flat (held m i) (m_code m i) = true;
  mi_count : forall j, m_owner m = Some j -> 1 <= m_count m
}.

Lemma upd_same : forall f i c, upd f i c i = c.
Proof. intros. unfold upd. rewrite Nat.eqb_refl. reflexivity. Qed.

Lemma upd_other : forall f i c j, j <> i -> upd f i c j = f j.
Proof. intros f i c j H. unfold upd. apply Nat.eqb_neq in H. rewrite H. reflexivity. Qed.

Lemma minv_step : forall k m m', minv k m -> mstep k m m' -> minv k m'.
Proof.
  intros k m m' [W F C] S.
  destruct S as [f o c i rest Hi | f c i rest Hi | f c i rest Hk Hi | f i rest Hi | f c i rest Hi];
    unfold held in *; cbn [m_owner m_count m_code] in *.
  - (* Step *)
    constructor; unfold held; cbn [m_owner m_count m_code].
    + intros j. destruct (Nat.eq_dec j i) as [->|Hne].
      * rewrite upd_same. specialize (W i). rewrite Hi in W. exact W.
      * rewrite upd_other by exact Hne. apply W.
    + intros Hk j. destruct (Nat.eq_dec j i) as [->|Hne].
      * rewrite upd_same. specialize (F Hk i). rewrite Hi in F. exact F.
      * rewrite upd_other by exact Hne. apply F; exact Hk.
    + exact C.
  - (* Acq, lock free *)
    constructor; unfold held; cbn [m_owner m_count m_code].
    + intros j. destruct (Nat.eq_dec j i) as [->|Hne].
      * rewrite upd_same, Nat.eqb_refl. specialize (W i). rewrite Hi in W. exact W.
      * rewrite upd_other by exact Hne.
        assert (E : Nat.eqb i j = false) by (apply Nat.eqb_neq; auto). rewrite E. apply W.
    + intros Hk j. destruct (Nat.eq_dec j i) as [->|Hne].
      * rewrite upd_same, Nat.eqb_refl. specialize (F Hk i). rewrite Hi in F. cbn in F. exact F.
      * rewrite upd_other by exact Hne.
        assert (E : Nat.eqb i j = false) by (apply Nat.eqb_neq; auto). rewrite E. apply F; exact Hk.
    + intros; lia.
  - (* Acq again, reentrant *)
    constructor; unfold held; cbn [m_owner m_count m_code].
    + intros j. destruct (Nat.eq_dec j i) as [->|Hne].
      * rewrite upd_same, Nat.eqb_refl. specialize (W i). rewrite Hi, Nat.eqb_refl in W. exact W.
      * rewrite upd_other by exact Hne.
        assert (E : Nat.eqb i j = false) by (apply Nat.eqb_neq; auto).
        specialize (W j). rewrite E in *. exact W.
    + intros Hk'; contradiction.
    + intros; lia.
  - (* last Rel *)
    constructor; unfold held; cbn [m_owner m_count m_code].
    + intros j. destruct (Nat.eq_dec j i) as [->|Hne].
      * rewrite upd_same. specialize (W i). rewrite Hi, Nat.eqb_refl in W. exact W.
      * rewrite upd_other by exact Hne.
        assert (E : Nat.eqb i j = false) by (apply Nat.eqb_neq; auto).
        specialize (W j). rewrite E in W. exact W.
    + intros Hk j. destruct (Nat.eq_dec j i) as [->|Hne].
      * rewrite upd_same. specialize (F Hk i). rewrite Hi, Nat.eqb_refl in F. exact F.
      * rewrite upd_other by exact Hne.
        assert (E : Nat.eqb i j = false) by (apply Nat.eqb_neq; auto).
        specialize (F Hk j). rewrite E in F. exact F.
    + intros j Hj; discriminate.
  - (* inner Rel *)
    constructor; unfold held; cbn [m_owner m_count m_code].
    + intros j. destruct (Nat.eq_dec j i) as [->|Hne].
      * rewrite upd_same, Nat.eqb_refl. specialize (W i). rewrite Hi, Nat.eqb_refl in W. exact W.
      * rewrite upd_other by exact Hne.
        assert (E : Nat.eqb i j = false) by (apply Nat.eqb_neq; auto).
        specialize (W j). rewrite E in *. exact W.
    + intros Hk j. destruct (Nat.eq_dec j i) as [->|Hne].
      * rewrite upd_same, Nat.eqb_refl. specialize (F Hk i). rewrite Hi, Nat.eqb_refl in F. exact F.
      * rewrite upd_other by exact Hne.
        assert (E : Nat.eqb i j = false) by (apply Nat.eqb_neq; auto).
        specialize (F Hk j). rewrite E in *. exact F.
    + intros; lia.
Qed.

Lemma minv_reach : forall k m0 m, minv k m0 -> mreach k m0 m -> minv k m.
Proof.
  intros k m0 m I R. induction R as [|m m' R IH S]; [exact I|].
  eapply minv_step; [exact IH|exact S].
Qed.

Lemma minv_progress : forall k m,
  minv k m -> (exists i, m_code m i <> []) -> exists m', mstep k m m'.
Proof.
  intros k [f o c] [W F C] [i Hi]. unfold held in *; cbn [m_owner m_count m_code] in *.
  destruct o as [j|].
  - (* held by j: j can move *)
    specialize (C j eq_refl). pose proof (W j) as Wj. rewrite Nat.eqb_refl in Wj.
    destruct (f j) as [|ins rest] eqn:Ej.
    + destruct c; [lia|discriminate].
    + destruct ins.
      * destruct k.
        -- assert (Hk : NonReentrant <> Reentrant) by discriminate.
           specialize (F Hk j). rewrite Ej, Nat.eqb_refl in F. cbn in F.
           destruct c; [lia|discriminate].
        -- eexists. eapply MAcqAgain; [reflexivity|exact Ej].
        -- assert (Hk : UnrecognisedLock <> Reentrant) by discriminate.
           specialize (F Hk j). rewrite Ej, Nat.eqb_refl in F. cbn in F.
           destruct c; [lia|discriminate].
      * destruct c as [|[|c]]; [lia| |].
        -- eexists. eapply MRelLast; exact Ej.
        -- eexists. eapply MRelInner; exact Ej.
      * eexists. eapply MStep; exact Ej.
  - (* free: any unfinished thread can move *)
    specialize (W i). destruct (f i) as [|ins rest] eqn:Ei; [contradiction|].
    destruct ins.
    + eexists. eapply MAcqFree; exact Ei.
    + cbn in W. discriminate.
    + eexists. eapply MStep; exact Ei.
Qed.

(* the machine-level theorem: well-bracketed programs on one lock (flat ones
   if the lock is not reentrant) never reach a stuck configuration *)
Lemma lock_machine_no_deadlock : forall k (progs : nat -> list instr),
  (forall i, wb 0 (progs i) = true) ->
  (k <> Reentrant -> forall i, flat 0 (progs i) = true) ->
  forall m, mreach k (minit progs) m -> (exists i, m_code m i <> []) ->
  exists m', mstep k m m'.
Proof.
  intros k progs Hwb Hflat m R U.
  apply minv_progress; [|exact U].
  eapply minv_reach; [|exact R].
  constructor; unfold held, minit; cbn [m_owner m_count m_code].
  - exact Hwb.
  - exact Hflat.
  - intros j Hj; discriminate.
Qed.

(* ---- compiled call graphs are well bracketed --------------------------- *)

Definition balanced (p : list instr) : Prop := forall d q, wb d (p ++ q) = wb d q.

Lemma balanced_flat_map {A} (F : A -> list instr) : forall l,
  (forall x, balanced (F x)) -> balanced (flat_map F l).
Proof.
  induction l as [|x l IH]; intros H d q; cbn; [reflexivity|].
  rewrite <- app_assoc, H. apply IH; exact H.
Qed.

Lemma compile_balanced : forall g fuel m, balanced (compile g fuel m).
Proof.
  induction fuel as [|f IH]; intros m d q; cbn [compile]; [reflexivity|].
  destruct (lookup g m) as [mi|]; [|reflexivity].
  destruct (acquires mi).
  - cbn [app wb]. rewrite <- app_assoc.
    rewrite (balanced_flat_map (compile g f) _ (fun x => IH x)). cbn [app wb].
    apply (balanced_flat_map (compile g f) _ (fun x => IH x)).
  - cbn [app wb]. apply (balanced_flat_map (compile g f) _ (fun x => IH x)).
Qed.

Lemma thread_prog_wb : forall g fuel calls, wb 0 (thread_prog g fuel calls) = true.
Proof.
  intros g fuel calls. unfold thread_prog.
  rewrite <- (app_nil_r (flat_map _ _)).
  rewrite (balanced_flat_map (compile g fuel) _ (fun x => compile_balanced g fuel x)). reflexivity.
Qed.

(* ---- ... and flat when the non-reentrant check passes ------------------ *)

Definition steponly (p : list instr) : Prop := forall d q, flat d (p ++ q) = flat d q.

Lemma steponly_flat_map {A} (F : A -> list instr) : forall l,
  (forall x, In x l -> steponly (F x)) -> steponly (flat_map F l).
Proof.
  induction l as [|x l IH]; intros H d q; cbn; [reflexivity|].
  rewrite <- app_assoc, (H x (or_introl eq_refl)). apply IH. intros y Hy; apply H; right; exact Hy.
Qed.

Lemma existsb_false {A} (f : A -> bool) : forall l,
  existsb f l = false -> forall x, In x l -> f x = false.
Proof.
  induction l as [|y l IH]; intros H x Hx; [contradiction|].
  cbn in H. apply orb_false_iff in H. destruct H as [H1 H2].
  destruct Hx as [<-|Hx]; auto.
Qed.

Lemma noacq_steponly : forall g f m, reaches_acq g f m = false ->
  forall f', steponly (compile g f' m).
Proof.
  induction f as [|f IH]; intros m H f'; cbn [reaches_acq] in H; [discriminate|].
  destruct (lookup g m) as [mi|] eqn:L; [|discriminate].
  apply orb_false_iff in H. destruct H as [Ha Hc].
  destruct f' as [|f']; cbn [compile]; [intros d q; reflexivity|].
  rewrite L, Ha. intros d q. cbn [app flat].
  apply (steponly_flat_map (compile g f')). intros c Hin.
  apply IH. eapply existsb_false; eassumption.
Qed.

Definition fbalanced (p : list instr) : Prop := forall q, flat 0 (p ++ q) = flat 0 q.

Lemma fbalanced_flat_map {A} (F : A -> list instr) : forall l,
  (forall x, fbalanced (F x)) -> fbalanced (flat_map F l).
Proof.
  induction l as [|x l IH]; intros H q; cbn; [reflexivity|].
  rewrite <- app_assoc, H. apply IH; exact H.
Qed.

Lemma lookup_In : forall g m mi, lookup g m = Some mi -> In mi g.
Proof.
  induction g as [|x g IH]; intros m mi H; cbn in H; [discriminate|].
  destruct (String.eqb (m_name x) m); [inversion H; left; reflexivity|right; eapply IH; exact H].
Qed.

Lemma compile_fbalanced : forall g,
  forallb (method_ok g) g = true -> forall fuel m, fbalanced (compile g fuel m).
Proof.
  intros g Hok. rewrite forallb_forall in Hok.
  induction fuel as [|f IH]; intros m q; cbn [compile]; [reflexivity|].
  destruct (lookup g m) as [mi|] eqn:L; [|reflexivity].
  destruct (acquires mi).
  - cbn [app flat]. rewrite Nat.eqb_refl. cbn [andb]. rewrite <- app_assoc.
    assert (S1 : steponly (flat_map (compile g f) (m_calls_locked mi))).
    { apply steponly_flat_map. intros c Hc.
      apply (noacq_steponly g (S (List.length g))).
      specialize (Hok mi (lookup_In _ _ _ L)). unfold method_ok in Hok.
      rewrite forallb_forall in Hok. specialize (Hok c Hc).
      apply negb_true_iff in Hok. exact Hok. }
    rewrite S1. cbn [app flat].
    apply (fbalanced_flat_map (compile g f) _ (fun x => IH x)).
  - cbn [app flat]. apply (fbalanced_flat_map (compile g f) _ (fun x => IH x)).
Qed.

Lemma thread_prog_flat : forall g, forallb (method_ok g) g = true ->
  forall fuel calls, flat 0 (thread_prog g fuel calls) = true.
Proof.
  intros g Hok fuel calls. unfold thread_prog.
  rewrite <- (app_nil_r (flat_map _ _)).
  rewrite (fbalanced_flat_map (compile g fuel) _ (fun x => compile_fbalanced g Hok fuel x)). reflexivity.
Qed.

(* ---- error paths: a raising call gives back every lock level it took ---- *)

Lemma wb_release_all : forall r d q, wb (d + r) (repeat Rel r ++ q) = wb d q.
Proof.
  induction r as [|r IH]; intros d q; cbn [repeat app].
  - rewrite Nat.add_0_r. reflexivity.
  - rewrite Nat.add_succ_r. cbn [wb]. apply IH.
Qed.

(* from hold depth d + r, with r levels taken by this call so far *)
Lemma unwind_wb_gen : forall p r, wb r p = true ->
  forall n d q, wb (d + r) (firstn n p ++ repeat Rel (depth_after r (firstn n p)) ++ q) = wb d q.
Proof.
  induction p as [|i p IH]; intros r H n d q.
  - rewrite firstn_nil. cbn [app depth_after]. apply wb_release_all.
  - destruct n as [|n]; [cbn [firstn app depth_after]; apply wb_release_all|].
    cbn [firstn app]. destruct i; cbn [wb depth_after] in *.
    + rewrite <- Nat.add_succ_r. apply IH. exact H.
    + destruct r as [|r]; [discriminate|]. rewrite Nat.add_succ_r. cbn [wb Nat.pred]. apply IH. exact H.
    + apply IH. exact H.
Qed.

Lemma unwind_balanced : forall n p, wb 0 p = true -> balanced (unwind n p).
Proof.
  intros n p H d q. unfold unwind. rewrite <- app_assoc.
  rewrite <- (Nat.add_0_r d) at 1. apply unwind_wb_gen. exact H.
Qed.

Lemma compile_wb : forall g fuel m, wb 0 (compile g fuel m) = true.
Proof.
  intros g fuel m. rewrite <- (app_nil_r (compile g fuel m)). rewrite compile_balanced. reflexivity.
Qed.

Lemma call_prog_balanced : forall g fuel c, balanced (call_prog g fuel c).
Proof.
  intros g fuel [m [n|]]; unfold call_prog; cbn [fst snd].
  - apply unwind_balanced. apply compile_wb.
  - apply compile_balanced.
Qed.

Lemma thread_prog_x_wb : forall g fuel calls, wb 0 (thread_prog_x g fuel calls) = true.
Proof.
  intros g fuel calls. unfold thread_prog_x.
  rewrite <- (app_nil_r (flat_map _ _)).
  rewrite (balanced_flat_map (call_prog g fuel) _ (fun x => call_prog_balanced g fuel x)). reflexivity.
Qed.

Lemma flat_release_all : forall r q, flat r (repeat Rel r ++ q) = flat 0 q.
Proof. induction r as [|r IH]; intros q; cbn [repeat app flat]; [reflexivity|apply IH]. Qed.

Lemma unwind_flat_gen : forall p r, flat r p = true ->
  forall n q, flat r (firstn n p ++ repeat Rel (depth_after r (firstn n p)) ++ q) = flat 0 q.
Proof.
  induction p as [|i p IH]; intros r H n q.
  - rewrite firstn_nil. cbn [app depth_after]. apply flat_release_all.
  - destruct n as [|n]; [cbn [firstn app depth_after]; apply flat_release_all|].
    cbn [firstn app]. destruct i; cbn [flat depth_after] in *.
    + apply andb_true_iff in H. destruct H as [H0 H1]. apply Nat.eqb_eq in H0. subst r.
      cbn [Nat.eqb andb]. apply IH. exact H1.
    + destruct r as [|r]; [discriminate|]. cbn [Nat.pred]. apply IH. exact H.
    + apply IH. exact H.
Qed.

Lemma call_prog_fbalanced : forall g, forallb (method_ok g) g = true ->
  forall fuel c, fbalanced (call_prog g fuel c).
Proof.
  intros g Hok fuel [m [n|]]; unfold call_prog; cbn [fst snd].
  - intros q. unfold unwind. rewrite <- app_assoc. apply unwind_flat_gen.
    rewrite <- (app_nil_r (compile g fuel m)). rewrite (compile_fbalanced g Hok fuel m). reflexivity.
  - apply compile_fbalanced. exact Hok.
Qed.

Lemma thread_prog_x_flat : forall g, forallb (method_ok g) g = true ->
  forall fuel calls, flat 0 (thread_prog_x g fuel calls) = true.
Proof.
  intros g Hok fuel calls. unfold thread_prog_x.
  rewrite <- (app_nil_r (flat_map _ _)).
  rewrite (fbalanced_flat_map (call_prog g fuel) _ (fun x => call_prog_fbalanced g Hok fuel x)). reflexivity.
Qed.

(* threads calling any methods in any order, ANY of the calls raising at ANY
   point of its program (the exception leaving through the `with` blocks it is
   inside), never reach a configuration in which some thread is unfinished and
   no thread can take a step: after a call that raised, the calls of every
   other thread still get the lock *)
Lemma error_paths_no_deadlock : forall k g,
  no_self_deadlock k g && single_lock g = true ->
  forall fuel (calls : nat -> list xcall) m,
    mreach k (minit (fun i => thread_prog_x g fuel (calls i))) m ->
    (exists i, m_code m i <> []) -> exists m', mstep k m m'.
Proof.
  intros k g H fuel calls m R U. apply andb_true_iff in H. destruct H as [H _].
  eapply lock_machine_no_deadlock; [| |exact R|exact U].
  - intros i. apply thread_prog_x_wb.
  - intros Hk i. destruct k; cbn in H; try discriminate; [|contradiction].
    apply andb_true_iff in H. destruct H as [_ H]. apply thread_prog_x_flat; exact H.
Qed.

(* a call that does not raise is the call: the error-path programs extend the others *)
Lemma thread_prog_x_plain : forall g fuel calls,
  thread_prog_x g fuel (map (fun m => (m, None)) calls) = thread_prog g fuel calls.
Proof.
  intros g fuel calls. unfold thread_prog_x, thread_prog.
  induction calls as [|c calls IH]; cbn [map flat_map]; [reflexivity|]. rewrite IH. reflexivity.
Qed.

(* the lock-discipline theorem: if the checks pass on a call graph then any
   number of threads, each calling any methods of the class in any order,
   never reach a configuration in which some thread is unfinished and no
   thread can take a step *)
Lemma lock_discipline_no_deadlock : forall k g,
  no_self_deadlock k g && single_lock g = true ->
  forall fuel (calls : nat -> list string) m,
    mreach k (minit (fun i => thread_prog g fuel (calls i))) m ->
    (exists i, m_code m i <> []) -> exists m', mstep k m m'.
Proof.
  intros k g H fuel calls m R U. apply andb_true_iff in H. destruct H as [H _].
  eapply lock_machine_no_deadlock; [| |exact R|exact U].
  - intros i. apply thread_prog_wb.
  - intros Hk i. destruct k; cbn in H; try discriminate; [|contradiction].
    apply andb_true_iff in H. destruct H as [_ H]. apply thread_prog_flat; exact H.
Qed.
