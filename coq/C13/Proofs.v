(* C13 — lemmas.  Part 1: the invariant of the sequential model, by induction
   over histories.  Part 2: the abstract lock machine and the compilation of
   call graphs into it. *)
From Coq Require Import ZArith List Bool Lia Permutation String Arith.
From Coq Require Import ZifyBool.
From Verif Require Import C13.Model.
Import ListNotations.
Open Scope Z_scope.

(* ====================================================================== *)
(* generic list facts                                                       *)

Lemma firstn_len_split {A} : forall n (q : list A),
  firstn (List.length (firstn n q)) q = firstn n q /\
  firstn n q ++ skipn (List.length (firstn n q)) q = q.
Proof.
  induction n; intros q; cbn.
  - split; reflexivity.
  - destruct q as [|x q]; cbn; [split; reflexivity|].
    destruct (IHn q) as [H1 H2]. rewrite H1, H2. split; reflexivity.
Qed.

Lemma filter_partition {A} (f : A -> bool) : forall l,
  Permutation l (filter f l ++ filter (fun x => negb (f x)) l).
Proof.
  induction l as [|x l IH]; cbn; [constructor|].
  destruct (f x); cbn.
  - constructor; exact IH.
  - apply Permutation_cons_app; exact IH.
Qed.

Lemma filter_length_le {A} (f : A -> bool) : forall l,
  (List.length (filter f l) <= List.length l)%nat.
Proof. induction l; cbn; [lia|]. destruct (f a); cbn; lia. Qed.

Lemma NoDup_map_inj {A B} (g : A -> B) : forall l a b,
  NoDup (map g l) -> In a l -> In b l -> g a = g b -> a = b.
Proof.
  induction l as [|x l IH]; intros a b Hnd Ha Hb Hg; [contradiction|].
  cbn in Hnd. inversion Hnd as [|? ? Hnotin Hnd']; subst.
  destruct Ha as [Ha|Ha], Hb as [Hb|Hb]; subst.
  - reflexivity.
  - exfalso. apply Hnotin. rewrite Hg. apply in_map; assumption.
  - exfalso. apply Hnotin. rewrite <- Hg. apply in_map; assumption.
  - eapply IH; eassumption.
Qed.

(* ====================================================================== *)
(* dict facts                                                               *)

Lemma put_in : forall k v d k' v',
  In (k', v') (put k v d) -> (k', v') = (k, v) \/ In (k', v') d.
Proof.
  induction d as [|[k0 v0] d IH]; intros k' v' H; cbn in H.
  - destruct H as [H|[]]; auto.
  - destruct (k <? k0).
    + destruct H as [H|H]; auto.
    + destruct (k =? k0).
      * destruct H as [H|H]; auto. right; right; exact H.
      * destruct H as [H|H]; [right; left; exact H|].
        destruct (IH _ _ H) as [E|E]; auto. right; right; exact E.
Qed.

Lemma put_keys_in : forall ks x d k v,
  In (k, v) (put_keys ks x d) -> (v = x /\ ks <> []) \/ In (k, v) d.
Proof.
  unfold put_keys. induction ks as [|k0 ks IH]; intros x d k v H; cbn in H; auto.
  destruct (IH _ _ _ _ H) as [[E _]|E].
  - left; split; [exact E|discriminate].
  - destruct (put_in _ _ _ _ _ E) as [E'|E']; auto.
    inversion E'; subst. left; split; [reflexivity|discriminate].
Qed.

Lemma merge_in : forall e d k v, In (k, v) (merge e d) -> In (k, v) e \/ In (k, v) d.
Proof.
  unfold merge. induction e as [|[k0 v0] e IH]; intros d k v H; cbn in H; auto.
  destruct (IH _ _ _ H) as [E|E].
  - left; right; exact E.
  - cbn in E. destruct (put_in _ _ _ _ _ E) as [E'|E']; auto.
    left; left; symmetry; exact E'.
Qed.

(* ====================================================================== *)
(* Part 1: the invariant                                                    *)

Definition fated (s : state) : list item := map fst (g_fates s).

Definition counted (f : fate) : bool :=
  match f with Digested | EmergOk => true | _ => false end.

(* every recycled value comes from a fated, non-toxic item *)
Definition binok (s : state) (b : list (Z * Z)) : Prop :=
  forall k v, In (k, v) b ->
    exists it f, In (it, f) (g_fates s) /\ it_id it = v /\ it_type it <> Toxic.

(* [live] = the items that are neither fated nor lost: the queue, between
   calls; the queue plus the items a loop still has to process, inside one *)
Record Inv (cfg : config) (live : list item) (s : state) : Prop := mkInv {
  inv_perm : Permutation (g_all s) (live ++ fated s);
  inv_nodup : NoDup (ids (g_all s));
  inv_fresh : forall it, In it (g_all s) -> it_id it < n_ingested s;
  inv_ning : n_ingested s = lenZ (g_all s);
  inv_ndig : n_digested s = nfate Digested s + nfate EmergOk s;
  inv_tox_nodup : NoDup (toxlog s);
  inv_tox_sound : forall i, In i (toxlog s) ->
      exists it f, In (it, f) (g_fates s) /\ it_id it = i /\ it_type it = Toxic /\
                   f <> Expired /\ has_cb cfg = true;
  inv_tox_complete : forall it f, In (it, f) (g_fates s) -> it_type it = Toxic ->
      f <> Expired -> has_cb cfg = true -> In (it_id it) (toxlog s);
  inv_bin : binok s (bin s)
}.

(* the invariant only reads these components *)
Lemma Inv_same : forall cfg live s s',
  g_all s' = g_all s -> n_ingested s' = n_ingested s -> n_digested s' = n_digested s ->
  toxlog s' = toxlog s -> bin s' = bin s -> g_fates s' = g_fates s ->
  Inv cfg live s -> Inv cfg live s'.
Proof.
  intros cfg live s s' Ha Hn Hd Ht Hb Hf [P1 P2 P3 P4 P5 P6 P7 P8 P9].
  constructor; unfold fated, nfate, with_fate, binok in *; rewrite ?Ha, ?Hn, ?Hd, ?Ht, ?Hb, ?Hf; assumption.
Qed.

Lemma binok_mono : forall s s' b,
  (forall x, In x (g_fates s) -> In x (g_fates s')) -> binok s b -> binok s' b.
Proof.
  intros s s' b Hm H k v Hin. destruct (H k v Hin) as (it & f & H1 & H2 & H3).
  exists it, f. auto.
Qed.

Lemma nfate_cons : forall s s' it f,
  g_fates s' = (it, f) :: g_fates s ->
  nfate Digested s' + nfate EmergOk s' =
  nfate Digested s + nfate EmergOk s + (if counted f then 1 else 0).
Proof.
  intros s s' it f H. unfold nfate, with_fate. rewrite H.
  destruct f; cbn [filter snd fate_eqb map List.length counted]; lia.
Qed.

Lemma process_log : forall cfg it log pr log',
  process cfg it log = (pr, log') ->
  (log' = log /\ ~ (it_type it = Toxic /\ has_cb cfg = true)) \/
  (log' = it_id it :: log /\ it_type it = Toxic /\ has_cb cfg = true).
Proof.
  intros cfg it log pr log' H. unfold process in H.
  destruct (it_type it) eqn:T; try (inversion H; subst; left; split; [reflexivity|intros [? ?]; discriminate]).
  destruct (has_cb cfg) eqn:C; inversion H; subst.
  - right; auto.
  - left; split; [reflexivity|intros [? ?]; discriminate].
Qed.

Lemma process_keys : forall cfg it log ks log',
  process cfg it log = (POk ks, log') -> ks <> [] -> it_type it <> Toxic.
Proof.
  intros cfg it log ks log' H Hne T. unfold process in H. rewrite T in H.
  destruct (has_cb cfg); [destruct (it_out it)|]; inversion H; subst; apply Hne; reflexivity.
Qed.

Lemma NoDup_app_disj {A} : forall (l1 l2 : list A) x,
  NoDup (l1 ++ l2) -> In x l1 -> In x l2 -> False.
Proof.
  induction l1 as [|a l1 IH]; intros l2 x H H1 H2; [contradiction|].
  cbn in H. inversion H as [|? ? Hn Hnd]; subst.
  destruct H1 as [H1|H1].
  - subst. apply Hn. apply in_or_app; right; exact H2.
  - eapply IH; eassumption.
Qed.

Lemma NoDup_app_r {A} : forall (l1 l2 : list A), NoDup (l1 ++ l2) -> NoDup l2.
Proof.
  induction l1 as [|a l1 IH]; intros l2 H; [exact H|].
  cbn in H. inversion H; subst. apply IH; assumption.
Qed.

Lemma Inv_nodup_live : forall cfg live s,
  Inv cfg live s -> NoDup (ids live ++ ids (fated s)).
Proof.
  intros cfg live s I. unfold ids. rewrite <- map_app.
  eapply Permutation_NoDup; [apply Permutation_map; apply (inv_perm _ _ _ I)|apply (inv_nodup _ _ _ I)].
Qed.

(* an item of [live] and a fated item never share an id *)
Lemma live_not_fated : forall cfg live s it it',
  Inv cfg live s -> In it live -> In it' (fated s) -> it_id it <> it_id it'.
Proof.
  intros cfg live s it it' I Hl Hf E.
  apply (NoDup_app_disj _ _ (it_id it) (Inv_nodup_live _ _ _ I)).
  - apply in_map; exact Hl.
  - rewrite E. apply in_map; exact Hf.
Qed.

Lemma in_fates_fated : forall s it f, In (it, f) (g_fates s) -> In it (fated s).
Proof. intros s it f H. unfold fated. change it with (fst (it, f)). apply in_map; exact H. Qed.

(* the heart: giving the next live item a (non-expiry) fate keeps the invariant *)
Lemma fate_item_inv : forall cfg fok fbad it live s,
  Inv cfg (it :: live) s ->
  counted fok = true -> counted fbad = false -> fbad <> Expired ->
  Inv cfg live (fst (fate_item cfg fok fbad it s)).
Proof.
  intros cfg fok fbad it live s I Hok Hbad HbadE.
  assert (HokE : fok <> Expired) by (intros ->; discriminate).
  unfold fate_item. destruct (process cfg it (toxlog s)) as [pr log'] eqn:P. cbn [fst].
  set (f := match pr with POk _ => fok | PRaise => fbad end).
  assert (HfE : f <> Expired) by (unfold f; destruct pr; assumption).
  assert (Hcnt : (if counted f then 1 else 0) = match pr with POk _ => 1 | PRaise => 0 end).
  { unfold f; destruct pr; [rewrite Hok|rewrite Hbad]; reflexivity. }
  pose proof (process_log _ _ _ _ _ P) as Hlog.
  destruct I as [P1 P2 P3 P4 P5 P6 P7 P8 P9].
  constructor; cbn [g_all n_ingested n_digested toxlog bin g_fates queue].
  - unfold fated; cbn [g_fates map fst]. cbn in P1.
    eapply Permutation_trans; [exact P1|]. apply Permutation_middle.
  - exact P2.
  - exact P3.
  - exact P4.
  - erewrite (nfate_cons s _ it f) by reflexivity. rewrite Hcnt. destruct pr; lia.
  - destruct Hlog as [[-> _]|[-> [T C]]]; [exact P6|].
    constructor; [|exact P6]. intros Hin.
    destruct (P7 _ Hin) as (it' & f' & H1 & H2 & _).
    assert (I0 : Inv cfg (it :: live) s) by (constructor; assumption).
    eapply (live_not_fated _ _ _ it it' I0); [left; reflexivity|eapply in_fates_fated; exact H1|congruence].
  - intros i Hin.
    destruct Hlog as [[-> _]|[-> [T C]]].
    + destruct (P7 _ Hin) as (it' & f' & H1 & H2). exists it', f'. split; [right; exact H1|exact H2].
    + destruct Hin as [<-|Hin].
      * exists it, f. repeat split; auto. left; reflexivity.
      * destruct (P7 _ Hin) as (it' & f' & H1 & H2). exists it', f'. split; [right; exact H1|exact H2].
  - intros it' f' [E|Hin] T HE C.
    + inversion E; subst it' f'.
      destruct Hlog as [[_ Hn]|[-> _]]; [exfalso; apply Hn; auto|left; reflexivity].
    + specialize (P8 _ _ Hin T HE C).
      destruct Hlog as [[-> _]|[-> _]]; [exact P8|right; exact P8].
  - eapply binok_mono; [|exact P9]. intros x Hx; right; exact Hx.
Qed.

Lemma fate_item_facts : forall cfg fok fbad it s,
  let s' := fst (fate_item cfg fok fbad it s) in
  queue s' = queue s /\ bin s' = bin s /\
  (exists f, g_fates s' = (it, f) :: g_fates s) /\
  (forall ks, snd (fate_item cfg fok fbad it s) = POk ks -> ks <> [] -> it_type it <> Toxic).
Proof.
  intros cfg fok fbad it s. unfold fate_item.
  destruct (process cfg it (toxlog s)) as [pr log'] eqn:P. cbn.
  repeat split; eauto.
  intros ks -> Hne. eapply process_keys; eassumption.
Qed.

(* ---- emergency -------------------------------------------------------- *)

Lemma emerg_loop_inv : forall cfg items live s,
  Inv cfg (items ++ live) s -> Inv cfg live (emerg_loop cfg items s).
Proof.
  induction items as [|it items IH]; intros live s I; cbn; [exact I|].
  apply IH. unfold emerg_item. apply fate_item_inv; auto; discriminate.
Qed.

Lemma emerg_loop_queue : forall cfg items s, queue (emerg_loop cfg items s) = queue s.
Proof.
  induction items as [|it items IH]; intros s; cbn; [reflexivity|].
  rewrite IH. unfold emerg_item. apply (fate_item_facts cfg EmergOk EmergFail it s).
Qed.

Lemma emergency_queue : forall cfg s,
  queue (emergency cfg s) =
  skipn (Z.to_nat (Z.of_nat (List.length (queue s)) / 2)) (queue s).
Proof.
  intros cfg s. unfold emergency.
  destruct (Z.to_nat (Z.of_nat (List.length (queue s)) / 2)) eqn:E; [reflexivity|].
  cbn [queue set_queue]. rewrite emerg_loop_queue. reflexivity.
Qed.

Lemma emergency_inv : forall cfg s, Inv cfg (queue s) s -> Inv cfg (queue (emergency cfg s)) (emergency cfg s).
Proof.
  intros cfg s I. rewrite emergency_queue. unfold emergency.
  destruct (Z.to_nat (Z.of_nat (List.length (queue s)) / 2)) as [|n] eqn:E; [exact I|].
  apply (Inv_same cfg _ (emerg_loop cfg (firstn (S n) (queue s)) s)); [reflexivity..|].
  apply emerg_loop_inv. rewrite firstn_skipn. exact I.
Qed.

(* ---- digest ----------------------------------------------------------- *)

Lemma take_split : forall k q,
  to_process k q ++ after_take k q = q /\
  after_take k q = skipn (List.length (to_process k q)) q.
Proof.
  intros k q. unfold after_take, to_process. destruct k as [k|].
  - destruct (k =? 0).
    + rewrite app_nil_r, skipn_all. auto.
    + unfold py_take. destruct (0 <=? k); split; try reflexivity; apply firstn_len_split.
  - rewrite app_nil_r, skipn_all. auto.
Qed.

Lemma digest_item_inv : forall cfg auto it live s r s' r',
  digest_item cfg auto it s r = (s', r') ->
  Inv cfg (it :: live) s -> binok s (d_recycled r) ->
  Inv cfg live s' /\ binok s' (d_recycled r') /\ queue s' = queue s.
Proof.
  intros cfg auto it live s r s' r' H I B. unfold digest_item in H.
  set (fbad := if auto then AutoDiscarded else Reported) in *.
  assert (I' : Inv cfg live (fst (fate_item cfg Digested fbad it s))).
  { apply fate_item_inv; auto; unfold fbad; destruct auto; (reflexivity || discriminate). }
  destruct (fate_item_facts cfg Digested fbad it s) as (Hq & Hb & (f & Hf) & Hk).
  destruct (fate_item cfg Digested fbad it s) as [s1 pr]. cbn [fst snd] in *.
  assert (Bm : binok s1 (d_recycled r)).
  { eapply binok_mono; [|exact B]. intros x Hx. rewrite Hf. right; exact Hx. }
  destruct pr as [ks|].
  - inversion H; subst s' r'; clear H. cbn [d_recycled].
    assert (Bn : binok s1 (put_keys ks (it_id it) (d_recycled r))).
    { intros k v Hin. destruct (put_keys_in _ _ _ _ _ Hin) as [[-> Hne]|Hin'].
      - exists it, f. split; [rewrite Hf; left; reflexivity|]. split; [reflexivity|]. apply (Hk ks); auto.
      - apply (Bm k v); exact Hin'. }
    destruct (nonempty ks).
    + split; [|split].
      * apply (Inv_same cfg live s1); [reflexivity..|exact I'].
      * exact Bn.
      * exact Hq.
    + auto.
  - inversion H; subst s' r'; clear H. cbn [d_recycled]. auto.
Qed.

Lemma digest_loop_inv : forall cfg auto items live s r s' r',
  digest_loop cfg auto items s r = (s', r') ->
  Inv cfg (items ++ live) s -> binok s (d_recycled r) ->
  Inv cfg live s' /\ binok s' (d_recycled r') /\ queue s' = queue s.
Proof.
  induction items as [|it items IH]; intros live s r s' r' H I B; cbn in H.
  - inversion H; subst. auto.
  - destruct (digest_item cfg auto it s r) as [s1 r1] eqn:D.
    destruct (digest_item_inv _ _ _ (items ++ live) _ _ _ _ D I B) as (I1 & B1 & Q1).
    destruct (IH _ _ _ _ _ H I1 B1) as (I2 & B2 & Q2).
    split; [exact I2|split; [exact B2|congruence]].
Qed.

Lemma digest_queue : forall cfg auto k s,
  queue (fst (digest cfg auto k s)) = after_take k (queue s).
Proof.
  intros cfg auto k s. unfold digest.
  destruct (digest_loop cfg auto (to_process k (queue s)) (set_queue s (after_take k (queue s)))
                        (mkDres 0 [] [])) as [s1 r] eqn:D.
  cbn [fst set_bin queue].
  assert (Hq : queue s1 = queue (set_queue s (after_take k (queue s)))).
  { clear -D. revert D. generalize (set_queue s (after_take k (queue s))) as s0.
    generalize (mkDres 0 [] []) as r0. generalize (to_process k (queue s)) as items.
    induction items as [|it items IH]; intros r0 s0 D; cbn in D.
    - inversion D; reflexivity.
    - destruct (digest_item cfg auto it s0 r0) as [s2 r2] eqn:E.
      rewrite (IH _ _ D). unfold digest_item in E.
      destruct (fate_item_facts cfg Digested (if auto then AutoDiscarded else Reported) it s0) as (Hq & _).
      destruct (fate_item cfg Digested (if auto then AutoDiscarded else Reported) it s0) as [s3 pr].
      cbn [fst] in Hq. destruct pr as [ks|]; inversion E; subst; [destruct (nonempty ks)|]; exact Hq. }
  rewrite Hq. reflexivity.
Qed.

Lemma digest_inv : forall cfg auto k s,
  Inv cfg (queue s) s ->
  Inv cfg (queue (fst (digest cfg auto k s))) (fst (digest cfg auto k s)).
Proof.
  intros cfg auto k s I. rewrite digest_queue. unfold digest.
  destruct (take_split k (queue s)) as [Hsplit _].
  destruct (digest_loop cfg auto (to_process k (queue s)) (set_queue s (after_take k (queue s)))
                        (mkDres 0 [] [])) as [s1 r] eqn:D.
  cbn [fst].
  assert (I0 : Inv cfg (to_process k (queue s) ++ after_take k (queue s))
                   (set_queue s (after_take k (queue s)))).
  { rewrite Hsplit. apply (Inv_same cfg _ s); [reflexivity..|exact I]. }
  assert (B0 : binok (set_queue s (after_take k (queue s))) (d_recycled (mkDres 0 [] []))).
  { intros k0 v []. }
  destruct (digest_loop_inv _ _ _ _ _ _ _ _ D I0 B0) as (I1 & B1 & _).
  destruct I1 as [P1 P2 P3 P4 P5 P6 P7 P8 P9].
  constructor; try assumption.
  cbn [bin set_bin]. intros k0 v Hin.
  destruct (merge_in _ _ _ _ Hin) as [E|E]; [apply (B1 k0 v)|apply (P9 k0 v)]; exact E.
Qed.

(* ---- ingest ----------------------------------------------------------- *)

Lemma lenZ_cons {A} : forall (x : A) l, lenZ (x :: l) = lenZ l + 1.
Proof. intros; unfold lenZ; cbn [List.length]; lia. Qed.

Lemma ingest_inv : forall cfg t c o s,
  Inv cfg (queue s) s -> Inv cfg (queue (ingest cfg t c o s)) (ingest cfg t c o s).
Proof.
  intros cfg t c o s I. unfold ingest.
  set (s1 := if max_queue cfg <=? qlen s then emergency cfg s else s).
  assert (I1 : Inv cfg (queue s1) s1).
  { unfold s1. destruct (max_queue cfg <=? qlen s); [apply emergency_inv|]; exact I. }
  clearbody s1. clear I s.
  set (it := mkItem (n_ingested s1) t c o).
  match goal with |- context [if _ then fst (digest _ _ _ ?S) else _] => set (s2 := S) end.
  assert (I2 : Inv cfg (queue s2) s2).
  { destruct I1 as [P1 P2 P3 P4 P5 P6 P7 P8 P9].
    constructor; unfold s2; cbn [queue g_all n_ingested n_digested toxlog bin g_fates];
      unfold fated, nfate, with_fate, binok in *; cbn [g_fates]; try assumption.
    - rewrite <- app_assoc. cbn [app]. apply Permutation_cons_app. exact P1.
    - cbn [ids map]. constructor; [|exact P2]. intros Hin.
      apply in_map_iff in Hin. destruct Hin as (x & Hx & Hin).
      specialize (P3 _ Hin). cbn [it_id it] in Hx. lia.
    - intros x [<-|Hx]; [cbn; lia|]. specialize (P3 _ Hx). lia.
    - rewrite lenZ_cons. lia. }
  destruct (auto_thr cfg <=? qlen s2); [apply digest_inv|]; exact I2.
Qed.

(* ---- autophagy -------------------------------------------------------- *)

Lemma filter_expired_none : forall f (l : list item), f <> Expired ->
  filter (fun p : item * fate => fate_eqb (snd p) f) (map (fun it => (it, Expired)) l) = [].
Proof.
  intros f l Hf. induction l as [|x l IH]; cbn; [reflexivity|].
  destruct f; try exact IH. contradiction.
Qed.

Lemma nfate_autophagy : forall f s gone s',
  f <> Expired -> g_fates s' = map (fun it => (it, Expired)) gone ++ g_fates s ->
  nfate f s' = nfate f s.
Proof.
  intros f s gone s' Hf H. unfold nfate, with_fate. rewrite H, filter_app, filter_expired_none by exact Hf.
  reflexivity.
Qed.

Lemma autophagy_inv : forall cfg s,
  Inv cfg (queue s) s ->
  Inv cfg (queue (fst (autophagy cfg s))) (fst (autophagy cfg s)).
Proof.
  intros cfg s [P1 P2 P3 P4 P5 P6 P7 P8 P9]. unfold autophagy. cbn [fst queue].
  set (keep := filter (fresh cfg (now s)) (queue s)).
  set (gone := filter (fun it => negb (fresh cfg (now s) it)) (queue s)).
  constructor; cbn [g_all n_ingested n_digested toxlog bin g_fates]; try assumption.
  - unfold fated; cbn [g_fates]. rewrite map_app, map_map. cbn [fst]. rewrite map_id.
    eapply Permutation_trans; [exact P1|]. rewrite app_assoc.
    apply Permutation_app_tail. apply filter_partition.
  - rewrite (nfate_autophagy Digested s gone), (nfate_autophagy EmergOk s gone); try discriminate; try reflexivity.
    exact P5.
  - intros i Hin. destruct (P7 _ Hin) as (it & f & H1 & H2). exists it, f.
    split; [apply in_or_app; right; exact H1|exact H2].
  - intros it f Hin T HE C. apply in_app_or in Hin. destruct Hin as [Hin|Hin].
    + apply in_map_iff in Hin. destruct Hin as (x & E & _). inversion E; subst. exfalso; apply HE; reflexivity.
    + eapply P8; eassumption.
  - eapply binok_mono; [|exact P9]. intros x Hx. cbn [g_fates]. apply in_or_app; right; exact Hx.
Qed.

(* ---- all histories ---------------------------------------------------- *)

Lemma init_inv : forall cfg, Inv cfg (queue init) init.
Proof.
  intros cfg. constructor; cbn.
  - constructor.
  - constructor.
  - intros it [].
  - reflexivity.
  - reflexivity.
  - constructor.
  - intros i [].
  - intros it f [].
  - intros k v [].
Qed.

Lemma step_inv : forall cfg s o,
  Inv cfg (queue s) s -> Inv cfg (queue (fst (step cfg s o))) (fst (step cfg s o)).
Proof.
  intros cfg s o I. destruct o; cbn [step].
  - apply ingest_inv; exact I.
  - apply ingest_inv; exact I.
  - apply ingest_inv; exact I.
  - pose proof (digest_inv cfg false k s I) as H.
    destruct (digest cfg false k s) as [s' r]. exact H.
  - pose proof (autophagy_inv cfg s I) as H.
    destruct (autophagy cfg s) as [s' n]. exact H.
  - cbn [fst]. apply (Inv_same cfg _ s); [reflexivity..|exact I].
Qed.

Lemma run_from_inv : forall cfg ops s,
  Inv cfg (queue s) s ->
  let s' := fold_left (fun s o => fst (step cfg s o)) ops s in Inv cfg (queue s') s'.
Proof.
  induction ops as [|o ops IH]; intros s I; cbn; [exact I|].
  apply IH. apply step_inv. exact I.
Qed.

Lemma run_inv : forall cfg ops, Inv cfg (queue (run cfg ops)) (run cfg ops).
Proof. intros. unfold run. apply run_from_inv. apply init_inv. Qed.

(* ====================================================================== *)
(* the property conjuncts, for all histories                                *)

Lemma fates_count : forall l : list (item * fate),
  Z.of_nat (List.length l) =
    Z.of_nat (List.length (filter (fun p => fate_eqb (snd p) Digested) l))
  + Z.of_nat (List.length (filter (fun p => fate_eqb (snd p) Reported) l))
  + Z.of_nat (List.length (filter (fun p => fate_eqb (snd p) AutoDiscarded) l))
  + Z.of_nat (List.length (filter (fun p => fate_eqb (snd p) EmergOk) l))
  + Z.of_nat (List.length (filter (fun p => fate_eqb (snd p) EmergFail) l))
  + Z.of_nat (List.length (filter (fun p => fate_eqb (snd p) Expired) l)).
Proof.
  induction l as [|[it f] l IH]; [reflexivity|].
  destruct f; cbn [filter snd fate_eqb List.length]; lia.
Qed.

Lemma nfate_total : forall s,
  lenZ (g_fates s) = nfate Digested s + nfate Reported s + nfate AutoDiscarded s
                     + nfate EmergOk s + nfate EmergFail s + nfate Expired s.
Proof.
  intros s. unfold nfate, with_fate, lenZ. rewrite !map_length. apply fates_count.
Qed.

Lemma fate_unique : forall cfg live s it f it' f',
  Inv cfg live s -> In (it, f) (g_fates s) -> In (it', f') (g_fates s) ->
  it_id it = it_id it' -> it = it' /\ f = f'.
Proof.
  intros cfg live s it f it' f' I H1 H2 E.
  pose proof (Inv_nodup_live _ _ _ I) as Hnd. apply NoDup_app_r in Hnd.
  unfold ids, fated in Hnd. rewrite map_map in Hnd.
  assert (X : (it, f) = (it', f')).
  { eapply (NoDup_map_inj (fun p : item * fate => it_id (fst p))); eauto. }
  inversion X; auto.
Qed.

Definition conservation_stmt (cfg : config) (ops : list op) : Prop :=
  let s := run cfg ops in
  Permutation (g_all s) (queue s ++ map fst (g_fates s)) /\
  NoDup (ids (queue s) ++ ids (map fst (g_fates s))) /\
  (forall i, In i (ids (g_all s)) <->
             In i (ids (queue s)) \/ In i (ids (map fst (g_fates s)))) /\
  (forall it f it' f', In (it, f) (g_fates s) -> In (it', f') (g_fates s) ->
                       it_id it = it_id it' -> it = it' /\ f = f') /\
  n_ingested s = lenZ (g_all s) /\
  n_digested s = nfate Digested s + nfate EmergOk s /\
  n_ingested s = qlen s + n_digested s + nfate Reported s + nfate AutoDiscarded s
                 + nfate EmergFail s + nfate Expired s.

Lemma conservation_proof : forall cfg ops, conservation_stmt cfg ops.
Proof.
  intros cfg ops. unfold conservation_stmt. cbv zeta.
  pose proof (run_inv cfg ops) as I. set (s := run cfg ops) in *.
  pose proof (inv_perm _ _ _ I) as P1. fold (fated s).
  split; [exact P1|].
  split; [apply (Inv_nodup_live _ _ _ I)|].
  split.
  { intros i. unfold ids. rewrite <- in_app_iff, <- map_app. split; intros H.
    - eapply Permutation_in; [apply Permutation_map; exact P1|exact H].
    - eapply Permutation_in; [apply Permutation_map; apply Permutation_sym; exact P1|exact H]. }
  split; [intros; eapply fate_unique; eauto|].
  split; [apply (inv_ning _ _ _ I)|].
  split; [apply (inv_ndig _ _ _ I)|].
  rewrite (inv_ning _ _ _ I), (inv_ndig _ _ _ I).
  pose proof (Permutation_length P1) as L. rewrite app_length in L.
  unfold fated in L. rewrite map_length in L.
  pose proof (nfate_total s) as T. unfold lenZ, qlen in *. lia.
Qed.

(* ---- bounded queue ---------------------------------------------------- *)

Lemma after_take_le : forall k q, (List.length (after_take k q) <= List.length q)%nat.
Proof.
  intros k q. destruct (take_split k q) as [_ ->]. rewrite skipn_length. lia.
Qed.

Lemma ingest_bounded : forall cfg t c o s,
  2 <= max_queue cfg -> qlen s <= max_queue cfg -> qlen (ingest cfg t c o s) <= max_queue cfg.
Proof.
  intros cfg t c o s Hmax Hq. unfold ingest.
  set (s1 := if max_queue cfg <=? qlen s then emergency cfg s else s).
  assert (H1 : qlen s1 + 1 <= max_queue cfg).
  { unfold s1. destruct (max_queue cfg <=? qlen s) eqn:E; [|lia].
    unfold qlen in *. rewrite emergency_queue, skipn_length.
    pose proof (Z.div_mod (Z.of_nat (List.length (queue s))) 2 ltac:(lia)) as D.
    pose proof (Z.mod_pos_bound (Z.of_nat (List.length (queue s))) 2 ltac:(lia)) as M.
    set (h := Z.of_nat (List.length (queue s)) / 2) in *. lia. }
  clearbody s1.
  match goal with |- context [if _ then fst (digest _ _ _ ?S) else _] => set (s2 := S) end.
  assert (H2 : qlen s2 = qlen s1 + 1).
  { unfold s2, qlen; cbn [queue]. rewrite app_length; cbn [List.length]. lia. }
  destruct (auto_thr cfg <=? qlen s2); [|lia].
  unfold qlen in *. rewrite digest_queue.
  pose proof (after_take_le (Some (Z.of_nat (List.length (queue s2)) / 2)) (queue s2)). lia.
Qed.

Lemma step_bounded : forall cfg s o,
  2 <= max_queue cfg -> qlen s <= max_queue cfg -> qlen (fst (step cfg s o)) <= max_queue cfg.
Proof.
  intros cfg s o Hmax Hq. destruct o; cbn [step].
  - apply ingest_bounded; assumption.
  - apply ingest_bounded; assumption.
  - apply ingest_bounded; assumption.
  - pose proof (digest_queue cfg false k s) as Q.
    destruct (digest cfg false k s) as [s' r]. cbn [fst] in *. unfold qlen in *. rewrite Q.
    pose proof (after_take_le k (queue s)). lia.
  - unfold autophagy, qlen in *. cbn [fst queue].
    pose proof (filter_length_le (fresh cfg (now s)) (queue s)). lia.
  - exact Hq.
Qed.

Lemma queue_bounded_proof : forall cfg ops,
  2 <= max_queue cfg -> qlen (run cfg ops) <= max_queue cfg.
Proof.
  intros cfg ops Hmax. unfold run.
  assert (G : forall s, qlen s <= max_queue cfg ->
                        qlen (fold_left (fun s o => fst (step cfg s o)) ops s) <= max_queue cfg).
  { induction ops as [|o ops IH]; intros s Hs; cbn; [exact Hs|].
    apply IH. apply step_bounded; assumption. }
  apply G. unfold qlen; cbn. lia.
Qed.

(* ---- toxic items ------------------------------------------------------ *)

Lemma fated_in_all : forall cfg live s it f,
  Inv cfg live s -> In (it, f) (g_fates s) -> In it (g_all s).
Proof.
  intros cfg live s it f I H.
  eapply Permutation_in; [apply Permutation_sym; apply (inv_perm _ _ _ I)|].
  apply in_or_app; right. eapply in_fates_fated; exact H.
Qed.

Lemma toxic_never_recycled_proof : forall cfg ops k v it,
  let s := run cfg ops in
  In (k, v) (bin s) -> In it (g_all s) -> it_id it = v -> it_type it <> Toxic.
Proof.
  intros cfg ops k v it s Hb Hit Hid.
  pose proof (run_inv cfg ops) as I. fold s in I.
  destruct (inv_bin _ _ _ I k v Hb) as (it' & f & H1 & H2 & H3).
  assert (it = it').
  { eapply (NoDup_map_inj it_id); [apply (inv_nodup _ _ _ I)|exact Hit|eapply fated_in_all; eauto|congruence]. }
  subst it'. exact H3.
Qed.

Definition toxic_callback_stmt (cfg : config) (ops : list op) : Prop :=
  let s := run cfg ops in
  (* at most once, ever *)
  (forall i, (count_occ Z.eq_dec (toxlog s) i <= 1)%nat) /\
  (* only for sensitive items that were ingested, and only if on_toxic is set *)
  (forall i, In i (toxlog s) ->
     has_cb cfg = true /\ exists it, In it (g_all s) /\ it_id it = i /\ it_type it = Toxic) /\
  (* never while the item is still queued *)
  (forall it, In it (queue s) -> ~ In (it_id it) (toxlog s)) /\
  (* exactly once for every sensitive item that was digested or
     emergency-processed (whether on_toxic returned or raised); never for
     one that autophagy expired *)
  (forall it f, In (it, f) (g_fates s) -> it_type it = Toxic -> has_cb cfg = true ->
     count_occ Z.eq_dec (toxlog s) (it_id it) = if fate_eqb f Expired then 0%nat else 1%nat).

Lemma fate_eqb_spec : forall a b, fate_eqb a b = true <-> a = b.
Proof. intros a b; destruct a, b; cbn; split; intros H; try reflexivity; try discriminate. Qed.

Lemma toxic_callback_proof : forall cfg ops, toxic_callback_stmt cfg ops.
Proof.
  intros cfg ops. unfold toxic_callback_stmt. cbv zeta.
  pose proof (run_inv cfg ops) as I. set (s := run cfg ops) in *.
  pose proof (inv_tox_nodup _ _ _ I) as Hnd.
  split; [intros i; apply (proj1 (NoDup_count_occ Z.eq_dec _) Hnd)|].
  split.
  { intros i Hin. destruct (inv_tox_sound _ _ _ I i Hin) as (it & f & H1 & H2 & H3 & _ & H5).
    split; [exact H5|]. exists it. split; [eapply fated_in_all; eauto|auto]. }
  split.
  { intros it Hq Hin. destruct (inv_tox_sound _ _ _ I _ Hin) as (it' & f & H1 & H2 & _).
    eapply (live_not_fated _ _ _ it it' I Hq); [eapply in_fates_fated; exact H1|congruence]. }
  intros it f Hf T C.
  destruct (fate_eqb f Expired) eqn:E.
  - apply fate_eqb_spec in E. subst f. apply count_occ_not_In. intros Hin.
    destruct (inv_tox_sound _ _ _ I _ Hin) as (it' & f' & H1 & H2 & _ & H4 & _).
    destruct (fate_unique _ _ _ _ _ _ _ I Hf H1 (eq_sym H2)) as [_ X]. congruence.
  - assert (HE : f <> Expired) by (intros ->; cbn in E; discriminate).
    apply (proj1 (NoDup_count_occ' Z.eq_dec _) Hnd).
    eapply (inv_tox_complete _ _ _ I); eauto.
Qed.

(* ---- every model call returns ----------------------------------------- *)

Lemma step_total : forall cfg s o, exists s' r, step cfg s o = (s', r).
Proof. intros cfg s o. destruct (step cfg s o) as [s' r]. eauto. Qed.

(* ====================================================================== *)
(* Part 2: the one-lock machine                                             *)

Open Scope nat_scope.

(* how many times thread i holds the lock *)
Definition held (m : mstate) (i : nat) : nat :=
  match m_owner m with
  | Some j => if Nat.eqb j i then m_count m else 0
  | None => 0
  end.

Record minv (k : lockkind) (m : mstate) : Prop := mkMinv {
  mi_wb : forall i, wb (held m i) (m_code m i) = true;
  mi_flat : k <> Reentrant -> forall i, flat (held m i) (m_code m i) = true;
  mi_count : forall j, m_owner m = Some j -> 1 <= m_count m
}.

Lemma upd_same : forall f i c, upd f i c i = c.
Proof. intros. unfold upd. rewrite Nat.eqb_refl. reflexivity. Qed.

Lemma upd_other : forall f i c j, j <> i -> upd f i c j = f j.
Proof. intros f i c j H. unfold upd. apply Nat.eqb_neq in H. rewrite H. reflexivity. Qed.

Lemma minv_step : forall k m m', minv k m -> mstep k m m' -> minv k m'.
Proof.
  intros k m m' [W F C] S.
  destruct S as [f o c i rest Hi | f c i rest Hi | f c i rest Hk Hi | f i rest Hi | f c i rest Hi];
    unfold held in *; cbn [m_owner m_count m_code] in *.
  - (* Step *)
    constructor; unfold held; cbn [m_owner m_count m_code].
    + intros j. destruct (Nat.eq_dec j i) as [->|Hne].
      * rewrite upd_same. specialize (W i). rewrite Hi in W. exact W.
      * rewrite upd_other by exact Hne. apply W.
    + intros Hk j. destruct (Nat.eq_dec j i) as [->|Hne].
      * rewrite upd_same. specialize (F Hk i). rewrite Hi in F. exact F.
      * rewrite upd_other by exact Hne. apply F; exact Hk.
    + exact C.
  - (* Acq, lock free *)
    constructor; unfold held; cbn [m_owner m_count m_code].
    + intros j. destruct (Nat.eq_dec j i) as [->|Hne].
      * rewrite upd_same, Nat.eqb_refl. specialize (W i). rewrite Hi in W. exact W.
      * rewrite upd_other by exact Hne.
        assert (E : Nat.eqb i j = false) by (apply Nat.eqb_neq; auto). rewrite E. apply W.
    + intros Hk j. destruct (Nat.eq_dec j i) as [->|Hne].
      * rewrite upd_same, Nat.eqb_refl. specialize (F Hk i). rewrite Hi in F. cbn in F. exact F.
      * rewrite upd_other by exact Hne.
        assert (E : Nat.eqb i j = false) by (apply Nat.eqb_neq; auto). rewrite E. apply F; exact Hk.
    + intros; lia.
  - (* Acq again, reentrant *)
    constructor; unfold held; cbn [m_owner m_count m_code].
    + intros j. destruct (Nat.eq_dec j i) as [->|Hne].
      * rewrite upd_same, Nat.eqb_refl. specialize (W i). rewrite Hi, Nat.eqb_refl in W. exact W.
      * rewrite upd_other by exact Hne.
        assert (E : Nat.eqb i j = false) by (apply Nat.eqb_neq; auto).
        specialize (W j). rewrite E in *. exact W.
    + intros Hk'; contradiction.
    + intros; lia.
  - (* last Rel *)
    constructor; unfold held; cbn [m_owner m_count m_code].
    + intros j. destruct (Nat.eq_dec j i) as [->|Hne].
      * rewrite upd_same. specialize (W i). rewrite Hi, Nat.eqb_refl in W. exact W.
      * rewrite upd_other by exact Hne.
        assert (E : Nat.eqb i j = false) by (apply Nat.eqb_neq; auto).
        specialize (W j). rewrite E in W. exact W.
    + intros Hk j. destruct (Nat.eq_dec j i) as [->|Hne].
      * rewrite upd_same. specialize (F Hk i). rewrite Hi, Nat.eqb_refl in F. exact F.
      * rewrite upd_other by exact Hne.
        assert (E : Nat.eqb i j = false) by (apply Nat.eqb_neq; auto).
        specialize (F Hk j). rewrite E in F. exact F.
    + intros j Hj; discriminate.
  - (* inner Rel *)
    constructor; unfold held; cbn [m_owner m_count m_code].
    + intros j. destruct (Nat.eq_dec j i) as [->|Hne].
      * rewrite upd_same, Nat.eqb_refl. specialize (W i). rewrite Hi, Nat.eqb_refl in W. exact W.
      * rewrite upd_other by exact Hne.
        assert (E : Nat.eqb i j = false) by (apply Nat.eqb_neq; auto).
        specialize (W j). rewrite E in *. exact W.
    + intros Hk j. destruct (Nat.eq_dec j i) as [->|Hne].
      * rewrite upd_same, Nat.eqb_refl. specialize (F Hk i). rewrite Hi, Nat.eqb_refl in F. exact F.
      * rewrite upd_other by exact Hne.
        assert (E : Nat.eqb i j = false) by (apply Nat.eqb_neq; auto).
        specialize (F Hk j). rewrite E in *. exact F.
    + intros; lia.
Qed.

Lemma minv_reach : forall k m0 m, minv k m0 -> mreach k m0 m -> minv k m.
Proof.
  intros k m0 m I R. induction R as [|m m' R IH S]; [exact I|].
  eapply minv_step; [exact IH|exact S].
Qed.

Lemma minv_progress : forall k m,
  minv k m -> (exists i, m_code m i <> []) -> exists m', mstep k m m'.
Proof.
  intros k [f o c] [W F C] [i Hi]. unfold held in *; cbn [m_owner m_count m_code] in *.
  destruct o as [j|].
  - (* held by j: j can move *)
    specialize (C j eq_refl). pose proof (W j) as Wj. rewrite Nat.eqb_refl in Wj.
    destruct (f j) as [|ins rest] eqn:Ej.
    + destruct c; [lia|discriminate].
    + destruct ins.
      * destruct k.
        -- assert (Hk : NonReentrant <> Reentrant) by discriminate.
           specialize (F Hk j). rewrite Ej, Nat.eqb_refl in F. cbn in F.
           destruct c; [lia|discriminate].
        -- eexists. eapply MAcqAgain; [reflexivity|exact Ej].
        -- assert (Hk : UnrecognisedLock <> Reentrant) by discriminate.
           specialize (F Hk j). rewrite Ej, Nat.eqb_refl in F. cbn in F.
           destruct c; [lia|discriminate].
      * destruct c as [|[|c]]; [lia| |].
        -- eexists. eapply MRelLast; exact Ej.
        -- eexists. eapply MRelInner; exact Ej.
      * eexists. eapply MStep; exact Ej.
  - (* free: any unfinished thread can move *)
    specialize (W i). destruct (f i) as [|ins rest] eqn:Ei; [contradiction|].
    destruct ins.
    + eexists. eapply MAcqFree; exact Ei.
    + cbn in W. discriminate.
    + eexists. eapply MStep; exact Ei.
Qed.

(* the machine-level theorem: well-bracketed programs on one lock (flat ones
   if the lock is not reentrant) never reach a stuck configuration *)
Lemma lock_machine_no_deadlock : forall k (progs : nat -> list instr),
  (forall i, wb 0 (progs i) = true) ->
  (k <> Reentrant -> forall i, flat 0 (progs i) = true) ->
  forall m, mreach k (minit progs) m -> (exists i, m_code m i <> []) ->
  exists m', mstep k m m'.
Proof.
  intros k progs Hwb Hflat m R U.
  apply minv_progress; [|exact U].
  eapply minv_reach; [|exact R].
  constructor; unfold held, minit; cbn [m_owner m_count m_code].
  - exact Hwb.
  - exact Hflat.
  - intros j Hj; discriminate.
Qed.

(* ---- compiled call graphs are well bracketed --------------------------- *)

Definition balanced (p : list instr) : Prop := forall d q, wb d (p ++ q) = wb d q.

Lemma balanced_flat_map {A} (F : A -> list instr) : forall l,
  (forall x, balanced (F x)) -> balanced (flat_map F l).
Proof.
  induction l as [|x l IH]; intros H d q; cbn; [reflexivity|].
  rewrite <- app_assoc, H. apply IH; exact H.
Qed.

Lemma compile_balanced : forall g fuel m, balanced (compile g fuel m).
Proof.
  induction fuel as [|f IH]; intros m d q; cbn [compile]; [reflexivity|].
  destruct (lookup g m) as [mi|]; [|reflexivity].
  destruct (acquires mi).
  - cbn [app wb]. rewrite <- app_assoc.
    rewrite (balanced_flat_map (compile g f) _ (fun x => IH x)). cbn [app wb].
    apply (balanced_flat_map (compile g f) _ (fun x => IH x)).
  - cbn [app wb]. apply (balanced_flat_map (compile g f) _ (fun x => IH x)).
Qed.

Lemma thread_prog_wb : forall g fuel calls, wb 0 (thread_prog g fuel calls) = true.
Proof.
  intros g fuel calls. unfold thread_prog.
  rewrite <- (app_nil_r (flat_map _ _)).
  rewrite (balanced_flat_map (compile g fuel) _ (fun x => compile_balanced g fuel x)). reflexivity.
Qed.

(* ---- ... and flat when the non-reentrant check passes ------------------ *)

Definition steponly (p : list instr) : Prop := forall d q, flat d (p ++ q) = flat d q.

Lemma steponly_flat_map {A} (F : A -> list instr) : forall l,
  (forall x, In x l -> steponly (F x)) -> steponly (flat_map F l).
Proof.
  induction l as [|x l IH]; intros H d q; cbn; [reflexivity|].
  rewrite <- app_assoc, (H x (or_introl eq_refl)). apply IH. intros y Hy; apply H; right; exact Hy.
Qed.

Lemma existsb_false {A} (f : A -> bool) : forall l,
  existsb f l = false -> forall x, In x l -> f x = false.
Proof.
  induction l as [|y l IH]; intros H x Hx; [contradiction|].
  cbn in H. apply orb_false_iff in H. destruct H as [H1 H2].
  destruct Hx as [<-|Hx]; auto.
Qed.

Lemma noacq_steponly : forall g f m, reaches_acq g f m = false ->
  forall f', steponly (compile g f' m).
Proof.
  induction f as [|f IH]; intros m H f'; cbn [reaches_acq] in H; [discriminate|].
  destruct (lookup g m) as [mi|] eqn:L; [|discriminate].
  apply orb_false_iff in H. destruct H as [Ha Hc].
  destruct f' as [|f']; cbn [compile]; [intros d q; reflexivity|].
  rewrite L, Ha. intros d q. cbn [app flat].
  apply (steponly_flat_map (compile g f')). intros c Hin.
  apply IH. eapply existsb_false; eassumption.
Qed.

Definition fbalanced (p : list instr) : Prop := forall q, flat 0 (p ++ q) = flat 0 q.

Lemma fbalanced_flat_map {A} (F : A -> list instr) : forall l,
  (forall x, fbalanced (F x)) -> fbalanced (flat_map F l).
Proof.
  induction l as [|x l IH]; intros H q; cbn; [reflexivity|].
  rewrite <- app_assoc, H. apply IH; exact H.
Qed.

Lemma lookup_In : forall g m mi, lookup g m = Some mi -> In mi g.
Proof.
  induction g as [|x g IH]; intros m mi H; cbn in H; [discriminate|].
  destruct (String.eqb (m_name x) m); [inversion H; left; reflexivity|right; eapply IH; exact H].
Qed.

Lemma compile_fbalanced : forall g,
  forallb (method_ok g) g = true -> forall fuel m, fbalanced (compile g fuel m).
Proof.
  intros g Hok. rewrite forallb_forall in Hok.
  induction fuel as [|f IH]; intros m q; cbn [compile]; [reflexivity|].
  destruct (lookup g m) as [mi|] eqn:L; [|reflexivity].
  destruct (acquires mi).
  - cbn [app flat]. rewrite Nat.eqb_refl. cbn [andb]. rewrite <- app_assoc.
    assert (S1 : steponly (flat_map (compile g f) (m_calls_locked mi))).
    { apply steponly_flat_map. intros c Hc.
      apply (noacq_steponly g (S (List.length g))).
      specialize (Hok mi (lookup_In _ _ _ L)). unfold method_ok in Hok.
      rewrite forallb_forall in Hok. specialize (Hok c Hc).
      apply negb_true_iff in Hok. exact Hok. }
    rewrite S1. cbn [app flat].
    apply (fbalanced_flat_map (compile g f) _ (fun x => IH x)).
  - cbn [app flat]. apply (fbalanced_flat_map (compile g f) _ (fun x => IH x)).
Qed.

Lemma thread_prog_flat : forall g, forallb (method_ok g) g = true ->
  forall fuel calls, flat 0 (thread_prog g fuel calls) = true.
Proof.
  intros g Hok fuel calls. unfold thread_prog.
  rewrite <- (app_nil_r (flat_map _ _)).
  rewrite (fbalanced_flat_map (compile g fuel) _ (fun x => compile_fbalanced g Hok fuel x)). reflexivity.
Qed.

(* the lock-discipline theorem: if the checks pass on a call graph then any
   number of threads, each calling any methods of the class in any order,
   never reach a configuration in which some thread is unfinished and no
   thread can take a step *)
Lemma lock_discipline_no_deadlock : forall k g,
  no_self_deadlock k g && single_lock g = true ->
  forall fuel (calls : nat -> list string) m,
    mreach k (minit (fun i => thread_prog g fuel (calls i))) m ->
    (exists i, m_code m i <> []) -> exists m', mstep k m m'.
Proof.
  intros k g H fuel calls m R U. apply andb_true_iff in H. destruct H as [H _].
  eapply lock_machine_no_deadlock; [| |exact R|exact U].
  - intros i. apply thread_prog_wb.
  - intros Hk i. destruct k; cbn in H; try discriminate; [|contradiction].
    apply andb_true_iff in H. destruct H as [_ H]. apply thread_prog_flat; exact H.
Qed.
