(* C13 — model of operon_ai/organelles/lysosome.py (class Lysosome) as it is at
   /repo HEAD (self._lock = threading.RLock()).  Executable definitions only
   (no proofs).

   Part 1, sequential model.  A lysosome is: the queue (_queue, oldest first),
   the counters get_statistics exposes (_total_ingested, _total_digested,
   _total_recycled, _by_type), the recycling bin (_recycling_bin), a virtual
   clock, the log of on_toxic calls, and GHOST state that the Python object
   does not have: every item ever ingested ([g_all]) and, for every item that
   has left the queue, the way it left ([g_fates]).

   An item carries its id (its position in the ingestion order), waste type,
   created_at and the outcome its digester WILL have when (if) it is called on
   it: [Ok keys] (returns the dict {key: item-id for key in keys}; [] is the
   empty dict) or [Raises] (raises an Exception).  Every item is handed to a
   digester at most once (that is part of c13_conservation), so a per-item
   outcome is as general as a per-call oracle.  TOXIC_BYPRODUCT items go
   through the default _digest_toxic: the outcome then says whether on_toxic
   returns or raises, and nothing is recycled.

   Dicts: the recycling bin (and DigestResult.recycled) are association lists
   sorted by key, last writer wins ([put]); values are the id of the item
   whose digester produced the key (the harness' digesters return exactly
   that), which makes provenance observable on the real object.

   Part 1b, overlapping calls: digest() runs its digesters outside the lock,
   so a digest pass is split at its digester calls (PassBegin / PassStep) and
   any other call - also further passes, of any number of threads - runs in
   between; the pass-local variables disposed / errors / recycled belong to
   the pass.  [run_case] runs this interleaved semantics (a sequential
   history is the special case in which every call is [Atomic]).

   Part 1c, threads: any number of threads, each with its own list of calls,
   and a schedule (which thread moves next, at the granularity of Part 1b: a
   call of digest() is one step for taking its items plus one step per
   digester call, every other call is one step - its single critical
   section).  [run_case] runs this on the schedules the deterministic
   scheduler of the harness produced with real threads.

   Part 1d, the threshold reassigned at run time: auto_digest_threshold is a
   public attribute; a history may assign to it between two calls (SetThr).

   Part 1e, several lysosomes in one program, built from one caller-owned
   digesters mapping, on one clock: a world is the list of its objects; a
   call on one object is a step of that object's history and of no other.

   Part 1f, error paths: a call may RAISE inside the object - autophagy() over
   a queued item whose created_at cannot be subtracted from the naive `now`
   (a timezone-aware datetime, or not a datetime at all), or while
   retention_period is not a timedelta (assigned by the caller on the live
   object); digest(max_items) with something that is not an integer.  The
   outcome of such a call is the explicit [RRaised]: the exception propagates
   to the caller, who handles it and goes on - on this thread or on another.
   In Part 2 the program of a raising call is the prefix it executed followed
   by one release per `with self._lock:` block the exception leaves through
   ([unwind]).

   Part 2, lock discipline: call-graph type filled in by the translator
   (coq/gen/Gen_C13.v), decidable checks (no self-deadlock, one lock, no
   unbounded loop / recursion, one critical section per call), and a one-lock
   abstract machine. *)
From Coq Require Import ZArith List Bool String Ascii.
Import ListNotations.
Open Scope Z_scope.

(* ====================================================================== *)
(* Part 1: sequential model                                                 *)

Inductive wtype := Misfolded | ExpiredCache | FailedOp | Orphaned | Toxic.
Inductive outcome := Ok (keys : list Z) | Raises.

(* Waste.created_at: a naive datetime ([At t]: t hours on the virtual clock), or
   [Odd]: something `datetime.now() - created_at` raises TypeError on - a
   timezone-aware datetime (datetime.now(timezone.utc)), None, a string, a date *)
Inductive stamp := At (t : Z) | Odd.

Record item := mkItem { it_id : Z; it_type : wtype; it_created : stamp; it_out : outcome }.

(* how an item left the queue *)
Inductive fate :=
| Digested        (* digest(): digester returned; counted in total_digested and DigestResult.disposed *)
| Reported        (* digest() called by the user: digester raised; reported in DigestResult.errors *)
| AutoDiscarded   (* digest() called by _auto_digest: digester raised; the DigestResult is thrown away *)
| EmergOk         (* _emergency_digest: digester returned; counted in total_digested, its result dropped *)
| EmergFail       (* _emergency_digest: digester raised; only logged, item dropped *)
| Expired.        (* autophagy: past retention *)

Record config := mkConfig {
  max_queue : Z;        (* max_queue_size *)
  auto_thr : Z;         (* auto_digest_threshold *)
  retention : option Z; (* retention_period: Some h = timedelta(hours=h); None = not a timedelta (Part 1f) *)
  has_cb : bool }.      (* on_toxic is not None *)

Record state := mkState {
  queue : list item;
  n_ingested : Z;
  n_digested : Z;
  n_recycled : Z;
  by_type : wtype -> Z;
  bin : list (Z * Z);          (* key -> id of the producing item, sorted by key *)
  toxlog : list Z;             (* ids passed to on_toxic, most recent first *)
  now : Z;
  g_all : list item;           (* ghost: everything ever ingested, most recent first *)
  g_fates : list (item * fate) (* ghost: most recent first *)
}.

Definition init : state :=
  mkState [] 0 0 0 (fun _ => 0) [] [] 0 [] [].

Definition wtype_eqb (a b : wtype) : bool :=
  match a, b with
  | Misfolded, Misfolded | ExpiredCache, ExpiredCache | FailedOp, FailedOp
  | Orphaned, Orphaned | Toxic, Toxic => true
  | _, _ => false
  end.

Definition fate_eqb (a b : fate) : bool :=
  match a, b with
  | Digested, Digested | Reported, Reported | AutoDiscarded, AutoDiscarded
  | EmergOk, EmergOk | EmergFail, EmergFail | Expired, Expired => true
  | _, _ => false
  end.

Definition set_queue (s : state) (q : list item) : state :=
  mkState q (n_ingested s) (n_digested s) (n_recycled s) (by_type s) (bin s)
          (toxlog s) (now s) (g_all s) (g_fates s).
Definition set_bin (s : state) (b : list (Z * Z)) : state :=
  mkState (queue s) (n_ingested s) (n_digested s) (n_recycled s) (by_type s) b
          (toxlog s) (now s) (g_all s) (g_fates s).
Definition set_recycled (s : state) (n : Z) : state :=
  mkState (queue s) (n_ingested s) (n_digested s) n (by_type s) (bin s)
          (toxlog s) (now s) (g_all s) (g_fates s).
Definition set_now (s : state) (t : Z) : state :=
  mkState (queue s) (n_ingested s) (n_digested s) (n_recycled s) (by_type s) (bin s)
          (toxlog s) t (g_all s) (g_fates s).

(* d[k] = v on a dict kept sorted by key *)
Fixpoint put (k v : Z) (d : list (Z * Z)) : list (Z * Z) :=
  match d with
  | [] => [(k, v)]
  | (k', v') :: r =>
      if k <? k' then (k, v) :: d
      else if k =? k' then (k, v) :: r
      else (k', v') :: put k v r
  end.

(* d.update({k: v for k in keys}) *)
Definition put_keys (keys : list Z) (v : Z) (d : list (Z * Z)) : list (Z * Z) :=
  fold_left (fun acc k => put k v acc) keys d.

(* d.update(e) *)
Definition merge (e d : list (Z * Z)) : list (Z * Z) :=
  fold_left (fun acc kv => put (fst kv) (snd kv) acc) e d.

(* ---- one digester call ------------------------------------------------ *)

Inductive presult := POk (keys : list Z) | PRaise.

(* self._digesters.get(waste.waste_type, ...)(waste): returns the digester's
   verdict and the on_toxic log.  _digest_toxic: `if self.on_toxic:
   self.on_toxic(waste)` then `return {}`. *)
Definition process (cfg : config) (it : item) (log : list Z) : presult * list Z :=
  match it_type it with
  | Toxic =>
      if has_cb cfg then
        (match it_out it with Ok _ => POk [] | Raises => PRaise end, it_id it :: log)
      else (POk [], log)
  | _ => (match it_out it with Ok ks => POk ks | Raises => PRaise end, log)
  end.

Definition nonempty {A : Type} (l : list A) : bool :=
  match l with [] => false | _ => true end.

(* ---- digest ----------------------------------------------------------- *)

(* local variables of digest(): disposed, errors (ids, most recent first), recycled *)
Record dres := mkDres { d_disposed : Z; d_errors : list Z; d_recycled : list (Z * Z) }.

(* what both loops do with one item: call its digester, log on_toxic, count
   it in _total_digested if the digester returned, and (ghost) record its fate *)
Definition fate_item (cfg : config) (fok fbad : fate) (it : item) (s : state) : state * presult :=
  let '(pr, log') := process cfg it (toxlog s) in
  (mkState (queue s) (n_ingested s)
           (match pr with POk _ => n_digested s + 1 | PRaise => n_digested s end)
           (n_recycled s) (by_type s) (bin s) log' (now s) (g_all s)
           ((it, match pr with POk _ => fok | PRaise => fbad end) :: g_fates s),
   pr).

(* one iteration of `for waste in items_to_process:` in digest() *)
Definition digest_item (cfg : config) (auto : bool) (it : item) (s : state) (r : dres)
  : state * dres :=
  let '(s', pr) := fate_item cfg Digested (if auto then AutoDiscarded else Reported) it s in
  match pr with
  | POk ks =>
      ((if nonempty ks then set_recycled s' (n_recycled s' + 1) else s'),
       mkDres (d_disposed r + 1) (d_errors r) (put_keys ks (it_id it) (d_recycled r)))
  | PRaise => (s', mkDres (d_disposed r) (it_id it :: d_errors r) (d_recycled r))
  end.

Fixpoint digest_loop (cfg : config) (auto : bool) (items : list item) (s : state) (r : dres)
  : state * dres :=
  match items with
  | [] => (s, r)
  | it :: rest =>
      let '(s', r') := digest_item cfg auto it s r in digest_loop cfg auto rest s' r'
  end.

(* Python l[:k] *)
Definition py_take {A : Type} (k : Z) (l : list A) : list A :=
  if 0 <=? k then firstn (Z.to_nat k) l
  else firstn (List.length l - Z.to_nat (- k)) l.

(* items_to_process = self._queue[:max_items] if max_items else self._queue[:] *)
Definition to_process (k : option Z) (q : list item) : list item :=
  match k with
  | None => q
  | Some k => if k =? 0 then q else py_take k q
  end.

(* self._queue = self._queue[len(items_to_process):] if max_items else [] *)
Definition after_take (k : option Z) (q : list item) : list item :=
  match k with
  | None => []
  | Some k' => if k' =? 0 then [] else skipn (List.length (to_process k q)) q
  end.

(* digest(max_items); [auto] = called from _auto_digest (result discarded) *)
Definition digest (cfg : config) (auto : bool) (k : option Z) (s : state) : state * dres :=
  let items := to_process k (queue s) in
  let s0 := set_queue s (after_take k (queue s)) in
  let '(s1, r) := digest_loop cfg auto items s0 (mkDres 0 [] []) in
  (set_bin s1 (merge (d_recycled r) (bin s1)), r).

(* ---- emergency digest ------------------------------------------------- *)

Definition emerg_item (cfg : config) (it : item) (s : state) : state :=
  fst (fate_item cfg EmergOk EmergFail it s).

Fixpoint emerg_loop (cfg : config) (items : list item) (s : state) : state :=
  match items with
  | [] => s
  | it :: rest => emerg_loop cfg rest (emerg_item cfg it s)
  end.

(* items_to_process = len(self._queue) // 2; if > 0: process the oldest that
   many, then self._queue = self._queue[items_to_process:] *)
Definition emergency (cfg : config) (s : state) : state :=
  let n := Z.to_nat (Z.of_nat (List.length (queue s)) / 2) in
  match n with
  | O => s
  | _ => let s' := emerg_loop cfg (firstn n (queue s)) s in
         set_queue s' (skipn n (queue s'))
  end.

(* ---- ingest ----------------------------------------------------------- *)

Definition qlen (s : state) : Z := Z.of_nat (List.length (queue s)).

Definition ingest (cfg : config) (t : wtype) (created : stamp) (o : outcome) (s : state) : state :=
  let s1 := if max_queue cfg <=? qlen s then emergency cfg s else s in
  let it := mkItem (n_ingested s1) t created o in
  let s2 := mkState (queue s1 ++ [it]) (n_ingested s1 + 1) (n_digested s1) (n_recycled s1)
                    (fun t' => if wtype_eqb t t' then by_type s1 t' + 1 else by_type s1 t')
                    (bin s1) (toxlog s1) (now s1) (it :: g_all s1) (g_fates s1) in
  if auto_thr cfg <=? qlen s2
  then fst (digest cfg true (Some (qlen s2 / 2)) s2)       (* _auto_digest *)
  else s2.

(* ---- autophagy -------------------------------------------------------- *)

(* `now - w.created_at < self.retention_period`, when it can be evaluated (the
   other cases are never consulted: [step] only sweeps a [sweepable] queue) *)
Definition fresh (cfg : config) (t : Z) (it : item) : bool :=
  match retention cfg, it_created it with
  | Some r, At c => t - c <? r
  | _, _ => true
  end.

(* the comparison above raises TypeError for this item *)
Definition comparable (cfg : config) (it : item) : bool :=
  match retention cfg, it_created it with
  | Some _, At _ => true
  | _, _ => false
  end.

(* the list comprehension of autophagy() runs through: no queued item makes
   the comparison raise (an empty queue never does) *)
Definition sweepable (cfg : config) (s : state) : bool := forallb (comparable cfg) (queue s).

(* the sweep itself (the body of `with self._lock:` in autophagy()) *)

Definition autophagy (cfg : config) (s : state) : state * Z :=
  let keep := filter (fresh cfg (now s)) (queue s) in
  let gone := filter (fun it => negb (fresh cfg (now s) it)) (queue s) in
  (mkState keep (n_ingested s) (n_digested s) (n_recycled s) (by_type s) (bin s)
           (toxlog s) (now s) (g_all s) (map (fun it => (it, Expired)) gone ++ g_fates s),
   Z.of_nat (List.length (queue s)) - Z.of_nat (List.length keep)).

(* ---- operations ------------------------------------------------------- *)

Inductive op :=
| Ingest (t : wtype) (off : Z) (o : outcome)   (* ingest(Waste(t, created_at = now + off)) *)
| IngestError (o : outcome)                    (* ingest_error(...): FAILED_OPERATION, created now *)
| IngestSensitive (o : outcome)                (* ingest_sensitive(...): TOXIC_BYPRODUCT, created now *)
| DigestOp (k : option Z)                      (* digest(max_items=k) *)
| Autophagy
| Advance (d : Z)                              (* the clock moves *)
| ClearBin                                     (* clear_recycling_bin(): self._recycling_bin.clear(), without the lock *)
| IngestOdd (t : wtype) (o : outcome)          (* ingest(Waste(t, created_at = <timezone-aware datetime | not a datetime>)) *)
| DigestBad.                                   (* digest(max_items = <truthy, not an integer>): the slice raises TypeError *)

Inductive ret :=
| RNone
| RDigest (r : dres)
| RRemoved (n : Z)
| RRaised.       (* the call raised: the exception propagates to the caller (and every `with` block it leaves gives the lock back) *)

Definition step (cfg : config) (s : state) (o : op) : state * ret :=
  match o with
  | Ingest t off out => (ingest cfg t (At (now s + off)) out s, RNone)
  | IngestError out => (ingest cfg FailedOp (At (now s)) out s, RNone)
  | IngestSensitive out => (ingest cfg Toxic (At (now s)) out s, RNone)
  | DigestOp k => let '(s', r) := digest cfg false k s in (s', RDigest r)
  | Autophagy =>
      (* the comprehension raises at the first item it cannot compare: self._queue is not
         assigned, nothing else was touched *)
      if sweepable cfg s then let '(s', n) := autophagy cfg s in (s', RRemoved n) else (s, RRaised)
  | Advance d => (set_now s (now s + d), RNone)
  | ClearBin => (set_bin s [], RNone)
  | IngestOdd t out => (ingest cfg t Odd out s, RNone)      (* ingest() never looks at created_at *)
  | DigestBad => (s, RRaised)                               (* self._queue[:max_items] raises before anything is taken *)
  end.

Definition run (cfg : config) (ops : list op) : state :=
  fold_left (fun s o => fst (step cfg s o)) ops init.

(* ---- ghost views ------------------------------------------------------ *)

Definition ids (l : list item) : list Z := map it_id l.
Definition with_fate (f : fate) (s : state) : list item :=
  map fst (filter (fun p => fate_eqb (snd p) f) (g_fates s)).
Definition nfate (f : fate) (s : state) : Z := Z.of_nat (List.length (with_fate f s)).
Definition is_toxic (it : item) : bool := wtype_eqb (it_type it) Toxic.

(* ---- correspondence --------------------------------------------------- *)

Definition b2z (b : bool) : Z := if b then 1 else 0.
Definition all_types : list wtype := [Misfolded; ExpiredCache; FailedOp; Orphaned; Toxic].
Definition lenZ {A : Type} (l : list A) : Z := Z.of_nat (List.length l).
Definition flat_pairs (l : list (Z * Z)) : list Z := flat_map (fun p => [fst p; snd p]) l.
Definition count_type (t : wtype) (q : list item) : Z :=
  lenZ (filter (fun it => wtype_eqb (it_type it) t) q).

Definition ret_row (r : ret) : list Z :=
  match r with
  | RNone => [0]
  | RDigest d =>
      [1; b2z (negb (nonempty (d_errors d))); d_disposed d; lenZ (d_errors d)]
        ++ rev (d_errors d) ++ [lenZ (d_recycled d)] ++ flat_pairs (d_recycled d)
  | RRemoved n => [2; n]
  | RRaised => [4]
  end.

(* get_statistics(); get_queue_status(); ids in _queue; recycling bin;
   on_toxic log; |reported|, |silently dropped inside ingest|, |expired| *)
Definition state_row (cfg : config) (s : state) : list Z :=
  [qlen s; n_ingested s; n_digested s; n_recycled s]
    ++ map (by_type s) all_types ++ [lenZ (bin s)]
    ++ [qlen s; max_queue cfg] ++ map (fun t => count_type t (queue s)) all_types
    ++ [qlen s] ++ ids (queue s)
    ++ [lenZ (bin s)] ++ flat_pairs (bin s)
    ++ [lenZ (toxlog s)] ++ rev (toxlog s)
    ++ [nfate Reported s; nfate AutoDiscarded s + nfate EmergFail s; nfate Expired s].

Fixpoint run_obs (cfg : config) (s : state) (ops : list op) : list (list Z) :=
  match ops with
  | [] => []
  | o :: rest =>
      let '(s', r) := step cfg s o in
      (ret_row r ++ state_row cfg s') :: run_obs cfg s' rest
  end.

(* ====================================================================== *)
(* Part 1b: overlapping digest passes                                       *)

(* digest() takes its items under the lock and then runs the digesters
   OUTSIDE it, so other calls - of other threads - run between two digester
   calls of one pass, among them further digest passes.  A pass is split at
   its digester calls:

     PassBegin p k   thread p calls digest(k): the items are taken off the
                     queue (atomically, under the lock); with no item the
                     call returns at once, otherwise thread p is now inside
                     the digester of its first item
     PassStep p      the digester thread p is in returns / raises, digest()
                     does its bookkeeping for that item (disposed, errors,
                     recycled, counters) and enters the digester of the next
                     item - or, after the last one, updates the recycling
                     bin and RETURNS its DigestResult
     Atomic o        any call that runs without another one in between
                     (ingest holds the lock from beginning to end)

   [p_res] are the LOCAL variables disposed / errors / recycled of the pass:
   every pass has its own.  Ghost: [p_taken] = the items the pass took;
   [c_done] = (items taken, DigestResult) of every digest call that has
   returned, most recent first. *)

Record pass := mkPass {
  p_id : Z;
  p_todo : list item;       (* still to process; the head is inside its digester *)
  p_res : dres;
  p_taken : list item }.

Record cstate := mkC {
  c_base : state;
  c_open : list pass;
  c_done : list (list item * dres) }.

Definition cinit : cstate := mkC init [] [].

Inductive cop :=
| Atomic (o : op)
| PassBegin (p : Z) (k : option Z)
| PassStep (p : Z).

Inductive cret :=
| CRet (r : ret)      (* the call returned *)
| CPaused             (* the thread is inside a digester *)
| CBad.               (* not a call: label in use / no such pass *)

Fixpoint find_pass (p : Z) (l : list pass) : option pass :=
  match l with
  | [] => None
  | x :: r => if p_id x =? p then Some x else find_pass p r
  end.

(* replace (Some) or drop (None) the first pass labelled p *)
Fixpoint set_pass (p : Z) (new : option pass) (l : list pass) : list pass :=
  match l with
  | [] => []
  | x :: r =>
      if p_id x =? p then match new with Some y => y :: r | None => r end
      else x :: set_pass p new r
  end.

(* self._recycling_bin.update(recycled) at the end of digest() *)
Definition finish (s : state) (r : dres) : state := set_bin s (merge (d_recycled r) (bin s)).

Definition dres0 : dres := mkDres 0 [] [].

Definition taken_by (o : op) (s : state) : list item :=
  match o with DigestOp k => to_process k (queue s) | _ => [] end.

Definition catomic (cfg : config) (o : op) (cs : cstate) : cstate * cret :=
  let '(s', r) := step cfg (c_base cs) o in
  (mkC s' (c_open cs)
       (match r with RDigest d => (taken_by o (c_base cs), d) :: c_done cs | _ => c_done cs end),
   CRet r).

Definition cbegin (cfg : config) (p : Z) (k : option Z) (cs : cstate) : cstate * cret :=
  match find_pass p (c_open cs) with
  | Some _ => (cs, CBad)
  | None =>
      let s := c_base cs in
      let items := to_process k (queue s) in
      let s0 := set_queue s (after_take k (queue s)) in
      match items with
      | [] => (mkC (finish s0 dres0) (c_open cs) (([], dres0) :: c_done cs), CRet (RDigest dres0))
      | _ :: _ => (mkC s0 (mkPass p items dres0 items :: c_open cs) (c_done cs), CPaused)
      end
  end.

Definition cpstep (cfg : config) (p : Z) (cs : cstate) : cstate * cret :=
  match find_pass p (c_open cs) with
  | None => (cs, CBad)
  | Some ps =>
      match p_todo ps with
      | [] => (cs, CBad)
      | it :: rest =>
          let '(s1, r1) := digest_item cfg false it (c_base cs) (p_res ps) in
          match rest with
          | [] => (mkC (finish s1 r1) (set_pass p None (c_open cs)) ((p_taken ps, r1) :: c_done cs),
                   CRet (RDigest r1))
          | _ :: _ => (mkC s1 (set_pass p (Some (mkPass p rest r1 (p_taken ps))) (c_open cs)) (c_done cs),
                       CPaused)
          end
      end
  end.

Definition cstep (cfg : config) (cs : cstate) (o : cop) : cstate * cret :=
  match o with
  | Atomic o' => catomic cfg o' cs
  | PassBegin p k => cbegin cfg p k cs
  | PassStep p => cpstep cfg p cs
  end.

Definition crun_from (cfg : config) (cs : cstate) (ops : list cop) : cstate :=
  fold_left (fun cs o => fst (cstep cfg cs o)) ops cs.

Definition crun (cfg : config) (ops : list cop) : cstate := crun_from cfg cinit ops.

(* items taken by a pass that has not processed them yet: neither queued nor fated *)
Definition inflight (cs : cstate) : list item := flat_map p_todo (c_open cs).

(* every id in the `errors` of a DigestResult: the returned ones, and the ones being built *)
Definition reported_ids (cs : cstate) : list Z :=
  flat_map (fun d => d_errors (snd d)) (c_done cs) ++ flat_map (fun ps => d_errors (p_res ps)) (c_open cs).

(* what the digester (or on_toxic) of an item does, whatever the log is *)
Definition verdict (cfg : config) (it : item) : presult := fst (process cfg it []).
Definition raises (cfg : config) (it : item) : bool :=
  match verdict cfg it with PRaise => true | POk _ => false end.
Definition pass_fate (cfg : config) (it : item) : fate := if raises cfg it then Reported else Digested.

(* the DigestResult [r] says exactly what happened to the items [l]: the ones
   whose digester returned are counted, the others are listed, in order *)
Definition accounts (cfg : config) (l : list item) (r : dres) : Prop :=
  d_disposed r = lenZ (filter (fun it => negb (raises cfg it)) l) /\
  rev (d_errors r) = ids (filter (raises cfg) l).

(* ---- correspondence ---------------------------------------------------- *)

Definition cret_row (r : cret) : list Z :=
  match r with CRet r => ret_row r | CPaused => [3] | CBad => [-5] end.

(* as state_row; "reported" is what the DigestResults that were RETURNED list *)
Definition cstate_row (cfg : config) (cs : cstate) : list Z :=
  let s := c_base cs in
  [qlen s; n_ingested s; n_digested s; n_recycled s]
    ++ map (by_type s) all_types ++ [lenZ (bin s)]
    ++ [qlen s; max_queue cfg] ++ map (fun t => count_type t (queue s)) all_types
    ++ [qlen s] ++ ids (queue s)
    ++ [lenZ (bin s)] ++ flat_pairs (bin s)
    ++ [lenZ (toxlog s)] ++ rev (toxlog s)
    ++ [lenZ (flat_map (fun d => d_errors (snd d)) (c_done cs));
        nfate AutoDiscarded s + nfate EmergFail s; nfate Expired s].

Fixpoint crun_obs (cfg : config) (cs : cstate) (ops : list cop) : list (list Z) :=
  match ops with
  | [] => []
  | o :: rest =>
      let '(cs', r) := cstep cfg cs o in
      (cret_row r ++ cstate_row cfg cs') :: crun_obs cfg cs' rest
  end.

(* ====================================================================== *)
(* Part 1c: threads                                                         *)

(* Thread i (i = 0, 1, 2, ...) has a list of calls still to make, [nth i
   t_progs].  The digest pass of thread i is labelled i.  When the scheduler
   picks thread i:
     - if its digest() call is in progress, the digester it is in returns /
       raises (PassStep i);
     - otherwise it makes its next call: digest(k) takes its items under the
       lock (PassBegin i k) - the thread is then inside its first digester, or
       has returned if there was nothing to take -; any other call is ONE
       step, its critical section (Atomic);
     - a thread with nothing left does nothing (not a call: CBad).
   A thread is never blocked in this model: the only blocking operation of the
   class is the acquisition of self._lock, critical sections are atomic steps,
   and no step waits for another thread. *)

Record tstate := mkT { t_cs : cstate; t_progs : list (list op) }.

Fixpoint set_nth {A : Type} (i : nat) (x : A) (l : list A) : list A :=
  match l, i with
  | [], _ => []
  | _ :: r, O => x :: r
  | y :: r, S j => y :: set_nth j x r
  end.

Definition in_pass (ts : tstate) (i : nat) : bool :=
  match find_pass (Z.of_nat i) (c_open (t_cs ts)) with Some _ => true | None => false end.

Definition tstep (cfg : config) (ts : tstate) (i : nat) : tstate * cret :=
  if in_pass ts i then
    let '(cs', r) := cpstep cfg (Z.of_nat i) (t_cs ts) in (mkT cs' (t_progs ts), r)
  else
    match nth i (t_progs ts) [] with
    | [] => (ts, CBad)
    | o :: rest =>
        let '(cs', r) := match o with
                         | DigestOp k => cbegin cfg (Z.of_nat i) k (t_cs ts)
                         | _ => catomic cfg o (t_cs ts)
                         end in
        (mkT cs' (set_nth i rest (t_progs ts)), r)
    end.

Definition trun (cfg : config) (ts : tstate) (sched : list nat) : tstate :=
  fold_left (fun ts i => fst (tstep cfg ts i)) sched ts.

(* thread i has something left to do *)
Definition busy (ts : tstate) (i : nat) : bool :=
  in_pass ts i || nonempty (nth i (t_progs ts) []).

Definition all_done (ts : tstate) : bool :=
  forallb (fun p => negb (nonempty p)) (t_progs ts) && negb (nonempty (c_open (t_cs ts))).

Definition is_ingest_op (o : op) : bool :=
  match o with Ingest _ _ _ | IngestError _ | IngestSensitive _ | IngestOdd _ _ => true | _ => false end.

(* an upper bound on the number of steps still to come, whatever the schedule:
   calls not yet made + ingests not yet made (each adds at most one item that a
   later digest() has to hand to a digester) + items queued + items in flight *)
Definition work (ts : tstate) : nat :=
  (list_sum (map (fun p => List.length p + List.length (filter is_ingest_op p)) (t_progs ts))
   + List.length (queue (c_base (t_cs ts))) + List.length (inflight (t_cs ts)))%nat.

(* the steps of a schedule in which the scheduled thread had something to do *)
Fixpoint real_steps (cfg : config) (ts : tstate) (sched : list nat) : nat :=
  match sched with
  | [] => O
  | i :: rest => ((if busy ts i then 1 else 0) + real_steps cfg (fst (tstep cfg ts i)) rest)%nat
  end.

(* ====================================================================== *)
(* Part 1d: the threshold changed at run time                               *)

(* auto_digest_threshold and retention_period are plain public attributes: a
   caller may assign to them between two calls - to retention_period also
   something that is not a timedelta (the constructor takes hours and converts;
   the attribute is the converted value).  A reconfigured history is a history
   in which such assignments occur; every call runs under the configuration in
   force when it is made.  (max_queue_size is an attribute too, but lowering it
   below the current queue length trivially breaks the bound the property
   states for a configuration, so it is not varied.) *)
Definition set_thr (cfg : config) (t : Z) : config :=
  mkConfig (max_queue cfg) t (retention cfg) (has_cb cfg).
Definition set_ret (cfg : config) (r : option Z) : config :=
  mkConfig (max_queue cfg) (auto_thr cfg) r (has_cb cfg).

Inductive rop :=
| ROp (o : cop)
| SetThr (t : Z)             (* lysosome.auto_digest_threshold = t *)
| SetRet (r : option Z).     (* lysosome.retention_period = timedelta(hours=h) (Some h) | <not a timedelta> (None) *)

Definition rstep (cfg : config) (cs : cstate) (o : rop) : config * cstate * cret :=
  match o with
  | ROp o' => let '(cs', r) := cstep cfg cs o' in (cfg, cs', r)
  | SetThr t => (set_thr cfg t, cs, CRet RNone)
  | SetRet r => (set_ret cfg r, cs, CRet RNone)
  end.

Definition rrun_from (cfg : config) (cs : cstate) (ops : list rop) : config * cstate :=
  fold_left (fun st o => fst (rstep (fst st) (snd st) o)) ops (cfg, cs).

Definition rrun (cfg : config) (ops : list rop) : config * cstate := rrun_from cfg cinit ops.

Fixpoint rrun_obs (cfg : config) (cs : cstate) (ops : list rop) : list (list Z) :=
  match ops with
  | [] => []
  | o :: rest =>
      let '(cfg', cs', r) := rstep cfg cs o in
      (cret_row r ++ cstate_row cfg' cs') :: rrun_obs cfg' cs' rest
  end.

(* ---- correspondence ---------------------------------------------------- *)

(* what is protected by the lock: observed by the harness when the critical
   section of the step ends (for a digester step: when it happens) *)
Definition qrow (cs : cstate) : list Z :=
  let s := c_base cs in
  [qlen s; n_ingested s] ++ map (by_type s) all_types ++ ids (queue s).

Fixpoint trun_obs (cfg : config) (ts : tstate) (sched : list nat) : list (list Z) :=
  match sched with
  | [] => []
  | i :: rest =>
      let '(ts', r) := tstep cfg ts i in
      (cret_row r ++ [Z.of_nat i] ++ qrow (t_cs ts')) :: trun_obs cfg ts' rest
  end.

Fixpoint insert_sorted (x : Z) (l : list Z) : list Z :=
  match l with
  | [] => [x]
  | y :: r => if x <=? y then x :: l else y :: insert_sorted x r
  end.
Definition sort_z (l : list Z) : list Z := fold_right insert_sorted [] l.

(* the quiescent state after the threads have finished: the counters, the keys
   of the recycling bin (which call wrote a key last is decided between two
   source lines of digest(), below the granularity of the schedule), the
   on_toxic log as a set, the ghost counts, and what is left to do (nothing) *)
Definition final_row (ts : tstate) : list Z :=
  let cs := t_cs ts in
  let s := c_base cs in
  [qlen s; n_ingested s; n_digested s; n_recycled s]
    ++ map (by_type s) all_types ++ [qlen s] ++ ids (queue s)
    ++ [lenZ (bin s)] ++ map fst (bin s)
    ++ [lenZ (toxlog s)] ++ sort_z (toxlog s)
    ++ [lenZ (flat_map (fun d => d_errors (snd d)) (c_done cs));
        nfate AutoDiscarded s + nfate EmergFail s; nfate Expired s]
    ++ [lenZ (c_open cs); Z.of_nat (list_sum (map (@List.length op) (t_progs ts)))].

(* ====================================================================== *)
(* Part 1e: several lysosomes in one program                                *)

(* A program may build several lysosomes - typically from ONE application-wide
   table of custom digesters, the dict it passes as `digesters=` to every
   constructor - and use them side by side on one clock.  Lysosome.__init__
   builds a fresh table of its OWN built-in digesters and .update()s it with
   the caller's mapping: the caller's dict is read, never written, and nothing
   of one lysosome (its built-in _digest_toxic, hence its on_toxic; its queue,
   counters, recycling bin) is reachable from another.  So a world is the
   list of its objects, each with the configuration in force and its own state
   (Part 1d), plus - ghost - the keys of the caller's mapping:

     WNew cfg    Lysosome(..., digesters = the caller's mapping, on_toxic = a
                 callback of its own): a fresh object, appended
     WOn j o     a call on / an assignment to the j-th lysosome built (any step
                 of Part 1d); not a call if there is no such object
     WAdv d      the clock - there is one - moves: every object sees it *)

Record world := mkW {
  w_objs : list (config * cstate);
  w_map : list Z }.     (* ghost: the waste types (0..4) the caller's digesters mapping has an entry for *)

Inductive wop :=
| WNew (cfg : config)
| WOn (j : nat) (o : rop)
| WAdv (d : Z).

Definition tick (d : Z) : rop := ROp (Atomic (Advance d)).

(* one step of the history of one object *)
Definition obj_step (p : config * cstate) (o : rop) : config * cstate := fst (rstep (fst p) (snd p) o).

Definition wstep (w : world) (o : wop) : world * cret :=
  match o with
  | WNew cfg => (mkW (w_objs w ++ [(cfg, cinit)]) (w_map w), CRet RNone)
  | WOn j o' =>
      match nth_error (w_objs w) j with
      | None => (w, CBad)
      | Some p => (mkW (set_nth j (obj_step p o') (w_objs w)) (w_map w), snd (rstep (fst p) (snd p) o'))
      end
  | WAdv d => (mkW (map (fun p => obj_step p (tick d)) (w_objs w)) (w_map w), CRet RNone)
  end.

Definition wrun_from (w : world) (ops : list wop) : world := fold_left (fun w o => fst (wstep w o)) ops w.

(* from the empty world: every object is built by the history itself *)
Definition wrun (m : list Z) (ops : list wop) : world := wrun_from (mkW [] m) ops.

(* the history of object j inside a world history: the calls addressed to it, and the clock *)
Fixpoint wproj (j : nat) (ops : list wop) : list rop :=
  match ops with
  | [] => []
  | WNew _ :: r => wproj j r
  | WOn i o :: r => if Nat.eqb i j then o :: wproj j r else wproj j r
  | WAdv d :: r => tick d :: wproj j r
  end.

(* ---- correspondence ---------------------------------------------------- *)

Definition cfg_row (cfg : config) : list Z :=
  [max_queue cfg; auto_thr cfg; match retention cfg with Some r => r | None => -12346 end; b2z (has_cb cfg)].

(* after every step, about the WHOLE world: the keys of the caller's mapping,
   and queue length / total_digested / length of the on_toxic log of every
   object (so that a step that touches another object than the one it was
   made on shows); last, the number of on_toxic calls that handed a callback
   an item of another lysosome (never) *)
Definition wtail (w : world) : list Z :=
  [lenZ (w_map w)] ++ w_map w ++ [lenZ (w_objs w)]
    ++ flat_map (fun p => let s := c_base (snd p) in [qlen s; n_digested s; lenZ (toxlog s)]) (w_objs w)
    ++ [0].

Definition wrow (w' : world) (o : wop) (r : cret) : list Z :=
  match o with
  | WNew cfg => 9 :: cfg_row cfg
  | WAdv d => [8; d]
  | WOn j _ =>
      match r, nth_error (w_objs w') j with
      | CBad, None => [-5]
      | _, Some p => Z.of_nat j :: cret_row r ++ cstate_row (fst p) (snd p)
      | _, None => [-5]
      end
  end ++ wtail w'.

Fixpoint wrun_obs (w : world) (ops : list wop) : list (list Z) :=
  match ops with
  | [] => []
  | o :: rest => let '(w', r) := wstep w o in wrow w' o r :: wrun_obs w' rest
  end.

(* ====================================================================== *)
(* Part 1f: callbacks that call back into the lysosome                      *)

(* digest() runs the digesters - and, through _digest_toxic, the on_toxic
   callback - OUTSIDE the lock, after it has taken its items off the queue.  A
   digester / callback of the CALLER may therefore call back into the same
   lysosome from the thread that is inside digest(): read it
   (get_queue_status(), get_statistics(): nothing changes), or make a call of
   its own - digest(j), an ingest of any kind, autophagy() - which runs to
   completion before the callback returns.  Such a nested call is a call that
   runs between two digester calls of the digest() in progress: a re-entrant
   digest(k) IS the interleaved history

     PassBegin self k ; [ the call the callback of item 1 makes ] ; PassStep self ;
                        [ the call the callback of item 2 makes ] ; PassStep self ; ...

   of Part 1b, with the calling thread's own pass labelled [self_label].
   [acts] = which call the digester / on_toxic of which item (by id) makes;
   the calls made by the callbacks that run INSIDE a nested call do not call
   back again (the harness' callbacks re-enter at depth one). *)

Inductive xop :=
| XR (o : rop)               (* any step of Part 1d *)
| XDigest (k : option Z).    (* digest(k) whose callbacks call back as [acts] says *)

Definition self_label : Z := -1.

Fixpoint find_act (i : Z) (a : list (Z * op)) : option op :=
  match a with
  | [] => None
  | (j, o) :: r => if j =? i then Some o else find_act i r
  end.

Definition act_steps (a : list (Z * op)) (it : item) : list rop :=
  match find_act (it_id it) a with Some o => [ROp (Atomic o)] | None => [] end.

(* what happens while digest() works through the items it took *)
Fixpoint callbacks (a : list (Z * op)) (items : list item) : list rop :=
  match items with
  | [] => []
  | it :: rest => act_steps a it ++ ROp (PassStep self_label) :: callbacks a rest
  end.

Definition xexpand (a : list (Z * op)) (cs : cstate) (o : xop) : list rop :=
  match o with
  | XR r => [r]
  | XDigest k => ROp (PassBegin self_label k) :: callbacks a (to_process k (queue (c_base cs)))
  end.

Definition xstep (a : list (Z * op)) (st : config * cstate) (o : xop) : config * cstate :=
  rrun_from (fst st) (snd st) (xexpand a (snd st) o).

Definition xrun_from (a : list (Z * op)) (cfg : config) (cs : cstate) (ops : list xop) : config * cstate :=
  fold_left (xstep a) ops (cfg, cs).

Definition xrun (a : list (Z * op)) (cfg : config) (ops : list xop) : config * cstate :=
  xrun_from a cfg cinit ops.

(* the plain (reconfigured, interleaved) history a re-entrant history is *)
Fixpoint xflatten (a : list (Z * op)) (cfg : config) (cs : cstate) (ops : list xop) : list rop :=
  match ops with
  | [] => []
  | o :: rest =>
      let e := xexpand a cs o in
      let st := rrun_from cfg cs e in
      e ++ xflatten a (fst st) (snd st) rest
  end.

(* ---- correspondence: one row per digester call / nested call / return --- *)
Fixpoint xrun_obs (a : list (Z * op)) (cfg : config) (cs : cstate) (ops : list xop) : list (list Z) :=
  match ops with
  | [] => []
  | o :: rest =>
      let e := xexpand a cs o in
      let st := rrun_from cfg cs e in
      rrun_obs cfg cs e ++ xrun_obs a (fst st) (snd st) rest
  end.

(* a case: configuration, history [pre] (of the main thread, and of passes it
   drives; the threshold may be reassigned in between), and - for the runs of
   real threads under the scheduler of the harness - the programs of the
   threads and the schedule that was followed; [progs] = [] is a history
   without scheduler threads.  Then: (keys of the caller's digesters mapping,
   world history) - when the world history is not empty the case is a history
   of several lysosomes (Part 1e) and the other components are not used.
   Last: (which callback calls back how, re-entrant history) - when that
   history is not empty the case is a history with callbacks that call back
   (Part 1f) from the initial state *)
Definition case := (config * list rop * list (list op) * list Z * (list Z * list wop)
                    * (list (Z * op) * list xop))%type.

Definition run_case (c : case) : list (list Z) :=
  let '(cfg, pre, progs, sched, (wkeys, wops), (acts, xops)) := c in
  cfg_row cfg ::
  match xops with
  | _ :: _ => xrun_obs acts cfg cinit xops
  | [] =>
  match wops with
  | _ :: _ => wrun_obs (mkW [] wkeys) wops
  | [] =>
  match progs with
  | [] => rrun_obs cfg cinit pre
  | _ :: _ =>
      let st := rrun cfg pre in
      let ts0 := mkT (snd st) progs in
      let sch := map Z.to_nat sched in
      trun_obs (fst st) ts0 sch ++ [final_row (trun (fst st) ts0 sch)]
  end
  end
  end.

(* ====================================================================== *)
(* Part 2: lock discipline                                                  *)

Inductive lockkind := NonReentrant | Reentrant | UnrecognisedLock.

(* what a `with X:` (or anything else that takes a lock) names *)
Inductive lockname := LSelf | LOther (what : string).

(* one method of the class, as the translator read it *)
Record minfo := mkM {
  m_name : string;
  m_locks : list lockname;          (* every lock the body acquires *)
  m_calls_locked : list string;     (* self.m() calls inside `with self._lock:` *)
  m_calls_unlocked : list string;   (* self.m() calls outside it *)
  m_cbs_locked : list string;       (* callbacks / calls on other objects inside it *)
  m_cbs_unlocked : list string;
  m_sections : Z;                   (* separate (not nested) `with self._lock:` blocks in the body *)
  m_loops : list string;            (* loops the translator cannot bound: `while`, `for` over what the body changes *)
  m_qwrites_unlocked : bool }.      (* assigns / mutates self._queue outside every `with self._lock:` of its body *)

Definition callgraph := list minfo.

Fixpoint lookup (g : callgraph) (m : string) : option minfo :=
  match g with
  | [] => None
  | mi :: rest => if String.eqb (m_name mi) m then Some mi else lookup rest m
  end.

Definition is_self (l : lockname) : bool := match l with LSelf => true | LOther _ => false end.
Definition acquires (mi : minfo) : bool := nonempty (m_locks mi).
Definition all_calls (mi : minfo) : list string := m_calls_locked mi ++ m_calls_unlocked mi.

(* can a call of m (with everything it calls) reach an acquisition?  Unknown
   callees and fuel exhaustion (recursion) count as "yes": fail closed. *)
Fixpoint reaches_acq (g : callgraph) (fuel : nat) (m : string) : bool :=
  match fuel with
  | O => true
  | S f =>
      match lookup g m with
      | None => true
      | Some mi => acquires mi || existsb (reaches_acq g f) (all_calls mi)
      end
  end.

Definition known (g : callgraph) (m : string) : bool :=
  match lookup g m with Some _ => true | None => false end.

Definition graph_wf (g : callgraph) : bool :=
  forallb (fun mi => forallb (known g) (all_calls mi)) g.

Definition method_ok (g : callgraph) (mi : minfo) : bool :=
  forallb (fun c => negb (reaches_acq g (S (List.length g)) c)) (m_calls_locked mi).

(* a thread never blocks on a lock it holds itself *)
Definition no_self_deadlock (k : lockkind) (g : callgraph) : bool :=
  match k with
  | Reentrant => graph_wf g
  | NonReentrant => graph_wf g && forallb (method_ok g) g
  | UnrecognisedLock => false
  end.

(* every acquisition anywhere in the class is of self._lock *)
Definition single_lock (g : callgraph) : bool :=
  forallb (fun mi => forallb is_self (m_locks mi)) g.

(* ---- every call is a finite program ----------------------------------- *)

(* [compile] (below) unfolds the self-calls of a method with fuel.  [fits g
   fuel m]: the unfolding of m never runs out of that fuel, i.e. the part of the
   call graph reachable from m is acyclic and at most [fuel] deep. *)
Fixpoint fits (g : callgraph) (fuel : nat) (m : string) : bool :=
  match fuel with
  | O => false
  | S f =>
      match lookup g m with
      | None => true
      | Some mi => forallb (fits g f) (all_calls mi)
      end
  end.

(* no method has a loop whose iteration count is not bounded by the size of a
   list it was given, and no method is (mutually) recursive: a call executes a
   finite sequence of lock operations and steps *)
Definition bounded_calls (g : callgraph) : bool :=
  forallb (fun mi => negb (nonempty (m_loops mi)) && fits g (S (List.length g)) (m_name mi)) g.

(* ---- every call has one critical section ------------------------------ *)

(* outermost critical sections of a call of m, self-calls unfolded *)
Fixpoint secs (g : callgraph) (fuel : nat) (m : string) : nat :=
  match fuel with
  | O => O
  | S f =>
      match lookup g m with
      | None => O
      | Some mi =>
          if acquires mi
          then S (list_sum (map (secs g f) (m_calls_unlocked mi)))
          else list_sum (map (secs g f) (all_calls mi))
      end
  end.

Definition is_private (m : string) : bool :=
  match m with String c _ => Ascii.eqb c "_"%char | EmptyString => false end.

(* m is only ever called from inside a `with self._lock:` *)
Definition lock_context_only (g : callgraph) (m : string) : bool :=
  is_private m && forallb (fun mi => negb (existsb (String.eqb m) (m_calls_unlocked mi))) g.

(* what makes "one call = one atomic step on the queue" (Atomic / PassBegin in
   Part 1b, 1c) the right granularity: the body of a method has at most one
   `with self._lock:` block, a call with everything it calls goes through at
   most one outermost critical section, and the queue is only written inside
   one *)
Definition atomic_calls (g : callgraph) : bool :=
  forallb (fun mi => (m_sections mi <=? 1)
                     && Nat.leb (secs g (S (List.length g)) (m_name mi)) 1
                     && (negb (m_qwrites_unlocked mi) || lock_context_only g (m_name mi))) g.

(* callbacks that run while the lock is held (reported in the evidence) *)
Definition cbs_under_lock (g : callgraph) : list (string * string) :=
  flat_map (fun mi => map (fun c => (m_name mi, c)) (m_cbs_locked mi)) g.

(* ---- abstract lock machine ------------------------------------------- *)

Inductive instr := Acq | Rel | Step.

(* the lock behaviour of one call of m, self-calls inlined: `with` is
   Acq ... Rel around what is called inside it.  The order of calls within
   the locked / unlocked part is abstracted (irrelevant for one lock). *)
Fixpoint compile (g : callgraph) (fuel : nat) (m : string) : list instr :=
  match fuel with
  | O => []
  | S f =>
      match lookup g m with
      | None => [Step]
      | Some mi =>
          if acquires mi
          then Acq :: Step :: flat_map (compile g f) (m_calls_locked mi) ++ Rel
                   :: flat_map (compile g f) (m_calls_unlocked mi)
          else Step :: flat_map (compile g f) (all_calls mi)
      end
  end.

(* a thread = the methods it calls one after the other *)
Definition thread_prog (g : callgraph) (fuel : nat) (calls : list string) : list instr :=
  flat_map (compile g fuel) calls.

(* ---- error paths (Part 1f) ---------------------------------------------- *)

(* hold depth after the instructions p, from hold depth d *)
Fixpoint depth_after (d : nat) (p : list instr) : nat :=
  match p with
  | [] => d
  | Acq :: r => depth_after (S d) r
  | Rel :: r => depth_after (Nat.pred d) r
  | Step :: r => depth_after d r
  end.

(* a call whose program is p RAISES after n instructions: the exception leaves
   through every `with self._lock:` block it is inside - each __exit__ gives
   the lock back -, the rest of the call is skipped, and the caller (who
   handles the exception) goes on with its next call *)
Definition unwind (n : nat) (p : list instr) : list instr :=
  firstn n p ++ repeat Rel (depth_after 0 (firstn n p)).

(* a call of a thread: the method, and whether it runs to completion (None) or
   raises after that many instructions *)
Definition xcall := (string * option nat)%type.

Definition call_prog (g : callgraph) (fuel : nat) (c : xcall) : list instr :=
  match snd c with
  | None => compile g fuel (fst c)
  | Some n => unwind n (compile g fuel (fst c))
  end.

Definition thread_prog_x (g : callgraph) (fuel : nat) (calls : list xcall) : list instr :=
  flat_map (call_prog g fuel) calls.

(* well bracketed from hold depth d (ends with the lock released) *)
Fixpoint wb (d : nat) (p : list instr) : bool :=
  match p with
  | [] => Nat.eqb d 0
  | Acq :: r => wb (S d) r
  | Rel :: r => match d with O => false | S d' => wb d' r end
  | Step :: r => wb d r
  end.

(* outermost critical sections of a program, from hold depth d *)
Fixpoint osec (d : nat) (p : list instr) : nat :=
  match p with
  | [] => O
  | Acq :: r => ((match d with O => 1 | S _ => 0 end) + osec (S d) r)%nat
  | Rel :: r => osec (Nat.pred d) r
  | Step :: r => osec d r
  end.

(* ... and never acquires while holding *)
Fixpoint flat (d : nat) (p : list instr) : bool :=
  match p with
  | [] => Nat.eqb d 0
  | Acq :: r => Nat.eqb d 0 && flat 1 r
  | Rel :: r => match d with O => false | S d' => flat d' r end
  | Step :: r => flat d r
  end.

(* threads are numbered; thread i still has [m_code i] to run.  One lock:
   free ([m_owner] = None) or held [m_count] >= 1 times by its owner. *)
Record mstate := mkMS { m_code : nat -> list instr; m_owner : option nat; m_count : nat }.

Definition upd (f : nat -> list instr) (i : nat) (c : list instr) : nat -> list instr :=
  fun j => if Nat.eqb j i then c else f j.

Inductive mstep (k : lockkind) : mstate -> mstate -> Prop :=
| MStep : forall f o c i rest,
    f i = Step :: rest -> mstep k (mkMS f o c) (mkMS (upd f i rest) o c)
| MAcqFree : forall f c i rest,
    f i = Acq :: rest -> mstep k (mkMS f None c) (mkMS (upd f i rest) (Some i) 1)
| MAcqAgain : forall f c i rest,
    k = Reentrant ->
    f i = Acq :: rest -> mstep k (mkMS f (Some i) c) (mkMS (upd f i rest) (Some i) (S c))
| MRelLast : forall f i rest,
    f i = Rel :: rest -> mstep k (mkMS f (Some i) 1) (mkMS (upd f i rest) None 0)
| MRelInner : forall f c i rest,
    f i = Rel :: rest -> mstep k (mkMS f (Some i) (S (S c))) (mkMS (upd f i rest) (Some i) (S c)).

Inductive mreach (k : lockkind) (m0 : mstate) : mstate -> Prop :=
| MR0 : mreach k m0 m0
| MRS : forall m m', mreach k m0 m -> mstep k m m' -> mreach k m0 m'.

Definition minit (f : nat -> list instr) : mstate := mkMS f None 0.

(* n steps of the machine *)
Inductive msteps (k : lockkind) : nat -> mstate -> mstate -> Prop :=
| MS0 : forall m, msteps k O m m
| MSS : forall n m m' m'', msteps k n m m' -> mstep k m' m'' -> msteps k (S n) m m''.

(* instructions the first N threads still have to execute *)
Definition code_left (N : nat) (m : mstate) : nat :=
  list_sum (map (fun i => List.length (m_code m i)) (seq 0 N)).
