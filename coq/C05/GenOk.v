(* C05 — obligations on the lock structure regenerated from
   operon_ai/state/metabolism.py on every run (coq/gen/Gen_C05.v). *)
From Coq Require Import List Bool String.
From Verif Require Import Common.LockIR C04.Model C05.Model C05.Proofs gen.Gen_C05.
Import ListNotations.
Open Scope string_scope.

(* every locked method is exactly one critical section that contains every
   access to a shared field and calls into no other object while holding;
   transfer_to calls other.regenerate only after releasing its own lock *)
Definition gen_c05_ok : bool :=
  methods_ok gen_lock_kind gen_methods &&
  forallb (fun n => Nat.eqb (count_acq (lookup_method gen_methods n)) 1) locked_methods &&
  existsb (fun i => match i with ICallOther c => String.eqb c "other.regenerate" | _ => false end)
          (lookup_method gen_methods "transfer_to").

Lemma gen_c05_ok_proof : gen_c05_ok = true.
Proof. vm_compute. reflexivity. Qed.

Lemma gen_methods_ok : methods_ok gen_lock_kind gen_methods = true.
Proof. vm_compute. reflexivity. Qed.
