(* C05 — property theorems only. *)
From Coq Require Import ZArith List Bool String.
From Verif Require Import C04.Model C04.Proofs Common.LockIR C05.Model C05.Proofs C05.GenOk gen.Gen_C05.
Import ListNotations.
Open Scope Z_scope.

(* No overdraft, no negative balance, debt within its limit - in the state
   reached after EVERY prefix of EVERY schedule of any number of threads, each
   running any list of calls (transfers are two critical sections). *)
Theorem c05_inv_every_step :
  forall classify interest, interest_nonneg interest ->
  forall sched sys ths, Forall good sys -> Forall thread_nonneg ths ->
    Forall good (fst (run_sched classify interest sys ths sched)) /\
    Forall thread_nonneg (snd (run_sched classify interest sys ths sched)).
Proof. exact inv_every_step. Qed.
Print Assumptions c05_inv_every_step.

(* No lost update / equivalence to a sequential order: every schedule of
   threads that do not transfer ends in exactly the state of the sequential
   history [linearise] (the same calls, in the order their critical sections
   ran, each thread's own order preserved). *)
Theorem c05_serial_equivalence :
  forall classify interest sched sys ths, local_only ths ->
    fst (run_sched classify interest sys ths sched) =
    final classify interest false sys (linearise ths sched).
Proof. exact serial_equivalence. Qed.
Print Assumptions c05_serial_equivalence.

(* The sum of successful spends on a store never exceeds what was available
   (balances + remaining debt room), under any interleaving, as long as nothing
   flows into it. *)
Theorem c05_spend_le_available :
  forall classify interest, interest_nonneg interest ->
  forall i sys ths sched s,
    Forall good sys -> local_only ths ->
    Forall (fun th => Forall op_nonneg (todo th)) ths ->
    Forall (fun th => Forall (no_inflow i) (todo th)) ths ->
    nth_error sys i = Some s ->
    spent_on classify interest false i sys (linearise ths sched) <= spendable s.
Proof. exact spend_le_available_proof. Qed.
Print Assumptions c05_spend_le_available.

(* No deadlock: any number of threads running any calls (opposite-direction
   transfers included) on any stores - from the start ... *)
Theorem c05_initial_threads_safe :
  forall programs : list (list op),
    Forall (safe_thread (reentrant gen_lock_kind))
           (map (fun calls => (None, compile_thread gen_methods calls)) programs).
Proof. intros. apply initial_threads_safe. exact gen_methods_ok. Qed.
Print Assumptions c05_initial_threads_safe.

(* ... and in every configuration the lock machine can reach from there (safety
   of each thread is preserved by its own steps, LockIR.safe_step): if some
   thread has not finished, some thread can take its next step. *)
Theorem c05_no_deadlock :
  forall ths : list thread,
    Forall (safe_thread (reentrant gen_lock_kind)) ths ->
    (exists i th, nth_error ths i = Some th /\ snd th <> []) ->
    exists j, enabled (reentrant gen_lock_kind) ths j.
Proof. intros ths. apply no_deadlock. Qed.
Print Assumptions c05_no_deadlock.

Theorem c05_safety_preserved :
  forall r th, safe_thread r th -> snd th <> [] -> safe_thread r (step_thread th).
Proof. exact safe_step. Qed.
Print Assumptions c05_safety_preserved.

(* The lock structure of the current source: each of consume, regenerate,
   transfer_to, convert_nadh_to_atp, enter/exit_dormancy, reset is exactly one
   `with self._lock` section containing every shared-field access, no method
   calls into another object while holding its lock, and transfer_to deposits
   (other.regenerate) only after releasing. *)
Theorem Gen_C05_ok : gen_c05_ok = true.
Proof. exact gen_c05_ok_proof. Qed.
Print Assumptions Gen_C05_ok.
