(* C05 — property theorems only. *)
From Coq Require Import ZArith List Bool String.
From Verif Require Import C04.Model C04.Proofs Common.LockIR Common.Reduction C05.Model C05.Proofs C05.GenOk
  C05.Reduction gen.Gen_C05 gen.Gen_C04 C04.GenOk C04.GenSys.
Import ListNotations.
Open Scope Z_scope.

(* No overdraft, no negative balance, debt within its limit - in the state
   reached after EVERY prefix of EVERY schedule of any number of threads, each
   running any list of calls (transfers are two critical sections). *)
Theorem c05_inv_every_step :
  forall classify interest, interest_nonneg interest ->
  forall sched sys ths, Forall good sys -> Forall thread_nonneg ths ->
    Forall good (fst (run_sched classify interest sys ths sched)) /\
    Forall thread_nonneg (snd (run_sched classify interest sys ths sched)).
Proof. exact inv_every_step. Qed.
Print Assumptions c05_inv_every_step.

(* No lost update / equivalence to a sequential order: every schedule of
   threads that do not transfer ends in exactly the state of the sequential
   history [linearise] (the same calls, in the order their critical sections
   ran, each thread's own order preserved). *)
Theorem c05_serial_equivalence :
  forall classify interest sched sys ths, local_only ths ->
    fst (run_sched classify interest sys ths sched) =
    final classify interest false sys (linearise ths sched).
Proof. exact serial_equivalence. Qed.
Print Assumptions c05_serial_equivalence.

(* The sum of successful spends on a store never exceeds what was available
   (balances + remaining debt room), under any interleaving, as long as nothing
   flows into it. *)
Theorem c05_spend_le_available :
  forall classify interest, interest_nonneg interest ->
  forall i sys ths sched s,
    Forall good sys -> local_only ths ->
    Forall (fun th => Forall op_nonneg (todo th)) ths ->
    Forall (fun th => Forall (no_inflow i) (todo th)) ths ->
    nth_error sys i = Some s ->
    spent_on classify interest false i sys (linearise ths sched) <= spendable s.
Proof. exact spend_le_available_proof. Qed.
Print Assumptions c05_spend_le_available.

(* No deadlock: any number of threads running any calls (opposite-direction
   transfers included) on any stores - from the start ... *)
Theorem c05_initial_threads_safe :
  forall programs : list (list op),
    Forall (safe_thread (reentrant gen_lock_kind))
           (map (fun calls => (None, compile_thread gen_methods calls)) programs).
Proof. intros. apply initial_threads_safe. exact gen_methods_ok. Qed.
Print Assumptions c05_initial_threads_safe.

(* ... and in every configuration the lock machine can reach from there (safety
   of each thread is preserved by its own steps, LockIR.safe_step): if some
   thread has not finished, some thread can take its next step. *)
Theorem c05_no_deadlock :
  forall ths : list thread,
    Forall (safe_thread (reentrant gen_lock_kind)) ths ->
    (exists i th, nth_error ths i = Some th /\ snd th <> []) ->
    exists j, enabled (reentrant gen_lock_kind) ths j.
Proof. intros ths. apply no_deadlock. Qed.
Print Assumptions c05_no_deadlock.

Theorem c05_safety_preserved :
  forall r th, safe_thread r th -> snd th <> [] -> safe_thread r (step_thread th).
Proof. exact safe_step. Qed.
Print Assumptions c05_safety_preserved.

(* The lock structure of the current source: each of consume, regenerate,
   transfer_to, convert_nadh_to_atp, enter/exit_dormancy, reset is exactly one
   `with self._lock` section containing every shared-field access, no method
   calls into another object while holding its lock, and transfer_to deposits
   (other.regenerate) only after releasing. *)
Theorem Gen_C05_ok : gen_c05_ok = true.
Proof. exact gen_c05_ok_proof. Qed.
Print Assumptions Gen_C05_ok.

(* ---------------------------------------------------------------------- *)
(* The coarse semantics above (one critical section = one atomic action) is
   justified by a reduction theorem (Common/Reduction.v, C05/Reduction.v)
   instead of being assumed.  Fine-grained machine: one extracted instruction
   of one thread per step, any schedule, any number of threads and stores,
   locks with owner and hold count.  [compile_threads] turns the translator's
   instruction lists of the CURRENT source (gen_methods) into such programs,
   for an arbitrary interpretation (i_access, i_local) of what each access,
   callback and local line computes. *)

(* The programs of any calls to the locked methods are well-formed: lock-
   bracketed, one lock at a time, store l accessed only under lock l. *)
Theorem c05_locked_methods_well_formed :
  forall (St Lo : Type)
         (i_access : op -> string -> nat -> string -> bool -> St -> Lo -> St * Lo)
         (i_local : op -> string -> nat -> Lo -> Lo)
         (threads : list (Lo * list op)),
    Forall (locked_calls Lo) threads ->
    wf_threads (reentrant gen_lock_kind) (compile_threads St Lo i_access i_local gen_methods threads).
Proof. intros. apply compile_threads_wf; [exact gen_methods_ok|assumption]. Qed.
Print Assumptions c05_locked_methods_well_formed.

(* Every terminated fine-grained execution of any threads calling any of the
   locked methods on any stores has a coarse execution (whole sections as
   single steps, no locks) of the same programs from the same stores and
   locals, ending with the SAME stores and the SAME local states - for every
   interpretation of the accesses. *)
Theorem c05_fine_grained_reduces_to_coarse :
  forall (St Lo : Type)
         (i_access : op -> string -> nat -> string -> bool -> St -> Lo -> St * Lo)
         (i_local : op -> string -> nat -> Lo -> Lo)
         (mem : list St) (threads : list (Lo * list op)) (s : list nat) (F : fcfg St Lo),
    Forall (locked_calls Lo) threads ->
    fine_exec (reentrant gen_lock_kind)
              (init_f mem (compile_threads St Lo i_access i_local gen_methods threads)) s F ->
    finished (fths F) ->
    exists cs C,
      coarse_exec (init_c mem (compile_threads St Lo i_access i_local gen_methods threads)) cs C /\
      cmem C = fmem F /\ cths C = fths F.
Proof. intros St Lo ia il mem threads s F. apply fine_grained_reduces. exact gen_methods_ok. Qed.
Print Assumptions c05_fine_grained_reduces_to_coarse.

(* Unfinished executions: at every point of a fine-grained execution at which
   no lock is held, the stores and local states ARE a state of the coarse
   semantics (so its invariants, e.g. c05_inv_every_step, hold there). *)
Theorem c05_fine_quiescent_states_are_coarse :
  forall (St Lo : Type)
         (i_access : op -> string -> nat -> string -> bool -> St -> Lo -> St * Lo)
         (i_local : op -> string -> nat -> Lo -> Lo)
         (mem : list St) (threads : list (Lo * list op)) (s : list nat) (F : fcfg St Lo),
    Forall (locked_calls Lo) threads ->
    fine_exec (reentrant gen_lock_kind)
              (init_f mem (compile_threads St Lo i_access i_local gen_methods threads)) s F ->
    quiescent F ->
    exists cs C,
      coarse_exec (init_c mem (compile_threads St Lo i_access i_local gen_methods threads)) cs C /\
      cmem C = fmem F /\ cths C = fths F.
Proof. intros St Lo ia il mem threads s F. apply fine_quiescent_is_coarse. exact gen_methods_ok. Qed.
Print Assumptions c05_fine_quiescent_states_are_coarse.

(* At EVERY step of every fine-grained execution, each store that is not
   locked at that moment satisfies every per-store invariant of the coarse
   semantics. *)
Theorem c05_fine_unlocked_store_invariant :
  forall (St Lo : Type)
         (i_access : op -> string -> nat -> string -> bool -> St -> Lo -> St * Lo)
         (i_local : op -> string -> nat -> Lo -> Lo)
         (mem : list St) (threads : list (Lo * list op)) (P : St -> Prop),
    Forall (locked_calls Lo) threads ->
    (forall cs C,
        coarse_exec (init_c mem (compile_threads St Lo i_access i_local gen_methods threads)) cs C ->
        Forall P (cmem C)) ->
    forall s F l x,
      fine_exec (reentrant gen_lock_kind)
                (init_f mem (compile_threads St Lo i_access i_local gen_methods threads)) s F ->
      flocks F l = None -> nth_error (fmem F) l = Some x -> P x.
Proof. intros St Lo ia il mem threads P. apply fine_unlocked_store_invariant. exact gen_methods_ok. Qed.
Print Assumptions c05_fine_unlocked_store_invariant.

(* The simulation invariant behind the three theorems, along every prefix of
   every fine-grained execution of well-formed programs (generic). *)
Theorem c05_simulation_every_prefix :
  forall (St Lo : Type) (r : bool) (mem : list St) (ths : list (fthread St Lo)) s F,
    wf_threads r ths ->
    fine_exec r (init_f mem ths) s F ->
    exists cs C, coarse_exec (init_c mem ths) cs C /\ sim r F C.
Proof. exact simulation_invariant. Qed.
Print Assumptions c05_simulation_every_prefix.

(* The lock discipline is needed: with one access outside the lock there is a
   terminated fine-grained execution (a lost update) whose final store no
   coarse execution produces. *)
Theorem c05_lock_discipline_needed :
  (exists s F, fine_exec false (init_f [0%nat] Example.bad_threads) s F /\
               finished (fths F) /\ fmem F = [1%nat]) /\
  (forall cs C, coarse_exec (init_c [0%nat] Example.bad_threads) cs C ->
                finished (cths C) -> cmem C <> [1%nat]).
Proof. exact Example.wf_hypothesis_needed. Qed.
Print Assumptions c05_lock_discipline_needed.

(* ====================================================================== *)
(* The critical sections are the code.  The operations a schedule interleaves are C04's [step]; C04/GenOk.v and
   GenSys.v prove that the functions generated from metabolism.py on every run compute exactly that step.  So:
   every schedule of threads that do not transfer ends in exactly the state the GENERATED methods reach when they
   are run one after the other in the order [linearise] (binary64 classifier and interest, all indices naming
   existing stores). *)
Theorem c05_gen_serial_equivalence :
  forall sched sys ths, local_only ths ->
    Forall (C04.GenSys.op_addr_ok (List.length sys)) (linearise ths sched) ->
    map C04.GenOk.proj (fst (run_sched classify_float interest_float sys ths sched)) =
    C04.GenSys.gfinal (map C04.GenOk.proj sys) (linearise ths sched).
Proof.
  intros sched sys ths Hl Ha.
  rewrite (C04.GenSys.gfinal_ok _ _ Ha).
  f_equal. exact (serial_equivalence classify_float interest_float sched sys ths Hl).
Qed.
Print Assumptions c05_gen_serial_equivalence.
