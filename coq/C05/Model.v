(* C05 — energy stores under thread interleavings.
   Coarse semantics: every store method is ONE atomic action on its store
   (justified by the lock-structure obligations on the source, Gen_C05_ok, and
   the trusted mutual exclusion of `with lock`), except transfer_to, which the
   code performs as TWO critical sections: withdraw under the sender's lock,
   then regenerate under the receiver's lock.  A schedule is the list of thread
   ids in the order in which their critical sections ran.
   Executable definitions only; the single-store operations are C04's. *)
From Coq Require Import ZArith List Bool String.
From Verif Require Import C04.Model Common.LockIR.
Import ListNotations.
Open Scope Z_scope.
Open Scope list_scope.

Record tstate := mkT {
  pending : option (nat * Z * etype);     (* a transfer that has withdrawn and not yet deposited *)
  todo : list op;                         (* the thread's remaining calls (C04.op) *)
  results : list ret }.                   (* return values of its finished calls *)

Section Sched.
Variable classify : Z -> Z -> Z -> mstate.
Variable interest : Z -> Z -> Z -> Z.

(* one critical section of thread [th] *)
Definition tstep (sys : list store) (th : tstate) : list store * tstate :=
  match pending th with
  | Some (j, a, t) =>
      match nth_error sys j with
      | Some d =>
          let '(d', r) := regenerate classify false d a t in
          (upd sys j d', mkT None (todo th) (results th ++ [match r with Raised => Raised | _ => RBool true end]))
      | None => (sys, mkT None (todo th) (results th ++ [RNoStore]))
      end
  | None =>
      match todo th with
      | [] => (sys, th)
      | Local i lo :: rest =>
          let '(sys', r) := step classify interest false sys (Local i lo) in
          (sys', mkT None rest (results th ++ [r]))
      | Transfer i j a t :: rest =>
          match nth_error sys i with
          | Some s =>
              let '(s', ok) := withdraw s a t in
              if ok then (upd sys i s', mkT (Some (j, a, t)) rest (results th))
              else (sys, mkT None rest (results th ++ [RBool false]))
          | None => (sys, mkT None rest (results th ++ [RNoStore]))
          end
      end
  end.

Fixpoint upd_t (l : list tstate) (i : nat) (x : tstate) : list tstate :=
  match l, i with
  | [], _ => []
  | _ :: r, O => x :: r
  | y :: r, S k => y :: upd_t r k x
  end.

Definition sched_step (c : list store * list tstate) (tid : nat) : list store * list tstate :=
  let '(sys, ths) := c in
  match nth_error ths tid with
  | Some th => let '(sys', th') := tstep sys th in (sys', upd_t ths tid th')
  | None => c
  end.

Definition run_sched (sys : list store) (ths : list tstate) (sched : list nat)
  : list store * list tstate :=
  fold_left sched_step sched (sys, ths).

End Sched.

Definition init_thread (calls : list op) : tstate := mkT None calls [].

Definition inflight (ths : list tstate) : Z :=
  fold_right (fun th acc => match pending th with Some (_, a, _) => a | None => 0 end + acc) 0 ths.

(* the calls a schedule executes, in order, when no thread transfers: the
   sequential history it is equivalent to *)
Fixpoint linearise (ths : list tstate) (sched : list nat) : list op :=
  match sched with
  | [] => []
  | tid :: rest =>
      match nth_error ths tid with
      | Some th =>
          match todo th with
          | o :: more => o :: linearise (upd_t ths tid (mkT None more (results th))) rest
          | [] => linearise ths rest
          end
      | None => linearise ths rest
      end
  end.

Definition local_only (ths : list tstate) : Prop :=
  Forall (fun th => pending th = None /\ Forall (fun o => match o with Local _ _ => True | _ => False end) (todo th)) ths.

(* lock programs of the calls, over locks = store indices, from the method
   instruction lists the translator extracts *)
Definition method_name (o : op) : string :=
  match o with
  | Local _ (Consume _ _ _ _) => "consume"
  | Local _ (Regenerate _ _) => "regenerate"
  | Local _ (Convert _) => "convert_nadh_to_atp"
  | Local _ EnterDormancy => "enter_dormancy"
  | Local _ ExitDormancy => "exit_dormancy"
  | Local _ Interest => "apply_debt_interest"
  | Local _ Reset => "reset"
  | Transfer _ _ _ _ => "transfer_to"
  end%string.

Definition lookup_method (ms : list (string * list instr)) (n : string) : list instr :=
  match find (fun e => String.eqb (fst e) n) ms with Some (_, p) => p | None => [IUnrecognised n] end.

Definition compile_call (ms : list (string * list instr)) (o : op) : list act :=
  match o with
  | Local i _ => compile i [] (lookup_method ms (method_name o))
  | Transfer i j _ _ =>
      compile i (compile j [] (lookup_method ms "regenerate")) (lookup_method ms "transfer_to")
  end.

Definition compile_thread (ms : list (string * list instr)) (calls : list op) : list act :=
  flat_map (compile_call ms) calls.

(* ---------------------------------------------------------------------- *)
(* correspondence entry point                                               *)

Definition case5 := (list config * list (list op) * list nat)%type.

Definition run_case5 (c : case5) : list (list Z) :=
  let '(cfgs, threads, sched) := c in
  let '(sys, ths) := run_sched classify_float interest_float (map init_store cfgs)
                               (map init_thread threads) sched in
  map (fun th => flat_map ret_obs (results th) ++ [Z.of_nat (List.length (todo th));
                                                   match pending th with Some _ => 1 | None => 0 end]) ths
  ++ [sys_obs sys].
