(* C05 — the coarse semantics (one critical section = one atomic action) is a
   sound reduction of the fine-grained execution of the store methods.

   Common/Reduction.v proves, for any programs over acquire / release / store
   access / local steps, that well-formed programs (lock-bracketed, one lock at
   a time, store l touched only under lock l) executed one instruction at a
   time under any schedule are simulated by the machine that runs every
   section atomically.  This file connects it to the instruction lists the
   translator extracts from metabolism.py:

   - [compile_f]: a method's instruction list -> an fstep program, for ANY
     interpretation of what each access / callback / local line computes;
   - [scan_compile_wf]: LockIR.scan (hence method_ok) implies well-formedness,
     for the non-reentrant and the reentrant lock kind;
   - [fine_grained_reduces]: the reduction theorem for threads calling the
     locked methods of a method table that passes [methods_ok].

   apply_debt_interest takes NO lock in the source (its accesses are outside
   any section), so calls to it are not covered: [locked_call] excludes them.

   Definitions first, proofs after. *)
From Coq Require Import ZArith List Bool String Arith Lia.
From Verif Require Import Common.LockIR Common.Reduction C04.Model C05.Model C05.Proofs.
Import ListNotations.
Open Scope nat_scope.
Open Scope list_scope.

Section Compile.
Variable St : Type.     (* state of one store *)
Variable Lo : Type.     (* local state of one thread *)

(* The interpretation: what the instruction at position k of method m does when
   it runs as part of call o.  Arbitrary; every theorem quantifies over it. *)
Variable i_access : op -> string -> nat -> string -> bool -> St -> Lo -> St * Lo.
Variable i_local : op -> string -> nat -> Lo -> Lo.

(* one fstep per extracted instruction, each followed by a local step (the
   source lines up to the next instruction that touch no shared field; a user
   callback is a local step: it is assumed not to touch the stores or locks,
   as in LockIR.compile where it is Tau).  A call into another object expands
   to that object's method program on ITS store. *)
Fixpoint compile_f (o : op) (m : string) (self : nat) (other_body : prog St Lo)
         (k : nat) (p : list instr) : prog St Lo :=
  match p with
  | [] => []
  | IAcq :: r =>
      FAcq self :: FLocal (i_local o m k) :: compile_f o m self other_body (S k) r
  | IRel :: r =>
      FRel self :: FLocal (i_local o m k) :: compile_f o m self other_body (S k) r
  | IShared fld w :: r =>
      FAccess self (i_access o m k fld w) :: FLocal (i_local o m k)
        :: compile_f o m self other_body (S k) r
  | ICallOther _ :: r =>
      other_body ++ FLocal (i_local o m k) :: compile_f o m self other_body (S k) r
  | ICallback _ :: r =>
      FLocal (i_local o m k) :: compile_f o m self other_body (S k) r
  | IUnrecognised _ :: r =>
      FLocal (i_local o m k) :: compile_f o m self other_body (S k) r
  end.

Definition compile_call_f (ms : list (string * list instr)) (o : op) : prog St Lo :=
  match o with
  | Local i _ => compile_f o (method_name o) i [] 0 (lookup_method ms (method_name o))
  | Transfer i j _ _ =>
      compile_f o "transfer_to" i
                (compile_f o "regenerate" j [] 0 (lookup_method ms "regenerate"))
                0 (lookup_method ms "transfer_to")
  end.

Definition compile_thread_f (ms : list (string * list instr)) (calls : list op) : prog St Lo :=
  flat_map (compile_call_f ms) calls.

(* calls to the methods that take the store's lock (all but apply_debt_interest) *)
Definition locked_call (o : op) : bool :=
  match o with Local _ Interest => false | _ => true end.

Definition locked_calls (t : Lo * list op) : Prop := forallb locked_call (snd t) = true.

(* the initial threads: local state + the compiled program of the calls *)
Definition compile_threads (ms : list (string * list instr)) (threads : list (Lo * list op))
  : list (fthread St Lo) :=
  map (fun t => (fst t, compile_thread_f ms (snd t))) threads.

(* ---------------------------------------------------------------------- *)
(* proofs                                                                    *)

Lemma scan_compile_wf k o m self other_body :
  wf (reentrant k) None other_body = true ->
  forall p depth pos,
    scan k depth p = true ->
    wf (reentrant k) (match depth with 0 => None | S _ => Some (self, depth) end)
       (compile_f o m self other_body pos p) = true.
Proof.
  intros Ho. induction p as [|a p IH]; intros depth pos Hs.
  - simpl in *. apply Nat.eqb_eq in Hs. subst. reflexivity.
  - destruct a; simpl in Hs; cbn [compile_f].
    + (* IAcq *)
      apply andb_true_iff in Hs. destruct Hs as [H1 H2]. specialize (IH (S depth) (S pos) H2).
      destruct depth as [|d]; [exact IH|].
      simpl in H1. simpl. rewrite Nat.eqb_refl. rewrite H1 in IH |- *. simpl. exact IH.
    + (* IRel *)
      destruct depth as [|d]; [discriminate|]. specialize (IH d (S pos) Hs).
      simpl. rewrite Nat.eqb_refl. simpl. destruct d as [|d']; exact IH.
    + (* IShared *)
      apply andb_true_iff in Hs. destruct Hs as [H1 H2].
      destruct depth as [|d]; [discriminate|]. specialize (IH (S d) (S pos) H2).
      simpl. rewrite Nat.eqb_refl. simpl. exact IH.
    + (* ICallOther *)
      apply andb_true_iff in Hs. destruct Hs as [H1 H2]. apply Nat.eqb_eq in H1. subst depth.
      apply wf_app_gen; [|exact Ho]. simpl. exact (IH 0 (S pos) H2).
    + (* ICallback *)
      simpl. apply IH. exact Hs.
    + discriminate.
Qed.

Lemma method_ok_compile_wf k o m self p :
  method_ok k p = true -> wf (reentrant k) None (compile_f o m self [] 0 p) = true.
Proof.
  intros H. unfold method_ok in H. apply andb_true_iff in H. destruct H as [_ H].
  apply (scan_compile_wf k o m self [] eq_refl p 0 0 H).
Qed.

Lemma compile_call_wf k ms o :
  methods_ok k ms = true -> locked_call o = true ->
  wf (reentrant k) None (compile_call_f ms o) = true.
Proof.
  unfold methods_ok, locked_methods. intros H Hl. apply andb_true_iff in H. destruct H as [H _].
  cbn [forallb] in H. repeat (apply andb_true_iff in H; destruct H as [? H]).
  destruct o as [i lo|i j a t]; cbn [compile_call_f].
  - destruct lo; cbn [method_name]; try (apply method_ok_compile_wf; assumption).
    simpl in Hl. discriminate Hl.
  - assert (Hm : method_ok k (lookup_method ms "transfer_to"%string) = true) by assumption.
    assert (Hr : method_ok k (lookup_method ms "regenerate"%string) = true) by assumption.
    unfold method_ok in Hm. apply andb_true_iff in Hm. destruct Hm as [_ Hm].
    apply (scan_compile_wf k _ _ i _ (method_ok_compile_wf k _ _ j _ Hr) _ 0 0 Hm).
Qed.

Lemma compile_thread_wf k ms calls :
  methods_ok k ms = true -> forallb locked_call calls = true ->
  wf (reentrant k) None (compile_thread_f ms calls) = true.
Proof.
  intros H. unfold compile_thread_f. induction calls as [|o calls IH]; intros Hl; [reflexivity|].
  simpl in Hl. apply andb_true_iff in Hl. destruct Hl as [Ho Hl].
  simpl. apply wf_app; [apply compile_call_wf; assumption|apply IH; exact Hl].
Qed.

Lemma compile_threads_wf k ms threads :
  methods_ok k ms = true -> Forall locked_calls threads ->
  wf_threads (reentrant k) (compile_threads ms threads).
Proof.
  intros H Hl. unfold wf_threads, compile_threads. apply Forall_forall. intros th Hin.
  apply in_map_iff in Hin. destruct Hin as (t & <- & Hin). cbn [snd].
  apply compile_thread_wf; [exact H|]. rewrite Forall_forall in Hl. apply Hl. exact Hin.
Qed.

(* the lock programs used by the deadlock-freedom theorem are the erasure of
   well-formed programs, so both theorems speak about the same discipline *)
Lemma compile_threads_safe k ms threads :
  methods_ok k ms = true -> Forall locked_calls threads ->
  Forall (fun t => safe (reentrant k) None (map (erase St Lo) (snd t)) = true)
         (compile_threads ms threads).
Proof.
  intros H Hl. pose proof (compile_threads_wf k ms threads H Hl) as Hw.
  unfold wf_threads in Hw. rewrite Forall_forall in Hw |- *.
  intros t Hin. apply wf_safe. apply Hw. exact Hin.
Qed.

(* every terminated fine-grained execution has a coarse execution with the
   same final stores and the same final local states *)
Lemma fine_grained_reduces k ms mem threads s F :
  methods_ok k ms = true -> Forall locked_calls threads ->
  fine_exec (reentrant k) (init_f mem (compile_threads ms threads)) s F ->
  finished (fths F) ->
  exists cs C, coarse_exec (init_c mem (compile_threads ms threads)) cs C /\
               cmem C = fmem F /\ cths C = fths F.
Proof.
  intros H Hl. apply fine_reduces_to_coarse. apply compile_threads_wf; assumption.
Qed.

(* every quiescent state (no lock held) of a fine-grained execution, finished
   or not, is a state of the coarse semantics *)
Lemma fine_quiescent_is_coarse k ms mem threads s F :
  methods_ok k ms = true -> Forall locked_calls threads ->
  fine_exec (reentrant k) (init_f mem (compile_threads ms threads)) s F ->
  quiescent F ->
  exists cs C, coarse_exec (init_c mem (compile_threads ms threads)) cs C /\
               cmem C = fmem F /\ cths C = fths F.
Proof.
  intros H Hl. apply quiescent_is_coarse_reachable. apply compile_threads_wf; assumption.
Qed.

(* a per-store invariant of the coarse semantics holds for every store that is
   not locked, at every step of every fine-grained execution *)
Lemma fine_unlocked_store_invariant k ms mem threads (P : St -> Prop) :
  methods_ok k ms = true -> Forall locked_calls threads ->
  (forall cs C, coarse_exec (init_c mem (compile_threads ms threads)) cs C -> Forall P (cmem C)) ->
  forall s F l x,
    fine_exec (reentrant k) (init_f mem (compile_threads ms threads)) s F ->
    flocks F l = None -> nth_error (fmem F) l = Some x -> P x.
Proof.
  intros H Hl. apply coarse_store_invariant_lifts. apply compile_threads_wf; assumption.
Qed.

End Compile.
