(* C05 — lemmas: C04's invariant at every step of every schedule, the
   sequential equivalent of transfer-free schedules, deadlock freedom. *)
From Coq Require Import ZArith List Bool String Lia PeanoNat.
From Verif Require Import C04.Model C04.Proofs Common.LockIR C05.Model.
Import ListNotations.
Open Scope Z_scope.

Definition thread_nonneg (th : tstate) : Prop :=
  Forall op_nonneg (todo th) /\ match pending th with Some (_, a, _) => 0 <= a | None => True end.

Section S.
Variable classify : Z -> Z -> Z -> mstate.
Variable interest : Z -> Z -> Z -> Z.
Hypothesis Hint : interest_nonneg interest.

Notation tstep' := (tstep classify interest).
Notation sched_step' := (sched_step classify interest).
Notation run_sched' := (run_sched classify interest).

(* one critical section preserves the ledger invariant of every store *)
Lemma tstep_good sys th :
  Forall good sys -> thread_nonneg th ->
  Forall good (fst (tstep' sys th)) /\ thread_nonneg (snd (tstep' sys th)).
Proof.
  intros Hg [Htodo Hpend]. unfold tstep.
  destruct (pending th) as [[[j a] t]|] eqn:Hp.
  - destruct (nth_error sys j) as [d|] eqn:Ej.
    + pose proof (regenerate_good classify d a t (Forall_nth_error _ _ _ _ Hg Ej) Hpend) as Hr.
      destruct (regenerate classify false d a t) as [d' r]. cbn [fst snd] in *.
      split; [apply Forall_upd; assumption|]. split; [exact Htodo|exact I].
    + cbn [fst snd]. split; [exact Hg|]. split; [exact Htodo|exact I].
  - destruct (todo th) as [|o rest] eqn:Ht.
    + cbn [fst snd]. split; [exact Hg|]. split; [rewrite Ht; constructor|rewrite Hp; exact I].
    + inversion Htodo as [|? ? Ho Hrest]; subst.
      destruct o as [i lo|i j a t].
      * pose proof (step_good classify interest Hint sys (Local i lo) Hg Ho) as Hs.
        destruct (step classify interest false sys (Local i lo)) as [sys' r]. cbn [fst snd] in *.
        split; [exact Hs|]. split; [exact Hrest|exact I].
      * destruct (nth_error sys i) as [s|] eqn:Ei.
        -- pose proof (withdraw_good s a t (Forall_nth_error _ _ _ _ Hg Ei)) as Hw.
           destruct (withdraw s a t) as [s' ok]. cbn [fst] in Hw. destruct ok; cbn [fst snd].
           ++ split; [apply Forall_upd; assumption|]. split; [exact Hrest|exact Ho].
           ++ split; [exact Hg|]. split; [exact Hrest|exact I].
        -- cbn [fst snd]. split; [exact Hg|]. split; [exact Hrest|exact I].
Qed.

Lemma Forall_upd_t (P : tstate -> Prop) l i x : Forall P l -> P x -> Forall P (upd_t l i x).
Proof.
  revert i. induction l as [|y l IH]; intros i Hl Hx; [destruct i; constructor|].
  inversion Hl; subst. destruct i; simpl; constructor; auto.
Qed.

Lemma sched_step_good c tid :
  Forall good (fst c) -> Forall thread_nonneg (snd c) ->
  Forall good (fst (sched_step' c tid)) /\ Forall thread_nonneg (snd (sched_step' c tid)).
Proof.
  destruct c as [sys ths]. cbn [fst snd]. intros Hg Ht. unfold sched_step.
  destruct (nth_error ths tid) as [th|] eqn:E; [|split; assumption].
  assert (Hth : thread_nonneg th) by (rewrite Forall_forall in Ht; apply Ht; eapply nth_error_In; eauto).
  destruct (tstep_good sys th Hg Hth) as [H1 H2].
  destruct (tstep' sys th) as [sys' th']. cbn [fst snd] in *.
  split; [exact H1|apply Forall_upd_t; assumption].
Qed.

(* the invariant holds after every prefix of every schedule *)
Lemma inv_every_step sched :
  forall sys ths, Forall good sys -> Forall thread_nonneg ths ->
    Forall good (fst (run_sched' sys ths sched)) /\ Forall thread_nonneg (snd (run_sched' sys ths sched)).
Proof.
  unfold run_sched. induction sched as [|tid rest IH]; intros sys ths Hg Ht; cbn [fold_left]; [split; assumption|].
  destruct (sched_step_good (sys, ths) tid Hg Ht) as [H1 H2].
  destruct (sched_step' (sys, ths) tid) as [sys' ths']. apply IH; assumption.
Qed.

(* transfer-free schedules are the sequential history [linearise] *)
Lemma nth_error_upd_t_same l i (x y : tstate) :
  nth_error l i = Some y -> nth_error (upd_t l i x) i = Some x.
Proof. revert i. induction l as [|z l IH]; intros [|i] H; simpl in *; try discriminate; auto. Qed.

Definition same_todo (a b : tstate) : Prop := todo a = todo b.

Lemma Forall2_same_refl l : Forall2 same_todo l l.
Proof. induction l; constructor; auto. reflexivity. Qed.

Lemma Forall2_upd_t l1 l2 i x y :
  Forall2 same_todo l1 l2 -> same_todo x y -> Forall2 same_todo (upd_t l1 i x) (upd_t l2 i y).
Proof.
  intros H. revert i. induction H as [|a b l1 l2 Hab Hl IH]; intros i Hxy.
  - destruct i; constructor.
  - destruct i; simpl; constructor; auto.
Qed.

Lemma linearise_same sched :
  forall ths1 ths2, Forall2 same_todo ths1 ths2 -> linearise ths1 sched = linearise ths2 sched.
Proof.
  induction sched as [|t sched IHs]; intros ths1 ths2 H12; cbn [linearise]; [reflexivity|].
  assert (Hn : match nth_error ths1 t, nth_error ths2 t with
               | Some a, Some b => todo a = todo b
               | None, None => True
               | _, _ => False end).
  { clear - H12. revert t. induction H12 as [|a b l1 l2 Hab _ IH]; intros [|t]; simpl; auto. apply IH. }
  destruct (nth_error ths1 t) as [a|], (nth_error ths2 t) as [b|]; try contradiction; [|apply IHs; exact H12].
  rewrite Hn. destruct (todo b) as [|o more']; [apply IHs; exact H12|].
  f_equal. apply IHs. apply Forall2_upd_t; [exact H12|reflexivity].
Qed.

Lemma upd_t_id l i (x : tstate) : nth_error l i = Some x -> upd_t l i x = l.
Proof.
  revert i. induction l as [|y l IH]; intros [|i] E; simpl in *; try discriminate; auto.
  - inversion E; reflexivity.
  - f_equal. apply IH; exact E.
Qed.

Lemma serial_equivalence sched :
  forall sys ths, local_only ths ->
    fst (run_sched' sys ths sched) = final classify interest false sys (linearise ths sched).
Proof.
  unfold run_sched. induction sched as [|tid rest IH]; intros sys ths Hl; cbn [fold_left linearise final]; [reflexivity|].
  unfold sched_step at 2. destruct (nth_error ths tid) as [th|] eqn:E; [|apply IH; exact Hl].
  assert (Hth : pending th = None /\ Forall (fun o => match o with Local _ _ => True | _ => False end) (todo th)).
  { unfold local_only in Hl. rewrite Forall_forall in Hl. apply Hl. eapply nth_error_In; eauto. }
  destruct Hth as [Hp Ht]. unfold tstep. rewrite Hp.
  destruct (todo th) as [|o more] eqn:Etodo.
  - rewrite (upd_t_id _ _ _ E). apply IH. exact Hl.
  - inversion Ht as [|? ? Ho Hmore]; subst. destruct o as [i lo|]; [|contradiction].
    cbn [final].
    destruct (step classify interest false sys (Local i lo)) as [sys' r] eqn:Es. cbn [fst].
    assert (Hl' : local_only (upd_t ths tid (mkT None more (results th ++ [r])))).
    { apply Forall_upd_t; [exact Hl|]. split; [reflexivity|exact Hmore]. }
    rewrite (IH sys' _ Hl'). f_equal.
    apply linearise_same. apply Forall2_upd_t; [apply Forall2_same_refl|reflexivity].
Qed.

End S.

(* ---------------------------------------------------------------------- *)
(* deadlock freedom of any set of threads calling the store methods          *)

(* a method that takes no lock and calls into no other object *)
Definition lockless (p : list instr) : bool :=
  forallb (fun i => match i with IShared _ _ | ICallback _ => true | _ => false end) p.

Definition locked_methods : list string :=
  ["consume"; "regenerate"; "transfer_to"; "convert_nadh_to_atp"; "enter_dormancy"; "exit_dormancy"; "reset"]%string.

Definition methods_ok (k : lock_kind) (ms : list (string * list instr)) : bool :=
  forallb (fun n => method_ok k (lookup_method ms n)) locked_methods
  && lockless (lookup_method ms "apply_debt_interest").

Lemma lockless_safe r self p : lockless p = true -> safe r None (compile self [] p) = true.
Proof.
  induction p as [|a p IH]; [reflexivity|]. simpl. intros H. apply andb_true_iff in H. destruct H as [Ha Hp].
  destruct a; try discriminate; simpl; apply IH; exact Hp.
Qed.

Lemma compile_call_safe k ms o :
  methods_ok k ms = true -> safe (reentrant k) None (compile_call ms o) = true.
Proof.
  unfold methods_ok, locked_methods. intros H. apply andb_true_iff in H. destruct H as [H Hint].
  cbn [forallb] in H. repeat (apply andb_true_iff in H; destruct H as [? H]).
  assert (Hnil : safe (reentrant k) None [] = true) by reflexivity.
  assert (Hgen : forall n self, method_ok k (lookup_method ms n) = true ->
                   safe (reentrant k) None (compile self [] (lookup_method ms n)) = true).
  { intros n self Hm. unfold method_ok in Hm. apply andb_true_iff in Hm. destruct Hm as [_ Hm].
    apply (scan_compile_safe k self [] Hnil _ 0%nat Hm). }
  destruct o as [i lo|i j a t]; cbn [compile_call].
  - destruct lo; cbn [method_name]; try (apply Hgen; assumption).
    apply lockless_safe. exact Hint.
  - assert (Hm : method_ok k (lookup_method ms "transfer_to"%string) = true) by assumption.
    assert (Hr : method_ok k (lookup_method ms "regenerate"%string) = true) by assumption.
    unfold method_ok in Hm. apply andb_true_iff in Hm. destruct Hm as [_ Hm].
    apply (scan_compile_safe k i _ (Hgen "regenerate"%string j Hr) _ 0%nat Hm).
Qed.

Lemma compile_thread_safe k ms calls :
  methods_ok k ms = true -> safe (reentrant k) None (compile_thread ms calls) = true.
Proof.
  intros H. unfold compile_thread. induction calls as [|o calls IH]; [reflexivity|].
  simpl. apply safe_app; [apply compile_call_safe; exact H|exact IH].
Qed.

(* any number of threads, each running any sequence of calls on any stores:
   whatever point the execution has reached (each thread's program is a safe
   suffix), if some thread is unfinished some thread can step *)
Lemma no_deadlock_proof k ms (ths : list thread) :
  methods_ok k ms = true ->
  Forall (safe_thread (reentrant k)) ths ->
  (exists i th, nth_error ths i = Some th /\ snd th <> []) ->
  exists j, enabled (reentrant k) ths j.
Proof. intros _. apply no_deadlock. Qed.

Lemma initial_threads_safe k ms (programs : list (list op)) :
  methods_ok k ms = true ->
  Forall (safe_thread (reentrant k)) (map (fun calls => (None, compile_thread ms calls)) programs).
Proof.
  intros H. apply Forall_forall. intros th Hin. apply in_map_iff in Hin. destruct Hin as (calls & <- & _).
  unfold safe_thread. simpl. apply compile_thread_safe. exact H.
Qed.

(* the sequential history of a transfer-free schedule only contains the
   threads' own calls *)
Lemma linearise_forall (P : op -> Prop) sched :
  forall ths, Forall (fun th => Forall P (todo th)) ths -> Forall P (linearise ths sched).
Proof.
  induction sched as [|tid rest IH]; intros ths H; cbn [linearise]; [constructor|].
  destruct (nth_error ths tid) as [th|] eqn:E; [|apply IH; exact H].
  assert (Hth : Forall P (todo th)) by (rewrite Forall_forall in H; apply H; eapply nth_error_In; eauto).
  destruct (todo th) as [|o more]; [apply IH; exact H|].
  inversion Hth as [|? ? Ho Hmore]; subst. constructor; [assumption|]. apply IH.
  apply Forall_upd_t; [exact H|exact Hmore].
Qed.

Lemma spend_le_available_proof classify interest :
  interest_nonneg interest ->
  forall i sys ths sched s,
    Forall good sys -> local_only ths ->
    Forall (fun th => Forall op_nonneg (todo th)) ths ->
    Forall (fun th => Forall (no_inflow i) (todo th)) ths ->
    nth_error sys i = Some s ->
    spent_on classify interest false i sys (linearise ths sched) <= spendable s.
Proof.
  intros Hi i sys ths sched s Hg _ Hn Hin Hs.
  apply (spend_bounded classify interest Hi i _ sys s Hg); [apply linearise_forall|apply linearise_forall|]; assumption.
Qed.
