(* C05 — non-vacuity, and the refutation of whole-call atomicity of transfer_to
   (the known finding C05/transfer-two-phase). *)
From Coq Require Import ZArith List Bool String.
From Verif Require Import Common.Corr C04.Model Common.LockIR C05.Model C05.Proofs.
Import ListNotations.
Open Scope Z_scope.

Definition cfgA : config := (5, 0, 0, 0, 0, 1).
Definition stores := map init_store [cfgA; cfgA].
Definition consume5 (i : nat) := Local i (Consume 5 ATP false 0).

(* T0: A.transfer_to(B, 5).   T1: B.consume(5); A.consume(5); B.consume(5). *)
Definition prog : list (list op) := [[Transfer 0 1 5 ATP]; [consume5 1; consume5 0; consume5 1]].

(* T1 drains B, T0 withdraws from A, T1's two spends both fail, T0 deposits *)
Definition bad_sched : list nat := [1; 0; 1; 1; 0]%nat.

Definition outcome (c : list store * list tstate) : list (list Z) :=
  map (fun th => flat_map ret_obs (results th)) (snd c) ++ [sys_obs (fst c)].

Definition interleaved := outcome (run_sched classify_float interest_float stores (map init_thread prog) bad_sched).

(* all sequential executions of the same four calls, T1's order preserved:
   the transfer runs before call k of T1, k = 0..3 *)
Definition sequential (k : nat) : list (list Z) :=
  let t1 := [consume5 1; consume5 0; consume5 1] in
  let ops := firstn k t1 ++ [Transfer 0 1 5 ATP] ++ skipn k t1 in
  let rs := map snd (run classify_float interest_float false stores ops) in
  let r_tr := nth k rs RNoStore in
  [ret_obs r_tr; flat_map ret_obs (firstn k rs ++ skipn (S k) rs);
   sys_obs (final classify_float interest_float false stores ops)].

Lemma c05_transfer_not_atomic_refuted :
  forallb (fun k => negb (zll_eqb interleaved (sequential k))) [0; 1; 2; 3]%nat = true.
Proof. vm_compute. reflexivity. Qed.

(* the interleaved outcome itself: transfer True, spends True/False/False, A = 0, B = 5 *)
Example ex_interleaved_outcome :
  map (fun th => results th) (snd (run_sched classify_float interest_float stores (map init_thread prog) bad_sched))
  = [[RBool true]; [RBool true; RBool false; RBool false]].
Proof. vm_compute. reflexivity. Qed.

(* non-vacuity of the deadlock theorem: two threads doing opposite transfers *)
Example ex_opposite_transfers_unfinished :
  let ms := [("transfer_to", [IAcq; IShared "atp" true; IRel; ICallOther "other.regenerate"]);
             ("regenerate", [IAcq; IShared "atp" true; IRel])]%string in
  compile_thread ms [Transfer 0 1 5 ATP] = [Acq 0; Tau; Rel 0; Acq 1; Tau; Rel 1]%nat /\
  compile_thread ms [Transfer 1 0 5 ATP] = [Acq 1; Tau; Rel 1; Acq 0; Tau; Rel 0]%nat.
Proof. vm_compute. split; reflexivity. Qed.
