(* Lock discipline: the instruction lists the translator (translators/locks.py)
   extracts from a Python class, decidable checks on them, and an abstract
   multi-thread lock machine with the deadlock-freedom theorem used by C05
   (several stores, one lock each, never two at once).
   Definitions first, proofs at the end of the file. *)
From Coq Require Import List Bool String Arith Lia.
Import ListNotations.

Inductive lock_kind := LkNonReentrant | LkReentrant | LkUnrecognised.

Inductive instr :=
| IAcq                                   (* with self._lock: *)
| IRel
| IShared (field : string) (is_write : bool)
| ICallOther (callee : string)           (* a method of ANOTHER object, e.g. other.regenerate *)
| ICallback (name : string)              (* a user callback attribute of self *)
| IUnrecognised (text : string).

Definition reentrant (k : lock_kind) : bool :=
  match k with LkReentrant => true | _ => false end.

(* depth-tracking scan of one method body *)
Fixpoint scan (k : lock_kind) (depth : nat) (p : list instr) : bool :=
  match p with
  | [] => Nat.eqb depth 0
  | IAcq :: r => (Nat.eqb depth 0 || reentrant k) && scan k (S depth) r
  | IRel :: r => match depth with 0 => false | S d => scan k d r end
  | IShared _ _ :: r => negb (Nat.eqb depth 0) && scan k depth r      (* every shared access inside the lock *)
  | ICallOther _ :: r => Nat.eqb depth 0 && scan k depth r            (* never call into another object while holding *)
  | ICallback _ :: r => scan k depth r
  | IUnrecognised _ :: r => false
  end.

Definition kind_ok (k : lock_kind) : bool :=
  match k with LkUnrecognised => false | _ => true end.

Definition method_ok (k : lock_kind) (p : list instr) : bool := kind_ok k && scan k 0 p.

(* exactly one critical section containing everything *)
Fixpoint count_acq (p : list instr) : nat :=
  match p with [] => 0 | IAcq :: r => S (count_acq r) | _ :: r => count_acq r end.

(* a method takes the lock it already holds (self-deadlock on a non-reentrant lock) *)
Definition no_self_reacquire (k : lock_kind) (p : list instr) : bool := scan k 0 p || reentrant k.

(* ---------------------------------------------------------------------- *)
(* abstract lock machine                                                    *)

Inductive act := Acq (l : nat) | Rel (l : nat) | Tau.

(* a thread: the lock it holds (with its hold count) and the rest of its program *)
Definition thread := (option (nat * nat) * list act)%type.

(* [safe r h p]: running p from hold-state h never acquires a second lock,
   never re-acquires a non-reentrant one, only releases what it holds, and
   ends holding nothing *)
Fixpoint safe (r : bool) (h : option (nat * nat)) (p : list act) : bool :=
  match p with
  | [] => match h with None => true | Some _ => false end
  | Tau :: q => safe r h q
  | Acq l :: q =>
      match h with
      | None => safe r (Some (l, 1)) q
      | Some (l', c) => Nat.eqb l l' && r && safe r (Some (l', S c)) q
      end
  | Rel l :: q =>
      match h with
      | None => false
      | Some (l', c) =>
          Nat.eqb l l' &&
          match c with
          | 0 => false
          | 1 => safe r None q
          | S c' => safe r (Some (l', c')) q
          end
      end
  end.

Definition holds (th : thread) (l : nat) : Prop :=
  match fst th with Some (l', _) => l' = l | None => False end.

(* thread i can take its next step in configuration ths *)
Definition enabled (r : bool) (ths : list thread) (i : nat) : Prop :=
  match nth_error ths i with
  | Some (_, Tau :: _) => True
  | Some (Some (l', _), Rel l :: _) => l = l'
  | Some (Some (l', _), Acq l :: _) => l = l' /\ r = true
  | Some (None, Acq l :: _) => forall j th, nth_error ths j = Some th -> ~ holds th l
  | _ => False
  end.

(* the step thread i takes *)
Definition step_thread (th : thread) : thread :=
  match th with
  | (h, Tau :: q) => (h, q)
  | (None, Acq l :: q) => (Some (l, 1), q)
  | (Some (l', c), Acq l :: q) => (Some (l', S c), q)
  | (Some (l', c), Rel l :: q) => (match c with 0 | 1 => None | S c' => Some (l', c') end, q)
  | _ => th
  end.

Definition safe_thread (r : bool) (th : thread) : Prop := safe r (fst th) (snd th) = true.

(* compile a method's instruction list to the lock machine: own lock = self,
   a call into another object runs that object's method under ITS lock *)
Fixpoint compile (self : nat) (other_body : list act) (p : list instr) : list act :=
  match p with
  | [] => []
  | IAcq :: r => Acq self :: compile self other_body r
  | IRel :: r => Rel self :: compile self other_body r
  | ICallOther _ :: r => other_body ++ compile self other_body r
  | _ :: r => Tau :: compile self other_body r
  end.

(* ---------------------------------------------------------------------- *)
(* proofs                                                                    *)

Lemma safe_step r th :
  safe_thread r th -> snd th <> [] -> safe_thread r (step_thread th).
Proof.
  destruct th as [h p]. unfold safe_thread. simpl. destruct p as [|a q]; [congruence|]. intros H _.
  destruct a as [l|l|]; destruct h as [[l' c]|]; simpl in *; try exact H; try discriminate.
  - apply andb_true_iff in H. destruct H as [_ H]. exact H.
  - apply andb_true_iff in H. destruct H as [_ H].
    destruct c as [|[|c']]; simpl; [discriminate|exact H|exact H].
Qed.

(* a thread that holds a lock and is safe has a next step, and it is enabled *)
Lemma holder_can_step r ths j th l :
  nth_error ths j = Some th -> safe_thread r th -> holds th l -> enabled r ths j.
Proof.
  intros Hn Hs Hh. unfold enabled. rewrite Hn.
  destruct th as [h p]. unfold safe_thread, holds in *. simpl in *.
  destruct h as [[l' c]|]; [|contradiction]. subst l'.
  destruct p as [|a q]; [simpl in Hs; discriminate|].
  destruct a as [l0|l0|]; simpl in Hs.
  - apply andb_true_iff in Hs. destruct Hs as [Hs _]. apply andb_true_iff in Hs. destruct Hs as [He Hr].
    apply Nat.eqb_eq in He. split; [exact He|exact Hr].
  - apply andb_true_iff in Hs. destruct Hs as [He _]. apply Nat.eqb_eq in He. exact He.
  - exact I.
Qed.

Lemma holds_dec th l : {holds th l} + {~ holds th l}.
Proof.
  unfold holds. destruct (fst th) as [[l' c]|]; [|right; tauto].
  destruct (Nat.eq_dec l' l); [left|right]; assumption.
Qed.

Lemma classic_holder ths l :
  (exists j th, nth_error ths j = Some th /\ holds th l) \/
  (forall j th, nth_error ths j = Some th -> ~ holds th l).
Proof.
  induction ths as [|t ths IH].
  - right. intros j th H. destruct j; discriminate.
  - destruct (holds_dec t l) as [H|H].
    + left. exists 0, t. split; [reflexivity|exact H].
    + destruct IH as [(j & th & Hj & Hh)|Hn].
      * left. exists (S j), th. split; assumption.
      * right. intros [|j] th Hj; simpl in Hj; [inversion Hj; subst; exact H|eapply Hn; eauto].
Qed.

(* deadlock freedom: in every configuration of safe threads in which some
   thread has not finished, some thread is enabled *)
Theorem no_deadlock r ths :
  Forall (safe_thread r) ths ->
  (exists i th, nth_error ths i = Some th /\ snd th <> []) ->
  exists j, enabled r ths j.
Proof.
  intros Hall (i & th & Hn & Hne).
  assert (Hs : safe_thread r th) by (rewrite Forall_forall in Hall; apply Hall; eapply nth_error_In; eauto).
  destruct th as [h p]. simpl in Hne. destruct p as [|a q]; [congruence|].
  destruct a as [l|l|].
  - destruct h as [[l' c]|].
    + exists i. apply (holder_can_step r ths i (Some (l', c), Acq l :: q) l'); auto. reflexivity.
    + (* wants a free lock: either nobody holds it, or its holder can step *)
      destruct (classic_holder ths l) as [(j & thj & Hj & Hh)|Hnone].
      * exists j. eapply holder_can_step; eauto.
        rewrite Forall_forall in Hall. apply Hall. eapply nth_error_In; eauto.
      * exists i. unfold enabled. rewrite Hn. exact Hnone.
  - unfold safe_thread in Hs. simpl in Hs. destruct h as [[l' c]|]; [|discriminate].
    exists i. apply (holder_can_step r ths i (Some (l', c), Rel l :: q) l'); auto. reflexivity.
  - exists i. unfold enabled. rewrite Hn. destruct h as [[? ?]|]; exact I.
Qed.

(* composition: running safe programs one after the other is safe *)
Lemma safe_app_gen r q : safe r None q = true ->
  forall p h, safe r h p = true -> safe r h (p ++ q) = true.
Proof.
  intros Hq. induction p as [|a p IH]; intros h Hp.
  - simpl in *. destruct h; [discriminate|exact Hq].
  - destruct a as [l|l|]; simpl in *.
    + destruct h as [[l' c]|]; [|apply IH; exact Hp].
      apply andb_true_iff in Hp. destruct Hp as [H1 H2]. rewrite H1. simpl. apply IH. exact H2.
    + destruct h as [[l' c]|]; [|discriminate].
      apply andb_true_iff in Hp. destruct Hp as [H1 H2]. rewrite H1. simpl.
      destruct c as [|[|c']]; [discriminate|apply IH; exact H2|apply IH; exact H2].
    + apply IH. exact Hp.
Qed.

Lemma safe_app r p q : safe r None p = true -> safe r None q = true -> safe r None (p ++ q) = true.
Proof. intros Hp Hq. apply safe_app_gen; assumption. Qed.

(* a method that passes the scan compiles to a safe program, provided the
   other object's method body it may call is itself safe *)
Lemma scan_compile_safe k self other_body :
  safe (reentrant k) None other_body = true ->
  forall p depth,
    scan k depth p = true ->
    safe (reentrant k) (match depth with 0 => None | S d => Some (self, depth) end)
         (compile self other_body p) = true.
Proof.
  intros Ho. induction p as [|a p IH]; intros depth Hs.
  - simpl in *. apply Nat.eqb_eq in Hs. subst. reflexivity.
  - destruct a; simpl in Hs |- *.
    + apply andb_true_iff in Hs. destruct Hs as [H1 H2]. specialize (IH (S depth) H2).
      destruct depth as [|d]; [exact IH|].
      simpl in H1. rewrite Nat.eqb_refl. rewrite H1 in IH |- *. simpl. exact IH.
    + destruct depth as [|d]; [discriminate|]. specialize (IH d Hs).
      rewrite Nat.eqb_refl. simpl. destruct d as [|d']; exact IH.
    + apply andb_true_iff in Hs. destruct Hs as [_ H2]. apply IH. exact H2.
    + apply andb_true_iff in Hs. destruct Hs as [H1 H2]. apply Nat.eqb_eq in H1. subst depth.
      apply safe_app_gen; [|exact Ho]. exact (IH 0 H2).
    + apply IH. exact Hs.
    + discriminate.
Qed.
